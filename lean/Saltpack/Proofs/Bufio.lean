/-
  The bufio machine (Model/Bufio.lean): `Peek` never moves the read position —
  stated through `view`, what the reader will still deliver (bytes and final
  condition): every `Peek` leaves the view unchanged unless it reports the
  stream's condition itself, in which case it returned the whole remaining
  stream; `Read` removes exactly the bytes it returns; draining the reader
  yields exactly the view.  Behind Props/C16Bufio.
-/
import Saltpack.Model.Bufio
import Saltpack.Proofs.ClassifyAux
import Saltpack.Proofs.ClassifyCodec

namespace Saltpack.Proofs.BufioP
open Saltpack Saltpack.Stream Saltpack.Bufio

/-- all bytes up to and including the first delivery that carries a condition,
    and that condition (EOF when the script runs out) -/
def total : Source → Bytes × RErr
  | [] => ([], .eof)
  | (d, none) :: rest => (d ++ (total rest).1, (total rest).2)
  | (d, some e) :: _ => (d, e)

/-- every scripted read brings data or a condition (no `(0, nil)` reads) -/
def Progress (src : Source) : Prop := ∀ p ∈ src, p.1 ≠ [] ∨ p.2 ≠ none

/-- what the reader will still deliver: bytes and final condition -/
def view (s : BState) : Bytes × BErr :=
  match s.err with
  | some e => (s.buf, e)
  | none => (s.buf ++ (total s.src).1, .src (total s.src).2)

theorem srcRead_total (cap : Nat) (hcap : 0 < cap) (src : Source) (hp : Progress src)
    (d : Bytes) (e : Option RErr) (src' : Source) (h : srcRead cap src = (d, e, src')) :
    Progress src' ∧ d.length ≤ cap ∧
    (e = none → total src = (d ++ (total src').1, (total src').2) ∧ d ≠ []) ∧
    (∀ x, e = some x → total src = (d, x)) := by
  cases src with
  | nil =>
    simp only [srcRead, Prod.mk.injEq] at h
    obtain ⟨rfl, rfl, rfl⟩ := h
    refine ⟨?_, ?_, ?_, ?_⟩
    · intro p hp; cases hp
    · simp
    · intro h; cases h
    · intro x hx; cases hx; rfl
  | cons hd rest =>
    obtain ⟨D, E⟩ := hd
    have hrest : Progress rest := fun p hp' => hp p (List.mem_cons_of_mem _ hp')
    by_cases hl : D.length ≤ cap
    · simp only [srcRead, hl, if_true, Prod.mk.injEq] at h
      obtain ⟨rfl, rfl, rfl⟩ := h
      refine ⟨hrest, hl, ?_, ?_⟩
      · intro he
        subst he
        have := hp (D, none) (by simp)
        refine ⟨rfl, ?_⟩
        rcases this with h | h
        · exact h
        · exact absurd rfl h
      · intro x hx; subst hx; rfl
    · simp only [srcRead, hl, if_false, Prod.mk.injEq] at h
      obtain ⟨rfl, rfl, rfl⟩ := h
      have hdrop : D.drop cap ≠ [] := by
        intro h
        have := congrArg List.length h
        simp only [List.length_drop, List.length_nil] at this
        omega
      have htake : D.take cap ≠ [] := by
        intro h
        have := congrArg List.length h
        simp only [List.length_take, List.length_nil] at this
        omega
      refine ⟨?_, by rw [List.length_take]; omega, ?_, ?_⟩
      · intro p hp'
        simp only [List.mem_cons] at hp'
        rcases hp' with rfl | hp'
        · exact Or.inl hdrop
        · exact hrest p hp'
      · intro _
        refine ⟨?_, htake⟩
        cases E with
        | none => simp only [total]; rw [← List.append_assoc, List.take_append_drop]
        | some x => simp only [total]; rw [List.take_append_drop]
      · intro x hx; cases hx

/-- invariant of the machine -/
structure Inv (s : BState) : Prop where
  prog : Progress s.src
  fits : s.buf.length ≤ s.size
  nofull : s.err ≠ some .bufferFull

/-- one `fill` on a buffer that is not full and has no condition stored -/
theorem fill_view (s : BState) (hi : Inv s) (he : s.err = none) (hroom : s.buf.length < s.size) :
    Inv (fill s) ∧ view (fill s) = view s ∧ (fill s).size = s.size ∧
    ((fill s).err ≠ none ∨ s.buf.length < (fill s).buf.length) ∧ ∃ d, (fill s).buf = s.buf ++ d := by
  unfold fill maxConsecutiveEmptyReads
  rw [show (100 : Nat) = 99 + 1 from rfl, fillLoop]
  generalize hsr : srcRead (s.size - s.buf.length) s.src = res
  obtain ⟨d, e, src'⟩ := res
  obtain ⟨hp', hlen, hnone, hsome⟩ := srcRead_total (s.size - s.buf.length) (by omega) s.src hi.prog d e src' hsr
  simp only
  cases e with
  | some x =>
    have ht := hsome x rfl
    simp only
    refine ⟨?_, ?_, ?_, ?_, ?_⟩
    · exact { prog := hp', fits := by simp only [List.length_append]; omega, nofull := by simp }
    · simp only [view, he, ht]
    · trivial
    · exact Or.inl (by simp)
    · exact ⟨d, rfl⟩
  | none =>
    obtain ⟨ht, hne⟩ := hnone rfl
    have hpos : d.length > 0 := List.length_pos_iff.mpr hne
    simp only [hpos, if_true]
    refine ⟨?_, ?_, ?_, ?_, ?_⟩
    · exact { prog := hp', fits := by simp only [List.length_append]; omega, nofull := by simp [he] }
    · simp only [view, he, ht, List.append_assoc]
    · trivial
    · exact Or.inr (by simp only [List.length_append]; omega)
    · exact ⟨d, rfl⟩

/-- the loop of `Peek` -/
theorem peekLoop_view (n : Nat) : ∀ (fuel : Nat) (s : BState), Inv s → s.size - s.buf.length + 1 ≤ fuel →
    Inv (peekLoop n fuel s) ∧ view (peekLoop n fuel s) = view s ∧ (peekLoop n fuel s).size = s.size ∧
    ¬ ((peekLoop n fuel s).buf.length < n ∧ (peekLoop n fuel s).buf.length < s.size ∧ (peekLoop n fuel s).err = none) ∧
    ∃ d, (peekLoop n fuel s).buf = s.buf ++ d := by
  intro fuel
  induction fuel with
  | zero => intro s _ h; omega
  | succ fuel ih =>
    intro s hi hf
    rw [peekLoop]
    by_cases hc : s.buf.length < n ∧ s.buf.length < s.size ∧ s.err = none
    · rw [if_pos hc]
      obtain ⟨hi', hv, hs, hgrow, d, hd⟩ := fill_view s hi hc.2.2 hc.2.1
      by_cases herr : (fill s).err = none
      · have hg : s.buf.length < (fill s).buf.length := by
          rcases hgrow with h | h
          · exact absurd herr h
          · exact h
        obtain ⟨a, b, c, e, d2, hd2⟩ := ih (fill s) hi' (by rw [hs]; omega)
        refine ⟨a, by rw [b, hv], by rw [c, hs], by rw [hs] at e; exact e, d ++ d2, by rw [hd2, hd, List.append_assoc]⟩
      · -- a condition is stored: the loop stops at once
        have hstop : peekLoop n fuel (fill s) = fill s := by
          cases fuel with
          | zero => rfl
          | succ f => rw [peekLoop, if_neg (by intro h; exact herr h.2.2)]
        rw [hstop]
        exact ⟨hi', hv, hs, by intro h; exact herr h.2.2, d, hd⟩
    · rw [if_neg hc]
      exact ⟨hi, rfl, rfl, hc, [], by simp⟩

/-- **`Peek` does not consume**: the bytes it returns are the first bytes of what
    the reader will deliver; the view is unchanged — except when it reports the
    stream's own condition, and then it has returned the whole remaining stream -/
theorem peek_view (n : Nat) (s : BState) (hi : Inv s)
    (out : Bytes) (e : Option BErr) (s' : BState) (h : peek n s = (out, e, s')) :
    Inv s' ∧ s'.size = s.size ∧
    (e = none → out = (view s).1.take n ∧ out.length = n ∧ view s' = view s ∧ n ≤ s.size) ∧
    (e = some .bufferFull → n > s.size ∧ view s' = view s ∧ ∃ r, (view s).1 = out ++ r) ∧
    (∀ x, e = some x → x ≠ .bufferFull → view s = (out, x) ∧ s'.err = none ∧ s'.buf = out ∧ out.length < n ∧ n ≤ s.size) := by
  obtain ⟨hi', hv, hs, hexit, d, hd⟩ := peekLoop_view n (s.size + 1) s hi (by omega)
  unfold peek at h
  generalize peekLoop n (s.size + 1) s = s1 at hi' hv hs hexit hd h
  simp only at h
  have hpre : ∃ r, (view s1).1 = s1.buf ++ r := by
    unfold view
    cases s1.err with
    | some e => exact ⟨[], by simp⟩
    | none => exact ⟨_, rfl⟩
  by_cases h1 : n > s1.size
  · rw [if_pos h1] at h
    simp only [Prod.mk.injEq] at h
    obtain ⟨rfl, rfl, rfl⟩ := h
    refine ⟨hi', hs, ?_, ?_, ?_⟩
    · intro h0; cases h0
    · intro _; rw [← hv]; exact ⟨by omega, rfl, hpre⟩
    · intro x hx hne; cases hx; exact absurd rfl hne
  · rw [if_neg h1] at h
    by_cases h2 : s1.buf.length < n
    · rw [if_pos h2] at h
      simp only [Prod.mk.injEq] at h
      obtain ⟨rfl, rfl, rfl⟩ := h
      have hfit := hi'.fits
      cases he : s1.err with
      | none =>
        exfalso
        apply hexit
        exact ⟨h2, by omega, he⟩
      | some x =>
        have hvx : view s = (s1.buf, x) := by rw [← hv]; simp [view, he]
        have hxf : x ≠ .bufferFull := by intro hx; subst hx; exact hi'.nofull he
        refine ⟨?_, hs, ?_, ?_, ?_⟩
        · exact { prog := hi'.prog, fits := hi'.fits, nofull := by simp }
        · intro h0; simp at h0
        · intro h0; simp only [Option.getD_some, Option.some.injEq] at h0; exact absurd h0 hxf
        · intro y hy _
          simp only [Option.getD_some, Option.some.injEq] at hy
          subst hy
          exact ⟨hvx, rfl, rfl, h2, by omega⟩
    · rw [if_neg h2] at h
      simp only [Prod.mk.injEq] at h
      obtain ⟨rfl, rfl, rfl⟩ := h
      obtain ⟨r, hr⟩ := hpre
      refine ⟨hi', hs, ?_, ?_, ?_⟩
      · intro _
        refine ⟨?_, ?_, hv, by omega⟩
        · rw [← hv, hr, List.take_append_of_le_length (by omega)]
        · rw [List.length_take]; omega
      · intro h0; cases h0
      · intro x hx; cases hx


/-- **`Read` removes exactly what it returns**: without a condition the view
    loses the returned bytes at its front (at least one byte); with a condition
    the returned bytes and the condition WERE the view -/
theorem read_view (cap : Nat) (hcap : 0 < cap) (s : BState) (hi : Inv s)
    (d : Bytes) (e : Option BErr) (s' : BState) (h : Bufio.read cap s = (d, e, s')) :
    (e = none → Inv s' ∧ s'.size = s.size ∧ (view s).1 = d ++ (view s').1 ∧ (view s).2 = (view s').2 ∧ d ≠ []) ∧
    (∀ x, e = some x → view s = (d, x)) := by
  unfold Bufio.read at h
  rw [if_neg (by omega)] at h
  by_cases hb : s.buf.isEmpty = true
  · rw [if_pos hb] at h
    have hbn : s.buf = [] := by simpa using hb
    cases he : s.err with
    | some x =>
      rw [he] at h
      simp only [Prod.mk.injEq] at h
      obtain ⟨rfl, rfl, rfl⟩ := h
      refine ⟨(by intro h0; cases h0), ?_⟩
      intro y hy; cases hy
      simp [view, he, hbn]
    | none =>
      rw [he] at h
      simp only at h
      by_cases hc : cap ≥ s.size
      · rw [if_pos hc] at h
        generalize hsr : srcRead cap s.src = res at h
        obtain ⟨d0, e0, src'⟩ := res
        obtain ⟨hp', _, hnone, hsome⟩ := srcRead_total cap hcap s.src hi.prog d0 e0 src' hsr
        simp only [Prod.mk.injEq] at h
        obtain ⟨rfl, rfl, rfl⟩ := h
        cases e0 with
        | none =>
          obtain ⟨ht, hne⟩ := hnone rfl
          refine ⟨?_, by intro x hx; cases hx⟩
          intro _
          refine ⟨{ prog := hp', fits := by simp [hbn], nofull := by simp [he] }, rfl, ?_, ?_, hne⟩
          · simp [view, he, hbn, ht]
          · simp [view, he, ht]
        | some x =>
          refine ⟨(by intro h0; cases h0), ?_⟩
          intro y hy
          simp only [Option.map_some, Option.some.injEq] at hy
          subst hy
          simp [view, he, hbn, hsome x rfl]
      · rw [if_neg hc] at h
        generalize hsr : srcRead s.size s.src = res at h
        obtain ⟨d0, e0, src'⟩ := res
        obtain ⟨hp', hlen, hnone, hsome⟩ := srcRead_total s.size (by omega) s.src hi.prog d0 e0 src' hsr
        simp only at h
        by_cases hd0 : d0.isEmpty = true
        · rw [if_pos hd0] at h
          have hd0n : d0 = [] := by simpa using hd0
          simp only [Prod.mk.injEq] at h
          obtain ⟨rfl, rfl, rfl⟩ := h
          cases e0 with
          | none => exact absurd hd0n (hnone rfl).2
          | some x =>
            refine ⟨(by intro h0; cases h0), ?_⟩
            intro y hy
            simp only [Option.map_some, Option.some.injEq] at hy
            subst hy
            simp [view, he, hbn, hsome x rfl, hd0n]
        · rw [if_neg hd0] at h
          simp only [Prod.mk.injEq] at h
          obtain ⟨rfl, rfl, rfl⟩ := h
          have hd0ne : d0 ≠ [] := by simpa using hd0
          have htake : d0.take cap ≠ [] := by
            intro h
            have := congrArg List.length h
            have hl0 : 0 < d0.length := List.length_pos_iff.mpr hd0ne
            simp only [List.length_take, List.length_nil] at this
            omega
          refine ⟨?_, by intro x hx; cases hx⟩
          intro _
          refine ⟨{ prog := hp', fits := by simp only [List.length_drop]; omega, nofull := by cases e0 <;> simp }, rfl, ?_, ?_, htake⟩
          · cases e0 with
            | none =>
              simp only [view, he, hbn, (hnone rfl).1, Option.map_none, List.nil_append]
              rw [← List.append_assoc, List.take_append_drop]
            | some x =>
              simp only [view, he, hbn, hsome x rfl, Option.map_some, List.nil_append]
              rw [List.take_append_drop]
          · cases e0 with
            | none => simp only [view, he, (hnone rfl).1, Option.map_none]
            | some x => simp only [view, he, hsome x rfl, Option.map_some]
  · rw [if_neg hb] at h
    simp only [Prod.mk.injEq] at h
    obtain ⟨rfl, rfl, rfl⟩ := h
    have hbne : s.buf ≠ [] := by simpa using hb
    have htake : s.buf.take cap ≠ [] := by
      intro h
      have := congrArg List.length h
      have hl0 : 0 < s.buf.length := List.length_pos_iff.mpr hbne
      simp only [List.length_take, List.length_nil] at this
      omega
    refine ⟨?_, by intro x hx; cases hx⟩
    intro _
    refine ⟨{ prog := hi.prog, fits := by have := hi.fits; simp only [List.length_drop]; omega, nofull := hi.nofull }, rfl, ?_, ?_, htake⟩
    · unfold view
      cases s.err with
      | some x => simp
      | none => simp only; rw [← List.append_assoc, List.take_append_drop]
    · unfold view
      cases s.err with
      | some x => rfl
      | none => rfl

/-- **draining the reader yields exactly its view**: all bytes, in order, once,
    and the final condition — for every read size and every fragmentation -/
theorem drain_view (cap : Nat) (hcap : 0 < cap) : ∀ (fuel : Nat) (s : BState) (acc : Bytes), Inv s →
    (view s).1.length + 1 ≤ fuel →
    (drain cap fuel s acc).1 = acc ++ (view s).1 ∧ (drain cap fuel s acc).2.1 = some (view s).2 := by
  intro fuel
  induction fuel with
  | zero => intro s acc _ h; omega
  | succ fuel ih =>
    intro s acc hi hf
    rw [drain]
    generalize hr : Bufio.read cap s = res
    obtain ⟨d, e, s1⟩ := res
    obtain ⟨hnone, hsome⟩ := read_view cap hcap s hi d e s1 hr
    simp only
    cases e with
    | some x =>
      have := hsome x rfl
      simp only [this]
      exact ⟨trivial, trivial⟩
    | none =>
      obtain ⟨hi1, _, hv1, hv2, hne⟩ := hnone rfl
      have hl : 0 < d.length := List.length_pos_iff.mpr hne
      have hlen : (view s).1.length = d.length + (view s1).1.length := by rw [hv1, List.length_append]
      obtain ⟨a, b⟩ := ih s1 (acc ++ d) hi1 (by omega)
      simp only
      rw [a, b, hv1, hv2, List.append_assoc]
      exact ⟨rfl, rfl⟩


/-! ## `ClassifyStream` on the machine -/

open Classify

theorem inv_new (src : Source) (size : Nat) (hp : Progress src) : Inv (newReaderSize src size) :=
  { prog := hp, fits := by simp [newReaderSize], nofull := by simp [newReaderSize] }

theorem view_new (src : Source) (size : Nat) :
    view (newReaderSize src size) = ((total src).1, .src (total src).2) := by
  simp [view, newReaderSize]

/-- `IsSaltpackBinary` when the reader can still deliver at least `size` bytes -/
theorem binary_full (s : BState) (hi : Inv s) (hfull : s.size ≤ (view s).1.length)
    (b : MVerdict (Int × Version)) (s' : BState) (h : isSaltpackBinary s = (b, s')) :
    Inv s' ∧ s'.size = s.size ∧ view s' = view s ∧
    b = .v (if s.size < minLen then .short else binarySlice ((view s).1.take minLen)) := by
  unfold isSaltpackBinary at h
  generalize hpk : peek minLen s = res at h
  obtain ⟨out, e, s1⟩ := res
  obtain ⟨hi1, hs1, hnone, hfullc, hcond⟩ := peek_view minLen s hi out e s1 hpk
  simp only at h
  cases e with
  | none =>
    obtain ⟨ho, hl, hv, hle⟩ := hnone rfl
    simp only [Prod.mk.injEq] at h
    obtain ⟨rfl, rfl⟩ := h
    refine ⟨hi1, hs1, hv, ?_⟩
    rw [if_neg (by omega), ho]
  | some x =>
    cases x with
    | bufferFull =>
      obtain ⟨hn, hv, _⟩ := hfullc rfl
      simp only [Prod.mk.injEq] at h
      obtain ⟨rfl, rfl⟩ := h
      exact ⟨hi1, hs1, hv, by rw [if_pos hn]⟩
    | src y =>
      exfalso
      obtain ⟨hv, _, _, hlt, hle⟩ := hcond _ rfl (by simp)
      rw [hv] at hfull
      simp only at hfull
      omega
    | noProgress =>
      exfalso
      obtain ⟨hv, _, _, hlt, hle⟩ := hcond _ rfl (by simp)
      rw [hv] at hfull
      simp only at hfull
      omega


theorem binarySlice_ne_eof (b : Bytes) : Classify.binarySlice b ≠ .eof := by
  unfold Classify.binarySlice
  repeat' (first | split | dsimp only)
  all_goals first
    | exact (Saltpack.Proofs.CodecMono.binBody_ne_short _).2
    | (intro h; cases h; done)

theorem armoredPrefix_ne_eof (pref : Bytes) : Classify.armoredPrefix pref ≠ .eof := by
  rw [Saltpack.Proofs.ClsAux.armoredPrefix_norm]
  unfold Saltpack.Proofs.ClsAux.classifyNorm
  dsimp only
  split
  · repeat' split
    all_goals first | (intro h; cases h; done)
  · split
    · intro h; cases h
    · split
      · intro h; cases h
      next hb => exact absurd hb (binarySlice_ne_eof _)
      · intro h; cases h
      · intro h; cases h
      · split
        · intro h; cases h
        · intro h; cases h

/-- the `bin` continuation of `ClassifyStream` -/
def binCont (s1 : BState) : MVerdict (Bool × Bytes × Int × Version) × BState :=
  let (b, s2) := isSaltpackBinary s1
  match b with
  | .v (.ok (t, v)) => (.v (.ok (false, [], t, v)), s2)
  | .v .short => (.v .short, s2)
  | .v .eof => (.v .eof, s2)
  | .v .notSaltpack => (.v .notSaltpack, s2)
  | .v (.unmodelled w) => (.v (.unmodelled w), s2)
  | .fail e => (.fail e, s2)

theorem classifyStreamM_eq (s : BState) : classifyStreamM s =
    match (isSaltpackArmored s).1 with
    | .v (.ok (b, t, v)) => (.v (.ok (true, b, t, v)), (isSaltpackArmored s).2)
    | .v .short => (.v .short, (isSaltpackArmored s).2)
    | .v (.unmodelled w) => (.v (.unmodelled w), (isSaltpackArmored s).2)
    | .fail e => (.fail e, (isSaltpackArmored s).2)
    | .v .notSaltpack => binCont (isSaltpackArmored s).2
    | .v .eof => binCont (isSaltpackArmored s).2 := by
  unfold classifyStreamM binCont
  generalize isSaltpackArmored s = r
  obtain ⟨a, s1⟩ := r
  rfl

/-- **machine = pure function, nothing consumed** — when the reader can deliver
    at least a full buffer (`size` bytes): `ClassifyStream` answers what the pure
    `classifyStream size` answers on the bytes to come, and the view (all bytes
    to come, and their final condition) is unchanged -/
theorem classify_full (s : BState) (hi : Inv s) (hsz : 0 < s.size) (hfull : s.size ≤ (view s).1.length) :
    Inv (classifyStreamM s).2 ∧ view (classifyStreamM s).2 = view s ∧
    (classifyStreamM s).1 = .v (classifyStream s.size (view s).1) := by
  rw [classifyStreamM_eq]
  -- the armored peek
  have harm : ∃ s1, isSaltpackArmored s = (.v (armoredPrefix ((view s).1.take s.size)), s1) ∧ Inv s1 ∧
      s1.size = s.size ∧ view s1 = view s := by
    unfold isSaltpackArmored
    generalize hpk : peek s.size s = res
    obtain ⟨out, e, s1⟩ := res
    obtain ⟨hi1, hs1, hnone, hfullc, hcond⟩ := peek_view s.size s hi out e s1 hpk
    simp only
    cases e with
    | none =>
      obtain ⟨ho, hl, hv, _⟩ := hnone rfl
      have hne : out.isEmpty = false := by
        cases out with
        | nil => simp at hl; omega
        | cons _ _ => rfl
      simp only [hne, Bool.false_eq_true, if_false]
      exact ⟨s1, by rw [ho], hi1, hs1, hv⟩
    | some x =>
      exfalso
      cases x with
      | bufferFull => have := (hfullc rfl).1; omega
      | src y =>
        obtain ⟨hv, _, _, hlt, _⟩ := hcond _ rfl (by simp)
        rw [hv] at hfull; simp only at hfull; omega
      | noProgress =>
        obtain ⟨hv, _, _, hlt, _⟩ := hcond _ rfl (by simp)
        rw [hv] at hfull; simp only at hfull; omega
  obtain ⟨s1, ha, hi1, hs1, hv1⟩ := harm
  rw [ha]
  simp only
  have hpk : ((view s).1.take s.size).isEmpty = false := by
    have : 0 < ((view s).1.take s.size).length := by rw [List.length_take]; omega
    cases hh : (view s).1.take s.size with
    | nil => rw [hh] at this; simp at this
    | cons _ _ => rfl
  -- the binary continuation, if reached
  have hbin : Inv (binCont s1).2 ∧ view (binCont s1).2 = view s ∧
      (binCont s1).1 = .v (if s.size < minLen then .short else
        match binarySlice ((view s).1.take minLen) with
        | .ok (t, v) => .ok (false, [], t, v)
        | .short => .short
        | .eof => .eof
        | .notSaltpack => .notSaltpack
        | .unmodelled w => .unmodelled w) := by
    unfold binCont
    generalize hb : isSaltpackBinary s1 = rb
    obtain ⟨b, s2⟩ := rb
    obtain ⟨hi2, _, hv2, hbv⟩ := binary_full s1 hi1 (by rw [hs1, hv1]; exact hfull) b s2 hb
    rw [hs1, hv1] at hbv
    subst hbv
    by_cases hlt : s.size < minLen
    · simp only [hlt, if_true]
      exact ⟨hi2, by rw [hv2, hv1], trivial⟩
    · simp only [hlt, if_false]
      refine ⟨?_, ?_, ?_⟩
      · cases binarySlice ((view s).1.take minLen) <;> first | exact hi2 | (rename_i x; cases x; exact hi2)
      · cases binarySlice ((view s).1.take minLen) <;> first | (rw [hv2, hv1]) | (rename_i x; cases x; rw [hv2, hv1])
      · cases binarySlice ((view s).1.take minLen) <;> first | rfl | (rename_i x; cases x; rfl)
  have hlen : ¬ (view s).1.length < minLen ∨ s.size < minLen := by
    by_cases h : s.size < minLen
    · exact Or.inr h
    · exact Or.inl (by omega)
  unfold classifyStream
  simp only [hpk, Bool.false_eq_true, if_false]
  cases harmv : armoredPrefix ((view s).1.take s.size) with
  | ok x => obtain ⟨b, t, v⟩ := x; exact ⟨hi1, hv1, rfl⟩
  | short => exact ⟨hi1, hv1, rfl⟩
  | unmodelled w => exact ⟨hi1, hv1, rfl⟩
  | eof => exact absurd harmv (armoredPrefix_ne_eof _)
  | notSaltpack =>
    refine ⟨hbin.1, hbin.2.1, ?_⟩
    rw [hbin.2.2]
    by_cases h : s.size < minLen
    · simp [h]
    · have : ¬ (view s).1.length < minLen := by omega
      simp only [h, this, if_false]
      cases binarySlice ((view s).1.take minLen) <;> first | rfl | (rename_i x; cases x; rfl)

/-- **a source error within the peeked range is reported, never swallowed into
    a verdict**: if the stream ends with an error `x` before a full buffer could
    be peeked, `ClassifyStream` returns that error -/
theorem classify_reports_error (s : BState) (hi : Inv s) (all : Bytes) (x : Err)
    (hv : view s = (all, .src (.err x))) (hshort : all.length < s.size) :
    (classifyStreamM s).1 = .fail (.src (.err x)) := by
  rw [classifyStreamM_eq]
  have harm : (isSaltpackArmored s).1 = .fail (.src (.err x)) := by
    unfold isSaltpackArmored
    generalize hpk : peek s.size s = res
    obtain ⟨out, e, s1⟩ := res
    obtain ⟨hi1, hs1, hnone, hfullc, hcond⟩ := peek_view s.size s hi out e s1 hpk
    simp only
    cases e with
    | none =>
      exfalso
      obtain ⟨ho, hl, _, _⟩ := hnone rfl
      rw [hv] at ho
      have := congrArg List.length ho
      rw [List.length_take] at this
      simp only at this
      omega
    | some y =>
      cases y with
      | bufferFull => exfalso; have := (hfullc rfl).1; omega
      | src z =>
        obtain ⟨hv', _, _, _, _⟩ := hcond _ rfl (by simp)
        rw [hv] at hv'
        simp only [Prod.mk.injEq, BErr.src.injEq] at hv'
        obtain ⟨_, rfl⟩ := hv'
        rfl
      | noProgress =>
        exfalso
        obtain ⟨hv', _, _, _, _⟩ := hcond _ rfl (by simp)
        rw [hv] at hv'
        simp at hv'
  rw [harm]

/-- **classification, then reading the stream to its end, yields exactly the
    bytes and the final condition of the underlying source** (full-buffer case:
    the source holds at least `size` bytes): nothing consumed, nothing duplicated,
    for every fragmentation of the source and every read size -/
theorem classify_then_drain (src : Source) (size cap fuel : Nat) (hp : Progress src) (hcap : 0 < cap)
    (hfull : max size minReadBufferSize ≤ (total src).1.length) (hfuel : (total src).1.length + 1 ≤ fuel) :
    let r := classifyStreamM (newReaderSize src size)
    r.1 = .v (classifyStream (max size minReadBufferSize) (total src).1) ∧
    (drain cap fuel r.2 []).1 = (total src).1 ∧
    (drain cap fuel r.2 []).2.1 = some (.src (total src).2) := by
  have hi := inv_new src size hp
  have hvw := view_new src size
  have hsz : (newReaderSize src size).size = max size minReadBufferSize := rfl
  obtain ⟨hi1, hv1, hr⟩ := classify_full (newReaderSize src size) hi
    (by rw [hsz]; unfold minReadBufferSize; omega) (by rw [hsz, hvw]; exact hfull)
  rw [hvw, hsz] at hr
  obtain ⟨a, b⟩ := drain_view cap hcap fuel (classifyStreamM (newReaderSize src size)).2 [] hi1
    (by rw [hv1, hvw]; exact hfuel)
  rw [hv1, hvw] at a b
  exact ⟨hr, by simpa using a, b⟩

end Saltpack.Proofs.BufioP
