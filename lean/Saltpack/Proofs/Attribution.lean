/-
  Attribution: how the sender a receiver *reports* (and the MAC key / signing
  key every accepted packet is then checked under — `C02_accept_binds`,
  `C04_accept_binds`) is tied to the header.

  * encryption: the reported sender key is the content of the header's sender
    secretbox under the payload key that came out of the receiver's *own*
    recipient entry, and the MAC key is derived from box(own secret key, that
    reported sender key) (V2: additionally box(own secret key, ephemeral key));
  * signcryption: the reported signing key is the keyring's answer for the
    content of the sender secretbox under the unboxed payload key;
  * under `Prims.Lawful` the receiver's MAC key is the one the sender derives;
  * `hkey_of_honest_header`: a receiver that accepts the HONEST header derives the
    sender's payload key (the `hkey` hypothesis of `C02_authentic_or_break`).
-/
import Saltpack.Model.Signcrypt
import Saltpack.Proofs.EncLemmas
import Saltpack.Proofs.RoundTripEnc
import Saltpack.Toy

namespace Saltpack.Proofs
open Saltpack

/-! ### where the payload key comes from -/

theorem Attr.tryVisible_ok (P : Prims) (kr : Keyring) (h : EncHeader) (eph sk pk : Bytes) (pos : Nat)
    (log : List KeyCall)
    (hok : Decrypt.tryVisible P kr h eph = (log, .ok (some (sk, pk, pos)))) :
    pk.length = 32 ∧
    ∃ nonce, Nonce.payloadKeyBox h.version pos = .ok nonce ∧
      P.unbox sk eph nonce (h.receivers.getD pos default).box = some pk ∧
      ∃ i, kr.lookupBoxSecretKey ((Decrypt.visibleIndices h.receivers).map
              (fun i => Decrypt.kidOf (h.receivers.getD i default))) = (i, some sk) ∧
        0 ≤ i ∧ (Decrypt.visibleIndices h.receivers)[i.toNat]? = some pos := by
  unfold Decrypt.tryVisible at hok
  simp only [] at hok
  split at hok
  · cases hok
  · rename_i sk' hsk
    split at hok
    · cases hok
    · rename_i hi
      split at hok
      · cases hok
      · rename_i orig horig
        split at hok
        · cases hok
        · rename_i nonce hn
          split at hok
          · cases hok
          · rename_i pk' hpk
            split at hok
            · cases hok
            · rename_i hlen
              cases hok
              exact ⟨by simpa using hlen, nonce, hn, hpk, _, Prod.ext rfl hsk, Int.not_lt.1 hi, horig⟩

theorem Attr.tryHiddenOne_ok (P : Prims) (v : Version) (sk eph pk : Bytes) (i : Nat) :
    ∀ (l : List (RecvKeys × Nat)) (log : List KeyCall),
      Decrypt.tryHiddenOne P v sk eph l = (log, .ok (some (pk, i))) →
      pk.length = 32 ∧ ∃ r nonce, (r, i) ∈ l ∧ Decrypt.isHidden r = true ∧
        Nonce.payloadKeyBox v i = .ok nonce ∧ P.unbox sk eph nonce r.box = some pk := by
  intro l
  induction l with
  | nil => intro log hok; simp [Decrypt.tryHiddenOne] at hok
  | cons q rest ih =>
    intro log hok
    obtain ⟨r, j⟩ := q
    unfold Decrypt.tryHiddenOne at hok
    split at hok
    · rename_i hhid
      split at hok
      · cases hok
      · rename_i nonce hn
        simp only [] at hok
        split at hok
        · generalize hrec : Decrypt.tryHiddenOne P v sk eph rest = rr at hok
          obtain ⟨log', res'⟩ := rr
          simp only [Prod.mk.injEq] at hok
          obtain ⟨_, hres⟩ := hok
          subst hres
          obtain ⟨hl, r', n', hm, hh', hn', ho'⟩ := ih log' hrec
          exact ⟨hl, r', n', List.mem_cons_of_mem _ hm, hh', hn', ho'⟩
        · rename_i pk' hpk
          split at hok
          · cases hok
          · rename_i hlen
            cases hok
            exact ⟨by simpa using hlen, r, nonce, List.mem_cons_self, hhid, hn, hpk⟩
    · obtain ⟨hl, r', n', hm, hh', hn', ho'⟩ := ih log hok
      exact ⟨hl, r', n', List.mem_cons_of_mem _ hm, hh', hn', ho'⟩

theorem Attr.tryHidden_ok (P : Prims) (h : EncHeader) (eph sk pk : Bytes) (i : Nat) :
    ∀ (sks : List Bytes) (log : List KeyCall),
      Decrypt.tryHidden P h eph sks = (log, .ok (some (sk, pk, i))) →
      sk ∈ sks ∧ pk.length = 32 ∧ ∃ r nonce, h.receivers[i]? = some r ∧ Decrypt.isHidden r = true ∧
        Nonce.payloadKeyBox h.version i = .ok nonce ∧ P.unbox sk eph nonce r.box = some pk := by
  intro sks
  induction sks with
  | nil => intro log hok; simp [Decrypt.tryHidden] at hok
  | cons s sks ih =>
    intro log hok
    unfold Decrypt.tryHidden at hok
    generalize hone : Decrypt.tryHiddenOne P h.version s eph h.receivers.zipIdx = one at hok
    obtain ⟨log1, res1⟩ := one
    simp only [] at hok
    split at hok
    · cases hok
    · rename_i pk' i'
      cases hok
      obtain ⟨hl, r, n, hm, hh', hn, ho⟩ := Attr.tryHiddenOne_ok P h.version sk eph pk i _ _ hone
      exact ⟨List.mem_cons_self, hl, r, n, List.mem_zipIdx_iff_getElem?.1 hm, hh', hn, ho⟩
    · generalize hrec : Decrypt.tryHidden P h eph sks = rr at hok
      obtain ⟨log', res'⟩ := rr
      simp only [Prod.mk.injEq] at hok
      obtain ⟨_, hres⟩ := hok
      subst hres
      obtain ⟨hmem, rest⟩ := ih log' hrec
      exact ⟨List.mem_cons_of_mem _ hmem, rest⟩

/-! ### encryption: what the reported sender and the MAC key are -/

theorem decrypt_attribution (P : Prims) (valid : Validator) (kr : Keyring) (hh : Bytes) (h : EncHeader)
    (log : List KeyCall) (st : Decrypt.State)
    (hok : Decrypt.processHeader P valid kr hh h = (log, .ok st)) :
    Decrypt.validate valid h = .ok () ∧
    ∃ eph sk pk pos senderKey,
      kr.importBoxEphemeralKey h.ephemeral = some eph ∧
      st.payloadKey = pk ∧ st.headerHash = hh ∧ st.position = pos ∧ st.version = h.version ∧
      st.mki.receiverKey = sk ∧
      P.sbOpen pk Nonce.senderKeySecretBox h.senderSecretbox = some senderKey ∧ senderKey.length = 32 ∧
      st.mki.senderIsAnon = (h.ephemeral == senderKey) ∧
      (st.mki.senderIsAnon = false → kr.lookupBoxPublicKey senderKey = some st.mki.senderKey) ∧
      (st.mki.senderIsAnon = true → st.mki.senderKey = eph) ∧
      (Decrypt.macKeyReceiver P h.version pos sk st.mki.senderKey eph hh).2 = .ok st.macKey ∧
      pk.length = 32 ∧
      ∃ r nonce, h.receivers[pos]? = some r ∧ Nonce.payloadKeyBox h.version pos = .ok nonce ∧
        P.unbox sk eph nonce r.box = some pk ∧
        (st.mki.receiverIsAnon = false →
          (∃ k, r.kid = some k ∧ k ≠ []) ∧
          ∃ i, kr.lookupBoxSecretKey st.mki.namedReceivers = (i, some sk) ∧ 0 ≤ i ∧
            (Decrypt.visibleIndices h.receivers)[i.toNat]? = some pos ∧
            st.mki.namedReceivers[i.toNat]? = some (Decrypt.kidOf r)) ∧
        (st.mki.receiverIsAnon = true →
          Decrypt.isHidden r = true ∧ sk ∈ kr.getAllBoxSecretKeys) := by
  unfold Decrypt.processHeader at hok
  split at hok
  · cases hok
  · rename_i hval
    refine ⟨hval, ?_⟩
    split at hok
    · cases hok
    · rename_i eph heph
      generalize htv : Decrypt.tryVisible P kr h eph = tv at hok
      obtain ⟨log1, vis⟩ := tv
      simp only [] at hok
      split at hok
      · cases hok
      · rename_i vis'
        rcases vis' with _ | ⟨sk, pk, pos⟩
        case' none =>
          generalize hth : Decrypt.tryHidden P h eph kr.getAllBoxSecretKeys = th at hok
          obtain ⟨log2, hid⟩ := th
          simp only [] at hok
          split at hok
          · cases hok
          · cases hok
          rename_i sk pk pos
        case' some => simp only [] at hok
        all_goals (
          split at hok
          · cases hok
          rename_i senderKey hsb
          split at hok
          · cases hok
          rename_i hslen
          split at hok
          · cases hok
          rename_i senderPub hsp
          split at hok
          · cases hok
          rename_i mk hmk
          cases hok
          refine ⟨eph, sk, pk, pos, senderKey, heph, rfl, rfl, rfl, rfl, rfl, hsb, by simpa using hslen, rfl,
            ?_, ?_, hmk, ?_⟩
          · intro ha
            simp only [] at ha
            rw [ha] at hsp
            simpa using hsp
          · intro ha
            simp only [] at ha
            rw [ha] at hsp
            simpa using hsp.symm)
        · obtain ⟨hl, nonce, hn, ho, i, hlk, hi, hvi⟩ := Attr.tryVisible_ok P kr h eph sk pk pos log1 htv
          have hmem : pos ∈ Decrypt.visibleIndices h.receivers := List.mem_of_getElem? hvi
          obtain ⟨r, k, hr, hk, hne⟩ := mem_visibleIndices.1 hmem
          have hgd : h.receivers.getD pos default = r := by simp [List.getD_eq_getElem?_getD, hr]
          rw [hgd] at ho
          refine ⟨hl, r, nonce, hr, hn, ho, ?_, ?_⟩
          · intro _
            refine ⟨⟨k, hk, hne⟩, i, hlk, hi, hvi, ?_⟩
            simp only [List.getElem?_map, hvi, Option.map_some, hgd]
          · intro hc; exact absurd hc (by simp)
        · obtain ⟨hm, hl, r, nonce, hr, hhid, hn, ho⟩ := Attr.tryHidden_ok P h eph sk pk pos _ log2 hth
          exact ⟨hl, r, nonce, hr, hn, ho, fun hc => absurd hc (by simp), fun _ => ⟨hhid, hm⟩⟩

/-- V1: the MAC key is bytes 16..48 of box(own secret key, reported sender key) of
    32 zero bytes under the header-hash nonce -/
theorem decrypt_mackey_v1 (P : Prims) (valid : Validator) (kr : Keyring) (hh : Bytes) (h : EncHeader)
    (log : List KeyCall) (st : Decrypt.State)
    (hok : Decrypt.processHeader P valid kr hh h = (log, .ok st)) (hv : h.version.major = 1) :
    st.macKey = macKeySingle P st.mki.receiverKey st.mki.senderKey (Nonce.macKeyBoxV1 hh) := by
  obtain ⟨_, eph, sk, pk, pos, senderKey, _, _, _, _, _, hsk, _, _, _, _, _, hmk, _⟩ :=
    decrypt_attribution P valid kr hh h log st hok
  subst hsk
  simp only [Decrypt.macKeyReceiver, hv, if_true, Except.ok.injEq] at hmk
  exact hmk.symm

/-- V2: the MAC key is the truncated hash of the two single MAC keys, for
    (own secret key, reported sender key) and (own secret key, ephemeral key),
    under the nonces that carry the header hash and the receiver's own index -/
theorem decrypt_mackey_v2 (P : Prims) (valid : Validator) (kr : Keyring) (hh : Bytes) (h : EncHeader)
    (log : List KeyCall) (st : Decrypt.State)
    (hok : Decrypt.processHeader P valid kr hh h = (log, .ok st)) (hv : h.version.major = 2) :
    ∃ eph, kr.importBoxEphemeralKey h.ephemeral = some eph ∧
      st.macKey = sum512Truncate256 P
        (macKeySingle P st.mki.receiverKey st.mki.senderKey (Nonce.macKeyBoxV2 hh false st.position) ++
         macKeySingle P st.mki.receiverKey eph (Nonce.macKeyBoxV2 hh true st.position)) := by
  obtain ⟨_, eph, sk, pk, pos, senderKey, heph, _, _, hpos, _, hsk, _, _, _, _, _, hmk, _⟩ :=
    decrypt_attribution P valid kr hh h log st hok
  subst hsk hpos
  have h1 : ¬ h.version.major = 1 := by omega
  rw [Decrypt.macKeyReceiver, if_neg h1, if_pos hv] at hmk
  exact ⟨eph, heph, (Except.ok.inj hmk).symm⟩

/-! ### signcryption: where the payload key comes from -/

theorem Attr.tryBoxOne_ok (P : Prims) (r : RecvKeys) (i : Nat) (pk : Bytes) :
    ∀ (dks : List Bytes), Signcrypt.tryBoxOne P dks r i = some (.ok pk) →
      pk.length = 32 ∧ ∃ dk, dk ∈ dks ∧ Signcrypt.keyIdentifier P dk i = Decrypt.kidOf r ∧
        P.sbOpen dk (Nonce.payloadKeyBoxV2 i) r.box = some pk := by
  intro dks
  induction dks with
  | nil => intro hok; simp [Signcrypt.tryBoxOne] at hok
  | cons dk rest ih =>
    intro hok
    unfold Signcrypt.tryBoxOne at hok
    split at hok
    · rename_i hkid
      split at hok
      · cases hok
      · rename_i pk' hpk
        split at hok
        · cases hok
        · rename_i hlen
          cases hok
          exact ⟨by simpa using hlen, dk, List.mem_cons_self, by simpa using hkid, hpk⟩
    · obtain ⟨hl, dk', hm, hk, ho⟩ := ih hok
      exact ⟨hl, dk', List.mem_cons_of_mem _ hm, hk, ho⟩

theorem Attr.tryBox_ok (P : Prims) (dks : List Bytes) (pk : Bytes) :
    ∀ (l : List (RecvKeys × Nat)), Signcrypt.tryBox P dks l = .ok (some pk) →
      pk.length = 32 ∧ ∃ r i dk, (r, i) ∈ l ∧ dk ∈ dks ∧
        Signcrypt.keyIdentifier P dk i = Decrypt.kidOf r ∧
        P.sbOpen dk (Nonce.payloadKeyBoxV2 i) r.box = some pk := by
  intro l
  induction l with
  | nil => intro hok; simp [Signcrypt.tryBox] at hok
  | cons q rest ih =>
    intro hok
    obtain ⟨r, i⟩ := q
    unfold Signcrypt.tryBox at hok
    split at hok
    · rename_i pk' hone
      cases hok
      obtain ⟨hl, dk, hm, hk, ho⟩ := Attr.tryBoxOne_ok P r i pk dks hone
      exact ⟨hl, r, i, dk, List.mem_cons_self, hm, hk, ho⟩
    · cases hok
    · obtain ⟨hl, r', i', dk, hm, hd, hk, ho⟩ := ih hok
      exact ⟨hl, r', i', dk, List.mem_cons_of_mem _ hm, hd, hk, ho⟩

theorem Attr.trySym_go_ok (P : Prims) (ephPub pk : Bytes) :
    ∀ (l : List (Option Bytes × RecvKeys × Nat)), Signcrypt.trySym.go P ephPub l = .ok (some pk) →
      pk.length = 32 ∧ ∃ k r i, (some k, r, i) ∈ l ∧
        P.sbOpen (Signcrypt.symDerivedKey P ephPub k) (Nonce.payloadKeyBoxV2 i) r.box = some pk := by
  intro l
  induction l with
  | nil => intro hok; simp [Signcrypt.trySym.go] at hok
  | cons q rest ih =>
    intro hok
    obtain ⟨ko, r, i⟩ := q
    cases ko with
    | none =>
      simp only [Signcrypt.trySym.go] at hok
      obtain ⟨hl, k, r', i', hm, ho⟩ := ih hok
      exact ⟨hl, k, r', i', List.mem_cons_of_mem _ hm, ho⟩
    | some k =>
      simp only [Signcrypt.trySym.go] at hok
      split at hok
      · cases hok
      · rename_i pk' hpk
        split at hok
        · cases hok
        · rename_i hlen
          cases hok
          exact ⟨by simpa using hlen, k, r, i, List.mem_cons_self, hpk⟩

theorem Attr.trySym_ok (P : Prims) (res : Signcrypt.Resolver) (h : EncHeader) (ephPub pk : Bytes)
    (hok : Signcrypt.trySym P res h ephPub = .ok (some pk)) :
    pk.length = 32 ∧ ∃ f keys k r i, res = some f ∧ f (h.receivers.map Decrypt.kidOf) = .ok keys ∧
      keys[i]? = some (some k) ∧ h.receivers[i]? = some r ∧
      P.sbOpen (Signcrypt.symDerivedKey P ephPub k) (Nonce.payloadKeyBoxV2 i) r.box = some pk := by
  unfold Signcrypt.trySym at hok
  split at hok
  · cases hok
  · rename_i f
    simp only [] at hok
    split at hok
    · cases hok
    · rename_i keys hkeys
      split at hok
      · cases hok
      · obtain ⟨hl, k, r, i, hm, ho⟩ := Attr.trySym_go_ok P ephPub pk _ hok
        obtain ⟨j, hj⟩ := List.mem_iff_getElem?.1 hm
        rw [List.getElem?_zip_eq_some] at hj
        obtain ⟨hj1, hj2⟩ := hj
        simp only [] at hj1 hj2
        have hmem : (r, i) ∈ h.receivers.zipIdx := List.mem_of_getElem? hj2
        have hri := List.mem_zipIdx_iff_getElem?.1 hmem
        simp only [] at hri
        have hij : i = j := by
          rw [List.getElem?_zipIdx] at hj2
          cases hrj : h.receivers[j]? with
          | none => rw [hrj] at hj2; cases hj2
          | some r' =>
            rw [hrj] at hj2
            simp only [Option.map_some, Option.some.injEq, Prod.mk.injEq] at hj2
            omega
        subst hij
        exact ⟨hl, f, keys, k, r, i, rfl, hkeys, hj1, hri, ho⟩

/-! ### signcryption: what the reported sender is -/

theorem signcrypt_attribution (P : Prims) (kr : Keyring) (res : Signcrypt.Resolver) (hh : Bytes)
    (h : EncHeader) (log : List KeyCall) (st : Signcrypt.State)
    (hok : Signcrypt.processHeader P kr res hh h = (log, .ok st)) :
    Signcrypt.validate h = .ok () ∧ st.headerHash = hh ∧ st.payloadKey.length = 32 ∧
    (∃ senderKey, P.sbOpen st.payloadKey Nonce.senderKeySecretBox h.senderSecretbox = some senderKey ∧
      (st.sender = none ↔ senderKey.all (· == 0) = true) ∧
      (∀ spk, st.sender = some spk → kr.lookupSigningPublicKey senderKey = some spk)) ∧
    ∃ eph, kr.importBoxEphemeralKey h.ephemeral = some eph ∧
      ∃ r i dk, h.receivers[i]? = some r ∧
        P.sbOpen dk (Nonce.payloadKeyBoxV2 i) r.box = some st.payloadKey ∧
        ((∃ sk, sk ∈ kr.getAllBoxSecretKeys ∧ dk = Signcrypt.derivedKeyFromBoxKeys P eph sk ∧
            Signcrypt.keyIdentifier P dk i = Decrypt.kidOf r) ∨
         (∃ f keys k, res = some f ∧ f (h.receivers.map Decrypt.kidOf) = .ok keys ∧
            keys[i]? = some (some k) ∧ dk = Signcrypt.symDerivedKey P eph k)) := by
  unfold Signcrypt.processHeader at hok
  split at hok
  · cases hok
  rename_i hval
  refine ⟨hval, ?_⟩
  split at hok
  · cases hok
  rename_i eph heph
  simp only [] at hok
  split at hok
  · cases hok
  · cases hok
  rename_i pk hpk
  split at hok
  · cases hok
  rename_i senderKey hsb
  have horigin : pk.length = 32 ∧ ∃ r i dk, h.receivers[i]? = some r ∧
        P.sbOpen dk (Nonce.payloadKeyBoxV2 i) r.box = some pk ∧
        ((∃ sk, sk ∈ kr.getAllBoxSecretKeys ∧ dk = Signcrypt.derivedKeyFromBoxKeys P eph sk ∧
            Signcrypt.keyIdentifier P dk i = Decrypt.kidOf r) ∨
         (∃ f keys k, res = some f ∧ f (h.receivers.map Decrypt.kidOf) = .ok keys ∧
            keys[i]? = some (some k) ∧ dk = Signcrypt.symDerivedKey P eph k)) := by
    split at hpk
    · cases hpk
    · rename_i pk' htb
      cases hpk
      obtain ⟨hl, r, i, dk, hm, hd, hk, ho⟩ := Attr.tryBox_ok P _ pk _ htb
      obtain ⟨sk, hsk, hdk⟩ := List.mem_map.1 hd
      exact ⟨hl, r, i, dk, List.mem_zipIdx_iff_getElem?.1 hm, ho, Or.inl ⟨sk, hsk, hdk.symm, hk⟩⟩
    · obtain ⟨hl, f, keys, k, r, i, hf, hkeys, hki, hr, ho⟩ := Attr.trySym_ok P res h eph pk hpk
      exact ⟨hl, r, i, _, hr, ho, Or.inr ⟨f, keys, k, hf, hkeys, hki, rfl⟩⟩
  split at hok
  · rename_i hz
    cases hok
    exact ⟨rfl, horigin.1, ⟨senderKey, hsb, ⟨fun _ => hz, fun _ => rfl⟩, fun spk hs => (by cases hs)⟩,
      eph, heph, horigin.2⟩
  · rename_i hz
    split at hok
    · cases hok
    · rename_i spk hspk
      cases hok
      exact ⟨rfl, horigin.1, ⟨senderKey, hsb, ⟨fun hc => (by cases hc), fun hc => absurd hc hz⟩,
        fun spk' hs => (by cases hs; exact hspk)⟩, eph, heph, horigin.2⟩

/-! ### the receiver's MAC key is the sender's -/

theorem Attr.macKeySingle_comm (P : Prims) (hP : P.Lawful) (a b n : Bytes) :
    macKeySingle P a (P.boxPub b) n = macKeySingle P b (P.boxPub a) n := by
  simp only [macKeySingle, Prims.box, hP.dh_comm a b]

theorem sender_and_receiver_agree_v1 (P : Prims) (hP : P.Lawful) (valid : Validator) (kr : Keyring)
    (hh : Bytes) (h : EncHeader) (log : List KeyCall) (st : Decrypt.State)
    (hok : Decrypt.processHeader P valid kr hh h = (log, .ok st)) (hv : h.version = v1)
    (senderSecret ephSecret recipientPub : Bytes)
    (hs : st.mki.senderKey = P.boxPub senderSecret)
    (hr : P.boxPub st.mki.receiverKey = recipientPub) :
    Encrypt.macKeySender P h.version st.position senderSecret ephSecret recipientPub hh = .ok st.macKey := by
  have hm := decrypt_mackey_v1 P valid kr hh h log st hok (by rw [hv]; rfl)
  rw [hm, hs, ← hr, hv]
  simp only [Encrypt.macKeySender, if_true, Attr.macKeySingle_comm P hP senderSecret]

theorem sender_and_receiver_agree_v2 (P : Prims) (hP : P.Lawful) (valid : Validator) (kr : Keyring)
    (hh : Bytes) (h : EncHeader) (log : List KeyCall) (st : Decrypt.State)
    (hok : Decrypt.processHeader P valid kr hh h = (log, .ok st)) (hv : h.version = v2)
    (senderSecret ephSecret recipientPub : Bytes)
    (hs : st.mki.senderKey = P.boxPub senderSecret)
    (he : kr.importBoxEphemeralKey h.ephemeral = some (P.boxPub ephSecret))
    (hr : P.boxPub st.mki.receiverKey = recipientPub) :
    Encrypt.macKeySender P h.version st.position senderSecret ephSecret recipientPub hh = .ok st.macKey := by
  obtain ⟨eph, heph, hm⟩ := decrypt_mackey_v2 P valid kr hh h log st hok (by rw [hv]; rfl)
  rw [he] at heph
  cases heph
  rw [hm, hs, ← hr, hv]
  simp only [Encrypt.macKeySender, if_neg v2_ne_v1, if_true, Attr.macKeySingle_comm P hP senderSecret,
    Attr.macKeySingle_comm P hP ephSecret]

/-! ### the payload key of the honest header -/

/-- **`hkey` of `C02_authentic_or_break`, derived for the honest header.**  If
    the header `h` a receiver accepted IS the header an honest sender built
    (`Encrypt.header` with ephemeral secret `ephSec`, payload key `pk`,
    recipient list `rs`), the keyring imports the ephemeral key faithfully, and
    the secret key that opened the receiver's entry is the key the sender
    addressed at that position, then the payload key the receiver derived is the
    sender's.  (What remains of `hkey` is the step from "same header hash" to
    "same header": collision resistance of the header hash, plus determinism of
    the header decoder.) -/
theorem hkey_of_honest_header (P : Prims) (hP : P.Lawful) (valid : Validator) (kr : Keyring)
    {v : Version} (hv : v = v1 ∨ v = v2) (sender : Option Bytes) (rs : List Encrypt.Recipient)
    (ephSec pk hh : Bytes) (h : EncHeader) (hhdr : Encrypt.header P v sender ephSec pk rs = .ok h)
    (log : List KeyCall) (st : Decrypt.State)
    (hok : Decrypt.processHeader P valid kr hh h = (log, .ok st))
    (himp : kr.importBoxEphemeralKey (P.boxPub ephSec) = some (P.boxPub ephSec))
    (hsk : ∀ r, rs[st.position]? = some r → r.pub = P.boxPub st.mki.receiverKey) :
    st.payloadKey = pk := by
  obtain ⟨_, eph, sk, pk', pos, senderKey, hie, hpk, _, hpos, _, hrk, _, _, _, _, _, _, _, r, nonce, hr, hn, hub, _⟩ :=
    decrypt_attribution P valid kr hh h log st hok
  obtain ⟨_, h2, _, h4, _, h6, h7, _⟩ := header_spec P hv sender ephSec pk rs h hhdr
  rw [h4, himp] at hie
  cases hie
  have hlt : pos < rs.length := by
    rw [← h6]; exact (List.getElem?_eq_some_iff.1 hr).1
  obtain ⟨n, hn', hr'⟩ := h7 pos hlt
  rw [h2, hn'] at hn
  cases hn
  rw [hr'] at hr
  cases hr
  have hpub : rs[pos].pub = P.boxPub sk := by
    rw [← hrk]
    exact hsk rs[pos] (by rw [hpos]; exact List.getElem?_eq_getElem hlt)
  simp only [hpub, unbox_box P hP] at hub
  rw [hpk]
  exact (Option.some.inj hub).symm

/-! ### non-vacuity: headers the toy primitives accept -/

/-- a keyring that owns exactly the secret key `sk` and knows every public key -/
def Attr.toyKr (sk : Bytes) : Keyring where
  lookupBoxSecretKey kids :=
    if kids.contains (Toy.prims.boxPub sk) then ((kids.idxOf (Toy.prims.boxPub sk) : Nat), some sk)
    else (-1, none)
  lookupBoxPublicKey k := some k
  getAllBoxSecretKeys := [sk]
  importBoxEphemeralKey k := some k
  lookupSigningPublicKey k := some k

/-- encryption V2, named sender [1], ephemeral secret [2], recipients [4] (hidden) and
    [3] (visible); the owner of [3] accepts the header at position 1 and reports the
    sender `boxPub [1]` -/
example :
    (match Encrypt.header Toy.prims v2 (some [1]) [2] (Toy.pad 32 [9])
        [⟨Toy.prims.boxPub [4], true⟩, ⟨Toy.prims.boxPub [3], false⟩] with
     | .error _ => false
     | .ok h =>
       match (Decrypt.processHeader Toy.prims knownMajor (Attr.toyKr [3]) (Toy.prims.hash [5]) h).2 with
       | .error _ => false
       | .ok st => st.mki.senderKey == Toy.prims.boxPub [1] && !st.mki.senderIsAnon &&
           st.position == 1 && st.mki.receiverKey == [3] && !st.mki.receiverIsAnon) = true := by
  decide

/-- the same for the hidden recipient [4] (found by trial at position 0), V1,
    anonymous sender -/
example :
    (match Encrypt.header Toy.prims v1 none [2] (Toy.pad 32 [9])
        [⟨Toy.prims.boxPub [4], true⟩, ⟨Toy.prims.boxPub [3], false⟩] with
     | .error _ => false
     | .ok h =>
       match (Decrypt.processHeader Toy.prims knownMajor (Attr.toyKr [4]) (Toy.prims.hash [5]) h).2 with
       | .error _ => false
       | .ok st => st.mki.senderKey == Toy.prims.boxPub [2] && st.mki.senderIsAnon &&
           st.position == 0 && st.mki.receiverKey == [4] && st.mki.receiverIsAnon) = true := by
  decide

/-- signcryption, signer seed [1]: the owner of [3] reports `sigPub [1]` -/
example :
    (match (Signcrypt.processHeader Toy.prims (Attr.toyKr [3]) none (Toy.prims.hash [5])
        (Signcrypt.header Toy.prims (some [1]) [2] (Toy.pad 32 [9]) [.box (Toy.prims.boxPub [3])])).2 with
     | .error _ => false
     | .ok st => st.sender == some (Toy.prims.sigPub [1])) = true := by
  decide

end Saltpack.Proofs
