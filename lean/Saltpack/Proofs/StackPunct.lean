/-
  The armor reader stack, stage 1: `pReadUntil` (ReadUntilPunctuation) and
  `consumeUntilEOF` in terms of the LOGICAL text of the punctuated reader
  (`PState.text`, Proofs/PunctAll.lean).

  Hypotheses on the script (`SrcOK`):
    * no EMPTY non-terminal delivery `([], none)`: `ReadUntilPunctuation` turns
      a `(0, nil)` read into `io.ErrUnexpectedEOF` and `consumeUntilEOF` turns it
      into `io.EOF` (see the counterexamples at the end of the file);
    * after its first condition the script only repeats `([], EOF)`: a
      condition that comes WITHOUT data is not remembered by the punctuated
      reader, and the stack does call `Read` again after an EOF.

  Core Lean only.
-/
import Saltpack.Proofs.PunctAll

namespace Saltpack.Proofs
open Saltpack Saltpack.Stream

/-! ## well-behaved scripts -/

/-- every non-terminal delivery carries data, and after the first condition
    only `([], EOF)` follows -/
def SrcOK : Source → Prop
  | [] => True
  | (d, none) :: rest => d ≠ [] ∧ SrcOK rest
  | (_, some _) :: rest => ∀ x ∈ rest, x = (([], some RErr.eof) : Bytes × Option RErr)

theorem srcOK_of_allEof : ∀ (rest : Source), (∀ x ∈ rest, x = (([], some RErr.eof) : Bytes × Option RErr)) → SrcOK rest := by
  intro rest
  induction rest with
  | nil => intro _; trivial
  | cons hd tl _ =>
    intro h
    have h1 := h hd (by simp)
    subst h1
    exact fun x hx => h x (by simp [hx])

theorem srcText_of_allEof : ∀ (rest : Source), (∀ x ∈ rest, x = (([], some RErr.eof) : Bytes × Option RErr)) →
    srcText rest = ([], .eof) := by
  intro rest h
  cases rest with
  | nil => rfl
  | cons hd tl =>
    have h1 := h hd (by simp)
    subst h1
    rfl

theorem srcOK_srcRead (cap : Nat) (_hcap : 0 < cap) (src : Source) (h : SrcOK src) : SrcOK (srcRead cap src).2.2 := by
  cases src with
  | nil => trivial
  | cons hd rest =>
    obtain ⟨d0, e0⟩ := hd
    by_cases hc : d0.length ≤ cap
    · simp only [srcRead, if_pos hc]
      cases e0 with
      | none => exact h.2
      | some e => exact srcOK_of_allEof rest h
    · simp only [srcRead, if_neg hc]
      have hne : d0.drop cap ≠ [] := by
        intro h0
        have := congrArg List.length h0
        simp at this
        omega
      cases e0 with
      | none => exact ⟨hne, h.2⟩
      | some e => exact h

theorem srcOK_tail (src : Source) (h : SrcOK src) : SrcOK src.tail := by
  cases src with
  | nil => trivial
  | cons hd rest =>
    obtain ⟨d0, e0⟩ := hd
    cases e0 with
    | none => exact h.2
    | some e => exact srcOK_of_allEof rest h

/-! ## the invariant of the punctuated reader used by the stack -/

/-- reachable state over a well-behaved script whose text ends in a clean EOF -/
structure PInv (s : PState) : Prop where
  wf : s.WF
  src : SrcOK s.src
  eof : s.text.2 = .eof

theorem pInv_init (src : Source) (h : SrcOK src) (T : Bytes) (hT : srcText src = (T, .eof)) :
    PInv { src := src } :=
  ⟨pWF_init src, h, by rw [ptext_init, hT]⟩

/-- `pRead` changes the script only by reading from it -/
theorem pProc_src (cap : Nat) (src : Bytes) (used : Bool) (s1 : PState) : (pProc cap src used s1).2.2.src = s1.src := by
  unfold pProc
  cases findIdx Armor.period src <;> cases used <;> simp <;> split <;> rfl

theorem pRead_src_cases (cap : Nat) (s : PState) :
    (pRead cap s).2.2.src = s.src ∨ (pRead cap s).2.2.src = (srcRead cap s.src).2.2 := by
  by_cases h1 : s.thisSegment = []
  · by_cases h2 : s.nextSegment = []
    · cases h3 : s.errNextRead with
      | some x => left; rw [pRead_sticky cap s x h1 h2 h3]
      | none =>
        right
        rw [pRead_src cap s h1 h2 h3]
        cases (srcRead cap s.src).2.1 with
        | none => simp only; rw [pProc_src]
        | some e' =>
          simp only
          split
          · rfl
          · rw [pProc_src]
    · left; rw [pRead_next cap s h1 h2, pProc_src]
  · left
    rw [pRead_this cap s h1]
    split <;> rfl

theorem srcText_length_le (src : Source) : (srcText src).1.length ≤ srcCost src := by
  induction src with
  | nil => simp [srcText, srcCost]
  | cons hd rest ih =>
    obtain ⟨d, e⟩ := hd
    cases e with
    | none => simp only [srcText, srcCost, List.length_append]; omega
    | some x => simp only [srcText, srcCost]; omega

/-- the logical text is not longer than the call budget the model uses -/
theorem ptext_length_lt_fuelOf (s : PState) : s.text.1.length + 6 < fuelOf s := by
  have h1 := cost_lt_fuelOf s
  have h2 : s.tail.1.length ≤ srcCost s.src := by
    unfold PState.tail
    cases s.errNextRead with
    | some e => simp
    | none => exact srcText_length_le s.src
  have h3 : s.buf.length ≤ s.thisSegment.length + s.nextSegment.length + 1 := by
    unfold PState.buf
    simp only [List.length_append]
    split <;> simp <;> omega
  have h4 : ∀ src : Source, srcCost src + src.length ≤ (src.map (fun p => p.1.length + 2)).sum := by
    intro src
    induction src with
    | nil => simp [srcCost]
    | cons hd rest ih => obtain ⟨d, e⟩ := hd; simp [srcCost]; omega
  have := h4 s.src
  unfold PState.text
  simp only [List.length_append]
  unfold fuelOf
  omega

/-- **one call, over a well-behaved script**: data without a condition is
    never empty; the only conditions are "punctuated" (at a period of the text)
    and the clean EOF at the end of the text, which is sticky. -/
theorem pRead_ok (cap : Nat) (hcap : 0 < cap) (s : PState) (hi : PInv s)
    (d : Bytes) (e : Option RErr) (s1 : PState) (h : pRead cap s = (d, e, s1)) :
    PInv s1 ∧ d.length ≤ cap ∧ Armor.period ∉ d ∧
    ((e = none ∧ d ≠ [] ∧ s.text.1 = d ++ s1.text.1) ∨
     (e = some punctErr ∧ s.text.1 = d ++ Armor.period :: s1.text.1) ∨
     (e = some .eof ∧ d = [] ∧ s.text.1 = [] ∧ s1.text.1 = [])) := by
  obtain ⟨w, l, n, c⟩ := pRead_step cap hcap s hi.wf d e s1 h
  have hsrc : SrcOK s1.src := by
    have := pRead_src_cases cap s
    rw [h] at this
    rcases this with h' | h'
    · simp only at h'; rw [h']; exact hi.src
    · simp only at h'; rw [h']; exact srcOK_srcRead cap hcap _ hi.src
  rcases c with ⟨rfl, c1, c2, _, c4⟩ | ⟨rfl, c1, c2, _⟩ | ⟨rfl, c1, c2, c3⟩
  · refine ⟨⟨w, hsrc, by rw [c2, hi.eof]⟩, l, n, Or.inl ⟨rfl, ?_, c1⟩⟩
    intro hd
    obtain ⟨_, _, rest, hr⟩ := c4 hd
    have := hi.src
    rw [hr] at this
    exact this.1 rfl
  · exact ⟨⟨w, hsrc, by rw [c2, hi.eof]⟩, l, n, Or.inr (Or.inl ⟨rfl, c1⟩)⟩
  · -- terminal: the condition is the clean EOF and it is sticky
    have he : s.text.2 = .eof := hi.eof
    have hbuf : s.buf = [] := by
      simp only [PState.text, List.append_eq_nil_iff] at c2
      exact c2.1
    have htl : s.tail.1 = [] := by
      simp only [PState.text, List.append_eq_nil_iff] at c2
      exact c2.2
    have hs1 : s1.text = ([], .eof) := by
      cases hn : s.errNextRead with
      | some x =>
        rw [hn] at c3
        simp only [Option.isSome_some, if_true] at c3
        subst c3
        show (s1.buf ++ s1.tail.1, s1.tail.2) = _
        rw [hbuf, htl]
        simp only [PState.text] at he
        rw [he]; rfl
      | none =>
        rw [hn] at c3
        simp only [Option.isSome_none, Bool.false_eq_true, if_false] at c3
        have hb' : s1.buf = [] := by rw [c3]; exact hbuf
        have htail : s.tail = srcText s.src := by simp [PState.tail, hn]
        have ht' : s1.tail = srcText s.src.tail := by
          rw [c3]; simp [PState.tail]
        show (s1.buf ++ s1.tail.1, s1.tail.2) = _
        rw [hb', ht']
        have hsrcOK := hi.src
        rw [htail] at htl
        have he' : (srcText s.src).2 = .eof := by
          have := he
          simp only [PState.text] at this
          rw [htail] at this
          exact this
        cases hsrc' : s.src with
        | nil => rfl
        | cons hd rest =>
          obtain ⟨d0, e0⟩ := hd
          rw [hsrc'] at hsrcOK htl he'
          cases e0 with
          | none =>
            exfalso
            simp only [srcText, List.append_eq_nil_iff] at htl
            exact hsrcOK.1 htl.1
          | some x =>
            simp only [List.tail_cons]
            rw [srcText_of_allEof rest hsrcOK]
            rfl
    refine ⟨⟨w, hsrc, by rw [hs1]⟩, l, n, Or.inr (Or.inr ⟨by rw [he], c1, c2, by rw [hs1]⟩)⟩

/-! ## `ReadUntilPunctuation` -/

theorem pReadUntil_succ (lim fuel : Nat) (s : PState) (acc : Bytes) :
    pReadUntil lim (fuel + 1) s acc =
      match (pRead 4096 s).2.1 with
      | none =>
        if (acc ++ (pRead 4096 s).1).length ≥ lim then (.error (.err .overflow), (pRead 4096 s).2.2)
        else if (pRead 4096 s).1.isEmpty then (.error (.err .unexpectedEOF), (pRead 4096 s).2.2)
        else pReadUntil lim fuel (pRead 4096 s).2.2 (acc ++ (pRead 4096 s).1)
      | some (.err .punctuated) =>
        if (acc ++ (pRead 4096 s).1).length ≥ lim then (.error (.err .overflow), (pRead 4096 s).2.2)
        else (.ok (acc ++ (pRead 4096 s).1), (pRead 4096 s).2.2)
      | some .eof => (.error (.err .unexpectedEOF), (pRead 4096 s).2.2)
      | some (.err x) => (.error (.err x), (pRead 4096 s).2.2) := by
  rw [pReadUntil]
  rcases pRead 4096 s with ⟨d, e, s1⟩
  rfl

/-- **`ReadUntilPunctuation(lim)`** from a state whose logical text is `t`
    (then clean EOF), with `acc` already collected:
    * `t = a ++ '.' :: rest` with no period in `a`: the result is `acc ++ a`
      when that is shorter than `lim`, leaving the text `rest`; otherwise
      `ErrOverflow`;
    * no period in `t`: `ErrOverflow` when `acc ++ t` reaches `lim`, otherwise
      `io.ErrUnexpectedEOF`.
    The fuel `lim + 2` of the model is enough (`lim < fuel + acc.length`). -/
theorem pReadUntil_spec (lim : Nat) : ∀ (fuel : Nat) (s : PState) (acc : Bytes), PInv s →
    acc.length < lim → lim < fuel + acc.length →
    (∀ a rest, s.text.1 = a ++ Armor.period :: rest → Armor.period ∉ a →
      ((acc ++ a).length < lim → ∃ s1, pReadUntil lim fuel s acc = (.ok (acc ++ a), s1) ∧ PInv s1 ∧ s1.text.1 = rest) ∧
      (lim ≤ (acc ++ a).length → ∃ s1, pReadUntil lim fuel s acc = (.error (.err .overflow), s1))) ∧
    (Armor.period ∉ s.text.1 →
      (lim ≤ (acc ++ s.text.1).length → ∃ s1, pReadUntil lim fuel s acc = (.error (.err .overflow), s1)) ∧
      ((acc ++ s.text.1).length < lim → ∃ s1, pReadUntil lim fuel s acc = (.error (.err .unexpectedEOF), s1))) := by
  intro fuel
  induction fuel with
  | zero => intro s acc _ h1 h2; omega
  | succ fuel ih =>
    intro s acc hi hacc hfuel
    rw [pReadUntil_succ]
    rcases hp : pRead 4096 s with ⟨d, e, s'⟩
    obtain ⟨hi', _, n, c⟩ := pRead_ok 4096 (by decide) s hi d e s' hp
    simp only
    rcases c with ⟨rfl, c1, c2⟩ | ⟨rfl, c2⟩ | ⟨rfl, c1, c2, c3⟩
    · -- more data
      have hdpos : 0 < d.length := List.length_pos_iff.mpr c1
      have hde : d.isEmpty = false := by cases d with
        | nil => exact absurd rfl c1
        | cons _ _ => rfl
      simp only [hde, Bool.false_eq_true, if_false]
      by_cases hov : (acc ++ d).length ≥ lim
      · rw [if_pos hov]
        constructor
        · intro a rest ht ha
          rw [c2] at ht
          obtain ⟨a', h1, _⟩ := firstSplit_prefix _ d s'.text.1 a rest ht n
          refine ⟨fun hlt => ?_, fun _ => ⟨s', rfl⟩⟩
          exfalso
          rw [h1] at hlt
          simp only [List.length_append] at hlt hov
          omega
        · intro _
          refine ⟨fun _ => ⟨s', rfl⟩, fun hlt => ?_⟩
          exfalso
          rw [c2] at hlt
          simp only [List.length_append] at hlt hov
          omega
      · rw [if_neg hov]
        have hlen : (acc ++ d).length = acc.length + d.length := List.length_append
        obtain ⟨ih1, ih2⟩ := ih s' (acc ++ d) hi' (by omega) (by omega)
        constructor
        · intro a rest ht ha
          rw [c2] at ht
          obtain ⟨a', h1, h2⟩ := firstSplit_prefix _ d s'.text.1 a rest ht n
          have := ih1 a' rest h2 (fun hm => ha (by rw [h1]; simp [hm]))
          rw [h1, ← List.append_assoc]
          exact this
        · intro hnp
          rw [c2] at hnp ⊢
          have := ih2 (fun hm => hnp (by simp [hm]))
          rw [← List.append_assoc]
          exact this
    · -- punctuated
      simp only [punctErr]
      constructor
      · intro a rest ht ha
        rw [c2] at ht
        obtain ⟨h1, h2⟩ := firstSplit_unique _ d s'.text.1 a rest ht n ha
        subst h1
        refine ⟨fun hlt => ⟨s', ?_, hi', h2⟩, fun hge => ⟨s', ?_⟩⟩
        · rw [if_neg (by omega)]
        · rw [if_pos hge]
      · intro hnp
        exfalso; apply hnp; rw [c2]; simp
    · -- EOF
      subst c1
      constructor
      · intro a rest ht _
        rw [c2] at ht
        simp at ht
      · intro _
        rw [c2]
        simp only [List.append_nil]
        exact ⟨fun h => by omega, fun _ => ⟨s', rfl⟩⟩

/-- the call made by the framed decoder: `ReadUntilPunctuation(8192)` with the
    model's fuel, from an empty accumulator -/
theorem pReadUntil_frame (s : PState) (hi : PInv s) :
    (∀ a rest, s.text.1 = a ++ Armor.period :: rest → Armor.period ∉ a →
      (a.length < Armor.frameLim →
        ∃ s1, pReadUntil Armor.frameLim (Armor.frameLim + 2) s [] = (.ok a, s1) ∧ PInv s1 ∧ s1.text.1 = rest) ∧
      (Armor.frameLim ≤ a.length →
        ∃ s1, pReadUntil Armor.frameLim (Armor.frameLim + 2) s [] = (.error (.err .overflow), s1))) ∧
    (Armor.period ∉ s.text.1 →
      (Armor.frameLim ≤ s.text.1.length →
        ∃ s1, pReadUntil Armor.frameLim (Armor.frameLim + 2) s [] = (.error (.err .overflow), s1)) ∧
      (s.text.1.length < Armor.frameLim →
        ∃ s1, pReadUntil Armor.frameLim (Armor.frameLim + 2) s [] = (.error (.err .unexpectedEOF), s1))) := by
  have := pReadUntil_spec Armor.frameLim (Armor.frameLim + 2) s [] hi (by decide) (by simp)
  simpa using this

/-! ## `consumeUntilEOF` -/

theorem consume_succ (par : Armor.Params) (fuel : Nat) (s : PState) :
    consumeUntilEOF par (fuel + 1) s =
      match (pRead 4096 s).2.1 with
      | some x => (x, (pRead 4096 s).2.2)
      | none =>
        if (pRead 4096 s).1.isEmpty then (.eof, (pRead 4096 s).2.2)
        else if !((pRead 4096 s).1.all (Armor.validByte par)) then (.err .trailingGarbage, (pRead 4096 s).2.2)
        else consumeUntilEOF par fuel (pRead 4096 s).2.2 := by
  rw [consumeUntilEOF]
  rcases pRead 4096 s with ⟨d, e, s1⟩
  rfl

/-- **`consumeUntilEOF`** from a state whose logical text is `t` (then clean
    EOF): `io.EOF` exactly when `t` has no period and only valid bytes (and
    the reader is left at the end of its text); otherwise `ErrPunctuated` or
    `ErrTrailingGarbage` (which of the two can depend on the fragmentation). -/
theorem consume_spec (par : Armor.Params) : ∀ (fuel : Nat) (s : PState), PInv s → s.text.1.length < fuel →
    ((Armor.period ∉ s.text.1 ∧ s.text.1.all (Armor.validByte par) = true) →
      ∃ s1, consumeUntilEOF par fuel s = (.eof, s1) ∧ PInv s1 ∧ s1.text.1 = []) ∧
    (¬ (Armor.period ∉ s.text.1 ∧ s.text.1.all (Armor.validByte par) = true) →
      ∃ s1, consumeUntilEOF par fuel s = (punctErr, s1) ∨ consumeUntilEOF par fuel s = (.err .trailingGarbage, s1)) := by
  intro fuel
  induction fuel with
  | zero => intro s _ h; omega
  | succ fuel ih =>
    intro s hi hfuel
    rw [consume_succ]
    rcases hp : pRead 4096 s with ⟨d, e, s'⟩
    obtain ⟨hi', _, n, c⟩ := pRead_ok 4096 (by decide) s hi d e s' hp
    simp only
    rcases c with ⟨rfl, c1, c2⟩ | ⟨rfl, c2⟩ | ⟨rfl, c1, c2, c3⟩
    · have hde : d.isEmpty = false := by cases d with
        | nil => exact absurd rfl c1
        | cons _ _ => rfl
      have hdpos : 0 < d.length := List.length_pos_iff.mpr c1
      simp only [hde, Bool.false_eq_true, if_false]
      have hlen : s.text.1.length = d.length + s'.text.1.length := by rw [c2, List.length_append]
      obtain ⟨ih1, ih2⟩ := ih s' hi' (by omega)
      by_cases hv : d.all (Armor.validByte par) = true
      · simp only [hv, Bool.not_true, Bool.false_eq_true, if_false]
        rw [c2]
        constructor
        · rintro ⟨h1, h2⟩
          rw [List.all_append] at h2
          simp only [Bool.and_eq_true] at h2
          exact ih1 ⟨fun hm => h1 (by simp [hm]), h2.2⟩
        · intro hn
          apply ih2
          rintro ⟨h1, h2⟩
          apply hn
          refine ⟨?_, ?_⟩
          · intro hm
            rcases List.mem_append.mp hm with hm | hm
            · exact n hm
            · exact h1 hm
          · rw [List.all_append, hv, h2]; rfl
      · have hv' : d.all (Armor.validByte par) = false := by simpa using hv
        simp only [hv', Bool.not_false, if_true]
        rw [c2]
        constructor
        · rintro ⟨_, h2⟩
          rw [List.all_append, hv'] at h2
          simp at h2
        · intro _; exact ⟨s', Or.inr rfl⟩
    · constructor
      · rintro ⟨h1, _⟩
        exfalso; apply h1; rw [c2]; simp
      · intro _; exact ⟨s', Or.inl rfl⟩
    · constructor
      · intro _; exact ⟨s', rfl, hi', c3⟩
      · intro hn
        exfalso; apply hn
        rw [c2]
        exact ⟨by simp, rfl⟩

/-- with the model's own fuel (`fuelOf`) -/
theorem consume_fuelOf (par : Armor.Params) (s : PState) (hi : PInv s) :
    ((Armor.period ∉ s.text.1 ∧ s.text.1.all (Armor.validByte par) = true) →
      ∃ s1, consumeUntilEOF par (fuelOf s) s = (.eof, s1) ∧ PInv s1 ∧ s1.text.1 = []) ∧
    (¬ (Armor.period ∉ s.text.1 ∧ s.text.1.all (Armor.validByte par) = true) →
      ∃ s1, consumeUntilEOF par (fuelOf s) s = (punctErr, s1) ∨
        consumeUntilEOF par (fuelOf s) s = (.err .trailingGarbage, s1)) :=
  consume_spec par (fuelOf s) s hi (by have := ptext_length_lt_fuelOf s; omega)

/-! ## concrete checks: why the hypotheses are needed -/

-- "ab." delivered after an EMPTY read: `ReadUntilPunctuation` reports unexpected EOF …
example : (pReadUntil 10 12 { src := [([], none), ([97, 98, 46], none)] } []).1 = .error (.err .unexpectedEOF) := by decide
-- … whereas without the empty read it returns "ab"
example : (pReadUntil 10 12 { src := [([97, 98, 46], none)] } []).1 = .ok [97, 98] := by decide
-- an empty read makes `consumeUntilEOF` stop with EOF before the garbage `!`
example : (consumeUntilEOF Armor.params62 9 { src := [([], none), ([33], none)] }).1 = .eof := by decide
example : (consumeUntilEOF Armor.params62 9 { src := [([33], none)] }).1 = .err .trailingGarbage := by decide
-- a bare EOF is not remembered: the next call reads on
example : (consumeUntilEOF Armor.params62 9 (consumeUntilEOF Armor.params62 9 { src := [([], some .eof), ([33], none)] }).2).1
    = .err .trailingGarbage := by decide

end Saltpack.Proofs
