/-
  The receivers' stream-logic and authenticity theorems (Receiver.lean,
  Authentic.lean) carried to the BYTE level — behind Props/C02Bytes, C04Bytes,
  C06Bytes.  For each receiver:

  * `…_bytes_run`: the front end read `msg` into a decodable header and packets
    `ps`, and the receiver accepted the header (state `st`) ⇒ the byte-level
    result IS the packet-level run over `ps.items`, `ps.tail` from `st`;
  * `…_bytes_cases`: every byte-level result is a refusal that released nothing,
    or such a run;
  * `…_state_ok`: the facts about `st` that the reductions ask for (`hv`, `hhl`)
    hold for every state a header check returns.

  Core Lean only.
-/
import Saltpack.Proofs.CodecBytes
import Saltpack.Proofs.Receiver
import Saltpack.Proofs.Authentic
import Saltpack.Proofs.ModeSeparation

namespace Saltpack.Proofs
open Saltpack

/-! ## decryption -/

theorem dec_bytes_run (P : Prims) (valid : Validator) (kr : Keyring) (msg hb : Bytes) (h : EncHeader)
    (ps : PStream EncBlock) (hread : Front.readEnc msg = .ok (.ok hb h, ps))
    (log : List KeyCall) (st : Decrypt.State)
    (hhdr : Decrypt.processHeader P valid kr (P.hash hb) h = (log, .ok st)) :
    Decrypt.openBytes P valid kr msg =
      .ok ⟨some st.mki, (Decrypt.run P st ps.items ps.tail 1).bytes, (Decrypt.run P st ps.items ps.tail 1).err, log⟩ := by
  rw [dec_openBytes_of_read hread]
  simp [Decrypt.openStream, hhdr]

theorem dec_bytes_cases (P : Prims) (valid : Validator) (kr : Keyring) (msg : Bytes) (r : Decrypt.Result)
    (hopen : Decrypt.openBytes P valid kr msg = .ok r) :
    (r.released = [] ∧ r.err ≠ none ∧ r.mki = none) ∨
    ∃ hb h ps log st, Front.readEnc msg = .ok (.ok hb h, ps) ∧
      Decrypt.processHeader P valid kr (P.hash hb) h = (log, .ok st) ∧
      r = ⟨some st.mki, (Decrypt.run P st ps.items ps.tail 1).bytes, (Decrypt.run P st ps.items ps.tail 1).err, log⟩ := by
  obtain ⟨hr, ps, hrd, rfl⟩ := dec_openBytes_ok hopen
  cases hr with
  | unreadable => left; simp [Decrypt.openStream]
  | undecodable _ => left; simp [Decrypt.openStream]
  | ok hb h =>
    obtain ⟨x, hx⟩ : ∃ x, Decrypt.processHeader P valid kr (P.hash hb) h = x := ⟨_, rfl⟩
    obtain ⟨log, res⟩ := x
    cases res with
    | error e => left; simp [Decrypt.openStream, hx]
    | ok st =>
      right
      refine ⟨hb, h, ps, log, st, hrd, hx, ?_⟩
      simp [Decrypt.openStream, hx]

theorem dec_state_ok (P : Prims) (hP : P.Lawful) (valid : Validator) (hvalid : ValidatorOK valid) (kr : Keyring)
    (hb : Bytes) (h : EncHeader) (log : List KeyCall) (st : Decrypt.State)
    (hhdr : Decrypt.processHeader P valid kr (P.hash hb) h = (log, .ok st)) :
    (st.version.major = 1 ∨ st.version.major = 2) ∧ st.headerHash = P.hash hb ∧ st.headerHash.length = 64 := by
  have hv := dec_processHeader_version P valid kr _ h log st hhdr
  have hh := dec_processHeader_headerHash P valid kr _ h log st hhdr
  refine ⟨?_, hh, by rw [hh]; exact hP.hash_len hb⟩
  rw [hv]
  exact hvalid _ (enc_gate P valid kr _ h log st hhdr).2.1

/-! ## signcryption -/

theorem sc_bytes_run (P : Prims) (kr : Keyring) (res : Signcrypt.Resolver) (msg hb : Bytes) (h : EncHeader)
    (ps : PStream SigncryptBlock) (hread : Front.readSigncrypt msg = .ok (.ok hb h, ps))
    (log : List KeyCall) (st : Signcrypt.State)
    (hhdr : Signcrypt.processHeader P kr res (P.hash hb) h = (log, .ok st)) :
    Signcrypt.openBytes P kr res msg =
      .ok ⟨st.sender, (Signcrypt.run P st ps.items ps.tail 1).bytes, (Signcrypt.run P st ps.items ps.tail 1).err, log⟩ := by
  rw [sc_openBytes_of_read hread]
  simp [Signcrypt.openStream, hhdr]

theorem sc_bytes_cases (P : Prims) (kr : Keyring) (res : Signcrypt.Resolver) (msg : Bytes) (r : Signcrypt.Result)
    (hopen : Signcrypt.openBytes P kr res msg = .ok r) :
    (r.released = [] ∧ r.err ≠ none ∧ r.sender = none) ∨
    ∃ hb h ps log st, Front.readSigncrypt msg = .ok (.ok hb h, ps) ∧
      Signcrypt.processHeader P kr res (P.hash hb) h = (log, .ok st) ∧
      r = ⟨st.sender, (Signcrypt.run P st ps.items ps.tail 1).bytes, (Signcrypt.run P st ps.items ps.tail 1).err, log⟩ := by
  obtain ⟨hr, ps, hrd, rfl⟩ := sc_openBytes_ok hopen
  cases hr with
  | unreadable => left; simp [Signcrypt.openStream]
  | undecodable _ => left; simp [Signcrypt.openStream]
  | ok hb h =>
    obtain ⟨x, hx⟩ : ∃ x, Signcrypt.processHeader P kr res (P.hash hb) h = x := ⟨_, rfl⟩
    obtain ⟨log, rs⟩ := x
    cases rs with
    | error e => left; simp [Signcrypt.openStream, hx]
    | ok st =>
      right
      refine ⟨hb, h, ps, log, st, hrd, hx, ?_⟩
      simp [Signcrypt.openStream, hx]

theorem sc_state_ok (P : Prims) (hP : P.Lawful) (kr : Keyring) (res : Signcrypt.Resolver)
    (hb : Bytes) (h : EncHeader) (log : List KeyCall) (st : Signcrypt.State)
    (hhdr : Signcrypt.processHeader P kr res (P.hash hb) h = (log, .ok st)) :
    st.headerHash = P.hash hb ∧ st.headerHash.length = 64 := by
  have hh := sc_processHeader_headerHash P kr res _ h log st hhdr
  exact ⟨hh, by rw [hh]; exact hP.hash_len hb⟩

/-! ## attached signatures

  `NewVerifyStream` accepts the header when `validate` passes and the keyring
  knows the signer; the packet loop then runs from `⟨h.version, P.hash hb, pk⟩`. -/

theorem sig_bytes_run (P : Prims) (valid : Validator) (hvalid : ValidatorOK valid) (kr : Keyring) (msg hb : Bytes)
    (h : SigHeader) (ps : PStream SigBlock) (hread : Front.readSig msg = .ok (.ok hb h, ps))
    (hval : Sign.validate valid h mtAttached = .ok ()) (pk : Bytes)
    (hpk : kr.lookupSigningPublicKey h.senderPublic = some pk) :
    Sign.verifyBytes P valid kr msg =
      .ok ⟨some pk, (Sign.run P ⟨h.version, P.hash hb, pk⟩ ps.items ps.tail 1).bytes,
            (Sign.run P ⟨h.version, P.hash hb, pk⟩ ps.items ps.tail 1).err⟩ := by
  rw [sig_verifyBytes_of_read hread]
  have hm := hvalid _ (sig_validate_ok valid h _ hval).2.1
  have hc : (h.version.major != 1 && h.version.major != 2) = false := by
    rcases hm with e | e <;> simp [e]
  simp [Sign.verifyStream, hval, hpk, hc]

theorem sig_bytes_cases (P : Prims) (valid : Validator) (hvalid : ValidatorOK valid) (kr : Keyring) (msg : Bytes)
    (r : Sign.Result) (hopen : Sign.verifyBytes P valid kr msg = .ok r) :
    (r.released = [] ∧ r.err ≠ none) ∨
    ∃ hb h ps pk, Front.readSig msg = .ok (.ok hb h, ps) ∧
      Sign.validate valid h mtAttached = .ok () ∧ kr.lookupSigningPublicKey h.senderPublic = some pk ∧
      r = ⟨some pk, (Sign.run P ⟨h.version, P.hash hb, pk⟩ ps.items ps.tail 1).bytes,
            (Sign.run P ⟨h.version, P.hash hb, pk⟩ ps.items ps.tail 1).err⟩ := by
  obtain ⟨hr, ps, hrd, rfl⟩ := sig_verifyBytes_ok hopen
  cases hr with
  | unreadable => left; simp [Sign.verifyStream]
  | undecodable _ => left; simp [Sign.verifyStream]
  | ok hb h =>
    cases hval : Sign.validate valid h mtAttached with
    | error e => left; simp [Sign.verifyStream, hval]
    | ok u =>
      cases hpk : kr.lookupSigningPublicKey h.senderPublic with
      | none => left; simp [Sign.verifyStream, hval, hpk]
      | some pk =>
        right
        refine ⟨hb, h, ps, pk, hrd, hval, hpk, ?_⟩
        have := sig_bytes_run P valid hvalid kr msg hb h ps hrd hval pk hpk
        rw [sig_verifyBytes_of_read hrd] at this
        injection this

theorem sig_state_ok (P : Prims) (hP : P.Lawful) (valid : Validator) (hvalid : ValidatorOK valid)
    (hb : Bytes) (h : SigHeader) (hval : Sign.validate valid h mtAttached = .ok ()) (pk : Bytes) :
    ((⟨h.version, P.hash hb, pk⟩ : Sign.State).version.major = 1 ∨
      (⟨h.version, P.hash hb, pk⟩ : Sign.State).version.major = 2) ∧
    (⟨h.version, P.hash hb, pk⟩ : Sign.State).headerHash.length = 64 :=
  ⟨hvalid _ (sig_validate_ok valid h _ hval).2.1, hP.hash_len hb⟩

end Saltpack.Proofs
