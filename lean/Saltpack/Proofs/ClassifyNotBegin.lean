/-
  `IsSaltpackArmoredPrefix`: stability of a "not saltpack" verdict given BEFORE
  the frame expression matches — the sub-case proved here: a text whose normal
  form does not begin like `BEGIN ` (it is neither a prefix of `BEGIN ` nor
  starts with it) is "not saltpack", and so is EVERY extension of it.

  Behind Props/C16More.lean (part b).
-/
import Saltpack.Proofs.ClassifyStable
import Saltpack.Proofs.ClassifyTotal

namespace Saltpack.Proofs.ClsStable
open Saltpack Saltpack.Classify Saltpack.Armor ClsAux

/-- the shape of `strings.Split(s, " ")`: a first piece without a space, and
    either nothing more (the string is that piece) or a space and the split of
    the rest -/
theorem splitSp_go_shape : ∀ (b cur : Bytes), ∃ w rest, splitSp.go b cur = (cur.reverse ++ w) :: rest ∧
    (∀ c ∈ w, c ≠ space) ∧ ((rest = [] ∧ b = w) ∨ (∃ y, b = w ++ space :: y ∧ rest = splitSp.go y [] )) := by
  intro b
  induction b with
  | nil =>
    intro cur
    exact ⟨[], [], by simp [splitSp.go], by simp, Or.inl ⟨rfl, rfl⟩⟩
  | cons c cs ih =>
    intro cur
    have hgo : splitSp.go (c :: cs) cur =
        if c == space then cur.reverse :: splitSp.go cs [] else splitSp.go cs (c :: cur) := rfl
    rw [hgo]
    by_cases hc : (c == space) = true
    · simp only [hc, if_true]
      have : c = space := by simpa using hc
      subst this
      exact ⟨[], splitSp.go cs [], by simp, by simp, Or.inr ⟨cs, rfl, rfl⟩⟩
    · simp only [hc, Bool.false_eq_true, if_false]
      obtain ⟨w, rest, h1, h2, h3⟩ := ih (c :: cur)
      refine ⟨c :: w, rest, by rw [h1]; simp, ?_, ?_⟩
      · intro d hd
        rcases List.mem_cons.mp hd with rfl | hd
        · intro h0; rw [h0] at hc; simp at hc
        · exact h2 d hd
      · rcases h3 with ⟨r0, hb⟩ | ⟨y, hb, hr⟩
        · exact Or.inl ⟨r0, by rw [hb]⟩
        · exact Or.inr ⟨y, by rw [hb]; rfl, hr⟩

theorem splitSp_shape (t : Bytes) : ∃ w rest, splitSp t = w :: rest ∧ (∀ c ∈ w, c ≠ space) ∧
    ((rest = [] ∧ t = w) ∨ (∃ y, t = w ++ space :: y ∧ rest = splitSp y)) := by
  obtain ⟨w, rest, h1, h2, h3⟩ := splitSp_go_shape t []
  exact ⟨w, rest, by simpa [splitSp] using h1, h2, h3⟩

/-- two words without spaces, each followed by a space: if one text is a prefix
    of the other, the words are equal -/
theorem word_eq_of_prefix : ∀ (a b x y : Bytes), (∀ c ∈ a, c ≠ space) → (∀ c ∈ b, c ≠ space) →
    a ++ space :: x <+: b ++ space :: y → a = b := by
  intro a
  induction a with
  | nil =>
    intro b x y _ hb h
    cases b with
    | nil => rfl
    | cons d b' =>
      exfalso
      have h' : space :: x <+: d :: (b' ++ space :: y) := by simpa using h
      exact hb d (by simp) (List.cons_prefix_cons.mp h').1.symm
  | cons c a' ih =>
    intro b x y ha hb h
    cases b with
    | nil =>
      exfalso
      have h' : c :: (a' ++ space :: x) <+: space :: y := by simpa using h
      exact ha c (by simp) (List.cons_prefix_cons.mp h').1
    | cons d b' =>
      have h' : c :: (a' ++ space :: x) <+: d :: (b' ++ space :: y) := by simpa using h
      obtain ⟨hcd, htl⟩ := List.cons_prefix_cons.mp h'
      rw [hcd, ih b' x y (fun e he => ha e (by simp [he])) (fun e he => hb e (by simp [he])) htl]

theorem begin_no_space : ∀ c ∈ Gen.c_sp_headerMarker, c ≠ space := by decide

/-- the three canonical headers start with `BEGIN ` -/
theorem efg_begin (sffx : Bytes) :
    Gen.c_sp_headerMarker ++ [space] ++ upper Gen.c_sp_FormatName ++ [space] ++ sffx =
      Gen.c_sp_headerMarker ++ space :: (upper Gen.c_sp_FormatName ++ space :: sffx) := by
  simp [List.append_assoc]

/-- **a normal form that does not begin like `BEGIN ` is "not saltpack", with
    every extension**: `t` any text without a trailing space (what `TrimSpace`
    returns) that starts with `s`, where `s` is neither a prefix of `BEGIN ` nor
    starts with `BEGIN ` -/
theorem classifyNorm_not_begin (s t : Bytes) (hst : s <+: t) (hlast : t.getLast? ≠ some space)
    (h1 : ¬ s <+: BG) (h2 : ¬ BG <+: s) : classifyNorm t = .notSaltpack := by
  have hBGt : ¬ BG <+: t := by
    intro h
    rcases List.prefix_or_prefix_of_prefix hst h with h' | h'
    · exact h1 h'
    · exact h2 h'
  have hpre : ∀ r, ¬ t <+: Gen.c_sp_headerMarker ++ space :: r := by
    intro r h
    have hs : s <+: Gen.c_sp_headerMarker ++ space :: r := hst.trans h
    have hb : BG <+: Gen.c_sp_headerMarker ++ space :: r := ⟨r, by simp [BG]⟩
    rcases List.prefix_or_prefix_of_prefix hs hb with h' | h'
    · exact h1 h'
    · exact h2 h'
  have hw0 : ∀ y, t ≠ Gen.c_sp_headerMarker ++ space :: y := by
    intro y h
    exact hBGt ⟨y, by rw [h]; simp [BG]⟩
  unfold classifyNorm
  have hmh : matchHeader t = none := by
    cases hm : matchHeader t with
    | none => rfl
    | some x =>
      obtain ⟨brand, ty, pl⟩ := x
      obtain ⟨r, hr, _⟩ := matchHeader_shape t brand ty pl hm
      exact absurd ⟨r, hr.symm⟩ hBGt
  rw [hmh]
  simp only
  obtain ⟨w, rest, hsp, hw, hshape⟩ := splitSp_shape t
  have hpfx : ∀ (a r : Bytes), isPrefixB a (Gen.c_sp_headerMarker ++ space :: r) = true →
      a <+: Gen.c_sp_headerMarker ++ space :: r := fun a r h => List.isPrefixOf_iff_prefix.mp h
  split
  · rfl
  · rename_i hfw
    have hf : fewWords t = true := by simpa using hfw
    have hlen := Saltpack.Proofs.fewWords_length_le t hlast hf
    rw [hsp] at hlen
    split
    · -- one piece: the text itself
      rename_i hl1
      split
      · rename_i hpx
        exfalso
        rw [hsp] at hl1 hpx
        simp only [List.headD_cons] at hpx
        have hr : rest = [] := by
          cases rest with
          | nil => rfl
          | cons _ _ => simp at hl1
        rcases hshape with ⟨_, htw⟩ | ⟨y, _, hry⟩
        · have hp' : w <+: Gen.c_sp_headerMarker := List.isPrefixOf_iff_prefix.mp hpx
          exact hpre [] (by rw [htw]; exact hp'.trans (List.prefix_append _ _))
        · rw [hr] at hry
          exact Saltpack.Proofs.splitSp_go_ne_nil y [] hry.symm
      · rfl
    · rename_i hl1
      -- at least two pieces: the first word is followed by a space and is not `BEGIN`
      have hy : ∃ y, t = w ++ space :: y := by
        rcases hshape with ⟨hr, _⟩ | ⟨y, hty, _⟩
        · exfalso; rw [hsp, hr] at hl1; simp at hl1
        · exact ⟨y, hty⟩
      obtain ⟨y, hty⟩ := hy
      have hwne : w ≠ Gen.c_sp_headerMarker := by
        intro h; exact hw0 y (by rw [hty, h])
      split
      · split
        · rename_i _ hpx
          exfalso
          rw [hsp] at hpx
          simp only [List.headD_cons, beq_iff_eq] at hpx
          exact hwne hpx
        · rfl
      · rename_i hl2
        split
        · split
          · rename_i _ hor
            exfalso
            rw [hsp] at hl1 hl2 hor
            -- at least three pieces
            cases rest with
            | nil => simp at hl1
            | cons w1 rest1 =>
              cases rest1 with
              | nil => simp at hl2
              | cons w2 rest2 =>
                simp only [List.headD_cons, List.drop_succ_cons, List.drop_zero, efg_begin, Bool.or_eq_true] at hor
                have hhwb : intercalateSp (w :: w2 :: rest2) = w ++ space :: intercalateSp (w2 :: rest2) := by
                  simp [intercalateSp]
                have nohwb : ∀ r, isPrefixB (intercalateSp (w :: w2 :: rest2)) (Gen.c_sp_headerMarker ++ space :: r) = true →
                    False := by
                  intro r hp
                  have hp' := hpfx _ r hp
                  rw [hhwb] at hp'
                  exact hwne (word_eq_of_prefix w _ _ r hw begin_no_space hp')
                have not : ∀ r, isPrefixB t (Gen.c_sp_headerMarker ++ space :: r) = true → False :=
                  fun r hp => hpre r (hpfx _ r hp)
                rcases hor with ((((h | h) | h) | h) | h) | h
                · exact nohwb _ h
                · exact nohwb _ h
                · exact nohwb _ h
                · exact not _ h
                · exact not _ h
                · exact not _ h
          · rfl
        · rename_i hl5
          exfalso
          rw [hsp] at hl5
          exact hl5 hlen

/-- **stability of "not saltpack" for texts that do not begin like `BEGIN `**:
    ASCII `p` whose normal form is neither a prefix of `BEGIN ` nor starts with
    `BEGIN `: `p` and every extension `p ++ q` (arbitrary bytes `q`) are "not
    saltpack" -/
theorem arm_not_begin_stable (p q : Bytes) (hp : ∀ c ∈ p, c < 128)
    (h1 : ¬ trimSpace (collapse p) <+: BG) (h2 : ¬ BG <+: trimSpace (collapse p)) :
    armoredPrefix p = .notSaltpack ∧ armoredPrefix (p ++ q) = .notSaltpack := by
  have hne : trimSpace (collapse p) ≠ [] := by
    intro h0; rw [h0] at h1; exact h1 List.nil_prefix
  obtain ⟨x, hx⟩ := norm_append p q hp hne
  refine ⟨?_, ?_⟩
  · rw [armoredPrefix_norm]
    exact classifyNorm_not_begin _ _ List.prefix_rfl (Saltpack.Proofs.trimSpace_no_trailing_space _) h1 h2
  · rw [armoredPrefix_norm]
    exact classifyNorm_not_begin _ _ ⟨x, hx.symm⟩ (Saltpack.Proofs.trimSpace_no_trailing_space _) h1 h2

end Saltpack.Proofs.ClsStable
