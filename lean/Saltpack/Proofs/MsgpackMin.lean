/-
  MessagePack minimality (property C08, "minimal MessagePack encodings; byte
  strings are bin; the only nil ever written is the key id of a hidden
  recipient").

  Part 1: `encode v` is a SHORTEST encoding of `v` among all byte strings the
  lenient parser `parse` (which accepts every MessagePack form, also the
  non-minimal ones) reads as `v`, and the shortest accepted encoding is unique.
  Part 2: no nil in the packet trees the sender models build, except the key id
  of a hidden recipient.
  Core Lean only.
-/
import Saltpack.Proofs.MsgpackRT
import Saltpack.Proofs.EncLemmas
import Saltpack.Proofs.RoundTripEnc
import Saltpack.Proofs.RoundTripSig

namespace Saltpack.Proofs
open Saltpack Saltpack.Msgpack

namespace MsgpackMin
open MsgpackRT

/-! ### inversions of the parser's helpers -/

theorem takeN_inv {n : Nat} {b s r : Bytes} (h : takeN n b = .ok (s, r)) :
    b = s ++ r ∧ s.length = n := by
  unfold takeN at h
  split at h
  · cases h
  · rename_i hlt
    simp only [Except.ok.injEq, Prod.mk.injEq] at h
    obtain ⟨rfl, rfl⟩ := h
    exact ⟨(List.take_append_drop n b).symm, by rw [List.length_take]; omega⟩

theorem readLen_inv {w : Nat} {b r : Bytes} {n : Nat} (h : readLen w b = .ok (n, r)) :
    ∃ hd, b = hd ++ r ∧ hd.length = w ∧ natOfBytes hd = n := by
  unfold readLen at h
  split at h
  · cases h
  · rename_i hd t ht
    simp only [Except.ok.injEq, Prod.mk.injEq] at h
    obtain ⟨rfl, rfl⟩ := h
    obtain ⟨h1, h2⟩ := takeN_inv ht
    exact ⟨hd, h1, h2, rfl⟩

theorem readLen_len {w : Nat} {b r : Bytes} {n : Nat} (h : readLen w b = .ok (n, r)) :
    b.length = w + r.length ∧ n < 256 ^ w := by
  obtain ⟨hd, rfl, h2, rfl⟩ := readLen_inv h
  refine ⟨by rw [List.length_append, h2], ?_⟩
  have := natOfBytes_lt hd
  rw [h2] at this
  exact this

theorem lenBin_inv {w : Nat} {mk : Bytes → Val} {rest r : Bytes} {v : Val}
    (h : lenBin w mk rest = .ok (v, r)) :
    ∃ n r0 s, readLen w rest = .ok (n, r0) ∧ takeN n r0 = .ok (s, r) ∧ v = mk s := by
  unfold lenBin at h
  split at h
  · cases h
  · rename_i n r0 hrl
    split at h
    · rename_i s r' ht
      simp only [Except.ok.injEq, Prod.mk.injEq] at h
      obtain ⟨rfl, rfl⟩ := h
      exact ⟨n, r0, s, hrl, ht, rfl⟩
    · cases h

theorem lenExt_notWF {w : Nat} {rest r : Bytes} {v : Val}
    (h : lenExt w rest = .ok (v, r)) : ¬ ValWF v := by
  unfold lenExt at h
  split at h
  · cases h
  · split at h
    · simp only [Except.ok.injEq, Prod.mk.injEq] at h
      obtain ⟨rfl, -⟩ := h
      intro hw; cases hw
    · cases h

/-! ### one step of the parser, inverted

  `Step fuel t rest v r`: the ways `parse (fuel+1) (t :: rest)` can answer
  `.ok (v, r)` with a well-formed `v` (maps, ext and floats are not `ValWF`). -/

inductive Step (fuel : Nat) (t : UInt8) (rest : Bytes) : Val → Bytes → Prop where
  | posfix : t.toNat < 0x80 → Step fuel t rest (.int t.toNat) rest
  | negfix : 0xe0 ≤ t.toNat → Step fuel t rest (.int ((t.toNat : Int) - 256)) rest
  | nil : t.toNat = 0xc0 → Step fuel t rest .nil rest
  | bool (b : Bool) : t.toNat = (if b then 0xc3 else 0xc2) → Step fuel t rest (.bool b) rest
  | fixstr (s r : Bytes) : 0xa0 ≤ t.toNat → t.toNat < 0xc0 →
      takeN (t.toNat - 0xa0) rest = .ok (s, r) → Step fuel t rest (.str s) r
  | fixarr (l : List Val) (r : Bytes) : 0x90 ≤ t.toNat → t.toNat < 0xa0 →
      parseArr fuel (t.toNat - 0x90) rest = .ok (l, r) → Step fuel t rest (.arr l) r
  | bin (w n : Nat) (r0 s r : Bytes) :
      (w = 1 ∧ t.toNat = 0xc4 ∨ w = 2 ∧ t.toNat = 0xc5 ∨ w = 4 ∧ t.toNat = 0xc6) →
      readLen w rest = .ok (n, r0) → takeN n r0 = .ok (s, r) → Step fuel t rest (.bin s) r
  | str (w n : Nat) (r0 s r : Bytes) :
      (w = 1 ∧ t.toNat = 0xd9 ∨ w = 2 ∧ t.toNat = 0xda ∨ w = 4 ∧ t.toNat = 0xdb) →
      readLen w rest = .ok (n, r0) → takeN n r0 = .ok (s, r) → Step fuel t rest (.str s) r
  | uint (w n : Nat) (r : Bytes) :
      (w = 1 ∧ t.toNat = 0xcc ∨ w = 2 ∧ t.toNat = 0xcd ∨ w = 4 ∧ t.toNat = 0xce ∨ w = 8 ∧ t.toNat = 0xcf) →
      readLen w rest = .ok (n, r) → Step fuel t rest (.int n) r
  | sint (w n : Nat) (r : Bytes) :
      (w = 1 ∧ t.toNat = 0xd0 ∨ w = 2 ∧ t.toNat = 0xd1 ∨ w = 4 ∧ t.toNat = 0xd2 ∨ w = 8 ∧ t.toNat = 0xd3) →
      readLen w rest = .ok (n, r) → Step fuel t rest (.int (signedOf (8 * w) n)) r
  | arr (w n : Nat) (r0 : Bytes) (l : List Val) (r : Bytes) :
      (w = 2 ∧ t.toNat = 0xdc ∨ w = 4 ∧ t.toNat = 0xdd) →
      readLen w rest = .ok (n, r0) → parseArr fuel n r0 = .ok (l, r) → Step fuel t rest (.arr l) r

/-- walk down the if-chain of `parse` for a descriptor byte whose numeric value
    is pinned down by the hypotheses in context -/
macro "parse_chain" : tactic => `(tactic|
  (rw [parse]; simp only []; repeat (first | rw [if_neg (by omega)] | rw [if_pos (by omega)])))

section
variable {fuel : Nat} {t : UInt8} {rest r : Bytes} {v : Val}

theorem step_posfix (hc : t.toNat < 0x80) (h : parse (fuel + 1) (t :: rest) = .ok (v, r)) :
    Step fuel t rest v r := by
  rw [parse_posfix fuel t rest hc] at h
  cases h
  exact .posfix hc

theorem step_negfix (hc : 0xe0 ≤ t.toNat) (h : parse (fuel + 1) (t :: rest) = .ok (v, r)) :
    Step fuel t rest v r := by
  rw [parse_negfix fuel t rest hc] at h
  cases h
  exact .negfix hc

theorem step_fixmap (h1 : 0x80 ≤ t.toNat) (h2 : t.toNat < 0x90)
    (h : parse (fuel + 1) (t :: rest) = .ok (v, r)) : ¬ ValWF v := by
  revert h; parse_chain; intro h
  split at h
  · cases h; intro hw; cases hw
  · cases h

theorem step_fixarr (h1 : 0x90 ≤ t.toNat) (h2 : t.toNat < 0xa0)
    (h : parse (fuel + 1) (t :: rest) = .ok (v, r)) : Step fuel t rest v r := by
  revert h; parse_chain; intro h
  split at h
  · rename_i l r' hp
    cases h
    exact .fixarr l r h1 h2 hp
  · cases h

theorem step_fixstr (h1 : 0xa0 ≤ t.toNat) (h2 : t.toNat < 0xc0)
    (h : parse (fuel + 1) (t :: rest) = .ok (v, r)) : Step fuel t rest v r := by
  revert h; parse_chain; intro h
  split at h
  · rename_i s r' hp
    cases h
    exact .fixstr s r h1 h2 hp
  · cases h

theorem step_c0 (hc : t.toNat = 0xc0) (h : parse (fuel + 1) (t :: rest) = .ok (v, r)) :
    Step fuel t rest v r := by
  revert h; parse_chain; intro h
  cases h
  exact .nil hc

theorem step_c1 (hc : t.toNat = 0xc1) (h : parse (fuel + 1) (t :: rest) = .ok (v, r)) : False := by
  revert h; parse_chain; intro h
  cases h

theorem step_c2 (hc : t.toNat = 0xc2) (h : parse (fuel + 1) (t :: rest) = .ok (v, r)) :
    Step fuel t rest v r := by
  revert h; parse_chain; intro h
  cases h
  exact .bool false hc

theorem step_c3 (hc : t.toNat = 0xc3) (h : parse (fuel + 1) (t :: rest) = .ok (v, r)) :
    Step fuel t rest v r := by
  revert h; parse_chain; intro h
  cases h
  exact .bool true hc

theorem step_bin (w : Nat) (hc : w = 1 ∧ t.toNat = 0xc4 ∨ w = 2 ∧ t.toNat = 0xc5 ∨ w = 4 ∧ t.toNat = 0xc6)
    (h : parse (fuel + 1) (t :: rest) = .ok (v, r)) : Step fuel t rest v r := by
  have key : lenBin w .bin rest = .ok (v, r) := by
    rcases hc with ⟨rfl, hc⟩ | ⟨rfl, hc⟩ | ⟨rfl, hc⟩ <;>
    · revert h; parse_chain; exact id
  obtain ⟨n, r0, s, hrl, ht, rfl⟩ := lenBin_inv key
  exact .bin w n r0 s r hc hrl ht

theorem step_str (w : Nat) (hc : w = 1 ∧ t.toNat = 0xd9 ∨ w = 2 ∧ t.toNat = 0xda ∨ w = 4 ∧ t.toNat = 0xdb)
    (h : parse (fuel + 1) (t :: rest) = .ok (v, r)) : Step fuel t rest v r := by
  have key : lenBin w .str rest = .ok (v, r) := by
    rcases hc with ⟨rfl, hc⟩ | ⟨rfl, hc⟩ | ⟨rfl, hc⟩ <;>
    · revert h; parse_chain; exact id
  obtain ⟨n, r0, s, hrl, ht, rfl⟩ := lenBin_inv key
  exact .str w n r0 s r hc hrl ht

theorem step_ext (w : Nat) (hc : w = 1 ∧ t.toNat = 0xc7 ∨ w = 2 ∧ t.toNat = 0xc8 ∨ w = 4 ∧ t.toNat = 0xc9)
    (h : parse (fuel + 1) (t :: rest) = .ok (v, r)) : ¬ ValWF v := by
  have key : lenExt w rest = .ok (v, r) := by
    rcases hc with ⟨rfl, hc⟩ | ⟨rfl, hc⟩ | ⟨rfl, hc⟩ <;>
    · revert h; parse_chain; exact id
  exact lenExt_notWF key

theorem step_float (hc : t.toNat = 0xca ∨ t.toNat = 0xcb)
    (h : parse (fuel + 1) (t :: rest) = .ok (v, r)) : ¬ ValWF v := by
  rcases hc with hc | hc <;>
  · revert h; parse_chain; intro h
    split at h
    · cases h; intro hw; cases hw
    · cases h

theorem step_uint (w : Nat)
    (hc : w = 1 ∧ t.toNat = 0xcc ∨ w = 2 ∧ t.toNat = 0xcd ∨ w = 4 ∧ t.toNat = 0xce ∨ w = 8 ∧ t.toNat = 0xcf)
    (h : parse (fuel + 1) (t :: rest) = .ok (v, r)) : Step fuel t rest v r := by
  have key : ∃ n, readLen w rest = .ok (n, r) ∧ v = .int n := by
    rcases hc with ⟨rfl, hc⟩ | ⟨rfl, hc⟩ | ⟨rfl, hc⟩ | ⟨rfl, hc⟩ <;>
    · revert h; parse_chain; intro h
      split at h
      · rename_i n r' hrl
        cases h
        exact ⟨n, hrl, rfl⟩
      · cases h
  obtain ⟨n, hrl, rfl⟩ := key
  exact .uint w n r hc hrl

theorem step_sint (w : Nat)
    (hc : w = 1 ∧ t.toNat = 0xd0 ∨ w = 2 ∧ t.toNat = 0xd1 ∨ w = 4 ∧ t.toNat = 0xd2 ∨ w = 8 ∧ t.toNat = 0xd3)
    (h : parse (fuel + 1) (t :: rest) = .ok (v, r)) : Step fuel t rest v r := by
  have key : ∃ n, readLen w rest = .ok (n, r) ∧ v = .int (signedOf (8 * w) n) := by
    rcases hc with ⟨rfl, hc⟩ | ⟨rfl, hc⟩ | ⟨rfl, hc⟩ | ⟨rfl, hc⟩ <;>
    · revert h; parse_chain; intro h
      split at h
      · rename_i n r' hrl
        cases h
        exact ⟨n, hrl, rfl⟩
      · cases h
  obtain ⟨n, hrl, rfl⟩ := key
  exact .sint w n r hc hrl

theorem step_fixext
    (hc : t.toNat = 0xd4 ∨ t.toNat = 0xd5 ∨ t.toNat = 0xd6 ∨ t.toNat = 0xd7 ∨ t.toNat = 0xd8)
    (h : parse (fuel + 1) (t :: rest) = .ok (v, r)) : ¬ ValWF v := by
  rcases hc with hc | hc | hc | hc | hc <;>
  · revert h; parse_chain; intro h
    split at h
    · cases h; intro hw; cases hw
    · cases h

theorem step_arr (w : Nat) (hc : w = 2 ∧ t.toNat = 0xdc ∨ w = 4 ∧ t.toNat = 0xdd)
    (h : parse (fuel + 1) (t :: rest) = .ok (v, r)) : Step fuel t rest v r := by
  have key : ∃ n r0 l, readLen w rest = .ok (n, r0) ∧ parseArr fuel n r0 = .ok (l, r) ∧ v = .arr l := by
    rcases hc with ⟨rfl, hc⟩ | ⟨rfl, hc⟩ <;>
    · revert h; parse_chain; intro h
      split at h
      · cases h
      · rename_i n r0 hrl
        split at h
        · rename_i l r' hp
          cases h
          exact ⟨n, r0, l, hrl, hp, rfl⟩
        · cases h
  obtain ⟨n, r0, l, hrl, hp, rfl⟩ := key
  exact .arr w n r0 l r hc hrl hp

theorem step_map (hc : t.toNat = 0xde ∨ t.toNat = 0xdf)
    (h : parse (fuel + 1) (t :: rest) = .ok (v, r)) : ¬ ValWF v := by
  rcases hc with hc | hc <;>
  · revert h; parse_chain; intro h
    split at h
    · cases h
    · split at h
      · cases h; intro hw; cases hw
      · cases h

/-- the inversion: every successful parse of a well-formed value is one of the
    `Step` cases -/
theorem parse_step (h : parse (fuel + 1) (t :: rest) = .ok (v, r)) (hw : ValWF v) :
    Step fuel t rest v r := by
  have hlt : t.toNat < 256 := t.toNat_lt
  by_cases c1 : t.toNat < 0x80
  · exact step_posfix c1 h
  by_cases c2 : t.toNat < 0x90
  · exact absurd hw (step_fixmap (by omega) c2 h)
  by_cases c3 : t.toNat < 0xa0
  · exact step_fixarr (by omega) c3 h
  by_cases c4 : t.toNat < 0xc0
  · exact step_fixstr (by omega) c4 h
  by_cases c5 : 0xe0 ≤ t.toNat
  · exact step_negfix c5 h
  by_cases c6 : t.toNat < 0xc4
  · have : t.toNat = 0xc0 ∨ t.toNat = 0xc1 ∨ t.toNat = 0xc2 ∨ t.toNat = 0xc3 := by omega
    rcases this with e | e | e | e
    · exact step_c0 e h
    · exact (step_c1 e h).elim
    · exact step_c2 e h
    · exact step_c3 e h
  by_cases c7 : t.toNat < 0xc7
  · have : ∃ w, w = 1 ∧ t.toNat = 0xc4 ∨ w = 2 ∧ t.toNat = 0xc5 ∨ w = 4 ∧ t.toNat = 0xc6 := by
      have : t.toNat = 0xc4 ∨ t.toNat = 0xc5 ∨ t.toNat = 0xc6 := by omega
      rcases this with e | e | e
      · exact ⟨1, .inl ⟨rfl, e⟩⟩
      · exact ⟨2, .inr (.inl ⟨rfl, e⟩)⟩
      · exact ⟨4, .inr (.inr ⟨rfl, e⟩)⟩
    obtain ⟨w, hc⟩ := this
    exact step_bin w hc h
  by_cases c8 : t.toNat < 0xca
  · have : ∃ w, w = 1 ∧ t.toNat = 0xc7 ∨ w = 2 ∧ t.toNat = 0xc8 ∨ w = 4 ∧ t.toNat = 0xc9 := by
      have : t.toNat = 0xc7 ∨ t.toNat = 0xc8 ∨ t.toNat = 0xc9 := by omega
      rcases this with e | e | e
      · exact ⟨1, .inl ⟨rfl, e⟩⟩
      · exact ⟨2, .inr (.inl ⟨rfl, e⟩)⟩
      · exact ⟨4, .inr (.inr ⟨rfl, e⟩)⟩
    obtain ⟨w, hc⟩ := this
    exact absurd hw (step_ext w hc h)
  by_cases c9 : t.toNat < 0xcc
  · exact absurd hw (step_float (by omega) h)
  by_cases c10 : t.toNat < 0xd0
  · have : ∃ w, w = 1 ∧ t.toNat = 0xcc ∨ w = 2 ∧ t.toNat = 0xcd ∨ w = 4 ∧ t.toNat = 0xce
        ∨ w = 8 ∧ t.toNat = 0xcf := by
      have : t.toNat = 0xcc ∨ t.toNat = 0xcd ∨ t.toNat = 0xce ∨ t.toNat = 0xcf := by omega
      rcases this with e | e | e | e
      · exact ⟨1, .inl ⟨rfl, e⟩⟩
      · exact ⟨2, .inr (.inl ⟨rfl, e⟩)⟩
      · exact ⟨4, .inr (.inr (.inl ⟨rfl, e⟩))⟩
      · exact ⟨8, .inr (.inr (.inr ⟨rfl, e⟩))⟩
    obtain ⟨w, hc⟩ := this
    exact step_uint w hc h
  by_cases c11 : t.toNat < 0xd4
  · have : ∃ w, w = 1 ∧ t.toNat = 0xd0 ∨ w = 2 ∧ t.toNat = 0xd1 ∨ w = 4 ∧ t.toNat = 0xd2
        ∨ w = 8 ∧ t.toNat = 0xd3 := by
      have : t.toNat = 0xd0 ∨ t.toNat = 0xd1 ∨ t.toNat = 0xd2 ∨ t.toNat = 0xd3 := by omega
      rcases this with e | e | e | e
      · exact ⟨1, .inl ⟨rfl, e⟩⟩
      · exact ⟨2, .inr (.inl ⟨rfl, e⟩)⟩
      · exact ⟨4, .inr (.inr (.inl ⟨rfl, e⟩))⟩
      · exact ⟨8, .inr (.inr (.inr ⟨rfl, e⟩))⟩
    obtain ⟨w, hc⟩ := this
    exact step_sint w hc h
  by_cases c12 : t.toNat < 0xd9
  · exact absurd hw (step_fixext (by omega) h)
  by_cases c13 : t.toNat < 0xdc
  · have : ∃ w, w = 1 ∧ t.toNat = 0xd9 ∨ w = 2 ∧ t.toNat = 0xda ∨ w = 4 ∧ t.toNat = 0xdb := by
      have : t.toNat = 0xd9 ∨ t.toNat = 0xda ∨ t.toNat = 0xdb := by omega
      rcases this with e | e | e
      · exact ⟨1, .inl ⟨rfl, e⟩⟩
      · exact ⟨2, .inr (.inl ⟨rfl, e⟩)⟩
      · exact ⟨4, .inr (.inr ⟨rfl, e⟩)⟩
    obtain ⟨w, hc⟩ := this
    exact step_str w hc h
  by_cases c14 : t.toNat < 0xde
  · have : ∃ w, w = 2 ∧ t.toNat = 0xdc ∨ w = 4 ∧ t.toNat = 0xdd := by
      have : t.toNat = 0xdc ∨ t.toNat = 0xdd := by omega
      rcases this with e | e
      · exact ⟨2, .inl ⟨rfl, e⟩⟩
      · exact ⟨4, .inr ⟨rfl, e⟩⟩
    obtain ⟨w, hc⟩ := this
    exact step_arr w hc h
  · exact absurd hw (step_map (by omega) h)

end

/-! ### sizes of the encoder's headers, as a function of the value -/

theorem encUInt_le (w n : Nat) (hw : w = 1 ∨ w = 2 ∨ w = 4 ∨ w = 8) (h : n < 256 ^ w) :
    (encUInt n).length ≤ 1 + w := by
  unfold encUInt
  rcases hw with rfl | rfl | rfl | rfl <;> simp only [Nat.reducePow] at h <;>
  · repeat' split
    all_goals simp [beN_length] <;> omega

theorem encInt_le (w : Nat) (i : Int) (hw : w = 1 ∨ w = 2 ∨ w = 4 ∨ w = 8)
    (hlo : -((2 : Int) ^ (8 * w - 1)) ≤ i) (hhi : i < (256 : Int) ^ w) :
    (encInt i).length ≤ 1 + w := by
  unfold encInt
  split
  · apply encUInt_le w _ hw
    rcases hw with rfl | rfl | rfl | rfl <;> simp only [Int.reducePow, Nat.reducePow] at hhi ⊢ <;> omega
  · rcases hw with rfl | rfl | rfl | rfl <;>
      simp only [Nat.reduceMul, Nat.reduceSub, Int.reducePow] at hlo <;>
    · repeat' split
      all_goals simp [beN_length] <;> omega

theorem signedOf_bounds (w n : Nat) (hw : w = 1 ∨ w = 2 ∨ w = 4 ∨ w = 8) (h : n < 256 ^ w) :
    -((2 : Int) ^ (8 * w - 1)) ≤ signedOf (8 * w) n ∧ signedOf (8 * w) n < (256 : Int) ^ w := by
  unfold signedOf
  rcases hw with rfl | rfl | rfl | rfl <;>
    simp only [Nat.reduceMul, Nat.reduceSub, Int.reducePow, Nat.reducePow] at h ⊢ <;>
  · split <;> omega

theorem encInt_signedOf_le (w n : Nat) (hw : w = 1 ∨ w = 2 ∨ w = 4 ∨ w = 8) (h : n < 256 ^ w) :
    (encInt (signedOf (8 * w) n)).length ≤ 1 + w :=
  encInt_le w _ hw (signedOf_bounds w n hw h).1 (signedOf_bounds w n hw h).2

theorem encInt_posfix (n : Nat) (h : n < 128) : (encInt (n : Int)).length = 1 := by
  unfold encInt encUInt
  rw [if_pos (by omega), if_pos (by omega)]
  rfl

theorem encInt_negfix (c : Nat) (h : 0xe0 ≤ c) (h2 : c < 256) : (encInt ((c : Int) - 256)).length = 1 := by
  unfold encInt
  rw [if_neg (by omega), if_pos (by omega)]
  rfl

theorem encBinHdr_le (w n : Nat) (hw : w = 1 ∨ w = 2 ∨ w = 4) (h : n < 256 ^ w) :
    (encBinHdr n).length ≤ 1 + w := by
  unfold encBinHdr
  rcases hw with rfl | rfl | rfl <;> simp only [Nat.reducePow] at h <;>
  · repeat' split
    all_goals simp [beN_length] <;> omega

theorem encStrHdr_le (w n : Nat) (hw : w = 1 ∨ w = 2 ∨ w = 4) (h : n < 256 ^ w) :
    (encStrHdr n).length ≤ 1 + w := by
  unfold encStrHdr
  rcases hw with rfl | rfl | rfl <;> simp only [Nat.reducePow] at h <;>
  · repeat' split
    all_goals simp [beN_length] <;> omega

theorem encStrHdr_fix (n : Nat) (h : n < 32) : (encStrHdr n).length = 1 := by
  unfold encStrHdr
  rw [if_pos h]
  rfl

theorem encArrayHdr_le (w n : Nat) (hw : w = 2 ∨ w = 4) (h : n < 256 ^ w) :
    (encArrayHdr n).length ≤ 1 + w := by
  unfold encArrayHdr
  rcases hw with rfl | rfl <;> simp only [Nat.reducePow] at h <;>
  · repeat' split
    all_goals simp [beN_length] <;> omega

theorem encArrayHdr_fix (n : Nat) (h : n < 16) : (encArrayHdr n).length = 1 := by
  unfold encArrayHdr
  rw [if_pos h]
  rfl

theorem parse_zero (b : Bytes) : parse 0 b = .error .trunc := by
  rw [parse]

theorem parse_nil (fuel : Nat) : parse fuel [] = .error .trunc := by
  cases fuel <;> rw [parse] <;> simp

theorem parseArr_zero (n : Nat) (b : Bytes) : parseArr 0 n b = .error .trunc := by
  rw [parseArr]

theorem parseArr_length : ∀ (fuel n : Nat) (b : Bytes) (l : List Val) (r : Bytes),
    parseArr fuel n b = .ok (l, r) → l.length = n := by
  intro fuel
  induction fuel with
  | zero => intro n b l r h; rw [parseArr_zero] at h; cases h
  | succ fuel ih =>
    intro n b l r h
    cases n with
    | zero => rw [parseArr] at h; cases h; rfl
    | succ n =>
      rw [parseArr] at h
      split at h
      · cases h
      · rename_i v r1 hp
        split at h
        · cases h
        · rename_i vs r2 hpa
          cases h
          rw [List.length_cons, ih n r1 vs r hpa]

/-! ### `encode v` is a shortest accepted encoding of `v` -/

theorem shortest_aux : ∀ fuel : Nat,
    (∀ (b : Bytes) (v : Val) (rest : Bytes), parse fuel b = .ok (v, rest) → ValWF v →
      (encode v).length + rest.length ≤ b.length) ∧
    (∀ (n : Nat) (b : Bytes) (l : List Val) (rest : Bytes), parseArr fuel n b = .ok (l, rest) →
      (∀ x ∈ l, ValWF x) → (encode.encodeList l).length + rest.length ≤ b.length) := by
  intro fuel
  induction fuel with
  | zero =>
    constructor
    · intro b v rest h; rw [parse_zero] at h; cases h
    · intro n b l rest h; rw [parseArr_zero] at h; cases h
  | succ fuel ih =>
    obtain ⟨ihp, iha⟩ := ih
    constructor
    · intro b v rest h hw
      cases b with
      | nil => rw [parse_nil] at h; cases h
      | cons t b =>
        have hlt : t.toNat < 256 := t.toNat_lt
        have hs := parse_step h hw
        rw [List.length_cons]
        cases hs with
        | posfix hc => rw [encode, encInt_posfix _ hc]; omega
        | negfix hc => rw [encode, encInt_negfix _ hc hlt]; omega
        | nil hc => rw [encode]; simp [encNil]; omega
        | bool bb hc => rw [encode]; simp [encBool]; omega
        | fixstr s r h1 h2 ht =>
          obtain ⟨rfl, hl⟩ := takeN_inv ht
          rw [encode, encStr, List.length_append, List.length_append, encStrHdr_fix _ (by omega)]
          omega
        | fixarr l r h1 h2 hp =>
          cases hw with
          | arr _ hl hall =>
            have := iha _ _ _ _ hp hall
            have hn := parseArr_length _ _ _ _ _ hp
            rw [encode, List.length_append, encArrayHdr_fix _ (by omega)]
            omega
        | bin w n r0 s r hc hrl ht =>
          obtain ⟨rfl, hl⟩ := takeN_inv ht
          obtain ⟨h1, h2⟩ := readLen_len hrl
          have := encBinHdr_le w s.length (by omega) (by rw [hl]; exact h2)
          rw [encode, encBin, List.length_append]
          rw [List.length_append] at h1
          omega
        | str w n r0 s r hc hrl ht =>
          obtain ⟨rfl, hl⟩ := takeN_inv ht
          obtain ⟨h1, h2⟩ := readLen_len hrl
          have := encStrHdr_le w s.length (by omega) (by rw [hl]; exact h2)
          rw [encode, encStr, List.length_append]
          rw [List.length_append] at h1
          omega
        | uint w n r hc hrl =>
          obtain ⟨h1, h2⟩ := readLen_len hrl
          have henc : (encInt (n : Int)).length ≤ 1 + w := by
            unfold encInt
            rw [if_pos (by omega), Int.toNat_natCast]
            exact encUInt_le w n (by omega) h2
          rw [encode]
          omega
        | sint w n r hc hrl =>
          obtain ⟨h1, h2⟩ := readLen_len hrl
          have := encInt_signedOf_le w n (by omega) h2
          rw [encode]
          omega
        | arr w n r0 l r hc hrl hp =>
          cases hw with
          | arr _ hl hall =>
            obtain ⟨h1, h2⟩ := readLen_len hrl
            have := iha _ _ _ _ hp hall
            have hn := parseArr_length _ _ _ _ _ hp
            have := encArrayHdr_le w l.length (by omega) (by rw [hn]; exact h2)
            rw [encode, List.length_append]
            omega
    · intro n b l rest h hall
      cases n with
      | zero =>
        rw [parseArr] at h
        cases h
        rw [encodeList_nil]
        simp
      | succ n =>
        rw [parseArr] at h
        split at h
        · cases h
        · rename_i v r1 hp
          split at h
          · cases h
          · rename_i vs r2 hpa
            cases h
            have h1 := ihp _ _ _ hp (hall v (by simp))
            have h2 := iha _ _ _ _ hpa (fun x hx => hall x (by simp [hx]))
            rw [encodeList_cons, List.length_append]
            omega

/-- general form, any fuel, with a remainder -/
theorem parse_shortest (fuel : Nat) (b : Bytes) (v : Val) (rest : Bytes)
    (h : parse fuel b = .ok (v, rest)) (hw : ValWF v) :
    (encode v).length + rest.length ≤ b.length :=
  (shortest_aux fuel).1 b v rest h hw

theorem parseArr_shortest (fuel n : Nat) (b : Bytes) (l : List Val) (rest : Bytes)
    (h : parseArr fuel n b = .ok (l, rest)) (hw : ∀ x ∈ l, ValWF x) :
    (encode.encodeList l).length + rest.length ≤ b.length :=
  (shortest_aux fuel).2 n b l rest h hw

/-- **`encode v` is a shortest encoding of `v`** among all byte strings the
    lenient parser reads as `v` -/
theorem encode_is_shortest (b : Bytes) (v : Val) (h : parse1 b = .ok (v, [])) (hw : ValWF v) :
    (encode v).length ≤ b.length := by
  have := parse_shortest _ b v [] h hw
  simpa using this

end MsgpackMin

/-! ### the shortest accepted encoding is unique — for trees whose integers are below 256

  Without a restriction on the integers uniqueness is FALSE: a non-negative
  integer from 256 up has a signed form (`d1`/`d2`/`d3`) exactly as long as the
  unsigned form (`cd`/`ce`/`cf`) the encoder picks — `[d1 01 00]` and
  `[cd 01 00]` both read as 256 (see the examples at the end of this section).
  Every integer saltpack writes (version numbers, message type) is below 128. -/

mutual
/-- every integer in the tree is below 256 (negative ones are unrestricted) -/
def smallInts : Val → Bool
  | .int i => decide (i < 256)
  | .arr l => smallIntsList l
  | _ => true
def smallIntsList : List Val → Bool
  | [] => true
  | v :: vs => smallInts v && smallIntsList vs
end

namespace MsgpackMin
open MsgpackRT

theorem smallInts_int (i : Int) : smallInts (.int i) = decide (i < 256) := by rw [smallInts]
theorem smallInts_arr (l : List Val) : smallInts (.arr l) = smallIntsList l := by rw [smallInts]
theorem smallIntsList_nil : smallIntsList [] = true := by rw [smallIntsList]
theorem smallIntsList_cons (v : Val) (vs : List Val) :
    smallIntsList (v :: vs) = (smallInts v && smallIntsList vs) := by rw [smallIntsList]

theorem smallInts_nil : smallInts .nil = true := by rw [smallInts] <;> simp
theorem smallInts_bool (b : Bool) : smallInts (.bool b) = true := by rw [smallInts] <;> simp
theorem smallInts_bin (b : Bytes) : smallInts (.bin b) = true := by rw [smallInts] <;> simp
theorem smallInts_str (b : Bytes) : smallInts (.str b) = true := by rw [smallInts] <;> simp

theorem smallIntsList_iff (l : List Val) : smallIntsList l = true ↔ ∀ v ∈ l, smallInts v = true := by
  induction l with
  | nil => simp [smallIntsList_nil]
  | cons v vs ih => simp [smallIntsList_cons, ih]

/-- the packets saltpack writes carry small integers only (version numbers and
    the message type), so `shortest_is_unique` applies to them -/
theorem smallInts_encHeader (h : EncHeader) (h1 : h.version.major < 256) (h2 : h.version.minor < 256)
    (h3 : h.typ < 256) : smallInts h.toVal = true := by
  simp only [EncHeader.toVal, Version.toVal, RecvKeys.toVal, smallInts_arr, smallIntsList_cons,
    smallIntsList_nil, smallInts_str, smallInts_int, smallInts_bin, smallIntsList_iff, List.mem_map,
    Bool.and_true, Bool.true_and, Bool.and_eq_true, decide_eq_true_eq]
  refine ⟨⟨h1, h2⟩, h3, ?_⟩
  rintro _ ⟨r, _, rfl⟩
  rw [smallInts_arr, smallIntsList_cons, smallIntsList_cons, smallIntsList_nil, smallInts_bin]
  cases r.kid <;> simp [optBin, smallInts_nil, smallInts_bin]

theorem smallInts_sigHeader (h : SigHeader) (h1 : h.version.major < 256) (h2 : h.version.minor < 256)
    (h3 : h.typ < 256) : smallInts h.toVal = true := by
  simp [SigHeader.toVal, Version.toVal, smallInts_arr, smallIntsList_cons,
    smallIntsList_nil, smallInts_str, smallInts_int, smallInts_bin, h1, h2, h3]

/-- a header `d :: beN w' n'` of the encoder coincides with the header
    `t :: hd` that was read, once the lengths agree -/
theorem hdr_eq (d : Nat) (enc : Bytes) (w w' n' : Nat) (t : UInt8) (hd : Bytes)
    (hform : enc = UInt8.ofNat d :: beN w' n')
    (ht : w' = w → t.toNat = d) (hlen : hd.length = w) (hn : w' = w → natOfBytes hd = n')
    (heq : enc.length = 1 + w) : enc = t :: hd := by
  subst hform
  rw [List.length_cons, beN_length] at heq
  have hw : w' = w := by omega
  have h1 := ht hw
  have h2 := hn hw
  subst hw hlen h2
  rw [← h1, UInt8.ofNat_toNat, beN, bytesOfNat_natOfBytes]

def binDesc (w : Nat) : Nat := if w = 1 then 0xc4 else if w = 2 then 0xc5 else 0xc6
def strDesc (w : Nat) : Nat := if w = 1 then 0xd9 else if w = 2 then 0xda else 0xdb
def uDesc (w : Nat) : Nat := if w = 1 then 0xcc else if w = 2 then 0xcd else if w = 4 then 0xce else 0xcf
def sDesc (w : Nat) : Nat := if w = 1 then 0xd0 else if w = 2 then 0xd1 else if w = 4 then 0xd2 else 0xd3
def arrDesc (w : Nat) : Nat := if w = 2 then 0xdc else 0xdd

theorem encBinHdr_form (n : Nat) : ∃ w', encBinHdr n = UInt8.ofNat (binDesc w') :: beN w' n := by
  unfold encBinHdr
  split
  · rename_i h; exact ⟨1, by rw [beN_one _ h]; rfl⟩
  · split
    · exact ⟨2, rfl⟩
    · exact ⟨4, rfl⟩

theorem encStrHdr_form (n : Nat) (h32 : 32 ≤ n) :
    ∃ w', encStrHdr n = UInt8.ofNat (strDesc w') :: beN w' n := by
  unfold encStrHdr
  rw [if_neg (by omega)]
  split
  · rename_i h; exact ⟨1, by rw [beN_one _ h]; rfl⟩
  · split
    · exact ⟨2, rfl⟩
    · exact ⟨4, rfl⟩

theorem encUInt_form (n : Nat) (h128 : 128 ≤ n) :
    ∃ w', encUInt n = UInt8.ofNat (uDesc w') :: beN w' n := by
  unfold encUInt
  rw [if_neg (by omega)]
  split
  · rename_i h; exact ⟨1, by rw [beN_one _ h]; rfl⟩
  · split
    · exact ⟨2, rfl⟩
    · split
      · exact ⟨4, rfl⟩
      · exact ⟨8, rfl⟩

theorem encArrayHdr_form (n : Nat) (h16 : 16 ≤ n) :
    ∃ w', encArrayHdr n = UInt8.ofNat (arrDesc w') :: beN w' n := by
  unfold encArrayHdr
  rw [if_neg (by omega)]
  split
  · exact ⟨2, rfl⟩
  · exact ⟨4, rfl⟩

theorem encInt_neg_form (i : Int) (h : i < -32) :
    ∃ w', (w' = 1 ∨ w' = 2 ∨ w' = 4 ∨ w' = 8) ∧
      encInt i = UInt8.ofNat (sDesc w') :: beN w' (256 ^ w' - (-i).toNat) := by
  unfold encInt
  rw [if_neg (by omega), if_neg (by omega)]
  split
  · exact ⟨1, by omega, by rw [beN_one _ (by omega)]; rfl⟩
  · split
    · exact ⟨2, by omega, rfl⟩
    · split
      · exact ⟨4, by omega, rfl⟩
      · exact ⟨8, by omega, rfl⟩

theorem encInt_natCast (n : Nat) : encInt (n : Int) = encUInt n := by
  unfold encInt
  rw [if_pos (by omega), Int.toNat_natCast]

theorem encUInt_small_len (n : Nat) (h : n < 256) : (encUInt n).length ≤ 2 ∧ (n < 128 → (encUInt n).length = 1) := by
  unfold encUInt
  by_cases h1 : n < 128
  · rw [if_pos h1]; simp
  · rw [if_neg h1, if_pos h]
    exact ⟨by simp, fun h' => absurd h' h1⟩

theorem encInt_posfix_eq (t : UInt8) (h : t.toNat < 128) : encInt (t.toNat : Int) = [t] := by
  rw [encInt_natCast]
  unfold encUInt
  rw [if_pos h, UInt8.ofNat_toNat]

theorem encInt_negfix_eq (t : UInt8) (h : 0xe0 ≤ t.toNat) : encInt ((t.toNat : Int) - 256) = [t] := by
  have hlt : t.toNat < 256 := t.toNat_lt
  unfold encInt
  rw [if_neg (by omega), if_pos (by omega)]
  have : 256 - (-((t.toNat : Int) - 256)).toNat = t.toNat := by omega
  rw [this, UInt8.ofNat_toNat]

theorem eq_of_toNat (t : UInt8) (c : UInt8) (h : t.toNat = c.toNat) : t = c := UInt8.toNat_inj.1 h

theorem encStrHdr_fix_eq (t : UInt8) (h1 : 0xa0 ≤ t.toNat) (h2 : t.toNat < 0xc0) (n : Nat)
    (hn : n = t.toNat - 0xa0) : encStrHdr n = [t] := by
  unfold encStrHdr
  rw [if_pos (by omega)]
  have : 0xa0 + n = t.toNat := by omega
  rw [this, UInt8.ofNat_toNat]

theorem encArrayHdr_fix_eq (t : UInt8) (h1 : 0x90 ≤ t.toNat) (h2 : t.toNat < 0xa0) (n : Nat)
    (hn : n = t.toNat - 0x90) : encArrayHdr n = [t] := by
  unfold encArrayHdr
  rw [if_pos (by omega)]
  have : 0x90 + n = t.toNat := by omega
  rw [this, UInt8.ofNat_toNat]

theorem encBinHdr_eq (w n : Nat) (t : UInt8) (hd : Bytes)
    (hc : w = 1 ∧ t.toNat = 0xc4 ∨ w = 2 ∧ t.toNat = 0xc5 ∨ w = 4 ∧ t.toNat = 0xc6)
    (hlen : hd.length = w) (hn : natOfBytes hd = n) (heq : (encBinHdr n).length = 1 + w) :
    encBinHdr n = t :: hd := by
  obtain ⟨w', hform⟩ := encBinHdr_form n
  refine hdr_eq _ _ w w' n t hd hform ?_ hlen (fun _ => hn) heq
  rintro rfl
  rcases hc with ⟨rfl, hc⟩ | ⟨rfl, hc⟩ | ⟨rfl, hc⟩ <;> exact hc

theorem encStrHdr_eq (w n : Nat) (t : UInt8) (hd : Bytes)
    (hc : w = 1 ∧ t.toNat = 0xd9 ∨ w = 2 ∧ t.toNat = 0xda ∨ w = 4 ∧ t.toNat = 0xdb)
    (hlen : hd.length = w) (hn : natOfBytes hd = n) (heq : (encStrHdr n).length = 1 + w) :
    encStrHdr n = t :: hd := by
  by_cases h32 : n < 32
  · rw [encStrHdr_fix n h32] at heq; omega
  obtain ⟨w', hform⟩ := encStrHdr_form n (by omega)
  refine hdr_eq _ _ w w' n t hd hform ?_ hlen (fun _ => hn) heq
  rintro rfl
  rcases hc with ⟨rfl, hc⟩ | ⟨rfl, hc⟩ | ⟨rfl, hc⟩ <;> exact hc

theorem encArrayHdr_eq (w n : Nat) (t : UInt8) (hd : Bytes)
    (hc : w = 2 ∧ t.toNat = 0xdc ∨ w = 4 ∧ t.toNat = 0xdd)
    (hlen : hd.length = w) (hn : natOfBytes hd = n) (heq : (encArrayHdr n).length = 1 + w) :
    encArrayHdr n = t :: hd := by
  by_cases h16 : n < 16
  · rw [encArrayHdr_fix n h16] at heq; omega
  obtain ⟨w', hform⟩ := encArrayHdr_form n (by omega)
  refine hdr_eq _ _ w w' n t hd hform ?_ hlen (fun _ => hn) heq
  rintro rfl
  rcases hc with ⟨rfl, hc⟩ | ⟨rfl, hc⟩ <;> exact hc

theorem encUInt_eq (w n : Nat) (t : UInt8) (hd : Bytes)
    (hc : w = 1 ∧ t.toNat = 0xcc ∨ w = 2 ∧ t.toNat = 0xcd ∨ w = 4 ∧ t.toNat = 0xce ∨ w = 8 ∧ t.toNat = 0xcf)
    (hlen : hd.length = w) (hn : natOfBytes hd = n) (heq : (encUInt n).length = 1 + w) :
    encUInt n = t :: hd := by
  by_cases h128 : n < 128
  · rw [(encUInt_small_len n (by omega)).2 h128] at heq; omega
  obtain ⟨w', hform⟩ := encUInt_form n (by omega)
  refine hdr_eq _ _ w w' n t hd hform ?_ hlen (fun _ => hn) heq
  rintro rfl
  rcases hc with ⟨rfl, hc⟩ | ⟨rfl, hc⟩ | ⟨rfl, hc⟩ | ⟨rfl, hc⟩ <;> exact hc

/-- the signed forms: only for an integer below 256 is the signed form that was
    read necessarily the encoder's -/
theorem encInt_signed_eq (w n : Nat) (t : UInt8) (hd : Bytes)
    (hc : w = 1 ∧ t.toNat = 0xd0 ∨ w = 2 ∧ t.toNat = 0xd1 ∨ w = 4 ∧ t.toNat = 0xd2 ∨ w = 8 ∧ t.toNat = 0xd3)
    (hlen : hd.length = w) (hn : natOfBytes hd = n)
    (hsmall : signedOf (8 * w) n < 256)
    (heq : (encInt (signedOf (8 * w) n)).length = 1 + w) :
    encInt (signedOf (8 * w) n) = t :: hd := by
  have hw : w = 1 ∨ w = 2 ∨ w = 4 ∨ w = 8 := by omega
  have hlt : n < 256 ^ w := by
    have := natOfBytes_lt hd
    rw [hlen, hn] at this
    exact this
  -- the value is `n` or `n - 256^w`
  have hval : (signedOf (8 * w) n = (n : Int) ∧ (n : Int) < (2 : Int) ^ (8 * w - 1)) ∨
      (signedOf (8 * w) n = (n : Int) - (256 : Int) ^ w ∧ (2 : Int) ^ (8 * w - 1) ≤ (n : Int)) := by
    unfold signedOf
    rcases hw with rfl | rfl | rfl | rfl <;>
      simp only [Nat.reduceMul, Nat.reduceSub, Int.reducePow, Nat.reducePow] <;>
    · split
      · left; exact ⟨rfl, by omega⟩
      · right; exact ⟨by omega, by omega⟩
  rcases hval with ⟨hv, hb⟩ | ⟨hv, hb⟩
  · -- non-negative and below 256: the encoder uses one or two bytes (`cc`), never a signed form
    exfalso
    rw [hv] at hsmall heq
    rw [encInt_natCast] at heq
    have h1 := encUInt_small_len n (by omega)
    rcases hw with rfl | rfl | rfl | rfl
    · simp only [Nat.reduceMul, Nat.reduceSub, Int.reducePow] at hb
      have := h1.2 (by omega)
      omega
    all_goals omega
  · rw [hv] at heq ⊢
    have hneg : (n : Int) - (256 : Int) ^ w < -32 := by
      false_or_by_contra
      rename_i hge
      have hl : (encInt ((n : Int) - (256 : Int) ^ w)).length = 1 := by
        unfold encInt
        have : ¬ (0 : Int) ≤ (n : Int) - (256 : Int) ^ w := by
          rcases hw with rfl | rfl | rfl | rfl <;> simp only [Int.reducePow, Nat.reducePow] at hlt ⊢ <;> omega
        rw [if_neg this, if_pos (by omega)]
        rfl
      omega
    obtain ⟨w', hw', hform⟩ := encInt_neg_form _ hneg
    refine hdr_eq _ _ w w' _ t hd hform ?_ hlen ?_ heq
    · rintro rfl
      rcases hc with ⟨rfl, hc⟩ | ⟨rfl, hc⟩ | ⟨rfl, hc⟩ | ⟨rfl, hc⟩ <;> exact hc
    · rintro rfl
      rw [hn]
      rcases hw with rfl | rfl | rfl | rfl <;> simp only [Int.reducePow, Nat.reducePow] at hlt ⊢ <;> omega

theorem unique_aux : ∀ fuel : Nat,
    (∀ (b : Bytes) (v : Val) (rest : Bytes), parse fuel b = .ok (v, rest) → ValWF v →
      smallInts v = true → b.length = (encode v).length + rest.length → b = encode v ++ rest) ∧
    (∀ (n : Nat) (b : Bytes) (l : List Val) (rest : Bytes), parseArr fuel n b = .ok (l, rest) →
      (∀ x ∈ l, ValWF x) → smallIntsList l = true →
      b.length = (encode.encodeList l).length + rest.length → b = encode.encodeList l ++ rest) := by
  intro fuel
  induction fuel with
  | zero =>
    constructor
    · intro b v rest h; rw [parse_zero] at h; cases h
    · intro n b l rest h; rw [parseArr_zero] at h; cases h
  | succ fuel ih =>
    obtain ⟨ihp, iha⟩ := ih
    constructor
    · intro b v rest h hw hsm heq
      cases b with
      | nil => rw [parse_nil] at h; cases h
      | cons t b =>
        have hs := parse_step h hw
        rw [List.length_cons] at heq
        cases hs with
        | posfix hc => rw [encode, encInt_posfix_eq t hc]; rfl
        | negfix hc => rw [encode, encInt_negfix_eq t hc]; rfl
        | nil hc => rw [encode, encNil, eq_of_toNat t 0xc0 hc]; rfl
        | bool bb hc =>
          rw [encode, encBool]
          cases bb
          · rw [eq_of_toNat t 0xc2 hc]; rfl
          · rw [eq_of_toNat t 0xc3 hc]; rfl
        | fixstr s r h1 h2 ht =>
          obtain ⟨rfl, hl⟩ := takeN_inv ht
          rw [encode, encStr, encStrHdr_fix_eq t h1 h2 s.length hl]
          simp
        | fixarr l r h1 h2 hp =>
          cases hw with
          | arr _ hl hall =>
            rw [smallInts_arr] at hsm
            have hn := parseArr_length _ _ _ _ _ hp
            have hh := encArrayHdr_fix_eq t h1 h2 l.length hn
            rw [encode, hh] at heq
            simp only [List.length_append, List.length_cons, List.length_nil] at heq
            have := iha _ _ _ _ hp hall hsm (by omega)
            rw [encode, hh, this]
            simp
        | bin w n r0 s r hc hrl ht =>
          obtain ⟨rfl, hl⟩ := takeN_inv ht
          obtain ⟨hd, rfl, hlen, hn⟩ := readLen_inv hrl
          rw [encode, encBin] at heq ⊢
          have := encBinHdr_eq w s.length t hd hc hlen (by rw [hn, hl]) (by
            simp only [List.length_append] at heq; omega)
          rw [this]
          simp
        | str w n r0 s r hc hrl ht =>
          obtain ⟨rfl, hl⟩ := takeN_inv ht
          obtain ⟨hd, rfl, hlen, hn⟩ := readLen_inv hrl
          rw [encode, encStr] at heq ⊢
          have := encStrHdr_eq w s.length t hd hc hlen (by rw [hn, hl]) (by
            simp only [List.length_append] at heq; omega)
          rw [this]
          simp
        | uint w n r hc hrl =>
          obtain ⟨hd, rfl, hlen, hn⟩ := readLen_inv hrl
          rw [encode, encInt_natCast] at heq ⊢
          have := encUInt_eq w n t hd hc hlen hn (by
            simp only [List.length_append] at heq; omega)
          rw [this]
          simp
        | sint w n r hc hrl =>
          obtain ⟨hd, rfl, hlen, hn⟩ := readLen_inv hrl
          rw [smallInts_int] at hsm
          rw [encode] at heq ⊢
          have := encInt_signed_eq w n t hd hc hlen hn (by simpa using hsm) (by
            simp only [List.length_append] at heq; omega)
          rw [this]
          simp
        | arr w n r0 l r hc hrl hp =>
          cases hw with
          | arr _ hl hall =>
            rw [smallInts_arr] at hsm
            obtain ⟨hd, rfl, hlen, hnb⟩ := readLen_inv hrl
            have hn := parseArr_length _ _ _ _ _ hp
            have hlt := (readLen_len hrl).2
            have hA := encArrayHdr_le w l.length (by omega) (by rw [hn]; exact hlt)
            have hB := parseArr_shortest _ _ _ _ _ hp hall
            rw [encode] at heq ⊢
            simp only [List.length_append] at heq
            have hh := encArrayHdr_eq w l.length t hd hc hlen (by rw [hnb, hn]) (by omega)
            have := iha _ _ _ _ hp hall hsm (by omega)
            rw [hh, this]
            simp
    · intro n b l rest h hall hsm heq
      cases n with
      | zero =>
        rw [parseArr] at h
        cases h
        rw [encodeList_nil]
        rfl
      | succ n =>
        rw [parseArr] at h
        split at h
        · cases h
        · rename_i v r1 hp
          split at h
          · cases h
          · rename_i vs r2 hpa
            cases h
            rw [smallIntsList_cons, Bool.and_eq_true] at hsm
            have hv := hall v (by simp)
            have hvs : ∀ x ∈ vs, ValWF x := fun x hx => hall x (by simp [hx])
            have h1 := parse_shortest _ _ _ _ hp hv
            have h2 := parseArr_shortest _ _ _ _ _ hpa hvs
            rw [encodeList_cons, List.length_append] at heq
            have e1 := ihp _ _ _ hp hv hsm.1 (by omega)
            have e2 := iha _ _ _ _ hpa hvs hsm.2 (by omega)
            rw [encodeList_cons, List.append_assoc, ← e2, ← e1]

/-- **the shortest accepted encoding is unique**, for trees whose integers are
    below 256: a byte string that the lenient parser reads as `v` and that is as
    short as `encode v` IS `encode v` -/
theorem shortest_is_unique (b : Bytes) (v : Val) (h : parse1 b = .ok (v, [])) (hw : ValWF v)
    (hsm : smallInts v = true) (hlen : b.length = (encode v).length) : b = encode v := by
  have := (unique_aux _).1 b v [] h hw hsm (by simpa using hlen)
  simpa using this

/-- … and the restriction on integers is needed: 256 has two 3-byte forms -/
theorem shortest_not_unique_wide_int :
    parse1 [0xd1, 0x01, 0x00] = .ok (.int 256, []) ∧ encode (.int 256) = [0xcd, 0x01, 0x00] ∧
    ValWF (.int 256) := by
  refine ⟨by rfl, by rfl, ValWF.int _ (by decide) (by decide)⟩

end MsgpackMin

/-! ## Part 2: no nil in what the senders write, except hidden key ids -/

mutual
/-- no `nil` anywhere in the tree -/
def nilFree : Val → Bool
  | .nil => false
  | .arr l => nilFreeList l
  | .map l => nilFreeMap l
  | _ => true
def nilFreeList : List Val → Bool
  | [] => true
  | v :: vs => nilFree v && nilFreeList vs
def nilFreeMap : List (Val × Val) → Bool
  | [] => true
  | (k, v) :: kvs => nilFree k && (nilFree v && nilFreeMap kvs)
end

namespace MsgpackMin
open MsgpackRT

@[simp] theorem nilFree_nil : nilFree .nil = false := by rw [nilFree]
@[simp] theorem nilFree_bool (b : Bool) : nilFree (.bool b) = true := by rw [nilFree] <;> simp
@[simp] theorem nilFree_int (i : Int) : nilFree (.int i) = true := by rw [nilFree] <;> simp
@[simp] theorem nilFree_bin (b : Bytes) : nilFree (.bin b) = true := by rw [nilFree] <;> simp
@[simp] theorem nilFree_str (b : Bytes) : nilFree (.str b) = true := by rw [nilFree] <;> simp
@[simp] theorem nilFree_arr (l : List Val) : nilFree (.arr l) = nilFreeList l := by rw [nilFree]
@[simp] theorem nilFreeList_nil : nilFreeList [] = true := by rw [nilFreeList]
@[simp] theorem nilFreeList_cons (v : Val) (vs : List Val) :
    nilFreeList (v :: vs) = (nilFree v && nilFreeList vs) := by rw [nilFreeList]

theorem nilFreeList_iff (l : List Val) : nilFreeList l = true ↔ ∀ v ∈ l, nilFree v = true := by
  induction l with
  | nil => simp
  | cons v vs ih => simp [ih]

theorem optBin_nil_iff (k : Option Bytes) : optBin k = .nil ↔ k = none := by
  cases k <;> simp [optBin]

theorem nilFree_optBin (k : Option Bytes) : nilFree (optBin k) = true ↔ k ≠ none := by
  cases k <;> simp [optBin]

theorem nilFree_recvKeys (r : RecvKeys) : nilFree r.toVal = true ↔ r.kid ≠ none := by
  simp [RecvKeys.toVal, nilFree_optBin]

/-- a signature header never contains nil -/
theorem nilFree_sigHeader (h : SigHeader) : nilFree h.toVal = true := by
  simp [SigHeader.toVal, Version.toVal]

/-- the shape of an encryption / signcryption header: five non-nil fields, then
    the receiver pairs `[key id or nil, box]` -/
theorem encHeader_shape (h : EncHeader) :
    ∃ f0 f1 f2 f3 f4, h.toVal = .arr [f0, f1, f2, f3, f4, .arr (h.receivers.map RecvKeys.toVal)] ∧
      nilFree f0 = true ∧ nilFree f1 = true ∧ nilFree f2 = true ∧ nilFree f3 = true ∧ nilFree f4 = true ∧
      ∀ r ∈ h.receivers, r.toVal = .arr [optBin r.kid, .bin r.box] ∧ (optBin r.kid = .nil ↔ r.kid = none) :=
  ⟨_, _, _, _, _, rfl, by simp, by simp [Version.toVal], by simp, by simp, by simp,
    fun r _ => ⟨rfl, optBin_nil_iff r.kid⟩⟩

theorem nilFree_encHeader_iff (h : EncHeader) :
    nilFree h.toVal = true ↔ ∀ r ∈ h.receivers, r.kid ≠ none := by
  simp only [EncHeader.toVal, Version.toVal, nilFree_arr, nilFreeList_cons, nilFree_str, nilFree_int,
    nilFree_bin, nilFreeList_nil, Bool.and_true, Bool.true_and, nilFreeList_iff, List.mem_map]
  constructor
  · intro hall r hr
    exact (nilFree_recvKeys r).1 (hall _ ⟨r, hr, rfl⟩)
  · rintro hall _ ⟨r, hr, rfl⟩
    exact (nilFree_recvKeys r).2 (hall r hr)

/-- encryption: the key id at position `j` of the header the sender model builds
    is nil exactly when the `j`-th recipient asked to be hidden -/
theorem enc_header_kid_nil_iff (P : Prims) (v : Version) (sender : Option Bytes) (eph pk : Bytes)
    (rs : List Encrypt.Recipient) (h : EncHeader)
    (hh : Encrypt.header P v sender eph pk rs = .ok h) (hv : v = v1 ∨ v = v2) :
    ∀ (j : Nat) (r : RecvKeys), h.receivers[j]? = some r →
      (r.kid = none ↔ (rs.getD j default).hidden = true) := by
  obtain ⟨_, _, _, _, _, hlen, hget, _⟩ := header_spec P hv sender eph pk rs h hh
  intro j r hr
  have hj : j < rs.length := by
    rw [← hlen]
    exact (List.getElem?_eq_some_iff.1 hr).1
  obtain ⟨n, _, hj'⟩ := hget j hj
  rw [hr] at hj'
  simp only [Option.some.injEq] at hj'
  subst hj'
  rw [List.getD_eq_getElem?_getD, List.getElem?_eq_getElem hj, Option.getD_some]
  unfold kidSpec
  cases rs[j].hidden <;> simp

theorem enc_header_nilFree_iff (P : Prims) (v : Version) (sender : Option Bytes) (eph pk : Bytes)
    (rs : List Encrypt.Recipient) (h : EncHeader)
    (hh : Encrypt.header P v sender eph pk rs = .ok h) (hv : v = v1 ∨ v = v2) :
    nilFree h.toVal = true ↔ ∀ r ∈ rs, r.hidden = false := by
  obtain ⟨_, _, _, _, _, _, _, hk⟩ := header_spec P hv sender eph pk rs h hh
  rw [nilFree_encHeader_iff]
  have e1 : (∀ r ∈ h.receivers, r.kid ≠ none) ↔ ∀ k ∈ h.receivers.map (·.kid), k ≠ none := by
    simp [List.mem_map]
  have e2 : (∀ r ∈ rs, r.hidden = false) ↔ ∀ k ∈ rs.map kidSpec, k ≠ none := by
    simp only [List.mem_map, forall_exists_index, and_imp, forall_apply_eq_imp_iff₂]
    constructor
    · intro hall r hr
      simp [kidSpec, hall r hr]
    · intro hall r hr
      have := hall r hr
      unfold kidSpec at this
      cases hd : r.hidden
      · rfl
      · simp [hd] at this
  rw [e1, e2, hk]

/-- signcryption: every receiver entry carries a key identifier -/
theorem sc_header_kid_ne_none (P : Prims) (sender : Option Bytes) (eph pk : Bytes)
    (rs : List Signcrypt.Recipient) :
    ∀ r ∈ (Signcrypt.header P sender eph pk rs).receivers, r.kid ≠ none := by
  intro r hr
  obtain ⟨j, hj⟩ := List.getElem?_of_mem hr
  simp only [Signcrypt.header] at hj
  rw [RTSig.receiverEntries_getElem?] at hj
  cases hrs : rs[j]? with
  | none => rw [hrs] at hj; cases hj
  | some x =>
    rw [hrs] at hj
    simp only [Option.map_some, Option.some.injEq] at hj
    subst hj
    cases x <;> simp [Signcrypt.receiverEntry]

theorem sc_header_nilFree (P : Prims) (sender : Option Bytes) (eph pk : Bytes)
    (rs : List Signcrypt.Recipient) : nilFree (Signcrypt.header P sender eph pk rs).toVal = true :=
  (nilFree_encHeader_iff _).2 (sc_header_kid_ne_none P sender eph pk rs)

/-! ### payload packets -/

theorem nilFreeList_bins (l : List Bytes) : nilFreeList (l.map .bin) = true := by
  rw [nilFreeList_iff]
  intro v hv
  obtain ⟨b, _, rfl⟩ := List.mem_map.1 hv
  simp

/-- an encryption payload packet with at least one authenticator has no nil.
    (`encBlockVal` writes nil for an EMPTY authenticator list — Go's nil slice —
    which cannot happen after `checkReceivers`; see `enc_sealPackets_nilFree`.) -/
theorem encBlockVal_nilFree (v : Version) (auths : List Bytes) (ct : Bytes) (f : Bool) (val : Val)
    (h : encBlockVal v auths ct f = .ok val) (ha : auths ≠ []) : nilFree val = true := by
  have he : auths.isEmpty = false := by simpa using ha
  unfold encBlockVal at h
  simp only [he, Bool.false_eq_true, if_false] at h
  split at h
  · cases h; simp [nilFreeList_bins]
  · split at h
    · cases h; simp [nilFreeList_bins]
    · cases h

/-- … and with no authenticator it does contain one (so the side condition of
    `encBlockVal_nilFree` is needed) -/
theorem encBlockVal_empty_has_nil (ct : Bytes) (f : Bool) :
    encBlockVal v2 [] ct f = .ok (.arr [.bool f, .nil, .bin ct]) ∧
    nilFree (.arr [.bool f, .nil, .bin ct]) = false := by
  constructor
  · rfl
  · simp

theorem signcryptBlockVal_nilFree (ct : Bytes) (f : Bool) : nilFree (signcryptBlockVal ct f) = true := by
  simp [signcryptBlockVal]

theorem sigBlockVal_nilFree (v : Version) (sig chunk : Bytes) (f : Bool) (val : Val)
    (h : sigBlockVal v sig chunk f = .ok val) : nilFree val = true := by
  unfold sigBlockVal at h
  split at h
  · cases h; simp
  · split at h
    · cases h; simp
    · cases h

theorem enc_blockStructs_auths (P : Prims) (v : Version) (pk hh : Bytes) (mks : List Bytes) :
    ∀ (plan : List (Bytes × Bool)) (k : Nat) (blks : List EncBlock),
      Encrypt.blockStructs P v pk hh mks plan k = .ok blks →
      ∀ b ∈ blks, b.auths.length = mks.length := by
  intro plan
  induction plan with
  | nil =>
    intro k blks h
    simp only [Encrypt.blockStructs, Except.ok.injEq] at h
    subst h
    simp
  | cons p plan ih =>
    intro k blks h
    obtain ⟨c, f⟩ := p
    simp only [Encrypt.blockStructs] at h
    split at h
    · rename_i b0 bs0 hb0 hbs0
      simp only [Except.ok.injEq] at h
      subst h
      intro b hb
      rcases List.mem_cons.1 hb with rfl | hb
      · unfold Encrypt.blockStruct at hb0
        split at hb0
        · cases hb0
        · simp only [] at hb0
          split at hb0
          · cases hb0
          · cases hb0
            simp
      · exact ih _ _ hbs0 b hb
    · cases h
    · cases h

/-- packets built from a non-empty MAC-key list have a non-empty authenticator list -/
theorem enc_blockStructs_auths_ne_nil (P : Prims) (v : Version) (pk hh : Bytes) (mks : List Bytes)
    (hm : mks ≠ []) (plan : List (Bytes × Bool)) (k : Nat) (blks : List EncBlock)
    (h : Encrypt.blockStructs P v pk hh mks plan k = .ok blks) :
    ∀ b ∈ blks, b.auths ≠ [] := by
  intro b hb h0
  have := enc_blockStructs_auths P v pk hh mks plan k blks h b hb
  rw [h0] at this
  exact hm (List.length_eq_zero_iff.1 this.symm)

theorem macKeysSender_length (P : Prims) (v : Version) (s e hh : Bytes) :
    ∀ (rs : List Encrypt.Recipient) (k : Nat) (mks : List Bytes),
      Encrypt.macKeysSender P v s e hh rs k = .ok mks → mks.length = rs.length := by
  intro rs
  induction rs with
  | nil =>
    intro k mks h
    simp only [Encrypt.macKeysSender, Except.ok.injEq] at h
    subst h; rfl
  | cons r rs ih =>
    intro k mks h
    simp only [Encrypt.macKeysSender] at h
    split at h
    · rename_i k0 ks hk0 hks
      simp only [Except.ok.injEq] at h
      subst h
      simp [ih _ _ hks]
    · cases h
    · cases h

/-- every payload packet of a sealed encryption message (any version the model
    seals) is nil-free: `checkReceivers` has made the recipient list, hence the
    authenticator list, non-empty -/
theorem enc_sealPackets_nilFree (P : Prims) (bs : Nat) (v : Version) (sender : Option Bytes)
    (rs : List Encrypt.Recipient) (eph pk pt : Bytes) (h : EncHeader) (hb : Bytes) (blks : List EncBlock)
    (hseal : Encrypt.sealPackets P bs v sender rs eph pk pt = .ok (h, hb, blks)) :
    ∀ b ∈ blks, b.auths ≠ [] ∧
      ∀ val, encBlockVal v b.auths b.ct b.final = .ok val → nilFree val = true := by
  obtain ⟨hcr, _, mks, hm, hbl⟩ := sealPackets_inv P bs v sender rs eph pk pt h hb blks hseal
  have hne := (checkReceivers_inv hcr).1
  have hl := macKeysSender_length P v _ _ _ rs 0 mks hm
  have hmne : mks ≠ [] := by
    intro h0
    rw [h0] at hl
    exact hne (List.length_eq_zero_iff.1 hl.symm)
  intro b hb'
  have ha := enc_blockStructs_auths_ne_nil P v pk _ mks hmne _ 0 blks hbl b hb'
  exact ⟨ha, fun val hval => encBlockVal_nilFree v b.auths b.ct b.final val hval ha⟩

end MsgpackMin
end Saltpack.Proofs
