/-
  The strict reference decoder `SpecDecode` (the run-time oracle of C08),
  layer W — strict MessagePack and the typed wire fields — verified both ways:

    soundness / canonicity   `XMsg.parse b = ok m  →  m.render = b`
    completeness             `m.WF  →  XMsg.parse m.render = ok m`

  bottom-up: `strictObjects` (minimal encodings by re-encoding), the typed
  readers `asBin`, `asBinLen`, `asBool`, `mapR`, the header split, each packet
  type, then whole messages of the four modes.
-/
import Saltpack.Model.SpecDecode
import Saltpack.Proofs.MsgpackRT

namespace Saltpack.Proofs.SDW
open Saltpack Saltpack.Msgpack Saltpack.SpecDecode Saltpack.Proofs
open Saltpack.Spec hiding encode

/-! ### MessagePack layer -/

/-- **soundness of the strict object reader**: what it accepts is, byte for
    byte, the canonical encoding of what it returns — no non-minimal length, no
    wide integer, no trailing byte -/
theorem strictObjects_sound {b : Bytes} {vs : List Val} (h : strictObjects b = .ok vs) :
    vs.flatMap encode = b := by
  unfold strictObjects at h
  generalize parseAll (b.length + 1) b = pr at h
  obtain ⟨vs', stop⟩ := pr
  cases stop with
  | some e => simp at h
  | none =>
    simp only at h
    split at h
    · rename_i heq
      injection h with h
      subst h
      exact eq_of_beq heq
    · cases h

/-- **completeness**: the canonical encoding of well-formed objects is accepted
    and gives back exactly these objects -/
theorem strictObjects_complete (vs : List Val) (hv : ∀ v ∈ vs, ValWF v) :
    strictObjects (vs.flatMap encode) = .ok vs := by
  unfold strictObjects
  rw [parseAll_encode vs hv _ (by omega)]
  simp

theorem strictOne_sound {b : Bytes} {v : Val} (h : strictOne b = .ok v) : encode v = b := by
  unfold strictOne at h
  split at h
  · cases h
  · rename_i v' heq
    injection h with h
    subst h
    have := strictObjects_sound heq
    simpa using this
  · cases h

theorem strictOne_complete (v : Val) (hv : ValWF v) : strictOne (encode v) = .ok v := by
  have := strictObjects_complete [v] (by simpa using hv)
  simp only [List.flatMap_cons, List.flatMap_nil, List.append_nil] at this
  unfold strictOne
  rw [this]

/-- canonicity: two byte strings that the strict reader decodes to the same
    objects are equal -/
theorem strictObjects_injective {b b' : Bytes} {vs : List Val}
    (h : strictObjects b = .ok vs) (h' : strictObjects b' = .ok vs) : b = b' := by
  rw [← strictObjects_sound h, ← strictObjects_sound h']

/-- any byte string that the LENIENT parser reads as `vs` but that is not the
    canonical encoding of `vs` is refused -/
theorem strictObjects_rejects_noncanonical (b : Bytes) (vs : List Val)
    (hne : b ≠ vs.flatMap encode) : strictObjects b ≠ .ok vs := by
  intro h
  exact hne (strictObjects_sound h).symm

/-! ### typed readers -/

theorem asBin_ok {w : String} {v : Val} {b : Bytes} : asBin w v = .ok b ↔ v = .bin b := by
  cases v <;> simp [asBin]

theorem asBinLen_ok {w : String} {n : Nat} {v : Val} {b : Bytes} :
    asBinLen w n v = .ok b ↔ v = .bin b ∧ b.length = n := by
  unfold asBinLen
  cases v <;> simp [asBin]
  rename_i b'
  constructor
  · intro h
    split at h
    · injection h with h; subst h; exact ⟨rfl, by assumption⟩
    · cases h
  · rintro ⟨rfl, h⟩
    simp [h]

theorem asBool_ok {w : String} {v : Val} {b : Bool} : asBool w v = .ok b ↔ v = .bool b := by
  cases v <;> simp [asBool]

theorem mapR_sound {α β : Type} (f : α → R β) (g : β → α) (hfg : ∀ a b, f a = .ok b → g b = a) :
    ∀ (l : List α) (l' : List β), mapR f l = .ok l' → l'.map g = l := by
  intro l
  induction l with
  | nil => intro l' h; simp [mapR] at h; subst h; rfl
  | cons a as ih =>
    intro l' h
    rw [mapR] at h
    split at h
    · cases h
    · rename_i b hb
      split at h
      · cases h
      · rename_i bs hbs
        injection h with h
        subst h
        simp [hfg a b hb, ih bs hbs]

theorem mapR_complete {α β : Type} (f : α → R β) (g : β → α) :
    ∀ (l' : List β), (∀ b ∈ l', f (g b) = .ok b) → mapR f (l'.map g) = .ok l' := by
  intro l'
  induction l' with
  | nil => intro _; rfl
  | cons b bs ih =>
    intro h
    rw [List.map_cons, mapR, h b (by simp), ih (fun x hx => h x (by simp [hx]))]

theorem mapR_length {α β : Type} (f : α → R β) :
    ∀ (l : List α) (l' : List β), mapR f l = .ok l' → l'.length = l.length := by
  intro l
  induction l with
  | nil => intro l' h; simp [mapR] at h; subst h; rfl
  | cons a as ih =>
    intro l' h
    rw [mapR] at h
    split at h
    · cases h
    · split at h
      · cases h
      · rename_i bs hbs
        injection h with h
        subst h
        simp [ih bs hbs]

theorem mapR_forall {α β : Type} (f : α → R β) (p : β → Prop) (hf : ∀ a b, f a = .ok b → p b) :
    ∀ (l : List α) (l' : List β), mapR f l = .ok l' → ∀ b ∈ l', p b := by
  intro l
  induction l with
  | nil => intro l' h; simp [mapR] at h; subst h; simp
  | cons a as ih =>
    intro l' h
    rw [mapR] at h
    split at h
    · cases h
    · rename_i b hb
      split at h
      · cases h
      · rename_i bs hbs
        injection h with h
        subst h
        intro x hx
        rcases List.mem_cons.1 hx with rfl | hx
        · exact hf a _ hb
        · exact ih bs hbs x hx

/-- byte strings of one fixed length, as `bin` objects -/
theorem mapR_bins_sound (w : String) (n : Nat) (l : List Val) (l' : List Bytes)
    (h : mapR (asBinLen w n) l = .ok l') : l'.map Val.bin = l ∧ ∀ b ∈ l', b.length = n :=
  ⟨mapR_sound _ Val.bin (fun _ _ h => ((asBinLen_ok.1 h).1).symm) l l' h,
   mapR_forall _ _ (fun _ _ h => (asBinLen_ok.1 h).2) l l' h⟩

theorem mapR_bins_complete (w : String) (n : Nat) (l' : List Bytes) (h : ∀ b ∈ l', b.length = n) :
    mapR (asBinLen w n) (l'.map Val.bin) = .ok l' :=
  mapR_complete _ Val.bin l' (fun b hb => asBinLen_ok.2 ⟨rfl, h b hb⟩)

/-! ### the header split -/

theorem encode_bin (b : Bytes) : encode (.bin b) = encBin b := by rw [encode]

theorem splitMsg_sound {msg : Bytes} {fields packets : List Val}
    (h : splitMsg msg = .ok (fields, packets)) : joinMsg fields packets = msg := by
  unfold splitMsg at h
  split at h
  · cases h
  · cases h
  · rename_i hd pk hobj
    split at h
    · cases h
    · rename_i hb hbin
      split at h
      · cases h
      · rename_i fs hone
        injection h with h
        injection h with h1 h2
        subst h1 h2
        have h1 := strictObjects_sound hobj
        have h2 := strictOne_sound hone
        rw [asBin_ok] at hbin
        subst hbin
        rw [← h1, List.flatMap_cons, encode_bin, ← h2]
        rfl
      · cases h

theorem splitMsg_complete (fields packets : List Val)
    (hf : ValWF (.arr fields)) (hlen : (encode (.arr fields)).length < 2 ^ 32)
    (hp : ∀ v ∈ packets, ValWF v) :
    splitMsg (joinMsg fields packets) = .ok (fields, packets) := by
  have h1 : joinMsg fields packets = (Val.bin (encode (.arr fields)) :: packets).flatMap encode := by
    rw [List.flatMap_cons, encode_bin]; rfl
  have h2 := strictObjects_complete (Val.bin (encode (.arr fields)) :: packets) (by
    intro v hv
    rcases List.mem_cons.1 hv with rfl | hv
    · exact ValWF.bin _ hlen
    · exact hp v hv)
  unfold splitMsg
  rw [h1, h2]
  simp only [asBin]
  rw [strictOne_complete _ hf]

/-! ### the common header fields -/

theorem ofCommon_sound {mode : Int} {fields rest : List Val} {major : Int}
    (h : ofCommon mode fields = .ok (major, rest)) :
    fields = commonVals major mode ++ rest ∧ (major = 1 ∨ major = 2) := by
  unfold ofCommon at h
  split at h
  · rename_i fn ma mi ty rest'
    split at h
    · cases h
    · split at h
      · cases h
      · split at h
        · cases h
        · split at h
          · cases h
          · injection h with h
            injection h with h1 h2
            subst h1 h2
            rename_i a b c d
            simp only [ne_eq, Decidable.not_not] at a b c d
            subst a c d
            exact ⟨rfl, b⟩
  · cases h

theorem ofCommon_complete (mode major : Int) (rest : List Val) (hm : major = 1 ∨ major = 2) :
    ofCommon mode (commonVals major mode ++ rest) = .ok (major, rest) := by
  simp [commonVals, ofCommon, hm]

end Saltpack.Proofs.SDW
