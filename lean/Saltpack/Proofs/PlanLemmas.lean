/-
  Helpers behind Proofs/AnyChunking: the block-chain parts of the three round
  trips (`run_roundtrip`, `sign_roundtrip`, `sc_run_ok`) redone for an arbitrary
  chunk plan, from the facts a `ValidPlan` provides (stated here on the bare
  hypotheses, so that this file does not depend on the statement file).
-/
import Saltpack.Proofs.RoundTripEnc
import Saltpack.Proofs.RoundTripSig

namespace Saltpack.Proofs.PlanL
open Saltpack Saltpack.Encrypt Saltpack.Proofs Saltpack.Proofs.RTSig

/-- never empty; exactly the last entry is final -/
def FinalLast (plan : List (Bytes × Bool)) : Prop :=
  ∃ pre c, plan = pre ++ [(c, true)] ∧ ∀ p ∈ pre, p.2 = false

/-- V2: an empty chunk only as the sole chunk -/
def EmptySole (plan : List (Bytes × Bool)) : Prop :=
  ∀ p ∈ plan, p.1 = [] → plan = [([], true)]

theorem ne_nil {plan : List (Bytes × Bool)} (h : FinalLast plan) : plan ≠ [] := by
  obtain ⟨pre, c, h, _⟩ := h
  rw [h]; simp

/-- index form of `FinalLast` (cf. `chunkPlan_final_idx`) -/
theorem final_idx {plan : List (Bytes × Bool)} (h : FinalLast plan) :
    ∀ k p, plan[k]? = some p → (p.2 = true ↔ k + 1 = plan.length) := by
  obtain ⟨pre, c, h, hpre⟩ := h
  rw [h]
  intro k p hk
  by_cases hlt : k < pre.length
  · rw [List.getElem?_append_left hlt] at hk
    have hm : p ∈ pre := List.mem_of_getElem? hk
    have := hpre p hm
    simp [this]
    omega
  · rw [List.getElem?_append_right (by omega)] at hk
    have hk0 : k - pre.length = 0 := by
      by_cases h0 : k - pre.length = 0
      · exact h0
      · rw [List.getElem?_eq_none (by simp; omega)] at hk
        cases hk
    rw [hk0] at hk
    simp at hk
    subst hk
    simp
    omega

/-- index form of `EmptySole`: an empty chunk has index 0 and is final -/
theorem empty_idx {plan : List (Bytes × Bool)} (h : EmptySole plan) :
    ∀ k p, plan[k]? = some p → p.1 = [] → k = 0 ∧ p.2 = true := by
  intro k p hk he
  have hpl := h p (List.mem_of_getElem? hk) he
  rw [hpl] at hk
  cases k with
  | zero => simp at hk; subst hk; exact ⟨rfl, rfl⟩
  | succ k => simp at hk

theorem lt_of_getElem? {α : Type} {l : List α} {k : Nat} {a : α} (h : l[k]? = some a) : k < l.length := by
  by_cases hlt : k < l.length
  · exact hlt
  · rw [List.getElem?_eq_none (by omega)] at h; cases h

/-- `checkChunkState` passes for every chunk of a valid plan; only the major
    version matters -/
theorem check_ok (w : Version) (c : Bytes) (k : Nat) (f : Bool)
    (hm : w.major = 1 ∨ w.major = 2)
    (h1 : w.major = 1 → (c = [] ↔ f = true))
    (h2 : w.major = 2 → c = [] → k = 0 ∧ f = true) :
    checkChunkState w c.length k f = .ok () := by
  rcases hm with hm | hm
  · have := h1 hm
    cases c with
    | nil => simp at this; simp [checkChunkState, hm, this]
    | cons a t => simp at this; simp [checkChunkState, hm, this]
  · have := h2 hm
    cases c with
    | nil => simp at this; simp [checkChunkState, hm, this]
    | cons a t => simp [checkChunkState, hm]

/-! ## encryption -/

theorem sealPacketsPlan_inv (P : Prims) (v : Version) (sender : Option Bytes) (rs : List Recipient)
    (eph pk : Bytes) (plan : List (Bytes × Bool)) (h : EncHeader) (hb : Bytes) (blks : List EncBlock)
    (hseal : sealPacketsPlan P v sender rs eph pk plan = .ok (h, hb, blks)) :
    checkReceivers rs = .ok () ∧ header P v sender eph pk rs = .ok h ∧
      ∃ mks, macKeysSender P v (sender.getD eph) eph (P.hash hb) rs 0 = .ok mks ∧
        blockStructs P v pk (P.hash hb) mks plan 0 = .ok blks := by
  unfold sealPacketsPlan at hseal
  split at hseal
  · cases hseal
  · split at hseal
    · cases hseal
    · rename_i hcr
      split at hseal
      · cases hseal
      · rename_i h' hh
        simp only [] at hseal
        split at hseal
        · cases hseal
        · rename_i mks hm
          split at hseal
          · cases hseal
          · rename_i blks' hbl
            cases hseal
            exact ⟨hcr, hh, mks, hm, hbl⟩

/-- the packets the sender built from any valid plan are a complete chain for a
    receiver whose state matches, and release the chunks (cf. `run_roundtrip`) -/
theorem run_roundtrip_plan (P : Prims) (hP : P.Lawful)
    {v : Version} (hv : v = v1 ∨ v = v2) (plan : List (Bytes × Bool))
    (hfin : FinalLast plan)
    (he1 : v = v1 → ∀ p ∈ plan, (p.1 = [] ↔ p.2 = true))
    (he2 : v = v2 → EmptySole plan)
    (st : Decrypt.State) (hver : st.version = v) (mks : List Bytes)
    (hmk : mks[st.position]? = some st.macKey) (blks : List EncBlock)
    (hbl : blockStructs P v st.payloadKey st.headerHash mks plan 0 = .ok blks) :
    Decrypt.run P st (blks.map some) .eof 1 = ⟨(plan.map (·.1)).flatten, none⟩ := by
  obtain ⟨hblen, hbp⟩ := blockStructs_spec P v st.payloadKey st.headerHash mks plan 0 blks hbl
  rw [Dec.run_eq, hver]
  apply grun_zip (Dec.step P st) (Decrypt.blockFinal v) blks plan 1 hblen (ne_nil hfin) ?_ (final_idx hfin)
  intro k b p hb' hp'
  have hk : k < plan.length := lt_of_getElem? hp'
  obtain ⟨b0, hb0, hbs⟩ := hbp k hk
  rw [hb'] at hb0
  cases hb0
  have hpk : plan[k] = p := by
    have := List.getElem?_eq_getElem hk
    rw [hp'] at this
    exact (Option.some.inj this).symm
  rw [Nat.zero_add, hpk] at hbs
  have hm : p ∈ plan := List.mem_of_getElem? hp'
  have hmaj : v.major = 1 ∨ v.major = 2 := by
    rcases hv with rfl | rfl
    · left; rfl
    · right; rfl
  have h1 : v.major = 1 → (p.1 = [] ↔ p.2 = true) := by
    intro hm1
    rcases hv with rfl | rfl
    · exact he1 rfl p hm
    · exact absurd hm1 (by decide)
  have h2 : v.major = 2 → p.1 = [] → k = 0 ∧ p.2 = true := by
    intro hm2 he
    rcases hv with rfl | rfl
    · exact absurd hm2 (by decide)
    · exact empty_idx (he2 rfl) k p hp' he
  have hck := check_ok v p.1 k p.2 hmaj h1 h2
  obtain ⟨hacc, hf⟩ := block_accept P hP st mks hver hmk k p.1 p.2 b hbs h1 hck
  refine ⟨?_, hf⟩
  rw [Dec.accept_eq] at hacc
  rw [Nat.add_comm 1 k]
  exact gacc_some hacc

/-! ## attached signatures -/

/-- `attachedSignatureInput` looks at the major version only -/
theorem attachedInput_major (P : Prims) (v w : Version) (h : v.major = w.major)
    (hh c : Bytes) (i : Nat) (f : Bool) :
    attachedSignatureInput P v hh c i f = attachedSignatureInput P w hh c i f := by
  simp only [attachedSignatureInput, h]

/-- the verifier accepts the signer's block at its position; only the major
    version of the verifier's state matters (cf. `ver_step_ok`) -/
theorem ver_step_ok_major (P : Prims) (hP : P.Lawful) (w : Version) (hm : w.major = 1 ∨ w.major = 2)
    (signer hh c : Bytes) (f : Bool) (k : Nat) (inp : Bytes)
    (hinp : attachedSignatureInput P w hh c k f = .ok inp)
    (h1 : w.major = 1 → (c = [] ↔ f = true))
    (h2 : w.major = 2 → c = [] → k = 0 ∧ f = true) :
    Ver.step P ⟨w, hh, P.sigPub signer⟩ ⟨P.sign signer inp, c, f⟩ (1 + k) = .ok c ∧
    Sign.blockFinal w ⟨P.sign signer inp, c, f⟩ = f := by
  have hfin : Sign.blockFinal w ⟨P.sign signer inp, c, f⟩ = f := by
    rcases hm with hm | hm
    · simp only [Sign.blockFinal, hm, if_true]
      have := h1 hm
      cases c with
      | nil => simp at this; simp [this]
      | cons a t => simp at this; simp [this]
    · simp [Sign.blockFinal, hm]
  refine ⟨?_, hfin⟩
  have hpb : Sign.processBlock P ⟨w, hh, P.sigPub signer⟩ ⟨P.sign signer inp, c, f⟩ f (1 + k) = .ok () := by
    unfold Sign.processBlock
    simp only [Nat.add_sub_cancel_left]
    rw [hinp]
    simp [hP.verify_sign]
  have hck := check_ok w c k f hm h1 h2
  unfold Ver.step
  simp only [hfin, hpb, Nat.add_sub_cancel_left, hck]

theorem attachedPacketsPlan_inv (P : Prims) (v : Version) (minor : Int) (signer nonce : Bytes)
    (plan : List (Bytes × Bool)) (h : SigHeader) (hb : Bytes) (blks : List SigBlock)
    (hs : Sign.attachedPacketsPlan P v minor signer nonce plan = .ok (h, hb, blks)) :
    h = Sign.header ⟨v.major, minor⟩ (P.sigPub signer) mtAttached nonce ∧ hb = Msgpack.encode h.toVal ∧
    Sign.blockStructs P v signer (P.hash hb) plan 0 = .ok blks := by
  unfold Sign.attachedPacketsPlan at hs
  split at hs
  · cases hs
  · simp only [] at hs
    split at hs
    · cases hs
    · rename_i blks' hb'
      simp only [Except.ok.injEq, Prod.mk.injEq] at hs
      obtain ⟨h1, h2, h3⟩ := hs
      subst h1 h2 h3
      exact ⟨rfl, rfl, hb'⟩

theorem sign_validate_ok_minor (v : Version) (hv : v = v1 ∨ v = v2) (minor : Int) (pk nonce : Bytes) :
    Sign.validate knownMajor (Sign.header ⟨v.major, minor⟩ pk mtAttached nonce) mtAttached = .ok () := by
  have hkm : knownMajor ⟨v.major, minor⟩ = true := by rcases hv with rfl | rfl <;> rfl
  simp [Sign.validate, Sign.header, hkm]

/-- the block chain of an attached signature over any valid plan, for a
    verifier whose state carries an arbitrary minor version -/
theorem sign_run_plan (P : Prims) (hP : P.Lawful) (v : Version) (hv : v = v1 ∨ v = v2) (minor : Int)
    (signer hh : Bytes) (plan : List (Bytes × Bool))
    (hfin : FinalLast plan)
    (he1 : v = v1 → ∀ p ∈ plan, (p.1 = [] ↔ p.2 = true))
    (he2 : v = v2 → EmptySole plan)
    (blks : List SigBlock)
    (hblk : Sign.blockStructs P v signer hh plan 0 = .ok blks) :
    Sign.run P ⟨⟨v.major, minor⟩, hh, P.sigPub signer⟩ (blks.map some) .eof 1 =
      ⟨(plan.map (·.1)).flatten, none⟩ := by
  obtain ⟨hlen, hspec⟩ := sign_blockStructs_spec P v signer hh _ 0 blks hblk
  rw [Ver.run_eq]
  apply grun_zip (Ver.step P ⟨⟨v.major, minor⟩, hh, P.sigPub signer⟩) (Sign.blockFinal ⟨v.major, minor⟩) blks
    plan 1 hlen (ne_nil hfin) ?_ (final_idx hfin)
  intro k b p hb' hp'
  obtain ⟨inp, hinp, rfl⟩ := hspec k b p hb' hp'
  rw [Nat.zero_add, attachedInput_major P v ⟨v.major, minor⟩ rfl] at hinp
  have hm : p ∈ plan := List.mem_of_getElem? hp'
  have hmaj : v.major = 1 ∨ v.major = 2 := by
    rcases hv with rfl | rfl
    · left; rfl
    · right; rfl
  apply ver_step_ok_major P hP ⟨v.major, minor⟩ hmaj signer hh p.1 p.2 k inp hinp
  · intro hm1
    rcases hv with rfl | rfl
    · exact he1 rfl p hm
    · exact absurd (show v2.major = 1 from hm1) (by decide)
  · intro hm2 he
    rcases hv with rfl | rfl
    · exact absurd (show v1.major = 2 from hm2) (by decide)
    · exact empty_idx (he2 rfl) k p hp' he

/-! ## signcryption -/

theorem sc_sealPacketsPlan_inv (P : Prims) (sender : Option Bytes) (rs : List Signcrypt.Recipient)
    (eph payloadKey : Bytes) (plan : List (Bytes × Bool)) (h : EncHeader) (hb : Bytes)
    (blks : List SigncryptBlock)
    (hseal : Signcrypt.sealPacketsPlan P sender rs eph payloadKey plan = .ok (h, hb, blks)) :
    h = Signcrypt.header P sender eph payloadKey rs ∧ hb = Msgpack.encode h.toVal ∧
    Signcrypt.blockStructs P sender payloadKey (P.hash hb) plan 0 = .ok blks := by
  unfold Signcrypt.sealPacketsPlan at hseal
  split at hseal
  · cases hseal
  · simp only [] at hseal
    split at hseal
    · cases hseal
    · rename_i blks' hb'
      simp only [Except.ok.injEq, Prod.mk.injEq] at hseal
      obtain ⟨h1, h2, h3⟩ := hseal
      subst h1 h2 h3
      exact ⟨rfl, rfl, hb'⟩

theorem sc_run_ok_plan (P : Prims) (hP : P.Lawful) (sender : Option Bytes)
    (pk hh : Bytes) (plan : List (Bytes × Bool))
    (hfin : FinalLast plan) (he2 : EmptySole plan)
    (hblocks : plan.length < 2 ^ 64 - 1) (blks : List SigncryptBlock)
    (hblk : Signcrypt.blockStructs P sender pk hh plan 0 = .ok blks) :
    Signcrypt.run P ⟨pk, hh, sender.map P.sigPub⟩ (blks.map some) .eof 1 =
      ⟨(plan.map (·.1)).flatten, none⟩ := by
  obtain ⟨hlen, hspec⟩ := sc_blockStructs_spec P sender pk hh _ 0 blks hblk
  rw [Sc.run_eq]
  apply grun_zip (Sc.step P ⟨pk, hh, sender.map P.sigPub⟩) (·.final) blks
    plan 1 hlen (ne_nil hfin) ?_ (final_idx hfin)
  intro k b p hb' hp'
  have hb := hspec k b p hb' hp'
  rw [Nat.zero_add] at hb
  subst hb
  have hklt : k < plan.length := lt_of_getElem? hp'
  refine ⟨sc_step_ok P hP sender pk hh p.1 p.2 k ?_ ?_, rfl⟩
  · simp only [blockNumberOK, decide_eq_true_eq]; omega
  · exact empty_idx he2 k p hp'

/-- header + blocks once the payload-key search succeeds (cf. `sc_open_found`) -/
theorem sc_open_found_plan (P : Prims) (hP : P.Lawful)
    (sender : Option Bytes) (rs : List Signcrypt.Recipient) (eph payloadKey : Bytes)
    (plan : List (Bytes × Bool)) (hfin : FinalLast plan) (he2 : EmptySole plan)
    (hsender : ∀ s, sender = some s → ¬ ((P.sigPub s).all (· == 0)))
    (hblocks : plan.length < 2 ^ 64 - 1)
    (h : EncHeader) (hb : Bytes) (blks : List SigncryptBlock)
    (hseal : Signcrypt.sealPacketsPlan P sender rs eph payloadKey plan = .ok (h, hb, blks))
    (sks : List Bytes) (res : Signcrypt.Resolver)
    (hfind : scFindKey P (faithfulKeyring P sks) res (Signcrypt.header P sender eph payloadKey rs) (P.boxPub eph)
      = .ok (some payloadKey)) :
    Signcrypt.openAll P (faithfulKeyring P sks) res (.ok hb h) ⟨blks.map some, .eof⟩ =
      .ok (sender.map P.sigPub, (plan.map (·.1)).flatten) := by
  obtain ⟨hh, _, hblk⟩ := sc_sealPacketsPlan_inv P sender rs eph payloadKey plan h hb blks hseal
  subst hh
  obtain ⟨log, hph⟩ := sc_processHeader_found P hP sks res (P.hash hb) sender eph payloadKey rs hsender hfind
  have hrun := sc_run_ok_plan P hP sender payloadKey (P.hash hb) plan hfin he2 hblocks blks hblk
  unfold Signcrypt.openAll Signcrypt.openStream
  simp only [hph, hrun]

end Saltpack.Proofs.PlanL
