/-
  Armored round trips, model level: `EncryptArmor62Seal` ∘ `Dearmor62DecryptOpen`,
  `SignArmor62` ∘ `Dearmor62Verify`, `SignDetachedArmor62` ∘
  `Dearmor62VerifyDetached`.

  The armored entry points are compositions: the sender armors the binary
  message (`Armor.seal62 typ brand (sealWith …)`); the receiver dearmors with
  frame validation for the expected type (`Armor.open62 (some typ)`), then runs
  the binary receiver on the payload.  These corollaries compose
  `C11_roundtrip` (Props/C11: `open62 ∘ seal62 = id` on payload and brand) with
  the byte-level round trips of RingRT / WireRT.
-/
import Saltpack.Props.C11
import Saltpack.Proofs.RingRT
import Saltpack.Proofs.WireRT

namespace Saltpack.Proofs
open Saltpack Saltpack.Armor

/-- **wrong frame type**: the sealed text of one armorable type is refused by
    the frame check of another -/
theorem open_seal_wrong_type (typ typ' : Int) (ht : Armorable typ) (ht' : Armorable typ') (hne : typ ≠ typ')
    (brand : Bytes) (hb : BrandOK brand) (payload : Bytes) :
    ∃ e, open62 (some typ') (seal62 typ brand payload) = .error e := by
  obtain ⟨body', heq, hv1, _, _, _⟩ := seal_is_variant typ ht brand hb payload
  obtain ⟨e, he⟩ := parse_wrong_type typ typ' ht ht' hne brand _ hb hv1
  refine ⟨e, ?_⟩
  rw [heq, open62_text]
  unfold open62 openPure
  have h1 : ¬ ((header typ brand).length ≥ frameLim) := by
    have := hv1.lim; unfold frameLim; omega
  simp only [splitAt1_append _ _ _ (valid_ne_period _ hv1.valid), toASCII_valid _ hv1.valid, if_neg h1, he]

/-- **`EncryptArmor62Seal` ∘ `Dearmor62DecryptOpen`** (any keyring holding a
    recipient's key): the armored text dearmors — with validated
    `BEGIN/END [brand] SALTPACK ENCRYPTED MESSAGE` frames — to exactly the binary
    message and the brand, and that payload splits and opens to the plaintext
    with the key information of `enc_roundtrip_bytes_ring`. -/
theorem enc_armored_roundtrip_ring (P : Prims) (hP : P.Lawful) (bs : Nat) (hbs : 0 < bs) (hbs32 : bs + 16 < 2 ^ 32)
    (v : Version) (hv : v = v1 ∨ v = v2)
    (sender : Option Bytes) (rs : List Encrypt.Recipient) (eph payloadKey pt : Bytes)
    (hpk : payloadKey.length = 32)
    (hnamed : ∀ s, sender = some s → P.boxPub s ≠ P.boxPub eph)
    (hpub : ∀ r ∈ rs, r.hidden = false → r.pub ≠ [])
    (sks : List Bytes) (i : Nat) (hi : i < rs.length) (sk : Bytes) (hmem : sk ∈ sks)
    (hsk : (rs.getD i default).pub = P.boxPub sk)
    (hns : RingNoSpuriousOpen P v eph payloadKey rs sks)
    (L : Nat) (hL : ∀ r ∈ rs, r.pub.length ≤ L) (hsmall : 145 + rs.length * (L + 63) < 2 ^ 32)
    (brand : Bytes) (hbr : BrandOK brand)
    (msg : Bytes) (hmsg : Encrypt.sealWith P bs v sender rs eph payloadKey pt = .ok msg) :
    ∃ r hr ps, open62 (some mtEncryption) (seal62 mtEncryption brand msg) = .ok r ∧
      r.payload = msg ∧ r.brand = brand ∧
      Wire.splitEnc r.payload = .ok (hr, ps) ∧
      ∃ i' sk', i' < rs.length ∧ sk' ∈ sks ∧ (rs.getD i' default).pub = P.boxPub sk' ∧
        Decrypt.openAll P knownMajor (faithfulKeyring P sks) hr ps = .ok (mkiOf P sender rs eph i' sk', pt) := by
  obtain ⟨hr, ps, hsplit, hopen⟩ := enc_roundtrip_bytes_ring P hP bs hbs hbs32 v hv sender rs eph payloadKey pt hpk
    hnamed hpub sks i hi sk hmem hsk hns L hL hsmall msg hmsg
  exact ⟨_, hr, ps, Props.C11.C11_roundtrip mtEncryption (Or.inl rfl) brand hbr msg, rfl, rfl, hsplit, hopen⟩

/-- …keyring = exactly the recipient's key: the key information of `C01_roundtrip_bytes` -/
theorem enc_armored_roundtrip (P : Prims) (hP : P.Lawful) (bs : Nat) (hbs : 0 < bs) (hbs32 : bs + 16 < 2 ^ 32)
    (v : Version) (hv : v = v1 ∨ v = v2)
    (sender : Option Bytes) (rs : List Encrypt.Recipient) (eph payloadKey pt : Bytes)
    (hpk : payloadKey.length = 32)
    (hnamed : ∀ s, sender = some s → P.boxPub s ≠ P.boxPub eph)
    (hpub : ∀ r ∈ rs, r.hidden = false → r.pub ≠ [])
    (hblocks : (Encrypt.chunkPlan v bs pt).length < 2 ^ 64 - 1)
    (i : Nat) (hi : i < rs.length) (sk : Bytes) (hsk : (rs.getD i default).pub = P.boxPub sk)
    (hns : NoSpuriousOpen P v eph payloadKey rs i sk)
    (L : Nat) (hL : ∀ r ∈ rs, r.pub.length ≤ L) (hsmall : 145 + rs.length * (L + 63) < 2 ^ 32)
    (brand : Bytes) (hbr : BrandOK brand)
    (msg : Bytes) (hmsg : Encrypt.sealWith P bs v sender rs eph payloadKey pt = .ok msg) :
    ∃ r hr ps, open62 (some mtEncryption) (seal62 mtEncryption brand msg) = .ok r ∧
      r.payload = msg ∧ r.brand = brand ∧
      Wire.splitEnc r.payload = .ok (hr, ps) ∧
      Decrypt.openAll P knownMajor (faithfulKeyring P [sk]) hr ps =
        .ok ({ senderKey := P.boxPub (sender.getD eph), senderIsAnon := sender.isNone,
               receiverKey := sk, receiverIsAnon := (rs.getD i default).hidden,
               namedReceivers := (rs.filter (fun r => !r.hidden)).map (·.pub),
               numAnonReceivers := if (rs.getD i default).hidden then (rs.filter (·.hidden)).length else 0 }, pt) := by
  obtain ⟨hr, ps, hsplit, hopen⟩ := enc_roundtrip_bytes P hP bs hbs hbs32 v hv sender rs eph payloadKey pt hpk
    hnamed hpub hblocks i hi sk hsk hns L hL hsmall msg hmsg
  exact ⟨_, hr, ps, Props.C11.C11_roundtrip mtEncryption (Or.inl rfl) brand hbr msg, rfl, rfl, hsplit, hopen⟩

/-- **`SignArmor62` ∘ `Dearmor62Verify`**: the armored attached signature
    dearmors (frames `… SALTPACK SIGNED MESSAGE` validated) to the binary message
    and the brand, and the payload verifies to the message and the signer's key. -/
theorem sign_armored_roundtrip (P : Prims) (hP : P.Lawful) (bs : Nat) (hbs : 0 < bs) (hbs32 : bs < 2 ^ 32)
    (v : Version) (hv : v = v1 ∨ v = v2) (signer nonce msg : Bytes) (hn : nonce.length + 92 < 2 ^ 32)
    (kr : Keyring) (hk : kr.lookupSigningPublicKey (P.sigPub signer) = some (P.sigPub signer))
    (brand : Bytes) (hbr : BrandOK brand)
    (out : Bytes) (hout : Sign.attachedWith P bs v signer nonce msg = .ok out) :
    ∃ r hr ps, open62 (some mtAttached) (seal62 mtAttached brand out) = .ok r ∧
      r.payload = out ∧ r.brand = brand ∧
      Wire.splitSig r.payload = .ok (hr, ps) ∧
      Sign.verifyAll P knownMajor kr hr ps = .ok (P.sigPub signer, msg) := by
  obtain ⟨hr, ps, hsplit, hver⟩ := sign_roundtrip_bytes P hP bs hbs hbs32 v hv signer nonce msg hn kr hk out hout
  exact ⟨_, hr, ps, Props.C11.C11_roundtrip mtAttached (Or.inr (Or.inl rfl)) brand hbr out, rfl, rfl, hsplit, hver⟩

/-- **`SignDetachedArmor62` ∘ `Dearmor62VerifyDetached`** -/
theorem detached_armored_roundtrip (P : Prims) (hP : P.Lawful)
    (v : Version) (signer nonce msg : Bytes) (hn : nonce.length + 92 < 2 ^ 32)
    (kr : Keyring) (hk : kr.lookupSigningPublicKey (P.sigPub signer) = some (P.sigPub signer))
    (brand : Bytes) (hbr : BrandOK brand)
    (out : Bytes) (hout : Sign.detachedWith P v signer nonce msg = .ok out) :
    ∃ r hr sr, open62 (some mtDetached) (seal62 mtDetached brand out) = .ok r ∧
      r.payload = out ∧ r.brand = brand ∧
      Wire.splitDetached r.payload = .ok (hr, sr) ∧
      Sign.verifyDetached P knownMajor kr hr sr msg = .ok (P.sigPub signer) := by
  obtain ⟨hr, sr, hsplit, hver⟩ := detached_roundtrip_bytes P hP v signer nonce msg hn kr hk out hout
  exact ⟨_, hr, sr, Props.C11.C11_roundtrip mtDetached (Or.inr (Or.inr rfl)) brand hbr out, rfl, rfl, hsplit, hver⟩

end Saltpack.Proofs
