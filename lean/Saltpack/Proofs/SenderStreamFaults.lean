/-
  The sender streams over a faulting writer: every failing underlying write is
  reported by the call it happens in, the encoder's error flag is sticky, and
  `Close` after a fault always reports an error.  Generic in the underlying
  writer, observed through a fault counter `flt : ω → Nat`.

  Behind Props/C14Sender.lean.
-/
import Saltpack.Proofs.SenderStreamRun

namespace Saltpack.Proofs.SenderP
open Saltpack Saltpack.Sender

/-- `flt` counts the failed writes below `wr`: a `Write` that succeeds leaves it
    unchanged, no `Write` lowers it.  (A failing `Write` need not raise it: a
    writer that remembers its first error — the armor encoder stream since fix
    5ad1caa — refuses later calls without any write below it.  For the scripted
    writer `Wr` a failing write raises `faults` by exactly one: `wr_write_faults`
    in SenderStreamArmor.lean.) -/
structure FltWriter {ω : Type} (wr : ω → Bytes → Bool × ω) (flt : ω → Nat) : Prop where
  ok : ∀ w p w', wr w p = (true, w') → flt w' = flt w
  fail : ∀ w p w', wr w p = (false, w') → flt w ≤ flt w'

theorem wr_flt : FltWriter Wr.write Wr.faults := by
  constructor
  · intro w p w' h
    unfold Wr.write at h
    cases hs : w.sink with
    | nil => simp only [hs] at h; obtain ⟨_, rfl⟩ := Prod.mk.inj h; rfl
    | cons f rest =>
      simp only [hs] at h
      cases f with
      | true => simp at h
      | false => simp only [Bool.false_eq_true, if_false] at h; obtain ⟨_, rfl⟩ := Prod.mk.inj h; rfl
  · intro w p w' h
    unfold Wr.write at h
    cases hs : w.sink with
    | nil => simp [hs] at h
    | cons f rest =>
      simp only [hs] at h
      cases f with
      | true => simp only [if_true] at h; obtain ⟨_, rfl⟩ := Prod.mk.inj h; exact Nat.le_succ _
      | false => simp at h

section faults
variable {ω : Type} (wr : ω → Bytes → Bool × ω) (flt : ω → Nat)

theorem writePieces_flt (hw : FltWriter wr flt) : ∀ (ps : List Bytes) (w : ω),
    ((writePieces wr ps w).1 = true → flt (writePieces wr ps w).2 = flt w) ∧
    flt w ≤ flt (writePieces wr ps w).2 := by
  intro ps
  induction ps with
  | nil => intro w; exact ⟨fun _ => rfl, Nat.le_refl _⟩
  | cons p ps ih =>
    intro w
    unfold writePieces
    cases h : wr w p with
    | mk ok w' =>
      cases ok with
      | true =>
        simp only
        have h0 := hw.ok w p w' h
        obtain ⟨i1, i2⟩ := ih w'
        exact ⟨fun hh => by rw [i1 hh, h0], by omega⟩
      | false => exact ⟨fun hh => (by cases hh), hw.fail w p w' h⟩

/-- `Encode`: success ⇒ no fault during it; the fault count never goes down -/
theorem encode_flt (hw : FltWriter wr flt) (pieces : Bytes → List Bytes) (c : Codec ω) (b : Bytes) :
    ((Codec.encode wr pieces c b).1 = true → flt (Codec.encode wr pieces c b).2.w = flt c.w) ∧
    flt c.w ≤ flt (Codec.encode wr pieces c b).2.w := by
  unfold Codec.encode
  by_cases hf : c.failed = true
  · simp [hf]
  · simp only [hf, Bool.false_eq_true, if_false]
    exact writePieces_flt wr flt hw (pieces b) c.w

/-- a block: success ⇒ no underlying write failed; a new fault ⇒ the encoder
    is failed from now on; the flag is never cleared -/
theorem emit_flt (hw : FltWriter wr flt) (cfg : Cfg) (f : Bool) (st : PSt ω) :
    ((emitBlock wr cfg f st).1 = none → flt (emitBlock wr cfg f st).2.codec.w = flt st.codec.w) ∧
    (flt (emitBlock wr cfg f st).2.codec.w ≠ flt st.codec.w → (emitBlock wr cfg f st).2.codec.failed = true) ∧
    (st.codec.failed = true → (emitBlock wr cfg f st).2.codec.failed = true) ∧
    flt st.codec.w ≤ flt (emitBlock wr cfg f st).2.codec.w := by
  generalize hres : emitBlock wr cfg f st = r
  unfold emitBlock at hres
  by_cases hr : readPanics cfg.v1shape f cfg.bs (st.buf.take cfg.bs).length (st.buf.drop cfg.bs).length = true
  · simp only [hr, if_true] at hres
    subst hres
    exact ⟨fun _ => rfl, fun h => absurd rfl h, fun h => h, Nat.le_refl _⟩
  · simp only [hr, Bool.false_eq_true, if_false] at hres
    cases hpk : cfg.pkt st.n (st.buf.take cfg.bs) f with
    | error e =>
      simp only [hpk] at hres
      subst hres
      exact ⟨fun _ => rfl, fun h => absurd rfl h, fun h => h, Nat.le_refl _⟩
    | ok b =>
      simp only [hpk] at hres
      by_cases ha : assertPanics cfg.v1shape cfg.assertExtra f (st.buf.take cfg.bs).length st.n = true
      · simp only [ha, if_true] at hres
        subst hres
        exact ⟨fun _ => rfl, fun h => absurd rfl h, fun h => h, Nat.le_refl _⟩
      · simp only [ha, Bool.false_eq_true, if_false] at hres
        have hfl := encode_flt wr flt hw cfg.pieces st.codec b
        cases he : Codec.encode wr cfg.pieces st.codec b with
        | mk ok c' =>
          rw [he] at hfl
          simp only [he] at hres
          cases ok with
          | true =>
            simp only at hres
            subst hres
            have hh := encode_true_healthy wr cfg.pieces st.codec b (by rw [he])
            rw [he] at hh
            have hfl := hfl.1 rfl
            refine ⟨fun _ => hfl, fun h => absurd hfl h, fun h => ?_, Nat.le_of_eq hfl.symm⟩
            rw [hh.1] at h; cases h
          | false =>
            simp only at hres
            subst hres
            have hf := encode_false_failed wr cfg.pieces st.codec b (by rw [he])
            rw [he] at hf
            exact ⟨(fun h => by cases h), fun _ => hf, fun _ => hf, hfl.2⟩

theorem writeLoop_flt (hw : FltWriter wr flt) (cfg : Cfg) (len : Nat) : ∀ (fuel : Nat) (st : PSt ω),
    ((writeLoop wr cfg len fuel st).2.1 = none → flt (writeLoop wr cfg len fuel st).2.2.codec.w = flt st.codec.w) ∧
    (flt (writeLoop wr cfg len fuel st).2.2.codec.w ≠ flt st.codec.w →
      (writeLoop wr cfg len fuel st).2.2.codec.failed = true) ∧
    (st.codec.failed = true → (writeLoop wr cfg len fuel st).2.2.codec.failed = true) ∧
    flt st.codec.w ≤ flt (writeLoop wr cfg len fuel st).2.2.codec.w := by
  intro fuel
  induction fuel with
  | zero => intro st; exact ⟨fun _ => rfl, fun h => absurd rfl h, fun h => h, Nat.le_refl _⟩
  | succ fuel ih =>
    intro st
    unfold writeLoop
    by_cases hgt : st.buf.length > cfg.bs
    · rw [if_pos hgt]
      obtain ⟨h1, h2, h3, h4⟩ := emit_flt wr flt hw cfg false st
      cases he : emitBlock wr cfg false st with
      | mk r st' =>
        rw [he] at h1 h2 h3 h4
        simp only at h1 h2 h3 h4
        cases r with
        | none =>
          simp only
          obtain ⟨i1, i2, i3, i4⟩ := ih st'
          have h10 := h1 rfl
          refine ⟨fun h => by rw [i1 h, h10], fun h => i2 (by rw [h10]; exact h), fun h => i3 (h3 h), by omega⟩
        | some e =>
          simp only
          by_cases hh : cfg.hasErr = true
          · simp only [hh, if_true]
            exact ⟨(fun h => by cases h), h2, h3, h4⟩
          · simp only [hh, Bool.false_eq_true, if_false]
            exact ⟨(fun h => by cases h), h2, h3, h4⟩
    · rw [if_neg hgt]
      exact ⟨fun _ => rfl, fun h => absurd rfl h, fun h => h, Nat.le_refl _⟩

/-- **`Write` reports**: a `Write` that returns no error has seen no failing
    underlying write; a failing underlying write leaves the encoder failed;
    the flag is never cleared -/
theorem write_flt (hw : FltWriter wr flt) (cfg : Cfg) (st : PSt ω) (p : Bytes) :
    ((st.write wr cfg p).2.1 = none → flt (st.write wr cfg p).2.2.codec.w = flt st.codec.w) ∧
    (flt (st.write wr cfg p).2.2.codec.w ≠ flt st.codec.w → (st.write wr cfg p).2.2.codec.failed = true) ∧
    (st.codec.failed = true → (st.write wr cfg p).2.2.codec.failed = true) ∧
    flt st.codec.w ≤ flt (st.write wr cfg p).2.2.codec.w := by
  unfold PSt.write
  cases he : (if cfg.hasErr then st.err else none) with
  | some e => exact ⟨fun _ => rfl, fun h => absurd rfl h, fun h => h, Nat.le_refl _⟩
  | none => exact writeLoop_flt wr flt hw cfg p.length _ { st with buf := st.buf ++ p }

/-- **`Close` reports** -/
theorem close_flt (hw : FltWriter wr flt) (cfg : Cfg) (st : PSt ω) :
    ((st.close wr cfg).1 = none → flt (st.close wr cfg).2.codec.w = flt st.codec.w) ∧
    (flt (st.close wr cfg).2.codec.w ≠ flt st.codec.w → (st.close wr cfg).2.codec.failed = true) ∧
    (st.codec.failed = true → (st.close wr cfg).2.codec.failed = true) ∧
    flt st.codec.w ≤ flt (st.close wr cfg).2.codec.w := by
  unfold PSt.close
  by_cases hv : cfg.v1shape = true
  · simp only [hv, if_true]
    by_cases hgt : st.buf.length > 0
    · simp only [hgt, if_true]
      obtain ⟨h1, h2, h3, h4⟩ := emit_flt wr flt hw cfg false st
      cases he : emitBlock wr cfg false st with
      | mk r st1 =>
        rw [he] at h1 h2 h3 h4
        simp only at h1 h2 h3 h4
        cases r with
        | some e => exact ⟨(fun h => by cases h), h2, h3, h4⟩
        | none =>
          simp only
          have h10 := h1 rfl
          by_cases hg2 : st1.buf.length > 0
          · rw [if_pos hg2]
            exact ⟨(fun h => by cases h), h2, h3, h4⟩
          · rw [if_neg hg2]
            obtain ⟨i1, i2, i3, i4⟩ := emit_flt wr flt hw cfg true st1
            exact ⟨fun h => by rw [i1 h, h10], fun h => i2 (by rw [h10]; exact h), fun h => i3 (h3 h), by omega⟩
    · simp only [hgt, if_false]
      exact emit_flt wr flt hw cfg true st
  · simp only [hv, Bool.false_eq_true, if_false]
    exact emit_flt wr flt hw cfg true st

/-- the invariant "a fault since the writer had `f0` faults ⇒ the encoder is failed" -/
def FaultSeen (f0 : Nat) (st : PSt ω) : Prop := flt st.codec.w ≠ f0 → st.codec.failed = true

theorem faultSeen_write (hw : FltWriter wr flt) (cfg : Cfg) (f0 : Nat) (st : PSt ω) (p : Bytes)
    (h : FaultSeen flt f0 st) : FaultSeen flt f0 (st.write wr cfg p).2.2 := by
  obtain ⟨_, h2, h3, _⟩ := write_flt wr flt hw cfg st p
  intro hne
  by_cases hc : flt (st.write wr cfg p).2.2.codec.w = flt st.codec.w
  · exact h3 (h (by rw [← hc]; exact hne))
  · exact h2 hc

theorem faultSeen_writes (hw : FltWriter wr flt) (cfg : Cfg) (f0 : Nat) (ps : List Bytes) : ∀ (st : PSt ω),
    FaultSeen flt f0 st → FaultSeen flt f0 (PSt.writes wr cfg st ps).2 := by
  induction ps with
  | nil => intro st h; exact h
  | cons p ps ih => intro st h; exact ih _ (faultSeen_write wr flt hw cfg f0 st p h)

theorem faultSeen_init (hw : FltWriter wr flt) (pieces : Bytes → List Bytes) (w0 : ω) (hbytes : Bytes) :
    FaultSeen flt (flt w0) (PSt.init wr pieces w0 hbytes).2 ∧
    ((PSt.init wr pieces w0 hbytes).1 = true → flt (PSt.init wr pieces w0 hbytes).2.codec.w = flt w0) := by
  have hfl := encode_flt wr flt hw pieces ({ w := w0 } : Codec ω) (headerPacket hbytes)
  unfold PSt.init
  cases he : Codec.encode wr pieces ({ w := w0 } : Codec ω) (headerPacket hbytes) with
  | mk ok c =>
    rw [he] at hfl
    cases ok with
    | true =>
      have hfl := hfl.1 rfl
      exact ⟨fun h => absurd hfl h, fun _ => hfl⟩
    | false =>
      have hf := encode_false_failed wr pieces ({ w := w0 } : Codec ω) (headerPacket hbytes) (by rw [he])
      rw [he] at hf
      exact ⟨fun _ => hf, fun h => by cases h⟩

end faults

/-! ## bounded buffering -/

section bounded
variable {ω : Type} (wr : ω → Bytes → Bool × ω)

theorem emit_buf (cfg : Cfg) (f : Bool) (st : PSt ω) : (emitBlock wr cfg f st).2.buf = st.buf.drop cfg.bs := by
  generalize hres : emitBlock wr cfg f st = r
  unfold emitBlock at hres
  by_cases hr : readPanics cfg.v1shape f cfg.bs (st.buf.take cfg.bs).length (st.buf.drop cfg.bs).length = true
  · simp only [hr, if_true] at hres; subst hres; rfl
  · simp only [hr, Bool.false_eq_true, if_false] at hres
    cases hpk : cfg.pkt st.n (st.buf.take cfg.bs) f with
    | error e => simp only [hpk] at hres; subst hres; rfl
    | ok b =>
      simp only [hpk] at hres
      by_cases ha : assertPanics cfg.v1shape cfg.assertExtra f (st.buf.take cfg.bs).length st.n = true
      · simp only [ha, if_true] at hres; subst hres; rfl
      · simp only [ha, Bool.false_eq_true, if_false] at hres
        cases he : Codec.encode wr cfg.pieces st.codec b with
        | mk ok c' =>
          simp only [he] at hres
          cases ok <;> (simp only at hres; subst hres; rfl)

theorem writeLoop_buf (cfg : Cfg) (hb : 0 < cfg.bs) (len : Nat) : ∀ (fuel : Nat) (st : PSt ω),
    (writeLoop wr cfg len fuel st).2.2.buf.length ≤ st.buf.length ∧
    (st.buf.length < fuel → (writeLoop wr cfg len fuel st).2.1 = none →
      (writeLoop wr cfg len fuel st).2.2.buf.length ≤ cfg.bs) := by
  intro fuel
  induction fuel with
  | zero => intro st; exact ⟨Nat.le_refl _, fun h => by omega⟩
  | succ fuel ih =>
    intro st
    unfold writeLoop
    by_cases hgt : st.buf.length > cfg.bs
    · rw [if_pos hgt]
      have hbuf := emit_buf wr cfg false st
      have hlen : (st.buf.drop cfg.bs).length = st.buf.length - cfg.bs := List.length_drop
      cases he : emitBlock wr cfg false st with
      | mk r st' =>
        rw [he] at hbuf
        simp only at hbuf
        cases r with
        | none =>
          simp only
          obtain ⟨i1, i2⟩ := ih st'
          rw [hbuf, hlen] at i1 i2
          exact ⟨by omega, fun hf hn => i2 (by omega) hn⟩
        | some e =>
          simp only
          refine ⟨?_, fun _ h => by cases h⟩
          by_cases hh : cfg.hasErr = true
          · simp only [hh, if_true]; rw [hbuf, hlen]; omega
          · simp only [hh, Bool.false_eq_true, if_false]; rw [hbuf, hlen]; omega
    · rw [if_neg hgt]
      exact ⟨Nat.le_refl _, fun _ _ => Nat.le_of_not_gt hgt⟩

/-- **Bounded buffering, in every state**: a `Write` never leaves more in the
    buffer than was there plus what it was given; one that reports success
    leaves at most one block, whatever happened before -/
theorem write_buf (cfg : Cfg) (hb : 0 < cfg.bs) (st : PSt ω) (p : Bytes) :
    (st.write wr cfg p).2.2.buf.length ≤ st.buf.length + p.length ∧
    ((st.write wr cfg p).2.1 = none → (st.write wr cfg p).2.2.buf.length ≤ cfg.bs) := by
  unfold PSt.write
  cases he : (if cfg.hasErr then st.err else none) with
  | some e => exact ⟨by simp only; omega, fun h => by cases h⟩
  | none =>
    simp only
    obtain ⟨h1, h2⟩ := writeLoop_buf wr cfg hb p.length ((st.buf ++ p).length + 1) { st with buf := st.buf ++ p }
    exact ⟨by simpa using h1, fun h => h2 (by simp) h⟩

end bounded

end Saltpack.Proofs.SenderP
