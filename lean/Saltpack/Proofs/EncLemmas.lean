/-
  Sender-side facts behind the encryption round trip (Proofs/RoundTripEnc):
  what `receiverEntries`, `macKeysSender`, `blockStructs` produce, pointwise;
  agreement of sender / receiver MAC keys; a block the sender made is accepted
  by the receiver; the generic pointwise → `Chain` conversion.
-/
import Saltpack.Model.Encrypt
import Saltpack.Model.Decrypt
import Saltpack.Proofs.ChunkPlan
import Saltpack.Proofs.Receiver

namespace Saltpack.Proofs
open Saltpack Saltpack.Encrypt

/-! ### versions and nonces -/

theorem knownVersion_of {v : Version} (hv : v = v1 ∨ v = v2) : knownVersion v = true := by
  rcases hv with rfl | rfl <;> decide

theorem knownMajor_of {v : Version} (hv : v = v1 ∨ v = v2) : knownMajor v = true := by
  rcases hv with rfl | rfl <;> decide

theorem major_of {v : Version} (hv : v = v1 ∨ v = v2) :
    (v.major = 1 ∧ v = v1) ∨ (v.major = 2 ∧ v.major ≠ 1 ∧ v = v2 ∧ v ≠ v1) := by
  rcases hv with rfl | rfl
  · left; exact ⟨rfl, rfl⟩
  · right; exact ⟨rfl, by decide, rfl, by decide⟩

theorem payloadKeyBox_ok {v : Version} (hv : v = v1 ∨ v = v2) (j : Nat) :
    ∃ n, Nonce.payloadKeyBox v j = .ok n := by
  cases h : Nonce.payloadKeyBox v j with
  | ok n => exact ⟨n, rfl⟩
  | error e =>
    rcases major_of hv with ⟨h1, _⟩ | ⟨h2, h1, _, _⟩
    · simp [Nonce.payloadKeyBox, h1] at h
    · simp [Nonce.payloadKeyBox, h2] at h

theorem payloadHash_ok (P : Prims) {v : Version} (hv : v = v1 ∨ v = v2) (hh n ct : Bytes) (f : Bool) :
    ∃ ph, payloadHash P v hh n ct f = .ok ph := by
  cases h : payloadHash P v hh n ct f with
  | ok n => exact ⟨n, rfl⟩
  | error e =>
    rcases major_of hv with ⟨h1, _⟩ | ⟨h2, h1, _, _⟩
    · simp [payloadHash, h1] at h
    · simp [payloadHash, h2] at h

/-- for major 1 the payload hash ignores the final flag -/
theorem payloadHash_v1_flag (P : Prims) {v : Version} (h1 : v.major = 1) (hh n ct : Bytes) (f f' : Bool) :
    payloadHash P v hh n ct f = payloadHash P v hh n ct f' := by
  simp [payloadHash, h1]

/-! ### the receiver list of the header -/

/-- the key id the sender writes for a recipient -/
def kidSpec (r : Recipient) : Option Bytes := if r.hidden then none else some r.pub

theorem receiverEntries_spec (P : Prims) {v : Version} (hv : v = v1 ∨ v = v2) (eph pk : Bytes) :
    ∀ (rs : List Recipient) (k : Nat),
      ∃ es, receiverEntries P v eph pk rs k = .ok es ∧ es.length = rs.length ∧
        ∀ j (hj : j < rs.length), ∃ n, Nonce.payloadKeyBox v (k + j) = .ok n ∧
          es[j]? = some ⟨kidSpec rs[j], P.box eph rs[j].pub n pk⟩ := by
  intro rs
  induction rs with
  | nil => intro k; exact ⟨[], rfl, rfl, by intro j hj; simp at hj⟩
  | cons r rs ih =>
    intro k
    obtain ⟨es, he, hl, hp⟩ := ih (k + 1)
    obtain ⟨n, hn⟩ := payloadKeyBox_ok hv k
    refine ⟨⟨kidSpec r, P.box eph r.pub n pk⟩ :: es, ?_, by simp [hl], ?_⟩
    · simp [receiverEntries, hn, he, kidSpec]
    · intro j hj
      cases j with
      | zero => exact ⟨n, by simpa using hn, by simp⟩
      | succ j =>
        obtain ⟨n', hn', hj'⟩ := hp j (by simpa using hj)
        refine ⟨n', ?_, by simpa using hj'⟩
        rw [show k + (j + 1) = k + 1 + j by omega]
        exact hn'

/-! ### MAC keys -/

theorem macKeySender_ok (P : Prims) {v : Version} (hv : v = v1 ∨ v = v2) (idx : Nat)
    (secret eSecret pub hh : Bytes) : ∃ m, macKeySender P v idx secret eSecret pub hh = .ok m := by
  cases h : macKeySender P v idx secret eSecret pub hh with
  | ok n => exact ⟨n, rfl⟩
  | error e =>
    rcases hv with rfl | rfl
    · simp [macKeySender] at h
    · simp [macKeySender, v2_ne_v1] at h

theorem macKeysSender_spec (P : Prims) {v : Version} (hv : v = v1 ∨ v = v2) (secret eSecret hh : Bytes) :
    ∀ (rs : List Recipient) (k : Nat),
      ∃ mks, macKeysSender P v secret eSecret hh rs k = .ok mks ∧ mks.length = rs.length ∧
        ∀ j (hj : j < rs.length), ∃ m, macKeySender P v (k + j) secret eSecret rs[j].pub hh = .ok m ∧
          mks[j]? = some m := by
  intro rs
  induction rs with
  | nil => intro k; exact ⟨[], rfl, rfl, by intro j hj; simp at hj⟩
  | cons r rs ih =>
    intro k
    obtain ⟨mks, he, hl, hp⟩ := ih (k + 1)
    obtain ⟨m, hm⟩ := macKeySender_ok P hv k secret eSecret r.pub hh
    refine ⟨m :: mks, ?_, by simp [hl], ?_⟩
    · simp [macKeysSender, hm, he]
    · intro j hj
      cases j with
      | zero => exact ⟨m, by simpa using hm, by simp⟩
      | succ j =>
        obtain ⟨m', hm', hj'⟩ := hp j (by simpa using hj)
        refine ⟨m', ?_, by simpa using hj'⟩
        rw [show k + (j + 1) = k + 1 + j by omega]
        exact hm'

/-- the MAC key the sender derives for a recipient is the one that recipient
    derives (`dh_comm`) -/
theorem macKey_agree (P : Prims) (hP : P.Lawful) {v : Version} (hv : v = v1 ∨ v = v2) (idx : Nat)
    (secret eSecret sk hh m : Bytes)
    (hm : macKeySender P v idx secret eSecret (P.boxPub sk) hh = .ok m) :
    ∃ log, Decrypt.macKeyReceiver P v idx sk (P.boxPub secret) (P.boxPub eSecret) hh = (log, .ok m) := by
  have h2 : (Decrypt.macKeyReceiver P v idx sk (P.boxPub secret) (P.boxPub eSecret) hh).2 = .ok m := by
    rcases hv with rfl | rfl
    · simp only [macKeySender, if_true] at hm
      cases hm
      simp only [Decrypt.macKeyReceiver, show v1.major = 1 from rfl, if_true]
      simp only [macKeySingle, Prims.box, hP.dh_comm secret sk]
    · simp only [macKeySender, if_neg v2_ne_v1, if_true] at hm
      cases hm
      simp only [Decrypt.macKeyReceiver, show v2.major = 2 from rfl, if_true]
      simp only [macKeySingle, Prims.box, hP.dh_comm secret sk, hP.dh_comm eSecret sk]
      rw [if_neg (by decide)]
  cases hr : Decrypt.macKeyReceiver P v idx sk (P.boxPub secret) (P.boxPub eSecret) hh with
  | mk log r =>
    rw [hr] at h2
    exact ⟨log, by rw [← h2]⟩

/-! ### payload packets -/

theorem blockStructs_spec (P : Prims) (v : Version) (pk hh : Bytes) (mks : List Bytes) :
    ∀ (plan : List (Bytes × Bool)) (k : Nat) (blks : List EncBlock),
      blockStructs P v pk hh mks plan k = .ok blks →
      blks.length = plan.length ∧
        ∀ j (hj : j < plan.length), ∃ b, blks[j]? = some b ∧
          blockStruct P v pk hh mks (k + j) plan[j].1 plan[j].2 = .ok b := by
  intro plan
  induction plan with
  | nil =>
    intro k blks h
    simp only [blockStructs] at h
    cases h
    exact ⟨rfl, by intro j hj; simp at hj⟩
  | cons p plan ih =>
    intro k blks h
    obtain ⟨c, f⟩ := p
    simp only [blockStructs] at h
    split at h
    · rename_i b bs hb hbs
      cases h
      obtain ⟨hl, hp⟩ := ih (k + 1) bs hbs
      refine ⟨by simp [hl], ?_⟩
      intro j hj
      cases j with
      | zero => exact ⟨b, by simp, by simpa using hb⟩
      | succ j =>
        obtain ⟨b', hb', hj'⟩ := hp j (by simpa using hj)
        refine ⟨b', by simpa using hb', ?_⟩
        rw [show k + (j + 1) = k + 1 + j by omega]
        simpa using hj'
    · cases h
    · cases h

theorem blockStructs_ok (P : Prims) {v : Version} (hv : v = v1 ∨ v = v2) (pk hh : Bytes) (mks : List Bytes) :
    ∀ (plan : List (Bytes × Bool)) (k : Nat), k + plan.length ≤ 2 ^ 64 - 1 →
      ∃ blks, blockStructs P v pk hh mks plan k = .ok blks ∧ blks.length = plan.length := by
  intro plan
  induction plan with
  | nil => intro k _; exact ⟨[], rfl, rfl⟩
  | cons p plan ih =>
    intro k hk
    obtain ⟨c, f⟩ := p
    obtain ⟨blks, hb, hl⟩ := ih (k + 1) (by simp at hk; omega)
    obtain ⟨ph, hph⟩ := payloadHash_ok P hv hh (Nonce.chunkSecretBox k) (P.sbSeal pk (Nonce.chunkSecretBox k) c) f
    have hk' : blockNumberOK k = true := by
      simp only [blockNumberOK, decide_eq_true_eq]
      simp at hk; omega
    refine ⟨⟨mks.map (fun k => payloadAuthenticator P k ph), P.sbSeal pk (Nonce.chunkSecretBox k) c, f⟩ :: blks,
      ?_, by simp [hl]⟩
    simp [blockStructs, blockStruct, hk', hph, hb]

/-- a packet the sender built for chunk `idx` is accepted by a receiver whose
    state matches, as packet number `idx + 1`, and yields the chunk -/
theorem block_accept (P : Prims) (hP : P.Lawful) {v : Version}
    (st : Decrypt.State) (mks : List Bytes) (hver : st.version = v)
    (hmk : mks[st.position]? = some st.macKey)
    (idx : Nat) (c : Bytes) (f : Bool) (b : EncBlock)
    (hb : blockStruct P v st.payloadKey st.headerHash mks idx c f = .ok b)
    (h1 : v.major = 1 → (c = [] ↔ f = true))
    (hck : checkChunkState v c.length idx f = .ok ()) :
    Dec.accept P st b (idx + 1) = some c ∧ Decrypt.blockFinal v b = f := by
  unfold blockStruct at hb
  split at hb
  · cases hb
  · rename_i hbn
    simp only [] at hb
    split at hb
    · cases hb
    · rename_i ph hph
      cases hb
      have hfin : Decrypt.blockFinal v
          ⟨mks.map (fun k => payloadAuthenticator P k ph), P.sbSeal st.payloadKey (Nonce.chunkSecretBox idx) c, f⟩ = f := by
        unfold Decrypt.blockFinal
        by_cases hm : v.major = 1
        · simp only [hm, if_true, hP.sb_len]
          have := h1 hm
          cases f
          · have hc : c ≠ [] := fun h => Bool.noConfusion (this.1 h)
            have : 0 < c.length := List.length_pos_iff.mpr hc
            simp; omega
          · have hc : c = [] := this.2 rfl
            simp [hc]
        · simp only [hm, if_false]
      refine ⟨?_, hfin⟩
      unfold Dec.accept
      rw [hver, hfin]
      have hph' : payloadHash P st.version st.headerHash (Nonce.chunkSecretBox idx)
          (P.sbSeal st.payloadKey (Nonce.chunkSecretBox idx) c) f = .ok ph := by rw [hver]; exact hph
      have hauth : (mks.map (fun k => payloadAuthenticator P k ph))[st.position]? =
          some (payloadAuthenticator P st.macKey ph) := by
        rw [List.getElem?_map, hmk]; rfl
      have hbn' : (!blockNumberOK idx) = false := by simpa using hbn
      simp only [Decrypt.processBlock, Nat.add_sub_cancel, hbn', hph', hauth, hP.sb_open_seal, hck,
        bne_self_eq_false, Bool.false_eq_true, if_false]

/-! ### pointwise → chain -/

theorem chain_of_pointwise {β : Type} (acc : β → Nat → Option Bytes) (fin : β → Bool) :
    ∀ (bs : List β) (cs : List Bytes) (n : Nat), cs.length = bs.length → bs ≠ [] →
      (∀ j (hj : j < bs.length) (hj' : j < cs.length), acc bs[j] (n + j) = some cs[j]) →
      (∀ j (hj : j + 1 < bs.length), fin bs[j] = false) →
      Chain acc fin n bs cs.flatten := by
  intro bs
  induction bs with
  | nil => intro cs n _ hne; exact absurd rfl hne
  | cons b bs ih =>
    intro cs n hlen _ hacc hfin
    cases cs with
    | nil => simp at hlen
    | cons c cs =>
      have h0 := hacc 0 (by simp) (by simp)
      simp only [List.getElem_cons_zero, Nat.add_zero] at h0
      by_cases hbs : bs = []
      · subst hbs
        have : cs = [] := List.length_eq_zero_iff.mp (by simpa using hlen)
        subst this
        simp only [List.flatten_cons, List.flatten_nil, List.append_nil]
        exact Chain.last n b c h0
      · have hpos : 0 < bs.length := List.length_pos_iff.mpr hbs
        rw [List.flatten_cons]
        refine Chain.cons n b c bs _ h0 ?_ hbs ?_
        · have := hfin 0 (by simp; omega)
          simpa using this
        · apply ih cs (n + 1) (by simpa using hlen) hbs
          · intro j hj hj'
            have := hacc (j + 1) (by simp; omega) (by simp; omega)
            simp only [List.getElem_cons_succ] at this
            rw [show n + 1 + j = n + (j + 1) by omega]
            exact this
          · intro j hj
            have := hfin (j + 1) (by simp; omega)
            simpa using this

/-! ### the receiver's view of the receiver list -/

theorem mem_visibleIndices {es : List RecvKeys} {j : Nat} :
    j ∈ Decrypt.visibleIndices es ↔ ∃ e k, es[j]? = some e ∧ e.kid = some k ∧ k ≠ [] := by
  unfold Decrypt.visibleIndices
  simp only [List.mem_map, List.mem_filter]
  constructor
  · rintro ⟨⟨e, j'⟩, ⟨hm, hp⟩, rfl⟩
    rw [List.mem_zipIdx_iff_getElem?] at hm
    simp only at hp
    split at hp
    · rename_i k hk
      exact ⟨e, k, hm, hk, by simpa using hp⟩
    · cases hp
  · rintro ⟨e, k, he, hk, hne⟩
    refine ⟨(e, j), ⟨List.mem_zipIdx_iff_getElem?.2 he, ?_⟩, rfl⟩
    simp [hk, hne]

theorem zipIdx_filter_map_fst {α γ : Type} (p : α → Bool) (f : α → γ) :
    ∀ (l : List α) (k : Nat),
      ((l.zipIdx k).filter (fun q => p q.1)).map (fun q => f q.1) = (l.filter p).map f := by
  intro l
  induction l with
  | nil => intro k; rfl
  | cons a l ih =>
    intro k
    simp only [List.zipIdx_cons, List.filter_cons]
    split
    · simp [ih (k + 1)]
    · exact ih (k + 1)

/-- "carries a non-empty key id" on the key-id field -/
def visK (o : Option Bytes) : Bool := match o with | some k => !k.isEmpty | none => false

/-- `isHidden` on the key-id field -/
def hidK (o : Option Bytes) : Bool := (o.getD []).isEmpty

theorem named_eq (es : List RecvKeys) :
    (Decrypt.visibleIndices es).map (fun i => Decrypt.kidOf (es.getD i default)) =
      ((es.map (·.kid)).filter visK).map (·.getD []) := by
  have h1 : (Decrypt.visibleIndices es).map (fun i => Decrypt.kidOf (es.getD i default)) =
      ((es.zipIdx 0).filter (fun q => visK q.1.kid)).map (fun q => Decrypt.kidOf q.1) := by
    unfold Decrypt.visibleIndices
    rw [List.map_map]
    apply List.map_congr_left
    intro q hq
    have hq' := (List.mem_filter.1 hq).1
    obtain ⟨e, j⟩ := q
    rw [List.mem_zipIdx_iff_getElem?] at hq'
    simp [List.getD_eq_getElem?_getD, hq']
  rw [h1, zipIdx_filter_map_fst (fun e : RecvKeys => visK e.kid) Decrypt.kidOf es 0, List.filter_map,
    List.map_map]
  rfl

theorem hiddenCount_eq (es : List RecvKeys) :
    (es.filter Decrypt.isHidden).length = ((es.map (·.kid)).filter hidK).length := by
  rw [List.filter_map, List.length_map]
  rfl

theorem named_of_spec (rs : List Recipient) (hpub : ∀ r ∈ rs, r.hidden = false → r.pub ≠ []) :
    ((rs.map kidSpec).filter visK).map (·.getD []) = (rs.filter (fun r => !r.hidden)).map (·.pub) := by
  induction rs with
  | nil => rfl
  | cons r rs ih =>
    have ih' := ih (fun r' hr' => hpub r' (List.mem_cons_of_mem _ hr'))
    cases hh : r.hidden with
    | true =>
      have hvis : ¬ (visK (kidSpec r) = true) := by simp [visK, kidSpec, hh]
      rw [List.map_cons, List.filter_cons_of_neg hvis, List.filter_cons_of_neg (by simp [hh]), ih']
    | false =>
      have hne := hpub r List.mem_cons_self hh
      have hvis : visK (kidSpec r) = true := by simp [visK, kidSpec, hh, hne]
      have hget : (kidSpec r).getD [] = r.pub := by simp [kidSpec, hh]
      rw [List.map_cons, List.filter_cons_of_pos hvis, List.map_cons, hget,
        List.filter_cons_of_pos (by simp [hh]), List.map_cons, ih']

theorem hiddenCount_of_spec (rs : List Recipient) (hpub : ∀ r ∈ rs, r.hidden = false → r.pub ≠ []) :
    ((rs.map kidSpec).filter hidK).length = (rs.filter (·.hidden)).length := by
  induction rs with
  | nil => rfl
  | cons r rs ih =>
    have ih' := ih (fun r' hr' => hpub r' (List.mem_cons_of_mem _ hr'))
    cases hh : r.hidden with
    | true =>
      have hhid : hidK (kidSpec r) = true := by simp [hidK, kidSpec, hh]
      rw [List.map_cons, List.filter_cons_of_pos hhid, List.filter_cons_of_pos (by simp [hh]),
        List.length_cons, List.length_cons, ih']
    | false =>
      have hne := hpub r List.mem_cons_self hh
      have hhid : ¬ (hidK (kidSpec r) = true) := by simp [hidK, kidSpec, hh, hne]
      rw [List.map_cons, List.filter_cons_of_neg hhid, List.filter_cons_of_neg (by simp [hh]), ih']

/-! ### `tryHiddenOne` / `tryHidden` -/

theorem tryHiddenOne_hit (P : Prims) (v : Version) (sk eph pk : Bytes) (hpk : pk.length = 32) :
    ∀ (l : List (RecvKeys × Nat)) (i : Nat) (hi : i < l.length),
      (∀ j (hj : j < i), Decrypt.isHidden (l[j]'(by omega)).1 = true →
        ∃ n, Nonce.payloadKeyBox v (l[j]'(by omega)).2 = .ok n ∧
          P.unbox sk eph n (l[j]'(by omega)).1.box = none) →
      Decrypt.isHidden l[i].1 = true →
      (∃ n, Nonce.payloadKeyBox v l[i].2 = .ok n ∧ P.unbox sk eph n l[i].1.box = some pk) →
      ∃ log, Decrypt.tryHiddenOne P v sk eph l = (log, .ok (some (pk, l[i].2))) := by
  intro l
  induction l with
  | nil => intro i hi; simp at hi
  | cons q rest ih =>
    intro i hi hbefore hhid hopen
    obtain ⟨r, idx⟩ := q
    cases i with
    | zero =>
      obtain ⟨n, hn, ho⟩ := hopen
      simp only [List.getElem_cons_zero] at hhid hn ho ⊢
      refine ⟨[KeyCall.sharedUnbox sk eph n r.box], ?_⟩
      simp only [Decrypt.tryHiddenOne, hhid, if_true, hn, ho]
      simp [hpk]
    | succ i =>
      have hi' : i < rest.length := by simpa using hi
      obtain ⟨log, hlog⟩ := ih i hi'
        (by
          intro j hj hh
          have := hbefore (j + 1) (by omega) (by simpa using hh)
          simpa using this)
        (by simpa using hhid) (by simpa using hopen)
      simp only [List.getElem_cons_succ]
      cases hh : Decrypt.isHidden r with
      | true =>
        obtain ⟨n, hn, ho⟩ := hbefore 0 (by omega) (by simpa using hh)
        simp only [List.getElem_cons_zero] at hn ho
        refine ⟨KeyCall.sharedUnbox sk eph n r.box :: log, ?_⟩
        simp only [Decrypt.tryHiddenOne, hh, if_true, hn, ho, hlog]
      | false =>
        refine ⟨log, ?_⟩
        simp only [Decrypt.tryHiddenOne, hh, hlog]
        simp

theorem tryHiddenOne_miss (P : Prims) (v : Version) (sk eph : Bytes) :
    ∀ (l : List (RecvKeys × Nat)),
      (∀ q ∈ l, Decrypt.isHidden q.1 = true →
        ∃ n, Nonce.payloadKeyBox v q.2 = .ok n ∧ P.unbox sk eph n q.1.box = none) →
      ∃ log, Decrypt.tryHiddenOne P v sk eph l = (log, .ok none) := by
  intro l
  induction l with
  | nil => intro _; exact ⟨[], rfl⟩
  | cons q rest ih =>
    intro h
    obtain ⟨r, idx⟩ := q
    obtain ⟨log, hlog⟩ := ih (fun q hq => h q (List.mem_cons_of_mem _ hq))
    cases hh : Decrypt.isHidden r with
    | true =>
      obtain ⟨n, hn, ho⟩ := h (r, idx) List.mem_cons_self hh
      simp only at hn ho
      refine ⟨KeyCall.sharedUnbox sk eph n r.box :: log, ?_⟩
      simp only [Decrypt.tryHiddenOne, hh, if_true, hn, ho, hlog]
    | false =>
      refine ⟨log, ?_⟩
      simp only [Decrypt.tryHiddenOne, hh, hlog]
      simp

theorem tryHidden_miss (P : Prims) (h : EncHeader) (eph : Bytes) :
    ∀ (sks : List Bytes),
      (∀ s ∈ sks, ∀ q ∈ h.receivers.zipIdx, Decrypt.isHidden q.1 = true →
        ∃ n, Nonce.payloadKeyBox h.version q.2 = .ok n ∧ P.unbox s eph n q.1.box = none) →
      ∃ log, Decrypt.tryHidden P h eph sks = (log, .ok none) := by
  intro sks
  induction sks with
  | nil => intro _; exact ⟨[], rfl⟩
  | cons s sks ih =>
    intro hh
    obtain ⟨log1, h1⟩ := tryHiddenOne_miss P h.version s eph h.receivers.zipIdx (hh s List.mem_cons_self)
    obtain ⟨log2, h2⟩ := ih (fun s' hs' => hh s' (List.mem_cons_of_mem _ hs'))
    refine ⟨(KeyCall.precompute s eph :: log1) ++ log2, ?_⟩
    simp only [Decrypt.tryHidden, h1, h2]

/-! ### the chunk plan, pointwise -/

theorem getElem_of_eq_singleton {α : Type} (l : List α) (a : α) (h : l = [a]) (j : Nat) (hj : j < l.length) :
    j = 0 ∧ l[j] = a := by
  subst h
  have : j = 0 := by simpa using hj
  subst this
  exact ⟨rfl, rfl⟩

theorem plan_pointwise {v : Version} (hv : v = v1 ∨ v = v2) (bs : Nat) (hbs : 0 < bs) (pt : Bytes) :
    chunkPlan v bs pt ≠ [] ∧
    ∀ j (hj : j < (chunkPlan v bs pt).length),
      (v.major = 1 → ((chunkPlan v bs pt)[j].1 = [] ↔ (chunkPlan v bs pt)[j].2 = true)) ∧
      checkChunkState v (chunkPlan v bs pt)[j].1.length j (chunkPlan v bs pt)[j].2 = .ok () ∧
      ((chunkPlan v bs pt)[j].2 = true ↔ j + 1 = (chunkPlan v bs pt).length) := by
  obtain ⟨pre, c, hp, hpre⟩ := chunkPlan_final v bs pt
  refine ⟨by rw [hp]; simp, ?_⟩
  intro j hj
  have hflag : ((chunkPlan v bs pt)[j].2 = true ↔ j + 1 = (chunkPlan v bs pt).length) := by
    have hlen : (chunkPlan v bs pt).length = pre.length + 1 := by rw [hp]; simp
    have hget : (chunkPlan v bs pt)[j]? = (pre ++ [(c, true)])[j]? := by rw [hp]
    rw [List.getElem?_eq_getElem hj] at hget
    by_cases hjp : j < pre.length
    · rw [List.getElem?_append_left hjp, List.getElem?_eq_getElem hjp] at hget
      have e := Option.some.inj hget
      have := hpre pre[j] (List.getElem_mem hjp)
      rw [e, this]
      constructor
      · intro h; cases h
      · intro h; omega
    · have hje : j = pre.length := by omega
      rw [List.getElem?_append_right (by omega), show j - pre.length = 0 by omega] at hget
      simp at hget
      rw [hget]
      simp; omega
  have hmem := List.getElem_mem hj
  rcases hv with rfl | rfl
  · have h1 := chunkPlan_empty_v1 bs hbs pt _ hmem
    refine ⟨fun _ => h1, ?_, hflag⟩
    simp only [checkChunkState, show v1.major = 1 from rfl, if_true]
    generalize (chunkPlan v1 bs pt)[j] = p at h1
    obtain ⟨c', f'⟩ := p
    simp only at h1 ⊢
    cases f'
    · have : c' ≠ [] := fun h => Bool.noConfusion (h1.1 h)
      have : c'.length ≠ 0 := fun h => this (List.length_eq_zero_iff.mp h)
      simp [this]
    · have : c' = [] := h1.2 rfl
      simp [this]
  · refine ⟨fun h => absurd h (by decide), ?_, hflag⟩
    have h2 := chunkPlan_empty_v2 bs hbs pt
    simp only [checkChunkState, show v2.major = 2 from rfl, show ¬ ((2 : Int) = 1) by decide, if_true, if_false]
    by_cases hc : (chunkPlan v2 bs pt)[j].1 = []
    · have hpt := h2.1 _ hmem hc
      obtain ⟨hj0, hq⟩ := getElem_of_eq_singleton _ _ (h2.2 hpt) j hj
      rw [hq, hj0]
      rfl
    · have : (chunkPlan v2 bs pt)[j].1.length ≠ 0 := fun h => hc (List.length_eq_zero_iff.mp h)
      simp [this]

end Saltpack.Proofs
