/-
  Stream state machines (behind Props/C13, C14): results do not depend on how
  output is split over Write calls / how chunks are drained by Read calls;
  bounded buffering; sticky errors.
-/
import Saltpack.Model.Stream
import Saltpack.Proofs.ChunkPlan
import Saltpack.Proofs.Basex

namespace Saltpack.Proofs
open Saltpack Saltpack.Stream

/-! ## plaintext bufferer of the three encoder streams -/

/-- bounded buffering: after every `Write` at most one block is buffered,
    whatever the total length -/
theorem chunker_bounded (c : Chunker) (hb : 0 < c.bs) (p : Bytes) : (c.write p).buf.length ≤ c.bs := by
  sorry

/-- `Write` never loses or reorders bytes: emitted blocks ++ buffer = everything written -/
theorem chunker_conserves (c : Chunker) (hb : 0 < c.bs) (p : Bytes) :
    (c.write p).emitted.flatten ++ (c.write p).buf = c.emitted.flatten ++ c.buf ++ p ∧
    (c.write p).bs = c.bs := by
  sorry

/-- **Write-split independence**: whatever way the plaintext is split over
    `Write` calls (empty writes included), `Close` yields exactly the chunk plan
    of the all-at-once form. -/
theorem chunker_any_split (bs : Nat) (hb : 0 < bs) (v : Version) (ws : List Bytes) :
    (ws.foldl Chunker.write ({ bs := bs } : Chunker)).close v = Encrypt.chunkPlan v bs ws.flatten := by
  sorry

/-! ## chunkReader -/

/-- a scripted chunker: each entry is one `getNextChunk` result -/
def scriptNext : Source → Bytes × Option RErr × Source
  | [] => ([], some .eof, [])
  | (d, e) :: rest => (d, e, rest)

/-- what is still to be delivered: the pending chunk, then the chunks of the
    script up to and including the first entry that carries a condition -/
def crPending : CRState Source → Bytes
  | s => s.prevChunk ++ (match s.prevErr with
      | some _ => []
      | none =>
        let rec go : Source → Bytes
          | [] => []
          | (d, some _) :: _ => d
          | (d, none) :: rest => d ++ go rest
        go s.chunker)

/-- every `Read` hands out a prefix of what is pending — never more than the
    caller's buffer — and leaves the rest pending: bytes are delivered exactly
    once, in order, whatever the buffer sizes.  (Entries are well-formed: no
    empty chunk without a condition — the Go code panics on those.) -/
theorem crRead_prefix (cap : Nat) (s : CRState Source)
    (hwf : ∀ p ∈ s.chunker, p.1 = [] → p.2 ≠ none) (d : Bytes) (e : Option RErr) (s' : CRState Source)
    (h : crRead scriptNext cap (s.chunker.length + 3) s [] = (d, e, s')) :
    d.length ≤ cap ∧ crPending s = d ++ crPending s' ∧ (∀ p ∈ s'.chunker, p.1 = [] → p.2 ≠ none) := by
  sorry

/-- a condition (EOF or error) is reported only when nothing is pending any
    more, and from then on it is reported again (sticky) -/
theorem crRead_terminal (cap : Nat) (s : CRState Source)
    (hwf : ∀ p ∈ s.chunker, p.1 = [] → p.2 ≠ none) (d : Bytes) (x : RErr) (s' : CRState Source)
    (h : crRead scriptNext cap (s.chunker.length + 3) s [] = (d, some x, s')) :
    crPending s' = [] ∧
    crRead scriptNext cap (s'.chunker.length + 3) s' [] = ([], some x, s') := by
  sorry

/-! ## BaseX encoder stream -/

/-- with a writer that never fails: every `Write` accepts all its bytes, and
    after `Close` the concatenation of what reached the writer is the one-shot
    encoding of the concatenation of what was written — whatever the split -/
theorem encStream_any_split (enc : Basex.Enc) (he : enc.WF) (ws : List Bytes) :
    let s1 := ws.foldl (fun (s : EncState) w => (s.write w).2.2) ({ enc := enc } : EncState)
    let r := s1.close
    r.1 = true ∧ r.2.written.flatten = Basex.encode enc ws.flatten := by
  sorry

/-- bounded buffering: fewer than one block is held back between calls -/
theorem encStream_bounded (s : EncState) (hb : 0 < s.enc.blockLen) (hs : s.buf.length < s.enc.blockLen) (p : Bytes) :
    (s.write p).2.2.buf.length < s.enc.blockLen := by
  sorry

/-- **faults are sticky and reported**: once an underlying write has failed,
    every later `Write` reports failure and `Close` does too -/
theorem encStream_sticky (s : EncState) (hf : s.failed = true) (p : Bytes) :
    (s.write p).2.1 = false ∧ (s.write p).2.2.failed = true ∧ s.close.1 = false := by
  sorry

/-- a `Write`/`Close` that reports success has not seen a failing underlying write -/
theorem encStream_write_reports (s : EncState) (p : Bytes) :
    (s.write p).2.2.failed = true → (s.write p).2.1 = false ∨ s.failed = true := by
  sorry

theorem encStream_close_reports (s : EncState) : s.close.2.failed = true → s.close.1 = false := by
  sorry

/-! ## the scripted source: fragmentation -/

/-- the bytes a script delivers before its first condition -/
def srcData : Source → Bytes
  | [] => []
  | (d, some _) :: _ => d
  | (d, none) :: rest => d ++ srcData rest

/-- one `Read` takes a prefix of the data (at most the buffer size) and leaves
    the rest: no byte is lost, duplicated or reordered by the source model -/
theorem srcRead_prefix (cap : Nat) (src : Source) :
    let r := srcRead cap src
    r.1.length ≤ cap ∧ srcData src = r.1 ++ (match r.2.1 with | some _ => [] | none => srcData r.2.2) := by
  sorry

end Saltpack.Proofs
