/-
  Stream state machines (behind Props/C13, C14): results do not depend on how
  output is split over Write calls / how chunks are drained by Read calls;
  bounded buffering; sticky errors.
-/
import Saltpack.Model.Stream
import Saltpack.Proofs.ChunkPlan
import Saltpack.Proofs.Basex

namespace Saltpack.Proofs
open Saltpack Saltpack.Stream

/-! ## plaintext bufferer of the three encoder streams -/

theorem drain_spec (bs : Nat) (hb : 0 < bs) : ∀ (fuel : Nat) (c : Chunker), c.bs = bs → c.buf.length ≤ fuel →
    (Chunker.drain fuel c).buf.length ≤ bs ∧ (Chunker.drain fuel c).bs = bs ∧
    (Chunker.drain fuel c).emitted.flatten ++ (Chunker.drain fuel c).buf = c.emitted.flatten ++ c.buf ∧
    ((∀ e ∈ c.emitted, e.length = bs) → ∀ e ∈ (Chunker.drain fuel c).emitted, e.length = bs) ∧
    (c.buf ≠ [] → (Chunker.drain fuel c).buf ≠ []) ∧
    (c.buf = [] → Chunker.drain fuel c = c) := by
  intro fuel
  induction fuel with
  | zero =>
    intro c hbs hf
    have : c.buf = [] := List.length_eq_zero_iff.mp (by omega)
    simp [Chunker.drain, this, hbs]
  | succ fuel ih =>
    intro c hbs hf
    unfold Chunker.drain
    by_cases hgt : c.buf.length > c.bs
    · rw [if_pos hgt]
      have hlen : (c.buf.drop c.bs).length = c.buf.length - c.bs := List.length_drop
      obtain ⟨h1, h2, h3, h4, h5, h6⟩ := ih { c with buf := c.buf.drop c.bs, emitted := c.emitted ++ [c.buf.take c.bs] } hbs (by simp only [hlen]; omega)
      refine ⟨h1, h2, ?_, ?_, ?_, ?_⟩
      · rw [h3]; simp
      · intro hall
        apply h4
        intro e he
        rcases List.mem_append.mp he with he | he
        · exact hall e he
        · simp only [List.mem_singleton] at he
          subst he
          rw [List.length_take]; omega
      · intro _
        apply h5
        intro h0
        simp only at h0
        rw [h0] at hlen
        simp at hlen; omega
      · intro h0; rw [h0] at hgt; simp at hgt
    · rw [if_neg hgt]
      refine ⟨by omega, hbs, rfl, fun h => h, fun h => h, fun _ => rfl⟩

/-- bounded buffering: after every `Write` at most one block is buffered,
    whatever the total length -/
theorem chunker_bounded (c : Chunker) (hb : 0 < c.bs) (p : Bytes) : (c.write p).buf.length ≤ c.bs := by
  unfold Chunker.write
  exact (drain_spec c.bs hb _ { c with buf := c.buf ++ p } rfl (by simp)).1

/-- `Write` never loses or reorders bytes: emitted blocks ++ buffer = everything written -/
theorem chunker_conserves (c : Chunker) (hb : 0 < c.bs) (p : Bytes) :
    (c.write p).emitted.flatten ++ (c.write p).buf = c.emitted.flatten ++ c.buf ++ p ∧
    (c.write p).bs = c.bs := by
  unfold Chunker.write
  have := drain_spec c.bs hb (c.buf.length + p.length + 1) { c with buf := c.buf ++ p } rfl (by simp)
  exact ⟨by rw [this.2.2.1]; simp, this.2.1⟩


theorem chunks_blocks {α : Type} (bs : Nat) (hb : 0 < bs) (E : List (List α)) (R : List α)
    (h : ∀ e ∈ E, e.length = bs) : chunks bs (E.flatten ++ R) = E ++ chunks bs R := by
  induction E with
  | nil => simp
  | cons e E ih =>
    rw [List.flatten_cons, List.append_assoc, chunks_append bs hb e _ (h e (by simp)),
      ih (fun x hx => h x (by simp [hx]))]
    rfl

/-- invariant of the bufferer -/
structure ChInv (bs : Nat) (T : Bytes) (c : Chunker) : Prop where
  hbs : c.bs = bs
  cons : c.emitted.flatten ++ c.buf = T
  full : ∀ e ∈ c.emitted, e.length = bs
  bound : c.buf.length ≤ bs
  ne : c.buf = [] → c.emitted = []

theorem chInv_write (bs : Nat) (hb : 0 < bs) (T : Bytes) (c : Chunker) (h : ChInv bs T c) (p : Bytes) :
    ChInv bs (T ++ p) (c.write p) := by
  have hd := drain_spec bs hb (c.buf.length + p.length + 1) { c with buf := c.buf ++ p } h.hbs (by simp)
  obtain ⟨h1, h2, h3, h4, h5, h6⟩ := hd
  refine ⟨h2, ?_, h4 h.full, h1, ?_⟩
  · show (Chunker.drain _ _).emitted.flatten ++ (Chunker.drain _ _).buf = _
    rw [h3, ← h.cons]; simp
  · intro h0
    by_cases hbp : c.buf ++ p = []
    · have := h6 hbp
      unfold Chunker.write
      rw [this]
      apply h.ne
      simp at hbp
      exact hbp.1
    · exact absurd h0 (h5 hbp)

theorem chInv_fold (bs : Nat) (hb : 0 < bs) (ws : List Bytes) : ∀ (T : Bytes) (c : Chunker), ChInv bs T c →
    ChInv bs (T ++ ws.flatten) (ws.foldl Chunker.write c) := by
  induction ws with
  | nil => intro T c h; simpa using h
  | cons w ws ih =>
    intro T c h
    rw [List.foldl_cons, List.flatten_cons, ← List.append_assoc]
    exact ih _ _ (chInv_write bs hb T c h w)

theorem chInv_chunks (bs : Nat) (hb : 0 < bs) (T : Bytes) (c : Chunker) (h : ChInv bs T c) :
    chunks bs T = c.emitted ++ (if c.buf = [] then [] else [c.buf]) := by
  rw [← h.cons, chunks_blocks bs hb _ _ h.full]
  by_cases h0 : c.buf = []
  · rw [h0, chunks_nil]; simp
  · rw [chunks_short bs _ h0 h.bound, if_neg h0]

/-- **Write-split independence**: whatever way the plaintext is split over
    `Write` calls (empty writes included), `Close` yields exactly the chunk plan
    of the all-at-once form. -/
theorem chunker_any_split (bs : Nat) (hb : 0 < bs) (v : Version) (ws : List Bytes) :
    (ws.foldl Chunker.write ({ bs := bs } : Chunker)).close v = Encrypt.chunkPlan v bs ws.flatten := by
  have hinv := chInv_fold bs hb ws [] { bs := bs } ⟨rfl, rfl, by simp, by simp, fun _ => rfl⟩
  rw [List.nil_append] at hinv
  generalize ws.foldl Chunker.write ({ bs := bs } : Chunker) = c at hinv
  generalize ws.flatten = T at hinv
  have hc := chInv_chunks bs hb T c hinv
  unfold Chunker.close Encrypt.chunkPlan
  simp only [hc]
  by_cases hv : v = v1
  · simp only [if_pos hv]
    by_cases h0 : c.buf = []
    · simp [h0]
    · simp [h0]
  · simp only [if_neg hv]
    by_cases h0 : c.buf = []
    · simp [h0, hinv.ne h0]
    · simp [h0]

/-! ## chunkReader -/

/-- a scripted chunker: each entry is one `getNextChunk` result -/
def scriptNext : Source → Bytes × Option RErr × Source
  | [] => ([], some .eof, [])
  | (d, e) :: rest => (d, e, rest)

/-- what is still to be delivered: the pending chunk, then the chunks of the
    script up to and including the first entry that carries a condition -/
def crPending : CRState Source → Bytes
  | s => s.prevChunk ++ (match s.prevErr with
      | some _ => []
      | none =>
        let rec go : Source → Bytes
          | [] => []
          | (d, some _) :: _ => d
          | (d, none) :: rest => d ++ go rest
        go s.chunker)

def SrcWF (src : Source) : Prop := ∀ p ∈ src, p.1 = [] → p.2 ≠ none

theorem crPending_eq (s : CRState Source) :
    crPending s = s.prevChunk ++ (match s.prevErr with | some _ => [] | none => crPending.go s.chunker) := rfl

/-- one fetch from the script: what is pending does not change -/
theorem scriptNext_spec (src : Source) (hwf : SrcWF src) :
    ¬ ((scriptNext src).1.isEmpty = true ∧ (scriptNext src).2.1.isNone = true) ∧
    SrcWF (scriptNext src).2.2 ∧
    crPending.go src = (scriptNext src).1 ++
      (match (scriptNext src).2.1 with | some _ => [] | none => crPending.go (scriptNext src).2.2) := by
  cases src with
  | nil => simp [scriptNext, crPending.go, SrcWF]
  | cons hd rest =>
    obtain ⟨d, e⟩ := hd
    refine ⟨?_, fun p hp => hwf p (List.mem_cons_of_mem _ hp), ?_⟩
    · simp only [scriptNext]
      intro ⟨h1, h2⟩
      have := hwf (d, e) (by simp) (by simpa using h1)
      cases e with
      | none => exact this rfl
      | some x => simp at h2
    · cases e <;> simp [scriptNext, crPending.go]


theorem crRead_aux (cap : Nat) : ∀ (fuel : Nat) (s : CRState Source) (acc d : Bytes) (e : Option RErr)
    (s' : CRState Source), SrcWF s.chunker → acc.length ≤ cap →
    crRead scriptNext cap fuel s acc = (d, e, s') →
    d.length ≤ cap ∧ acc ++ crPending s = d ++ crPending s' ∧ SrcWF s'.chunker ∧
    (∀ x, e = some x → s'.prevChunk = [] ∧ s'.prevErr = some x) := by
  intro fuel
  induction fuel with
  | zero =>
    intro s acc d e s' hwf hacc h
    simp only [crRead, Prod.mk.injEq] at h
    obtain ⟨rfl, rfl, rfl⟩ := h
    exact ⟨hacc, rfl, hwf, fun x hx => by simp at hx⟩
  | succ fuel ih =>
    intro s acc d e s' hwf hacc h
    unfold crRead at h
    simp only at h
    have hlen : (acc ++ s.prevChunk.take (cap - acc.length)).length ≤ cap := by
      rw [List.length_append, List.length_take]; omega
    by_cases hleft : (s.prevChunk.drop (cap - acc.length)).isEmpty = true
    · rw [if_neg (by simp [hleft])] at h
      have hleft' : s.prevChunk.drop (cap - acc.length) = [] := by simpa using hleft
      have htake : s.prevChunk.take (cap - acc.length) = s.prevChunk := by
        have := List.take_append_drop (cap - acc.length) s.prevChunk
        rw [hleft', List.append_nil] at this
        exact this
      rw [htake] at h hlen
      cases hpe : s.prevErr with
      | some x =>
        simp only [hpe, Prod.mk.injEq] at h
        obtain ⟨rfl, rfl, rfl⟩ := h
        refine ⟨hlen, ?_, hwf, ?_⟩
        · simp [crPending_eq, hpe]
        · intro y hy
          simp only [Option.some.injEq] at hy
          subst hy
          exact ⟨rfl, rfl⟩
      | none =>
        simp only [hpe] at h
        obtain ⟨n1, n2, n3⟩ := scriptNext_spec s.chunker hwf
        rw [if_neg (by simpa using n1)] at h
        obtain ⟨i1, i2, i3, i4⟩ := ih _ _ _ _ _ n2 hlen h
        refine ⟨i1, ?_, i3, i4⟩
        rw [← i2]
        simp only [crPending_eq, hpe, n3]
        simp
    · rw [if_pos (by simp [hleft])] at h
      simp only [Prod.mk.injEq] at h
      obtain ⟨rfl, rfl, rfl⟩ := h
      refine ⟨hlen, ?_, hwf, fun x hx => by simp at hx⟩
      simp only [crPending_eq]
      rw [List.append_assoc, ← List.append_assoc (List.take _ _), List.take_append_drop]


/-- every `Read` hands out a prefix of what is pending — never more than the
    caller's buffer — and leaves the rest pending: bytes are delivered exactly
    once, in order, whatever the buffer sizes.  (Entries are well-formed: no
    empty chunk without a condition — the Go code panics on those.)  Holds for
    any fuel; the stated fuel is the one the driver uses. -/
theorem crRead_prefix (cap : Nat) (s : CRState Source)
    (hwf : ∀ p ∈ s.chunker, p.1 = [] → p.2 ≠ none) (d : Bytes) (e : Option RErr) (s' : CRState Source)
    (h : crRead scriptNext cap (s.chunker.length + 3) s [] = (d, e, s')) :
    d.length ≤ cap ∧ crPending s = d ++ crPending s' ∧ (∀ p ∈ s'.chunker, p.1 = [] → p.2 ≠ none) := by
  obtain ⟨h1, h2, h3, _⟩ := crRead_aux cap _ s [] d e s' hwf (by simp) h
  exact ⟨h1, by simpa using h2, h3⟩

/-- a condition (EOF or error) is reported only when nothing is pending any
    more, and from then on it is reported again (sticky) -/
theorem crRead_terminal (cap : Nat) (s : CRState Source)
    (hwf : ∀ p ∈ s.chunker, p.1 = [] → p.2 ≠ none) (d : Bytes) (x : RErr) (s' : CRState Source)
    (h : crRead scriptNext cap (s.chunker.length + 3) s [] = (d, some x, s')) :
    crPending s' = [] ∧
    crRead scriptNext cap (s'.chunker.length + 3) s' [] = ([], some x, s') := by
  obtain ⟨_, _, _, h4⟩ := crRead_aux cap _ s [] d (some x) s' hwf (by simp) h
  obtain ⟨hc, he⟩ := h4 x rfl
  constructor
  · simp [crPending_eq, hc, he]
  · obtain ⟨ck, pc, pe⟩ := s'
    simp only at hc he
    subst hc he
    simp [crRead]

/-! ## BaseX encoder stream -/

/-! under -/
theorem under_spec (s : EncState) (d : Bytes) :
    (s.under d).2.enc = s.enc ∧ (s.under d).2.buf = s.buf ∧
    ((s.under d).2.failed = true ↔ ((s.under d).1 = false ∨ s.failed = true)) := by
  unfold EncState.under
  cases hs : s.sink with
  | nil => simp
  | cons f rest =>
    cases f <;> simp

theorem under_nofail (s : EncState) (d : Bytes) (hs : s.sink = []) :
    s.under d = (true, { s with written := s.written ++ [d] }) := by
  unfold EncState.under
  rw [hs]

/-- the `rest` part of `Write` -/
def encRest (s1 : EncState) (p1 : Bytes) (n0 : Nat) : Nat × Bool × EncState :=
  let r := EncState.interior (p1.length + 1) s1 p1 n0
  if !r.1 then (r.2.2.2, false, r.2.1) else (r.2.2.2 + r.2.2.1.length, true, { r.2.1 with buf := r.2.2.1 })

/-- the leading fringe of a `Write` -/
def encFringe (s : EncState) (p : Bytes) : Bytes := s.buf ++ p.take (s.enc.blockLen - s.buf.length)
def encFringeU (s : EncState) (p : Bytes) : Bool × EncState :=
  ({ s with buf := [] } : EncState).under (Basex.encode s.enc (encFringe s p))
def encTl (s : EncState) (p : Bytes) : Nat := (p.take (s.enc.blockLen - s.buf.length)).length

theorem write_eq (s : EncState) (p : Bytes) :
    s.write p =
      if s.failed = true then (0, false, s)
      else if (!s.buf.isEmpty) = true then
        if (encFringe s p).length < s.enc.blockLen then (encTl s p, true, { s with buf := encFringe s p })
        else
          if (!(encFringeU s p).1) = true then (encTl s p, false, (encFringeU s p).2)
          else encRest (encFringeU s p).2 (p.drop (encTl s p)) (encTl s p)
      else encRest s p 0 := by
  rfl

theorem nn_spec (ibl len : Nat) (hb : 0 < ibl) (hl : ibl ≤ len) :
    let nn := if 128 * ibl > len then len - len % ibl else 128 * ibl
    ibl ∣ nn ∧ ibl ≤ nn ∧ nn ≤ len := by
  intro nn
  by_cases h : 128 * ibl > len
  · have hnn : nn = ibl * (len / ibl) := by
      have := Nat.div_add_mod len ibl
      simp only [nn, if_pos h]; omega
    have hpos : 0 < len / ibl := Nat.div_pos hl hb
    rw [hnn]
    refine ⟨Nat.dvd_mul_right _ _, ?_, Nat.mul_div_le _ _⟩
    calc ibl = ibl * 1 := (Nat.mul_one _).symm
      _ ≤ ibl * (len / ibl) := Nat.mul_le_mul_left _ hpos
  · have hnn : nn = 128 * ibl := by simp only [nn, if_neg h]
    rw [hnn]
    exact ⟨Nat.dvd_mul_left _ _, by omega, by omega⟩

theorem interior_gen : ∀ (fuel : Nat) (s : EncState) (p : Bytes) (n : Nat),
    let r := EncState.interior fuel s p n
    r.2.1.enc = s.enc ∧ r.2.1.buf = s.buf ∧
    (r.2.1.failed = true → r.1 = false ∨ s.failed = true) ∧
    (0 < s.enc.blockLen → p.length < fuel → r.1 = true → r.2.2.1.length < s.enc.blockLen) := by
  intro fuel
  induction fuel with
  | zero =>
    intro s p n
    simp [EncState.interior]
  | succ fuel ih =>
    intro s p n
    unfold EncState.interior
    by_cases hge : p.length ≥ s.enc.blockLen
    · simp only [if_pos hge]
      generalize hnn : (if 128 * s.enc.blockLen > p.length then p.length - p.length % s.enc.blockLen else 128 * s.enc.blockLen) = nn
      obtain ⟨u1, u2, u3⟩ := under_spec s (Basex.encode s.enc (p.take nn))
      cases hu : (s.under (Basex.encode s.enc (p.take nn))).1 with
      | false =>
        simp only [Bool.not_false, if_true]
        refine ⟨u1, u2, fun _ => Or.inl trivial, fun _ _ h => by simp at h⟩
      | true =>
        simp only [Bool.not_true, Bool.false_eq_true, if_false]
        obtain ⟨i1, i2, i3, i4⟩ := ih (s.under (Basex.encode s.enc (p.take nn))).2 (p.drop nn) (n + nn)
        refine ⟨i1.trans u1, i2.trans u2, ?_, ?_⟩
        · intro hf
          rcases i3 hf with h | h
          · exact Or.inl h
          · rcases u3.mp h with h' | h'
            · rw [hu] at h'; simp at h'
            · exact Or.inr h'
        · intro hb hl hr
          rw [u1] at i4
          apply i4 hb _ hr
          have := nn_spec s.enc.blockLen p.length hb hge
          rw [hnn] at this
          rw [List.length_drop]; omega
    · simp only [if_neg hge]
      exact ⟨trivial, trivial, Or.inr, fun _ _ _ => by omega⟩


theorem encRest_spec (s : EncState) (p : Bytes) (n : Nat) :
    ((encRest s p n).2.2.failed = true → (encRest s p n).2.1 = false ∨ s.failed = true) ∧
    (encRest s p n).2.2.enc = s.enc ∧
    (0 < s.enc.blockLen → s.buf.length < s.enc.blockLen → (encRest s p n).2.2.buf.length < s.enc.blockLen) := by
  obtain ⟨i1, i2, i3, i4⟩ := interior_gen (p.length + 1) s p n
  unfold encRest
  cases hr : (EncState.interior (p.length + 1) s p n).1 with
  | false =>
    simp only [hr, Bool.not_false, if_true]
    exact ⟨fun _ => Or.inl trivial, i1, fun _ h => by rw [i2]; exact h⟩
  | true =>
    simp only [hr, Bool.not_true, Bool.false_eq_true, if_false]
    refine ⟨fun h => ?_, i1, fun hb _ => i4 hb (by omega) hr⟩
    rcases i3 h with h' | h'
    · rw [hr] at h'; simp at h'
    · exact Or.inr h'


theorem write_failed (s : EncState) (p : Bytes) (hf : s.failed = true) : s.write p = (0, false, s) := by
  rw [write_eq, if_pos hf]

theorem write_empty (s : EncState) (p : Bytes) (hf : s.failed = false) (he : s.buf = []) :
    s.write p = encRest s p 0 := by
  rw [write_eq, if_neg (by simp [hf]), if_neg (by simp [he])]

theorem write_short (s : EncState) (p : Bytes) (hf : s.failed = false) (he : s.buf ≠ [])
    (hl : (encFringe s p).length < s.enc.blockLen) :
    s.write p = (encTl s p, true, { s with buf := encFringe s p }) := by
  rw [write_eq, if_neg (by simp [hf]), if_pos (by simp [he]), if_pos hl]

theorem write_long_fail (s : EncState) (p : Bytes) (hf : s.failed = false) (he : s.buf ≠ [])
    (hl : ¬ (encFringe s p).length < s.enc.blockLen) (hu : (encFringeU s p).1 = false) :
    s.write p = (encTl s p, false, (encFringeU s p).2) := by
  rw [write_eq, if_neg (by simp [hf]), if_pos (by simp [he]), if_neg hl, if_pos (by simp [hu])]

theorem write_long_ok (s : EncState) (p : Bytes) (hf : s.failed = false) (he : s.buf ≠ [])
    (hl : ¬ (encFringe s p).length < s.enc.blockLen) (hu : (encFringeU s p).1 = true) :
    s.write p = encRest (encFringeU s p).2 (p.drop (encTl s p)) (encTl s p) := by
  rw [write_eq, if_neg (by simp [hf]), if_pos (by simp [he]), if_neg hl, if_neg (by simp [hu])]

theorem encFringeU_spec (s : EncState) (p : Bytes) :
    (encFringeU s p).2.enc = s.enc ∧ (encFringeU s p).2.buf = [] ∧
    ((encFringeU s p).2.failed = true ↔ ((encFringeU s p).1 = false ∨ s.failed = true)) :=
  under_spec { s with buf := [] } _

/-- bounded buffering: fewer than one block is held back between calls -/
theorem encStream_bounded (s : EncState) (hb : 0 < s.enc.blockLen) (hs : s.buf.length < s.enc.blockLen) (p : Bytes) :
    (s.write p).2.2.buf.length < s.enc.blockLen := by
  cases hf : s.failed with
  | true => rw [write_failed s p hf]; exact hs
  | false =>
    by_cases he : s.buf = []
    · rw [write_empty s p hf he]
      exact (encRest_spec s p 0).2.2 hb hs
    · by_cases hl : (encFringe s p).length < s.enc.blockLen
      · rw [write_short s p hf he hl]; exact hl
      · obtain ⟨u1, u2, u3⟩ := encFringeU_spec s p
        cases hu : (encFringeU s p).1 with
        | false => rw [write_long_fail s p hf he hl hu, u2]; exact hb
        | true =>
          rw [write_long_ok s p hf he hl hu]
          have := (encRest_spec (encFringeU s p).2 (p.drop (encTl s p)) (encTl s p)).2.2
          rw [u1, u2] at this
          exact this hb hb

/-- **faults are sticky and reported**: once an underlying write has failed,
    every later `Write` reports failure and `Close` does too -/
theorem encStream_sticky (s : EncState) (hf : s.failed = true) (p : Bytes) :
    (s.write p).2.1 = false ∧ (s.write p).2.2.failed = true ∧ s.close.1 = false := by
  rw [write_failed s p hf]
  simp [hf, EncState.close]

/-- a `Write`/`Close` that reports success has not seen a failing underlying write -/
theorem encStream_write_reports (s : EncState) (p : Bytes) :
    (s.write p).2.2.failed = true → (s.write p).2.1 = false ∨ s.failed = true := by
  cases hf : s.failed with
  | true => intro _; exact Or.inr rfl
  | false =>
    by_cases he : s.buf = []
    · rw [write_empty s p hf he]
      intro h
      rcases (encRest_spec s p 0).1 h with h' | h'
      · exact Or.inl h'
      · rw [hf] at h'; simp at h'
    · by_cases hl : (encFringe s p).length < s.enc.blockLen
      · rw [write_short s p hf he hl]; intro h; exact Or.inr (hf ▸ h)
      · obtain ⟨u1, u2, u3⟩ := encFringeU_spec s p
        cases hu : (encFringeU s p).1 with
        | false => rw [write_long_fail s p hf he hl hu]; exact fun _ => Or.inl rfl
        | true =>
          rw [write_long_ok s p hf he hl hu]
          intro h
          rcases (encRest_spec (encFringeU s p).2 _ _).1 h with h' | h'
          · exact Or.inl h'
          · rcases u3.mp h' with h'' | h''
            · rw [hu] at h''; simp at h''
            · rw [hf] at h''; simp at h''

theorem encStream_close_reports (s : EncState) : s.close.2.failed = true → s.close.1 = false := by
  unfold EncState.close
  by_cases h : (!s.failed) = true ∧ (!s.buf.isEmpty) = true
  · rw [if_pos h]
    obtain ⟨u1, u2, u3⟩ := under_spec s (Basex.encode s.enc s.buf)
    intro hf
    rcases u3.mp hf with h' | h'
    · exact h'
    · rw [h'] at h; simp at h
  · rw [if_neg h]
    intro hf
    simp only at hf
    simp [hf]


/-! ### split independence -/

theorem take_drop_length {α : Type} (k : Nat) (p : List α) : p.take k ++ p.drop (p.take k).length = p := by
  rw [List.length_take]
  by_cases h : k ≤ p.length
  · rw [Nat.min_eq_left h, List.take_append_drop]
  · rw [Nat.min_eq_right (by omega), List.take_of_length_le (by omega), List.drop_length, List.append_nil]

theorem encode_append_dvd (e : Basex.Enc) (he : e.WF) : ∀ (k : Nat) (a b : Bytes), a.length = e.blockLen * k →
    Basex.encode e (a ++ b) = Basex.encode e a ++ Basex.encode e b := by
  intro k
  induction k with
  | zero =>
    intro a b h
    have : a = [] := List.length_eq_zero_iff.mp (by simpa using h)
    subst this
    rw [encode_nil]; rfl
  | succ k ih =>
    intro a b h
    have hpos := he.block_pos
    have hle : e.blockLen ≤ a.length := by rw [h, Nat.mul_succ]; omega
    have ht : (a.take e.blockLen).length = e.blockLen := by rw [List.length_take]; omega
    have hd : (a.drop e.blockLen).length = e.blockLen * k := by rw [List.length_drop, h, Nat.mul_succ]; omega
    have ha : a = a.take e.blockLen ++ a.drop e.blockLen := (List.take_append_drop _ _).symm
    calc Basex.encode e (a ++ b)
        = Basex.encode e (a.take e.blockLen ++ (a.drop e.blockLen ++ b)) := by
          rw [← List.append_assoc, List.take_append_drop]
      _ = Basex.encodeBlock e (a.take e.blockLen) ++ (Basex.encode e (a.drop e.blockLen) ++ Basex.encode e b) := by
          rw [encode_append e he _ _ ht, ih _ b hd]
      _ = Basex.encode e (a.take e.blockLen ++ a.drop e.blockLen) ++ Basex.encode e b := by
          rw [encode_append e he _ _ ht, List.append_assoc]
      _ = Basex.encode e a ++ Basex.encode e b := by rw [List.take_append_drop]

theorem encode_append_of_dvd (e : Basex.Enc) (he : e.WF) (a b : Bytes) (h : e.blockLen ∣ a.length) :
    Basex.encode e (a ++ b) = Basex.encode e a ++ Basex.encode e b := by
  obtain ⟨k, hk⟩ := h
  exact encode_append_dvd e he k a b hk

theorem interior_nofail : ∀ (fuel : Nat) (s : EncState) (p : Bytes) (n : Nat),
    s.enc.WF → s.sink = [] → s.failed = false → p.length < fuel →
    let r := EncState.interior fuel s p n
    r.1 = true ∧ r.2.1.enc = s.enc ∧ r.2.1.sink = [] ∧ r.2.1.failed = false ∧ r.2.1.buf = s.buf ∧
    r.2.2.1.length < s.enc.blockLen ∧
    ∃ B, s.enc.blockLen ∣ B.length ∧ p = B ++ r.2.2.1 ∧
      r.2.1.written.flatten = s.written.flatten ++ Basex.encode s.enc B := by
  intro fuel
  induction fuel with
  | zero => intro s p n _ _ _ h; omega
  | succ fuel ih =>
    intro s p n he hs hf hl
    unfold EncState.interior
    by_cases hge : p.length ≥ s.enc.blockLen
    · simp only [if_pos hge]
      have hnn := nn_spec s.enc.blockLen p.length he.block_pos hge
      generalize (if 128 * s.enc.blockLen > p.length then p.length - p.length % s.enc.blockLen else 128 * s.enc.blockLen) = nn at hnn
      simp only at hnn
      obtain ⟨hn1, hn2, hn3⟩ := hnn
      rw [under_nofail s _ hs]
      simp only [Bool.not_true, Bool.false_eq_true, if_false]
      have hpos := he.block_pos
      obtain ⟨i1, i2, i3, i4, i5, i6, B, hB1, hB2, hB3⟩ :=
        ih { s with written := s.written ++ [Basex.encode s.enc (p.take nn)] } (p.drop nn) (n + nn) he hs hf
          (by rw [List.length_drop]; omega)
      refine ⟨i1, i2, i3, i4, i5, i6, p.take nn ++ B, ?_, ?_, ?_⟩
      · rw [List.length_append, List.length_take, Nat.min_eq_left hn3]
        exact (Nat.dvd_add_right hn1).mpr hB1
      · rw [List.append_assoc, ← hB2, List.take_append_drop]
      · rw [hB3]
        simp only [List.flatten_append, List.flatten_cons, List.flatten_nil, List.append_nil]
        rw [encode_append_of_dvd s.enc he (p.take nn) B (by rw [List.length_take, Nat.min_eq_left hn3]; exact hn1),
          List.append_assoc]
    · simp only [if_neg hge]
      exact ⟨trivial, trivial, hs, hf, trivial, by omega, [], by simp, by simp, by simp [encode_nil]⟩

theorem encRest_nofail (s : EncState) (p : Bytes) (n : Nat) (he : s.enc.WF) (hs : s.sink = []) (hf : s.failed = false) :
    (encRest s p n).2.1 = true ∧ (encRest s p n).2.2.enc = s.enc ∧ (encRest s p n).2.2.sink = [] ∧
    (encRest s p n).2.2.failed = false ∧ (encRest s p n).2.2.buf.length < s.enc.blockLen ∧
    ∃ B, s.enc.blockLen ∣ B.length ∧ p = B ++ (encRest s p n).2.2.buf ∧
      (encRest s p n).2.2.written.flatten = s.written.flatten ++ Basex.encode s.enc B := by
  obtain ⟨i1, i2, i3, i4, i5, i6, B, hB1, hB2, hB3⟩ := interior_nofail (p.length + 1) s p n he hs hf (by omega)
  unfold encRest
  simp only [i1, Bool.not_true, Bool.false_eq_true, if_false]
  exact ⟨trivial, i2, i3, i4, i6, B, hB1, hB2, hB3⟩

/-- invariant of the encoder stream over a writer that never fails -/
structure EncInv (enc : Basex.Enc) (T : Bytes) (s : EncState) : Prop where
  henc : s.enc = enc
  sink : s.sink = []
  nf : s.failed = false
  bound : s.buf.length < enc.blockLen
  ex : ∃ A, enc.blockLen ∣ A.length ∧ T = A ++ s.buf ∧ s.written.flatten = Basex.encode enc A

theorem encInv_write (enc : Basex.Enc) (he : enc.WF) (T : Bytes) (s : EncState) (h : EncInv enc T s) (p : Bytes) :
    (s.write p).2.1 = true ∧ EncInv enc (T ++ p) (s.write p).2.2 := by
  obtain ⟨henc, hs, hf, hbd, A, hA1, hA2, hA3⟩ := h
  subst henc
  by_cases hb : s.buf = []
  · rw [write_empty s p hf hb]
    obtain ⟨r1, r2, r3, r4, r5, B, hB1, hB2, hB3⟩ := encRest_nofail s p 0 he hs hf
    refine ⟨r1, r2, r3, r4, r5, A ++ B, ?_, ?_, ?_⟩
    · rw [List.length_append]; exact (Nat.dvd_add_right hA1).mpr hB1
    · rw [hA2, hb, List.append_nil, List.append_assoc, ← hB2]
    · rw [hB3, hA3, encode_append_of_dvd s.enc he A B hA1]
  · have hbpos : 0 < s.buf.length := List.length_pos_iff.mpr hb
    by_cases hl : (encFringe s p).length < s.enc.blockLen
    · rw [write_short s p hf hb hl]
      have hp : p.take (s.enc.blockLen - s.buf.length) = p := by
        apply List.take_of_length_le
        unfold encFringe at hl
        rw [List.length_append, List.length_take] at hl
        omega
      refine ⟨rfl, rfl, hs, hf, hl, A, hA1, ?_, hA3⟩
      show T ++ p = A ++ encFringe s p
      unfold encFringe
      rw [hp, hA2, List.append_assoc]
    · have hfl : (encFringe s p).length = s.enc.blockLen := by
        have : (encFringe s p).length ≤ s.enc.blockLen := by
          unfold encFringe
          rw [List.length_append, List.length_take]; omega
        omega
      have hu : encFringeU s p = (true, { s with buf := [], written := s.written ++ [Basex.encode s.enc (encFringe s p)] }) := by
        exact under_nofail { s with buf := [] } _ hs
      rw [write_long_ok s p hf hb hl (by rw [hu])]
      rw [hu]
      obtain ⟨r1, r2, r3, r4, r5, B, hB1, hB2, hB3⟩ := encRest_nofail
        { s with buf := [], written := s.written ++ [Basex.encode s.enc (encFringe s p)] } (p.drop (encTl s p)) (encTl s p) he hs hf
      refine ⟨r1, r2, r3, r4, r5, A ++ encFringe s p ++ B, ?_, ?_, ?_⟩
      · rw [List.length_append, List.length_append, hfl]
        exact (Nat.dvd_add_right ((Nat.dvd_add_right hA1).mpr (Nat.dvd_refl _))).mpr hB1
      · rw [List.append_assoc (A ++ encFringe s p), ← hB2, hA2]
        unfold encFringe encTl
        simp only [List.append_assoc]
        rw [take_drop_length]
      · have hd2 : s.enc.blockLen ∣ (A ++ encFringe s p).length := by
          rw [List.length_append, hfl]; exact (Nat.dvd_add_right hA1).mpr (Nat.dvd_refl _)
        rw [hB3, encode_append_of_dvd s.enc he _ B hd2, encode_append_of_dvd s.enc he A _ hA1, ← hA3]
        simp

theorem encInv_fold (enc : Basex.Enc) (he : enc.WF) (ws : List Bytes) : ∀ (T : Bytes) (s : EncState), EncInv enc T s →
    EncInv enc (T ++ ws.flatten) (ws.foldl (fun (s : EncState) w => (s.write w).2.2) s) := by
  induction ws with
  | nil => intro T s h; simpa using h
  | cons w ws ih =>
    intro T s h
    rw [List.foldl_cons, List.flatten_cons, ← List.append_assoc]
    exact ih _ _ (encInv_write enc he T s h w).2

/-- with a writer that never fails: every `Write` accepts all its bytes, and
    after `Close` the concatenation of what reached the writer is the one-shot
    encoding of the concatenation of what was written — whatever the split -/
theorem encStream_any_split (enc : Basex.Enc) (he : enc.WF) (ws : List Bytes) :
    let s1 := ws.foldl (fun (s : EncState) w => (s.write w).2.2) ({ enc := enc } : EncState)
    let r := s1.close
    r.1 = true ∧ r.2.written.flatten = Basex.encode enc ws.flatten := by
  intro s1 r
  have hinv : EncInv enc ([] ++ ws.flatten) s1 :=
    encInv_fold enc he ws [] { enc := enc } ⟨rfl, rfl, rfl, he.block_pos, [], by simp, rfl, by simp [encode_nil]⟩
  rw [List.nil_append] at hinv
  obtain ⟨henc, hs, hf, hbd, A, hA1, hA2, hA3⟩ := hinv
  show s1.close.1 = true ∧ s1.close.2.written.flatten = _
  unfold EncState.close
  by_cases hb : s1.buf = []
  · rw [if_neg (by simp [hb])]
    refine ⟨by simp [hf], ?_⟩
    rw [hA3, hA2, hb, List.append_nil]
  · rw [if_pos (by simp [hf, hb]), under_nofail _ _ hs]
    refine ⟨rfl, ?_⟩
    simp only [List.flatten_append, List.flatten_cons, List.flatten_nil, List.append_nil]
    rw [hA3, hA2, henc, encode_append_of_dvd enc he A _ hA1]

/-! ### an underlying writer that may fail (`sink` arbitrary): C14 -/

theorem under_true (s : EncState) (d : Bytes) (h : (s.under d).1 = true) :
    (s.under d).2.enc = s.enc ∧ (s.under d).2.buf = s.buf ∧ (s.under d).2.failed = s.failed ∧
    (s.under d).2.written = s.written ++ [d] := by
  unfold EncState.under at h ⊢
  cases hs : s.sink with
  | nil => simp
  | cons f rest =>
    cases f with
    | true => simp [hs] at h
    | false => simp

theorem under_false (s : EncState) (d : Bytes) (h : (s.under d).1 = false) : (s.under d).2.failed = true :=
  ((under_spec s d).2.2).mpr (Or.inl h)

/-- `interior` over any sink: either an underlying write failed (reported, flag
    set), or everything is as with a writer that never fails -/
theorem interior_ok : ∀ (fuel : Nat) (s : EncState) (p : Bytes) (n : Nat),
    s.enc.WF → s.failed = false → p.length < fuel →
    let r := EncState.interior fuel s p n
    (r.1 = false ∧ r.2.1.failed = true) ∨
    (r.1 = true ∧ r.2.1.enc = s.enc ∧ r.2.1.failed = false ∧ r.2.1.buf = s.buf ∧
      r.2.2.1.length < s.enc.blockLen ∧
      ∃ B, s.enc.blockLen ∣ B.length ∧ p = B ++ r.2.2.1 ∧
        r.2.1.written.flatten = s.written.flatten ++ Basex.encode s.enc B) := by
  intro fuel
  induction fuel with
  | zero => intro s p n _ _ h; omega
  | succ fuel ih =>
    intro s p n he hf hl
    unfold EncState.interior
    by_cases hge : p.length ≥ s.enc.blockLen
    · simp only [if_pos hge]
      have hnn := nn_spec s.enc.blockLen p.length he.block_pos hge
      generalize (if 128 * s.enc.blockLen > p.length then p.length - p.length % s.enc.blockLen else 128 * s.enc.blockLen) = nn at hnn
      simp only at hnn
      obtain ⟨hn1, hn2, hn3⟩ := hnn
      cases hu : (s.under (Basex.encode s.enc (p.take nn))).1 with
      | false =>
        simp only [Bool.not_false, if_true]
        exact Or.inl ⟨trivial, under_false s _ hu⟩
      | true =>
        simp only [Bool.not_true, Bool.false_eq_true, if_false]
        obtain ⟨u1, u2, u3, u4⟩ := under_true s _ hu
        have hpos := he.block_pos
        have ih' := ih (s.under (Basex.encode s.enc (p.take nn))).2 (p.drop nn) (n + nn) (by rw [u1]; exact he)
          (by rw [u3]; exact hf) (by rw [List.length_drop]; omega)
        simp only at ih'
        rcases ih' with ih' | ⟨i1, i2, i4, i5, i6, B, hB1, hB2, hB3⟩
        · exact Or.inl ih'
        · rw [u1] at i6 hB1 hB3 i2
          refine Or.inr ⟨i1, i2, i4, i5.trans u2, i6, p.take nn ++ B, ?_, ?_, ?_⟩
          · rw [List.length_append, List.length_take, Nat.min_eq_left hn3]
            exact (Nat.dvd_add_right hn1).mpr hB1
          · rw [List.append_assoc, ← hB2, List.take_append_drop]
          · rw [hB3, u4]
            simp only [List.flatten_append, List.flatten_cons, List.flatten_nil, List.append_nil]
            rw [encode_append_of_dvd s.enc he (p.take nn) B (by rw [List.length_take, Nat.min_eq_left hn3]; exact hn1),
              List.append_assoc]
    · simp only [if_neg hge]
      exact Or.inr ⟨trivial, trivial, hf, trivial, by omega, [], by simp, by simp, by simp [encode_nil]⟩

theorem encRest_ok (s : EncState) (p : Bytes) (n : Nat) (he : s.enc.WF) (hf : s.failed = false) :
    ((encRest s p n).2.1 = false ∧ (encRest s p n).2.2.failed = true) ∨
    ((encRest s p n).2.1 = true ∧ (encRest s p n).2.2.enc = s.enc ∧
      (encRest s p n).2.2.failed = false ∧ (encRest s p n).2.2.buf.length < s.enc.blockLen ∧
      ∃ B, s.enc.blockLen ∣ B.length ∧ p = B ++ (encRest s p n).2.2.buf ∧
        (encRest s p n).2.2.written.flatten = s.written.flatten ++ Basex.encode s.enc B) := by
  have h := interior_ok (p.length + 1) s p n he hf (by omega)
  simp only at h
  unfold encRest
  rcases h with ⟨i1, i2⟩ | ⟨i1, i2, i4, i5, i6, B, hB1, hB2, hB3⟩
  · simp only [i1, Bool.not_false, if_true]
    exact Or.inl ⟨trivial, i2⟩
  · simp only [i1, Bool.not_true, Bool.false_eq_true, if_false]
    exact Or.inr ⟨trivial, i2, i4, i6, B, hB1, hB2, hB3⟩

/-- invariant of the encoder stream as long as no underlying write has failed
    (the sink is arbitrary) -/
structure EncInvS (enc : Basex.Enc) (T : Bytes) (s : EncState) : Prop where
  henc : s.enc = enc
  nf : s.failed = false
  bound : s.buf.length < enc.blockLen
  ex : ∃ A, enc.blockLen ∣ A.length ∧ T = A ++ s.buf ∧ s.written.flatten = Basex.encode enc A

/-- one `Write` over any sink: it reports failure and sets the flag, or it
    reports success and everything written so far is accounted for -/
theorem encInvS_write (enc : Basex.Enc) (he : enc.WF) (T : Bytes) (s : EncState) (h : EncInvS enc T s) (p : Bytes) :
    ((s.write p).2.1 = false ∧ (s.write p).2.2.failed = true) ∨
    ((s.write p).2.1 = true ∧ EncInvS enc (T ++ p) (s.write p).2.2) := by
  obtain ⟨henc, hf, hbd, A, hA1, hA2, hA3⟩ := h
  subst henc
  by_cases hb : s.buf = []
  · rw [write_empty s p hf hb]
    rcases encRest_ok s p 0 he hf with hfail | ⟨r1, r2, r4, r5, B, hB1, hB2, hB3⟩
    · exact Or.inl hfail
    · refine Or.inr ⟨r1, r2, r4, r5, A ++ B, ?_, ?_, ?_⟩
      · rw [List.length_append]; exact (Nat.dvd_add_right hA1).mpr hB1
      · rw [hA2, hb, List.append_nil, List.append_assoc, ← hB2]
      · rw [hB3, hA3, encode_append_of_dvd s.enc he A B hA1]
  · by_cases hl : (encFringe s p).length < s.enc.blockLen
    · rw [write_short s p hf hb hl]
      have hbpos : 0 < s.buf.length := List.length_pos_iff.mpr hb
      have hp : p.take (s.enc.blockLen - s.buf.length) = p := by
        apply List.take_of_length_le
        unfold encFringe at hl
        rw [List.length_append, List.length_take] at hl
        omega
      refine Or.inr ⟨rfl, rfl, hf, hl, A, hA1, ?_, hA3⟩
      show T ++ p = A ++ encFringe s p
      unfold encFringe
      rw [hp, hA2, List.append_assoc]
    · have hbpos : 0 < s.buf.length := List.length_pos_iff.mpr hb
      have hfl : (encFringe s p).length = s.enc.blockLen := by
        have : (encFringe s p).length ≤ s.enc.blockLen := by
          unfold encFringe
          rw [List.length_append, List.length_take]; omega
        omega
      obtain ⟨f1, f2, f3⟩ := encFringeU_spec s p
      cases hu : (encFringeU s p).1 with
      | false =>
        rw [write_long_fail s p hf hb hl hu]
        exact Or.inl ⟨rfl, f3.mpr (Or.inl hu)⟩
      | true =>
        rw [write_long_ok s p hf hb hl hu]
        obtain ⟨u1, u2, u3, u4⟩ := under_true { s with buf := [] } (Basex.encode s.enc (encFringe s p)) hu
        have hfu : (encFringeU s p).2.failed = false := u3.trans hf
        rcases encRest_ok (encFringeU s p).2 (p.drop (encTl s p)) (encTl s p) (by rw [f1]; exact he) hfu with
          hfail | ⟨r1, r2, r4, r5, B, hB1, hB2, hB3⟩
        · exact Or.inl hfail
        · rw [f1] at r2 r5 hB1 hB3
          refine Or.inr ⟨r1, r2, r4, r5, A ++ encFringe s p ++ B, ?_, ?_, ?_⟩
          · rw [List.length_append, List.length_append, hfl]
            exact (Nat.dvd_add_right ((Nat.dvd_add_right hA1).mpr (Nat.dvd_refl _))).mpr hB1
          · rw [List.append_assoc (A ++ encFringe s p), ← hB2, hA2]
            unfold encFringe encTl
            simp only [List.append_assoc]
            rw [take_drop_length]
          · have hd2 : s.enc.blockLen ∣ (A ++ encFringe s p).length := by
              rw [List.length_append, hfl]; exact (Nat.dvd_add_right hA1).mpr (Nat.dvd_refl _)
            have hw : (encFringeU s p).2.written = s.written ++ [Basex.encode s.enc (encFringe s p)] := u4
            rw [hB3, hw, encode_append_of_dvd s.enc he _ B hd2, encode_append_of_dvd s.enc he A _ hA1, ← hA3]
            simp

theorem foldl_write_failed (ws : List Bytes) : ∀ (s : EncState), s.failed = true →
    (ws.foldl (fun (s : EncState) w => (s.write w).2.2) s).failed = true := by
  induction ws with
  | nil => intro s h; exact h
  | cons w ws ih =>
    intro s h
    rw [List.foldl_cons]
    exact ih _ (by rw [write_failed s w h]; exact h)

theorem encInvS_fold (enc : Basex.Enc) (he : enc.WF) (ws : List Bytes) : ∀ (T : Bytes) (s : EncState), EncInvS enc T s →
    (ws.foldl (fun (s : EncState) w => (s.write w).2.2) s).failed = true ∨
    EncInvS enc (T ++ ws.flatten) (ws.foldl (fun (s : EncState) w => (s.write w).2.2) s) := by
  induction ws with
  | nil => intro T s h; right; simpa using h
  | cons w ws ih =>
    intro T s h
    rw [List.foldl_cons, List.flatten_cons, ← List.append_assoc]
    rcases encInvS_write enc he T s h w with ⟨_, hfail⟩ | ⟨_, hinv⟩
    · exact Or.inl (foldl_write_failed ws _ hfail)
    · exact ih _ _ hinv

/-- **`Close` reports success only for a completely written message**, whatever
    the underlying writer does: if after any sequence of `Write`s (whatever
    they reported) `Close` returns no error, then what reached the underlying
    writer is exactly the encoding of everything that was written. -/
theorem encStream_close_ok_all_written (enc : Basex.Enc) (he : enc.WF) (sink : Sink) (ws : List Bytes) :
    let s1 := ws.foldl (fun (s : EncState) w => (s.write w).2.2) ({ enc := enc, sink := sink } : EncState)
    s1.close.1 = true → s1.close.2.written.flatten = Basex.encode enc ws.flatten := by
  intro s1 hc
  have hinv := encInvS_fold enc he ws [] { enc := enc, sink := sink }
    ⟨rfl, rfl, he.block_pos, [], by simp, rfl, by simp [encode_nil]⟩
  rw [List.nil_append] at hinv
  rcases hinv with hfail | hinv
  · have : s1.close.1 = false := by
      unfold EncState.close
      simp [show s1.failed = true from hfail]
    rw [hc] at this; exact absurd this (by decide)
  · obtain ⟨henc, hf, hbd, A, hA1, hA2, hA3⟩ := hinv
    have hf' : s1.failed = false := hf
    have hA3' : s1.written.flatten = Basex.encode enc A := hA3
    have hA2' : ws.flatten = A ++ s1.buf := hA2
    have henc' : s1.enc = enc := henc
    unfold EncState.close at hc ⊢
    by_cases hb : s1.buf = []
    · rw [if_neg (by simp [hb])]
      rw [hA3', hA2', hb, List.append_nil]
    · rw [if_pos (by simp [hf', hb])] at hc ⊢
      simp only at hc ⊢
      obtain ⟨u1, u2, u3, u4⟩ := under_true s1 _ hc
      rw [u4]
      simp only [List.flatten_append, List.flatten_cons, List.flatten_nil, List.append_nil]
      rw [hA3', hA2', henc', encode_append_of_dvd enc he A _ hA1]

/-! the fault side: every failing underlying write is reported -/

/-- `s'` was reached from `s` by consuming the sink entries `c` (one per
    underlying write), and its sticky flag is set iff one of them failed -/
def Consumes (s s' : EncState) : Prop :=
  ∃ c : List Bool, s.sink = c ++ s'.sink ∧ s'.failed = (s.failed || c.contains true)

theorem Consumes.refl (s : EncState) : Consumes s s := ⟨[], by simp, by simp⟩

theorem Consumes.trans {a b c : EncState} (h1 : Consumes a b) (h2 : Consumes b c) : Consumes a c := by
  obtain ⟨c1, s1, f1⟩ := h1
  obtain ⟨c2, s2, f2⟩ := h2
  refine ⟨c1 ++ c2, by rw [s1, s2, List.append_assoc], ?_⟩
  rw [f2, f1]
  simp [Bool.or_assoc]

theorem consumes_under (s : EncState) (d : Bytes) : Consumes s (s.under d).2 := by
  unfold EncState.under
  cases hs : s.sink with
  | nil => exact ⟨[], by simp [hs], by simp⟩
  | cons f rest =>
    cases f with
    | true => exact ⟨[true], by simp [hs], by simp⟩
    | false => exact ⟨[false], by simp [hs], by simp⟩

theorem consumes_interior : ∀ (fuel : Nat) (s : EncState) (p : Bytes) (n : Nat),
    Consumes s (EncState.interior fuel s p n).2.1 := by
  intro fuel
  induction fuel with
  | zero => intro s p n; exact Consumes.refl s
  | succ fuel ih =>
    intro s p n
    unfold EncState.interior
    by_cases hge : p.length ≥ s.enc.blockLen
    · simp only [if_pos hge]
      generalize (if 128 * s.enc.blockLen > p.length then p.length - p.length % s.enc.blockLen else 128 * s.enc.blockLen) = nn
      have hu := consumes_under s (Basex.encode s.enc (p.take nn))
      cases hb : (s.under (Basex.encode s.enc (p.take nn))).1 with
      | false => simp only [Bool.not_false, if_true]; exact hu
      | true =>
        simp only [Bool.not_true, Bool.false_eq_true, if_false]
        exact hu.trans (ih _ _ _)
    · simp only [if_neg hge]; exact Consumes.refl s

theorem consumes_encRest (s : EncState) (p : Bytes) (n : Nat) : Consumes s (encRest s p n).2.2 := by
  have h := consumes_interior (p.length + 1) s p n
  unfold encRest
  cases hr : (EncState.interior (p.length + 1) s p n).1 with
  | false => simp only [hr, Bool.not_false, if_true]; exact h
  | true => simp only [hr, Bool.not_true, Bool.false_eq_true, if_false]; exact h

theorem consumes_write (s : EncState) (p : Bytes) : Consumes s (s.write p).2.2 := by
  rw [write_eq]
  split
  · exact Consumes.refl s
  · split
    · split
      · exact Consumes.refl s
      · have hu : Consumes s (encFringeU s p).2 := consumes_under { s with buf := [] } _
        split
        · exact hu
        · exact hu.trans (consumes_encRest _ _ _)
    · exact consumes_encRest s p 0

theorem consumes_close (s : EncState) : Consumes s s.close.2 := by
  unfold EncState.close
  split
  · exact consumes_under s _
  · exact Consumes.refl s

theorem consumes_fold (ws : List Bytes) : ∀ (s : EncState),
    Consumes s (ws.foldl (fun (s : EncState) w => (s.write w).2.2) s) := by
  induction ws with
  | nil => intro s; exact Consumes.refl s
  | cons w ws ih => intro s; rw [List.foldl_cons]; exact (consumes_write s w).trans (ih _)

/-- the consumed part of the sink is determined by the two states -/
theorem Consumes.flag {s s' : EncState} (h : Consumes s s') (consumed : List Bool)
    (hc : s.sink = consumed ++ s'.sink) : s'.failed = (s.failed || consumed.contains true) := by
  obtain ⟨c, hs, hf⟩ := h
  have : consumed = c := by
    rw [hs] at hc
    exact (List.append_cancel_right hc).symm
  rw [this]; exact hf

/-- **Every failing underlying write is reported by the call it happens in**:
    a `Write` during which a failing entry of the sink was consumed returns an error -/
theorem encStream_write_fault_reported (s : EncState) (p : Bytes) (consumed : List Bool)
    (hc : s.sink = consumed ++ (s.write p).2.2.sink) (ht : true ∈ consumed) : (s.write p).2.1 = false := by
  have hfl := (consumes_write s p).flag consumed hc
  have hfailed : (s.write p).2.2.failed = true := by
    rw [hfl]; simp [ht]
  rcases encStream_write_reports s p hfailed with h | h
  · exact h
  · rw [write_failed s p h]

/-- **…and by `Close`, whichever call hit it**: if, between the creation of the
    encoder and the end of `Close`, a failing entry of the sink was consumed —
    an underlying write failed — then `Close` returns an error -/
theorem encStream_fault_reported (enc : Basex.Enc) (sink : Sink) (ws : List Bytes) (consumed : List Bool) :
    let s1 := ws.foldl (fun (s : EncState) w => (s.write w).2.2) ({ enc := enc, sink := sink } : EncState)
    sink = consumed ++ s1.close.2.sink → true ∈ consumed → s1.close.1 = false := by
  intro s1 hc ht
  have hcons : Consumes ({ enc := enc, sink := sink } : EncState) s1.close.2 :=
    (consumes_fold ws _).trans (consumes_close s1)
  have hfl := hcons.flag consumed hc
  apply encStream_close_reports
  rw [hfl]; simp [ht]

/-! ## the scripted source: fragmentation -/

/-- the bytes a script delivers before its first condition -/
def srcData : Source → Bytes
  | [] => []
  | (d, some _) :: _ => d
  | (d, none) :: rest => d ++ srcData rest

/-- one `Read` takes a prefix of the data (at most the buffer size) and leaves
    the rest: no byte is lost, duplicated or reordered by the source model -/
theorem srcRead_prefix (cap : Nat) (src : Source) :
    let r := srcRead cap src
    r.1.length ≤ cap ∧ srcData src = r.1 ++ (match r.2.1 with | some _ => [] | none => srcData r.2.2) := by
  intro r
  cases src with
  | nil => simp [r, srcRead, srcData]
  | cons hd rest =>
    obtain ⟨d, e⟩ := hd
    by_cases hc : d.length ≤ cap
    · have hr : r = (d, e, rest) := by simp [r, srcRead, hc]
      rw [hr]
      cases e with
      | none => simp [srcData, hc]
      | some x => simp [srcData, hc]
    · have hr : r = (d.take cap, none, (d.drop cap, e) :: rest) := by simp [r, srcRead, hc]
      rw [hr]
      refine ⟨by simp [List.length_take]; omega, ?_⟩
      cases e with
      | none => simp [srcData, ← List.append_assoc]
      | some x => simp [srcData]

end Saltpack.Proofs
