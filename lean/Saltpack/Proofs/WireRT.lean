/-
  Bytes → structures → round trip.

  The sender models emit *bytes* (`Encrypt.sealWith`, `Signcrypt.sealWith`,
  `Sign.attachedWith`, `Sign.detachedWith`); the receiver models consume the
  decoded view (`HeaderRead`, `PStream`).  `Saltpack.Model.Wire` is the bridge.
  This file proves that splitting the emitted bytes yields exactly the packet
  structures the sender built (`wire_*`), hence that the structure-level round
  trips of RoundTripEnc / RoundTripSig hold at byte level (`*_roundtrip_bytes`).

  One normalisation is unavoidable: V1 payload packets carry no final flag on
  the wire, so the receiver's view of a V1 packet has `final := false` whatever
  the sender's structure says (`encAsRead`, `sigAsRead`); the receivers ignore
  that field for major version 1 (`dec_run_asRead`, `sig_run_asRead`).
-/
import Saltpack.Proofs.RoundTripEnc
import Saltpack.Proofs.RoundTripSig
import Saltpack.Proofs.MsgpackRT
import Saltpack.Toy

namespace Saltpack.Proofs
open Saltpack Saltpack.Msgpack

/-- the output lengths of the primitives, as far as the wire format cares
    (every emitted byte string must fit a MessagePack `bin32`, an authenticator
    is exactly 32 bytes) -/
structure WireSizes (P : Prims) : Prop where
  hmac_len : ∀ k m, 32 ≤ (P.hmac k m).length
  sb_len : ∀ k n m, (P.sbSeal k n m).length = m.length + 16
  pub_len : ∀ s, (P.boxPub s).length = 32
  sigPub_len : ∀ s, (P.sigPub s).length = 32
  sig_len : ∀ s m, (P.sign s m).length = 64

theorem WireSizes.of_lawful {P : Prims} (hP : P.Lawful) : WireSizes P where
  hmac_len k m := by rw [hP.hmac_len]; omega
  sb_len := hP.sb_len
  pub_len := hP.pub_len
  sigPub_len := hP.sigPub_len
  sig_len := hP.sig_len

/-- non-vacuity: the toy primitives have these sizes -/
example : WireSizes Toy.prims := WireSizes.of_lawful Toy.lawful

/-- a V1 payload packet as the receiver's decoder presents it: no final flag on
    the wire, the field reads `false` -/
def encAsRead (v : Version) (b : EncBlock) : EncBlock :=
  if v.major = 1 then { b with final := false } else b

def sigAsRead (v : Version) (b : SigBlock) : SigBlock :=
  if v.major = 1 then { b with final := false } else b

theorem encAsRead_v2 (b : EncBlock) : encAsRead v2 b = b := rfl
theorem sigAsRead_v2 (b : SigBlock) : sigAsRead v2 b = b := rfl

namespace WireRT
open MsgpackRT

/-! ### the generic splitter on encoded input -/

theorem readBytesObj_bin (b rest : Bytes) (h : b.length < 2 ^ 32) :
    Wire.readBytesObj (encBin b ++ rest) = .ok (.ok b, rest) := by
  have := parse1_encode (.bin b) (ValWF.bin b h) rest
  rw [encode] at this
  simp only [Wire.readBytesObj, this]

theorem decodeHeader_encode {η : Type} (view : Val → Option η) (val : Val) (hwf : ValWF val)
    (h : η) (hv : view val = some h) :
    Wire.decodeHeader view (encode val) = .ok (.ok (encode val) h) := by
  have := parse1_encode val hwf []
  rw [List.append_nil] at this
  simp only [Wire.decodeHeader, this, hv]

theorem items_some {β : Type} (view : Val → Option β) :
    ∀ (vals : List Val) (bl : List β), vals.map view = bl.map some →
      Wire.items view vals = .ok (bl.map some) := by
  intro vals
  induction vals with
  | nil =>
    intro bl h
    cases bl with
    | nil => rfl
    | cons b bl => simp at h
  | cons v vs ih =>
    intro bl h
    cases bl with
    | nil => simp at h
    | cons b bl =>
      simp only [List.map_cons, List.cons.injEq] at h
      simp only [Wire.items, ih bl h.2, h.1, List.map_cons]

/-- header packet ‖ encoded objects splits into the header and the views -/
theorem split_encoded {η β : Type} (viewH : Val → Option η) (viewB : η → Val → Option β)
    (hval : Val) (hwf : ValWF hval) (h : η) (hview : viewH hval = some h)
    (hlen : (encode hval).length < 2 ^ 32)
    (vals : List Val) (hvals : ∀ v ∈ vals, ValWF v) (bl : List β)
    (hitems : vals.map (viewB h) = bl.map some) :
    Wire.split viewH viewB (headerPacket (encode hval) ++ vals.flatMap encode) =
      .ok (.ok (encode hval) h, ⟨bl.map some, .eof⟩) := by
  unfold Wire.split headerPacket
  rw [readBytesObj_bin _ _ hlen]
  simp only []
  rw [decodeHeader_encode viewH hval hwf h hview]
  simp only []
  rw [parseAll_encode vals hvals _ (Nat.lt_succ_self _)]
  simp only []
  rw [items_some (viewB h) vals bl hitems]
  rfl

/-! ### encryption: what sealing says about sizes -/

theorem encBlockVal_wf (v : Version) (auths : List Bytes) (ct : Bytes) (f : Bool) (val : Val)
    (h : encBlockVal v auths ct f = .ok val)
    (hl : auths.length < 2 ^ 32) (ha : ∀ a ∈ auths, a.length < 2 ^ 32) (hc : ct.length < 2 ^ 32) :
    ValWF val := by
  have hA : ValWF (if auths.isEmpty then Val.nil else Val.arr (auths.map .bin)) := by
    split
    · exact ValWF.nil
    · apply ValWF.arr _ (by rw [List.length_map]; exact hl)
      intro x hx
      rw [List.mem_map] at hx
      obtain ⟨a, ha', rfl⟩ := hx
      exact ValWF.bin _ (ha a ha')
  unfold encBlockVal at h
  simp only [] at h
  split at h
  · cases h
    apply ValWF.arr _ (by simp)
    intro x hx
    simp only [List.mem_cons, List.not_mem_nil, or_false] at hx
    rcases hx with rfl | rfl
    · exact hA
    · exact ValWF.bin _ hc
  · split at h
    · cases h
      apply ValWF.arr _ (by simp)
      intro x hx
      simp only [List.mem_cons, List.not_mem_nil, or_false] at hx
      rcases hx with rfl | rfl | rfl
      · exact ValWF.bool _
      · exact hA
      · exact ValWF.bin _ hc
    · cases h

/-- the view of an emitted encryption packet -/
theorem viewEncBlock_asRead (v : Version) (hv : v = v1 ∨ v = v2) (b : EncBlock)
    (ha : b.auths ≠ []) (hl : ∀ a ∈ b.auths, a.length = 32) (val : Val)
    (h : encBlockVal v b.auths b.ct b.final = .ok val) :
    viewEncBlock v.major val = some (encAsRead v b) := by
  rcases hv with rfl | rfl
  · exact viewEncBlock_v1 b.auths b.ct b.final ha hl val h
  · exact viewEncBlock_v2 b.auths b.ct b.final ha hl val h

/-- the payload bytes are the concatenated encodings of well-formed values whose
    views are the blocks (as read) -/
theorem enc_body (v : Version) (hv : v = v1 ∨ v = v2) :
    ∀ (blks : List EncBlock) (body : Bytes),
      (∀ b ∈ blks, b.auths ≠ [] ∧ b.auths.length < 2 ^ 32 ∧ (∀ a ∈ b.auths, a.length = 32) ∧
        b.ct.length < 2 ^ 32) →
      Encrypt.encodeBlocks v blks = .ok body →
      ∃ vals : List Val, body = vals.flatMap encode ∧ (∀ x ∈ vals, ValWF x) ∧
        vals.map (viewEncBlock v.major) = (blks.map (encAsRead v)).map some := by
  intro blks
  induction blks with
  | nil =>
    intro body _ h
    simp only [Encrypt.encodeBlocks, Except.ok.injEq] at h
    subst h
    exact ⟨[], rfl, by simp, rfl⟩
  | cons b bl ih =>
    intro body hp h
    simp only [Encrypt.encodeBlocks] at h
    split at h
    · rename_i val rest hval hrest
      simp only [Except.ok.injEq] at h
      subst h
      obtain ⟨vals, h1, h2, h3⟩ := ih rest (fun x hx => hp x (by simp [hx])) hrest
      obtain ⟨pa, pl, p32, pc⟩ := hp b (by simp)
      refine ⟨val :: vals, by rw [List.flatMap_cons, h1], ?_, ?_⟩
      · intro x hx
        rcases List.mem_cons.1 hx with rfl | hx
        · exact encBlockVal_wf v b.auths b.ct b.final _ hval pl
            (fun a ha => by rw [p32 a ha]; decide) pc
        · exact h2 x hx
      · rw [List.map_cons, List.map_cons, List.map_cons, h3, viewEncBlock_asRead v hv b pa p32 val hval]
    · cases h
    · cases h

/-- sizes of the packets `blockStructs` builds -/
theorem enc_blockStructs_sizes (P : Prims) (hS : WireSizes P) (v : Version) (pk hh : Bytes) (mks : List Bytes) :
    ∀ (plan : List (Bytes × Bool)) (k : Nat) (blks : List EncBlock),
      Encrypt.blockStructs P v pk hh mks plan k = .ok blks →
      ∀ b ∈ blks, b.auths.length = mks.length ∧ (∀ a ∈ b.auths, a.length = 32) ∧
        ∃ p ∈ plan, b.ct.length = p.1.length + 16 := by
  intro plan
  induction plan with
  | nil =>
    intro k blks h
    simp only [Encrypt.blockStructs, Except.ok.injEq] at h
    subst h
    simp
  | cons p plan ih =>
    intro k blks h
    obtain ⟨c, f⟩ := p
    simp only [Encrypt.blockStructs] at h
    split at h
    · rename_i b0 bs0 hb0 hbs0
      simp only [Except.ok.injEq] at h
      subst h
      intro b hb
      rcases List.mem_cons.1 hb with rfl | hb
      · unfold Encrypt.blockStruct at hb0
        split at hb0
        · cases hb0
        · simp only [] at hb0
          split at hb0
          · cases hb0
          · simp only [Except.ok.injEq] at hb0
            subst hb0
            refine ⟨by simp, ?_, (c, f), by simp, hS.sb_len _ _ _⟩
            intro a ha
            simp only [List.mem_map] at ha
            obtain ⟨mk, _, rfl⟩ := ha
            simp only [payloadAuthenticator, List.length_take]
            exact Nat.min_eq_left (hS.hmac_len _ _)
      · obtain ⟨h1, h2, p', hp', h3⟩ := ih (k + 1) bs0 hbs0 b hb
        exact ⟨h1, h2, p', by simp [hp'], h3⟩
    · cases h
    · cases h

theorem sealPackets_version (P : Prims) (bs : Nat) (v : Version) (sender : Option Bytes)
    (rs : List Encrypt.Recipient) (eph pk pt : Bytes) (x : EncHeader × Bytes × List EncBlock)
    (hs : Encrypt.sealPackets P bs v sender rs eph pk pt = .ok x) : v = v1 ∨ v = v2 := by
  unfold Encrypt.sealPackets at hs
  split at hs
  · cases hs
  · rename_i hk
    by_cases h1 : v = v1
    · exact Or.inl h1
    · right
      by_cases h2 : v = v2
      · exact h2
      · simp [knownVersion, h1, h2] at hk

theorem sealPackets_hb (P : Prims) (bs : Nat) (v : Version) (sender : Option Bytes)
    (rs : List Encrypt.Recipient) (eph pk pt : Bytes) (h : EncHeader) (hb : Bytes) (blks : List EncBlock)
    (hs : Encrypt.sealPackets P bs v sender rs eph pk pt = .ok (h, hb, blks)) : hb = encode h.toVal := by
  unfold Encrypt.sealPackets at hs
  split at hs
  · cases hs
  · split at hs
    · cases hs
    · split at hs
      · cases hs
      · simp only [] at hs
        split at hs
        · cases hs
        · split at hs
          · cases hs
          · cases hs
            rfl

theorem checkReceivers_count {rs : List Encrypt.Recipient} (h : Encrypt.checkReceivers rs = .ok ()) :
    rs.length < 2 ^ 32 := by
  unfold Encrypt.checkReceivers at h
  have h2 : Gen.c_sp_maxReceiverCount.toNat = 4294967295 := by decide
  split at h
  · cases h
  · split at h
    · cases h
    · rename_i hn
      rw [h2] at hn
      omega

/-! ### encoded lengths (to bound the header bytes) -/

theorem encBinHdr_len (n : Nat) : (encBinHdr n).length ≤ 5 := by
  unfold encBinHdr; repeat' split
  all_goals simp [beN_length]
theorem encStrHdr_len (n : Nat) : (encStrHdr n).length ≤ 5 := by
  unfold encStrHdr; repeat' split
  all_goals simp [beN_length]
theorem encArrayHdr_len (n : Nat) : (encArrayHdr n).length ≤ 5 := by
  unfold encArrayHdr; repeat' split
  all_goals simp [beN_length]
theorem encUInt_len (n : Nat) : (encUInt n).length ≤ 9 := by
  unfold encUInt; repeat' split
  all_goals simp [beN_length]
theorem encInt_len (i : Int) : (encInt i).length ≤ 9 := by
  unfold encInt; repeat' split
  all_goals first | exact encUInt_len _ | simp [beN_length]

theorem encode_bin_len (b : Bytes) : (encode (.bin b)).length ≤ b.length + 5 := by
  rw [encode, encBin, List.length_append]; have := encBinHdr_len b.length; omega
theorem encode_str_len (b : Bytes) : (encode (.str b)).length ≤ b.length + 5 := by
  rw [encode, encStr, List.length_append]; have := encStrHdr_len b.length; omega
theorem encode_int_len (i : Int) : (encode (.int i)).length ≤ 9 := by
  rw [encode]; exact encInt_len i
theorem encode_arr_len (l : List Val) : (encode (.arr l)).length ≤ 5 + (encode.encodeList l).length := by
  rw [encode, List.length_append]; have := encArrayHdr_len l.length; omega

theorem encodeList_map_len {α : Type} (f : α → Val) (K : Nat) :
    ∀ l : List α, (∀ x ∈ l, (encode (f x)).length ≤ K) →
      (encode.encodeList (l.map f)).length ≤ l.length * K := by
  intro l
  induction l with
  | nil => intro _; simp [encodeList_nil]
  | cons a l ih =>
    intro h
    rw [List.map_cons, encodeList_cons, List.length_append, List.length_cons, Nat.succ_mul]
    have h1 := h a (by simp)
    have h2 := ih (fun x hx => h x (by simp [hx]))
    omega

theorem recvKeys_len (r : RecvKeys) (L : Nat) (hb : r.box.length ≤ 48)
    (hk : ∀ k, r.kid = some k → k.length ≤ L) : (encode r.toVal).length ≤ L + 63 := by
  have h0 := encode_arr_len [optBin r.kid, .bin r.box]
  have h1 := encode_bin_len r.box
  have h2 : (encode (optBin r.kid)).length ≤ L + 5 := by
    cases hkid : r.kid with
    | none => simp [optBin, encode, encNil]
    | some k => have := encode_bin_len k; have := hk k hkid; simp only [optBin]; omega
  rw [RecvKeys.toVal]
  simp only [encodeList_cons, encodeList_nil, List.length_append, List.length_nil] at h0
  omega

theorem version_len (v : Version) : (encode v.toVal).length ≤ 23 := by
  have h0 := encode_arr_len [.int v.major, .int v.minor]
  have h1 := encode_int_len v.major
  have h2 := encode_int_len v.minor
  rw [Version.toVal]
  simp only [encodeList_cons, encodeList_nil, List.length_append, List.length_nil] at h0
  omega

/-- an encryption / signcryption header with fields of the real sizes encodes
    to at most `145 + n·(L + 63)` bytes (`L` bounds the key ids) -/
theorem encHeader_len (h : EncHeader) (L : Nat) (h1 : h.formatName.length ≤ 8)
    (h2 : h.ephemeral.length ≤ 32) (h3 : h.senderSecretbox.length ≤ 48)
    (h5 : ∀ r ∈ h.receivers, r.box.length ≤ 48 ∧ ∀ k, r.kid = some k → k.length ≤ L) :
    (encode h.toVal).length ≤ 145 + h.receivers.length * (L + 63) := by
  have hr := encodeList_map_len RecvKeys.toVal (L + 63) h.receivers
    (fun r hr => recvKeys_len r L (h5 r hr).1 (h5 r hr).2)
  have h0 := encode_arr_len [.str h.formatName, h.version.toVal, .int h.typ, .bin h.ephemeral,
    .bin h.senderSecretbox, .arr (h.receivers.map RecvKeys.toVal)]
  have ha := encode_str_len h.formatName
  have hb := version_len h.version
  have hc := encode_int_len h.typ
  have hd := encode_bin_len h.ephemeral
  have he := encode_bin_len h.senderSecretbox
  have hf := encode_arr_len (h.receivers.map RecvKeys.toVal)
  rw [EncHeader.toVal]
  simp only [encodeList_cons, encodeList_nil, List.length_append, List.length_nil] at h0
  omega

/-! ### encryption: the header -/

theorem enc_header_sizes (P : Prims) (hS : WireSizes P) {v : Version} (hv : v = v1 ∨ v = v2)
    (sender : Option Bytes) (eph pk : Bytes) (rs : List Encrypt.Recipient) (h : EncHeader)
    (hh : Encrypt.header P v sender eph pk rs = .ok h) (L : Nat) (hpub : ∀ r ∈ rs, r.pub.length ≤ L) :
    h.formatName.length = 8 ∧ h.version = v ∧ h.typ = mtEncryption ∧ h.ephemeral.length = 32 ∧
    h.senderSecretbox.length = 48 ∧ h.receivers.length = rs.length ∧
    ∀ r ∈ h.receivers, r.box.length = pk.length + 16 ∧ ∀ k, r.kid = some k → k.length ≤ L := by
  obtain ⟨h1, h2, h3, h4, h5, h6, h7, _⟩ := header_spec P hv sender eph pk rs h hh
  refine ⟨by rw [h1]; rfl, h2, h3, by rw [h4, hS.pub_len], by rw [h5, hS.sb_len, hS.pub_len], h6, ?_⟩
  intro r hr
  obtain ⟨j, hj, hrj⟩ := List.getElem_of_mem hr
  have hj' : j < rs.length := by omega
  obtain ⟨n, _, hn⟩ := h7 j hj'
  rw [List.getElem?_eq_getElem hj, hrj] at hn
  cases hn
  refine ⟨by simp only [Prims.box, hS.sb_len], ?_⟩
  intro k hk
  obtain ⟨_, hk'⟩ := kidSpec_visible hk
  rw [← hk']
  exact hpub _ (List.getElem_mem hj')

end WireRT
open WireRT

/-! ## encryption -/

/-- **Encryption, bytes → structures.**  What `Encrypt.sealWith` emits splits
    into exactly the header and the packets `sealPackets` built (V1 packets as
    read: no final flag). -/
theorem wire_enc (P : Prims) (hS : WireSizes P) (bs : Nat) (hbs : 0 < bs) (hbs32 : bs + 16 < 2 ^ 32)
    (v : Version) (sender : Option Bytes) (rs : List Encrypt.Recipient) (eph pk pt : Bytes)
    (hpk : pk.length + 16 < 2 ^ 32) (hpub : ∀ r ∈ rs, r.pub.length < 2 ^ 32)
    (h : EncHeader) (hb : Bytes) (blks : List EncBlock) (body : Bytes)
    (hs : Encrypt.sealPackets P bs v sender rs eph pk pt = .ok (h, hb, blks))
    (he : Encrypt.encodeBlocks v blks = .ok body)
    (hhb : hb.length < 2 ^ 32) :
    Wire.splitEnc (headerPacket hb ++ body) =
      .ok (.ok hb h, ⟨(blks.map (encAsRead v)).map some, .eof⟩) := by
  have hv := sealPackets_version P bs v sender rs eph pk pt _ hs
  have hhbe := sealPackets_hb P bs v sender rs eph pk pt h hb blks hs
  obtain ⟨hcr, hhdr, mks, hm, hbl⟩ := sealPackets_inv P bs v sender rs eph pk pt h hb blks hs
  obtain ⟨hne, _⟩ := checkReceivers_inv hcr
  have hcount := checkReceivers_count hcr
  obtain ⟨mks', hm', hmlen, _⟩ := macKeysSender_spec P hv (sender.getD eph) eph (P.hash hb) rs 0
  rw [hm] at hm'
  cases hm'
  obtain ⟨s1, s2, s3, s4, s5, s6, s7⟩ := enc_header_sizes P hS hv sender eph pk rs h hhdr (2 ^ 32 - 1)
    (fun r hr => by have := hpub r hr; omega)
  have hwf : ValWF h.toVal := by
    apply encHeader_wf h (by omega) (by omega) (by omega) (by omega)
    · intro r hr
      obtain ⟨a, b⟩ := s7 r hr
      exact ⟨by omega, fun k hk => by have := b k hk; omega⟩
    · rw [s2]; rcases hv with rfl | rfl <;> decide
    · rw [s2]; rcases hv with rfl | rfl <;> decide
    · rw [s3]; decide
  have hsz := enc_blockStructs_sizes P hS v pk (P.hash hb) mks _ 0 blks hbl
  have hrspos : 0 < rs.length := List.length_pos_iff.mpr hne
  obtain ⟨vals, hbody, hvals, hviews⟩ := enc_body v hv blks body (by
    intro b hb'
    obtain ⟨a1, a2, p, hp, a3⟩ := hsz b hb'
    have := chunkPlan_size v bs hbs pt p hp
    refine ⟨?_, by omega, a2, by omega⟩
    intro h0
    rw [h0] at a1
    simp at a1
    omega) he
  subst hhbe hbody
  unfold Wire.splitEnc
  exact split_encoded viewEncHeader (fun h => viewEncBlock h.version.major) h.toVal hwf h
    (viewEncHeader_toVal h) hhb vals hvals (blks.map (encAsRead v)) (by simp only [s2]; exact hviews)

/-- `sealWith` is the header packet followed by the encoded packets of
    `sealPackets` (pure unfolding) -/
theorem seal_bytes_are_packets_enc (P : Prims) (bs : Nat) (v : Version) (sender : Option Bytes)
    (rs : List Encrypt.Recipient) (eph pk pt msg : Bytes)
    (hmsg : Encrypt.sealWith P bs v sender rs eph pk pt = .ok msg) :
    ∃ h hb blks body, Encrypt.sealPackets P bs v sender rs eph pk pt = .ok (h, hb, blks) ∧
      Encrypt.encodeBlocks v blks = .ok body ∧ msg = headerPacket hb ++ body := by
  unfold Encrypt.sealWith at hmsg
  split at hmsg
  · cases hmsg
  · rename_i h hb blks hs
    split at hmsg
    · cases hmsg
    · rename_i body he
      cases hmsg
      exact ⟨h, hb, blks, body, hs, he, rfl⟩

namespace WireRT

theorem endOfStream_map {β : Type} (f : β → β) (l : List β) (tail : Tail) :
    Decrypt.endOfStream ((l.map f).map some) tail = Decrypt.endOfStream (l.map some) tail := by
  cases l <;> rfl

/-- the decryptor ignores the `final` field of major-1 packets -/
theorem dec_run_asRead (P : Prims) (st : Decrypt.State) (tail : Tail) :
    ∀ (blks : List EncBlock) (n : Nat),
      Decrypt.run P st ((blks.map (encAsRead st.version)).map some) tail n =
        Decrypt.run P st (blks.map some) tail n := by
  by_cases h1 : st.version.major = 1
  · intro blks
    induction blks with
    | nil => intro n; rfl
    | cons b bl ih =>
      intro n
      have hf : Decrypt.blockFinal st.version (encAsRead st.version b) = Decrypt.blockFinal st.version b := by
        simp [Decrypt.blockFinal, h1, encAsRead]
      have hp : ∀ f, Decrypt.processBlock P st (encAsRead st.version b) f n = Decrypt.processBlock P st b f n := by
        intro f
        simp [Decrypt.processBlock, encAsRead, h1]
      simp only [List.map_cons, Decrypt.run, hf, hp, ih, endOfStream_map]
  · intro blks n
    have : blks.map (encAsRead st.version) = blks := by
      have : encAsRead st.version = id := by
        funext b
        simp [encAsRead, h1]
      rw [this, List.map_id]
    rw [this]

theorem processHeader_version (P : Prims) (valid : Validator) (kr : Keyring) (hh : Bytes) (h : EncHeader)
    (log : List KeyCall) (st : Decrypt.State)
    (hp : Decrypt.processHeader P valid kr hh h = (log, .ok st)) : st.version = h.version := by
  unfold Decrypt.processHeader at hp
  repeat' (split at hp)
  all_goals try (cases hp; done)
  all_goals (simp only [] at hp)
  all_goals repeat' (split at hp)
  all_goals try (cases hp; done)
  all_goals (simp only [Prod.mk.injEq, Except.ok.injEq] at hp; obtain ⟨_, rfl⟩ := hp; rfl)

/-- opening the packets as read = opening the sender's structures -/
theorem openAll_asRead (P : Prims) (valid : Validator) (kr : Keyring) (hb : Bytes) (h : EncHeader)
    (blks : List EncBlock) (tail : Tail) :
    Decrypt.openAll P valid kr (.ok hb h) ⟨(blks.map (encAsRead h.version)).map some, tail⟩ =
      Decrypt.openAll P valid kr (.ok hb h) ⟨blks.map some, tail⟩ := by
  cases hph : Decrypt.processHeader P valid kr (P.hash hb) h with
  | mk log r =>
    cases r with
    | error e => simp only [Decrypt.openAll, Decrypt.openStream, hph]
    | ok st =>
      have := processHeader_version P valid kr _ h log st hph
      simp only [Decrypt.openAll, Decrypt.openStream, hph]
      rw [← this, dec_run_asRead]

/-- the header bytes fit a `bin32` when the recipient list is not absurdly long -/
theorem enc_header_small (P : Prims) (hS : WireSizes P) {v : Version} (hv : v = v1 ∨ v = v2)
    (sender : Option Bytes) (eph pk : Bytes) (hpk : pk.length = 32) (rs : List Encrypt.Recipient) (h : EncHeader)
    (hh : Encrypt.header P v sender eph pk rs = .ok h) (L : Nat) (hpub : ∀ r ∈ rs, r.pub.length ≤ L)
    (hsmall : 145 + rs.length * (L + 63) < 2 ^ 32) : (encode h.toVal).length < 2 ^ 32 := by
  obtain ⟨s1, _, _, s4, s5, s6, s7⟩ := enc_header_sizes P hS hv sender eph pk rs h hh L hpub
  have := encHeader_len h L (by omega) (by omega) (by omega)
    (fun r hr => ⟨by rw [(s7 r hr).1]; omega, (s7 r hr).2⟩)
  rw [s6] at this
  omega

end WireRT

/-- **C01 at byte level.**  The bytes `Encrypt.sealWith` emits, split by the
    receiver's MessagePack reader and opened by recipient `i`, give exactly the
    plaintext and the key information of the structure-level theorem
    `enc_roundtrip`.  Added hypotheses (sizes only): `bs + 16 < 2^32` (a chunk's
    ciphertext fits a `bin32`), key ids of at most `L` bytes and
    `145 + n·(L+63) < 2^32` (the header bytes fit a `bin32`; `L = 32` allows
    45 million recipients). -/
theorem enc_roundtrip_bytes (P : Prims) (hP : P.Lawful) (bs : Nat) (hbs : 0 < bs) (hbs32 : bs + 16 < 2 ^ 32)
    (v : Version) (hv : v = v1 ∨ v = v2)
    (sender : Option Bytes) (rs : List Encrypt.Recipient) (eph payloadKey pt : Bytes)
    (hpk : payloadKey.length = 32)
    (hnamed : ∀ s, sender = some s → P.boxPub s ≠ P.boxPub eph)
    (hpub : ∀ r ∈ rs, r.hidden = false → r.pub ≠ [])
    (hblocks : (Encrypt.chunkPlan v bs pt).length < 2 ^ 64 - 1)
    (i : Nat) (hi : i < rs.length) (sk : Bytes) (hsk : (rs.getD i default).pub = P.boxPub sk)
    (hns : NoSpuriousOpen P v eph payloadKey rs i sk)
    (L : Nat) (hL : ∀ r ∈ rs, r.pub.length ≤ L) (hsmall : 145 + rs.length * (L + 63) < 2 ^ 32)
    (msg : Bytes) (hmsg : Encrypt.sealWith P bs v sender rs eph payloadKey pt = .ok msg) :
    ∃ hr ps, Wire.splitEnc msg = .ok (hr, ps) ∧
      Decrypt.openAll P knownMajor (faithfulKeyring P [sk]) hr ps =
        .ok ({ senderKey := P.boxPub (sender.getD eph), senderIsAnon := sender.isNone,
               receiverKey := sk, receiverIsAnon := (rs.getD i default).hidden,
               namedReceivers := (rs.filter (fun r => !r.hidden)).map (·.pub),
               numAnonReceivers := if (rs.getD i default).hidden then (rs.filter (·.hidden)).length else 0 }, pt) := by
  obtain ⟨h, hb, blks, body, hs, he, rfl⟩ := seal_bytes_are_packets_enc P bs v sender rs eph payloadKey pt msg hmsg
  have hS := WireSizes.of_lawful hP
  obtain ⟨_, hhdr, _, _, _⟩ := sealPackets_inv P bs v sender rs eph payloadKey pt h hb blks hs
  have hhbe := sealPackets_hb P bs v sender rs eph payloadKey pt h hb blks hs
  have hhb : hb.length < 2 ^ 32 := by
    rw [hhbe]
    exact enc_header_small P hS hv sender eph payloadKey hpk rs h hhdr L hL hsmall
  have hver : h.version = v := (header_spec P hv sender eph payloadKey rs h hhdr).2.1
  have hL' : ∀ r ∈ rs, r.pub.length < 2 ^ 32 := by
    intro r hr
    have := hL r hr
    have : 0 < rs.length := List.length_pos_iff.mpr (List.ne_nil_of_mem hr)
    have : 1 * (L + 63) ≤ rs.length * (L + 63) := Nat.mul_le_mul_right _ this
    omega
  refine ⟨_, _, wire_enc P hS bs hbs hbs32 v sender rs eph payloadKey pt (by omega) hL' h hb blks body hs he hhb, ?_⟩
  rw [← hver, openAll_asRead]
  exact enc_roundtrip P hP bs hbs v hv sender rs eph payloadKey pt hpk hnamed hpub hblocks i hi sk hsk hns h hb blks hs

/-! ## signcryption -/

namespace WireRT
open RTSig

theorem sc_checkReceivers_count {rs : List Signcrypt.Recipient} (h : Signcrypt.checkReceivers rs [] = .ok ()) :
    rs.length < 2 ^ 32 := by
  unfold Signcrypt.checkReceivers at h
  have h2 : Gen.c_sp_maxReceiverCount.toNat = 4294967295 := by decide
  simp only [List.append_nil] at h
  split at h
  · cases h
  · split at h
    · cases h
    · rename_i hn
      rw [h2] at hn
      omega

theorem sc_entries_sizes (P : Prims) (hS : WireSizes P) (eph pk : Bytes) (L : Nat) (hL32 : 32 ≤ L) :
    ∀ (rs : List Signcrypt.Recipient) (n : Nat),
      (∀ key ident, Signcrypt.Recipient.sym key ident ∈ rs → ident.length ≤ L) →
      ∀ r ∈ Signcrypt.receiverEntries P eph pk rs n,
        r.box.length = pk.length + 16 ∧ ∀ k, r.kid = some k → k.length ≤ L := by
  intro rs
  induction rs with
  | nil => intro n _ r hr; simp [Signcrypt.receiverEntries] at hr
  | cons a rt ih =>
    intro n hid r hr
    simp only [Signcrypt.receiverEntries, List.mem_cons] at hr
    rcases hr with rfl | hr
    · cases a with
      | box pub =>
        refine ⟨by simp only [Signcrypt.receiverEntry, hS.sb_len], ?_⟩
        intro k hk
        simp only [Signcrypt.receiverEntry, Option.some.injEq] at hk
        subst hk
        have := List.length_take_le 32
          (P.hmac Gen.c_sp_signcryptionBoxKeyIdentifierContext
            (Signcrypt.derivedKeyFromBoxKeys P pub eph ++ Nonce.payloadKeyBoxV2 n))
        simp only [Signcrypt.keyIdentifier]
        omega
      | sym key ident =>
        refine ⟨by simp only [Signcrypt.receiverEntry, hS.sb_len], ?_⟩
        intro k hk
        simp only [Signcrypt.receiverEntry, Option.some.injEq] at hk
        subst hk
        exact hid key _ (by simp)
    · exact ih (n + 1) (fun key ident hm => hid key ident (by simp [hm])) r hr

theorem sc_header_sizes (P : Prims) (hS : WireSizes P) (sender : Option Bytes) (eph pk : Bytes)
    (rs : List Signcrypt.Recipient) (L : Nat) (hL32 : 32 ≤ L)
    (hid : ∀ key ident, Signcrypt.Recipient.sym key ident ∈ rs → ident.length ≤ L) :
    let h := Signcrypt.header P sender eph pk rs
    h.formatName.length = 8 ∧ h.version = v2 ∧ h.typ = mtSigncryption ∧ h.ephemeral.length = 32 ∧
    h.senderSecretbox.length = 48 ∧ h.receivers.length = rs.length ∧
    ∀ r ∈ h.receivers, r.box.length = pk.length + 16 ∧ ∀ k, r.kid = some k → k.length ≤ L := by
  intro h
  refine ⟨rfl, rfl, rfl, hS.pub_len _, ?_, receiverEntries_length P eph pk rs 0,
    sc_entries_sizes P hS eph pk L hL32 rs 0 hid⟩
  show (P.sbSeal _ _ _).length = 48
  rw [hS.sb_len]
  cases sender with
  | none => simp [zeros]
  | some s => simp [hS.sigPub_len]

theorem sc_blockStructs_sizes (P : Prims) (hS : WireSizes P) (sender : Option Bytes) (pk hh : Bytes) :
    ∀ (plan : List (Bytes × Bool)) (k : Nat) (blks : List SigncryptBlock),
      Signcrypt.blockStructs P sender pk hh plan k = .ok blks →
      ∀ b ∈ blks, ∃ p ∈ plan, b.ct.length = p.1.length + 80 := by
  intro plan
  induction plan with
  | nil =>
    intro k blks h
    simp only [Signcrypt.blockStructs, Except.ok.injEq] at h
    subst h
    simp
  | cons p plan ih =>
    intro k blks h
    obtain ⟨c, f⟩ := p
    simp only [Signcrypt.blockStructs] at h
    split at h
    · rename_i b0 bs0 hb0 hbs0
      simp only [Except.ok.injEq] at h
      subst h
      intro b hb
      rcases List.mem_cons.1 hb with rfl | hb
      · unfold Signcrypt.blockStruct at hb0
        split at hb0
        · cases hb0
        · simp only [Except.ok.injEq] at hb0
          subst hb0
          refine ⟨(c, f), by simp, ?_⟩
          simp only [hS.sb_len, List.length_append]
          cases sender with
          | none => simp [zeros]; omega
          | some s => simp only [hS.sig_len]; omega
      · obtain ⟨p', hp', h3⟩ := ih (k + 1) bs0 hbs0 b hb
        exact ⟨p', by simp [hp'], h3⟩
    · cases h
    · cases h

theorem sc_body (blks : List SigncryptBlock) :
    Signcrypt.encodeBlocks blks = (blks.map (fun b => signcryptBlockVal b.ct b.final)).flatMap encode := by
  induction blks with
  | nil => rfl
  | cons b bl ih =>
    simp only [Signcrypt.encodeBlocks, List.flatMap_cons, List.map_cons] at ih ⊢
    rw [ih]

theorem sc_views (blks : List SigncryptBlock) :
    (blks.map (fun b => signcryptBlockVal b.ct b.final)).map viewSigncryptBlock = blks.map some := by
  induction blks with
  | nil => rfl
  | cons b bl ih =>
    rw [List.map_cons, List.map_cons, List.map_cons, ih, viewSigncryptBlock_val]

end WireRT
open WireRT

/-- **Signcryption, bytes → structures.** -/
theorem wire_signcrypt (P : Prims) (hS : WireSizes P) (bs : Nat) (hbs : 0 < bs) (hbs32 : bs + 80 < 2 ^ 32)
    (sender : Option Bytes) (rs : List Signcrypt.Recipient) (eph pk pt : Bytes)
    (hpk : pk.length + 16 < 2 ^ 32)
    (hid : ∀ key ident, Signcrypt.Recipient.sym key ident ∈ rs → ident.length < 2 ^ 32)
    (h : EncHeader) (hb : Bytes) (blks : List SigncryptBlock)
    (hs : Signcrypt.sealPackets P bs sender rs eph pk pt = .ok (h, hb, blks))
    (hhb : hb.length < 2 ^ 32) :
    Wire.splitSigncrypt (headerPacket hb ++ Signcrypt.encodeBlocks blks) =
      .ok (.ok hb h, ⟨blks.map some, .eof⟩) := by
  obtain ⟨hh, hhbe, hbl⟩ := RTSig.sc_sealPackets_inv P bs sender rs eph pk pt h hb blks hs
  have hcount : rs.length < 2 ^ 32 := by
    unfold Signcrypt.sealPackets at hs
    split at hs
    · cases hs
    · rename_i hcr
      exact sc_checkReceivers_count hcr
  obtain ⟨s1, s2, s3, s4, s5, s6, s7⟩ := sc_header_sizes P hS sender eph pk rs (2 ^ 32 - 1) (by decide)
    (fun key ident hm => by have := hid key ident hm; omega)
  rw [← hh] at s1 s2 s3 s4 s5 s6 s7
  have hwf : ValWF h.toVal := by
    apply encHeader_wf h (by omega) (by omega) (by omega) (by omega)
    · intro r hr
      obtain ⟨a, b⟩ := s7 r hr
      exact ⟨by omega, fun k hk => by have := b k hk; omega⟩
    · rw [s2]; decide
    · rw [s2]; decide
    · rw [s3]; decide
  have hsz := sc_blockStructs_sizes P hS sender pk (P.hash hb) _ 0 blks hbl
  have hvals : ∀ x ∈ blks.map (fun b => signcryptBlockVal b.ct b.final), ValWF x := by
    intro x hx
    rw [List.mem_map] at hx
    obtain ⟨b, hb', rfl⟩ := hx
    obtain ⟨p, hp, a3⟩ := hsz b hb'
    have := chunkPlan_size v2 bs hbs pt p hp
    apply ValWF.arr _ (by simp)
    intro y hy
    simp only [List.mem_cons, List.not_mem_nil, or_false] at hy
    rcases hy with rfl | rfl
    · exact ValWF.bin _ (by omega)
    · exact ValWF.bool _
  subst hhbe
  rw [sc_body]
  unfold Wire.splitSigncrypt
  exact split_encoded viewEncHeader (fun _ => viewSigncryptBlock) h.toVal hwf h
    (viewEncHeader_toVal h) hhb _ hvals blks (sc_views blks)

theorem seal_bytes_are_packets_signcrypt (P : Prims) (bs : Nat) (sender : Option Bytes)
    (rs : List Signcrypt.Recipient) (eph pk pt msg : Bytes)
    (hmsg : Signcrypt.sealWith P bs sender rs eph pk pt = .ok msg) :
    ∃ h hb blks, Signcrypt.sealPackets P bs sender rs eph pk pt = .ok (h, hb, blks) ∧
      msg = headerPacket hb ++ Signcrypt.encodeBlocks blks := by
  unfold Signcrypt.sealWith at hmsg
  split at hmsg
  · cases hmsg
  · rename_i h hb blks hs
    cases hmsg
    exact ⟨h, hb, blks, hs, rfl⟩

namespace WireRT

theorem sc_header_small (P : Prims) (hS : WireSizes P) (sender : Option Bytes) (eph pk : Bytes)
    (hpk : pk.length = 32) (rs : List Signcrypt.Recipient) (L : Nat) (hL32 : 32 ≤ L)
    (hid : ∀ key ident, Signcrypt.Recipient.sym key ident ∈ rs → ident.length ≤ L)
    (hsmall : 145 + rs.length * (L + 63) < 2 ^ 32) :
    (encode (Signcrypt.header P sender eph pk rs).toVal).length < 2 ^ 32 := by
  obtain ⟨s1, _, _, s4, s5, s6, s7⟩ := sc_header_sizes P hS sender eph pk rs L hL32 hid
  have := encHeader_len (Signcrypt.header P sender eph pk rs) L (by omega) (by omega) (by omega)
    (fun r hr => ⟨by rw [(s7 r hr).1]; omega, (s7 r hr).2⟩)
  rw [s6] at this
  omega

/-- common part of the two signcryption corollaries -/
theorem sc_bytes_split (P : Prims) (hP : P.Lawful) (bs : Nat) (hbs : 0 < bs) (hbs32 : bs + 80 < 2 ^ 32)
    (sender : Option Bytes) (rs : List Signcrypt.Recipient) (eph payloadKey pt : Bytes)
    (hpk : payloadKey.length = 32)
    (L : Nat) (hL32 : 32 ≤ L)
    (hid : ∀ key ident, Signcrypt.Recipient.sym key ident ∈ rs → ident.length ≤ L)
    (hsmall : 145 + rs.length * (L + 63) < 2 ^ 32)
    (msg : Bytes) (hmsg : Signcrypt.sealWith P bs sender rs eph payloadKey pt = .ok msg) :
    ∃ hb blks, Signcrypt.sealPackets P bs sender rs eph payloadKey pt =
        .ok (Signcrypt.header P sender eph payloadKey rs, hb, blks) ∧
      Wire.splitSigncrypt msg = .ok (.ok hb (Signcrypt.header P sender eph payloadKey rs), ⟨blks.map some, .eof⟩) := by
  obtain ⟨h, hb, blks, hs, rfl⟩ := seal_bytes_are_packets_signcrypt P bs sender rs eph payloadKey pt msg hmsg
  have hS := WireSizes.of_lawful hP
  obtain ⟨hh, hhbe, _⟩ := RTSig.sc_sealPackets_inv P bs sender rs eph payloadKey pt h hb blks hs
  subst hh
  have hhb : hb.length < 2 ^ 32 := by
    rw [hhbe]
    exact sc_header_small P hS sender eph payloadKey hpk rs L hL32 hid hsmall
  have hid' : ∀ key ident, Signcrypt.Recipient.sym key ident ∈ rs → ident.length < 2 ^ 32 := by
    intro key ident hm
    have := hid key ident hm
    have : 0 < rs.length := List.length_pos_iff.mpr (List.ne_nil_of_mem hm)
    have : 1 * (L + 63) ≤ rs.length * (L + 63) := Nat.mul_le_mul_right _ this
    omega
  exact ⟨hb, blks, hs, wire_signcrypt P hS bs hbs hbs32 sender rs eph payloadKey pt (by omega) hid' _ hb blks hs hhb⟩

end WireRT

/-- **C03 at byte level, box-key recipient** (`sc_roundtrip_box` on the emitted
    bytes).  Added hypotheses (sizes only): `bs + 80 < 2^32`, symmetric-key
    identifiers of at most `L ≥ 32` bytes, `145 + n·(L+63) < 2^32`. -/
theorem sc_roundtrip_box_bytes (P : Prims) (hP : P.Lawful) (bs : Nat) (hbs : 0 < bs) (hbs32 : bs + 80 < 2 ^ 32)
    (sender : Option Bytes) (rs : List Signcrypt.Recipient) (eph payloadKey pt : Bytes)
    (hpk : payloadKey.length = 32)
    (hsender : ∀ s, sender = some s → ¬ ((P.sigPub s).all (· == 0)))
    (hblocks : (Encrypt.chunkPlan v2 bs pt).length < 2 ^ 64 - 1)
    (i : Nat) (hi : i < rs.length) (sk : Bytes) (hsk : rs.getD i default = .box (P.boxPub sk))
    (hnc : ∀ j, j < i → Signcrypt.keyIdentifier P (Signcrypt.derivedKeyFromBoxKeys P (P.boxPub eph) sk) j ≠
        Decrypt.kidOf ((Signcrypt.header P sender eph payloadKey rs).receivers.getD j default))
    (L : Nat) (hL32 : 32 ≤ L)
    (hid : ∀ key ident, Signcrypt.Recipient.sym key ident ∈ rs → ident.length ≤ L)
    (hsmall : 145 + rs.length * (L + 63) < 2 ^ 32)
    (msg : Bytes) (hmsg : Signcrypt.sealWith P bs sender rs eph payloadKey pt = .ok msg) :
    ∃ hr ps, Wire.splitSigncrypt msg = .ok (hr, ps) ∧
      Signcrypt.openAll P (faithfulKeyring P [sk]) none hr ps = .ok (sender.map P.sigPub, pt) := by
  obtain ⟨hb, blks, hs, hsplit⟩ := sc_bytes_split P hP bs hbs hbs32 sender rs eph payloadKey pt hpk L hL32 hid
    hsmall msg hmsg
  exact ⟨_, _, hsplit, sc_roundtrip_box P hP bs hbs sender rs eph payloadKey pt hpk hsender hblocks i hi sk hsk
    _ hb blks hs hnc⟩

/-- **C03 at byte level, symmetric-key recipients** (`sc_roundtrip_sym` on the
    emitted bytes) -/
theorem sc_roundtrip_sym_bytes (P : Prims) (hP : P.Lawful) (bs : Nat) (hbs : 0 < bs) (hbs32 : bs + 80 < 2 ^ 32)
    (sender : Option Bytes) (rs : List Signcrypt.Recipient) (eph payloadKey pt : Bytes)
    (hpk : payloadKey.length = 32)
    (hsender : ∀ s, sender = some s → ¬ ((P.sigPub s).all (· == 0)))
    (hblocks : (Encrypt.chunkPlan v2 bs pt).length < 2 ^ 64 - 1)
    (f : List Bytes → Except Err (List (Option Bytes))) (keys : List (Option Bytes))
    (hf : f ((Signcrypt.header P sender eph payloadKey rs).receivers.map Decrypt.kidOf) = .ok keys)
    (hlen : keys.length = rs.length)
    (htrue : ∀ (j : Nat) (k : Bytes), keys[j]? = some (some k) → ∃ ident, rs[j]? = some (Signcrypt.Recipient.sym k ident))
    (hsome : ∃ (j : Nat) (k : Bytes), keys[j]? = some (some k))
    (L : Nat) (hL32 : 32 ≤ L)
    (hid : ∀ key ident, Signcrypt.Recipient.sym key ident ∈ rs → ident.length ≤ L)
    (hsmall : 145 + rs.length * (L + 63) < 2 ^ 32)
    (msg : Bytes) (hmsg : Signcrypt.sealWith P bs sender rs eph payloadKey pt = .ok msg) :
    ∃ hr ps, Wire.splitSigncrypt msg = .ok (hr, ps) ∧
      Signcrypt.openAll P (faithfulKeyring P []) (some f) hr ps = .ok (sender.map P.sigPub, pt) := by
  obtain ⟨hb, blks, hs, hsplit⟩ := sc_bytes_split P hP bs hbs hbs32 sender rs eph payloadKey pt hpk L hL32 hid
    hsmall msg hmsg
  exact ⟨_, _, hsplit, sc_roundtrip_sym P hP bs hbs sender rs eph payloadKey pt hpk hsender hblocks
    _ hb blks hs f keys hf hlen htrue hsome⟩

/-! ## signatures -/

namespace WireRT
open MsgpackRT

theorem knownVersion_cases {v : Version} (h : knownVersion v = true) : v = v1 ∨ v = v2 := by
  by_cases h1 : v = v1
  · exact Or.inl h1
  · right
    by_cases h2 : v = v2
    · exact h2
    · simp [knownVersion, h1, h2] at h

theorem sigHeader_wf (h : SigHeader)
    (h1 : h.formatName.length < 2 ^ 32) (h2 : h.senderPublic.length < 2 ^ 32) (h3 : h.nonce.length < 2 ^ 32)
    (h6 : -(2 ^ 63 : Int) ≤ h.version.major ∧ h.version.major < 2 ^ 64)
    (h7 : -(2 ^ 63 : Int) ≤ h.version.minor ∧ h.version.minor < 2 ^ 64)
    (h8 : -(2 ^ 63 : Int) ≤ h.typ ∧ h.typ < 2 ^ 64) : ValWF h.toVal := by
  unfold SigHeader.toVal
  apply ValWF.arr _ (by simp)
  intro v hv
  simp only [List.mem_cons, List.not_mem_nil, or_false] at hv
  rcases hv with rfl | rfl | rfl | rfl | rfl
  · exact ValWF.str _ h1
  · unfold Version.toVal
    apply ValWF.arr _ (by simp)
    intro v hv
    simp only [List.mem_cons, List.not_mem_nil, or_false] at hv
    rcases hv with rfl | rfl
    · exact ValWF.int _ h6.1 h6.2
    · exact ValWF.int _ h7.1 h7.2
  · exact ValWF.int _ h8.1 h8.2
  · exact ValWF.bin _ h2
  · exact ValWF.bin _ h3

theorem sigHeader_len (h : SigHeader) :
    (encode h.toVal).length ≤ 52 + h.formatName.length + h.senderPublic.length + h.nonce.length := by
  have h0 := encode_arr_len [.str h.formatName, h.version.toVal, .int h.typ, .bin h.senderPublic, .bin h.nonce]
  have ha := encode_str_len h.formatName
  have hb := version_len h.version
  have hc := encode_int_len h.typ
  have hd := encode_bin_len h.senderPublic
  have he := encode_bin_len h.nonce
  rw [SigHeader.toVal]
  simp only [encodeList_cons, encodeList_nil, List.length_append, List.length_nil] at h0
  omega

/-- the sender's signature header: well-formed, viewable, short -/
theorem sig_header_facts (P : Prims) (hS : WireSizes P) (v : Version) (hv : v = v1 ∨ v = v2)
    (signer nonce : Bytes) (typ : Int) (ht : typ = mtAttached ∨ typ = mtDetached)
    (hn : nonce.length + 92 < 2 ^ 32) :
    ValWF (Sign.header v (P.sigPub signer) typ nonce).toVal ∧
    (encode (Sign.header v (P.sigPub signer) typ nonce).toVal).length < 2 ^ 32 := by
  have hfn : (Sign.header v (P.sigPub signer) typ nonce).formatName.length = 8 := rfl
  have hpk : (Sign.header v (P.sigPub signer) typ nonce).senderPublic.length = 32 := hS.sigPub_len signer
  have hnn : (Sign.header v (P.sigPub signer) typ nonce).nonce.length = nonce.length := rfl
  constructor
  · apply sigHeader_wf _ (by omega) (by omega) (by omega)
    · show -(2 ^ 63 : Int) ≤ v.major ∧ v.major < 2 ^ 64
      rcases hv with rfl | rfl <;> decide
    · show -(2 ^ 63 : Int) ≤ v.minor ∧ v.minor < 2 ^ 64
      rcases hv with rfl | rfl <;> decide
    · show -(2 ^ 63 : Int) ≤ typ ∧ typ < 2 ^ 64
      rcases ht with rfl | rfl <;> decide
  · have := sigHeader_len (Sign.header v (P.sigPub signer) typ nonce)
    omega

theorem sigBlockVal_wf (v : Version) (sig chunk : Bytes) (f : Bool) (val : Val)
    (h : sigBlockVal v sig chunk f = .ok val) (hs : sig.length < 2 ^ 32) (hc : chunk.length < 2 ^ 32) :
    ValWF val := by
  unfold sigBlockVal at h
  split at h
  · cases h
    apply ValWF.arr _ (by simp)
    intro x hx
    simp only [List.mem_cons, List.not_mem_nil, or_false] at hx
    rcases hx with rfl | rfl
    · exact ValWF.bin _ hs
    · exact ValWF.bin _ hc
  · split at h
    · cases h
      apply ValWF.arr _ (by simp)
      intro x hx
      simp only [List.mem_cons, List.not_mem_nil, or_false] at hx
      rcases hx with rfl | rfl | rfl
      · exact ValWF.bool _
      · exact ValWF.bin _ hs
      · exact ValWF.bin _ hc
    · cases h

theorem viewSigBlock_asRead (v : Version) (hv : v = v1 ∨ v = v2) (b : SigBlock) (val : Val)
    (h : sigBlockVal v b.sig b.chunk b.final = .ok val) :
    viewSigBlock v.major val = some (sigAsRead v b) := by
  rcases hv with rfl | rfl
  · exact viewSigBlock_v1 b.sig b.chunk b.final val h
  · exact viewSigBlock_v2 b.sig b.chunk b.final val h

theorem sig_body (v : Version) (hv : v = v1 ∨ v = v2) :
    ∀ (blks : List SigBlock) (body : Bytes),
      (∀ b ∈ blks, b.sig.length < 2 ^ 32 ∧ b.chunk.length < 2 ^ 32) →
      Sign.encodeBlocks v blks = .ok body →
      ∃ vals : List Val, body = vals.flatMap encode ∧ (∀ x ∈ vals, ValWF x) ∧
        vals.map (viewSigBlock v.major) = (blks.map (sigAsRead v)).map some := by
  intro blks
  induction blks with
  | nil =>
    intro body _ h
    simp only [Sign.encodeBlocks, Except.ok.injEq] at h
    subst h
    exact ⟨[], rfl, by simp, rfl⟩
  | cons b bl ih =>
    intro body hp h
    simp only [Sign.encodeBlocks] at h
    split at h
    · rename_i val rest hval hrest
      simp only [Except.ok.injEq] at h
      subst h
      obtain ⟨vals, h1, h2, h3⟩ := ih rest (fun x hx => hp x (by simp [hx])) hrest
      obtain ⟨ps, pc⟩ := hp b (by simp)
      refine ⟨val :: vals, by rw [List.flatMap_cons, h1], ?_, ?_⟩
      · intro x hx
        rcases List.mem_cons.1 hx with rfl | hx
        · exact sigBlockVal_wf v b.sig b.chunk b.final _ hval ps pc
        · exact h2 x hx
      · rw [List.map_cons, List.map_cons, List.map_cons, h3, viewSigBlock_asRead v hv b val hval]
    · cases h
    · cases h

theorem sig_blockStructs_sizes (P : Prims) (hS : WireSizes P) (v : Version) (signer hh : Bytes) :
    ∀ (plan : List (Bytes × Bool)) (k : Nat) (blks : List SigBlock),
      Sign.blockStructs P v signer hh plan k = .ok blks →
      ∀ b ∈ blks, b.sig.length = 64 ∧ ∃ p ∈ plan, b.chunk = p.1 := by
  intro plan
  induction plan with
  | nil =>
    intro k blks h
    simp only [Sign.blockStructs, Except.ok.injEq] at h
    subst h
    simp
  | cons p plan ih =>
    intro k blks h
    obtain ⟨c, f⟩ := p
    simp only [Sign.blockStructs] at h
    split at h
    · rename_i b0 bs0 hb0 hbs0
      simp only [Except.ok.injEq] at h
      subst h
      intro b hb
      rcases List.mem_cons.1 hb with rfl | hb
      · unfold Sign.blockStruct at hb0
        split at hb0
        · cases hb0
        · simp only [Except.ok.injEq] at hb0
          subst hb0
          exact ⟨hS.sig_len _ _, (c, f), by simp, rfl⟩
      · obtain ⟨h1, p', hp', h3⟩ := ih (k + 1) bs0 hbs0 b hb
        exact ⟨h1, p', by simp [hp'], h3⟩
    · cases h
    · cases h

theorem attachedPackets_version (P : Prims) (bs : Nat) (v : Version) (signer nonce msg : Bytes)
    (x : SigHeader × Bytes × List SigBlock)
    (hs : Sign.attachedPackets P bs v signer nonce msg = .ok x) : v = v1 ∨ v = v2 := by
  unfold Sign.attachedPackets at hs
  split at hs
  · cases hs
  · rename_i hk
    exact knownVersion_cases (by simpa using hk)

/-- the verifier ignores the `final` field of major-1 packets -/
theorem sig_run_asRead (P : Prims) (v : Version) (hh pk : Bytes) (tail : Tail) :
    ∀ (blks : List SigBlock) (n : Nat),
      Sign.run P ⟨v, hh, pk⟩ ((blks.map (sigAsRead v)).map some) tail n =
        Sign.run P ⟨v, hh, pk⟩ (blks.map some) tail n := by
  by_cases h1 : v.major = 1
  · intro blks
    induction blks with
    | nil => intro n; rfl
    | cons b bl ih =>
      intro n
      have hc : (sigAsRead v b).chunk = b.chunk := by simp [sigAsRead, h1]
      have hf : Sign.blockFinal v (sigAsRead v b) = Sign.blockFinal v b := by
        simp [Sign.blockFinal, h1, sigAsRead]
      have hp : ∀ f, Sign.processBlock P ⟨v, hh, pk⟩ (sigAsRead v b) f n = Sign.processBlock P ⟨v, hh, pk⟩ b f n := by
        intro f
        simp [Sign.processBlock, sigAsRead, h1]
      simp only [List.map_cons, Sign.run, hf, hp, hc, ih, endOfStream_map]
  · intro blks n
    have : blks.map (sigAsRead v) = blks := by
      have : sigAsRead v = id := by
        funext b
        simp [sigAsRead, h1]
      rw [this, List.map_id]
    rw [this]

theorem verifyAll_asRead (P : Prims) (valid : Validator) (kr : Keyring) (hb : Bytes) (h : SigHeader)
    (blks : List SigBlock) (tail : Tail) :
    Sign.verifyAll P valid kr (.ok hb h) ⟨(blks.map (sigAsRead h.version)).map some, tail⟩ =
      Sign.verifyAll P valid kr (.ok hb h) ⟨blks.map some, tail⟩ := by
  simp only [Sign.verifyAll, Sign.verifyStream, sig_run_asRead]

end WireRT

/-- **Attached signature, bytes → structures.** -/
theorem wire_sig (P : Prims) (hS : WireSizes P) (bs : Nat) (hbs : 0 < bs) (hbs32 : bs < 2 ^ 32)
    (v : Version) (signer nonce msg : Bytes) (hn : nonce.length + 92 < 2 ^ 32)
    (h : SigHeader) (hb : Bytes) (blks : List SigBlock) (body : Bytes)
    (hs : Sign.attachedPackets P bs v signer nonce msg = .ok (h, hb, blks))
    (he : Sign.encodeBlocks v blks = .ok body) :
    Wire.splitSig (headerPacket hb ++ body) =
      .ok (.ok hb h, ⟨(blks.map (sigAsRead v)).map some, .eof⟩) := by
  have hv := attachedPackets_version P bs v signer nonce msg _ hs
  obtain ⟨hh, hhbe, hbl⟩ := RTSig.attachedPackets_inv P bs v signer nonce msg h hb blks hs
  obtain ⟨hwf, hlen⟩ := sig_header_facts P hS v hv signer nonce mtAttached (Or.inl rfl) hn
  have hsz := sig_blockStructs_sizes P hS v signer (P.hash hb) _ 0 blks hbl
  obtain ⟨vals, hbody, hvals, hviews⟩ := sig_body v hv blks body (by
    intro b hb'
    obtain ⟨a1, p, hp, a2⟩ := hsz b hb'
    have := chunkPlan_size v bs hbs msg p hp
    rw [a2]
    exact ⟨by omega, by omega⟩) he
  subst hhbe hbody hh
  unfold Wire.splitSig
  exact split_encoded viewSigHeader (fun h => viewSigBlock h.version.major) _ hwf _
    (viewSigHeader_toVal _) hlen vals hvals (blks.map (sigAsRead v)) hviews

theorem seal_bytes_are_packets_sig (P : Prims) (bs : Nat) (v : Version) (signer nonce msg out : Bytes)
    (hout : Sign.attachedWith P bs v signer nonce msg = .ok out) :
    ∃ h hb blks body, Sign.attachedPackets P bs v signer nonce msg = .ok (h, hb, blks) ∧
      Sign.encodeBlocks v blks = .ok body ∧ out = headerPacket hb ++ body := by
  unfold Sign.attachedWith at hout
  split at hout
  · cases hout
  · rename_i h hb blks hs
    split at hout
    · cases hout
    · rename_i body he
      cases hout
      exact ⟨h, hb, blks, body, hs, he, rfl⟩

/-- **C05 at byte level** (`sign_roundtrip` on the emitted bytes): `Verify`
    gives the message and the signer.  Added hypotheses (sizes only):
    `bs < 2^32`, `nonce.length + 92 < 2^32` (the real nonce has 16 bytes). -/
theorem sign_roundtrip_bytes (P : Prims) (hP : P.Lawful) (bs : Nat) (hbs : 0 < bs) (hbs32 : bs < 2 ^ 32)
    (v : Version) (hv : v = v1 ∨ v = v2) (signer nonce msg : Bytes) (hn : nonce.length + 92 < 2 ^ 32)
    (kr : Keyring) (hk : kr.lookupSigningPublicKey (P.sigPub signer) = some (P.sigPub signer))
    (out : Bytes) (hout : Sign.attachedWith P bs v signer nonce msg = .ok out) :
    ∃ hr ps, Wire.splitSig out = .ok (hr, ps) ∧
      Sign.verifyAll P knownMajor kr hr ps = .ok (P.sigPub signer, msg) := by
  obtain ⟨h, hb, blks, body, hs, he, rfl⟩ := seal_bytes_are_packets_sig P bs v signer nonce msg out hout
  have hS := WireSizes.of_lawful hP
  obtain ⟨hh, _, _⟩ := RTSig.attachedPackets_inv P bs v signer nonce msg h hb blks hs
  have hver : h.version = v := by rw [hh]; rfl
  refine ⟨_, _, wire_sig P hS bs hbs hbs32 v signer nonce msg hn h hb blks body hs he, ?_⟩
  rw [← hver, verifyAll_asRead]
  exact sign_roundtrip P hP bs hbs v hv signer nonce msg kr hk h hb blks hs

/-- **Detached signature, bytes → header and signature object.** -/
theorem wire_detached (P : Prims) (hS : WireSizes P) (v : Version) (hv : v = v1 ∨ v = v2)
    (signer nonce : Bytes) (hn : nonce.length + 92 < 2 ^ 32) (sg : Bytes) (hsg : sg.length < 2 ^ 32) :
    Wire.splitDetached
        (headerPacket (encode (Sign.header v (P.sigPub signer) mtDetached nonce).toVal) ++ encBin sg) =
      .ok (.ok (encode (Sign.header v (P.sigPub signer) mtDetached nonce).toVal)
            (Sign.header v (P.sigPub signer) mtDetached nonce), .sig sg) := by
  obtain ⟨hwf, hlen⟩ := sig_header_facts P hS v hv signer nonce mtDetached (Or.inr rfl) hn
  have hsig : Wire.readBytesObj (encBin sg) = .ok (.ok sg, []) := by
    have := readBytesObj_bin sg [] hsg
    rwa [List.append_nil] at this
  unfold Wire.splitDetached headerPacket
  rw [readBytesObj_bin _ _ hlen]
  simp only []
  rw [decodeHeader_encode viewSigHeader _ hwf _ (viewSigHeader_toVal _)]
  simp only [hsig]

theorem seal_bytes_are_packets_detached (P : Prims) (v : Version) (signer nonce msg out : Bytes)
    (hout : Sign.detachedWith P v signer nonce msg = .ok out) :
    (v = v1 ∨ v = v2) ∧
    out = headerPacket (encode (Sign.header v (P.sigPub signer) mtDetached nonce).toVal) ++
      encBin (P.sign signer (detachedSignatureInput P
        (P.hash (encode (Sign.header v (P.sigPub signer) mtDetached nonce).toVal)) msg)) := by
  unfold Sign.detachedWith at hout
  split at hout
  · cases hout
  · rename_i hk
    cases hout
    exact ⟨knownVersion_cases (by simpa using hk), rfl⟩

/-- **C07 at byte level** (`detached_roundtrip` on the emitted bytes) -/
theorem detached_roundtrip_bytes (P : Prims) (hP : P.Lawful)
    (v : Version) (signer nonce msg : Bytes) (hn : nonce.length + 92 < 2 ^ 32)
    (kr : Keyring) (hk : kr.lookupSigningPublicKey (P.sigPub signer) = some (P.sigPub signer))
    (out : Bytes) (hout : Sign.detachedWith P v signer nonce msg = .ok out) :
    ∃ hr sr, Wire.splitDetached out = .ok (hr, sr) ∧
      Sign.verifyDetached P knownMajor kr hr sr msg = .ok (P.sigPub signer) := by
  obtain ⟨hv, rfl⟩ := seal_bytes_are_packets_detached P v signer nonce msg out hout
  have hS := WireSizes.of_lawful hP
  refine ⟨_, _, wire_detached P hS v hv signer nonce hn _ (by rw [hS.sig_len]; decide), ?_⟩
  exact detached_roundtrip P hP v hv signer nonce msg kr hk

/-! ## non-vacuity: real parameters satisfy the size hypotheses -/

/-- 1 MiB blocks, 32-byte key ids, up to a million recipients, 16-byte nonce -/
example : 0 < blockSize ∧ blockSize + 16 < 2 ^ 32 ∧ blockSize + 80 < 2 ^ 32 ∧
    sigBlockSize < 2 ^ 32 ∧ 145 + 1000000 * (32 + 63) < 2 ^ 32 ∧ Sign.sigNonceLen + 92 < 2 ^ 32 := by decide

/-! ## V2: no normalisation -/

theorem wire_enc_v2 (P : Prims) (hS : WireSizes P) (bs : Nat) (hbs : 0 < bs) (hbs32 : bs + 16 < 2 ^ 32)
    (sender : Option Bytes) (rs : List Encrypt.Recipient) (eph pk pt : Bytes)
    (hpk : pk.length + 16 < 2 ^ 32) (hpub : ∀ r ∈ rs, r.pub.length < 2 ^ 32)
    (h : EncHeader) (hb : Bytes) (blks : List EncBlock) (body : Bytes)
    (hs : Encrypt.sealPackets P bs v2 sender rs eph pk pt = .ok (h, hb, blks))
    (he : Encrypt.encodeBlocks v2 blks = .ok body)
    (hhb : hb.length < 2 ^ 32) :
    Wire.splitEnc (headerPacket hb ++ body) = .ok (.ok hb h, ⟨blks.map some, .eof⟩) := by
  have := wire_enc P hS bs hbs hbs32 v2 sender rs eph pk pt hpk hpub h hb blks body hs he hhb
  rwa [show blks.map (encAsRead v2) = blks by
    rw [show encAsRead v2 = id from funext fun _ => rfl, List.map_id]] at this

theorem wire_sig_v2 (P : Prims) (hS : WireSizes P) (bs : Nat) (hbs : 0 < bs) (hbs32 : bs < 2 ^ 32)
    (signer nonce msg : Bytes) (hn : nonce.length + 92 < 2 ^ 32)
    (h : SigHeader) (hb : Bytes) (blks : List SigBlock) (body : Bytes)
    (hs : Sign.attachedPackets P bs v2 signer nonce msg = .ok (h, hb, blks))
    (he : Sign.encodeBlocks v2 blks = .ok body) :
    Wire.splitSig (headerPacket hb ++ body) = .ok (.ok hb h, ⟨blks.map some, .eof⟩) := by
  have := wire_sig P hS bs hbs hbs32 v2 signer nonce msg hn h hb blks body hs he
  rwa [show blks.map (sigAsRead v2) = blks by
    rw [show sigAsRead v2 = id from funext fun _ => rfl, List.map_id]] at this

/-! ## V1: the un-normalised statement is false

  `Encrypt.sealPackets` / `Sign.attachedPackets` record `final := true` in the
  structure of the last (empty) V1 packet, but a V1 packet has no final flag on
  the wire, so the receiver's view reads `false`: with the toy primitives, block
  size 4 and plaintext `[1,2,3,4,5]` the structures' flags are
  `[false, false, true]`, the flags read back from the bytes `[false, false, false]`. -/

example :
    (match Encrypt.sealPackets Toy.prims 4 v1 (some [7]) [⟨Toy.prims.boxPub [1], false⟩] [9] (zeros 32) [1, 2, 3, 4, 5] with
     | .ok (_, _, blks) => blks.map EncBlock.final
     | .error _ => []) = [false, false, true] ∧
    (match Encrypt.sealWith Toy.prims 4 v1 (some [7]) [⟨Toy.prims.boxPub [1], false⟩] [9] (zeros 32) [1, 2, 3, 4, 5] with
     | .ok m =>
       (match Wire.splitEnc m with
        | .ok (_, ps) => ps.items.map (Option.map EncBlock.final)
        | .unmodelled _ => [])
     | .error _ => []) = [some false, some false, some false] := by decide +kernel

example :
    (match Sign.attachedPackets Toy.prims 4 v1 [7] (zeros 16) [1, 2, 3, 4, 5] with
     | .ok (_, _, blks) => blks.map SigBlock.final
     | .error _ => []) = [false, false, true] ∧
    (match Sign.attachedWith Toy.prims 4 v1 [7] (zeros 16) [1, 2, 3, 4, 5] with
     | .ok m =>
       (match Wire.splitSig m with
        | .ok (_, ps) => ps.items.map (Option.map SigBlock.final)
        | .unmodelled _ => [])
     | .error _ => []) = [some false, some false, some false] := by decide +kernel

end Saltpack.Proofs
