/-
  Forward compatibility END TO END (behind Props/C09): the bytes the reference
  sender of Model/Spec.lean emits — with ANY minor version and with extra
  trailing elements in the header, in every recipient pair and in every payload
  packet (`Spec.Opts`), for ANY valid chunk plan — split by the receiver's
  MessagePack reader (`Wire.split*`) and opened by the receiver models, give
  exactly the chunks' concatenation and the right key information.

  The point beyond AnyChunking/`C09_*_extras`: the sender hashes the header
  bytes it actually sends, i.e. WITH the extras; the receiver hashes the bytes
  it received; all MACs / signatures are over that hash.
-/
import Saltpack.Proofs.RingRT
import Saltpack.Proofs.SpecEq

namespace Saltpack.Proofs
open Saltpack Saltpack.Spec Saltpack.Msgpack

/-- options of a sender that follows the specification: the genuine format
    name, the layout's own major version, the mode's own number; everything the
    specification leaves open (minor version, extras, chunking) is arbitrary -/
structure SpecFollowing (o : Opts) : Prop where
  fmt : o.formatName = sFormatName
  major : o.majorLabel = none
  typ : o.typ = none

/-- the extras are encodable MessagePack values (lengths below 2^32, integers in
    the 64-bit range, no maps / ext / floats), and so is the minor version -/
structure ExtrasWF (o : Opts) : Prop where
  hdr : ∀ x ∈ o.headerExtras, ValWF x
  hdrLen : o.headerExtras.length + 6 < 2 ^ 32
  recv : ∀ x ∈ o.recvExtras, ValWF x
  recvLen : o.recvExtras.length + 2 < 2 ^ 32
  pkt : ∀ x ∈ o.packetExtras, ValWF x
  pktLen : o.packetExtras.length + 3 < 2 ^ 32
  minorLo : -(2 ^ 63 : Int) ≤ o.minor
  minorHi : o.minor < (2 ^ 64 : Int)

namespace Extras

theorem valWF_arr_append {l ex : List Val} (hl : ∀ x ∈ l, ValWF x) (hex : ∀ x ∈ ex, ValWF x)
    (hlen : l.length + ex.length < 2 ^ 32) : ValWF (.arr (l ++ ex)) := by
  apply ValWF.arr _ (by rw [List.length_append]; exact hlen)
  intro x hx
  rcases List.mem_append.1 hx with h | h
  · exact hl x h
  · exact hex x h

theorem flatMap_encode_map {α : Type} (f : α → Val) (l : List α) :
    l.flatMap (fun x => encode (f x)) = (l.map f).flatMap encode := by
  induction l with
  | nil => rfl
  | cons a t ih => simp only [List.flatMap_cons, List.map_cons, ih]

theorem layoutOf_major {v : Version} (hv : v = v1 ∨ v = v2) : ((layoutOf v : Nat) : Int) = v.major := by
  rcases hv with rfl | rfl <;> rfl

theorem layoutOf_eq_one {v : Version} (hv : v = v1 ∨ v = v2) : (layoutOf v = 1 ↔ v = v1) := by
  rcases hv with rfl | rfl
  · exact ⟨fun _ => rfl, fun _ => rfl⟩
  · exact ⟨fun h => absurd h (by decide), fun h => absurd h v2_ne_v1⟩

theorem versionVal_view (layout : Nat) (o : Opts) (ho : SpecFollowing o) :
    versionVal layout o = .arr [.int (layout : Int), .int o.minor] := by
  simp [versionVal, ho.major]

theorem versionVal_wf (layout : Nat) (hl : layout ≤ 2) (o : Opts) (ho : SpecFollowing o) (hx : ExtrasWF o) :
    ValWF (versionVal layout o) := by
  rw [versionVal_view layout o ho]
  apply ValWF.arr _ (by simp)
  intro x hxm
  simp only [List.mem_cons, List.not_mem_nil, or_false] at hxm
  rcases hxm with rfl | rfl
  · exact ValWF.int _ (by omega) (by omega)
  · exact ValWF.int _ hx.minorLo hx.minorHi

/-! ## encryption -/

/-- the header value `Spec.encodePlan` encodes -/
def encHeaderVal (P : Prims) (layout : Nat) (o : Opts) (sender : Option Bytes) (rs : List Encrypt.Recipient)
    (eph pk : Bytes) : Val :=
  .arr ([.str o.formatName, versionVal layout o, .int (o.typ.getD sModeEncryption),
      .bin (P.boxPub eph), .bin (P.sbSeal pk sNonceSenderKey (P.boxPub (sender.getD eph))),
      .arr (rs.zipIdx.map (fun (r, i) => encRecipientVal P layout o eph pk i r))] ++ o.headerExtras)

/-- the value of one payload packet of `Spec.encodePlan` -/
def encPacketVal (P : Prims) (layout : Nat) (o : Opts) (pk hh : Bytes) (mks : List Bytes)
    (i : Nat) (c : Bytes) (f : Bool) : Val :=
  let nonce := sNonceChunk i
  let ct := P.sbSeal pk nonce c
  let h := if layout = 1 then P.hash (hh ++ nonce ++ ct) else P.hash (hh ++ nonce ++ sFinal f ++ ct)
  let auths : Val := .arr (mks.map (fun k => .bin ((P.hmac k h).take 32)))
  .arr ((if layout = 1 then [auths, .bin ct] else [.bool f, auths, .bin ct]) ++ o.packetExtras)

/-- `Spec.encodePlan`, taken apart: header packet, then the encoded packet values -/
theorem encodePlan_eq (P : Prims) (layout : Nat) (o : Opts) (sender : Option Bytes)
    (rs : List Encrypt.Recipient) (eph pk : Bytes) (pl : List (Bytes × Bool)) :
    Spec.encodePlan P layout o sender rs eph pk pl =
      headerPacket (encode (encHeaderVal P layout o sender rs eph pk)) ++
        (pl.zipIdx.map (fun x => encPacketVal P layout o pk
          (P.hash (encode (encHeaderVal P layout o sender rs eph pk)))
          (rs.zipIdx.map (fun (r, i) => encMacKey P layout (sender.getD eph) eph r.pub
            (P.hash (encode (encHeaderVal P layout o sender rs eph pk))) i)) x.2 x.1.1 x.1.2)).flatMap encode := by
  rw [← flatMap_encode_map]
  rfl

theorem encRecipient_o (P : Prims) (v : Version) (hv : v = v1 ∨ v = v2) (o : Opts) (eph pk : Bytes) (i : Nat)
    (r : Encrypt.Recipient) (n : Bytes) (hn : Nonce.payloadKeyBox v i = .ok n) :
    encRecipientVal P (layoutOf v) o eph pk i r =
      .arr ([optBin (if r.hidden then none else some r.pub), .bin (P.box eph r.pub n pk)] ++ o.recvExtras) := by
  rcases hv with rfl | rfl
  · simp only [Nonce.payloadKeyBox, show v1.major = 1 from rfl, if_true, Except.ok.injEq] at hn
    subst hn
    simp only [encRecipientVal, layoutOf_v1, if_true, c_payloadV1]
    cases r.hidden <;> rfl
  · simp only [Nonce.payloadKeyBox, show v2.major = 2 from rfl, show ¬ ((2 : Int) = 1) by decide,
      if_true, if_false, Except.ok.injEq] at hn
    subst hn
    simp only [encRecipientVal, layoutOf_v2, show ¬ ((2 : Nat) = 1) by decide, if_false, c_recip]
    cases r.hidden <;> rfl

/-- the recipient pairs with extras are viewed as the entries the code model builds -/
theorem viewRecipients_o (P : Prims) (v : Version) (hv : v = v1 ∨ v = v2) (o : Opts) (eph pk : Bytes) :
    ∀ (rs : List Encrypt.Recipient) (k : Nat) (es : List RecvKeys),
      Encrypt.receiverEntries P v eph pk rs k = .ok es →
      viewList viewRecvKeys ((rs.zipIdx k).map (fun x => encRecipientVal P (layoutOf v) o eph pk x.2 x.1)) = some es := by
  intro rs
  induction rs with
  | nil =>
    intro k es h
    simp only [Encrypt.receiverEntries, Except.ok.injEq] at h
    subst h
    rfl
  | cons r rs ih =>
    intro k es h
    simp only [Encrypt.receiverEntries] at h
    split at h
    · rename_i n es' hn hes
      cases h
      rw [List.zipIdx_cons, List.map_cons, viewList, ih (k + 1) es' hes,
        encRecipient_o P v hv o eph pk k r n hn]
      have := viewRecvKeys_extras ⟨if r.hidden then none else some r.pub, P.box eph r.pub n pk⟩ o.recvExtras
      simp only at this
      rw [this]
    · cases h
    · cases h

theorem recipients_wf (P : Prims) (hS : WireSizes P) (v : Version) (hv : v = v1 ∨ v = v2) (o : Opts)
    (hx : ExtrasWF o) (eph pk : Bytes) (hpk : pk.length + 16 < 2 ^ 32) :
    ∀ (rs : List Encrypt.Recipient) (k : Nat), (∀ r ∈ rs, r.pub.length < 2 ^ 32) →
      ∀ x ∈ (rs.zipIdx k).map (fun x => encRecipientVal P (layoutOf v) o eph pk x.2 x.1), ValWF x := by
  intro rs
  induction rs with
  | nil => intro k _ x hxm; simp at hxm
  | cons r rs ih =>
    intro k hpub x hxm
    rw [List.zipIdx_cons, List.map_cons, List.mem_cons] at hxm
    rcases hxm with rfl | hxm
    · obtain ⟨n, hn⟩ := payloadKeyBox_ok hv k
      rw [encRecipient_o P v hv o eph pk k r n hn]
      apply valWF_arr_append _ hx.recv (by simp; have := hx.recvLen; omega)
      intro y hy
      simp only [List.mem_cons, List.not_mem_nil, or_false] at hy
      rcases hy with rfl | rfl
      · cases r.hidden with
        | true => exact ValWF.nil
        | false => exact ValWF.bin _ (hpub r (by simp))
      · exact ValWF.bin _ (by simp only [Prims.box, hS.sb_len]; exact hpk)
    · exact ih (k + 1) (fun r' hr' => hpub r' (by simp [hr'])) x hxm

/-- the typed view of the reference sender's header (with extras) is the code
    model's header, relabelled with the minor version -/
theorem encHeaderVal_view (P : Prims) (v : Version) (hv : v = v1 ∨ v = v2) (o : Opts) (ho : SpecFollowing o)
    (sender : Option Bytes) (rs : List Encrypt.Recipient) (eph pk : Bytes) (h0 : EncHeader)
    (hh : Encrypt.header P v sender eph pk rs = .ok h0) :
    viewEncHeader (encHeaderVal P (layoutOf v) o sender rs eph pk) = some (withMinor h0 o.minor) := by
  simp only [Encrypt.header] at hh
  split at hh
  · cases hh
  · rename_i es hes
    cases hh
    have hrl := viewRecipients_o P v hv o eph pk rs 0 es hes
    simp only [encHeaderVal, versionVal_view _ o ho, ho.fmt, ho.typ, List.cons_append, List.nil_append,
      viewEncHeader, viewBytes, viewVersion, viewInt, Option.getD_none]
    rw [show (List.map (fun x : Encrypt.Recipient × Nat =>
        match x with | (r, i) => encRecipientVal P (layoutOf v) o eph pk i r) rs.zipIdx) =
      (rs.zipIdx 0).map (fun x => encRecipientVal P (layoutOf v) o eph pk x.2 x.1) from rfl, hrl]
    simp only [withMinor, layoutOf_major hv, c_format, c_senderKey, mtEncryption, sModeEncryption]
    rfl

theorem encHeaderVal_wf (P : Prims) (hS : WireSizes P) (v : Version) (hv : v = v1 ∨ v = v2) (o : Opts)
    (ho : SpecFollowing o) (hx : ExtrasWF o)
    (sender : Option Bytes) (rs : List Encrypt.Recipient) (eph pk : Bytes) (hpk : pk.length + 16 < 2 ^ 32)
    (hpub : ∀ r ∈ rs, r.pub.length < 2 ^ 32) (hn : rs.length < 2 ^ 32) :
    ValWF (encHeaderVal P (layoutOf v) o sender rs eph pk) := by
  unfold encHeaderVal
  apply valWF_arr_append _ hx.hdr (by simp; have := hx.hdrLen; omega)
  intro x hxm
  simp only [List.mem_cons, List.not_mem_nil, or_false] at hxm
  rcases hxm with rfl | rfl | rfl | rfl | rfl | rfl
  · rw [ho.fmt, c_format]; exact ValWF.str _ (by decide)
  · exact versionVal_wf _ (by rcases hv with rfl | rfl <;> decide) o ho hx
  · rw [ho.typ]; exact ValWF.int _ (by decide) (by decide)
  · exact ValWF.bin _ (by rw [hS.pub_len]; decide)
  · exact ValWF.bin _ (by rw [hS.sb_len, hS.pub_len]; decide)
  · apply ValWF.arr _ (by rw [List.length_map, List.length_zipIdx]; exact hn)
    exact recipients_wf P hS v hv o hx eph pk hpk rs 0 hpub

/-- one packet of the reference sender (with extras): the value is well formed
    and its typed view is the packet the code model builds (as read) -/
theorem encPacketVal_facts (P : Prims) (hS : WireSizes P) (v : Version) (hv : v = v1 ∨ v = v2) (o : Opts)
    (hx : ExtrasWF o) (pk hh : Bytes) (mks : List Bytes) (hm0 : mks ≠ []) (hml : mks.length < 2 ^ 32)
    (i : Nat) (c : Bytes) (f : Bool) (hc : c.length + 16 < 2 ^ 32) (b : EncBlock)
    (hb : Encrypt.blockStruct P v pk hh mks i c f = .ok b) :
    ValWF (encPacketVal P (layoutOf v) o pk hh mks i c f) ∧
    viewEncBlock v.major (encPacketVal P (layoutOf v) o pk hh mks i c f) = some (encAsRead v b) := by
  simp only [Encrypt.blockStruct] at hb
  split at hb
  · cases hb
  · have hauth : ∀ ph : Bytes, ∀ a ∈ mks.map (fun k => payloadAuthenticator P k ph), a.length = 32 := by
      intro ph a ha
      simp only [List.mem_map] at ha
      obtain ⟨mk, _, rfl⟩ := ha
      simp only [payloadAuthenticator, List.length_take]
      exact Nat.min_eq_left (hS.hmac_len _ _)
    have hane : ∀ ph : Bytes, mks.map (fun k => payloadAuthenticator P k ph) ≠ [] := by
      intro ph h0
      exact hm0 (List.map_eq_nil_iff.1 h0)
    have hawf : ∀ ph : Bytes, ValWF (.arr ((mks.map (fun k => payloadAuthenticator P k ph)).map .bin)) := by
      intro ph
      apply ValWF.arr _ (by simp only [List.length_map]; exact hml)
      intro y hy
      rw [List.mem_map] at hy
      obtain ⟨a, ha, rfl⟩ := hy
      exact ValWF.bin _ (by rw [hauth ph a ha]; decide)
    have hct : (P.sbSeal pk (Nonce.chunkSecretBox i) c).length < 2 ^ 32 := by rw [hS.sb_len]; exact hc
    rcases hv with rfl | rfl
    · simp only [payloadHash, show v1.major = 1 from rfl, if_true, Except.ok.injEq] at hb
      subst hb
      simp only [encPacketVal, layoutOf_v1, if_true, c_chunk]
      rw [show (mks.map (fun k => Val.bin ((P.hmac k (P.hash (hh ++ Nonce.chunkSecretBox i ++
            P.sbSeal pk (Nonce.chunkSecretBox i) c))).take 32))) =
          (mks.map (fun k => payloadAuthenticator P k (P.hash (hh ++ Nonce.chunkSecretBox i ++
            P.sbSeal pk (Nonce.chunkSecretBox i) c)))).map .bin by
        rw [List.map_map]; rfl]
      constructor
      · apply valWF_arr_append _ hx.pkt (by simp; have := hx.pktLen; omega)
        intro y hy
        simp only [List.mem_cons, List.not_mem_nil, or_false] at hy
        rcases hy with rfl | rfl
        · exact hawf _
        · exact ValWF.bin _ hct
      · exact viewEncBlock_v1_extras _ _ o.packetExtras (hane _) (hauth _)
    · simp only [payloadHash, show v2.major = 2 from rfl, show ¬ ((2 : Int) = 1) by decide,
        if_true, if_false, Except.ok.injEq] at hb
      subst hb
      simp only [encPacketVal, layoutOf_v2, show ¬ ((2 : Nat) = 1) by decide, if_false, c_chunk, c_final]
      rw [show (mks.map (fun k => Val.bin ((P.hmac k (P.hash (hh ++ Nonce.chunkSecretBox i ++ finalByte f ++
            P.sbSeal pk (Nonce.chunkSecretBox i) c))).take 32))) =
          (mks.map (fun k => payloadAuthenticator P k (P.hash (hh ++ Nonce.chunkSecretBox i ++ finalByte f ++
            P.sbSeal pk (Nonce.chunkSecretBox i) c)))).map .bin by
        rw [List.map_map]; rfl]
      constructor
      · apply valWF_arr_append _ hx.pkt (by simp; have := hx.pktLen; omega)
        intro y hy
        simp only [List.mem_cons, List.not_mem_nil, or_false] at hy
        rcases hy with rfl | rfl | rfl
        · exact ValWF.bool _
        · exact hawf _
        · exact ValWF.bin _ hct
      · exact viewEncBlock_v2_extras _ _ f o.packetExtras (hane _) (hauth _)

/-- all packets -/
theorem encPackets_facts (P : Prims) (hS : WireSizes P) (v : Version) (hv : v = v1 ∨ v = v2) (o : Opts)
    (hx : ExtrasWF o) (pk hh : Bytes) (mks : List Bytes) (hm0 : mks ≠ []) (hml : mks.length < 2 ^ 32) :
    ∀ (pl : List (Bytes × Bool)) (k : Nat) (blks : List EncBlock),
      (∀ p ∈ pl, p.1.length + 16 < 2 ^ 32) →
      Encrypt.blockStructs P v pk hh mks pl k = .ok blks →
      (∀ x ∈ (pl.zipIdx k).map (fun x => encPacketVal P (layoutOf v) o pk hh mks x.2 x.1.1 x.1.2), ValWF x) ∧
      ((pl.zipIdx k).map (fun x => encPacketVal P (layoutOf v) o pk hh mks x.2 x.1.1 x.1.2)).map
        (viewEncBlock v.major) = (blks.map (encAsRead v)).map some := by
  intro pl
  induction pl with
  | nil =>
    intro k blks _ h
    simp only [Encrypt.blockStructs, Except.ok.injEq] at h
    subst h
    exact ⟨by simp, rfl⟩
  | cons p pl ih =>
    intro k blks hsz h
    obtain ⟨c, f⟩ := p
    simp only [Encrypt.blockStructs] at h
    split at h
    · rename_i b bs hb hbs
      cases h
      obtain ⟨i1, i2⟩ := ih (k + 1) bs (fun q hq => hsz q (by simp [hq])) hbs
      obtain ⟨f1, f2⟩ := encPacketVal_facts P hS v hv o hx pk hh mks hm0 hml k c f (hsz (c, f) (by simp)) b hb
      rw [List.zipIdx_cons, List.map_cons]
      constructor
      · intro x hxm
        rcases List.mem_cons.1 hxm with rfl | hxm
        · exact f1
        · exact i1 x hxm
      · rw [List.map_cons, List.map_cons, List.map_cons, i2, f2]
    · cases h
    · cases h

theorem header_ok (P : Prims) {v : Version} (hv : v = v1 ∨ v = v2) (sender : Option Bytes) (eph pk : Bytes)
    (rs : List Encrypt.Recipient) : ∃ h0, Encrypt.header P v sender eph pk rs = .ok h0 := by
  obtain ⟨es, hes, _, _⟩ := receiverEntries_spec P hv eph pk rs 0
  refine ⟨{ formatName := Gen.c_sp_FormatName, version := v, typ := mtEncryption, ephemeral := P.boxPub eph,
            senderSecretbox := P.sbSeal pk Nonce.senderKeySecretBox (P.boxPub (sender.getD eph)),
            receivers := es }, ?_⟩
  simp only [Encrypt.header, hes]

theorem encAsRead_major {v w : Version} (h : w.major = v.major) : encAsRead w = encAsRead v := by
  funext b
  simp only [encAsRead, h]

end Extras
open Extras

/-- **Encryption, bytes → structures, for the reference sender with extras.**
    What `Spec.encodePlan … o` emits splits into the header bytes it hashed (the
    encoding WITH the extras), the code model's header relabelled `[major,
    o.minor]`, and exactly the packets `Encrypt.blockStructs` computes from the
    hash of those bytes (`EncSent`). -/
theorem wire_spec_enc (P : Prims) (hS : WireSizes P) (v : Version) (hv : v = v1 ∨ v = v2)
    (o : Opts) (ho : SpecFollowing o) (hx : ExtrasWF o)
    (sender : Option Bytes) (rs : List Encrypt.Recipient) (eph pk : Bytes) (plan : List (Bytes × Bool))
    (hcr : Encrypt.checkReceivers rs = .ok ())
    (hpk : pk.length + 16 < 2 ^ 32) (hpub : ∀ r ∈ rs, r.pub.length < 2 ^ 32)
    (hchunks : ∀ p ∈ plan, p.1.length + 16 < 2 ^ 32) (hblocks : plan.length ≤ 2 ^ 64 - 1)
    (hhb : (encode (encHeaderVal P (layoutOf v) o sender rs eph pk)).length < 2 ^ 32) :
    ∃ h hb blks, EncSent P v o.minor sender rs eph pk plan h hb blks ∧
      hb = encode (encHeaderVal P (layoutOf v) o sender rs eph pk) ∧
      Wire.splitEnc (Spec.encodePlan P (layoutOf v) o sender rs eph pk plan) =
        .ok (.ok hb h, ⟨(blks.map (encAsRead v)).map some, .eof⟩) := by
  obtain ⟨hne, _⟩ := checkReceivers_inv hcr
  have hcount := WireRT.checkReceivers_count hcr
  obtain ⟨h0, hhdr⟩ := header_ok P hv sender eph pk rs
  have hver : h0.version = v := (header_spec P hv sender eph pk rs h0 hhdr).2.1
  have hmaj : (withMinor h0 o.minor).version.major = v.major := by simp [withMinor, hver]
  obtain ⟨hb, hhbdef⟩ : ∃ hb, hb = encode (encHeaderVal P (layoutOf v) o sender rs eph pk) := ⟨_, rfl⟩
  rw [← hhbdef] at hhb
  obtain ⟨mks, hm, hmlen, _⟩ := macKeysSender_spec P hv (sender.getD eph) eph (P.hash hb) rs 0
  obtain ⟨blks, hbl, _⟩ := blockStructs_ok P hv pk (P.hash hb) mks plan 0 (by omega)
  have hmk := encMacKeys_eq P v hv _ _ _ rs 0 mks hm
  have hm0 : mks ≠ [] := by
    intro h0
    rw [h0] at hmlen
    exact hne (List.length_eq_zero_iff.1 hmlen.symm)
  obtain ⟨hvals, hviews⟩ := encPackets_facts P hS v hv o hx pk (P.hash hb) mks hm0 (by omega) plan 0 blks hchunks hbl
  refine ⟨_, hb, blks, ⟨hcr, ⟨_, hhdr, rfl⟩, mks, hm, hbl⟩, hhbdef, ?_⟩
  rw [encodePlan_eq, ← hhbdef, ← hmk]
  unfold Wire.splitEnc
  have hview := encHeaderVal_view P v hv o ho sender rs eph pk _ hhdr
  have hwf := encHeaderVal_wf P hS v hv o ho hx sender rs eph pk hpk hpub hcount
  have hlen : (encode (encHeaderVal P (layoutOf v) o sender rs eph pk)).length < 2 ^ 32 := by
    rw [← hhbdef]; exact hhb
  rw [← hmaj] at hviews
  have := WireRT.split_encoded (viewH := viewEncHeader) (viewB := fun h => viewEncBlock h.version.major)
    (hval := encHeaderVal P (layoutOf v) o sender rs eph pk) (hwf := hwf) (h := withMinor h0 o.minor)
    (hview := hview) (hlen := hlen) (hvals := hvals) (bl := blks.map (encAsRead v)) (hitems := hviews)
  rw [← hhbdef] at this
  exact this

/-- **C09 end to end, encryption**: the bytes of the reference sender — any
    minor version, extras in header / recipient pairs / packets, any valid chunk
    plan — split by the receiver's reader and opened with any keyring that holds
    a recipient's key, give the chunks' concatenation with the true sender, as
    some recipient whose key is in the ring. -/
theorem spec_enc_accepted (P : Prims) (hP : P.Lawful) (v : Version) (hv : v = v1 ∨ v = v2)
    (o : Opts) (ho : SpecFollowing o) (hx : ExtrasWF o)
    (sender : Option Bytes) (rs : List Encrypt.Recipient) (eph payloadKey : Bytes)
    (plan : List (Bytes × Bool)) (hplan : ValidPlan v plan)
    (hcr : Encrypt.checkReceivers rs = .ok ())
    (hpk : payloadKey.length = 32)
    (hnamed : ∀ s, sender = some s → P.boxPub s ≠ P.boxPub eph)
    (hpub : ∀ r ∈ rs, r.hidden = false → r.pub ≠ [])
    (hpubLen : ∀ r ∈ rs, r.pub.length < 2 ^ 32)
    (hchunks : ∀ p ∈ plan, p.1.length + 16 < 2 ^ 32) (hblocks : plan.length ≤ 2 ^ 64 - 1)
    (hhb : (encode (encHeaderVal P (layoutOf v) o sender rs eph payloadKey)).length < 2 ^ 32)
    (sks : List Bytes) (i : Nat) (hi : i < rs.length) (sk : Bytes) (hmem : sk ∈ sks)
    (hsk : (rs.getD i default).pub = P.boxPub sk)
    (hns : RingNoSpuriousOpen P v eph payloadKey rs sks) :
    ∃ hr ps, Wire.splitEnc (Spec.encodePlan P (layoutOf v) o sender rs eph payloadKey plan) = .ok (hr, ps) ∧
      ∃ i' sk', i' < rs.length ∧ sk' ∈ sks ∧ (rs.getD i' default).pub = P.boxPub sk' ∧
        Decrypt.openAll P knownMajor (faithfulKeyring P sks) hr ps =
          .ok (mkiOf P sender rs eph i' sk', (plan.map (·.1)).flatten) := by
  have hS := WireSizes.of_lawful hP
  obtain ⟨h, hb, blks, hsent, _, hsplit⟩ := wire_spec_enc P hS v hv o ho hx sender rs eph payloadKey plan hcr
    (by omega) hpubLen hchunks hblocks hhb
  refine ⟨_, _, hsplit, ?_⟩
  obtain ⟨h0, hh0, hh⟩ := hsent.hdr
  have hver : h0.version = v := (header_spec P hv sender eph payloadKey rs h0 hh0).2.1
  have hmaj : h.version.major = v.major := by rw [hh]; simp [withMinor, hver]
  rw [← encAsRead_major hmaj, WireRT.openAll_asRead]
  exact enc_roundtrip_ring P hP v hv o.minor sender rs eph payloadKey plan hplan.final hplan.empty_v1 hplan.empty_v2
    hpk hnamed hpub sks i hi sk hmem hsk hns h hb blks hsent

/-! ## attached and detached signatures -/

namespace Extras

/-- the header value `Spec.sigHeaderBytes` encodes -/
def sigHeaderVal (layout : Nat) (o : Opts) (typ : Int) (signerPub nonce : Bytes) : Val :=
  .arr ([.str o.formatName, versionVal layout o, .int (o.typ.getD typ), .bin signerPub, .bin nonce] ++ o.headerExtras)

theorem sigHeaderBytes_eq (layout : Nat) (o : Opts) (typ : Int) (signerPub nonce : Bytes) :
    sigHeaderBytes layout o typ signerPub nonce = encode (sigHeaderVal layout o typ signerPub nonce) := rfl

theorem sigHeaderVal_view (v : Version) (hv : v = v1 ∨ v = v2) (o : Opts) (ho : SpecFollowing o)
    (typ : Int) (pub nonce : Bytes) :
    viewSigHeader (sigHeaderVal (layoutOf v) o typ pub nonce) = some (Sign.header ⟨v.major, o.minor⟩ pub typ nonce) := by
  simp only [sigHeaderVal, versionVal_view _ o ho, ho.fmt, ho.typ, List.cons_append, List.nil_append,
    viewSigHeader, viewBytes, viewVersion, viewInt, Option.getD_none, Sign.header, layoutOf_major hv, c_format]

theorem sigHeaderVal_wf (P : Prims) (hS : WireSizes P) (v : Version) (hv : v = v1 ∨ v = v2) (o : Opts)
    (ho : SpecFollowing o) (hx : ExtrasWF o) (typ : Int) (ht : typ = mtAttached ∨ typ = mtDetached)
    (signer nonce : Bytes) (hn : nonce.length < 2 ^ 32) :
    ValWF (sigHeaderVal (layoutOf v) o typ (P.sigPub signer) nonce) := by
  unfold sigHeaderVal
  apply valWF_arr_append _ hx.hdr (by simp; have := hx.hdrLen; omega)
  intro x hxm
  simp only [List.mem_cons, List.not_mem_nil, or_false] at hxm
  rcases hxm with rfl | rfl | rfl | rfl | rfl
  · rw [ho.fmt, c_format]; exact ValWF.str _ (by decide)
  · exact versionVal_wf _ (by rcases hv with rfl | rfl <;> decide) o ho hx
  · rw [ho.typ]; rcases ht with rfl | rfl <;> exact ValWF.int _ (by decide) (by decide)
  · exact ValWF.bin _ (by rw [hS.sigPub_len]; decide)
  · exact ValWF.bin _ hn

/-- the value of one payload packet of `Spec.attachedPlan` -/
def attPacketVal (P : Prims) (layout : Nat) (o : Opts) (signer hh : Bytes) (i : Nat) (c : Bytes) (f : Bool) : Val :=
  let hashed := if layout = 1 then P.hash (hh ++ be64 i ++ c) else P.hash (hh ++ be64 i ++ sFinal f ++ c)
  let sig := P.sign signer (sSigAttached ++ hashed)
  .arr ((if layout = 1 then [.bin sig, .bin c] else [.bool f, .bin sig, .bin c]) ++ o.packetExtras)

theorem attachedPlan_eq (P : Prims) (layout : Nat) (o : Opts) (signer nonce : Bytes) (pl : List (Bytes × Bool)) :
    Spec.attachedPlan P layout o signer nonce pl =
      headerPacket (encode (sigHeaderVal layout o sModeAttached (P.sigPub signer) nonce)) ++
        (pl.zipIdx.map (fun x => attPacketVal P layout o signer
          (P.hash (encode (sigHeaderVal layout o sModeAttached (P.sigPub signer) nonce))) x.2 x.1.1 x.1.2)).flatMap encode := by
  rw [← flatMap_encode_map]
  rfl

theorem attPacketVal_facts (P : Prims) (hS : WireSizes P) (v : Version) (hv : v = v1 ∨ v = v2) (o : Opts)
    (hx : ExtrasWF o) (signer hh : Bytes) (i : Nat) (c : Bytes) (f : Bool) (hc : c.length < 2 ^ 32) (b : SigBlock)
    (hb : Sign.blockStruct P v signer hh i c f = .ok b) :
    ValWF (attPacketVal P (layoutOf v) o signer hh i c f) ∧
    viewSigBlock v.major (attPacketVal P (layoutOf v) o signer hh i c f) = some (sigAsRead v b) := by
  rcases hv with rfl | rfl
  · simp only [Sign.blockStruct, attachedSignatureInput, show v1.major = 1 from rfl, if_true,
      Except.ok.injEq] at hb
    subst hb
    simp only [attPacketVal, layoutOf_v1, if_true, c_sigAtt]
    constructor
    · apply valWF_arr_append _ hx.pkt (by simp; have := hx.pktLen; omega)
      intro y hy
      simp only [List.mem_cons, List.not_mem_nil, or_false] at hy
      rcases hy with rfl | rfl
      · exact ValWF.bin _ (by rw [hS.sig_len]; decide)
      · exact ValWF.bin _ hc
    · exact viewSigBlock_v1_extras _ _ o.packetExtras
  · simp only [Sign.blockStruct, attachedSignatureInput, show v2.major = 2 from rfl,
      show ¬ ((2 : Int) = 1) by decide, if_true, if_false, Except.ok.injEq] at hb
    subst hb
    simp only [attPacketVal, layoutOf_v2, show ¬ ((2 : Nat) = 1) by decide, if_false, c_sigAtt, c_final]
    constructor
    · apply valWF_arr_append _ hx.pkt (by simp; have := hx.pktLen; omega)
      intro y hy
      simp only [List.mem_cons, List.not_mem_nil, or_false] at hy
      rcases hy with rfl | rfl | rfl
      · exact ValWF.bool _
      · exact ValWF.bin _ (by rw [hS.sig_len]; decide)
      · exact ValWF.bin _ hc
    · exact viewSigBlock_v2_extras _ _ f o.packetExtras

theorem attPackets_facts (P : Prims) (hS : WireSizes P) (v : Version) (hv : v = v1 ∨ v = v2) (o : Opts)
    (hx : ExtrasWF o) (signer hh : Bytes) :
    ∀ (pl : List (Bytes × Bool)) (k : Nat) (blks : List SigBlock),
      (∀ p ∈ pl, p.1.length < 2 ^ 32) →
      Sign.blockStructs P v signer hh pl k = .ok blks →
      (∀ x ∈ (pl.zipIdx k).map (fun x => attPacketVal P (layoutOf v) o signer hh x.2 x.1.1 x.1.2), ValWF x) ∧
      ((pl.zipIdx k).map (fun x => attPacketVal P (layoutOf v) o signer hh x.2 x.1.1 x.1.2)).map
        (viewSigBlock v.major) = (blks.map (sigAsRead v)).map some := by
  intro pl
  induction pl with
  | nil =>
    intro k blks _ h
    simp only [Sign.blockStructs, Except.ok.injEq] at h
    subst h
    exact ⟨by simp, rfl⟩
  | cons p pl ih =>
    intro k blks hsz h
    obtain ⟨c, f⟩ := p
    simp only [Sign.blockStructs] at h
    split at h
    · rename_i b bs hb hbs
      cases h
      obtain ⟨i1, i2⟩ := ih (k + 1) bs (fun q hq => hsz q (by simp [hq])) hbs
      obtain ⟨f1, f2⟩ := attPacketVal_facts P hS v hv o hx signer hh k c f (hsz (c, f) (by simp)) b hb
      rw [List.zipIdx_cons, List.map_cons]
      constructor
      · intro x hxm
        rcases List.mem_cons.1 hxm with rfl | hxm
        · exact f1
        · exact i1 x hxm
      · rw [List.map_cons, List.map_cons, List.map_cons, i2, f2]
    · cases h
    · cases h

theorem sigAsRead_major {v w : Version} (h : w.major = v.major) : sigAsRead w = sigAsRead v := by
  funext b
  simp only [sigAsRead, h]

end Extras
open Extras

/-- **Attached signature, bytes → structures, for the reference sender with extras** -/
theorem wire_spec_sig (P : Prims) (hS : WireSizes P) (v : Version) (hv : v = v1 ∨ v = v2)
    (o : Opts) (ho : SpecFollowing o) (hx : ExtrasWF o)
    (signer nonce : Bytes) (plan : List (Bytes × Bool)) (hn : nonce.length < 2 ^ 32)
    (hchunks : ∀ p ∈ plan, p.1.length < 2 ^ 32)
    (hhb : (encode (sigHeaderVal (layoutOf v) o sModeAttached (P.sigPub signer) nonce)).length < 2 ^ 32) :
    ∃ h hb blks, SigSent P v o.minor signer nonce plan h hb blks ∧
      hb = encode (sigHeaderVal (layoutOf v) o sModeAttached (P.sigPub signer) nonce) ∧
      Wire.splitSig (Spec.attachedPlan P (layoutOf v) o signer nonce plan) =
        .ok (.ok hb h, ⟨(blks.map (sigAsRead v)).map some, .eof⟩) := by
  obtain ⟨hb, hhbdef⟩ : ∃ hb, hb = encode (sigHeaderVal (layoutOf v) o sModeAttached (P.sigPub signer) nonce) :=
    ⟨_, rfl⟩
  rw [← hhbdef] at hhb
  obtain ⟨blks, hbl⟩ := RTSig.sign_blockStructs_ok P v hv signer (P.hash hb) plan 0
  obtain ⟨hvals, hviews⟩ := attPackets_facts P hS v hv o hx signer (P.hash hb) plan 0 blks hchunks hbl
  refine ⟨_, hb, blks, ⟨rfl, hbl⟩, hhbdef, ?_⟩
  rw [attachedPlan_eq, ← hhbdef]
  unfold Wire.splitSig
  have hview := sigHeaderVal_view v hv o ho sModeAttached (P.sigPub signer) nonce
  have hwf := sigHeaderVal_wf P hS v hv o ho hx sModeAttached (Or.inl rfl) signer nonce hn
  have hlen : (encode (sigHeaderVal (layoutOf v) o sModeAttached (P.sigPub signer) nonce)).length < 2 ^ 32 := by
    rw [← hhbdef]; exact hhb
  have := WireRT.split_encoded (viewH := viewSigHeader) (viewB := fun h => viewSigBlock h.version.major)
    (hval := sigHeaderVal (layoutOf v) o sModeAttached (P.sigPub signer) nonce) (hwf := hwf)
    (h := Sign.header ⟨v.major, o.minor⟩ (P.sigPub signer) sModeAttached nonce)
    (hview := hview) (hlen := hlen) (hvals := hvals) (bl := blks.map (sigAsRead v)) (hitems := hviews)
  rw [← hhbdef] at this
  exact this

/-- **C09 end to end, attached signatures**: the bytes of the reference sender —
    any minor version, extras in header and packets, any valid chunk plan —
    split by the verifier's reader and verified, give the chunks' concatenation
    and the signer's key. -/
theorem spec_sig_accepted (P : Prims) (hP : P.Lawful) (v : Version) (hv : v = v1 ∨ v = v2)
    (o : Opts) (ho : SpecFollowing o) (hx : ExtrasWF o)
    (signer nonce : Bytes) (plan : List (Bytes × Bool)) (hplan : ValidPlan v plan)
    (hn : nonce.length < 2 ^ 32) (hchunks : ∀ p ∈ plan, p.1.length < 2 ^ 32)
    (hhb : (encode (sigHeaderVal (layoutOf v) o sModeAttached (P.sigPub signer) nonce)).length < 2 ^ 32)
    (kr : Keyring) (hk : kr.lookupSigningPublicKey (P.sigPub signer) = some (P.sigPub signer)) :
    ∃ hr ps, Wire.splitSig (Spec.attachedPlan P (layoutOf v) o signer nonce plan) = .ok (hr, ps) ∧
      Sign.verifyAll P knownMajor kr hr ps = .ok (P.sigPub signer, (plan.map (·.1)).flatten) := by
  have hS := WireSizes.of_lawful hP
  obtain ⟨h, hb, blks, hsent, _, hsplit⟩ := wire_spec_sig P hS v hv o ho hx signer nonce plan hn hchunks hhb
  refine ⟨_, _, hsplit, ?_⟩
  have hmaj : h.version.major = v.major := by rw [hsent.hdr]; rfl
  rw [← sigAsRead_major hmaj, WireRT.verifyAll_asRead]
  exact sign_roundtrip_gen P hP v hv o.minor signer nonce plan hplan.final hplan.empty_v1 hplan.empty_v2 kr hk
    h hb blks hsent

/-- **C09 end to end, detached signatures**: the bytes of the reference sender
    (any minor version, extras in the header) split into header and signature
    object, and the signature verifies against the message. -/
theorem spec_detached_accepted (P : Prims) (hP : P.Lawful) (v : Version) (hv : v = v1 ∨ v = v2)
    (o : Opts) (ho : SpecFollowing o) (hx : ExtrasWF o)
    (signer nonce msg : Bytes) (hn : nonce.length < 2 ^ 32)
    (hhb : (encode (sigHeaderVal (layoutOf v) o sModeDetached (P.sigPub signer) nonce)).length < 2 ^ 32)
    (kr : Keyring) (hk : kr.lookupSigningPublicKey (P.sigPub signer) = some (P.sigPub signer)) :
    ∃ hr sr, Wire.splitDetached (Spec.detached P (layoutOf v) o signer nonce msg) = .ok (hr, sr) ∧
      Sign.verifyDetached P knownMajor kr hr sr msg = .ok (P.sigPub signer) := by
  have hS := WireSizes.of_lawful hP
  have hview := sigHeaderVal_view v hv o ho sModeDetached (P.sigPub signer) nonce
  have hwf := sigHeaderVal_wf P hS v hv o ho hx sModeDetached (Or.inr rfl) signer nonce hn
  have hsplit : Wire.splitDetached (Spec.detached P (layoutOf v) o signer nonce msg) =
      .ok (.ok (encode (sigHeaderVal (layoutOf v) o sModeDetached (P.sigPub signer) nonce))
            (Sign.header ⟨v.major, o.minor⟩ (P.sigPub signer) sModeDetached nonce),
           .sig (P.sign signer (sSigDetached ++ P.hash (P.hash
              (encode (sigHeaderVal (layoutOf v) o sModeDetached (P.sigPub signer) nonce)) ++ msg)))) := by
    have hsig : ∀ sg : Bytes, sg.length < 2 ^ 32 → Wire.readBytesObj (encBin sg) = .ok (.ok sg, []) := by
      intro sg hsg
      have := WireRT.readBytesObj_bin sg [] hsg
      rwa [List.append_nil] at this
    unfold Spec.detached Wire.splitDetached
    simp only [sigHeaderBytes_eq]
    rw [WireRT.readBytesObj_bin _ _ hhb]
    simp only []
    rw [WireRT.decodeHeader_encode viewSigHeader _ hwf _ hview]
    have hs := hsig (P.sign signer (sSigDetached ++ P.hash (P.hash
      (encode (sigHeaderVal (layoutOf v) o sModeDetached (P.sigPub signer) nonce)) ++ msg)))
      (by rw [hS.sig_len]; decide)
    simp only [hs]
  refine ⟨_, _, hsplit, ?_⟩
  have := detached_roundtrip_gen P hP v hv o.minor signer nonce msg
    (encode (sigHeaderVal (layoutOf v) o sModeDetached (P.sigPub signer) nonce)) kr hk
  simp only [detachedSignatureInput, detachedSignatureInputFromHash, ← c_sigDet] at this
  exact this

/-! ## signcryption -/

namespace Extras

/-- the header value `Spec.signcryptPlan` encodes -/
def scHeaderVal (P : Prims) (o : Opts) (sender : Option Bytes) (rs : List Signcrypt.Recipient) (eph pk : Bytes) : Val :=
  .arr ([.str o.formatName, versionVal 2 o, .int (o.typ.getD sModeSigncryption), .bin (P.boxPub eph),
      .bin (P.sbSeal pk sNonceSenderKey (match sender with | none => zeros 32 | some s => P.sigPub s)),
      .arr (rs.zipIdx.map (fun (r, i) => scRecipientVal P o eph pk i r))] ++ o.headerExtras)

/-- the value of one payload packet of `Spec.signcryptPlan` -/
def scPacketVal (P : Prims) (o : Opts) (sender : Option Bytes) (pk hh : Bytes) (i : Nat) (c : Bytes) (f : Bool) : Val :=
  let nonce := sHashNonce hh f i
  let sig := match sender with
    | none => zeros 64
    | some s => P.sign s (sSigEncrypted ++ hh ++ nonce ++ sFinal f ++ P.hash c)
  .arr ([.bin (P.sbSeal pk nonce (sig ++ c)), .bool f] ++ o.packetExtras)

theorem signcryptPlan_eq (P : Prims) (o : Opts) (sender : Option Bytes) (rs : List Signcrypt.Recipient)
    (eph pk : Bytes) (pl : List (Bytes × Bool)) :
    Spec.signcryptPlan P o sender rs eph pk pl =
      headerPacket (encode (scHeaderVal P o sender rs eph pk)) ++
        (pl.zipIdx.map (fun x => scPacketVal P o sender pk
          (P.hash (encode (scHeaderVal P o sender rs eph pk))) x.2 x.1.1 x.1.2)).flatMap encode := by
  rw [← flatMap_encode_map]
  rfl

theorem scRecipient_o (P : Prims) (o : Opts) (eph pk : Bytes) (i : Nat) (r : Signcrypt.Recipient) :
    scRecipientVal P o eph pk i r =
      .arr ([optBin (Signcrypt.receiverEntry P eph pk i r).kid, .bin (Signcrypt.receiverEntry P eph pk i r).box] ++
        o.recvExtras) := by
  cases r with
  | box pub =>
    simp only [scRecipientVal, Signcrypt.receiverEntry, optBin,
      Signcrypt.derivedKeyFromBoxKeys, Signcrypt.keyIdentifier, c_recip, c_derived, c_ctxBox]
  | sym key ident =>
    simp only [scRecipientVal, Signcrypt.receiverEntry, optBin,
      Signcrypt.symDerivedKey, c_recip, c_ctxSym]

theorem viewScRecipients_o (P : Prims) (o : Opts) (eph pk : Bytes) :
    ∀ (rs : List Signcrypt.Recipient) (k : Nat),
      viewList viewRecvKeys ((rs.zipIdx k).map (fun x => scRecipientVal P o eph pk x.2 x.1)) =
        some (Signcrypt.receiverEntries P eph pk rs k) := by
  intro rs
  induction rs with
  | nil => intro k; rfl
  | cons r rs ih =>
    intro k
    rw [List.zipIdx_cons, List.map_cons, viewList, ih (k + 1), scRecipient_o]
    have := viewRecvKeys_extras (Signcrypt.receiverEntry P eph pk k r) o.recvExtras
    rw [this]
    rfl

theorem scRecipients_wf (P : Prims) (hS : WireSizes P) (o : Opts) (hx : ExtrasWF o) (eph pk : Bytes)
    (hpk : pk.length + 16 < 2 ^ 32) :
    ∀ (rs : List Signcrypt.Recipient) (k : Nat),
      (∀ key ident, Signcrypt.Recipient.sym key ident ∈ rs → ident.length < 2 ^ 32) →
      ∀ x ∈ (rs.zipIdx k).map (fun x => scRecipientVal P o eph pk x.2 x.1), ValWF x := by
  intro rs
  induction rs with
  | nil => intro k _ x hxm; simp at hxm
  | cons r rs ih =>
    intro k hid x hxm
    rw [List.zipIdx_cons, List.map_cons, List.mem_cons] at hxm
    rcases hxm with rfl | hxm
    · rw [scRecipient_o]
      obtain ⟨hbox, hkid⟩ := WireRT.sc_entries_sizes P hS eph pk (2 ^ 32 - 1) (by decide) [r] k
        (fun key ident hm => by
          have hm' : Signcrypt.Recipient.sym key ident = r := by simpa using hm
          have := hid key ident (by simp [hm'])
          omega)
        (Signcrypt.receiverEntry P eph pk k r) (by simp [Signcrypt.receiverEntries])
      apply valWF_arr_append _ hx.recv (by simp; have := hx.recvLen; omega)
      intro y hy
      simp only [List.mem_cons, List.not_mem_nil, or_false] at hy
      rcases hy with rfl | rfl
      · cases hk : (Signcrypt.receiverEntry P eph pk k r).kid with
        | none => exact ValWF.nil
        | some kid => exact ValWF.bin _ (by have := hkid kid hk; omega)
      · exact ValWF.bin _ (by rw [hbox]; exact hpk)
    · exact ih (k + 1) (fun key ident hm => hid key ident (by simp [hm])) x hxm

theorem scHeaderVal_view (P : Prims) (o : Opts) (ho : SpecFollowing o)
    (sender : Option Bytes) (rs : List Signcrypt.Recipient) (eph pk : Bytes) :
    viewEncHeader (scHeaderVal P o sender rs eph pk) =
      some (withMinor (Signcrypt.header P sender eph pk rs) o.minor) := by
  have hrl := viewScRecipients_o P o eph pk rs 0
  simp only [scHeaderVal, versionVal_view _ o ho, ho.fmt, ho.typ, List.cons_append, List.nil_append,
    viewEncHeader, viewBytes, viewVersion, viewInt, Option.getD_none]
  rw [show (List.map (fun x : Signcrypt.Recipient × Nat =>
      match x with | (r, i) => scRecipientVal P o eph pk i r) rs.zipIdx) =
    (rs.zipIdx 0).map (fun x => scRecipientVal P o eph pk x.2 x.1) from rfl, hrl]
  simp only [withMinor, Signcrypt.header, c_format, c_senderKey, mtSigncryption, sModeSigncryption]
  rfl

theorem scHeaderVal_wf (P : Prims) (hS : WireSizes P) (o : Opts) (ho : SpecFollowing o) (hx : ExtrasWF o)
    (sender : Option Bytes) (rs : List Signcrypt.Recipient) (eph pk : Bytes) (hpk : pk.length + 16 < 2 ^ 32)
    (hid : ∀ key ident, Signcrypt.Recipient.sym key ident ∈ rs → ident.length < 2 ^ 32)
    (hn : rs.length < 2 ^ 32) :
    ValWF (scHeaderVal P o sender rs eph pk) := by
  unfold scHeaderVal
  apply valWF_arr_append _ hx.hdr (by simp; have := hx.hdrLen; omega)
  intro x hxm
  simp only [List.mem_cons, List.not_mem_nil, or_false] at hxm
  rcases hxm with rfl | rfl | rfl | rfl | rfl | rfl
  · rw [ho.fmt, c_format]; exact ValWF.str _ (by decide)
  · exact versionVal_wf _ (by decide) o ho hx
  · rw [ho.typ]; exact ValWF.int _ (by decide) (by decide)
  · exact ValWF.bin _ (by rw [hS.pub_len]; decide)
  · refine ValWF.bin _ ?_
    rw [hS.sb_len]
    cases sender with
    | none => simp [zeros]
    | some s => simp [hS.sigPub_len]
  · apply ValWF.arr _ (by rw [List.length_map, List.length_zipIdx]; exact hn)
    exact scRecipients_wf P hS o hx eph pk hpk rs 0 hid

theorem scPacketVal_facts (P : Prims) (hS : WireSizes P) (o : Opts) (hx : ExtrasWF o) (sender : Option Bytes)
    (pk hh : Bytes) (i : Nat) (c : Bytes) (f : Bool) (hc : c.length + 80 < 2 ^ 32) (b : SigncryptBlock)
    (hb : Signcrypt.blockStruct P sender pk hh i c f = .ok b) :
    ValWF (scPacketVal P o sender pk hh i c f) ∧
    viewSigncryptBlock (scPacketVal P o sender pk hh i c f) = some b := by
  simp only [Signcrypt.blockStruct] at hb
  split at hb
  · cases hb
  · cases hb
    have heq : scPacketVal P o sender pk hh i c f =
        .arr ([.bin (P.sbSeal pk (Nonce.chunkSigncryption hh f i)
          ((match sender with
            | none => zeros 64
            | some s => P.sign s (signcryptionSignatureInput P hh (Nonce.chunkSigncryption hh f i) f c)) ++ c)),
          .bool f] ++ o.packetExtras) := by
      simp only [scPacketVal, c_hashNonce, c_final, c_sigEnc, Nonce.chunkSigncryption, signcryptionSignatureInput]
    rw [heq]
    constructor
    · apply valWF_arr_append _ hx.pkt (by simp; have := hx.pktLen; omega)
      intro y hy
      simp only [List.mem_cons, List.not_mem_nil, or_false] at hy
      rcases hy with rfl | rfl
      · refine ValWF.bin _ ?_
        rw [hS.sb_len, List.length_append]
        cases sender with
        | none => simp [zeros]; omega
        | some s => simp only [hS.sig_len]; omega
      · exact ValWF.bool _
    · exact viewSigncryptBlock_extras _ f o.packetExtras

theorem scPackets_facts (P : Prims) (hS : WireSizes P) (o : Opts) (hx : ExtrasWF o) (sender : Option Bytes)
    (pk hh : Bytes) :
    ∀ (pl : List (Bytes × Bool)) (k : Nat) (blks : List SigncryptBlock),
      (∀ p ∈ pl, p.1.length + 80 < 2 ^ 32) →
      Signcrypt.blockStructs P sender pk hh pl k = .ok blks →
      (∀ x ∈ (pl.zipIdx k).map (fun x => scPacketVal P o sender pk hh x.2 x.1.1 x.1.2), ValWF x) ∧
      ((pl.zipIdx k).map (fun x => scPacketVal P o sender pk hh x.2 x.1.1 x.1.2)).map viewSigncryptBlock =
        blks.map some := by
  intro pl
  induction pl with
  | nil =>
    intro k blks _ h
    simp only [Signcrypt.blockStructs, Except.ok.injEq] at h
    subst h
    exact ⟨by simp, rfl⟩
  | cons p pl ih =>
    intro k blks hsz h
    obtain ⟨c, f⟩ := p
    simp only [Signcrypt.blockStructs] at h
    split at h
    · rename_i b bs hb hbs
      cases h
      obtain ⟨i1, i2⟩ := ih (k + 1) bs (fun q hq => hsz q (by simp [hq])) hbs
      obtain ⟨f1, f2⟩ := scPacketVal_facts P hS o hx sender pk hh k c f (hsz (c, f) (by simp)) b hb
      rw [List.zipIdx_cons, List.map_cons]
      constructor
      · intro x hxm
        rcases List.mem_cons.1 hxm with rfl | hxm
        · exact f1
        · exact i1 x hxm
      · rw [List.map_cons, List.map_cons, i2, f2]
    · cases h
    · cases h

end Extras
open Extras

/-- **Signcryption, bytes → structures, for the reference sender with extras** -/
theorem wire_spec_signcrypt (P : Prims) (hS : WireSizes P)
    (o : Opts) (ho : SpecFollowing o) (hx : ExtrasWF o)
    (sender : Option Bytes) (rs : List Signcrypt.Recipient) (eph pk : Bytes) (plan : List (Bytes × Bool))
    (hcr : Signcrypt.checkReceivers rs [] = .ok ())
    (hpk : pk.length + 16 < 2 ^ 32)
    (hid : ∀ key ident, Signcrypt.Recipient.sym key ident ∈ rs → ident.length < 2 ^ 32)
    (hchunks : ∀ p ∈ plan, p.1.length + 80 < 2 ^ 32) (hblocks : plan.length ≤ 2 ^ 64 - 1)
    (hhb : (encode (scHeaderVal P o sender rs eph pk)).length < 2 ^ 32) :
    ∃ h hb blks, ScSent P o.minor sender rs eph pk plan h hb blks ∧
      hb = encode (scHeaderVal P o sender rs eph pk) ∧
      Wire.splitSigncrypt (Spec.signcryptPlan P o sender rs eph pk plan) =
        .ok (.ok hb h, ⟨blks.map some, .eof⟩) := by
  have hcount := WireRT.sc_checkReceivers_count hcr
  obtain ⟨hb, hhbdef⟩ : ∃ hb, hb = encode (scHeaderVal P o sender rs eph pk) := ⟨_, rfl⟩
  rw [← hhbdef] at hhb
  obtain ⟨blks, hbl, _⟩ := sc_blockStructs_ok P sender pk (P.hash hb) plan 0 (by omega)
  obtain ⟨hvals, hviews⟩ := scPackets_facts P hS o hx sender pk (P.hash hb) plan 0 blks hchunks hbl
  refine ⟨_, hb, blks, ⟨hcr, rfl, hbl⟩, hhbdef, ?_⟩
  rw [signcryptPlan_eq, ← hhbdef]
  unfold Wire.splitSigncrypt
  have hview := scHeaderVal_view P o ho sender rs eph pk
  have hwf := scHeaderVal_wf P hS o ho hx sender rs eph pk hpk hid hcount
  have hlen : (encode (scHeaderVal P o sender rs eph pk)).length < 2 ^ 32 := by rw [← hhbdef]; exact hhb
  have := WireRT.split_encoded (viewH := viewEncHeader) (viewB := fun _ => viewSigncryptBlock)
    (hval := scHeaderVal P o sender rs eph pk) (hwf := hwf)
    (h := withMinor (Signcrypt.header P sender eph pk rs) o.minor)
    (hview := hview) (hlen := hlen) (hvals := hvals) (bl := blks) (hitems := hviews)
  rw [← hhbdef] at this
  exact this

/-- **C09 end to end, signcryption, box-key recipient**: the bytes of the
    reference sender — any minor version, extras everywhere, any valid chunk
    plan — split by the receiver's reader and opened with any keyring that holds
    the recipient's box key (with or without a resolver). -/
theorem spec_signcrypt_accepted (P : Prims) (hP : P.Lawful)
    (o : Opts) (ho : SpecFollowing o) (hx : ExtrasWF o)
    (sender : Option Bytes) (rs : List Signcrypt.Recipient) (eph payloadKey : Bytes)
    (plan : List (Bytes × Bool)) (hplan : ValidPlan v2 plan)
    (hcr : Signcrypt.checkReceivers rs [] = .ok ())
    (hpk : payloadKey.length = 32)
    (hsender : ∀ s, sender = some s → ¬ ((P.sigPub s).all (· == 0)))
    (hidLen : ∀ key ident, Signcrypt.Recipient.sym key ident ∈ rs → ident.length < 2 ^ 32)
    (hchunks : ∀ p ∈ plan, p.1.length + 80 < 2 ^ 32) (hblocks : plan.length < 2 ^ 64 - 1)
    (hhb : (encode (scHeaderVal P o sender rs eph payloadKey)).length < 2 ^ 32)
    (sks : List Bytes) (res : Signcrypt.Resolver)
    (i : Nat) (hi : i < rs.length) (sk : Bytes) (hmem : sk ∈ sks) (hsk : rs.getD i default = .box (P.boxPub sk))
    (hnc : ScRingNoCollision P eph rs (Signcrypt.header P sender eph payloadKey rs) sks i) :
    ∃ hr ps, Wire.splitSigncrypt (Spec.signcryptPlan P o sender rs eph payloadKey plan) = .ok (hr, ps) ∧
      Signcrypt.openAll P (faithfulKeyring P sks) res hr ps =
        .ok (sender.map P.sigPub, (plan.map (·.1)).flatten) := by
  have hS := WireSizes.of_lawful hP
  obtain ⟨h, hb, blks, hsent, _, hsplit⟩ := wire_spec_signcrypt P hS o ho hx sender rs eph payloadKey plan hcr
    (by omega) hidLen hchunks (by omega) hhb
  refine ⟨_, _, hsplit, ?_⟩
  apply sc_roundtrip_box_ring P hP o.minor sender rs eph payloadKey plan hplan.final (hplan.empty_v2 rfl) hpk
    hsender hblocks sks res i hi sk hmem hsk h hb blks hsent
  rw [hsent.hdr]
  exact hnc

end Saltpack.Proofs
