/-
  The three receivers (decrypt.go, signcrypt_open.go, verify_stream.go) read
  through `chunkReader` (chunk_reader.go).  The model's `Decrypt.run`,
  `Signcrypt.run` and `Sign.run` are written directly as "read to the end".
  Here each receiver's `getNextChunk` is written as a per-call chunker
  (`rxNext`), `crReadAll_eq` (ChunkReaderAll.lean) is instantiated with it, and
  the result is stated about the model's own read-to-end functions: reading
  the receiver through `crRead` with ANY schedule of positive buffer sizes
  releases exactly the bytes of the read-to-end function and then the same
  condition.

  Core Lean only.
-/
import Saltpack.Proofs.ChunkReaderAll
import Saltpack.Model.Decrypt
import Saltpack.Model.Signcrypt
import Saltpack.Model.Sign

namespace Saltpack.Proofs
open Saltpack Saltpack.Stream

/-! ### the generic receiver chunker -/

/-- the state of a receiver's `getNextChunk`: remaining decoded objects, what
    the decoder reports after them, the packet sequence number, and the
    condition already returned (Go: `chunkReader` never calls `getNextChunk`
    again after a condition; the model chunker just repeats it) -/
structure RxState (β : Type) where
  items : List (Option β)
  tail : Tail
  seqno : Nat
  done : Option RErr := none

/-- the condition a reader reports for the read-to-end outcome: `none` (clean
    end of message) is `io.EOF` -/
def toRErr : Option Err → RErr
  | none => .eof
  | some e => .err e

/-- reading one more block when the decoder has no more objects:
    `io.EOF` becomes `io.ErrUnexpectedEOF`, any other error is passed on -/
def tailErr : Tail → Err
  | .eof => .unexpectedEOF
  | .err e => e

/-- `step b seqno` = `processBlock` + `checkDecodedChunkState` for one packet:
    the plaintext chunk and whether it is final, or the error -/
abbrev RxStep (β : Type) := β → Nat → Except Err (Bytes × Bool)

/-- `getNextChunk`: `(nil, err)` on a read / process / chunk-state error,
    `(chunk, assertEndOfStream)` on the final block, `(chunk, nil)` otherwise -/
def rxNext {β : Type} (step : RxStep β) (s : RxState β) : Bytes × Option RErr × RxState β :=
  match s.done with
  | some c => ([], some c, s)
  | none =>
    match s.items with
    | [] => ([], some (.err (tailErr s.tail)), { s with done := some (.err (tailErr s.tail)) })
    | none :: _ => ([], some (.err .decodeError), { s with done := some (.err .decodeError) })
    | some b :: rest =>
      match step b s.seqno with
      | .error e => ([], some (.err e), { s with done := some (.err e) })
      | .ok (chunk, true) =>
        (chunk, some (toRErr (Decrypt.endOfStream rest s.tail)),
          { s with items := rest, done := some (toRErr (Decrypt.endOfStream rest s.tail)) })
      | .ok (chunk, false) => (chunk, none, { s with items := rest, seqno := s.seqno + 1 })

/-- the generic read-to-end (same recursion as `Decrypt.run`, `Signcrypt.run`, `Sign.run`) -/
def rxRun {β : Type} (step : RxStep β) : List (Option β) → Tail → (seqno : Nat) → Released
  | [], tail, _ => ⟨[], some (tailErr tail)⟩
  | none :: _, _, _ => ⟨[], some .decodeError⟩
  | some b :: rest, tail, seqno =>
    match step b seqno with
    | .error e => ⟨[], some e⟩
    | .ok (chunk, true) => ⟨chunk, Decrypt.endOfStream rest tail⟩
    | .ok (chunk, false) =>
      let r := rxRun step rest tail (seqno + 1)
      ⟨chunk ++ r.bytes, r.err⟩

/-- the chunks `getNextChunk` hands out, call by call, up to and including the
    one that comes with the condition -/
def rxChunks {β : Type} (step : RxStep β) : List (Option β) → Tail → (seqno : Nat) → List Bytes
  | [], _, _ => [[]]
  | none :: _, _, _ => [[]]
  | some b :: rest, tail, seqno =>
    match step b seqno with
    | .error _ => [[]]
    | .ok (chunk, true) => [chunk]
    | .ok (chunk, false) => chunk :: rxChunks step rest tail (seqno + 1)

/-- the initial state of a receiver's chunker -/
def rxInit {β : Type} (items : List (Option β)) (tail : Tail) (seqno : Nat) : RxState β :=
  ⟨items, tail, seqno, none⟩

section
variable {β : Type} (step : RxStep β)

/-! #### one call -/

theorem rxNext_done (s : RxState β) (c : RErr) (h : s.done = some c) : rxNext step s = ([], some c, s) := by
  simp only [rxNext, h]

theorem rxNext_nil (tail : Tail) (n : Nat) :
    rxNext step ⟨[], tail, n, none⟩ =
      ([], some (.err (tailErr tail)), ⟨[], tail, n, some (.err (tailErr tail))⟩) := rfl

theorem rxNext_undecodable (rest : List (Option β)) (tail : Tail) (n : Nat) :
    rxNext step ⟨none :: rest, tail, n, none⟩ =
      ([], some (.err .decodeError), ⟨none :: rest, tail, n, some (.err .decodeError)⟩) := rfl

theorem rxNext_error {b : β} {n : Nat} {e : Err} (rest : List (Option β)) (tail : Tail)
    (h : step b n = .error e) :
    rxNext step ⟨some b :: rest, tail, n, none⟩ =
      ([], some (.err e), ⟨some b :: rest, tail, n, some (.err e)⟩) := by
  simp only [rxNext, h]

theorem rxNext_final {b : β} {n : Nat} {c : Bytes} (rest : List (Option β)) (tail : Tail)
    (h : step b n = .ok (c, true)) :
    rxNext step ⟨some b :: rest, tail, n, none⟩ =
      (c, some (toRErr (Decrypt.endOfStream rest tail)),
        ⟨rest, tail, n, some (toRErr (Decrypt.endOfStream rest tail))⟩) := by
  simp only [rxNext, h]

theorem rxNext_more {b : β} {n : Nat} {c : Bytes} (rest : List (Option β)) (tail : Tail)
    (h : step b n = .ok (c, false)) :
    rxNext step ⟨some b :: rest, tail, n, none⟩ = (c, none, ⟨rest, tail, n + 1, none⟩) := by
  simp only [rxNext, h]

/-- a chunker never produces the `chunkReader` panic case (empty chunk and
    nil error), provided a non-final step never yields an empty chunk -/
theorem rxNext_no_panic (hstep : ∀ b n c, step b n = .ok (c, false) → c ≠ []) (s : RxState β) :
    (rxNext step s).1 ≠ [] ∨ (rxNext step s).2.1 ≠ none := by
  obtain ⟨items, tail, n, done⟩ := s
  cases done with
  | some c => right; rw [rxNext_done step _ c rfl]; simp
  | none =>
    cases items with
    | nil => right; rw [rxNext_nil]; simp
    | cons it rest =>
      cases it with
      | none => right; rw [rxNext_undecodable]; simp
      | some b =>
        obtain ⟨r, hr⟩ : ∃ r, step b n = r := ⟨_, rfl⟩
        rcases r with e | ⟨c, f⟩
        · right; rw [rxNext_error step rest tail hr]; simp
        · cases f with
          | true => right; rw [rxNext_final step rest tail hr]; simp
          | false => left; rw [rxNext_more step rest tail hr]; exact hstep b n c hr

/-! #### the trace of a whole stream -/

theorem rxRun_error {b : β} {n : Nat} {e : Err} (rest : List (Option β)) (tail : Tail)
    (h : step b n = .error e) : rxRun step (some b :: rest) tail n = ⟨[], some e⟩ := by
  simp only [rxRun, h]

theorem rxRun_final {b : β} {n : Nat} {c : Bytes} (rest : List (Option β)) (tail : Tail)
    (h : step b n = .ok (c, true)) :
    rxRun step (some b :: rest) tail n = ⟨c, Decrypt.endOfStream rest tail⟩ := by
  simp only [rxRun, h]

theorem rxRun_more {b : β} {n : Nat} {c : Bytes} (rest : List (Option β)) (tail : Tail)
    (h : step b n = .ok (c, false)) :
    rxRun step (some b :: rest) tail n =
      ⟨c ++ (rxRun step rest tail (n + 1)).bytes, (rxRun step rest tail (n + 1)).err⟩ := by
  simp only [rxRun, h]

theorem rxChunks_error {b : β} {n : Nat} {e : Err} (rest : List (Option β)) (tail : Tail)
    (h : step b n = .error e) : rxChunks step (some b :: rest) tail n = [[]] := by
  simp only [rxChunks, h]

theorem rxChunks_final {b : β} {n : Nat} {c : Bytes} (rest : List (Option β)) (tail : Tail)
    (h : step b n = .ok (c, true)) : rxChunks step (some b :: rest) tail n = [c] := by
  simp only [rxChunks, h]

theorem rxChunks_more {b : β} {n : Nat} {c : Bytes} (rest : List (Option β)) (tail : Tail)
    (h : step b n = .ok (c, false)) :
    rxChunks step (some b :: rest) tail n = c :: rxChunks step rest tail (n + 1) := by
  simp only [rxChunks, h]

/-- calling `getNextChunk` until its first condition yields the chunks
    `rxChunks` and then the condition of the read-to-end function; one call
    per decoded object and one more suffice -/
theorem rx_chunkTrace : ∀ (items : List (Option β)) (tail : Tail) (seqno : Nat),
    chunkTrace (rxNext step) (items.length + 1) (rxInit items tail seqno) =
      (rxChunks step items tail seqno, some (toRErr (rxRun step items tail seqno).err)) := by
  intro items
  induction items with
  | nil => intro tail seqno; rfl
  | cons it rest ih =>
    intro tail seqno
    cases it with
    | none => rfl
    | some b =>
      obtain ⟨r, hr⟩ : ∃ r, step b seqno = r := ⟨_, rfl⟩
      rcases r with e | ⟨c, f⟩
      · rw [rxInit, List.length_cons, chunkTrace_succ_some _ _ (rxNext_error step rest tail hr),
          rxChunks_error step rest tail hr, rxRun_error step rest tail hr]
        rfl
      · cases f with
        | true =>
          rw [rxInit, List.length_cons, chunkTrace_succ_some _ _ (rxNext_final step rest tail hr),
            rxChunks_final step rest tail hr, rxRun_final step rest tail hr]
        | false =>
          have ih' := ih tail (seqno + 1)
          rw [rxInit] at ih'
          rw [rxInit, List.length_cons, chunkTrace_succ_none _ _ (rxNext_more step rest tail hr), ih',
            rxChunks_more step rest tail hr, rxRun_more step rest tail hr]

/-- the chunks concatenate to what the read-to-end function releases -/
theorem rxChunks_flatten : ∀ (items : List (Option β)) (tail : Tail) (seqno : Nat),
    (rxChunks step items tail seqno).flatten = (rxRun step items tail seqno).bytes := by
  intro items
  induction items with
  | nil => intro tail seqno; rfl
  | cons it rest ih =>
    intro tail seqno
    cases it with
    | none => rfl
    | some b =>
      obtain ⟨r, hr⟩ : ∃ r, step b seqno = r := ⟨_, rfl⟩
      rcases r with e | ⟨c, f⟩
      · rw [rxChunks_error step rest tail hr, rxRun_error step rest tail hr]; rfl
      · cases f with
        | true => rw [rxChunks_final step rest tail hr, rxRun_final step rest tail hr]; simp
        | false =>
          rw [rxChunks_more step rest tail hr, rxRun_more step rest tail hr, List.flatten_cons,
            ih tail (seqno + 1)]

theorem rxChunks_ne_nil (items : List (Option β)) (tail : Tail) (seqno : Nat) :
    rxChunks step items tail seqno ≠ [] :=
  chunkTrace_ne_nil (rxNext step) _ _ _ _ (rx_chunkTrace step items tail seqno)

/-- every chunk before the one that carries the condition is non-empty, so
    `chunkReader` never meets its panic case -/
theorem rxChunks_dropLast_ne_nil (hstep : ∀ b n c, step b n = .ok (c, false) → c ≠ []) :
    ∀ (items : List (Option β)) (tail : Tail) (seqno : Nat),
      ∀ c ∈ (rxChunks step items tail seqno).dropLast, c ≠ [] := by
  intro items
  induction items with
  | nil => intro tail seqno c hc; simp [rxChunks] at hc
  | cons it rest ih =>
    intro tail seqno c hc
    cases it with
    | none => simp [rxChunks] at hc
    | some b =>
      obtain ⟨r, hr⟩ : ∃ r, step b seqno = r := ⟨_, rfl⟩
      rcases r with e | ⟨c0, f⟩
      · rw [rxChunks_error step rest tail hr] at hc; simp at hc
      · cases f with
        | true => rw [rxChunks_final step rest tail hr] at hc; simp at hc
        | false =>
          rw [rxChunks_more step rest tail hr,
            List.dropLast_cons_of_ne_nil (rxChunks_ne_nil step rest tail (seqno + 1))] at hc
          rcases List.mem_cons.mp hc with rfl | hc'
          · exact hstep b seqno _ hr
          · exact ih tail (seqno + 1) c hc'

/-- **generic receiver through `chunkReader`.**  Reading the chunker with any
    schedule of positive buffer sizes releases exactly the bytes of the
    read-to-end function, then its condition (clean end ↔ `io.EOF`), and leaves
    the reader in the terminal state. -/
theorem rx_reads_any_size (hstep : ∀ b n c, step b n = .ok (c, false) → c ≠ [])
    (items : List (Option β)) (tail : Tail) (seqno : Nat)
    (caps : List Nat) (hcaps : ∀ c ∈ caps, 0 < c) (inner : Nat) (hi : items.length + 2 ≤ inner)
    (fuel : Nat) (hf : (rxRun step items tail seqno).bytes.length + 1 ≤ fuel) :
    let r := crReadAll (rxNext step) caps inner fuel 0 { chunker := rxInit items tail seqno } []
    r.1 = (rxRun step items tail seqno).bytes ∧
    r.2.1 = some (toRErr (rxRun step items tail seqno).err) ∧
    r.2.2.prevChunk = [] ∧
    r.2.2.prevErr = some (toRErr (rxRun step items tail seqno).err) := by
  have h := crReadAll_eq (rxNext step) (rxInit items tail seqno) (items.length + 1) _ _
    (rx_chunkTrace step items tail seqno) (rxChunks_dropLast_ne_nil step hstep items tail seqno)
    caps hcaps inner hi fuel (by rw [rxChunks_flatten]; exact hf)
  rw [rxChunks_flatten] at h
  exact h

/-- two schedules of buffer sizes give the same bytes and the same condition -/
theorem rx_reads_caps_independent (hstep : ∀ b n c, step b n = .ok (c, false) → c ≠ [])
    (items : List (Option β)) (tail : Tail) (seqno : Nat)
    (caps caps' : List Nat) (hcaps : ∀ c ∈ caps, 0 < c) (hcaps' : ∀ c ∈ caps', 0 < c)
    (inner inner' : Nat) (hi : items.length + 2 ≤ inner) (hi' : items.length + 2 ≤ inner')
    (fuel fuel' : Nat) (hf : (rxRun step items tail seqno).bytes.length + 1 ≤ fuel)
    (hf' : (rxRun step items tail seqno).bytes.length + 1 ≤ fuel') :
    (crReadAll (rxNext step) caps inner fuel 0 { chunker := rxInit items tail seqno } []).1 =
      (crReadAll (rxNext step) caps' inner' fuel' 0 { chunker := rxInit items tail seqno } []).1 ∧
    (crReadAll (rxNext step) caps inner fuel 0 { chunker := rxInit items tail seqno } []).2.1 =
      (crReadAll (rxNext step) caps' inner' fuel' 0 { chunker := rxInit items tail seqno } []).2.1 := by
  obtain ⟨a1, a2, _⟩ := rx_reads_any_size step hstep items tail seqno caps hcaps inner hi fuel hf
  obtain ⟨b1, b2, _⟩ := rx_reads_any_size step hstep items tail seqno caps' hcaps' inner' hi' fuel' hf'
  exact ⟨by rw [a1, b1], by rw [a2, b2]⟩

end

/-! ### `checkChunkState` rules out an empty non-final chunk, for every version

  V1: `(len == 0) != isFinal` must be false; V2: `len == 0 && (idx != 0 || !isFinal)`
  must be false; any other major version is an error.  No lawfulness of the
  primitives is needed: an error (also the model's panic marker) is returned
  by `getNextChunk` as `(nil, err)`, which is not `chunkReader`'s panic case. -/

theorem checkChunkState_nonfinal_ne_zero (v : Version) (len idx : Nat)
    (h : checkChunkState v len idx false = .ok ()) : len ≠ 0 := by
  intro h0
  subst h0
  unfold checkChunkState at h
  split at h
  · simp at h
  · split at h
    · simp at h
    · simp at h

/-! ### the three receivers -/

/-- decrypt.go: `processBlock` + `checkDecodedChunkState` -/
def decStep (P : Prims) (s : Decrypt.State) : RxStep EncBlock := fun b n =>
  match Decrypt.processBlock P s b (Decrypt.blockFinal s.version b) n with
  | .error e => .error e
  | .ok chunk =>
    match checkChunkState s.version chunk.length (n - 1) (Decrypt.blockFinal s.version b) with
    | .error e => .error e
    | .ok () => .ok (chunk, Decrypt.blockFinal s.version b)

/-- signcrypt_open.go -/
def scStep (P : Prims) (s : Signcrypt.State) : RxStep SigncryptBlock := fun b n =>
  match Signcrypt.processBlock P s b n with
  | .error e => .error e
  | .ok chunk =>
    match checkChunkState v2 chunk.length (n - 1) b.final with
    | .error e => .error e
    | .ok () => .ok (chunk, b.final)

/-- verify_stream.go -/
def verStep (P : Prims) (s : Sign.State) : RxStep SigBlock := fun b n =>
  match Sign.processBlock P s b (Sign.blockFinal s.version b) n with
  | .error e => .error e
  | .ok () =>
    match checkChunkState s.version b.chunk.length (n - 1) (Sign.blockFinal s.version b) with
    | .error e => .error e
    | .ok () => .ok (b.chunk, Sign.blockFinal s.version b)

/-- `decryptStream.getNextChunk` -/
def decNext (P : Prims) (s : Decrypt.State) := rxNext (decStep P s)
/-- `signcryptOpenStream.getNextChunk` -/
def scNext (P : Prims) (s : Signcrypt.State) := rxNext (scStep P s)
/-- `verifyStream.getNextChunk` -/
def verNext (P : Prims) (s : Sign.State) := rxNext (verStep P s)

theorem decStep_nonfinal (P : Prims) (s : Decrypt.State) :
    ∀ b n c, decStep P s b n = .ok (c, false) → c ≠ [] := by
  intro b n c h
  unfold decStep at h
  split at h
  · simp at h
  · split at h
    · simp at h
    · rename_i chunk _ hc
      simp only [Except.ok.injEq, Prod.mk.injEq] at h
      obtain ⟨rfl, hf⟩ := h
      rw [hf] at hc
      intro h0
      exact checkChunkState_nonfinal_ne_zero _ _ _ hc (by rw [h0]; rfl)

theorem scStep_nonfinal (P : Prims) (s : Signcrypt.State) :
    ∀ b n c, scStep P s b n = .ok (c, false) → c ≠ [] := by
  intro b n c h
  unfold scStep at h
  split at h
  · simp at h
  · split at h
    · simp at h
    · rename_i chunk _ hc
      simp only [Except.ok.injEq, Prod.mk.injEq] at h
      obtain ⟨rfl, hf⟩ := h
      rw [hf] at hc
      intro h0
      exact checkChunkState_nonfinal_ne_zero _ _ _ hc (by rw [h0]; rfl)

theorem verStep_nonfinal (P : Prims) (s : Sign.State) :
    ∀ b n c, verStep P s b n = .ok (c, false) → c ≠ [] := by
  intro b n c h
  unfold verStep at h
  split at h
  · simp at h
  · split at h
    · simp at h
    · rename_i _ hc
      simp only [Except.ok.injEq, Prod.mk.injEq] at h
      obtain ⟨rfl, hf⟩ := h
      rw [hf] at hc
      intro h0
      exact checkChunkState_nonfinal_ne_zero _ _ _ hc (by rw [h0]; rfl)

/-- the model's read-to-end function of decrypt.go is the generic one -/
theorem decrypt_run_eq (P : Prims) (s : Decrypt.State) :
    ∀ (items : List (Option EncBlock)) (tail : Tail) (seqno : Nat),
      Decrypt.run P s items tail seqno = rxRun (decStep P s) items tail seqno := by
  intro items
  induction items with
  | nil => intro tail seqno; cases tail <;> rfl
  | cons it rest ih =>
    intro tail seqno
    cases it with
    | none => rfl
    | some b =>
      obtain ⟨f, hf⟩ : ∃ f, Decrypt.blockFinal s.version b = f := ⟨_, rfl⟩
      obtain ⟨p, hp⟩ : ∃ p, Decrypt.processBlock P s b f seqno = p := ⟨_, rfl⟩
      rcases p with e | chunk
      · have hs : decStep P s b seqno = .error e := by simp only [decStep, hf, hp]
        rw [rxRun_error _ rest tail hs]
        simp only [Decrypt.run, hf, hp]
      · obtain ⟨q, hq⟩ : ∃ q, checkChunkState s.version chunk.length (seqno - 1) f = q := ⟨_, rfl⟩
        rcases q with e | u
        · have hs : decStep P s b seqno = .error e := by simp only [decStep, hf, hp, hq]
          rw [rxRun_error _ rest tail hs]
          simp only [Decrypt.run, hf, hp, hq]
        · cases f with
          | false =>
            have hs : decStep P s b seqno = .ok (chunk, false) := by simp only [decStep, hf, hp, hq]
            rw [rxRun_more _ rest tail hs, ← ih]
            simp [Decrypt.run, hf, hp, hq]
          | true =>
            have hs : decStep P s b seqno = .ok (chunk, true) := by simp only [decStep, hf, hp, hq]
            rw [rxRun_final _ rest tail hs]
            simp [Decrypt.run, hf, hp, hq]

theorem signcrypt_run_eq (P : Prims) (s : Signcrypt.State) :
    ∀ (items : List (Option SigncryptBlock)) (tail : Tail) (seqno : Nat),
      Signcrypt.run P s items tail seqno = rxRun (scStep P s) items tail seqno := by
  intro items
  induction items with
  | nil => intro tail seqno; cases tail <;> rfl
  | cons it rest ih =>
    intro tail seqno
    cases it with
    | none => rfl
    | some b =>
      obtain ⟨f, hf⟩ : ∃ f, b.final = f := ⟨_, rfl⟩
      obtain ⟨p, hp⟩ : ∃ p, Signcrypt.processBlock P s b seqno = p := ⟨_, rfl⟩
      rcases p with e | chunk
      · have hs : scStep P s b seqno = .error e := by simp only [scStep, hp]
        rw [rxRun_error _ rest tail hs]
        simp only [Signcrypt.run, hp]
      · obtain ⟨q, hq⟩ : ∃ q, checkChunkState v2 chunk.length (seqno - 1) f = q := ⟨_, rfl⟩
        rcases q with e | u
        · have hs : scStep P s b seqno = .error e := by simp only [scStep, hf, hp, hq]
          rw [rxRun_error _ rest tail hs]
          simp only [Signcrypt.run, hf, hp, hq]
        · cases f with
          | false =>
            have hs : scStep P s b seqno = .ok (chunk, false) := by simp only [scStep, hf, hp, hq]
            rw [rxRun_more _ rest tail hs, ← ih]
            simp [Signcrypt.run, hf, hp, hq]
          | true =>
            have hs : scStep P s b seqno = .ok (chunk, true) := by simp only [scStep, hf, hp, hq]
            rw [rxRun_final _ rest tail hs]
            simp [Signcrypt.run, hf, hp, hq]

theorem verify_run_eq (P : Prims) (s : Sign.State) :
    ∀ (items : List (Option SigBlock)) (tail : Tail) (seqno : Nat),
      Sign.run P s items tail seqno = rxRun (verStep P s) items tail seqno := by
  intro items
  induction items with
  | nil => intro tail seqno; cases tail <;> rfl
  | cons it rest ih =>
    intro tail seqno
    cases it with
    | none => rfl
    | some b =>
      obtain ⟨f, hf⟩ : ∃ f, Sign.blockFinal s.version b = f := ⟨_, rfl⟩
      obtain ⟨p, hp⟩ : ∃ p, Sign.processBlock P s b f seqno = p := ⟨_, rfl⟩
      rcases p with e | chunk
      · have hs : verStep P s b seqno = .error e := by simp only [verStep, hf, hp]
        rw [rxRun_error _ rest tail hs]
        simp only [Sign.run, hf, hp]
      · obtain ⟨q, hq⟩ : ∃ q, checkChunkState s.version b.chunk.length (seqno - 1) f = q := ⟨_, rfl⟩
        rcases q with e | u
        · have hs : verStep P s b seqno = .error e := by simp only [verStep, hf, hp, hq]
          rw [rxRun_error _ rest tail hs]
          simp only [Sign.run, hf, hp, hq]
        · cases f with
          | false =>
            have hs : verStep P s b seqno = .ok (b.chunk, false) := by simp only [verStep, hf, hp, hq]
            rw [rxRun_more _ rest tail hs, ← ih]
            simp [Sign.run, hf, hp, hq]
          | true =>
            have hs : verStep P s b seqno = .ok (b.chunk, true) := by simp only [verStep, hf, hp, hq]
            rw [rxRun_final _ rest tail hs]
            simp [Sign.run, hf, hp, hq]

/-! ### exported statements: any schedule of positive buffer sizes -/

/-- **decrypt.go through `chunkReader`.** -/
theorem decrypt_reads_any_size (P : Prims) (s : Decrypt.State) (items : List (Option EncBlock)) (tail : Tail)
    (seqno : Nat) (caps : List Nat) (hcaps : ∀ c ∈ caps, 0 < c) (inner : Nat) (hi : items.length + 2 ≤ inner)
    (fuel : Nat) (hf : (Decrypt.run P s items tail seqno).bytes.length + 1 ≤ fuel) :
    let r := crReadAll (decNext P s) caps inner fuel 0 { chunker := ⟨items, tail, seqno, none⟩ } []
    r.1 = (Decrypt.run P s items tail seqno).bytes ∧
    r.2.1 = some (toRErr (Decrypt.run P s items tail seqno).err) ∧
    r.2.2.prevChunk = [] ∧
    r.2.2.prevErr = some (toRErr (Decrypt.run P s items tail seqno).err) := by
  rw [decrypt_run_eq] at hf ⊢
  exact rx_reads_any_size (decStep P s) (decStep_nonfinal P s) items tail seqno caps hcaps inner hi fuel hf

/-- **signcrypt_open.go through `chunkReader`.** -/
theorem signcrypt_reads_any_size (P : Prims) (s : Signcrypt.State) (items : List (Option SigncryptBlock))
    (tail : Tail) (seqno : Nat) (caps : List Nat) (hcaps : ∀ c ∈ caps, 0 < c) (inner : Nat)
    (hi : items.length + 2 ≤ inner)
    (fuel : Nat) (hf : (Signcrypt.run P s items tail seqno).bytes.length + 1 ≤ fuel) :
    let r := crReadAll (scNext P s) caps inner fuel 0 { chunker := ⟨items, tail, seqno, none⟩ } []
    r.1 = (Signcrypt.run P s items tail seqno).bytes ∧
    r.2.1 = some (toRErr (Signcrypt.run P s items tail seqno).err) ∧
    r.2.2.prevChunk = [] ∧
    r.2.2.prevErr = some (toRErr (Signcrypt.run P s items tail seqno).err) := by
  rw [signcrypt_run_eq] at hf ⊢
  exact rx_reads_any_size (scStep P s) (scStep_nonfinal P s) items tail seqno caps hcaps inner hi fuel hf

/-- **verify_stream.go through `chunkReader`.** -/
theorem verify_reads_any_size (P : Prims) (s : Sign.State) (items : List (Option SigBlock)) (tail : Tail)
    (seqno : Nat) (caps : List Nat) (hcaps : ∀ c ∈ caps, 0 < c) (inner : Nat) (hi : items.length + 2 ≤ inner)
    (fuel : Nat) (hf : (Sign.run P s items tail seqno).bytes.length + 1 ≤ fuel) :
    let r := crReadAll (verNext P s) caps inner fuel 0 { chunker := ⟨items, tail, seqno, none⟩ } []
    r.1 = (Sign.run P s items tail seqno).bytes ∧
    r.2.1 = some (toRErr (Sign.run P s items tail seqno).err) ∧
    r.2.2.prevChunk = [] ∧
    r.2.2.prevErr = some (toRErr (Sign.run P s items tail seqno).err) := by
  rw [verify_run_eq] at hf ⊢
  exact rx_reads_any_size (verStep P s) (verStep_nonfinal P s) items tail seqno caps hcaps inner hi fuel hf

/-! ### the same, from the stream constructors (`NewDecryptStream`, `NewSigncryptOpenStream`, `NewVerifyStream`)

  After a successfully processed header the stream object is a `chunkReader`
  over the receiver's chunker, positioned at packet 1.  Whatever buffer sizes
  the caller uses, it is handed `released` and then `err` of the model's
  read-to-end result. -/

theorem decrypt_open_reads_any_size (P : Prims) (valid : Validator) (kr : Keyring) (hb : Bytes) (h : EncHeader)
    (ps : PStream EncBlock) (log : List KeyCall) (st : Decrypt.State)
    (hh : Decrypt.processHeader P valid kr (P.hash hb) h = (log, .ok st))
    (caps : List Nat) (hcaps : ∀ c ∈ caps, 0 < c) (inner : Nat) (hi : ps.items.length + 2 ≤ inner)
    (fuel : Nat) (hf : (Decrypt.openStream P valid kr (.ok hb h) ps).released.length + 1 ≤ fuel) :
    let R := Decrypt.openStream P valid kr (.ok hb h) ps
    let r := crReadAll (decNext P st) caps inner fuel 0 { chunker := ⟨ps.items, ps.tail, 1, none⟩ } []
    r.1 = R.released ∧ r.2.1 = some (toRErr R.err) ∧
    r.2.2.prevChunk = [] ∧ r.2.2.prevErr = some (toRErr R.err) := by
  have hR : Decrypt.openStream P valid kr (.ok hb h) ps =
      ⟨some st.mki, (Decrypt.run P st ps.items ps.tail 1).bytes, (Decrypt.run P st ps.items ps.tail 1).err, log⟩ := by
    simp only [Decrypt.openStream, hh]
  rw [hR] at hf ⊢
  exact decrypt_reads_any_size P st ps.items ps.tail 1 caps hcaps inner hi fuel hf

theorem signcrypt_open_reads_any_size (P : Prims) (kr : Keyring) (res : Signcrypt.Resolver) (hb : Bytes)
    (h : EncHeader) (ps : PStream SigncryptBlock) (log : List KeyCall) (st : Signcrypt.State)
    (hh : Signcrypt.processHeader P kr res (P.hash hb) h = (log, .ok st))
    (caps : List Nat) (hcaps : ∀ c ∈ caps, 0 < c) (inner : Nat) (hi : ps.items.length + 2 ≤ inner)
    (fuel : Nat) (hf : (Signcrypt.openStream P kr res (.ok hb h) ps).released.length + 1 ≤ fuel) :
    let R := Signcrypt.openStream P kr res (.ok hb h) ps
    let r := crReadAll (scNext P st) caps inner fuel 0 { chunker := ⟨ps.items, ps.tail, 1, none⟩ } []
    r.1 = R.released ∧ r.2.1 = some (toRErr R.err) ∧
    r.2.2.prevChunk = [] ∧ r.2.2.prevErr = some (toRErr R.err) := by
  have hR : Signcrypt.openStream P kr res (.ok hb h) ps =
      ⟨st.sender, (Signcrypt.run P st ps.items ps.tail 1).bytes, (Signcrypt.run P st ps.items ps.tail 1).err, log⟩ := by
    simp only [Signcrypt.openStream, hh]
  rw [hR] at hf ⊢
  exact signcrypt_reads_any_size P st ps.items ps.tail 1 caps hcaps inner hi fuel hf

theorem verify_stream_reads_any_size (P : Prims) (valid : Validator) (kr : Keyring) (hb : Bytes) (h : SigHeader)
    (ps : PStream SigBlock) (pk : Bytes)
    (hval : Sign.validate valid h mtAttached = .ok ())
    (hpk : kr.lookupSigningPublicKey h.senderPublic = some pk)
    (hv : h.version.major = 1 ∨ h.version.major = 2)
    (caps : List Nat) (hcaps : ∀ c ∈ caps, 0 < c) (inner : Nat) (hi : ps.items.length + 2 ≤ inner)
    (fuel : Nat) (hf : (Sign.verifyStream P valid kr (.ok hb h) ps).released.length + 1 ≤ fuel) :
    let R := Sign.verifyStream P valid kr (.ok hb h) ps
    let r := crReadAll (verNext P ⟨h.version, P.hash hb, pk⟩) caps inner fuel 0
      { chunker := ⟨ps.items, ps.tail, 1, none⟩ } []
    r.1 = R.released ∧ r.2.1 = some (toRErr R.err) ∧
    r.2.2.prevChunk = [] ∧ r.2.2.prevErr = some (toRErr R.err) := by
  have hR : Sign.verifyStream P valid kr (.ok hb h) ps =
      ⟨some pk, (Sign.run P ⟨h.version, P.hash hb, pk⟩ ps.items ps.tail 1).bytes,
        (Sign.run P ⟨h.version, P.hash hb, pk⟩ ps.items ps.tail 1).err⟩ := by
    rcases hv with hv | hv <;> simp [Sign.verifyStream, hval, hpk, hv]
  rw [hR] at hf ⊢
  exact verify_reads_any_size P ⟨h.version, P.hash hb, pk⟩ ps.items ps.tail 1 caps hcaps inner hi fuel hf

/-! ### two schedules of buffer sizes -/

theorem decrypt_reads_caps_independent (P : Prims) (s : Decrypt.State) (items : List (Option EncBlock)) (tail : Tail)
    (seqno : Nat) (caps caps' : List Nat) (hcaps : ∀ c ∈ caps, 0 < c) (hcaps' : ∀ c ∈ caps', 0 < c)
    (inner inner' : Nat) (hi : items.length + 2 ≤ inner) (hi' : items.length + 2 ≤ inner')
    (fuel fuel' : Nat) (hf : (Decrypt.run P s items tail seqno).bytes.length + 1 ≤ fuel)
    (hf' : (Decrypt.run P s items tail seqno).bytes.length + 1 ≤ fuel') :
    (crReadAll (decNext P s) caps inner fuel 0 { chunker := ⟨items, tail, seqno, none⟩ } []).1 =
      (crReadAll (decNext P s) caps' inner' fuel' 0 { chunker := ⟨items, tail, seqno, none⟩ } []).1 ∧
    (crReadAll (decNext P s) caps inner fuel 0 { chunker := ⟨items, tail, seqno, none⟩ } []).2.1 =
      (crReadAll (decNext P s) caps' inner' fuel' 0 { chunker := ⟨items, tail, seqno, none⟩ } []).2.1 := by
  obtain ⟨a1, a2, _⟩ := decrypt_reads_any_size P s items tail seqno caps hcaps inner hi fuel hf
  obtain ⟨b1, b2, _⟩ := decrypt_reads_any_size P s items tail seqno caps' hcaps' inner' hi' fuel' hf'
  exact ⟨by rw [a1, b1], by rw [a2, b2]⟩

theorem signcrypt_reads_caps_independent (P : Prims) (s : Signcrypt.State) (items : List (Option SigncryptBlock))
    (tail : Tail) (seqno : Nat) (caps caps' : List Nat) (hcaps : ∀ c ∈ caps, 0 < c) (hcaps' : ∀ c ∈ caps', 0 < c)
    (inner inner' : Nat) (hi : items.length + 2 ≤ inner) (hi' : items.length + 2 ≤ inner')
    (fuel fuel' : Nat) (hf : (Signcrypt.run P s items tail seqno).bytes.length + 1 ≤ fuel)
    (hf' : (Signcrypt.run P s items tail seqno).bytes.length + 1 ≤ fuel') :
    (crReadAll (scNext P s) caps inner fuel 0 { chunker := ⟨items, tail, seqno, none⟩ } []).1 =
      (crReadAll (scNext P s) caps' inner' fuel' 0 { chunker := ⟨items, tail, seqno, none⟩ } []).1 ∧
    (crReadAll (scNext P s) caps inner fuel 0 { chunker := ⟨items, tail, seqno, none⟩ } []).2.1 =
      (crReadAll (scNext P s) caps' inner' fuel' 0 { chunker := ⟨items, tail, seqno, none⟩ } []).2.1 := by
  obtain ⟨a1, a2, _⟩ := signcrypt_reads_any_size P s items tail seqno caps hcaps inner hi fuel hf
  obtain ⟨b1, b2, _⟩ := signcrypt_reads_any_size P s items tail seqno caps' hcaps' inner' hi' fuel' hf'
  exact ⟨by rw [a1, b1], by rw [a2, b2]⟩

theorem verify_reads_caps_independent (P : Prims) (s : Sign.State) (items : List (Option SigBlock)) (tail : Tail)
    (seqno : Nat) (caps caps' : List Nat) (hcaps : ∀ c ∈ caps, 0 < c) (hcaps' : ∀ c ∈ caps', 0 < c)
    (inner inner' : Nat) (hi : items.length + 2 ≤ inner) (hi' : items.length + 2 ≤ inner')
    (fuel fuel' : Nat) (hf : (Sign.run P s items tail seqno).bytes.length + 1 ≤ fuel)
    (hf' : (Sign.run P s items tail seqno).bytes.length + 1 ≤ fuel') :
    (crReadAll (verNext P s) caps inner fuel 0 { chunker := ⟨items, tail, seqno, none⟩ } []).1 =
      (crReadAll (verNext P s) caps' inner' fuel' 0 { chunker := ⟨items, tail, seqno, none⟩ } []).1 ∧
    (crReadAll (verNext P s) caps inner fuel 0 { chunker := ⟨items, tail, seqno, none⟩ } []).2.1 =
      (crReadAll (verNext P s) caps' inner' fuel' 0 { chunker := ⟨items, tail, seqno, none⟩ } []).2.1 := by
  obtain ⟨a1, a2, _⟩ := verify_reads_any_size P s items tail seqno caps hcaps inner hi fuel hf
  obtain ⟨b1, b2, _⟩ := verify_reads_any_size P s items tail seqno caps' hcaps' inner' hi' fuel' hf'
  exact ⟨by rw [a1, b1], by rw [a2, b2]⟩

/-! ### instances on a toy receiver (`β := Bytes`; a packet is its own chunk, the empty packet is final) -/

/-- a toy `step`: a packet carries its chunk in clear; the chunk `[0]` is
    refused; an empty chunk marks the final block -/
def toyStep : RxStep Bytes := fun b _ =>
  if b == [0] then .error .badCiphertext else .ok (b, b.isEmpty)

/-- three chunks then the (empty) final block, clean end -/
example : rxRun toyStep [some [1, 2, 3], some [4], some [5, 6], some []] .eof 1 = ⟨[1, 2, 3, 4, 5, 6], none⟩ ∧
    chunkTrace (rxNext toyStep) 5 (rxInit [some [1, 2, 3], some [4], some [5, 6], some []] .eof 1) =
      ([[1, 2, 3], [4], [5, 6], []], some .eof) ∧
    (crReadAll (rxNext toyStep) [2] 6 7 0 { chunker := rxInit [some [1, 2, 3], some [4], some [5, 6], some []] .eof 1 } []).1 =
      [1, 2, 3, 4, 5, 6] ∧
    (crReadAll (rxNext toyStep) [2] 6 7 0 { chunker := rxInit [some [1, 2, 3], some [4], some [5, 6], some []] .eof 1 } []).2.1 =
      some .eof := by
  decide

/-- a failing block in the middle: the chunks before it are released, then the error -/
example : rxRun toyStep [some [1, 2, 3], some [0], some []] .eof 1 = ⟨[1, 2, 3], some .badCiphertext⟩ ∧
    (crReadAll (rxNext toyStep) [1, 4] 5 4 0 { chunker := rxInit [some [1, 2, 3], some [0], some []] .eof 1 } []).1 = [1, 2, 3] ∧
    (crReadAll (rxNext toyStep) [1, 4] 5 4 0 { chunker := rxInit [some [1, 2, 3], some [0], some []] .eof 1 } []).2.1 =
      some (.err .badCiphertext) := by
  decide

/-- truncation (no final block) and trailing garbage after the final block -/
example : (crReadAll (rxNext toyStep) [3] 3 3 0 { chunker := rxInit [some [7, 8]] .eof 1 } []).1 = [7, 8] ∧
    (crReadAll (rxNext toyStep) [3] 3 3 0 { chunker := rxInit [some [7, 8]] .eof 1 } []).2.1 = some (.err .unexpectedEOF) ∧
    (crReadAll (rxNext toyStep) [3] 5 3 0 { chunker := rxInit [some [7, 8], some [], some [9]] .eof 1 } []).1 = [7, 8] ∧
    (crReadAll (rxNext toyStep) [3] 5 3 0 { chunker := rxInit [some [7, 8], some [], some [9]] .eof 1 } []).2.1 =
      some (.err .trailingGarbage) := by
  decide

end Saltpack.Proofs
