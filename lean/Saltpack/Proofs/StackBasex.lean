/-
  BaseX facts for the decoder stream: on a string of alphabet characters the
  strict decoder works block by block (`decS`), `decodePrefix` computes it,
  decoding is compositional at block boundaries, a non-empty input never decodes
  to nothing, and the output is not longer than the input.

  Core Lean only.
-/
import Saltpack.Proofs.Basex

namespace Saltpack.Proofs
open Saltpack Saltpack.Basex

/-- the digit of an alphabet character -/
def dig (e : Enc) (c : UInt8) : Nat := (e.digit? c).getD 0

/-- all characters are alphabet characters -/
def AllDig (e : Enc) (s : List UInt8) : Prop := ∀ c ∈ s, (e.digit? c).isSome = true

theorem allDig_nil (e : Enc) : AllDig e [] := by intro c hc; cases hc

theorem allDig_append {e : Enc} {a b : List UInt8} (ha : AllDig e a) (hb : AllDig e b) : AllDig e (a ++ b) := by
  intro c hc
  rcases List.mem_append.mp hc with h | h
  · exact ha c h
  · exact hb c h

theorem allDig_take {e : Enc} {a : List UInt8} (n : Nat) (ha : AllDig e a) : AllDig e (a.take n) :=
  fun c hc => ha c (List.mem_of_mem_take hc)

theorem allDig_drop {e : Enc} {a : List UInt8} (n : Nat) (ha : AllDig e a) : AllDig e (a.drop n) :=
  fun c hc => ha c (List.mem_of_mem_drop hc)

theorem allDig_left {e : Enc} {a b : List UInt8} (h : AllDig e (a ++ b)) : AllDig e a :=
  fun c hc => h c (List.mem_append_left _ hc)

theorem allDig_right {e : Enc} {a b : List UInt8} (h : AllDig e (a ++ b)) : AllDig e b :=
  fun c hc => h c (List.mem_append_right _ hc)

theorem take_ne_nil {α : Type} (s : List α) (n : Nat) (hn : 0 < n) (h0 : s ≠ []) : s.take n ≠ [] := by
  cases s with
  | nil => exact absurd rfl h0
  | cons x xs =>
    cases n with
    | zero => omega
    | succ m => simp

/-- scanning a run of alphabet characters takes the first `need` of them -/
theorem scan_digits (e : Enc) : ∀ (s : List UInt8) (need pos : Nat), AllDig e s →
    scanBlock e need s pos = .ok ((s.take need).map (dig e), s.drop need) := by
  intro s
  induction s with
  | nil => intro need pos _; rw [scanBlock]; simp
  | cons c cs ih =>
    intro need pos h
    cases need with
    | zero => rw [scanBlock_zero]; simp
    | succ n =>
      have hc := h c (by simp)
      have hcs : AllDig e cs := fun x hx => h x (List.mem_cons_of_mem _ hx)
      cases hd : e.digit? c with
      | none => rw [hd] at hc; simp at hc
      | some d =>
        rw [scanBlock, hd]
        simp only
        by_cases hn : n = 0
        · subst hn
          simp [dig, hd]
        · rw [if_neg hn, ih n (pos + 1) hcs]
          simp [dig, hd]

/-! ## block-by-block decoding of alphabet strings -/

/-- strict decoding of a string of alphabet characters, block by block,
    forgetting which error -/
def decBlocks (e : Enc) : (fuel : Nat) → List UInt8 → Option Bytes
  | 0, _ => some []
  | fuel + 1, s =>
    if s.isEmpty then some []
    else match decodeBlockDigits e ((s.take e.charBlockLen).map (dig e)) with
      | .error _ => none
      | .ok bs => (decBlocks e fuel (s.drop e.charBlockLen)).map (fun more => bs ++ more)

theorem decBlocks_nil (e : Enc) (fuel : Nat) : decBlocks e fuel [] = some [] := by
  cases fuel <;> simp [decBlocks]

theorem decBlocks_succ (e : Enc) (fuel : Nat) (s : List UInt8) (h : s ≠ []) :
    decBlocks e (fuel + 1) s =
      match decodeBlockDigits e ((s.take e.charBlockLen).map (dig e)) with
      | .error _ => none
      | .ok bs => (decBlocks e fuel (s.drop e.charBlockLen)).map (fun more => bs ++ more) := by
  have : s.isEmpty = false := by cases s with
    | nil => exact absurd rfl h
    | cons _ _ => rfl
  rw [decBlocks]
  simp only [this, Bool.false_eq_true, if_false]

/-- the strict decoder on alphabet characters is the block-by-block decoder -/
theorem decodeAux_strict_digits (e : Enc) : ∀ (fuel : Nat) (s : List UInt8) (pos : Nat), AllDig e s →
    (decodeAux e.strict fuel s pos).toOption = decBlocks e fuel s := by
  intro fuel
  induction fuel with
  | zero => intro s pos _; rw [decodeAux]; rfl
  | succ f ih =>
    intro s pos h
    by_cases h0 : s = []
    · subst h0; rw [decodeAux_nil, decBlocks_nil]; rfl
    · have hscan := scan_digits e.strict s e.strict.charBlockLen pos h
      rw [decodeAux_step_toOption e.strict f pos s _ _ h0 hscan, decBlocks_succ e f s h0]
      have hdb : ∀ ds, decodeBlockDigits e.strict ds = decodeBlockDigits e ds := fun _ => rfl
      rw [hdb]
      show _ = match decodeBlockDigits e ((s.take e.charBlockLen).map (dig e)) with
        | .error _ => none
        | .ok bs => (decBlocks e f (s.drop e.charBlockLen)).map (fun more => bs ++ more)
      cases hb : decodeBlockDigits e ((s.take e.charBlockLen).map (dig e)) with
      | error x =>
        have : decodeBlockDigits e (List.map (dig e.strict) (List.take e.strict.charBlockLen s)) = .error x := hb
        rw [this]; rfl
      | ok bs =>
        have : decodeBlockDigits e (List.map (dig e.strict) (List.take e.strict.charBlockLen s)) = .ok bs := hb
        rw [this]
        simp only [Except.toOption, Option.bind_some]
        have := ih (s.drop e.charBlockLen) (pos + (s.length - (s.drop e.strict.charBlockLen).length))
          (allDig_drop _ h)
        show Option.map _ (decodeAux e.strict f (s.drop e.charBlockLen) _).toOption = _
        rw [this]

theorem decBlocks_fuel (e : Enc) (hN : 0 < e.charBlockLen) : ∀ (fuel fuel' : Nat) (s : List UInt8),
    s.length < fuel → s.length < fuel' → decBlocks e fuel s = decBlocks e fuel' s := by
  intro fuel
  induction fuel with
  | zero => intro fuel' s h; omega
  | succ f ih =>
    intro fuel' s h h'
    cases fuel' with
    | zero => omega
    | succ f' =>
      by_cases h0 : s = []
      · subst h0; rw [decBlocks_nil, decBlocks_nil]
      · rw [decBlocks_succ e f s h0, decBlocks_succ e f' s h0]
        have hpos : 0 < s.length := List.length_pos_iff.mpr h0
        have hl : (s.drop e.charBlockLen).length < s.length := by rw [List.length_drop]; omega
        rw [ih f' (s.drop e.charBlockLen) (by omega) (by omega)]

/-- strict decoding of an alphabet string (errors forgotten) -/
def decS (e : Enc) (s : List UInt8) : Option Bytes := decBlocks e (s.length + 1) s

theorem decode_strict_digits (e : Enc) (s : List UInt8) (h : AllDig e s) :
    (decode e.strict s).toOption = decS e s := by
  unfold decode decS
  exact decodeAux_strict_digits e _ s 0 h

theorem decS_nil (e : Enc) : decS e [] = some [] := rfl

/-- one full or final block -/
theorem decS_block (e : Enc) (_hN : 0 < e.charBlockLen) (s : List UInt8) (h0 : s ≠ []) (hl : s.length ≤ e.charBlockLen) :
    decS e s = (decodeBlockDigits e (s.map (dig e))).toOption := by
  unfold decS
  rw [decBlocks_succ e _ s h0, List.take_of_length_le hl, List.drop_eq_nil_of_le hl, decBlocks_nil]
  cases decodeBlockDigits e (s.map (dig e)) with
  | error x => rfl
  | ok bs => simp [Except.toOption]

/-- **block step**: decode the first block, then the rest -/
theorem decS_step (e : Enc) (hN : 0 < e.charBlockLen) (s : List UInt8) :
    decS e s = (decS e (s.take e.charBlockLen)).bind (fun a => (decS e (s.drop e.charBlockLen)).map (fun m => a ++ m)) := by
  by_cases h0 : s = []
  · subst h0; simp [decS_nil]
  · have hpos : 0 < s.length := List.length_pos_iff.mpr h0
    have htne : s.take e.charBlockLen ≠ [] := take_ne_nil s _ hN h0
    have htl : (s.take e.charBlockLen).length ≤ e.charBlockLen := by rw [List.length_take]; omega
    rw [decS_block e hN _ htne htl]
    unfold decS
    rw [decBlocks_succ e _ s h0]
    have hl : (s.drop e.charBlockLen).length < s.length := by rw [List.length_drop]; omega
    rw [decBlocks_fuel e hN s.length ((s.drop e.charBlockLen).length + 1) _ (by omega) (by omega)]
    cases decodeBlockDigits e ((s.take e.charBlockLen).map (dig e)) with
    | error x => rfl
    | ok bs => rfl

/-- **compositionality at block boundaries** -/
theorem decS_append (e : Enc) (hN : 0 < e.charBlockLen) : ∀ (k : Nat) (a b : List UInt8),
    a.length = k * e.charBlockLen →
    decS e (a ++ b) = (decS e a).bind (fun x => (decS e b).map (fun m => x ++ m)) := by
  intro k
  induction k with
  | zero =>
    intro a b h
    have : a = [] := List.length_eq_zero_iff.mp (by simpa using h)
    subst this
    simp only [List.nil_append, decS_nil, Option.bind_some, List.nil_append]
    cases decS e b <;> simp
  | succ k ih =>
    intro a b h
    have hge : e.charBlockLen ≤ a.length := by rw [h, Nat.succ_mul]; omega
    have h1 : (a ++ b).take e.charBlockLen = a.take e.charBlockLen := by
      rw [List.take_append_of_le_length hge]
    have h2 : (a ++ b).drop e.charBlockLen = a.drop e.charBlockLen ++ b := by
      rw [List.drop_append_of_le_length hge]
    have h3 : (a.drop e.charBlockLen).length = k * e.charBlockLen := by
      rw [List.length_drop, h, Nat.succ_mul]; omega
    rw [decS_step e hN (a ++ b), h1, h2, ih _ b h3, decS_step e hN a]
    cases decS e (a.take e.charBlockLen) with
    | none => rfl
    | some x =>
      simp only [Option.bind_some]
      cases decS e (a.drop e.charBlockLen) with
      | none => rfl
      | some y =>
        simp only [Option.bind_some, Option.map_some]
        cases decS e b with
        | none => rfl
        | some z => simp

/-- `decodePrefix` computes the block-by-block decoder: the whole result and
    no error, or some error -/
theorem decodePrefix_spec (e : Enc) (hN : 0 < e.charBlockLen) : ∀ (fuel : Nat) (s : List UInt8), AllDig e s →
    s.length < fuel →
    (∀ y, decS e s = some y → decodePrefix e fuel s = (y, none)) ∧
    (decS e s = none → ∃ preB x, decodePrefix e fuel s = (preB, some x)) := by
  intro fuel
  induction fuel with
  | zero => intro s _ h; omega
  | succ f ih =>
    intro s h hf
    by_cases h0 : s = []
    · subst h0
      rw [decS_nil, decodePrefix]
      simp
    · have hse : s.isEmpty = false := by cases s with
        | nil => exact absurd rfl h0
        | cons _ _ => rfl
      have hpos : 0 < s.length := List.length_pos_iff.mpr h0
      have hl : (s.drop e.charBlockLen).length < s.length := by rw [List.length_drop]; omega
      obtain ⟨i1, i2⟩ := ih (s.drop e.charBlockLen) (allDig_drop _ h) (by omega)
      rw [decS_step e hN s, decodePrefix]
      simp only [hse, Bool.false_eq_true, if_false]
      have hblk := decode_strict_digits e (s.take e.charBlockLen) (allDig_take _ h)
      cases hd : decode e.strict (s.take e.charBlockLen) with
      | error x =>
        rw [hd] at hblk
        simp only [Except.toOption] at hblk
        rw [← hblk]
        simp only [Option.bind_none]
        exact ⟨fun y hy => by simp at hy, fun _ => ⟨_, _, rfl⟩⟩
      | ok b =>
        rw [hd] at hblk
        simp only [Except.toOption] at hblk
        rw [← hblk]
        simp only [Option.bind_some]
        cases hr : decS e (s.drop e.charBlockLen) with
        | none =>
          obtain ⟨p, x, hp⟩ := i2 hr
          rw [hp]
          exact ⟨fun y hy => by simp at hy, fun _ => ⟨_, _, rfl⟩⟩
        | some m =>
          rw [i1 m hr]
          refine ⟨fun y hy => ?_, fun hn => by simp at hn⟩
          simp only [Option.map_some, Option.some.injEq] at hy
          rw [← hy]

/-! ## sizes -/

theorem decLen_le_self {e : Enc} (he : e.WF) (c : Nat) (hc : c ≤ e.charBlockLen) : e.decLen c ≤ c := by
  have h1 := (decLen_spec he c hc).1
  have h2 : e.base ^ c ≤ 256 ^ c := Nat.pow_le_pow_left (base_le he) c
  exact (Nat.pow_le_pow_iff_right (a := 256) (by omega)).mp (Nat.le_trans h1 h2)

/-- a decoded block is neither empty nor longer than its characters -/
theorem decodeBlock_size {e : Enc} (he : e.WF) (s : List UInt8) (h : AllDig e s) (h0 : s ≠ [])
    (hl : s.length ≤ e.charBlockLen) (b : Bytes) (hb : decodeBlockDigits e (s.map (dig e)) = .ok b) :
    0 < b.length ∧ b.length ≤ s.length := by
  have hlt : ∀ d ∈ s.map (dig e), d < e.base := by
    intro d hd
    rw [List.mem_map] at hd
    obtain ⟨c, hc, rfl⟩ := hd
    have := h c hc
    cases hx : e.digit? c with
    | none => rw [hx] at this; simp at this
    | some v =>
      have := (char_of_digit? c v hx).1
      rw [he.alpha_len] at this
      simpa [dig, hx] using this
  have hpos : 0 < s.length := List.length_pos_iff.mpr h0
  obtain ⟨_, c2, c3, _⟩ := decodeBlock_canon he (s.map (dig e)) b hlt (by simpa using hpos) (by simpa using hl) hb
  refine ⟨c3, ?_⟩
  rw [c2, List.length_map]
  exact decLen_le_self he _ hl

theorem decS_size {e : Enc} (he : e.WF) : ∀ (n : Nat) (s : List UInt8), s.length ≤ n → AllDig e s →
    ∀ y, decS e s = some y → y.length ≤ s.length ∧ (y = [] → s = []) := by
  intro n
  induction n with
  | zero =>
    intro s hl _ y hy
    have : s = [] := List.length_eq_zero_iff.mp (by omega)
    subst this
    rw [decS_nil] at hy
    simp only [Option.some.injEq] at hy
    subst hy
    simp
  | succ n ih =>
    intro s hl h y hy
    by_cases h0 : s = []
    · subst h0
      rw [decS_nil] at hy
      simp only [Option.some.injEq] at hy
      subst hy
      simp
    · have hN := he.cblock_pos
      have hpos : 0 < s.length := List.length_pos_iff.mpr h0
      have htne : s.take e.charBlockLen ≠ [] := take_ne_nil s _ hN h0
      have htl : (s.take e.charBlockLen).length ≤ e.charBlockLen := by rw [List.length_take]; omega
      rw [decS_step e hN s, decS_block e hN _ htne htl] at hy
      cases hb : decodeBlockDigits e ((s.take e.charBlockLen).map (dig e)) with
      | error x => rw [hb] at hy; simp [Except.toOption] at hy
      | ok b =>
        rw [hb] at hy
        simp only [Except.toOption, Option.bind_some] at hy
        cases hr : decS e (s.drop e.charBlockLen) with
        | none => rw [hr] at hy; simp at hy
        | some m =>
          rw [hr] at hy
          simp only [Option.map_some, Option.some.injEq] at hy
          subst hy
          obtain ⟨s1, s2⟩ := decodeBlock_size he _ (allDig_take _ h) htne htl b hb
          have hdl : (s.drop e.charBlockLen).length ≤ n := by rw [List.length_drop]; omega
          obtain ⟨t1, _⟩ := ih (s.drop e.charBlockLen) hdl (allDig_drop _ h) m hr
          have hsum : (s.take e.charBlockLen).length + (s.drop e.charBlockLen).length = s.length := by
            rw [← List.length_append, List.take_append_drop]
          refine ⟨by rw [List.length_append]; omega, fun hnil => ?_⟩
          exfalso
          have := congrArg List.length hnil
          rw [List.length_append, List.length_nil] at this
          omega

/-- the output is not longer than the input -/
theorem decS_length_le {e : Enc} (he : e.WF) (s : List UInt8) (h : AllDig e s) (y : Bytes) (hy : decS e s = some y) :
    y.length ≤ s.length := (decS_size he s.length s (Nat.le_refl _) h y hy).1

/-- a non-empty input never decodes to nothing -/
theorem decS_ne_nil {e : Enc} (he : e.WF) (s : List UInt8) (h : AllDig e s) (h0 : s ≠ []) (y : Bytes)
    (hy : decS e s = some y) : y ≠ [] := fun hn => h0 ((decS_size he s.length s (Nat.le_refl _) h y hy).2 hn)

end Saltpack.Proofs
