/-
  Armor framing, the converse direction (behind Props/C11): whatever a
  validating dearmoring entry point accepts has the three-sentence shape, its
  frames parse for the requested type with one and the same brand, and its
  body decodes (strictly) to the returned payload.  The contrapositive is the
  rejection clause of C11 for every validating entry point.
  Also: the declarative layout of the sealed body (lines of 200 words).
-/
import Saltpack.Proofs.ArmorRT

namespace Saltpack.Proofs
open Saltpack Saltpack.Armor

theorem splitAt1_sound (c : UInt8) : ∀ (l a b : Bytes), splitAt1 c l = some (a, b) → l = a ++ c :: b ∧ c ∉ a := by
  intro l
  induction l with
  | nil => intro a b h; simp [splitAt1] at h
  | cons x xs ih =>
    intro a b h
    unfold splitAt1 at h
    by_cases hx : (x == c) = true
    · rw [if_pos hx] at h
      injection h with h
      injection h with h1 h2
      subst h1; subst h2
      have : x = c := by simpa using hx
      subst this
      exact ⟨rfl, by simp⟩
    · rw [if_neg hx] at h
      split at h
      · cases h
      · rename_i a' b' hs
        injection h with h
        injection h with h1 h2
        subst h1; subst h2
        obtain ⟨e, hn⟩ := ih a' b' hs
        refine ⟨by rw [e]; rfl, ?_⟩
        intro hm
        rcases List.mem_cons.mp hm with h | h
        · exact hx (by simp [h])
        · exact hn h

theorem toASCII_sound (p : Params) (b s : Bytes) (h : toASCII p b = .ok s) :
    (∀ c ∈ b, validByte p c = true) ∧ s = trimSpace b := by
  unfold toASCII at h
  split at h
  · rename_i hv
    injection h with h
    exact ⟨by simpa [List.all_eq_true] using hv, h.symm⟩
  · cases h

/-- **Soundness of validated dearmoring.** -/
theorem open_sound (typ : Int) (text : Bytes) (o : Opened) (h : open62 (some typ) text = .ok o) :
    ∃ hdrRaw body ftrRaw trail,
      text = hdrRaw ++ [period] ++ body ++ [period] ++ ftrRaw ++ [period] ++ trail ∧
      period ∉ hdrRaw ∧ period ∉ body ∧ period ∉ ftrRaw ∧ period ∉ trail ∧
      (∀ c ∈ hdrRaw, validByte params62 c = true) ∧ (∀ c ∈ body, validByte params62 c = true) ∧
      (∀ c ∈ ftrRaw, validByte params62 c = true) ∧ (∀ c ∈ trail, validByte params62 c = true) ∧
      hdrRaw.length < 8192 ∧ ftrRaw.length < 8192 ∧
      o.header = trimSpace hdrRaw ∧ o.footer = trimSpace ftrRaw ∧
      parseFrame o.header typ Gen.c_sp_headerMarker = .ok o.brand ∧
      parseFrame o.footer typ Gen.c_sp_footerMarker = .ok o.brand ∧
      Basex.decode params62.enc.strict (Basex.filterSkip params62.enc body) = .ok o.payload := by
  unfold open62 openPure at h
  split at h
  · cases h
  · rename_i hdrRaw r1 hs1
    split at h
    · cases h
    · rename_i hl1
      split at h
      · cases h
      · rename_i hdr hta1
        simp only at h
        split at h
        · cases h
        · rename_i brand hbr
          split at h
          · cases h
          · rename_i body r2 hs2
            split at h
            · cases h
            · rename_i hbv
              split at h
              · cases h
              · rename_i payload hdec
                split at h
                · cases h
                · rename_i ftrRaw r3 hs3
                  split at h
                  · cases h
                  · rename_i hl2
                    split at h
                    · cases h
                    · rename_i ftr hta2
                      split at h
                      · cases h
                      · rename_i hchk
                        split at h
                        · cases h
                        · rename_i hnp
                          split at h
                          · cases h
                          · rename_i htv
                            injection h with h
                            subst h
                            obtain ⟨e1, n1⟩ := splitAt1_sound _ _ _ _ hs1
                            obtain ⟨e2, n2⟩ := splitAt1_sound _ _ _ _ hs2
                            obtain ⟨e3, n3⟩ := splitAt1_sound _ _ _ _ hs3
                            obtain ⟨v1, t1⟩ := toASCII_sound _ _ _ hta1
                            obtain ⟨v2, t2⟩ := toASCII_sound _ _ _ hta2
                            have hck : ∃ b', checkArmor62 hdr ftr typ = .ok b' := by
                              split at hchk
                              · rename_i b' hb'; exact ⟨b', hb'⟩
                              · cases hchk
                            obtain ⟨b', hb'⟩ := hck
                            obtain ⟨c1, c2⟩ := check_sound hdr ftr typ b' hb'
                            have hbb : b' = brand := by
                              rw [c1] at hbr
                              injection hbr
                            subst hbb
                            refine ⟨hdrRaw, body, ftrRaw, r3, ?_, n1, n2, n3, ?_, v1, ?_, v2, ?_, ?_, ?_, t1, t2, c1, c2, hdec⟩
                            · rw [e1, e2, e3]; simp
                            · intro hm
                              apply hnp
                              simp only [List.any_eq_true, beq_iff_eq]
                              exact ⟨period, hm, rfl⟩
                            · have : body.all (validByte params62) = true := by simpa using hbv
                              simpa [List.all_eq_true] using this
                            · have : r3.all (validByte params62) = true := by simpa using htv
                              simpa [List.all_eq_true] using this
                            · unfold frameLim at hl1; omega
                            · unfold frameLim at hl2; omega

/-! ### layout of the sealed body -/

/-- lines joined by single newlines -/
def joinLines : List Bytes → Bytes
  | [] => []
  | [l] => l
  | l :: ls => l ++ [newline] ++ joinLines ls

theorem wpl_eq : params62.wordsPerLine = 200 := rfl

/-- words that fit on the current line are separated by single spaces -/
theorem spaceWords_line (ws : List Bytes) : ∀ k : Nat, k % 200 + ws.length ≤ 200 →
    spaceWords params62 k ws = intercalateSp ws := by
  induction ws with
  | nil => intro k _; rfl
  | cons w rest ih =>
    intro k hk
    cases rest with
    | nil => rfl
    | cons w' rest' =>
      have hlen : (w :: w' :: rest').length = rest'.length + 2 := by simp
      rw [hlen] at hk
      have h1 : ¬ ((k + 1) % params62.wordsPerLine = 0) := by show ¬ ((k + 1) % 200 = 0); omega
      have ih' := ih (k + 1) (by simp only [List.length_cons]; omega)
      simp only [spaceWords, intercalateSp, if_neg h1, ih']

/-- after the word that fills the line comes a newline -/
theorem spaceWords_break (l rest : List Bytes) (hr : rest ≠ []) : ∀ k : Nat, l ≠ [] → k % 200 + l.length = 200 →
    spaceWords params62 k (l ++ rest) = intercalateSp l ++ [newline] ++ spaceWords params62 (k + l.length) rest := by
  induction l with
  | nil => intro k h; exact absurd rfl h
  | cons w l' ih =>
    intro k _ hk
    cases l' with
    | nil =>
      simp only [List.length_cons, List.length_nil] at hk
      have h1 : (k + 1) % params62.wordsPerLine = 0 := by show (k + 1) % 200 = 0; omega
      cases rest with
      | nil => exact absurd rfl hr
      | cons r rs =>
        simp only [List.cons_append, List.nil_append, spaceWords, intercalateSp, if_pos h1,
          List.length_cons, List.length_nil]
    | cons w' l'' =>
      have hlen : (w :: w' :: l'').length = l''.length + 2 := by simp
      rw [hlen] at hk
      have h1 : ¬ ((k + 1) % params62.wordsPerLine = 0) := by show ¬ ((k + 1) % 200 = 0); omega
      have ih' := ih (k + 1) (by simp) (by simp only [List.length_cons]; omega)
      have e : k + 1 + (w' :: l'').length = k + (w :: w' :: l'').length := by
        simp only [List.length_cons]; omega
      rw [e] at ih'
      simp only [List.cons_append] at ih' ⊢
      simp only [spaceWords, intercalateSp, if_neg h1, ih', List.append_assoc]

theorem chunks_ne_nil {α : Type} (n : Nat) (l : List α) (h : l ≠ []) : chunks n l ≠ [] := by
  intro hc
  have := chunks_flatten n l
  rw [hc] at this
  exact h this.symm

/-- **the words are laid out 200 per line**: single spaces inside a line, single
    newlines between lines -/
theorem spaceWords_layout : ∀ (n : Nat) (ws : List Bytes) (k : Nat), ws.length ≤ n → k % 200 = 0 →
    spaceWords params62 k ws = joinLines ((chunks 200 ws).map intercalateSp) := by
  intro n
  induction n with
  | zero =>
    intro ws k h _
    have : ws = [] := List.length_eq_zero_iff.mp (by omega)
    subst this
    rfl
  | succ n ih =>
    intro ws k h hk
    by_cases hnil : ws = []
    · subst hnil; rfl
    · by_cases hs : ws.length ≤ 200
      · rw [chunks_short 200 ws hnil hs, spaceWords_line ws k (by omega)]
        rfl
      · have hlen : (ws.drop 200).length = ws.length - 200 := List.length_drop
        have hrest : ws.drop 200 ≠ [] := by
          intro h0; rw [h0] at hlen; simp at hlen; omega
        have htl : (ws.take 200).length = 200 := by rw [List.length_take]; omega
        have hl : ws.take 200 ≠ [] := by
          intro h0; rw [h0] at htl; simp at htl
        rw [chunks_long 200 (by omega) ws (by omega)]
        conv => lhs; rw [← List.take_append_drop 200 ws]
        rw [spaceWords_break _ _ hrest k hl (by omega), htl,
          ih (ws.drop 200) (k + 200) (by omega) (by omega)]
        have hne := chunks_ne_nil 200 _ hrest
        cases hc : chunks 200 (ws.drop 200) with
        | nil => exact absurd hc hne
        | cons c cs => simp [joinLines]

/-- **Declarative shape of the sealed text**: the base62 characters of the
    payload, cut into words of 15 (the last one 1…15), the words cut into lines
    of 200 (the last one 1…200), single spaces between the words of a line,
    single newlines between lines; `header. ` before, an optional single
    space/newline (when the last word is full) and `. footer.\n` after. -/
theorem seal_layout (typ : Int) (brand payload : Bytes) :
    ∃ (lines : List (List Bytes)) (pad : Bytes),
      seal62 typ brand payload =
        header typ brand ++ [period, space] ++ joinLines (lines.map intercalateSp) ++ pad ++
          [period, space] ++ footer typ brand ++ [period, newline] ∧
      lines = chunks 200 (chunks 15 (Basex.encode params62.enc payload)) ∧
      lines.flatten.flatten = Basex.encode params62.enc payload ∧
      (pad = [] ∨ pad = [space] ∨ pad = [newline]) ∧
      ∀ line ∈ lines, line ≠ [] ∧ line.length ≤ 200 ∧
        ∀ w ∈ line, w ≠ [] ∧ w.length ≤ 15 ∧ ∀ c ∈ w, (params62.enc.digit? c).isSome = true := by
  refine ⟨chunks 200 (chunks 15 (Basex.encode params62.enc payload)),
    (if ((chunks params62.bytesPerWord (Basex.encode params62.enc payload)).getLast?.getD []).length = params62.bytesPerWord then
        (if (if (chunks params62.bytesPerWord (Basex.encode params62.enc payload)).isEmpty then 1
              else (chunks params62.bytesPerWord (Basex.encode params62.enc payload)).length) % params62.wordsPerLine = 0
          then [newline] else [space]) else []), ?_, rfl, ?_, ?_, ?_⟩
  · unfold seal62 sealText
    simp only
    rw [spaceWords_layout _ (chunks params62.bytesPerWord (Basex.encode params62.enc payload)) 0 (Nat.le_refl _) rfl]
    rfl
  · rw [chunks_flatten, chunks_flatten]
  · split
    · generalize (if (chunks params62.bytesPerWord (Basex.encode params62.enc payload)).isEmpty then 1
              else (chunks params62.bytesPerWord (Basex.encode params62.enc payload)).length) = n
      split
      · exact Or.inr (Or.inr rfl)
      · exact Or.inr (Or.inl rfl)
    · exact Or.inl rfl
  · intro line hl
    have h := chunks_mem_length 200 (by decide) _ _ (Nat.le_refl _) line hl
    refine ⟨by intro he; rw [he] at h; simp at h, h.2, ?_⟩
    intro w hw
    have hw' : w ∈ chunks params62.bytesPerWord (Basex.encode params62.enc payload) := by
      have : w ∈ (chunks 200 (chunks 15 (Basex.encode params62.enc payload))).flatten :=
        List.mem_flatten.mpr ⟨line, hl, hw⟩
      rw [chunks_flatten] at this
      exact this
    obtain ⟨h1, h2, h3⟩ := words_shape payload w hw'
    exact ⟨h2, h1, fun c hc => h3 c hc⟩

end Saltpack.Proofs
