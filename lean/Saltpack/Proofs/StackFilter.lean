/-
  The armor reader stack, stage 3: `filteringReader.Read` (`filRead`) over the
  framed decoder.  Meaning of a state: the alphabet characters of the remaining
  body text (`Basex.filterSkip`), provided every remaining body byte is valid
  and the frame is acceptable; otherwise an error will be reported.

  Core Lean only.
-/
import Saltpack.Proofs.StackFramed

namespace Saltpack.Proofs
open Saltpack Saltpack.Stream

/-! ## `filterScan` -/

theorem filterScan_ok (enc : Basex.Enc) : ∀ (d : Bytes) (n : Nat) (kept : Bytes) (n' : Nat),
    filterScan enc d n = .ok (kept, n') →
    kept = Basex.filterSkip enc d ∧ d.all (fun c => (enc.digit? c).isSome || enc.isSkip c) = true ∧
    (∀ c ∈ kept, (enc.digit? c).isSome = true) := by
  intro d
  induction d with
  | nil =>
    intro n kept n' h
    simp only [filterScan, Except.ok.injEq, Prod.mk.injEq] at h
    obtain ⟨rfl, _⟩ := h
    exact ⟨rfl, rfl, by simp⟩
  | cons c cs ih =>
    intro n kept n' h
    unfold filterScan at h
    by_cases hd : (enc.digit? c).isSome = true
    · rw [if_pos hd] at h
      cases hr : filterScan enc cs (n + 1) with
      | error k => rw [hr] at h; simp at h
      | ok q =>
        obtain ⟨r, m⟩ := q
        rw [hr] at h
        simp only [Except.ok.injEq, Prod.mk.injEq] at h
        obtain ⟨rfl, rfl⟩ := h
        obtain ⟨i1, i2, i3⟩ := ih (n + 1) r m hr
        refine ⟨?_, ?_, ?_⟩
        · unfold Basex.filterSkip
          rw [List.filter_cons]
          have : (!(enc.isSkip c && (enc.digit? c).isNone)) = true := by
            cases hx : enc.digit? c with
            | none => rw [hx] at hd; simp at hd
            | some v => simp
          rw [if_pos this, i1]
          rfl
        · rw [List.all_cons, i2, hd]; rfl
        · intro x hx
          rcases List.mem_cons.mp hx with hx | hx
          · rw [hx]; exact hd
          · exact i3 x hx
    · rw [if_neg hd] at h
      by_cases hs : enc.isSkip c = true
      · rw [if_pos hs] at h
        obtain ⟨i1, i2, i3⟩ := ih (n + 1) kept n' h
        refine ⟨?_, ?_, i3⟩
        · unfold Basex.filterSkip
          rw [List.filter_cons]
          have : ¬ (!(enc.isSkip c && (enc.digit? c).isNone)) = true := by
            cases hx : enc.digit? c with
            | none => simp [hs]
            | some v => rw [hx] at hd; simp at hd
          rw [if_neg this, i1]
          rfl
        · rw [List.all_cons, i2, hs]; simp
      · rw [if_neg hs] at h
        simp at h

theorem filterScan_error (enc : Basex.Enc) : ∀ (d : Bytes) (n k : Nat),
    filterScan enc d n = .error k → d.all (fun c => (enc.digit? c).isSome || enc.isSkip c) = false := by
  intro d
  induction d with
  | nil => intro n k h; simp [filterScan] at h
  | cons c cs ih =>
    intro n k h
    unfold filterScan at h
    by_cases hd : (enc.digit? c).isSome = true
    · rw [if_pos hd] at h
      cases hr : filterScan enc cs (n + 1) with
      | error k' => rw [List.all_cons, ih (n + 1) k' hr]; simp
      | ok q => obtain ⟨r, m⟩ := q; rw [hr] at h; simp at h
    · rw [if_neg hd] at h
      by_cases hs : enc.isSkip c = true
      · rw [if_pos hs] at h
        rw [List.all_cons, ih (n + 1) k h]; simp
      · rw [if_neg hs] at h
        have hd' : (enc.digit? c).isSome = false := by simpa using hd
        have hs' : enc.isSkip c = false := by simpa using hs
        rw [List.all_cons, hd', hs']; rfl

theorem validByte_eq (par : Armor.Params) :
    Armor.validByte par = (fun c => (par.enc.digit? c).isSome || par.enc.isSkip c) := rfl

theorem filterSkip_app (e : Basex.Enc) (a b : Bytes) :
    Basex.filterSkip e (a ++ b) = Basex.filterSkip e a ++ Basex.filterSkip e b := by
  unfold Basex.filterSkip
  exact List.filter_append ..

theorem filterSkip_length_le (e : Basex.Enc) (a : Bytes) : (Basex.filterSkip e a).length ≤ a.length := by
  unfold Basex.filterSkip
  exact List.length_filter_le ..

/-! ## meaning of a filter state -/

/-- filter a meaning of the framed layer -/
def filOf (par : Armor.Params) (q : Bytes × FInfo) : Option (Bytes × FInfo) :=
  if q.1.all (Armor.validByte par) = true then some (Basex.filterSkip par.enc q.1, q.2) else none

def filSem (par : Armor.Params) (expect : Armor.Expect) (s : FilState) : Option (Bytes × FInfo) :=
  (fSem par expect s.f).bind (filOf par)

/-- delivering valid bytes `d` with kept characters `kept` -/
theorem filOf_pre (par : Armor.Params) (d : Bytes) (hv : d.all (Armor.validByte par) = true) (m : Option (Bytes × FInfo)) :
    (m.map (preB d)).bind (filOf par) = (m.bind (filOf par)).map (preB (Basex.filterSkip par.enc d)) := by
  cases m with
  | none => rfl
  | some q =>
    simp only [Option.map_some, Option.bind_some, filOf, preB, List.all_append, hv, Bool.true_and]
    by_cases h : q.1.all (Armor.validByte par) = true
    · simp [h, filterSkip_app]; rfl
    · simp [h]

theorem filOf_pre_bad (par : Armor.Params) (d : Bytes) (hv : d.all (Armor.validByte par) = false) (m : Option (Bytes × FInfo)) :
    (m.map (preB d)).bind (filOf par) = none := by
  cases m with
  | none => rfl
  | some q => simp [filOf, preB, List.all_append, hv]

theorem pre_nil (m : Option (Bytes × FInfo)) : m.map (preB []) = m := by
  cases m with
  | none => rfl
  | some q => rfl

theorem pre_pre (a b : Bytes) (m : Option (Bytes × FInfo)) : (m.map (preB b)).map (preB a) = m.map (preB (a ++ b)) := by
  cases m with
  | none => rfl
  | some q => simp [preB]

/-- what one `Read` of the filter may do to the meaning of the state -/
def FilStepOK (par : Armor.Params) (expect : Armor.Expect) (s : FilState) (x : Bytes) (e : Option RErr) (s' : FilState) : Prop :=
  (e = none ∧ x ≠ [] ∧ (∀ c ∈ x, (par.enc.digit? c).isSome = true) ∧ FInv s'.f ∧ fRaw s'.f + x.length ≤ fRaw s.f ∧
      filSem par expect s = (filSem par expect s').map (preB x)) ∨
  (e = some .eof ∧ x = [] ∧ FInv s'.f ∧ fRaw s'.f ≤ fRaw s.f ∧ s'.f.phase = .endOfStream ∧
      filSem par expect s = some ([], (s'.f.hdr, s'.f.brand, s'.f.ftr))) ∨
  (∃ z, e = some (.err z) ∧ filSem par expect s = none)

theorem filRead_succ (par : Armor.Params) (expect : Armor.Expect) (cap fuel : Nat) (s : FilState) :
    filRead par expect cap (fuel + 1) s =
      if (fRead par expect cap s.f).1.isEmpty then
        ([], (fRead par expect cap s.f).2.1, { s with f := (fRead par expect cap s.f).2.2 })
      else match filterScan par.enc (fRead par expect cap s.f).1 s.nRead with
        | .error k => ([], some (.err .basexCorrupt), { f := (fRead par expect cap s.f).2.2, nRead := k })
        | .ok (kept, n') =>
          if !kept.isEmpty then (kept, (fRead par expect cap s.f).2.1, { f := (fRead par expect cap s.f).2.2, nRead := n' })
          else match (fRead par expect cap s.f).2.1 with
            | some x => ([], some x, { f := (fRead par expect cap s.f).2.2, nRead := n' })
            | none => filRead par expect cap fuel { f := (fRead par expect cap s.f).2.2, nRead := n' } := by
  rw [filRead]
  rcases fRead par expect cap s.f with ⟨d, e, f1⟩
  rfl

/-- **one `filteringReader.Read`** with any positive buffer size; the model's
    loop bound `fuel` is enough as soon as it exceeds the raw text left -/
theorem filRead_step (par : Armor.Params) (expect : Armor.Expect) (cap : Nat) (hcap : 0 < cap) :
    ∀ (fuel : Nat) (s : FilState), FInv s.f → fRaw s.f < fuel →
    ∀ (x : Bytes) (e : Option RErr) (s' : FilState), filRead par expect cap fuel s = (x, e, s') →
    FilStepOK par expect s x e s' := by
  intro fuel
  induction fuel with
  | zero => intro s _ h; omega
  | succ fuel ih =>
    intro s hi hfuel x e s' h
    rw [filRead_succ] at h
    rcases hr : fRead par expect cap s.f with ⟨d, e0, f1⟩
    have hstep := fRead_step par expect cap hcap s.f hi d e0 f1 hr
    rw [hr] at h
    simp only at h
    by_cases hd : d = []
    · -- nothing delivered: a condition
      subst hd
      simp only [List.isEmpty_nil, if_true, Prod.mk.injEq] at h
      obtain ⟨rfl, rfl, rfl⟩ := h
      rcases hstep with ⟨_, a2, _⟩ | ⟨a1, _, a3, a4, a5, a6⟩ | ⟨z, a1, a2⟩
      · exact absurd rfl a2
      · refine Or.inr (Or.inl ⟨a1, rfl, a3, a4, a5, ?_⟩)
        simp [filSem, a6, filOf, Basex.filterSkip]
      · exact Or.inr (Or.inr ⟨z, a1, by simp [filSem, a2]⟩)
    · have hde : d.isEmpty = false := by cases d with
        | nil => exact absurd rfl hd
        | cons _ _ => rfl
      simp only [hde, Bool.false_eq_true, if_false] at h
      cases hscan : filterScan par.enc d s.nRead with
      | error k =>
        rw [hscan] at h
        simp only [Prod.mk.injEq] at h
        obtain ⟨rfl, rfl, rfl⟩ := h
        have hbad : d.all (Armor.validByte par) = false := filterScan_error par.enc d _ _ hscan
        refine Or.inr (Or.inr ⟨_, rfl, ?_⟩)
        rcases hstep with ⟨_, _, _, _, a5⟩ | ⟨_, a2, _⟩ | ⟨z, _, a2⟩
        · simp only [filSem]; rw [a5]; exact filOf_pre_bad par d hbad _
        · exact absurd a2 hd
        · simp [filSem, a2]
      | ok q =>
        obtain ⟨kept, n'⟩ := q
        rw [hscan] at h
        simp only at h
        obtain ⟨k1, k2, k3⟩ := filterScan_ok par.enc d _ kept n' hscan
        have hv : d.all (Armor.validByte par) = true := k2
        have hklen : kept.length ≤ d.length := by rw [k1]; exact filterSkip_length_le _ _
        by_cases hk : kept = []
        · subst hk
          simp only [List.isEmpty_nil, Bool.not_true, Bool.false_eq_true, if_false] at h
          rcases hstep with ⟨rfl, _, a3, a4, a5⟩ | ⟨_, a2, _⟩ | ⟨z, rfl, a2⟩
          · -- only skip characters so far: read again
            simp only at h
            have hdpos : 0 < d.length := List.length_pos_iff.mpr hd
            have hrec := ih { f := f1, nRead := n' } a3 (by simp only; omega) x e s' h
            have hsem : filSem par expect s = filSem par expect { f := f1, nRead := n' } := by
              simp only [filSem]
              rw [a5, filOf_pre par d hv, ← k1]
              exact pre_nil _
            unfold FilStepOK at hrec ⊢
            rw [hsem]
            rcases hrec with ⟨b1, b2, b3, b4, b5, b6⟩ | ⟨b1, b2, b3, b4, b5, b6⟩ | b
            · exact Or.inl ⟨b1, b2, b3, b4, by simp only at b5; omega, b6⟩
            · exact Or.inr (Or.inl ⟨b1, b2, b3, by simp only at b4; omega, b5, b6⟩)
            · exact Or.inr (Or.inr b)
          · exact absurd a2 hd
          · simp only [Prod.mk.injEq] at h
            obtain ⟨rfl, rfl, rfl⟩ := h
            exact Or.inr (Or.inr ⟨z, rfl, by simp [filSem, a2]⟩)
        · have hke : kept.isEmpty = false := by cases kept with
            | nil => exact absurd rfl hk
            | cons _ _ => rfl
          simp only [hke, Bool.not_false, if_true, Prod.mk.injEq] at h
          obtain ⟨rfl, rfl, rfl⟩ := h
          rcases hstep with ⟨rfl, _, a3, a4, a5⟩ | ⟨_, a2, _⟩ | ⟨z, rfl, a2⟩
          · refine Or.inl ⟨rfl, hk, k3, a3, by simp only; omega, ?_⟩
            simp only [filSem]
            rw [a5, filOf_pre par d hv, ← k1]
          · exact absurd a2 hd
          · exact Or.inr (Or.inr ⟨z, rfl, by simp [filSem, a2]⟩)

/-- with the loop bound the BaseX decoder passes (`fuelOf … + 4`) -/
theorem filRead_step' (par : Armor.Params) (expect : Armor.Expect) (cap : Nat) (hcap : 0 < cap) (s : FilState)
    (hi : FInv s.f) (x : Bytes) (e : Option RErr) (s' : FilState)
    (h : filRead par expect cap (fuelOf s.f.p + 4) s = (x, e, s')) : FilStepOK par expect s x e s' :=
  filRead_step par expect cap hcap _ s hi (by have := ptext_length_lt_fuelOf s.f.p; unfold fRaw; omega) x e s' h

/-! ## reading the filter to its end -/

/-- read with buffer sizes `caps` (cycled) until a condition is reported; the
    inner loop bound is the one the BaseX decoder passes -/
def filReadAll (par : Armor.Params) (expect : Armor.Expect) (caps : List Nat) :
    (fuel : Nat) → Nat → FilState → Bytes → Bytes × Option RErr × FilState
  | 0, _, s, acc => (acc, none, s)
  | fuel + 1, k, s, acc =>
    let cap := caps.getD (k % caps.length) 1
    let (d, e, s1) := filRead par expect cap (fuelOf s.f.p + 4) s
    match e with
    | none => filReadAll par expect caps fuel (k + 1) s1 (acc ++ d)
    | some x => (acc ++ d, some x, s1)

theorem filReadAll_succ (par : Armor.Params) (expect : Armor.Expect) (caps : List Nat) (fuel k : Nat) (s : FilState)
    (acc : Bytes) :
    filReadAll par expect caps (fuel + 1) k s acc =
      match (filRead par expect (caps.getD (k % caps.length) 1) (fuelOf s.f.p + 4) s).2.1 with
      | none => filReadAll par expect caps fuel (k + 1)
          (filRead par expect (caps.getD (k % caps.length) 1) (fuelOf s.f.p + 4) s).2.2
          (acc ++ (filRead par expect (caps.getD (k % caps.length) 1) (fuelOf s.f.p + 4) s).1)
      | some x => (acc ++ (filRead par expect (caps.getD (k % caps.length) 1) (fuelOf s.f.p + 4) s).1, some x,
          (filRead par expect (caps.getD (k % caps.length) 1) (fuelOf s.f.p + 4) s).2.2) := by
  rw [filReadAll]

/-- **the filter layer, read to its end** with any positive buffer sizes: a
    state that means `(u, info)` hands out exactly `u` (alphabet characters
    only), then `io.EOF`; a state that means an error reports an error. -/
theorem filReadAll_sem (par : Armor.Params) (expect : Armor.Expect) (caps : List Nat) (hpos : ∀ c ∈ caps, 0 < c) :
    ∀ (fuel : Nat) (s : FilState), FInv s.f → fRaw s.f < fuel → ∀ (k : Nat) (acc : Bytes),
    (∀ u i, filSem par expect s = some (u, i) →
      ∃ s', filReadAll par expect caps fuel k s acc = (acc ++ u, some .eof, s') ∧ FInv s'.f ∧
        s'.f.phase = .endOfStream ∧ i = (s'.f.hdr, s'.f.brand, s'.f.ftr)) ∧
    (filSem par expect s = none → ∃ r z s', filReadAll par expect caps fuel k s acc = (r, some (.err z), s')) := by
  intro fuel
  induction fuel with
  | zero => intro s _ h; omega
  | succ fuel ih =>
    intro s hi hf k acc
    have hcap := capsGetD_pos caps hpos (k % caps.length)
    rw [filReadAll_succ]
    rcases hr : filRead par expect (caps.getD (k % caps.length) 1) (fuelOf s.f.p + 4) s with ⟨d, e, s1⟩
    have hstep := filRead_step' par expect _ hcap s hi d e s1 hr
    simp only
    rcases hstep with ⟨rfl, a2, _, a3, a4, a5⟩ | ⟨rfl, rfl, a3, a4, a5, a6⟩ | ⟨z, rfl, a2⟩
    · have hd : 0 < d.length := List.length_pos_iff.mpr a2
      obtain ⟨i1, i2⟩ := ih s1 a3 (by omega) (k + 1) (acc ++ d)
      simp only
      constructor
      · intro t i hs
        rw [a5] at hs
        cases h1 : filSem par expect s1 with
        | none => rw [h1] at hs; simp at hs
        | some q =>
          obtain ⟨t1, i'⟩ := q
          rw [h1] at hs
          simp only [Option.map_some, preB, Option.some.injEq, Prod.mk.injEq] at hs
          obtain ⟨rfl, rfl⟩ := hs
          obtain ⟨s', g1, g2, g3, g4⟩ := i1 t1 i' h1
          exact ⟨s', by rw [g1, List.append_assoc], g2, g3, g4⟩
      · intro hs
        rw [a5] at hs
        have h1 : filSem par expect s1 = none := by
          cases h : filSem par expect s1 with
          | none => rfl
          | some q => rw [h] at hs; simp at hs
        exact i2 h1
    · simp only
      constructor
      · intro t i hs
        rw [a6] at hs
        simp only [Option.some.injEq, Prod.mk.injEq] at hs
        obtain ⟨rfl, rfl⟩ := hs
        exact ⟨s1, rfl, a3, a5, rfl⟩
      · intro hs; rw [a6] at hs; simp at hs
    · simp only
      constructor
      · intro t i hs; rw [a2] at hs; simp at hs
      · intro _; exact ⟨_, z, s1, rfl⟩

/-- from the start of a text `T` whose frame part is acceptable with body
    `body`: `filterSkip body` when all body bytes are valid, else an error -/
theorem filReadAll_text (par : Armor.Params) (expect : Armor.Expect) (src : Source) (T : Bytes) (hok : SrcOK src)
    (hsrc : srcText src = (T, .eof)) (caps : List Nat) (hpos : ∀ c ∈ caps, 0 < c) (fuel : Nat)
    (hf : T.length < fuel) (body : Bytes) (i : FInfo) (hsem : hdrSem par expect [] T = some (body, i)) :
    (body.all (Armor.validByte par) = true →
      ∃ s', filReadAll par expect caps fuel 0 { f := { p := { src := src } } } [] =
        (Basex.filterSkip par.enc body, some .eof, s')) ∧
    (body.all (Armor.validByte par) = false →
      ∃ r z s', filReadAll par expect caps fuel 0 { f := { p := { src := src } } } [] = (r, some (.err z), s')) := by
  have ht : ({ src := src } : PState).text.1 = T := by rw [ptext_init, hsrc]
  have hs0 : filSem par expect { f := { p := { src := src } } } = filOf par (body, i) := by
    simp [filSem, fSem, ht, hsem]
  obtain ⟨a, b⟩ := filReadAll_sem par expect caps hpos fuel { f := { p := { src := src } } }
    (fInv_init src hok T hsrc) (by simp only [fRaw, ht]; exact hf) 0 []
  rw [hs0] at a b
  constructor
  · intro hv
    obtain ⟨s', g1, _⟩ := a (Basex.filterSkip par.enc body) i (by simp [filOf, hv])
    exact ⟨s', by simpa using g1⟩
  · intro hv
    exact b (by simp [filOf, hv])

/-! ## concrete checks -/

-- "h. a b.f." : the spaces of the body are dropped
example : (filReadAll Armor.params62 none [1, 2] 12 0
    { f := { p := { src := [([104, 46, 32, 97], none), ([32, 98, 46, 102, 46], none)] } } } []).1 = [97, 98] := by
  decide

-- an invalid body byte `!` is reported as corrupt input
example : (filReadAll Armor.params62 none [3] 12 0
    { f := { p := { src := [([104, 46, 97, 33, 98, 46, 102, 46], none)] } } } []).2.1 = some (.err .basexCorrupt) := by
  decide

end Saltpack.Proofs
