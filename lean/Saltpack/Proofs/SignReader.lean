/-
  Proofs about `VerifyDetachedReader` (Model/SignReader.lean): the reader form
  equals the bytes form on what the reader delivers, for every fragmentation.
-/
import Saltpack.Model.SignReader

namespace Saltpack.Proofs
open Saltpack Saltpack.Stream Saltpack.Sign

/-- a reader that delivers `frags` one per call and then reports EOF — alone
    (`last = none`) or together with a last fragment (`last = some d`) -/
def fragSource (frags : List Bytes) (last : Option Bytes) : Source :=
  frags.map (·, none) ++ (match last with | none => [] | some d => [(d, some .eof)])

theorem copyAll_frag (frags : List Bytes) (last : Option Bytes) :
    copyAll (fragSource frags last) = (frags.flatten ++ (last.getD []), none) := by
  induction frags with
  | nil => cases last <;> simp [fragSource, copyAll]
  | cons f fs ih =>
    have : fragSource (f :: fs) last = (f, none) :: fragSource fs last := by simp [fragSource]
    rw [this, copyAll, ih]; simp

/-- a reader that fails after delivering `frags` (the error alone or with data) -/
theorem copyAll_fault (frags : List Bytes) (d : Bytes) (z : Err) (rest : Source) :
    (copyAll (frags.map (·, none) ++ (d, some (.err z)) :: rest)).2 = some z := by
  induction frags with
  | nil => simp [copyAll]
  | cons f fs ih => simp only [List.map_cons, List.cons_append, copyAll]; exact ih

theorem verifyDetachedReader_eq (P : Prims) (valid : Validator) (kr : Keyring)
    (hr : HeaderRead SigHeader) (sr : SigRead) (src : Source) (msg : Bytes)
    (h : copyAll src = (msg, none)) :
    verifyDetachedReader P valid kr hr sr src = verifyDetached P valid kr hr sr msg := by
  unfold verifyDetachedReader verifyDetached
  cases hr with
  | unreadable => rfl
  | undecodable _ => rfl
  | ok hb hd =>
    simp only
    cases validate valid hd mtDetached with
    | error e => rfl
    | ok u =>
      simp only
      cases sr with
      | none e => rfl
      | sig sg =>
        simp only
        cases kr.lookupSigningPublicKey hd.senderPublic with
        | none => rfl
        | some pk => simp only [h]

theorem verifyDetachedReader_fault (P : Prims) (valid : Validator) (kr : Keyring)
    (hr : HeaderRead SigHeader) (sr : SigRead) (src : Source) (z : Err)
    (h : (copyAll src).2 = some z) :
    ∃ e, verifyDetachedReader P valid kr hr sr src = .error e := by
  unfold verifyDetachedReader
  cases hr with
  | unreadable => exact ⟨_, rfl⟩
  | undecodable _ => exact ⟨_, rfl⟩
  | ok hb hd =>
    simp only
    cases validate valid hd mtDetached with
    | error e => exact ⟨_, rfl⟩
    | ok u =>
      simp only
      cases sr with
      | none e => exact ⟨_, rfl⟩
      | sig sg =>
        simp only
        cases kr.lookupSigningPublicKey hd.senderPublic with
        | none => exact ⟨_, rfl⟩
        | some pk =>
          simp only
          rcases hc : copyAll src with ⟨m, e⟩
          rw [hc] at h
          simp only at h
          subst h
          exact ⟨_, rfl⟩

end Saltpack.Proofs
