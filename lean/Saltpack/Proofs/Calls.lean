/-
  What long-term key objects are asked to do (behind Props/C12), and freshness /
  fail-closed randomness (behind Props/C18).
-/
import Saltpack.Model.Decrypt
import Saltpack.Model.Signcrypt
import Saltpack.Model.Sign
import Saltpack.Model.Encrypt
import Saltpack.Proofs.Receiver

namespace Saltpack.Proofs
open Saltpack

/-! ## C12 -/

/-- the only nonces under which a long-term box secret key ever opens a box:
    the V1 constant, or the `saltpack_recipsb` prefix followed by a 64-bit index
    — a function of the recipient *index*, never of message bytes -/
def PayloadKeyNonce (n : Bytes) : Prop := n = Nonce.payloadKeyBoxV1 ∨ ∃ i : Nat, n = Nonce.payloadKeyBoxV2 i

/-- what a decrypting receiver may ask of long-term keys -/
def DecCallOK : KeyCall → Prop
  | .unbox _ _ n _ => PayloadKeyNonce n
  | .sharedUnbox _ _ n _ => PayloadKeyNonce n
  | .box _ _ _ m => m = zeros 32
  | .precompute _ _ => True
  | .sharedBox _ _ _ _ => False
  | .sign _ _ => False

theorem dec_calls_ok (P : Prims) (valid : Validator) (kr : Keyring) (hr : HeaderRead EncHeader)
    (ps : PStream EncBlock) :
    ∀ c ∈ (Decrypt.openStream P valid kr hr ps).calls, DecCallOK c := by
  sorry

/-- a signcryption opener uses its box secret keys only to box 32 zero bytes
    under the fixed derived-key nonce -/
theorem sc_calls_ok (P : Prims) (kr : Keyring) (res : Signcrypt.Resolver) (hr : HeaderRead EncHeader)
    (ps : PStream SigncryptBlock) :
    ∀ c ∈ (Signcrypt.openStream P kr res hr ps).calls,
      ∃ sk pk, c = .box sk pk Nonce.derivedSharedKey (zeros 32) := by
  sorry

/-- a sender's long-term box key only boxes 32 zero bytes -/
theorem sender_calls_ok (v : Version) (sender : Option Bytes) (hh : Bytes) (rs : List Encrypt.Recipient) (i : Nat) :
    ∀ c ∈ Encrypt.senderCalls v sender hh rs i, ∃ sk pk n, c = .box sk pk n (zeros 32) := by
  sorry

/-- attached signing: every signed input is the attached domain string followed
    by exactly 64 bytes of hash (over the header hash — which covers the fresh
    header nonce —, the packet number, the final flag and the chunk) -/
theorem attached_sign_inputs (P : Prims) (hP : P.Lawful) (v : Version) (signer hh : Bytes)
    (plan : List (Bytes × Bool)) (i : Nat) :
    ∀ c ∈ Sign.signCalls P v signer hh plan i,
      ∃ d, d.length = 64 ∧ c = .sign signer (Gen.c_sp_signatureAttachedString ++ d) := by
  sorry

/-- signcryption: every signed input is the signcryption domain string followed
    by exactly 64 + 24 + 1 + 64 bytes -/
theorem signcrypt_sign_inputs (P : Prims) (hP : P.Lawful) (sender : Option Bytes) (hh : Bytes)
    (hhl : hh.length = 64) (plan : List (Bytes × Bool)) (i : Nat) :
    ∀ c ∈ Signcrypt.signCalls P sender hh plan i,
      ∃ s d, sender = some s ∧ d.length = 64 + 24 + 1 + 64 ∧
        c = .sign s (Gen.c_sp_signatureEncryptedString ++ d) := by
  sorry

/-- detached signing: domain string followed by exactly 64 bytes -/
theorem detached_sign_input (P : Prims) (hP : P.Lawful) (hh msg : Bytes) :
    ∃ d, d.length = 64 ∧ detachedSignatureInput P hh msg = Gen.c_sp_signatureDetachedString ++ d := by
  sorry

/-! ## C18 -/

/-- a full read returns exactly `n` bytes and leaves a suffix of the source -/
theorem readFull_spec (n : Nat) (src : Rand.Source) (b : Bytes) (rest : Rand.Source)
    (h : Rand.readFull n src = some (b, rest)) :
    b.length = n ∧ ∃ k, k ≤ src.length ∧ rest = src.drop k ∧
      b = (((src.take k).map (·.data)).flatten).take n := by
  sorry

/-- **fail closed**: if a read reports an error before `n` bytes have been
    delivered (alone, or together with a short slice), the full read fails -/
theorem readFull_fail_closed (n : Nat) (src : Rand.Source) (k : Nat) (hk : k < src.length)
    (herr : (src[k]'hk).err = true)
    (hshort : ((src.take (k + 1)).map (·.data.length)).sum < n) :
    Rand.readFull n src = none := by
  sorry

/-- a source that ends before `n` bytes: the full read fails -/
theorem readFull_short (n : Nat) (src : Rand.Source)
    (hshort : (src.map (·.data.length)).sum < n) : Rand.readFull n src = none := by
  sorry

/-- `Seal`'s secrets are exactly what the source delivered, in the order
    shuffle draws → ephemeral key (if drawn from the source) → payload key;
    the unread rest is a suffix of the source (so consecutive operations consume
    disjoint consecutive segments) -/
theorem sealRand_draws (P : Prims) (bs : Nat) (v : Version) (sender : Option Bytes)
    (rs : List Encrypt.Recipient) (eph : Encrypt.EphSource) (src : Rand.Source) (pt m : Bytes) (rest : Rand.Source)
    (h : Encrypt.sealRand P bs v sender rs eph src pt = .ok (m, rest)) :
    ∃ js src1 ephSec src2 pk,
      Encrypt.shuffleDraws (rs.length - 1) src (src.length + 1) = .ok (js, src1) ∧
      (match eph with
        | .given s => ephSec = s ∧ src2 = src1
        | .fromRand => Rand.readFull 32 src1 = some (ephSec, src2)
        | .fails => False) ∧
      Rand.readFull 32 src2 = some (pk, rest) ∧
      Encrypt.sealWith P bs v sender (Rand.shuffle js rs) ephSec pk pt = .ok m := by
  sorry

/-- signing: the header nonce is exactly the 16 bytes of the first full read -/
theorem attachedRand_draws (P : Prims) (bs : Nat) (v : Version) (signer : Bytes) (src : Rand.Source)
    (msg m : Bytes) (rest : Rand.Source)
    (h : Sign.attachedRand P bs v signer src msg = .ok (m, rest)) :
    ∃ n, Rand.readFull Sign.sigNonceLen src = some (n, rest) ∧ Sign.attachedWith P bs v signer n msg = .ok m := by
  sorry

/-- fail closed, end to end: if the payload-key read fails, `Seal` returns an
    error (nothing is emitted: the model returns no bytes at all) -/
theorem sealRand_fail_closed (P : Prims) (bs : Nat) (v : Version) (sender : Option Bytes)
    (rs : List Encrypt.Recipient) (s : Bytes) (src : Rand.Source) (pt : Bytes)
    (hsingle : rs.length = 1)
    (hfail : Rand.readFull 32 src = none) :
    ∃ e, Encrypt.sealRand P bs v sender rs (.given s) src pt = .error e := by
  sorry

/-- within one message no two chunks share a nonce (the key is the same) -/
theorem chunk_nonces_distinct (i j : Nat) (hi : i < 2 ^ 64) (hj : j < 2 ^ 64) (h : i ≠ j) :
    Nonce.chunkSecretBox i ≠ Nonce.chunkSecretBox j := by
  sorry

theorem signcrypt_nonces_distinct (hh : Bytes) (hl : hh.length = 64) (f f' : Bool) (i j : Nat)
    (hi : i < 2 ^ 64) (hj : j < 2 ^ 64) (h : (f, i) ≠ (f', j)) :
    Nonce.chunkSigncryption hh f i ≠ Nonce.chunkSigncryption hh f' j := by
  sorry

/-- the payload key is also used for the sender secretbox: that nonce differs
    from every chunk nonce -/
theorem sender_nonce_not_chunk (i : Nat) : Nonce.senderKeySecretBox ≠ Nonce.chunkSecretBox i := by
  sorry

/-- per-recipient payload-key-box nonces (V2) are distinct per index -/
theorem payloadKeyBoxV2_inj (i j : Nat) (hi : i < 2 ^ 64) (hj : j < 2 ^ 64)
    (h : Nonce.payloadKeyBoxV2 i = Nonce.payloadKeyBoxV2 j) : i = j := by
  sorry

/-- MAC-key-box nonces (V2) are distinct per (ephemeral bit, index) -/
theorem macKeyBoxV2_inj (hh : Bytes) (hl : hh.length = 64) (e e' : Bool) (i j : Nat)
    (hi : i < 2 ^ 64) (hj : j < 2 ^ 64)
    (h : Nonce.macKeyBoxV2 hh e i = Nonce.macKeyBoxV2 hh e' j) : e = e' ∧ i = j := by
  sorry

/-- the encoder refuses to run the chunk counter into the nonce overflow -/
theorem block_overflow_guard (P : Prims) (v : Version) (pk hh : Bytes) (mks : List Bytes) (i : Nat)
    (c : Bytes) (f : Bool) (hi : 2 ^ 64 - 1 ≤ i) :
    Encrypt.blockStruct P v pk hh mks i c f = .error .packetOverflow := by
  sorry

end Saltpack.Proofs
