/-
  What long-term key objects are asked to do (behind Props/C12), and freshness /
  fail-closed randomness (behind Props/C18).
-/
import Saltpack.Model.Decrypt
import Saltpack.Model.Signcrypt
import Saltpack.Model.Sign
import Saltpack.Model.Encrypt
import Saltpack.Proofs.Receiver

namespace Saltpack.Proofs
open Saltpack

/-! ## C12 -/

/-- the only nonces under which a long-term box secret key ever opens a box:
    the V1 constant, or the `saltpack_recipsb` prefix followed by a 64-bit index
    — a function of the recipient *index*, never of message bytes -/
def PayloadKeyNonce (n : Bytes) : Prop := n = Nonce.payloadKeyBoxV1 ∨ ∃ i : Nat, n = Nonce.payloadKeyBoxV2 i

/-- what a decrypting receiver may ask of long-term keys -/
def DecCallOK : KeyCall → Prop
  | .unbox _ _ n _ => PayloadKeyNonce n
  | .sharedUnbox _ _ n _ => PayloadKeyNonce n
  | .box _ _ _ m => m = zeros 32
  | .precompute _ _ => True
  | .sharedBox _ _ _ _ => False
  | .sign _ _ => False

theorem Calls.payloadKeyBox_ok {v : Version} {i : Nat} {n : Bytes}
    (h : Nonce.payloadKeyBox v i = .ok n) : PayloadKeyNonce n := by
  unfold Nonce.payloadKeyBox at h
  split at h
  · cases h; exact Or.inl rfl
  · split at h
    · cases h; exact Or.inr ⟨i, rfl⟩
    · cases h

/-- every call of a log is admissible -/
def Calls.AllOK (l : List KeyCall) : Prop := ∀ c ∈ l, DecCallOK c

theorem Calls.AllOK.nil : Calls.AllOK [] := fun _ h => absurd h List.not_mem_nil

theorem Calls.AllOK.cons {c : KeyCall} {l : List KeyCall} (hc : DecCallOK c) (hl : Calls.AllOK l) : Calls.AllOK (c :: l) := by
  intro x hx
  rcases List.mem_cons.mp hx with rfl | hx
  · exact hc
  · exact hl x hx

theorem Calls.AllOK.append {l l' : List KeyCall} (h : Calls.AllOK l) (h' : Calls.AllOK l') : Calls.AllOK (l ++ l') := by
  intro x hx
  rcases List.mem_append.mp hx with hx | hx
  · exact h x hx
  · exact h' x hx

theorem Calls.tryVisible_calls (P : Prims) (kr : Keyring) (h : EncHeader) (eph : Bytes) :
    Calls.AllOK (Decrypt.tryVisible P kr h eph).1 := by
  unfold Decrypt.tryVisible
  simp only
  split
  · exact Calls.AllOK.nil
  · split
    · exact Calls.AllOK.nil
    · split
      · exact Calls.AllOK.nil
      · split
        · exact Calls.AllOK.nil
        · rename_i nonce hn
          have hok : ∀ a b d, Calls.AllOK [KeyCall.unbox a b nonce d] :=
            fun _ _ _ => Calls.AllOK.cons (Calls.payloadKeyBox_ok hn) Calls.AllOK.nil
          split
          · exact hok _ _ _
          · split <;> exact hok _ _ _

theorem Calls.tryHiddenOne_calls (P : Prims) (v : Version) (sk eph : Bytes) (l : List (RecvKeys × Nat)) :
    Calls.AllOK (Decrypt.tryHiddenOne P v sk eph l).1 := by
  induction l with
  | nil => exact Calls.AllOK.nil
  | cons p rest ih =>
    obtain ⟨r, i⟩ := p
    rw [Decrypt.tryHiddenOne]
    split
    · split
      · exact Calls.AllOK.nil
      · rename_i nonce hn
        have hc : DecCallOK (KeyCall.sharedUnbox sk eph nonce r.box) := Calls.payloadKeyBox_ok hn
        simp only
        split
        · exact Calls.AllOK.cons hc ih
        · split <;> exact Calls.AllOK.cons hc Calls.AllOK.nil
    · exact ih

theorem Calls.tryHidden_calls (P : Prims) (h : EncHeader) (eph : Bytes) (sks : List Bytes) :
    Calls.AllOK (Decrypt.tryHidden P h eph sks).1 := by
  induction sks with
  | nil => exact Calls.AllOK.nil
  | cons sk sks ih =>
    rw [Decrypt.tryHidden]
    have h1 := Calls.tryHiddenOne_calls P h.version sk eph h.receivers.zipIdx
    have hl : Calls.AllOK (KeyCall.precompute sk eph :: (Decrypt.tryHiddenOne P h.version sk eph h.receivers.zipIdx).1) :=
      Calls.AllOK.cons True.intro h1
    simp only
    split
    · exact hl
    · exact hl
    · exact Calls.AllOK.append hl ih

theorem Calls.macKeyReceiver_calls (P : Prims) (v : Version) (index : Nat) (secret pub ePub hh : Bytes) :
    Calls.AllOK (Decrypt.macKeyReceiver P v index secret pub ePub hh).1 := by
  unfold Decrypt.macKeyReceiver
  split
  · exact Calls.AllOK.cons rfl Calls.AllOK.nil
  · split
    · exact Calls.AllOK.cons rfl (Calls.AllOK.cons rfl Calls.AllOK.nil)
    · exact Calls.AllOK.nil

theorem Calls.processHeader_calls (P : Prims) (valid : Validator) (kr : Keyring) (hh : Bytes) (h : EncHeader) :
    Calls.AllOK (Decrypt.processHeader P valid kr hh h).1 := by
  unfold Decrypt.processHeader
  split
  · exact Calls.AllOK.nil
  split
  · exact Calls.AllOK.nil
  rename_i eph _
  simp only
  have h1 := Calls.tryVisible_calls P kr h eph
  have h2 := Calls.tryHidden_calls P h eph kr.getAllBoxSecretKeys
  split
  · exact h1
  rename_i vis hvis
  have h3 := fun pos sk senderPub => Calls.macKeyReceiver_calls P h.version pos sk senderPub eph hh
  cases vis with
  | some r =>
    have h12 := Calls.AllOK.append h1 Calls.AllOK.nil
    simp only
    split
    · exact h12
    · split
      · exact h12
      · split
        · exact h12
        · split
          · exact Calls.AllOK.append h12 (h3 _ _ _)
          · exact Calls.AllOK.append h12 (h3 _ _ _)
  | none =>
    have h12 := Calls.AllOK.append h1 h2
    simp only
    split
    · exact h12
    · exact h12
    · split
      · exact h12
      · split
        · exact h12
        · split
          · exact h12
          · split
            · exact Calls.AllOK.append h12 (h3 _ _ _)
            · exact Calls.AllOK.append h12 (h3 _ _ _)

theorem dec_calls_ok (P : Prims) (valid : Validator) (kr : Keyring) (hr : HeaderRead EncHeader)
    (ps : PStream EncBlock) :
    ∀ c ∈ (Decrypt.openStream P valid kr hr ps).calls, DecCallOK c := by
  show Calls.AllOK _
  unfold Decrypt.openStream
  split
  · exact Calls.AllOK.nil
  · exact Calls.AllOK.nil
  · rename_i hb h
    have hp := Calls.processHeader_calls P valid kr (P.hash hb) h
    split
    · rename_i log e heq
      rw [heq] at hp; exact hp
    · rename_i log st heq
      rw [heq] at hp; exact hp

theorem Calls.sc_processHeader_calls (P : Prims) (kr : Keyring) (res : Signcrypt.Resolver) (hh : Bytes) (h : EncHeader) :
    ∀ c ∈ (Signcrypt.processHeader P kr res hh h).1,
      ∃ sk pk, c = .box sk pk Nonce.derivedSharedKey (zeros 32) := by
  have hnil : ∀ c ∈ ([] : List KeyCall), ∃ sk pk, c = .box sk pk Nonce.derivedSharedKey (zeros 32) :=
    fun _ h => absurd h List.not_mem_nil
  have hmap : ∀ (sks : List Bytes) (eph : Bytes),
      ∀ c ∈ sks.map (fun sk => KeyCall.box sk eph Nonce.derivedSharedKey (zeros 32)),
        ∃ sk pk, c = .box sk pk Nonce.derivedSharedKey (zeros 32) := by
    intro sks eph c hc
    obtain ⟨sk, _, rfl⟩ := List.mem_map.mp hc
    exact ⟨sk, eph, rfl⟩
  unfold Signcrypt.processHeader
  split
  · exact hnil
  split
  · exact hnil
  simp only
  split
  · exact hmap _ _
  · exact hmap _ _
  · split
    · exact hmap _ _
    · split
      · exact hmap _ _
      · split <;> exact hmap _ _

/-- a signcryption opener uses its box secret keys only to box 32 zero bytes
    under the fixed derived-key nonce -/
theorem sc_calls_ok (P : Prims) (kr : Keyring) (res : Signcrypt.Resolver) (hr : HeaderRead EncHeader)
    (ps : PStream SigncryptBlock) :
    ∀ c ∈ (Signcrypt.openStream P kr res hr ps).calls,
      ∃ sk pk, c = .box sk pk Nonce.derivedSharedKey (zeros 32) := by
  unfold Signcrypt.openStream
  split
  · exact fun _ h => absurd h List.not_mem_nil
  · exact fun _ h => absurd h List.not_mem_nil
  · rename_i hb h
    have hp := Calls.sc_processHeader_calls P kr res (P.hash hb) h
    split
    · rename_i log e heq
      rw [heq] at hp; exact hp
    · rename_i log st heq
      rw [heq] at hp; exact hp

/-- a sender's long-term box key only boxes 32 zero bytes -/
theorem sender_calls_ok (v : Version) (sender : Option Bytes) (hh : Bytes) (rs : List Encrypt.Recipient) (i : Nat) :
    ∀ c ∈ Encrypt.senderCalls v sender hh rs i, ∃ sk pk n, c = .box sk pk n (zeros 32) := by
  induction rs generalizing i with
  | nil => exact fun _ h => absurd h List.not_mem_nil
  | cons r rs ih =>
    intro c hc
    unfold Encrypt.senderCalls at hc
    rcases List.mem_append.mp hc with hc | hc
    · cases sender with
      | none => exact absurd hc List.not_mem_nil
      | some s =>
        simp only at hc
        split at hc
        · exact ⟨_, _, _, List.mem_singleton.mp hc⟩
        · exact ⟨_, _, _, List.mem_singleton.mp hc⟩
    · exact ih _ c hc

/-- attached signing: every signed input is the attached domain string followed
    by exactly 64 bytes of hash (over the header hash — which covers the fresh
    header nonce —, the packet number, the final flag and the chunk) -/
theorem attached_sign_inputs (P : Prims) (hP : P.Lawful) (v : Version) (signer hh : Bytes)
    (plan : List (Bytes × Bool)) (i : Nat) :
    ∀ c ∈ Sign.signCalls P v signer hh plan i,
      ∃ d, d.length = 64 ∧ c = .sign signer (Gen.c_sp_signatureAttachedString ++ d) := by
  induction plan generalizing i with
  | nil => exact fun _ h => absurd h List.not_mem_nil
  | cons p rest ih =>
    obtain ⟨ch, f⟩ := p
    intro c hc
    rw [Sign.signCalls] at hc
    rcases List.mem_append.mp hc with hc | hc
    · unfold attachedSignatureInput at hc
      split at hc
      · rename_i inp heq
        split at heq
        · cases heq
          exact ⟨_, hP.hash_len _, List.mem_singleton.mp hc⟩
        · split at heq
          · cases heq
            exact ⟨_, hP.hash_len _, List.mem_singleton.mp hc⟩
          · cases heq
      · exact absurd hc List.not_mem_nil
    · exact ih _ c hc

theorem Calls.chunkSigncryption_length (hh : Bytes) (hl : hh.length = 64) (f : Bool) (i : Nat) :
    (Nonce.chunkSigncryption hh f i).length = 24 := by
  unfold Nonce.chunkSigncryption Nonce.hashFlagCounter
  simp only [List.length_append, List.length_take, List.length_cons, List.length_nil, be64_length, hl]
  omega

/-- signcryption: every signed input is the signcryption domain string followed
    by exactly 64 + 24 + 1 + 64 bytes -/
theorem signcrypt_sign_inputs (P : Prims) (hP : P.Lawful) (sender : Option Bytes) (hh : Bytes)
    (hhl : hh.length = 64) (plan : List (Bytes × Bool)) (i : Nat) :
    ∀ c ∈ Signcrypt.signCalls P sender hh plan i,
      ∃ s d, sender = some s ∧ d.length = 64 + 24 + 1 + 64 ∧
        c = .sign s (Gen.c_sp_signatureEncryptedString ++ d) := by
  induction plan generalizing i with
  | nil => exact fun _ h => absurd h List.not_mem_nil
  | cons p rest ih =>
    obtain ⟨ch, f⟩ := p
    intro c hc
    unfold Signcrypt.signCalls at hc
    rcases List.mem_append.mp hc with hc | hc
    · cases sender with
      | none => exact absurd hc List.not_mem_nil
      | some s =>
        have hc' := List.mem_singleton.mp hc
        refine ⟨s, hh ++ Nonce.chunkSigncryption hh f i ++ finalByte f ++ P.hash ch, rfl, ?_, ?_⟩
        · simp only [List.length_append, hhl, Calls.chunkSigncryption_length hh hhl, finalByte_length,
            hP.hash_len]
        · rw [hc']
          unfold signcryptionSignatureInput
          simp only [List.append_assoc]
    · exact ih _ c hc

/-- detached signing: domain string followed by exactly 64 bytes -/
theorem detached_sign_input (P : Prims) (hP : P.Lawful) (hh msg : Bytes) :
    ∃ d, d.length = 64 ∧ detachedSignatureInput P hh msg = Gen.c_sp_signatureDetachedString ++ d :=
  ⟨_, hP.hash_len _, rfl⟩

/-! ## C18 -/

theorem Calls.readFull_zero (src : Rand.Source) : Rand.readFull 0 src = some ([], src) := by
  cases src <;> rfl

/-- a full read returns exactly `n` bytes and leaves a suffix of the source -/
theorem readFull_spec (n : Nat) (src : Rand.Source) (b : Bytes) (rest : Rand.Source)
    (h : Rand.readFull n src = some (b, rest)) :
    b.length = n ∧ ∃ k, k ≤ src.length ∧ rest = src.drop k ∧
      b = (((src.take k).map (·.data)).flatten).take n := by
  induction src generalizing n b with
  | nil =>
    cases n with
    | zero =>
      rw [Calls.readFull_zero] at h
      cases h
      exact ⟨rfl, 0, Nat.le_refl _, rfl, rfl⟩
    | succ n => simp [Rand.readFull] at h
  | cons r src ih =>
    cases n with
    | zero =>
      rw [Calls.readFull_zero] at h
      cases h
      exact ⟨rfl, 0, Nat.zero_le _, rfl, rfl⟩
    | succ n =>
      rw [Rand.readFull] at h
      try simp only at h
      split at h
      · rename_i hg
        cases h
        refine ⟨hg, 1, by simp, rfl, by simp⟩
      · rename_i hg
        split at h
        · cases h
        · split at h
          · cases h
          · split at h
            · cases h
            · rename_i more rest' hrec
              cases h
              have hlt : r.data.length < n + 1 := by
                rw [List.length_take] at hg
                omega
              have hgot : r.data.take (n + 1) = r.data := List.take_of_length_le (by omega)
              rw [hgot] at hrec ⊢
              obtain ⟨hl, k, hk, hr, hb⟩ := ih _ _ hrec
              refine ⟨by rw [List.length_append, hl]; omega, k + 1, by simp; omega, by simpa using hr, ?_⟩
              simp only [List.take_succ_cons, List.map_cons, List.flatten_cons]
              rw [List.take_append, List.take_of_length_le (by omega : r.data.length ≤ n + 1), ← hb]

/-- **fail closed**: if a read reports an error before `n` bytes have been
    delivered (alone, or together with a short slice), the full read fails -/
theorem readFull_fail_closed (n : Nat) (src : Rand.Source) (k : Nat) (hk : k < src.length)
    (herr : (src[k]'hk).err = true)
    (hshort : ((src.take (k + 1)).map (·.data.length)).sum < n) :
    Rand.readFull n src = none := by
  induction src generalizing n k with
  | nil => simp at hk
  | cons r src ih =>
    cases n with
    | zero => simp at hshort
    | succ n =>
      simp only [List.take_succ_cons, List.map_cons, List.sum_cons] at hshort
      rw [Rand.readFull]
      try simp only
      have hgot : r.data.take (n + 1) = r.data := List.take_of_length_le (by omega)
      rw [hgot]
      rw [if_neg (by omega)]
      cases k with
      | zero =>
        simp only [List.getElem_cons_zero] at herr
        rw [if_pos herr]
      | succ k =>
        simp only [List.getElem_cons_succ] at herr
        rw [ih (n + 1 - r.data.length) k (by simpa using hk) herr (by omega)]
        split
        · rfl
        · split <;> rfl

/-- a source that ends before `n` bytes: the full read fails -/
theorem readFull_short (n : Nat) (src : Rand.Source)
    (hshort : (src.map (·.data.length)).sum < n) : Rand.readFull n src = none := by
  induction src generalizing n with
  | nil =>
    cases n with
    | zero => simp at hshort
    | succ n => rfl
  | cons r src ih =>
    cases n with
    | zero => simp at hshort
    | succ n =>
      simp only [List.map_cons, List.sum_cons] at hshort
      rw [Rand.readFull]
      try simp only
      have hgot : r.data.take (n + 1) = r.data := List.take_of_length_le (by omega)
      rw [hgot]
      rw [if_neg (by omega)]
      rw [ih (n + 1 - r.data.length) (by omega)]
      split
      · rfl
      · split <;> rfl

/-- `Seal`'s secrets are exactly what the source delivered, in the order
    shuffle draws → ephemeral key (if drawn from the source) → payload key;
    the unread rest is a suffix of the source (so consecutive operations consume
    disjoint consecutive segments) -/
theorem sealRand_draws (P : Prims) (bs : Nat) (v : Version) (sender : Option Bytes)
    (rs : List Encrypt.Recipient) (eph : Encrypt.EphSource) (src : Rand.Source) (pt m : Bytes) (rest : Rand.Source)
    (h : Encrypt.sealRand P bs v sender rs eph src pt = .ok (m, rest)) :
    ∃ js src1 ephSec src2 pk,
      Encrypt.shuffleDraws (rs.length - 1) src (src.length + 1) = .ok (js, src1) ∧
      (match eph with
        | .given s => ephSec = s ∧ src2 = src1
        | .fromRand => Rand.readFull 32 src1 = some (ephSec, src2)
        | .fails => False) ∧
      Rand.readFull 32 src2 = some (pk, rest) ∧
      Encrypt.sealWith P bs v sender (Rand.shuffle js rs) ephSec pk pt = .ok m := by
  unfold Encrypt.sealRand at h
  split at h
  · cases h
  split at h
  · cases h
  split at h
  · cases h
  rename_i js src1 hsd
  cases eph with
  | given s =>
    simp only at h
    split at h
    · cases h
    rename_i pk src3 hpk
    split at h
    · cases h
    rename_i m' hm
    cases h
    exact ⟨js, src1, s, src1, pk, hsd, ⟨rfl, rfl⟩, hpk, hm⟩
  | fails =>
    simp only at h
    cases h
  | fromRand =>
    simp only at h
    cases hr : Rand.readFull 32 src1 with
    | none => rw [hr] at h; cases h
    | some p =>
      obtain ⟨ephSec, src2⟩ := p
      rw [hr] at h
      simp only at h
      split at h
      · cases h
      rename_i pk src3 hpk
      split at h
      · cases h
      rename_i m' hm
      cases h
      exact ⟨js, src1, ephSec, src2, pk, hsd, hr, hpk, hm⟩

/-- signing: the header nonce is exactly the 16 bytes of the first full read -/
theorem attachedRand_draws (P : Prims) (bs : Nat) (v : Version) (signer : Bytes) (src : Rand.Source)
    (msg m : Bytes) (rest : Rand.Source)
    (h : Sign.attachedRand P bs v signer src msg = .ok (m, rest)) :
    ∃ n, Rand.readFull Sign.sigNonceLen src = some (n, rest) ∧ Sign.attachedWith P bs v signer n msg = .ok m := by
  unfold Sign.attachedRand at h
  split at h
  · cases h
  split at h
  · cases h
  rename_i n src' hr
  split at h
  · cases h
  rename_i m' hm
  cases h
  exact ⟨n, hr, hm⟩

/-- fail closed, end to end: if the payload-key read fails, `Seal` returns an
    error (nothing is emitted: the model returns no bytes at all) -/
theorem sealRand_fail_closed (P : Prims) (bs : Nat) (v : Version) (sender : Option Bytes)
    (rs : List Encrypt.Recipient) (s : Bytes) (src : Rand.Source) (pt : Bytes)
    (hsingle : rs.length = 1)
    (hfail : Rand.readFull 32 src = none) :
    ∃ e, Encrypt.sealRand P bs v sender rs (.given s) src pt = .error e := by
  unfold Encrypt.sealRand
  split
  · exact ⟨_, rfl⟩
  split
  · exact ⟨_, rfl⟩
  rw [hsingle]
  simp only [Nat.sub_self, Encrypt.shuffleDraws, hfail]
  exact ⟨_, rfl⟩

/-- within one message no two chunks share a nonce (the key is the same) -/
theorem chunk_nonces_distinct (i j : Nat) (hi : i < 2 ^ 64) (hj : j < 2 ^ 64) (h : i ≠ j) :
    Nonce.chunkSecretBox i ≠ Nonce.chunkSecretBox j :=
  fun e => h (chunkSecretBox_inj i j hi hj e)

theorem signcrypt_nonces_distinct (hh : Bytes) (hl : hh.length = 64) (f f' : Bool) (i j : Nat)
    (hi : i < 2 ^ 64) (hj : j < 2 ^ 64) (h : (f, i) ≠ (f', j)) :
    Nonce.chunkSigncryption hh f i ≠ Nonce.chunkSigncryption hh f' j := by
  intro e
  obtain ⟨rfl, rfl⟩ := chunkSigncryption_inj hh hl f f' i j hi hj e
  exact h rfl

/-- the payload key is also used for the sender secretbox: that nonce differs
    from every chunk nonce -/
theorem sender_nonce_not_chunk (i : Nat) : Nonce.senderKeySecretBox ≠ Nonce.chunkSecretBox i := by
  intro e
  have e' := congrArg (List.take 16) e
  unfold Nonce.senderKeySecretBox Nonce.chunkSecretBox at e'
  rw [List.take_append_of_le_length (by decide)] at e'
  revert e'
  decide

/-- per-recipient payload-key-box nonces (V2) are distinct per index -/
theorem payloadKeyBoxV2_inj (i j : Nat) (hi : i < 2 ^ 64) (hj : j < 2 ^ 64)
    (h : Nonce.payloadKeyBoxV2 i = Nonce.payloadKeyBoxV2 j) : i = j := by
  unfold Nonce.payloadKeyBoxV2 at h
  exact be64_inj i j hi hj (List.append_cancel_left h)

/-- MAC-key-box nonces (V2) are distinct per (ephemeral bit, index) -/
theorem macKeyBoxV2_inj (hh : Bytes) (hl : hh.length = 64) (e e' : Bool) (i j : Nat)
    (hi : i < 2 ^ 64) (hj : j < 2 ^ 64)
    (h : Nonce.macKeyBoxV2 hh e i = Nonce.macKeyBoxV2 hh e' j) : e = e' ∧ i = j :=
  chunkSigncryption_inj hh hl e e' i j hi hj h

/-- the encoder refuses to run the chunk counter into the nonce overflow -/
theorem block_overflow_guard (P : Prims) (v : Version) (pk hh : Bytes) (mks : List Bytes) (i : Nat)
    (c : Bytes) (f : Bool) (hi : 2 ^ 64 - 1 ≤ i) :
    Encrypt.blockStruct P v pk hh mks i c f = .error .packetOverflow := by
  unfold Encrypt.blockStruct
  have : blockNumberOK i = false := by
    unfold blockNumberOK
    exact decide_eq_false (by omega)
  rw [this]
  rfl

end Saltpack.Proofs
