/-
  The armor reader stack over scripts that may end in a FAULT, stage 3: the
  filtering reader.  `filMax s` = the alphabet characters the state can still
  hand out at most (those of the longest valid prefix of what the framed layer
  can hand out), and whether a clean EOF can follow them.

  Core Lean only.
-/
import Saltpack.Proofs.FaultsFramed

namespace Saltpack.Proofs
open Saltpack Saltpack.Stream

/-! ## `takeWhile` -/

theorem takeWhile_append_all {α : Type} (p : α → Bool) : ∀ (d t : List α), d.all p = true →
    (d ++ t).takeWhile p = d ++ t.takeWhile p := by
  intro d
  induction d with
  | nil => intro t _; rfl
  | cons x xs ih =>
    intro t h
    simp only [List.all_cons, Bool.and_eq_true] at h
    simp only [List.cons_append, List.takeWhile_cons, h.1, if_true, ih t h.2]

theorem takeWhile_append_bad {α : Type} (p : α → Bool) : ∀ (d t : List α), d.all p = false →
    (d ++ t).takeWhile p = d.takeWhile p := by
  intro d
  induction d with
  | nil => intro t h; simp at h
  | cons x xs ih =>
    intro t h
    simp only [List.all_cons, Bool.and_eq_false_iff] at h
    by_cases hx : p x = true
    · have hxs : xs.all p = false := by
        rcases h with h | h
        · rw [hx] at h; cases h
        · exact h
      simp only [List.cons_append, List.takeWhile_cons, hx, if_true, ih t hxs]
    · simp only [List.cons_append, List.takeWhile_cons, hx]
      rfl

theorem takeWhile_all {α : Type} (p : α → Bool) (l : List α) : (l.takeWhile p).all p = true := by
  induction l with
  | nil => rfl
  | cons x xs ih =>
    by_cases hx : p x = true
    · simp only [List.takeWhile_cons, hx, if_true, List.all_cons, ih, Bool.and_self]
    · simp only [List.takeWhile_cons, hx]
      rfl

theorem takeWhile_eq_of_all {α : Type} (p : α → Bool) (l : List α) (h : l.all p = true) : l.takeWhile p = l := by
  have := takeWhile_append_all p l [] h
  simpa using this

theorem all_append_false_left {α : Type} (p : α → Bool) (d t : List α) (h : d.all p = false) :
    (d ++ t).all p = false := by
  rw [List.all_append, h]; rfl

/-! ## the most a filter state can still hand out -/

/-- filter the most the framed layer can hand out -/
def filOfMax (par : Armor.Params) (m : Bytes × Bool) : Bytes × Bool :=
  (Basex.filterSkip par.enc (m.1.takeWhile (Armor.validByte par)), m.2 && m.1.all (Armor.validByte par))

def filMax (par : Armor.Params) (expect : Armor.Expect) (s : FilState) : Bytes × Bool :=
  filOfMax par (fMax par expect s.f)

theorem filOfMax_pre (par : Armor.Params) (d : Bytes) (hv : d.all (Armor.validByte par) = true) (t : Bytes) (b : Bool) :
    filOfMax par (d ++ t, b) = (Basex.filterSkip par.enc d ++ (filOfMax par (t, b)).1, (filOfMax par (t, b)).2) := by
  simp only [filOfMax, takeWhile_append_all _ d t hv, filterSkip_app, List.all_append, hv, Bool.true_and]

theorem filOfMax_bad (par : Armor.Params) (d : Bytes) (hv : d.all (Armor.validByte par) = false) (t : Bytes) (b : Bool) :
    (filOfMax par (d ++ t, b)).2 = false := by
  simp only [filOfMax, all_append_false_left _ d t hv, Bool.and_false]

theorem filterSkip_prefix (e : Basex.Enc) (a b : Bytes) (h : a <+: b) :
    Basex.filterSkip e a <+: Basex.filterSkip e b := by
  obtain ⟨t, rfl⟩ := h
  rw [filterSkip_app]
  exact List.prefix_append _ _

/-- valid bytes handed out together with an error are within the bound -/
theorem filOfMax_prefix (par : Armor.Params) (d : Bytes) (hv : d.all (Armor.validByte par) = true) (m : Bytes × Bool)
    (h : d <+: m.1) : Basex.filterSkip par.enc d <+: (filOfMax par m).1 := by
  obtain ⟨t, ht⟩ := h
  simp only [filOfMax, ← ht, takeWhile_append_all _ d t hv, filterSkip_app]
  exact List.prefix_append _ _

/-- what one `Read` of the filter may do -/
def FilStepG (par : Armor.Params) (expect : Armor.Expect) (s : FilState) (x : Bytes) (e : Option RErr) (s' : FilState) : Prop :=
  (e = none ∧ x ≠ [] ∧ AllDig par.enc x ∧ FInvG s'.f ∧ s'.f.p.text.2 = s.f.p.text.2 ∧
      fRaw s'.f + x.length ≤ fRaw s.f ∧
      filMax par expect s = (x ++ (filMax par expect s').1, (filMax par expect s').2)) ∨
  (e = some .eof ∧ x = [] ∧ FInvG s'.f ∧ s'.f.phase = .endOfStream ∧ s.f.p.text.2 = .eof ∧ fRaw s'.f ≤ fRaw s.f ∧
      filMax par expect s = ([], true)) ∨
  (∃ z, e = some (.err z) ∧ AllDig par.enc x ∧ x <+: (filMax par expect s).1 ∧ (filMax par expect s).2 = false)

/-- **one `filteringReader.Read`** with any positive buffer size, over a script
    that may end in a fault -/
theorem filRead_stepG (par : Armor.Params) (expect : Armor.Expect) (cap : Nat) (hcap : 0 < cap) :
    ∀ (fuel : Nat) (s : FilState), FInvG s.f → fRaw s.f < fuel →
    ∀ (x : Bytes) (e : Option RErr) (s' : FilState), filRead par expect cap fuel s = (x, e, s') →
    FilStepG par expect s x e s' := by
  intro fuel
  induction fuel with
  | zero => intro s _ h; omega
  | succ fuel ih =>
    intro s hi hfuel x e s' h
    rw [filRead_succ] at h
    rcases hr : fRead par expect cap s.f with ⟨d, e0, f1⟩
    have hstep := fRead_stepG par expect cap hcap s.f hi d e0 f1 hr
    rw [hr] at h
    simp only at h
    by_cases hd : d = []
    · -- nothing delivered: a condition
      subst hd
      simp only [List.isEmpty_nil, if_true, Prod.mk.injEq] at h
      obtain ⟨rfl, rfl, rfl⟩ := h
      rcases hstep with ⟨_, a2, _⟩ | ⟨a1, _, a3, a4, a5, a6, a7⟩ | ⟨z, a1, _, a3⟩
      · exact absurd rfl a2
      · refine Or.inr (Or.inl ⟨a1, rfl, a3, a4, a5, a6, ?_⟩)
        simp [filMax, a7, filOfMax, Basex.filterSkip]
      · refine Or.inr (Or.inr ⟨z, a1, allDig_nil _, List.nil_prefix, ?_⟩)
        simp [filMax, filOfMax, a3]
    · have hde : d.isEmpty = false := by cases d with
        | nil => exact absurd rfl hd
        | cons _ _ => rfl
      simp only [hde, Bool.false_eq_true, if_false] at h
      cases hscan : filterScan par.enc d s.nRead with
      | error k =>
        rw [hscan] at h
        simp only [Prod.mk.injEq] at h
        obtain ⟨rfl, rfl, rfl⟩ := h
        have hbad : d.all (Armor.validByte par) = false := filterScan_error par.enc d _ _ hscan
        refine Or.inr (Or.inr ⟨_, rfl, allDig_nil _, List.nil_prefix, ?_⟩)
        rcases hstep with ⟨_, _, _, _, _, a6⟩ | ⟨_, a2, _⟩ | ⟨z, _, a2, a3⟩
        · simp only [filMax]; rw [a6]; exact filOfMax_bad par d hbad _ _
        · exact absurd a2 hd
        · simp [filMax, filOfMax, a3]
      | ok q =>
        obtain ⟨kept, n'⟩ := q
        rw [hscan] at h
        simp only at h
        obtain ⟨k1, k2, k3⟩ := filterScan_ok par.enc d _ kept n' hscan
        have hv : d.all (Armor.validByte par) = true := k2
        have hklen : kept.length ≤ d.length := by rw [k1]; exact filterSkip_length_le _ _
        by_cases hk : kept = []
        · subst hk
          simp only [List.isEmpty_nil, Bool.not_true, Bool.false_eq_true, if_false] at h
          rcases hstep with ⟨rfl, _, a3, a4, a5, a6⟩ | ⟨_, a2, _⟩ | ⟨z, rfl, a2, a3⟩
          · -- only skip characters so far: read again
            simp only at h
            have hdpos : 0 < d.length := List.length_pos_iff.mpr hd
            have hrec := ih { f := f1, nRead := n' } a3 (by simp only; omega) x e s' h
            have hsem : filMax par expect s = filMax par expect { f := f1, nRead := n' } := by
              simp only [filMax]
              rw [a6, filOfMax_pre par d hv, ← k1]
              rfl
            unfold FilStepG at hrec ⊢
            rw [hsem]
            simp only at hrec
            rcases hrec with ⟨b1, b2, b3, b4, b5, b6, b7⟩ | ⟨b1, b2, b3, b4, b5, b6, b7⟩ | b
            · exact Or.inl ⟨b1, b2, b3, b4, by rw [b5, a4], by omega, b7⟩
            · exact Or.inr (Or.inl ⟨b1, b2, b3, b4, by rw [← a4, b5], by omega, b7⟩)
            · exact Or.inr (Or.inr b)
          · exact absurd a2 hd
          · simp only [Prod.mk.injEq] at h
            obtain ⟨rfl, rfl, rfl⟩ := h
            refine Or.inr (Or.inr ⟨z, rfl, allDig_nil _, List.nil_prefix, ?_⟩)
            simp [filMax, filOfMax, a3]
        · have hke : kept.isEmpty = false := by cases kept with
            | nil => exact absurd rfl hk
            | cons _ _ => rfl
          simp only [hke, Bool.not_false, if_true, Prod.mk.injEq] at h
          obtain ⟨rfl, rfl, rfl⟩ := h
          rcases hstep with ⟨rfl, _, a3, a4, a5, a6⟩ | ⟨_, a2, _⟩ | ⟨z, rfl, a2, a3⟩
          · refine Or.inl ⟨rfl, hk, k3, a3, a4, by simp only; omega, ?_⟩
            simp only [filMax]
            rw [a6, filOfMax_pre par d hv, ← k1]
          · exact absurd a2 hd
          · refine Or.inr (Or.inr ⟨z, rfl, k3, ?_, ?_⟩)
            · rw [k1]; exact filOfMax_prefix par d hv _ a2
            · simp [filMax, filOfMax, a3]

/-- with the loop bound the BaseX decoder passes (`fuelOf … + 4`) -/
theorem filRead_stepG' (par : Armor.Params) (expect : Armor.Expect) (cap : Nat) (hcap : 0 < cap) (s : FilState)
    (hi : FInvG s.f) (x : Bytes) (e : Option RErr) (s' : FilState)
    (h : filRead par expect cap (fuelOf s.f.p + 4) s = (x, e, s')) : FilStepG par expect s x e s' :=
  filRead_stepG par expect cap hcap _ s hi (by have := ptext_length_lt_fuelOf s.f.p; unfold fRaw; omega) x e s' h

end Saltpack.Proofs
