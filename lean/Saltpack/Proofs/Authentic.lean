/-
  Authenticity as a reduction (behind Props/C02, C04, C06): whatever packets a
  receiver is given, what it releases is a prefix of one plaintext an honest
  sender put into one message with this very header hash — complete iff the run
  ends cleanly — OR a concrete primitive-level break is exhibited BY THAT VERY
  RUN.

  The break predicates (`AuthEnc.BreakIn`, `AuthSc.BreakIn`, `AuthSig.BreakIn`)
  are ANCHORED to the run: they take the receiver state `s` and the packet list
  `items` and say

    * forgery: the run over `items` reached its `i`-th packet `b` (every earlier
      item was a packet accepted at its position and not final — `Reaches`),
      ACCEPTED it as packet number `i + 1`, the MAC / signature the receiver
      checked on it is spelled out, and no honest sender ever authenticated
      that very input (under that key);
    * collision: the hash input the receiver computed for such a reached and
      accepted packet `b` of the run, and the hash input of a chunk of an honest
      message in `H`, are two DIFFERENT explicit strings with the same hash.

  Nothing about the strength of the primitives is assumed; `BreakIn` is a
  disjunct, not an axiom, so the statements hold for every `Prims`.  That the
  disjunct is not always true is machine-checked at the end of this file: for a
  concrete honest two-packet run of each mode `¬ BreakIn` is proved, and a
  tampered run of each mode is shown to fall under the first disjunct.

  (History: an earlier version of this file used un-anchored existentials
   `MacForgery P s H := ∃ b ph, b.auths[s.position]? = some (payloadAuthenticator P s.macKey ph) ∧ ¬ HonestlyMACed …`,
   `SigForgery P spk H := ∃ inp sig, P.verify spk inp sig = true ∧ ¬ HonestlySigned …`,
   `HashCollision P := ∃ x y, x ≠ y ∧ P.hash x = P.hash y`.
   An audit observed that these are provable outright, so the old third disjunct
   was vacuous:
     -- theorem old_MacForgery_trivial (P s H) (ph) (h : ¬ HonestlyMACed P s.version H s.macKey ph) :
     --     MacForgery P s H :=
     --   ⟨⟨List.replicate (s.position + 1) (payloadAuthenticator P s.macKey ph), [], false⟩, ph, by simp, h⟩
     -- theorem old_SigForgery_trivial (P) (hP : P.Lawful) (seed H) (inp) (h : ¬ HonestlySigned P H inp) :
     --     SigForgery P (P.sigPub seed) H := ⟨inp, P.sign seed inp, hP.verify_sign seed inp, h⟩
     -- theorem old_HashCollision_trivial (P) (hP : P.Lawful) : HashCollision P :=
     --   pigeonhole: 256^64 + 1 distinct inputs, all hashes have length 64 (hP.hash_len)
   The old definitions are deleted; nothing else used them.)
-/
import Saltpack.Proofs.Receiver
import Saltpack.Proofs.ChunkPlan
import Saltpack.Toy

namespace Saltpack.Proofs
open Saltpack

/-- the first `m` chunks of a plan, concatenated -/
def planPrefix (plan : List (Bytes × Bool)) (m : Nat) : Bytes := ((plan.take m).map (·.1)).flatten

/-- a plan the honest senders produce: non-empty, exactly the last entry final -/
def PlanOK (plan : List (Bytes × Bool)) : Prop :=
  ∃ pre c, plan = pre ++ [(c, true)] ∧ ∀ p ∈ pre, p.2 = false

/-! ## anchoring a packet to a run -/
section anchor
variable {β : Type}

/-- **The run over `items` reaches its `i`-th item (0-based), and that item is
    the packet `b`**: every earlier item is a packet that was accepted at its
    position (packet numbers count from 1) and was not final.  By the shape of
    the chunk-reader run this is exactly the condition under which the receiver
    applies its acceptance test to `b` with packet number `i + 1`. -/
def Reaches (acc : β → Nat → Option Bytes) (fin : β → Bool) (items : List (Option β)) (i : Nat) (b : β) : Prop :=
  items[i]? = some (some b) ∧
    ∀ j, j < i → ∃ b' c', items[j]? = some (some b') ∧ acc b' (j + 1) = some c' ∧ fin b' = false

theorem Reaches.lt {acc : β → Nat → Option Bytes} {fin : β → Bool} {items : List (Option β)} {i : Nat} {b : β}
    (h : Reaches acc fin items i b) : i < items.length :=
  (List.getElem?_eq_some_iff.1 h.1).1

theorem Reaches.mem {acc : β → Nat → Option Bytes} {fin : β → Bool} {items : List (Option β)} {i : Nat} {b : β}
    (h : Reaches acc fin items i b) : some b ∈ items :=
  List.mem_of_getElem? h.1

end anchor

/-! ## the crypto-free core: chains against a plan -/
section core
variable {β : Type} {acc : β → Nat → Option Bytes} {fin : β → Bool}

/-- every block of a chain is accepted at its position, and all but the last are
    not final -/
theorem Chain.get {n : Nat} {bs : List β} {out : Bytes} (hc : Chain acc fin n bs out) :
    ∀ (j : Nat) (b : β), bs[j]? = some b → (∃ c, acc b (n + j) = some c) ∧ (j + 1 < bs.length → fin b = false) := by
  induction hc with
  | nil n => intro j b h; simp at h
  | last n b c ha =>
    intro j b' h
    cases j with
    | zero =>
      simp only [List.getElem?_cons_zero, Option.some.injEq] at h
      subst h
      exact ⟨⟨c, ha⟩, fun h => by simp at h⟩
    | succ j => simp at h
  | cons n b c bs r ha hf hne _ ih =>
    intro j b' h
    cases j with
    | zero =>
      simp only [List.getElem?_cons_zero, Option.some.injEq] at h
      subst h
      exact ⟨⟨c, ha⟩, fun _ => hf⟩
    | succ j =>
      simp only [List.getElem?_cons_succ] at h
      obtain ⟨⟨c', hc'⟩, hf'⟩ := ih j b' h
      refine ⟨⟨c', ?_⟩, fun hl => hf' (by simpa using hl)⟩
      rw [show n + (j + 1) = n + 1 + j by omega]
      exact hc'

/-- the blocks of an accepted chain that is a prefix of the items are reached by
    the run over the items -/
theorem reaches_of_chain {items : List (Option β)} {bs : List β} {out : Bytes}
    (hp : bs.map some <+: items) (hc : Chain acc fin 1 bs out) (j : Nat) (b : β) (hb : bs[j]? = some b) :
    Reaches acc fin items j b := by
  have hget : ∀ (k : Nat) (b' : β), bs[k]? = some b' → items[k]? = some (some b') := by
    intro k b' hk
    obtain ⟨t, rfl⟩ := hp
    have hlt : k < (bs.map some).length := by
      rw [List.length_map]; exact (List.getElem?_eq_some_iff.1 hk).1
    rw [List.getElem?_append_left hlt, List.getElem?_map, hk]
    rfl
  refine ⟨hget j b hb, fun k hk => ?_⟩
  have hjl : j < bs.length := (List.getElem?_eq_some_iff.1 hb).1
  have hkl : k < bs.length := by omega
  obtain ⟨⟨c', hc'⟩, hf⟩ := hc.get k bs[k] (List.getElem?_eq_getElem hkl)
  refine ⟨bs[k], c', hget k _ (List.getElem?_eq_getElem hkl), ?_, hf (by omega)⟩
  rw [Nat.add_comm]
  exact hc'

/-- along a chain whose every accepted block — known to satisfy `R` at its
    position — matches the plan entry at its position (or exhibits `Brk`), the
    blocks spell out a segment of the plan -/
theorem Chain.plan_segment (plan : List (Bytes × Bool)) (Brk : Prop) (R : β → Nat → Prop)
    (hm : ∀ b n c, 1 ≤ n → R b n → acc b n = some c → Brk ∨ plan[n - 1]? = some (c, fin b))
    {n : Nat} {bs : List β} {out : Bytes} (hc : Chain acc fin n bs out)
    (hR : ∀ (j : Nat) (b : β), bs[j]? = some b → R b (n + j))
    (h1 : 1 ≤ n) :
    Brk ∨ ∃ mid : List (Bytes × Bool), mid.length = bs.length ∧ mid <+: plan.drop (n - 1) ∧
      out = (mid.map (·.1)).flatten ∧
      (∀ b, bs.getLast? = some b → ∃ p, mid.getLast? = some p ∧ p.2 = fin b) := by
  induction hc with
  | nil n => exact Or.inr ⟨[], rfl, List.nil_prefix, rfl, by simp⟩
  | last n b c ha =>
    rcases hm b n c h1 (hR 0 b rfl) ha with hb | hp
    · exact Or.inl hb
    · refine Or.inr ⟨[(c, fin b)], rfl, ?_, by simp, ?_⟩
      · obtain ⟨hlt, hget⟩ := List.getElem?_eq_some_iff.1 hp
        rw [List.drop_eq_getElem_cons hlt, hget]
        exact ⟨_, rfl⟩
      · intro b' hb'; simp at hb'; subst hb'; exact ⟨_, rfl, rfl⟩
  | cons n b c bs r ha hf hne _ ih =>
    rcases hm b n c h1 (hR 0 b rfl) ha with hb | hp
    · exact Or.inl hb
    · have hR' : ∀ (j : Nat) (b' : β), bs[j]? = some b' → R b' (n + 1 + j) := by
        intro j b' hj
        have := hR (j + 1) b' (by simpa using hj)
        rwa [show n + (j + 1) = n + 1 + j by omega] at this
      rcases ih hR' (by omega) with hb | ⟨mid, hl, hpre, hout, hlast⟩
      · exact Or.inl hb
      · refine Or.inr ⟨(c, fin b) :: mid, by simp [hl], ?_, by simp [hout], ?_⟩
        · obtain ⟨hlt, hget⟩ := List.getElem?_eq_some_iff.1 hp
          rw [List.drop_eq_getElem_cons hlt, hget]
          have : n - 1 + 1 = n + 1 - 1 := by omega
          rw [this]
          obtain ⟨t, ht⟩ := hpre
          exact ⟨t, by simpa using ht⟩
        · intro b' hb'
          rw [List.getLast?_cons_of_ne_nil hne] at hb'
          obtain ⟨p, hp1, hp2⟩ := hlast b' hb'
          have hmne : mid ≠ [] := by intro h0; rw [h0] at hp1; simp at hp1
          exact ⟨p, by rw [List.getLast?_cons_of_ne_nil hmne]; exact hp1, hp2⟩

/-- a prefix of a well-formed plan that ends in a final entry is the whole plan -/
theorem PlanOK.prefix_final {plan mid : List (Bytes × Bool)} (hp : PlanOK plan) (hpre : mid <+: plan)
    {p : Bytes × Bool} (hl : mid.getLast? = some p) (hf : p.2 = true) : mid.length = plan.length := by
  obtain ⟨pre, c, rfl, hnf⟩ := hp
  obtain ⟨t, ht⟩ := hpre
  rcases List.eq_nil_or_concat t with rfl | ⟨t', x, rfl⟩
  · simp at ht; rw [ht]
  · exfalso
    rw [List.concat_eq_append, ← List.append_assoc] at ht
    obtain ⟨e1, _⟩ := List.append_inj' ht rfl
    have hmem : p ∈ pre := by
      rw [← e1]; exact List.mem_append_left _ (List.mem_of_getLast? hl)
    rw [hnf p hmem] at hf; cases hf

theorem planPrefix_of_prefix {plan mid : List (Bytes × Bool)} (hpre : mid <+: plan) :
    planPrefix plan mid.length = (mid.map (·.1)).flatten := by
  unfold planPrefix
  rw [← List.prefix_iff_eq_take.1 hpre]

end core

/-- the common end game of the three reductions.  `M e`: the honest event `e`
    matches the receiver (same header hash, …).  Per-packet matching is only
    asked of packets the run REACHES and accepts (`hm`), so the `Brk` a packet
    may exhibit instead can mention that anchoring. -/
theorem assemble {β E : Type} {acc : β → Nat → Option Bytes} {fin : β → Bool}
    (items : List (Option β)) (H : List E) (M : E → Prop) (planOf : E → List (Bytes × Bool)) (Brk : Prop)
    (hplan : ∀ e ∈ H, M e → PlanOK (planOf e))
    (hone : ∀ e ∈ H, ∀ e' ∈ H, M e → M e' → e = e')
    (hm : ∀ i b c, Reaches acc fin items i b → acc b (i + 1) = some c →
      Brk ∨ ∃ e ∈ H, M e ∧ (planOf e)[i]? = some (c, fin b))
    (bytes : Bytes) (err : Option Err)
    (hpre : ∃ bs, bs.map some <+: items ∧ Chain acc fin 1 bs bytes)
    (hok : err = none → ∃ bs, bs.map some <+: items ∧ Complete acc fin 1 bs bytes) :
    bytes = [] ∧ err ≠ none ∨
    (∃ e ∈ H, M e ∧ ∃ m, m ≤ (planOf e).length ∧ bytes = planPrefix (planOf e) m ∧
        (err = none → m = (planOf e).length)) ∨
    Brk := by
  -- the core: a non-empty chain pins one event and a prefix of its plan
  have core : ∀ bs : List β, bs ≠ [] → bs.map some <+: items → Chain acc fin 1 bs bytes →
      Brk ∨ ∃ e ∈ H, M e ∧ ∃ mid : List (Bytes × Bool), mid <+: planOf e ∧
        bytes = (mid.map (·.1)).flatten ∧
        (∀ b, bs.getLast? = some b → ∃ p, mid.getLast? = some p ∧ p.2 = fin b) := by
    intro bs hne hp hc
    obtain ⟨b0, t, hbs⟩ := List.exists_cons_of_ne_nil hne
    have hb0 : bs[0]? = some b0 := by rw [hbs]; rfl
    obtain ⟨⟨c0, ha0⟩, _⟩ := hc.get 0 b0 hb0
    rcases hm 0 b0 c0 (reaches_of_chain hp hc 0 b0 hb0) ha0 with hb | ⟨e, he, hMe, _⟩
    · exact Or.inl hb
    · have hm' : ∀ b n c, 1 ≤ n → Reaches acc fin items (n - 1) b → acc b n = some c →
          Brk ∨ (planOf e)[n - 1]? = some (c, fin b) := by
        intro b n c h1 hr ha
        rcases hm (n - 1) b c hr (by rw [Nat.sub_add_cancel h1]; exact ha) with hb | ⟨e', he', hMe', hp⟩
        · exact Or.inl hb
        · have : e' = e := hone e' he' e he hMe' hMe
          rw [this] at hp
          exact Or.inr hp
      have hR : ∀ (j : Nat) (b : β), bs[j]? = some b → Reaches acc fin items (1 + j - 1) b := by
        intro j b hb
        rw [Nat.add_sub_cancel_left]
        exact reaches_of_chain hp hc j b hb
      rcases Chain.plan_segment (planOf e) Brk (fun b n => Reaches acc fin items (n - 1) b) hm' hc hR
        (Nat.le_refl 1) with hb | ⟨mid, _, hpre, hout, hlast⟩
      · exact Or.inl hb
      · exact Or.inr ⟨e, he, hMe, mid, by simpa using hpre, hout, hlast⟩
  by_cases herr : err = none
  · obtain ⟨bs, hp, hc, b, hb, hfb⟩ := hok herr
    have hne : bs ≠ [] := by intro h0; rw [h0] at hb; simp at hb
    rcases core bs hne hp hc with hbk | ⟨e, he, hMe, mid, hpre, hout, hlast⟩
    · exact Or.inr (Or.inr hbk)
    · obtain ⟨p, hp1, hp2⟩ := hlast b hb
      refine Or.inr (Or.inl ⟨e, he, hMe, mid.length, hpre.length_le, ?_, fun _ => ?_⟩)
      · rw [planPrefix_of_prefix hpre]; exact hout
      · exact PlanOK.prefix_final (hplan e he hMe) hpre hp1 (by rw [hp2, hfb])
  · obtain ⟨bs, hp, hc⟩ := hpre
    by_cases hne : bs = []
    · subst hne
      exact Or.inl ⟨Chain.out_of_nil hc, herr⟩
    · rcases core bs hne hp hc with hbk | ⟨e, he, hMe, mid, hpre, hout, _⟩
      · exact Or.inr (Or.inr hbk)
      · refine Or.inr (Or.inl ⟨e, he, hMe, mid.length, hpre.length_le, ?_, fun h => absurd h herr⟩)
        rw [planPrefix_of_prefix hpre]; exact hout

/-! ## nonce lengths -/

theorem chunkSecretBox_length (i : Nat) : (Nonce.chunkSecretBox i).length = 24 := by
  unfold Nonce.chunkSecretBox
  rw [List.length_append, be64_length]
  rfl

theorem chunkSigncryption_length (hh : Bytes) (hl : hh.length = 64) (f : Bool) (i : Nat) :
    (Nonce.chunkSigncryption hh f i).length = 24 := by
  unfold Nonce.chunkSigncryption Nonce.hashFlagCounter
  simp [be64_length, hl]

/-! ## encryption (C02) -/
namespace AuthEnc

/-- an honest encrypted message, as far as the receiver's checks can tell: its
    header hash, payload key, the MAC key it used *for this recipient*, and the
    chunk plan of its plaintext -/
structure Event where
  headerHash : Bytes
  payloadKey : Bytes
  macKey : Bytes
  plan : List (Bytes × Bool)

variable (P : Prims)

/-- what the honest sender hashes (and then MACs) for chunk `k` of event `e`
    (in the receiver's version) -/
def honestInput (v : Version) (e : Event) (k : Nat) (c : Bytes) (f : Bool) : Bytes :=
  if v.major = 1 then e.headerHash ++ Nonce.chunkSecretBox k ++ P.sbSeal e.payloadKey (Nonce.chunkSecretBox k) c
  else e.headerHash ++ Nonce.chunkSecretBox k ++ finalByte f ++ P.sbSeal e.payloadKey (Nonce.chunkSecretBox k) c

/-- what the RECEIVER hashes for packet `b` taken as its `i`-th payload packet
    (0-based; packet number `i + 1`): header hash ‖ nonce(i) ‖ [final byte] ‖ ciphertext -/
def recvInput (s : Decrypt.State) (b : EncBlock) (i : Nat) : Bytes :=
  if s.version.major = 1 then s.headerHash ++ Nonce.chunkSecretBox i ++ b.ct
  else s.headerHash ++ Nonce.chunkSecretBox i ++ finalByte (Decrypt.blockFinal s.version b) ++ b.ct

/-- `recvInput` is what `computePayloadHash` hashes (majors 1 and 2) -/
theorem payloadHash_recv (s : Decrypt.State) (hv : s.version.major = 1 ∨ s.version.major = 2)
    (b : EncBlock) (i : Nat) :
    payloadHash P s.version s.headerHash (Nonce.chunkSecretBox i) b.ct (Decrypt.blockFinal s.version b)
      = .ok (P.hash (recvInput s b i)) := by
  unfold payloadHash recvInput
  rcases hv with hv | hv
  · simp only [hv, if_true]
  · have h21 : ¬ ((2 : Int) = 1) := by decide
    simp only [hv, h21, if_false, if_true]

/-- all payload hashes the honest senders authenticated under MAC key `mk` -/
def HonestlyMACed (v : Version) (H : List Event) (mk ph : Bytes) : Prop :=
  ∃ e ∈ H, e.macKey = mk ∧ ∃ k c f, e.plan[k]? = some (c, f) ∧ ph = P.hash (honestInput P v e k c f)

/-- **MAC forgery exhibited by the run over `items`.**  The run reaches its
    `i`-th packet `b` and ACCEPTS it as packet number `i + 1` (releasing `c`);
    in particular `b` carries, at the receiver's position, the authenticator
    under the receiver's MAC key of the hash of `recvInput s b i` — yet no honest
    sender ever authenticated that payload hash under that MAC key. -/
def MacForgeryIn (s : Decrypt.State) (H : List Event) (items : List (Option EncBlock)) : Prop :=
  ∃ (i : Nat) (b : EncBlock) (c : Bytes),
    Reaches (Dec.accept P s) (Decrypt.blockFinal s.version) items i b ∧
    Dec.accept P s b (i + 1) = some c ∧
    b.auths[s.position]? = some (payloadAuthenticator P s.macKey (P.hash (recvInput s b i))) ∧
    ¬ HonestlyMACed P s.version H s.macKey (P.hash (recvInput s b i))

/-- **Hash collision exhibited by the run over `items`.**  The string the
    receiver hashed for a packet `b` the run reached and accepted, and the string
    an honest sender hashed for a chunk of a message MACed under the receiver's
    MAC key, are DIFFERENT strings with the same hash. -/
def CollisionIn (s : Decrypt.State) (H : List Event) (items : List (Option EncBlock)) : Prop :=
  ∃ (i : Nat) (b : EncBlock) (c : Bytes),
    Reaches (Dec.accept P s) (Decrypt.blockFinal s.version) items i b ∧
    Dec.accept P s b (i + 1) = some c ∧
    ∃ e ∈ H, e.macKey = s.macKey ∧ ∃ k c' f', e.plan[k]? = some (c', f') ∧
      recvInput s b i ≠ honestInput P s.version e k c' f' ∧
      P.hash (recvInput s b i) = P.hash (honestInput P s.version e k c' f')

/-- the third disjunct of the reduction: anchored to `s` and `items` -/
def BreakIn (s : Decrypt.State) (H : List Event) (items : List (Option EncBlock)) : Prop :=
  MacForgeryIn P s H items ∨ CollisionIn P s H items

/-- what one reached and accepted packet proves: it is chunk `i` of an honest
    message with this header hash and MAC key, final flag included — or a break
    exhibited by this very packet of this run -/
theorem block_match (hP : P.Lawful) (s : Decrypt.State)
    (hv : s.version.major = 1 ∨ s.version.major = 2) (hhl : s.headerHash.length = 64)
    (H : List Event)
    (hlen : ∀ e ∈ H, e.headerHash.length = 64)
    (hplan : ∀ e ∈ H, e.headerHash = s.headerHash → PlanOK e.plan ∧ e.plan.length < 2 ^ 64 - 1)
    (hv1 : s.version.major = 1 → ∀ e ∈ H, e.headerHash = s.headerHash → ∀ p ∈ e.plan, (p.1 = [] ↔ p.2 = true))
    (hkey : ∀ e ∈ H, e.headerHash = s.headerHash → e.payloadKey = s.payloadKey)
    (items : List (Option EncBlock)) (i : Nat) (b : EncBlock) (c : Bytes)
    (hr : Reaches (Dec.accept P s) (Decrypt.blockFinal s.version) items i b)
    (h : Dec.accept P s b (i + 1) = some c) :
    BreakIn P s H items ∨ ∃ e ∈ H, (e.headerHash = s.headerHash ∧ e.macKey = s.macKey) ∧
      e.plan[i]? = some (c, Decrypt.blockFinal s.version b) := by
  obtain ⟨ph, hph, hauth, hopen, hbn⟩ := Dec.accept_binds P s b (i + 1) c h
  simp only [Nat.add_sub_cancel] at hph hopen hbn
  rw [payloadHash_recv P s hv b i] at hph
  cases hph
  have hnlt : i < 2 ^ 64 := by
    unfold blockNumberOK at hbn
    simp only [decide_eq_true_eq] at hbn
    omega
  by_cases hm : HonestlyMACed P s.version H s.macKey (P.hash (recvInput s b i))
  · obtain ⟨e, he, hmk, k, c', f', hk, hpheq⟩ := hm
    have ehl := hlen e he
    by_cases heq : recvInput s b i = honestInput P s.version e k c' f'
    · -- the two hashed strings coincide: compare them field by field
      -- once the fields agree, the chunk is the honest one
      have hchunk : e.headerHash = s.headerHash → k = i →
          b.ct = P.sbSeal e.payloadKey (Nonce.chunkSecretBox k) c' → c = c' := by
        intro e1 e2 e3
        rw [e3, hkey e he e1, e2, hP.sb_open_seal] at hopen
        exact (Option.some.inj hopen).symm
      have hklt : e.headerHash = s.headerHash → k < 2 ^ 64 := by
        intro e1
        have := (List.getElem?_eq_some_iff.1 hk).1
        have := (hplan e he e1).2
        omega
      rcases hv with hv | hv
      · -- V1
        simp only [recvInput, honestInput, hv, if_true] at heq
        obtain ⟨e1, e2, e3⟩ := macInput_inj_v1 _ _ _ _ _ _ hhl ehl
          (chunkSecretBox_length _) (chunkSecretBox_length _) heq
        have e2' := chunkSecretBox_inj _ _ hnlt (hklt e1.symm) e2
        have hcc := hchunk e1.symm e2'.symm e3
        refine Or.inr ⟨e, he, ⟨e1.symm, hmk⟩, ?_⟩
        have hmem : (c', f') ∈ e.plan := List.mem_of_getElem? hk
        have hiff := hv1 hv e he e1.symm (c', f') hmem
        have hfin : Decrypt.blockFinal s.version b = f' := by
          simp only [Decrypt.blockFinal, hv, if_true]
          rw [e3, hP.sb_len]
          cases f' <;> cases c' <;> simp_all
        rw [e2', hk, hcc, hfin]
      · -- V2
        have h21 : ¬ ((2 : Int) = 1) := by decide
        simp only [recvInput, honestInput, hv, h21, if_false] at heq
        obtain ⟨e1, e2, e3, e4⟩ := macInput_inj_v2 _ _ _ _ _ _ _ _ hhl ehl
          (chunkSecretBox_length _) (chunkSecretBox_length _) heq
        have e2' := chunkSecretBox_inj _ _ hnlt (hklt e1.symm) e2
        have hcc := hchunk e1.symm e2'.symm e4
        exact Or.inr ⟨e, he, ⟨e1.symm, hmk⟩, by rw [e2', hk, hcc, e3]⟩
    · exact Or.inl (Or.inr ⟨i, b, c, hr, h, e, he, hmk, k, c', f', hk, heq, hpheq⟩)
  · exact Or.inl (Or.inl ⟨i, b, c, hr, h, hauth, hm⟩)

/-- **C02, reduction.**  `H` is any history of honest messages (each with the
    MAC key it used for this recipient).

    Hypotheses on the receiver state: a supported major and a 64-byte header
    hash (true of every state `processHeader` returns, with `Prims.Lawful`).

    Hypotheses on the history: header hashes are 64 bytes long (`hlen`); the
    honest messages WITH THIS HEADER HASH have well-formed plans short of the
    packet-number overflow guard (`hplan`) and, for a V1 receiver, V1-shaped
    plans (`hv1`) — nothing is asked of the other messages of the history, which
    may mix versions.

    ASSUMPTIONS (explicit hypotheses, not proved here):
    * `hkey` — an honest message with this header hash was encrypted under the
      payload key the receiver derived.  For the honest header itself this is
      `hkey_of_honest_header` (Proofs/Attribution.lean); that equal header hashes
      mean equal headers is collision resistance of the header hash.
    * `hone` — at most one honest message has this header hash: freshness of the
      sender's randomness (ephemeral key, payload key are in the header) plus
      collision resistance of the header hash. -/
theorem authentic_or_break (hP : P.Lawful) (s : Decrypt.State)
    (hv : s.version.major = 1 ∨ s.version.major = 2) (hhl : s.headerHash.length = 64)
    (H : List Event)
    (hlen : ∀ e ∈ H, e.headerHash.length = 64)
    (hplan : ∀ e ∈ H, e.headerHash = s.headerHash → PlanOK e.plan ∧ e.plan.length < 2 ^ 64 - 1)
    (hv1 : s.version.major = 1 → ∀ e ∈ H, e.headerHash = s.headerHash → ∀ p ∈ e.plan, (p.1 = [] ↔ p.2 = true))
    (hkey : ∀ e ∈ H, e.headerHash = s.headerHash → e.payloadKey = s.payloadKey)
    (hone : ∀ e ∈ H, ∀ e' ∈ H, e.headerHash = s.headerHash → e'.headerHash = s.headerHash → e = e')
    (items : List (Option EncBlock)) (tail : Tail) :
    let r := Decrypt.run P s items tail 1
    r.bytes = [] ∧ r.err ≠ none ∨
    (∃ e ∈ H, (e.headerHash = s.headerHash ∧ e.macKey = s.macKey) ∧
      ∃ m, m ≤ e.plan.length ∧ r.bytes = planPrefix e.plan m ∧ (r.err = none → m = e.plan.length)) ∨
    BreakIn P s H items := by
  intro r
  refine assemble (acc := Dec.accept P s) (fin := Decrypt.blockFinal s.version) items
    H (fun e => e.headerHash = s.headerHash ∧ e.macKey = s.macKey) (·.plan) (BreakIn P s H items)
    (fun e he hM => (hplan e he hM.1).1) (fun e he e' he' hM hM' => hone e he e' he' hM.1 hM'.1)
    ?_ r.bytes r.err ?_ ?_
  · intro i b c hr ha
    exact block_match P hP s hv hhl H hlen hplan hv1 hkey items i b c hr ha
  · exact Dec.run_prefix P s items tail 1
  · intro herr
    obtain ⟨bs, hi, _, hc⟩ := (Dec.run_ok_iff P s items tail 1).1 herr
    exact ⟨bs, by rw [hi]; exact List.prefix_refl _, hc⟩

end AuthEnc

/-! ## attached signatures (C06) -/
namespace AuthSig

structure Event where
  headerHash : Bytes
  plan : List (Bytes × Bool)

variable (P : Prims)

/-- what the honest signer hashes for chunk `k` -/
def honestHashed (v : Version) (e : Event) (k : Nat) (c : Bytes) (f : Bool) : Bytes :=
  if v.major = 1 then e.headerHash ++ be64 k ++ c else e.headerHash ++ be64 k ++ finalByte f ++ c

/-- what the VERIFIER hashes for packet `b` taken as its `i`-th payload packet
    (0-based): header hash ‖ be64 i ‖ [final byte] ‖ chunk -/
def recvHashed (s : Sign.State) (b : SigBlock) (i : Nat) : Bytes :=
  if s.version.major = 1 then s.headerHash ++ be64 i ++ b.chunk
  else s.headerHash ++ be64 i ++ finalByte (Sign.blockFinal s.version b) ++ b.chunk

/-- the signature input the verifier checks `b.sig` on -/
def recvSigInput (s : Sign.State) (b : SigBlock) (i : Nat) : Bytes :=
  Gen.c_sp_signatureAttachedString ++ P.hash (recvHashed s b i)

/-- `recvSigInput` is `attachedSignatureInput` of the packet (majors 1 and 2) -/
theorem attachedInput_recv (s : Sign.State) (hv : s.version.major = 1 ∨ s.version.major = 2)
    (b : SigBlock) (i : Nat) :
    attachedSignatureInput P s.version s.headerHash b.chunk i (Sign.blockFinal s.version b)
      = .ok (recvSigInput P s b i) := by
  unfold attachedSignatureInput recvSigInput recvHashed
  rcases hv with hv | hv
  · simp only [hv, if_true]
  · have h21 : ¬ ((2 : Int) = 1) := by decide
    simp only [hv, h21, if_false, if_true]

/-- every input the honest owner of the key signed in attached mode -/
def HonestlySigned (v : Version) (H : List Event) (inp : Bytes) : Prop :=
  ∃ e ∈ H, ∃ k c f, e.plan[k]? = some (c, f) ∧
    inp = Gen.c_sp_signatureAttachedString ++ P.hash (honestHashed v e k c f)

/-- **Signature forgery exhibited by the run over `items`.**  The run reaches
    its `i`-th packet `b` and ACCEPTS it as packet number `i + 1`; in particular
    `b.sig` verifies, under the looked-up key, on `recvSigInput P s b i` — an
    input the owner of that key never signed. -/
def SigForgeryIn (s : Sign.State) (H : List Event) (items : List (Option SigBlock)) : Prop :=
  ∃ (i : Nat) (b : SigBlock),
    Reaches (Ver.accept P s) (Sign.blockFinal s.version) items i b ∧
    Ver.accept P s b (i + 1) = some b.chunk ∧
    P.verify s.publicKey (recvSigInput P s b i) b.sig = true ∧
    ¬ HonestlySigned P s.version H (recvSigInput P s b i)

/-- **Hash collision exhibited by the run over `items`**: between what the
    verifier hashed for a reached and accepted packet of the run and what the
    honest signer hashed for one of its chunks — two different explicit strings. -/
def CollisionIn (s : Sign.State) (H : List Event) (items : List (Option SigBlock)) : Prop :=
  ∃ (i : Nat) (b : SigBlock),
    Reaches (Ver.accept P s) (Sign.blockFinal s.version) items i b ∧
    Ver.accept P s b (i + 1) = some b.chunk ∧
    ∃ e ∈ H, ∃ k c' f', e.plan[k]? = some (c', f') ∧
      recvHashed s b i ≠ honestHashed s.version e k c' f' ∧
      P.hash (recvHashed s b i) = P.hash (honestHashed s.version e k c' f')

def BreakIn (s : Sign.State) (H : List Event) (items : List (Option SigBlock)) : Prop :=
  SigForgeryIn P s H items ∨ CollisionIn P s H items

/-- what one reached and accepted packet proves: it is chunk `i` of an honest
    message with this header hash, final flag included — or a break exhibited by
    this very packet of this run -/
theorem block_match (s : Sign.State)
    (hv : s.version.major = 1 ∨ s.version.major = 2) (hhl : s.headerHash.length = 64)
    (H : List Event)
    (hlen : ∀ e ∈ H, e.headerHash.length = 64)
    (hplan : ∀ e ∈ H, e.headerHash = s.headerHash → PlanOK e.plan ∧ e.plan.length < 2 ^ 64)
    (hv1 : s.version.major = 1 → ∀ e ∈ H, e.headerHash = s.headerHash → ∀ p ∈ e.plan, (p.1 = [] ↔ p.2 = true))
    (items : List (Option SigBlock)) (hitems : items.length < 2 ^ 64)
    (i : Nat) (b : SigBlock) (c : Bytes)
    (hr : Reaches (Ver.accept P s) (Sign.blockFinal s.version) items i b)
    (h : Ver.accept P s b (i + 1) = some c) :
    BreakIn P s H items ∨ ∃ e ∈ H, e.headerHash = s.headerHash ∧
      e.plan[i]? = some (c, Sign.blockFinal s.version b) := by
  obtain ⟨hc, inp, hinp, hver⟩ := Ver.accept_binds P s b (i + 1) c h
  subst hc
  simp only [Nat.add_sub_cancel] at hinp
  rw [attachedInput_recv P s hv b i] at hinp
  cases hinp
  have hn : i < 2 ^ 64 := by have := hr.lt; omega
  by_cases hs : HonestlySigned P s.version H (recvSigInput P s b i)
  · obtain ⟨e, he, k, c', f', hk, hinpeq⟩ := hs
    have ehl := hlen e he
    have hh : P.hash (recvHashed s b i) = P.hash (honestHashed s.version e k c' f') :=
      List.append_cancel_left hinpeq
    by_cases heq : recvHashed s b i = honestHashed s.version e k c' f'
    · have hklt : e.headerHash = s.headerHash → k < 2 ^ 64 := by
        intro e1
        have := (List.getElem?_eq_some_iff.1 hk).1
        have := (hplan e he e1).2
        omega
      rcases hv with hv | hv
      · -- V1
        simp only [recvHashed, honestHashed, hv, if_true] at heq
        -- header hashes first (they have the same length), then the rest
        have e1 : s.headerHash = e.headerHash := by
          simp only [List.append_assoc] at heq
          exact (List.append_inj heq (by omega)).1
        obtain ⟨_, e2, e3⟩ := attachedInput_inj_v1 _ _ _ _ _ _ hhl ehl hn (hklt e1.symm) heq
        refine Or.inr ⟨e, he, e1.symm, ?_⟩
        have hmem : (c', f') ∈ e.plan := List.mem_of_getElem? hk
        have hiff := hv1 hv e he e1.symm (c', f') hmem
        have hfin : Sign.blockFinal s.version b = f' := by
          simp only [Sign.blockFinal, hv, if_true]
          rw [e3]
          cases f' <;> cases c' <;> simp_all
        rw [e2, hk, e3, hfin]
      · -- V2
        have h21 : ¬ ((2 : Int) = 1) := by decide
        simp only [recvHashed, honestHashed, hv, h21, if_false] at heq
        have e1 : s.headerHash = e.headerHash := by
          simp only [List.append_assoc] at heq
          exact (List.append_inj heq (by omega)).1
        obtain ⟨_, e2, e3, e4⟩ := attachedInput_inj_v2 _ _ _ _ _ _ _ _ hhl ehl hn (hklt e1.symm) heq
        exact Or.inr ⟨e, he, e1.symm, by rw [e2, hk, e3, e4]⟩
    · exact Or.inl (Or.inr ⟨i, b, hr, h, e, he, k, c', f', hk, heq, hh⟩)
  · exact Or.inl (Or.inl ⟨i, b, hr, h, hver, hs⟩)

/-- **C06, reduction.** `H`: all attached messages the owner of `s.publicKey`
    ever signed.  `hplan`, `hv1` are asked only of the messages with THIS header
    hash.  ASSUMPTION `hone`: at most one of them has this header hash
    (freshness of the 16-byte random header nonce + collision resistance of the
    header hash). -/
theorem authentic_or_break (hP : P.Lawful) (s : Sign.State)
    (hv : s.version.major = 1 ∨ s.version.major = 2) (hhl : s.headerHash.length = 64)
    (H : List Event)
    (hlen : ∀ e ∈ H, e.headerHash.length = 64)
    (hplan : ∀ e ∈ H, e.headerHash = s.headerHash → PlanOK e.plan ∧ e.plan.length < 2 ^ 64)
    (hv1 : s.version.major = 1 → ∀ e ∈ H, e.headerHash = s.headerHash → ∀ p ∈ e.plan, (p.1 = [] ↔ p.2 = true))
    (hone : ∀ e ∈ H, ∀ e' ∈ H, e.headerHash = s.headerHash → e'.headerHash = s.headerHash → e = e')
    (items : List (Option SigBlock)) (hitems : items.length < 2 ^ 64) (tail : Tail) :
    let r := Sign.run P s items tail 1
    r.bytes = [] ∧ r.err ≠ none ∨
    (∃ e ∈ H, e.headerHash = s.headerHash ∧ ∃ m, m ≤ e.plan.length ∧ r.bytes = planPrefix e.plan m ∧
        (r.err = none → m = e.plan.length)) ∨
    BreakIn P s H items := by
  have _ := hP
  intro r
  refine assemble (acc := Ver.accept P s) (fin := Sign.blockFinal s.version) items
    H (fun e => e.headerHash = s.headerHash) (·.plan) (BreakIn P s H items)
    (fun e he hM => (hplan e he hM).1) hone ?_ r.bytes r.err ?_ ?_
  · intro i b c hr ha
    exact block_match P s hv hhl H hlen hplan hv1 items hitems i b c hr ha
  · exact Ver.run_prefix P s items tail 1
  · intro herr
    obtain ⟨bs, hi, _, hc⟩ := (Ver.run_ok_iff P s items tail 1).1 herr
    exact ⟨bs, by rw [hi]; exact List.prefix_refl _, hc⟩

end AuthSig

/-! ## signcryption (C04) -/
namespace AuthSc

structure Event where
  headerHash : Bytes
  plan : List (Bytes × Bool)

variable (P : Prims)

/-- every input the honest owner of the signing key signed in signcryption mode -/
def HonestlySigned (H : List Event) (inp : Bytes) : Prop :=
  ∃ e ∈ H, ∃ k c f, e.plan[k]? = some (c, f) ∧
    inp = signcryptionSignatureInput P e.headerHash (Nonce.chunkSigncryption e.headerHash f k) f c

/-- the signature input the receiver checks for packet `b` taken as its `i`-th
    payload packet (0-based), `c` being the chunk it opened -/
def recvSigInput (s : Signcrypt.State) (b : SigncryptBlock) (i : Nat) (c : Bytes) : Bytes :=
  signcryptionSignatureInput P s.headerHash (Nonce.chunkSigncryption s.headerHash b.final i) b.final c

/-- **Signature forgery exhibited by the run over `items`** (named sender
    `spk`).  The run reaches its `i`-th packet `b` and ACCEPTS it as packet
    number `i + 1`, releasing `c`: the packet's ciphertext opens, under the
    receiver's payload key and the nonce of (header hash, final flag, `i`), to
    `sig ‖ c`, and `sig` verifies under `spk` on `recvSigInput P s b i c` — an
    input the owner of `spk` never signed. -/
def SigForgeryIn (s : Signcrypt.State) (spk : Bytes) (H : List Event)
    (items : List (Option SigncryptBlock)) : Prop :=
  ∃ (i : Nat) (b : SigncryptBlock) (c sig : Bytes),
    s.sender = some spk ∧
    Reaches (Sc.accept P s) (·.final) items i b ∧
    Sc.accept P s b (i + 1) = some c ∧
    sig.length = 64 ∧
    P.sbOpen s.payloadKey (Nonce.chunkSigncryption s.headerHash b.final i) b.ct = some (sig ++ c) ∧
    P.verify spk (recvSigInput P s b i c) sig = true ∧
    ¬ HonestlySigned P H (recvSigInput P s b i c)

/-- **Hash collision exhibited by the run over `items`**: the chunk `c` the
    receiver released for a reached and accepted packet (position `i`, final flag
    `b.final`) and the chunk `c'` the honest sender signed at that very position
    with that very flag in the message with this header hash are different
    chunks with the same hash. -/
def CollisionIn (s : Signcrypt.State) (H : List Event) (items : List (Option SigncryptBlock)) : Prop :=
  ∃ (i : Nat) (b : SigncryptBlock) (c : Bytes),
    Reaches (Sc.accept P s) (·.final) items i b ∧
    Sc.accept P s b (i + 1) = some c ∧
    ∃ e ∈ H, e.headerHash = s.headerHash ∧ ∃ c', e.plan[i]? = some (c', b.final) ∧
      c ≠ c' ∧ P.hash c = P.hash c'

def BreakIn (s : Signcrypt.State) (spk : Bytes) (H : List Event)
    (items : List (Option SigncryptBlock)) : Prop :=
  SigForgeryIn P s spk H items ∨ CollisionIn P s H items

/-- what one reached and accepted packet proves: it is chunk `i` of an honest
    message with this header hash, final flag included — or a break exhibited by
    this very packet of this run -/
theorem block_match (hP : P.Lawful) (s : Signcrypt.State) (spk : Bytes) (hs : s.sender = some spk)
    (hhl : s.headerHash.length = 64)
    (H : List Event)
    (hlen : ∀ e ∈ H, e.headerHash.length = 64)
    (hplan : ∀ e ∈ H, e.headerHash = s.headerHash → PlanOK e.plan ∧ e.plan.length < 2 ^ 64)
    (items : List (Option SigncryptBlock)) (i : Nat) (b : SigncryptBlock) (c : Bytes)
    (hr : Reaches (Sc.accept P s) (·.final) items i b)
    (h : Sc.accept P s b (i + 1) = some c) :
    BreakIn P s spk H items ∨ ∃ e ∈ H, e.headerHash = s.headerHash ∧ e.plan[i]? = some (c, b.final) := by
  obtain ⟨sig, hsl, hopen, hver, hbn⟩ := Sc.accept_binds P s spk hs b (i + 1) c h
  simp only [Nat.add_sub_cancel] at hopen hver hbn
  have hnlt : i < 2 ^ 64 := by
    unfold blockNumberOK at hbn
    simp only [decide_eq_true_eq] at hbn
    omega
  by_cases hsg : HonestlySigned P H (recvSigInput P s b i c)
  · obtain ⟨e, he, k, c', f', hk, hinpeq⟩ := hsg
    have ehl := hlen e he
    obtain ⟨e1, e2, e3, e4⟩ := signcryptInput_inj P hP.hash_len _ _ _ _ _ _ _ _ hhl ehl
      (chunkSigncryption_length _ hhl _ _) (chunkSigncryption_length _ ehl _ _) hinpeq
    have hklt : k < 2 ^ 64 := by
      have := (List.getElem?_eq_some_iff.1 hk).1
      have := (hplan e he e1.symm).2
      omega
    rw [← e1] at e2
    obtain ⟨_, e5⟩ := chunkSigncryption_inj _ hhl _ _ _ _ hnlt hklt e2
    by_cases heq : c = c'
    · exact Or.inr ⟨e, he, e1.symm, by rw [e5, hk, heq, e3]⟩
    · exact Or.inl (Or.inr ⟨i, b, c, hr, h, e, he, e1.symm, c', by rw [e5, hk, e3], heq, e4⟩)
  · exact Or.inl (Or.inl ⟨i, b, c, sig, hs, hr, h, hsl, hopen, hver, hsg⟩)

/-- **C04, reduction, named sender** — holds even against an adversary who
    knows the payload key (nothing is assumed about `s.payloadKey`).  `H`: all
    messages the owner of `spk` ever signcrypted.  `hplan` is asked only of the
    messages with THIS header hash.  ASSUMPTION `hone`: at most one of them has
    this header hash (freshness of the sender's ephemeral key / payload key,
    which the header covers, + collision resistance of the header hash). -/
theorem authentic_or_break (hP : P.Lawful) (s : Signcrypt.State) (spk : Bytes) (hs : s.sender = some spk)
    (hhl : s.headerHash.length = 64)
    (H : List Event)
    (hlen : ∀ e ∈ H, e.headerHash.length = 64)
    (hplan : ∀ e ∈ H, e.headerHash = s.headerHash → PlanOK e.plan ∧ e.plan.length < 2 ^ 64)
    (hone : ∀ e ∈ H, ∀ e' ∈ H, e.headerHash = s.headerHash → e'.headerHash = s.headerHash → e = e')
    (items : List (Option SigncryptBlock)) (tail : Tail) :
    let r := Signcrypt.run P s items tail 1
    r.bytes = [] ∧ r.err ≠ none ∨
    (∃ e ∈ H, e.headerHash = s.headerHash ∧ ∃ m, m ≤ e.plan.length ∧ r.bytes = planPrefix e.plan m ∧
        (r.err = none → m = e.plan.length)) ∨
    BreakIn P s spk H items := by
  intro r
  refine assemble (acc := Sc.accept P s) (fin := (·.final)) items
    H (fun e => e.headerHash = s.headerHash) (·.plan) (BreakIn P s spk H items)
    (fun e he hM => (hplan e he hM).1) hone ?_ r.bytes r.err ?_ ?_
  · intro i b c hr ha
    exact block_match P hP s spk hs hhl H hlen hplan items i b c hr ha
  · exact Sc.run_prefix P s items tail 1
  · intro herr
    obtain ⟨bs, hi, _, hc⟩ := (Sc.run_ok_iff P s items tail 1).1 herr
    exact ⟨bs, by rw [hi]; exact List.prefix_refl _, hc⟩

end AuthSc

/-! ## the third disjunct is not always true (machine-checked)

  For each mode: a concrete HONEST two-packet run for which `¬ BreakIn` is
  proved, TAMPERED runs (packets swapped; a byte changed) that fall under the
  first disjunct (nothing released, the run fails), and a TRUNCATED run that
  falls under the second one with `m = 1 < 2` and an error. -/
namespace Demo

/-! A small `Prims` for the demonstrations.  `Toy.prims` will not do: its hash
   keeps only the first 64 bytes of its input (all packets of one message
   collide), its HMAC ignores the message, its secretbox tag ignores the chunk
   counter and its signatures ignore all but the first 32 bytes of the input —
   with `Toy.prims` a reordered message IS accepted and `BreakIn` HOLDS for it,
   as the reduction says it must.  Here every primitive is a position-wise sum
   of the fixed-width blocks of ALL of its input: still no security whatsoever,
   but lawful, kernel-evaluable, and good enough that on the tiny instances
   below the honest strings are told apart. -/

/-- position-wise sum of the `w`-byte blocks of `m` (zero-padded) -/
def mix (w : Nat) : Nat → Bytes → Bytes
  | 0, _ => zeros w
  | fuel + 1, m => (Toy.pad w m).zipWith (· + ·) (mix w fuel (m.drop w))

def sum (w : Nat) (m : Bytes) : Bytes := mix w (m.length / w + 1) m

theorem mix_length (w fuel : Nat) (m : Bytes) : (mix w fuel m).length = w := by
  induction fuel generalizing m with
  | zero => simp [mix, zeros]
  | succ f ih => simp [mix, ih, Toy.pad_length]

theorem sum_length (w : Nat) (m : Bytes) : (sum w m).length = w := mix_length _ _ _

def tag (k n : Bytes) : Bytes := sum 16 (k ++ n)

theorem tag_length (k n : Bytes) : (tag k n).length = 16 := sum_length _ _

def prims : Prims where
  hash m := sum 64 m
  hmac k m := sum 32 (k ++ m) ++ sum 32 (k ++ m)
  sbSeal k n m := tag k n ++ m
  sbOpen k n c := if c.length ≥ 16 ∧ c.take 16 = tag k n then some (c.drop 16) else none
  boxPub := Toy.prims.boxPub
  precompute := Toy.prims.precompute
  sigPub s := Toy.pad 32 s
  sign s m := sum 64 (Toy.pad 32 s ++ m)
  verify p m sg := sg == sum 64 (p ++ m)

theorem lawful : prims.Lawful where
  sb_open_seal k n m := by
    simp only [prims]
    have h := tag_length k n
    rw [if_pos]
    · simp [h]
    · constructor
      · simp; omega
      · rw [List.take_append_of_le_length (by omega), List.take_of_length_le (by omega)]
  sb_len k n m := by simp [prims, tag_length]; omega
  sb_open_len k n c m h := by
    simp only [prims] at h
    split at h
    · rename_i hc
      injection h with h
      subst h
      simp; omega
    · cases h
  dh_comm := Toy.lawful.dh_comm
  verify_sign s m := by simp [prims]
  hash_len _ := sum_length _ _
  hmac_len _ _ := by simp [prims, sum_length]
  pub_len := Toy.lawful.pub_len
  sigPub_len s := Toy.pad_length _ _
  sig_len _ _ := sum_length _ _
  shared_len := Toy.lawful.shared_len

def hh : Bytes := List.replicate 64 7
def pk : Bytes := List.replicate 32 1
def mk : Bytes := List.replicate 32 2
def seed : Bytes := List.replicate 32 3
def plan : List (Bytes × Bool) := [([65], false), ([66], true)]

namespace Enc
open AuthEnc
set_option maxRecDepth 100000

def s : Decrypt.State :=
  { version := v2, payloadKey := pk, headerHash := hh, macKey := mk, position := 0, mki := default }

def e0 : Event := ⟨hh, pk, mk, [([65], false), ([66], true)]⟩

/-- the packet the honest sender makes for chunk `k` -/
def pkt (k : Nat) (c : Bytes) (f : Bool) : EncBlock :=
  ⟨[payloadAuthenticator prims mk (prims.hash (honestInput prims v2 e0 k c f))],
   prims.sbSeal pk (Nonce.chunkSecretBox k) c, f⟩

def b0 : EncBlock := pkt 0 [65] false
def b1 : EncBlock := pkt 1 [66] true

def items : List (Option EncBlock) := [some b0, some b1]

theorem honest_run : Decrypt.run prims s items .eof 1 = ⟨[65, 66], none⟩ := by decide


/-- **Non-triviality (C02).** For this honest run the anchored `BreakIn` is
    FALSE: the third disjunct of the reduction is not always true. -/
theorem honest_not_break : ¬ BreakIn prims s [e0] items := by
  rintro (⟨i, b, c, ⟨hi, -⟩, -, -, hnot⟩ | ⟨i, b, c, ⟨hi, -⟩, -, e, he, -, k, c', f', hk, hne, heq⟩)
  · -- a forgery would need a packet of the run whose payload hash is not honest
    rcases i with _ | _ | i
    · simp only [items, List.getElem?_cons_zero, Option.some.injEq] at hi
      subst hi
      exact hnot ⟨e0, List.mem_singleton.2 rfl, rfl, 0, [65], false, rfl, by decide⟩
    · simp only [items, List.getElem?_cons_succ, List.getElem?_cons_zero, Option.some.injEq] at hi
      subst hi
      exact hnot ⟨e0, List.mem_singleton.2 rfl, rfl, 1, [66], true, rfl, by decide⟩
    · simp [items] at hi
  · -- a collision would need two different hashed strings with equal hashes
    have he0 : e = e0 := List.mem_singleton.1 he
    subst he0
    rcases i with _ | _ | i
    · simp only [items, List.getElem?_cons_zero, Option.some.injEq] at hi
      subst hi
      rcases k with _ | _ | k
      · simp only [e0, List.getElem?_cons_zero, Option.some.injEq, Prod.mk.injEq] at hk
        obtain ⟨rfl, rfl⟩ := hk
        exact hne (by decide)
      · simp only [e0, List.getElem?_cons_succ, List.getElem?_cons_zero, Option.some.injEq, Prod.mk.injEq] at hk
        obtain ⟨rfl, rfl⟩ := hk
        exact absurd heq (by decide)
      · simp [e0] at hk
    · simp only [items, List.getElem?_cons_succ, List.getElem?_cons_zero, Option.some.injEq] at hi
      subst hi
      rcases k with _ | _ | k
      · simp only [e0, List.getElem?_cons_zero, Option.some.injEq, Prod.mk.injEq] at hk
        obtain ⟨rfl, rfl⟩ := hk
        exact absurd heq (by decide)
      · simp only [e0, List.getElem?_cons_succ, List.getElem?_cons_zero, Option.some.injEq, Prod.mk.injEq] at hk
        obtain ⟨rfl, rfl⟩ := hk
        exact hne (by decide)
      · simp [e0] at hk
    · simp [items] at hi

/-- tampered run 1: the two packets swapped — nothing is released, the run fails -/
theorem swapped_run : Decrypt.run prims s [some b1, some b0] .eof 1 = ⟨[], some .badTag⟩ := by decide

/-- tampered run 2: one ciphertext byte of the first packet changed -/
theorem flipped_run :
    Decrypt.run prims s [some { b0 with ct := b0.ct.set 16 66 }, some b1] .eof 1 = ⟨[], some .badTag⟩ := by decide

/-- tampered run 3: the last packet cut off — the first chunk is released (a
    proper prefix of the honest plan), and the run does NOT end cleanly -/
theorem truncated_run : Decrypt.run prims s [some b0] .eof 1 = ⟨[65], some .unexpectedEOF⟩ := by decide

end Enc

namespace Sig
open AuthSig
set_option maxRecDepth 100000

def s : Sign.State := ⟨v2, hh, prims.sigPub seed⟩

def e0 : Event := ⟨hh, plan⟩

/-- the packet the honest signer makes for chunk `k` -/
def pkt (k : Nat) (c : Bytes) (f : Bool) : SigBlock :=
  ⟨prims.sign seed (Gen.c_sp_signatureAttachedString ++ prims.hash (honestHashed v2 e0 k c f)), c, f⟩

def b0 : SigBlock := pkt 0 [65] false
def b1 : SigBlock := pkt 1 [66] true
def items : List (Option SigBlock) := [some b0, some b1]

theorem honest_run : Sign.run prims s items .eof 1 = ⟨[65, 66], none⟩ := by decide

/-- **Non-triviality (C06).** -/
theorem honest_not_break : ¬ BreakIn prims s [e0] items := by
  rintro (⟨i, b, ⟨hi, -⟩, -, -, hnot⟩ | ⟨i, b, ⟨hi, -⟩, -, e, he, k, c', f', hk, hne, heq⟩)
  · rcases i with _ | _ | i
    · simp only [items, List.getElem?_cons_zero, Option.some.injEq] at hi
      subst hi
      exact hnot ⟨e0, List.mem_singleton.2 rfl, 0, [65], false, rfl, by decide⟩
    · simp only [items, List.getElem?_cons_succ, List.getElem?_cons_zero, Option.some.injEq] at hi
      subst hi
      exact hnot ⟨e0, List.mem_singleton.2 rfl, 1, [66], true, rfl, by decide⟩
    · simp [items] at hi
  · have he0 : e = e0 := List.mem_singleton.1 he
    subst he0
    rcases i with _ | _ | i
    · simp only [items, List.getElem?_cons_zero, Option.some.injEq] at hi
      subst hi
      rcases k with _ | _ | k
      · simp only [e0, plan, List.getElem?_cons_zero, Option.some.injEq, Prod.mk.injEq] at hk
        obtain ⟨rfl, rfl⟩ := hk
        exact hne (by decide)
      · simp only [e0, plan, List.getElem?_cons_succ, List.getElem?_cons_zero, Option.some.injEq, Prod.mk.injEq] at hk
        obtain ⟨rfl, rfl⟩ := hk
        exact absurd heq (by decide)
      · simp [e0, plan] at hk
    · simp only [items, List.getElem?_cons_succ, List.getElem?_cons_zero, Option.some.injEq] at hi
      subst hi
      rcases k with _ | _ | k
      · simp only [e0, plan, List.getElem?_cons_zero, Option.some.injEq, Prod.mk.injEq] at hk
        obtain ⟨rfl, rfl⟩ := hk
        exact absurd heq (by decide)
      · simp only [e0, plan, List.getElem?_cons_succ, List.getElem?_cons_zero, Option.some.injEq, Prod.mk.injEq] at hk
        obtain ⟨rfl, rfl⟩ := hk
        exact hne (by decide)
      · simp [e0, plan] at hk
    · simp [items] at hi

theorem swapped_run : Sign.run prims s [some b1, some b0] .eof 1 = ⟨[], some .badSignature⟩ := by decide

theorem altered_run :
    Sign.run prims s [some { b0 with chunk := [67] }, some b1] .eof 1 = ⟨[], some .badSignature⟩ := by decide

theorem truncated_run : Sign.run prims s [some b0] .eof 1 = ⟨[65], some .unexpectedEOF⟩ := by decide

end Sig

namespace Sc
open AuthSc
set_option maxRecDepth 100000

def spk : Bytes := prims.sigPub seed

def s : Signcrypt.State := ⟨pk, hh, some spk⟩

def e0 : Event := ⟨hh, plan⟩

/-- the packet the honest sender makes for chunk `k` -/
def pkt (k : Nat) (c : Bytes) (f : Bool) : SigncryptBlock :=
  ⟨prims.sbSeal pk (Nonce.chunkSigncryption hh f k)
     (prims.sign seed (signcryptionSignatureInput prims hh (Nonce.chunkSigncryption hh f k) f c) ++ c), f⟩

def b0 : SigncryptBlock := pkt 0 [65] false
def b1 : SigncryptBlock := pkt 1 [66] true
def items : List (Option SigncryptBlock) := [some b0, some b1]

theorem honest_run : Signcrypt.run prims s items .eof 1 = ⟨[65, 66], none⟩ := by decide

/-- **Non-triviality (C04).** -/
theorem honest_not_break : ¬ BreakIn prims s spk [e0] items := by
  have a0 : Sc.accept prims s b0 1 = some [65] := by decide
  have a1 : Sc.accept prims s b1 2 = some [66] := by decide
  rintro (⟨i, b, c, sig, -, ⟨hi, -⟩, hacc, -, -, -, hnot⟩ | ⟨i, b, c, ⟨hi, -⟩, hacc, e, he, -, c', hk, hne, -⟩)
  · rcases i with _ | _ | i
    · simp only [items, List.getElem?_cons_zero, Option.some.injEq] at hi
      subst hi
      rw [a0] at hacc
      cases hacc
      exact hnot ⟨e0, List.mem_singleton.2 rfl, 0, [65], false, rfl, by decide⟩
    · simp only [items, List.getElem?_cons_succ, List.getElem?_cons_zero, Option.some.injEq] at hi
      subst hi
      rw [a1] at hacc
      cases hacc
      exact hnot ⟨e0, List.mem_singleton.2 rfl, 1, [66], true, rfl, by decide⟩
    · simp [items] at hi
  · have he0 : e = e0 := List.mem_singleton.1 he
    subst he0
    rcases i with _ | _ | i
    · simp only [items, List.getElem?_cons_zero, Option.some.injEq] at hi
      subst hi
      rw [a0] at hacc
      cases hacc
      simp only [e0, plan, List.getElem?_cons_zero, Option.some.injEq, Prod.mk.injEq] at hk
      exact hne hk.1
    · simp only [items, List.getElem?_cons_succ, List.getElem?_cons_zero, Option.some.injEq] at hi
      subst hi
      rw [a1] at hacc
      cases hacc
      simp only [e0, plan, List.getElem?_cons_succ, List.getElem?_cons_zero, Option.some.injEq, Prod.mk.injEq] at hk
      exact hne hk.1
    · simp [items] at hi

theorem swapped_run : (Signcrypt.run prims s [some b1, some b0] .eof 1).bytes = [] ∧
    (Signcrypt.run prims s [some b1, some b0] .eof 1).err ≠ none := by decide

/-- tampered run 2: one byte of the (signed) chunk inside the ciphertext changed -/
theorem altered_run :
    Signcrypt.run prims s [some { b0 with ct := b0.ct.set 80 67 }, some b1] .eof 1 = ⟨[], some .badSignature⟩ := by
  decide

theorem truncated_run : Signcrypt.run prims s [some b0] .eof 1 = ⟨[65], some .unexpectedEOF⟩ := by decide

end Sc

/-! ### … and not always false: a run for which the break is the only true disjunct

  With `Toy.prims` (whose HMAC ignores the message and whose secretbox tag
  ignores the chunk counter) the swapped message is accepted.  The reduction,
  applied to that run, yields `BreakIn` — the first two disjuncts are refuted
  by evaluation. -/
namespace ToyEnc
open AuthEnc
set_option maxRecDepth 100000

def s : Decrypt.State :=
  { version := v2, payloadKey := pk, headerHash := hh, macKey := mk, position := 0, mki := default }

def e0 : Event := ⟨hh, pk, mk, plan⟩

def pkt (k : Nat) (c : Bytes) (f : Bool) : EncBlock :=
  ⟨[payloadAuthenticator Toy.prims mk (Toy.prims.hash (honestInput Toy.prims v2 e0 k c f))],
   Toy.prims.sbSeal pk (Nonce.chunkSecretBox k) c, f⟩

def b0 : EncBlock := pkt 0 [65] false
def b1 : EncBlock := pkt 1 [66] true

/-- with `Toy.prims` the SWAPPED message is accepted: the second chunk is
    released as if it were the whole message -/
theorem swapped_run : Decrypt.run Toy.prims s [some b1, some b0] .eof 1 = ⟨[66], some .trailingGarbage⟩ := by
  decide

/-- … so, by the reduction, that run exhibits a break of `Toy.prims` -/
theorem swapped_break : BreakIn Toy.prims s [e0] [some b1, some b0] := by
  have h := authentic_or_break Toy.prims Toy.lawful s (Or.inr rfl) (by decide) [e0]
    (by intro e he; rw [List.mem_singleton.1 he]; decide)
    (by intro e he _; rw [List.mem_singleton.1 he]; exact ⟨⟨[([65], false)], [66], rfl, by simp⟩, by decide⟩)
    (by intro h1; exact absurd h1 (by decide))
    (by intro e he _; rw [List.mem_singleton.1 he]; rfl)
    (by intro e he e' he' _ _; rw [List.mem_singleton.1 he, List.mem_singleton.1 he'])
    [some b1, some b0] .eof
  simp only [swapped_run] at h
  rcases h with ⟨h, -⟩ | ⟨e, he, -, m, hm, hb, -⟩ | h
  · cases h
  · rw [List.mem_singleton.1 he] at hm hb
    have : m = 0 ∨ m = 1 ∨ m = 2 := by
      have : e0.plan.length = 2 := rfl
      omega
    rcases this with rfl | rfl | rfl <;> exact absurd hb (by decide)
  · exact h

end ToyEnc

end Demo

end Saltpack.Proofs
