/-
  Authenticity as a reduction (behind Props/C02, C04, C06): whatever packets a
  receiver is given, what it releases is a prefix of one plaintext an honest
  sender put into one message with this very header hash — complete iff the run
  ends cleanly — OR a concrete primitive-level break is exhibited by that very
  run: a MAC / signature that verifies on an input the honest party never
  authenticated under that key, or two different strings with the same hash.
  Nothing about the strength of the primitives is assumed; `Break` is a
  disjunct, not an axiom, so the statements hold for every `Prims`.
-/
import Saltpack.Proofs.Receiver
import Saltpack.Proofs.ChunkPlan

namespace Saltpack.Proofs
open Saltpack

/-- two different strings with the same hash -/
def HashCollision (P : Prims) : Prop := ∃ x y : Bytes, x ≠ y ∧ P.hash x = P.hash y

/-- the first `m` chunks of a plan, concatenated -/
def planPrefix (plan : List (Bytes × Bool)) (m : Nat) : Bytes := ((plan.take m).map (·.1)).flatten

/-- a plan the honest senders produce: non-empty, exactly the last entry final -/
def PlanOK (plan : List (Bytes × Bool)) : Prop :=
  ∃ pre c, plan = pre ++ [(c, true)] ∧ ∀ p ∈ pre, p.2 = false

/-! ## encryption (C02) -/
namespace AuthEnc

/-- an honest encrypted message, as far as the receiver's checks can tell: its
    header hash, payload key, the MAC key it used *for this recipient*, and the
    chunk plan of its plaintext -/
structure Event where
  headerHash : Bytes
  payloadKey : Bytes
  macKey : Bytes
  plan : List (Bytes × Bool)

variable (P : Prims)

/-- what the honest sender MACs for chunk `k` of event `e` (version of the receiver) -/
def honestInput (v : Version) (e : Event) (k : Nat) (c : Bytes) (f : Bool) : Bytes :=
  if v.major = 1 then e.headerHash ++ Nonce.chunkSecretBox k ++ P.sbSeal e.payloadKey (Nonce.chunkSecretBox k) c
  else e.headerHash ++ Nonce.chunkSecretBox k ++ finalByte f ++ P.sbSeal e.payloadKey (Nonce.chunkSecretBox k) c

/-- all payload hashes the honest senders authenticated under MAC key `mk` -/
def HonestlyMACed (v : Version) (H : List Event) (mk ph : Bytes) : Prop :=
  ∃ e ∈ H, e.macKey = mk ∧ ∃ k c f, e.plan[k]? = some (c, f) ∧ ph = P.hash (honestInput P v e k c f)

/-- a valid authenticator, at the receiver's position, on a payload hash no
    honest sender ever authenticated under the receiver's MAC key -/
def MacForgery (s : Decrypt.State) (H : List Event) : Prop :=
  ∃ (b : EncBlock) (ph : Bytes), b.auths[s.position]? = some (payloadAuthenticator P s.macKey ph) ∧
    ¬ HonestlyMACed P s.version H s.macKey ph

def Break (s : Decrypt.State) (H : List Event) : Prop := MacForgery P s H ∨ HashCollision P

/-- **C02, reduction.**  `H` is any history of honest messages.  Hypotheses:
    the receiver state has a supported major and a 64-byte header hash (true of
    every state `processHeader` returns, with `Prims.Lawful`); honest plans are
    well-formed and short of the packet-number overflow guard; and an honest
    message with *this* header hash was encrypted under the payload key the
    receiver derived (`hkey` — the round-trip theorem C01 for the header, absent
    a header-hash collision). -/
theorem authentic_or_break (hP : P.Lawful) (s : Decrypt.State)
    (hv : s.version.major = 1 ∨ s.version.major = 2) (hhl : s.headerHash.length = 64)
    (H : List Event)
    (hplan : ∀ e ∈ H, PlanOK e.plan ∧ e.plan.length < 2 ^ 64 - 1 ∧ e.headerHash.length = 64)
    (hv1 : s.version.major = 1 → ∀ e ∈ H, ∀ p ∈ e.plan, (p.1 = [] ↔ p.2 = true))
    (hkey : ∀ e ∈ H, e.headerHash = s.headerHash → e.payloadKey = s.payloadKey)
    (hone : ∀ e ∈ H, ∀ e' ∈ H, e.headerHash = e'.headerHash → e = e')
    (items : List (Option EncBlock)) (tail : Tail) :
    let r := Decrypt.run P s items tail 1
    r.bytes = [] ∧ r.err ≠ none ∨
    (∃ e ∈ H, e.headerHash = s.headerHash ∧ ∃ m, m ≤ e.plan.length ∧ r.bytes = planPrefix e.plan m ∧
        (r.err = none → m = e.plan.length)) ∨
    Break P s H := by
  sorry

end AuthEnc

/-! ## attached signatures (C06) -/
namespace AuthSig

structure Event where
  headerHash : Bytes
  plan : List (Bytes × Bool)

variable (P : Prims)

/-- what the honest signer hashes for chunk `k` -/
def honestHashed (v : Version) (e : Event) (k : Nat) (c : Bytes) (f : Bool) : Bytes :=
  if v.major = 1 then e.headerHash ++ be64 k ++ c else e.headerHash ++ be64 k ++ finalByte f ++ c

/-- every input the honest owner of the key signed in attached mode -/
def HonestlySigned (v : Version) (H : List Event) (inp : Bytes) : Prop :=
  ∃ e ∈ H, ∃ k c f, e.plan[k]? = some (c, f) ∧
    inp = Gen.c_sp_signatureAttachedString ++ P.hash (honestHashed v e k c f)

/-- a signature that verifies under the looked-up key on an input its owner
    never signed -/
def SigForgery (s : Sign.State) (H : List Event) : Prop :=
  ∃ inp sig : Bytes, P.verify s.publicKey inp sig = true ∧ ¬ HonestlySigned P s.version H inp

def Break (s : Sign.State) (H : List Event) : Prop := SigForgery P s H ∨ HashCollision P

/-- **C06, reduction.** `H`: all attached messages the owner of `s.publicKey`
    ever signed. -/
theorem authentic_or_break (hP : P.Lawful) (s : Sign.State)
    (hv : s.version.major = 1 ∨ s.version.major = 2) (hhl : s.headerHash.length = 64)
    (H : List Event)
    (hplan : ∀ e ∈ H, PlanOK e.plan ∧ e.plan.length < 2 ^ 64 ∧ e.headerHash.length = 64)
    (hv1 : s.version.major = 1 → ∀ e ∈ H, ∀ p ∈ e.plan, (p.1 = [] ↔ p.2 = true))
    (hone : ∀ e ∈ H, ∀ e' ∈ H, e.headerHash = e'.headerHash → e = e')
    (items : List (Option SigBlock)) (hitems : items.length < 2 ^ 64) (tail : Tail) :
    let r := Sign.run P s items tail 1
    r.bytes = [] ∧ r.err ≠ none ∨
    (∃ e ∈ H, e.headerHash = s.headerHash ∧ ∃ m, m ≤ e.plan.length ∧ r.bytes = planPrefix e.plan m ∧
        (r.err = none → m = e.plan.length)) ∨
    Break P s H := by
  sorry

end AuthSig

/-! ## signcryption (C04) -/
namespace AuthSc

structure Event where
  headerHash : Bytes
  plan : List (Bytes × Bool)

variable (P : Prims)

/-- every input the honest owner of the signing key signed in signcryption mode -/
def HonestlySigned (H : List Event) (inp : Bytes) : Prop :=
  ∃ e ∈ H, ∃ k c f, e.plan[k]? = some (c, f) ∧
    inp = signcryptionSignatureInput P e.headerHash (Nonce.chunkSigncryption e.headerHash f k) f c

def SigForgery (spk : Bytes) (H : List Event) : Prop :=
  ∃ inp sig : Bytes, P.verify spk inp sig = true ∧ ¬ HonestlySigned P H inp

def Break (spk : Bytes) (H : List Event) : Prop := SigForgery P spk H ∨ HashCollision P

/-- **C04, reduction, named sender** — holds even against an adversary who
    knows the payload key (nothing is assumed about `s.payloadKey`). -/
theorem authentic_or_break (hP : P.Lawful) (s : Signcrypt.State) (spk : Bytes) (hs : s.sender = some spk)
    (hhl : s.headerHash.length = 64)
    (H : List Event)
    (hplan : ∀ e ∈ H, PlanOK e.plan ∧ e.plan.length < 2 ^ 64 ∧ e.headerHash.length = 64)
    (hone : ∀ e ∈ H, ∀ e' ∈ H, e.headerHash = e'.headerHash → e = e')
    (items : List (Option SigncryptBlock)) (tail : Tail) :
    let r := Signcrypt.run P s items tail 1
    r.bytes = [] ∧ r.err ≠ none ∨
    (∃ e ∈ H, e.headerHash = s.headerHash ∧ ∃ m, m ≤ e.plan.length ∧ r.bytes = planPrefix e.plan m ∧
        (r.err = none → m = e.plan.length)) ∨
    Break P spk H := by
  sorry

end AuthSc

end Saltpack.Proofs
