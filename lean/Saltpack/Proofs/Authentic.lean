/-
  Authenticity as a reduction (behind Props/C02, C04, C06): whatever packets a
  receiver is given, what it releases is a prefix of one plaintext an honest
  sender put into one message with this very header hash — complete iff the run
  ends cleanly — OR a concrete primitive-level break is exhibited by that very
  run: a MAC / signature that verifies on an input the honest party never
  authenticated under that key, or two different strings with the same hash.
  Nothing about the strength of the primitives is assumed; `Break` is a
  disjunct, not an axiom, so the statements hold for every `Prims`.
-/
import Saltpack.Proofs.Receiver
import Saltpack.Proofs.ChunkPlan

namespace Saltpack.Proofs
open Saltpack

/-- two different strings with the same hash -/
def HashCollision (P : Prims) : Prop := ∃ x y : Bytes, x ≠ y ∧ P.hash x = P.hash y

/-- the first `m` chunks of a plan, concatenated -/
def planPrefix (plan : List (Bytes × Bool)) (m : Nat) : Bytes := ((plan.take m).map (·.1)).flatten

/-- a plan the honest senders produce: non-empty, exactly the last entry final -/
def PlanOK (plan : List (Bytes × Bool)) : Prop :=
  ∃ pre c, plan = pre ++ [(c, true)] ∧ ∀ p ∈ pre, p.2 = false

/-! ## the crypto-free core: chains against a plan -/
section core
variable {β : Type} {acc : β → Nat → Option Bytes} {fin : β → Bool}

/-- along a chain whose every accepted block matches the plan entry at its
    position (or exhibits `Brk`), the blocks spell out a segment of the plan -/
theorem Chain.plan_segment (plan : List (Bytes × Bool)) (Brk : Prop) (N : Nat)
    (hm : ∀ b n c, 1 ≤ n → n ≤ N → acc b n = some c → Brk ∨ plan[n - 1]? = some (c, fin b))
    {n : Nat} {bs : List β} {out : Bytes} (hc : Chain acc fin n bs out)
    (h1 : 1 ≤ n) (hN : n + bs.length ≤ N + 1) :
    Brk ∨ ∃ mid : List (Bytes × Bool), mid.length = bs.length ∧ mid <+: plan.drop (n - 1) ∧
      out = (mid.map (·.1)).flatten ∧
      (∀ b, bs.getLast? = some b → ∃ p, mid.getLast? = some p ∧ p.2 = fin b) := by
  induction hc with
  | nil n => exact Or.inr ⟨[], rfl, List.nil_prefix, rfl, by simp⟩
  | last n b c ha =>
    rcases hm b n c h1 (by simp at hN; omega) ha with hb | hp
    · exact Or.inl hb
    · refine Or.inr ⟨[(c, fin b)], rfl, ?_, by simp, ?_⟩
      · obtain ⟨hlt, hget⟩ := List.getElem?_eq_some_iff.1 hp
        rw [List.drop_eq_getElem_cons hlt, hget]
        exact ⟨_, rfl⟩
      · intro b' hb'; simp at hb'; subst hb'; exact ⟨_, rfl, rfl⟩
  | cons n b c bs r ha hf hne _ ih =>
    simp only [List.length_cons] at hN
    rcases hm b n c h1 (by omega) ha with hb | hp
    · exact Or.inl hb
    · rcases ih (by omega) (by omega) with hb | ⟨mid, hl, hpre, hout, hlast⟩
      · exact Or.inl hb
      · refine Or.inr ⟨(c, fin b) :: mid, by simp [hl], ?_, by simp [hout], ?_⟩
        · obtain ⟨hlt, hget⟩ := List.getElem?_eq_some_iff.1 hp
          rw [List.drop_eq_getElem_cons hlt, hget]
          have : n - 1 + 1 = n + 1 - 1 := by omega
          rw [this]
          obtain ⟨t, ht⟩ := hpre
          exact ⟨t, by simpa using ht⟩
        · intro b' hb'
          rw [List.getLast?_cons_of_ne_nil hne] at hb'
          obtain ⟨p, hp1, hp2⟩ := hlast b' hb'
          have hmne : mid ≠ [] := by intro h0; rw [h0] at hp1; simp at hp1
          exact ⟨p, by rw [List.getLast?_cons_of_ne_nil hmne]; exact hp1, hp2⟩

theorem Chain.head_acc {n : Nat} {bs : List β} {out : Bytes} (hc : Chain acc fin n bs out)
    (hne : bs ≠ []) : ∃ b c, acc b n = some c := by
  induction hc with
  | nil n => exact absurd rfl hne
  | last n b c ha => exact ⟨b, c, ha⟩
  | cons n b c _ _ ha => exact ⟨b, c, ha⟩

/-- a prefix of a well-formed plan that ends in a final entry is the whole plan -/
theorem PlanOK.prefix_final {plan mid : List (Bytes × Bool)} (hp : PlanOK plan) (hpre : mid <+: plan)
    {p : Bytes × Bool} (hl : mid.getLast? = some p) (hf : p.2 = true) : mid.length = plan.length := by
  obtain ⟨pre, c, rfl, hnf⟩ := hp
  obtain ⟨t, ht⟩ := hpre
  rcases List.eq_nil_or_concat t with rfl | ⟨t', x, rfl⟩
  · simp at ht; rw [ht]
  · exfalso
    rw [List.concat_eq_append, ← List.append_assoc] at ht
    obtain ⟨e1, _⟩ := List.append_inj' ht rfl
    have hmem : p ∈ pre := by
      rw [← e1]; exact List.mem_append_left _ (List.mem_of_getLast? hl)
    rw [hnf p hmem] at hf; cases hf

theorem planPrefix_of_prefix {plan mid : List (Bytes × Bool)} (hpre : mid <+: plan) :
    planPrefix plan mid.length = (mid.map (·.1)).flatten := by
  unfold planPrefix
  rw [← List.prefix_iff_eq_take.1 hpre]

end core

/-- the common end game of the three reductions: per-block matching against
    the plan of an honest event with the receiver's header hash, events being
    determined by their header hash, gives the prefix / completeness statement -/
theorem assemble {β E : Type} {acc : β → Nat → Option Bytes} {fin : β → Bool}
    (H : List E) (hh : E → Bytes) (planOf : E → List (Bytes × Bool)) (shh : Bytes) (Brk : Prop) (N : Nat)
    (hplan : ∀ e ∈ H, PlanOK (planOf e))
    (hone : ∀ e ∈ H, ∀ e' ∈ H, hh e = hh e' → e = e')
    (hm : ∀ b n c, 1 ≤ n → n ≤ N → acc b n = some c →
      Brk ∨ ∃ e ∈ H, hh e = shh ∧ (planOf e)[n - 1]? = some (c, fin b))
    (bytes : Bytes) (err : Option Err)
    (hpre : ∃ bs, bs.length ≤ N ∧ Chain acc fin 1 bs bytes)
    (hok : err = none → ∃ bs, bs.length ≤ N ∧ Complete acc fin 1 bs bytes) :
    bytes = [] ∧ err ≠ none ∨
    (∃ e ∈ H, hh e = shh ∧ ∃ m, m ≤ (planOf e).length ∧ bytes = planPrefix (planOf e) m ∧
        (err = none → m = (planOf e).length)) ∨
    Brk := by
  -- the core: a non-empty chain pins one event and a prefix of its plan
  have core : ∀ bs : List β, bs ≠ [] → bs.length ≤ N → Chain acc fin 1 bs bytes →
      Brk ∨ ∃ e ∈ H, hh e = shh ∧ ∃ mid : List (Bytes × Bool), mid <+: planOf e ∧
        bytes = (mid.map (·.1)).flatten ∧
        (∀ b, bs.getLast? = some b → ∃ p, mid.getLast? = some p ∧ p.2 = fin b) := by
    intro bs hne hlen hc
    have hfirst : ∃ b c, acc b 1 = some c := Chain.head_acc hc hne
    obtain ⟨b0, c0, ha0⟩ := hfirst
    have hN1 : 1 ≤ N := by
      cases bs with
      | nil => exact absurd rfl hne
      | cons _ _ => simp at hlen; omega
    rcases hm b0 1 c0 (Nat.le_refl 1) hN1 ha0 with hb | ⟨e, he, hhe, _⟩
    · exact Or.inl hb
    · have hm' : ∀ b n c, 1 ≤ n → n ≤ N → acc b n = some c →
          Brk ∨ (planOf e)[n - 1]? = some (c, fin b) := by
        intro b n c h1 hn ha
        rcases hm b n c h1 hn ha with hb | ⟨e', he', hhe', hp⟩
        · exact Or.inl hb
        · have : e' = e := hone e' he' e he (by rw [hhe', hhe])
          rw [this] at hp
          exact Or.inr hp
      rcases Chain.plan_segment (planOf e) Brk N hm' hc (Nat.le_refl 1) (by omega) with hb | ⟨mid, _, hpre, hout, hlast⟩
      · exact Or.inl hb
      · exact Or.inr ⟨e, he, hhe, mid, by simpa using hpre, hout, hlast⟩
  by_cases herr : err = none
  · obtain ⟨bs, hlen, hc, b, hb, hfb⟩ := hok herr
    have hne : bs ≠ [] := by intro h0; rw [h0] at hb; simp at hb
    rcases core bs hne hlen hc with hbk | ⟨e, he, hhe, mid, hpre, hout, hlast⟩
    · exact Or.inr (Or.inr hbk)
    · obtain ⟨p, hp1, hp2⟩ := hlast b hb
      refine Or.inr (Or.inl ⟨e, he, hhe, mid.length, hpre.length_le, ?_, fun _ => ?_⟩)
      · rw [planPrefix_of_prefix hpre]; exact hout
      · exact PlanOK.prefix_final (hplan e he) hpre hp1 (by rw [hp2, hfb])
  · obtain ⟨bs, hlen, hc⟩ := hpre
    by_cases hne : bs = []
    · subst hne
      exact Or.inl ⟨Chain.out_of_nil hc, herr⟩
    · rcases core bs hne hlen hc with hbk | ⟨e, he, hhe, mid, hpre, hout, _⟩
      · exact Or.inr (Or.inr hbk)
      · refine Or.inr (Or.inl ⟨e, he, hhe, mid.length, hpre.length_le, ?_, fun h => absurd h herr⟩)
        rw [planPrefix_of_prefix hpre]; exact hout

theorem prefix_map_some_length {β : Type} {bs : List β} {items : List (Option β)}
    (h : bs.map some <+: items) : bs.length ≤ items.length := by
  have := h.length_le
  simpa using this


/-! ## nonce lengths -/

theorem chunkSecretBox_length (i : Nat) : (Nonce.chunkSecretBox i).length = 24 := by
  unfold Nonce.chunkSecretBox
  rw [List.length_append, be64_length]
  rfl

theorem chunkSigncryption_length (hh : Bytes) (hl : hh.length = 64) (f : Bool) (i : Nat) :
    (Nonce.chunkSigncryption hh f i).length = 24 := by
  unfold Nonce.chunkSigncryption Nonce.hashFlagCounter
  simp [be64_length, hl]

/-! ## encryption (C02) -/
namespace AuthEnc

/-- an honest encrypted message, as far as the receiver's checks can tell: its
    header hash, payload key, the MAC key it used *for this recipient*, and the
    chunk plan of its plaintext -/
structure Event where
  headerHash : Bytes
  payloadKey : Bytes
  macKey : Bytes
  plan : List (Bytes × Bool)

variable (P : Prims)

/-- what the honest sender MACs for chunk `k` of event `e` (version of the receiver) -/
def honestInput (v : Version) (e : Event) (k : Nat) (c : Bytes) (f : Bool) : Bytes :=
  if v.major = 1 then e.headerHash ++ Nonce.chunkSecretBox k ++ P.sbSeal e.payloadKey (Nonce.chunkSecretBox k) c
  else e.headerHash ++ Nonce.chunkSecretBox k ++ finalByte f ++ P.sbSeal e.payloadKey (Nonce.chunkSecretBox k) c

/-- all payload hashes the honest senders authenticated under MAC key `mk` -/
def HonestlyMACed (v : Version) (H : List Event) (mk ph : Bytes) : Prop :=
  ∃ e ∈ H, e.macKey = mk ∧ ∃ k c f, e.plan[k]? = some (c, f) ∧ ph = P.hash (honestInput P v e k c f)

/-- a valid authenticator, at the receiver's position, on a payload hash no
    honest sender ever authenticated under the receiver's MAC key -/
def MacForgery (s : Decrypt.State) (H : List Event) : Prop :=
  ∃ (b : EncBlock) (ph : Bytes), b.auths[s.position]? = some (payloadAuthenticator P s.macKey ph) ∧
    ¬ HonestlyMACed P s.version H s.macKey ph

def Break (s : Decrypt.State) (H : List Event) : Prop := MacForgery P s H ∨ HashCollision P

/-- what one accepted packet proves: it is chunk `n - 1` of an honest message
    with this header hash, final flag included — or a break -/
theorem block_match (hP : P.Lawful) (s : Decrypt.State)
    (hv : s.version.major = 1 ∨ s.version.major = 2) (hhl : s.headerHash.length = 64)
    (H : List Event)
    (hplan : ∀ e ∈ H, PlanOK e.plan ∧ e.plan.length < 2 ^ 64 - 1 ∧ e.headerHash.length = 64)
    (hv1 : s.version.major = 1 → ∀ e ∈ H, ∀ p ∈ e.plan, (p.1 = [] ↔ p.2 = true))
    (hkey : ∀ e ∈ H, e.headerHash = s.headerHash → e.payloadKey = s.payloadKey)
    (b : EncBlock) (n : Nat) (c : Bytes)
    (h : Dec.accept P s b n = some c) :
    Break P s H ∨ ∃ e ∈ H, e.headerHash = s.headerHash ∧
      e.plan[n - 1]? = some (c, Decrypt.blockFinal s.version b) := by
  obtain ⟨ph, hph, hauth, hopen, hbn⟩ := Dec.accept_binds P s b n c h
  have hnlt : n - 1 < 2 ^ 64 := by
    unfold blockNumberOK at hbn
    simp only [decide_eq_true_eq] at hbn
    omega
  by_cases hm : HonestlyMACed P s.version H s.macKey ph
  · obtain ⟨e, he, _, k, c', f', hk, hpheq⟩ := hm
    obtain ⟨_, hel, ehl⟩ := hplan e he
    have hklt : k < 2 ^ 64 := by
      have := (List.getElem?_eq_some_iff.1 hk).1; omega
    -- once the fields agree, the chunk is the honest one
    have hchunk : e.headerHash = s.headerHash → k = n - 1 →
        b.ct = P.sbSeal e.payloadKey (Nonce.chunkSecretBox k) c' → c = c' := by
      intro e1 e2 e3
      rw [e3, hkey e he e1, e2, hP.sb_open_seal] at hopen
      exact (Option.some.inj hopen).symm
    rcases hv with hv | hv
    · -- V1
      unfold payloadHash at hph
      simp only [hv, if_true, Except.ok.injEq] at hph
      simp only [honestInput, hv, if_true] at hpheq
      rw [← hph] at hpheq
      by_cases heq : s.headerHash ++ Nonce.chunkSecretBox (n - 1) ++ b.ct =
          e.headerHash ++ Nonce.chunkSecretBox k ++ P.sbSeal e.payloadKey (Nonce.chunkSecretBox k) c'
      · obtain ⟨e1, e2, e3⟩ := macInput_inj_v1 _ _ _ _ _ _ hhl ehl
          (chunkSecretBox_length _) (chunkSecretBox_length _) heq
        have e2' := chunkSecretBox_inj _ _ hnlt hklt e2
        have hcc := hchunk e1.symm e2'.symm e3
        refine Or.inr ⟨e, he, e1.symm, ?_⟩
        have hmem : (c', f') ∈ e.plan := List.mem_of_getElem? hk
        have hiff := hv1 hv e he (c', f') hmem
        have hfin : Decrypt.blockFinal s.version b = f' := by
          simp only [Decrypt.blockFinal, hv, if_true]
          rw [e3, hP.sb_len]
          cases f' <;> cases c' <;> simp_all
        rw [e2', hk, hcc, hfin]
      · exact Or.inl (Or.inr ⟨_, _, heq, hpheq⟩)
    · -- V2
      unfold payloadHash at hph
      have h21 : ¬ ((2 : Int) = 1) := by decide
      simp only [hv, h21, if_false, if_true, Except.ok.injEq] at hph
      simp only [honestInput, hv, h21, if_false] at hpheq
      rw [← hph] at hpheq
      by_cases heq : s.headerHash ++ Nonce.chunkSecretBox (n - 1) ++
            finalByte (Decrypt.blockFinal s.version b) ++ b.ct =
          e.headerHash ++ Nonce.chunkSecretBox k ++ finalByte f' ++
            P.sbSeal e.payloadKey (Nonce.chunkSecretBox k) c'
      · obtain ⟨e1, e2, e3, e4⟩ := macInput_inj_v2 _ _ _ _ _ _ _ _ hhl ehl
          (chunkSecretBox_length _) (chunkSecretBox_length _) heq
        have e2' := chunkSecretBox_inj _ _ hnlt hklt e2
        have hcc := hchunk e1.symm e2'.symm e4
        exact Or.inr ⟨e, he, e1.symm, by rw [e2', hk, hcc, e3]⟩
      · exact Or.inl (Or.inr ⟨_, _, heq, hpheq⟩)
  · exact Or.inl (Or.inl ⟨b, ph, hauth, hm⟩)

/-- **C02, reduction.**  `H` is any history of honest messages.  Hypotheses:
    the receiver state has a supported major and a 64-byte header hash (true of
    every state `processHeader` returns, with `Prims.Lawful`); honest plans are
    well-formed and short of the packet-number overflow guard; and an honest
    message with *this* header hash was encrypted under the payload key the
    receiver derived (`hkey` — the round-trip theorem C01 for the header, absent
    a header-hash collision). -/
theorem authentic_or_break (hP : P.Lawful) (s : Decrypt.State)
    (hv : s.version.major = 1 ∨ s.version.major = 2) (hhl : s.headerHash.length = 64)
    (H : List Event)
    (hplan : ∀ e ∈ H, PlanOK e.plan ∧ e.plan.length < 2 ^ 64 - 1 ∧ e.headerHash.length = 64)
    (hv1 : s.version.major = 1 → ∀ e ∈ H, ∀ p ∈ e.plan, (p.1 = [] ↔ p.2 = true))
    (hkey : ∀ e ∈ H, e.headerHash = s.headerHash → e.payloadKey = s.payloadKey)
    (hone : ∀ e ∈ H, ∀ e' ∈ H, e.headerHash = e'.headerHash → e = e')
    (items : List (Option EncBlock)) (tail : Tail) :
    let r := Decrypt.run P s items tail 1
    r.bytes = [] ∧ r.err ≠ none ∨
    (∃ e ∈ H, e.headerHash = s.headerHash ∧ ∃ m, m ≤ e.plan.length ∧ r.bytes = planPrefix e.plan m ∧
        (r.err = none → m = e.plan.length)) ∨
    Break P s H := by
  intro r
  refine assemble (acc := Dec.accept P s) (fin := Decrypt.blockFinal s.version)
    H (·.headerHash) (·.plan) s.headerHash (Break P s H) items.length
    (fun e he => (hplan e he).1) hone ?_ r.bytes r.err ?_ ?_
  · intro b n c _ _ ha
    exact block_match P hP s hv hhl H hplan hv1 hkey b n c ha
  · obtain ⟨bs, hp, hc⟩ := Dec.run_prefix P s items tail 1
    exact ⟨bs, prefix_map_some_length hp, hc⟩
  · intro herr
    obtain ⟨bs, hi, _, hc⟩ := (Dec.run_ok_iff P s items tail 1).1 herr
    exact ⟨bs, by rw [hi]; simp, hc⟩


end AuthEnc

/-! ## attached signatures (C06) -/
namespace AuthSig

structure Event where
  headerHash : Bytes
  plan : List (Bytes × Bool)

variable (P : Prims)

/-- what the honest signer hashes for chunk `k` -/
def honestHashed (v : Version) (e : Event) (k : Nat) (c : Bytes) (f : Bool) : Bytes :=
  if v.major = 1 then e.headerHash ++ be64 k ++ c else e.headerHash ++ be64 k ++ finalByte f ++ c

/-- every input the honest owner of the key signed in attached mode -/
def HonestlySigned (v : Version) (H : List Event) (inp : Bytes) : Prop :=
  ∃ e ∈ H, ∃ k c f, e.plan[k]? = some (c, f) ∧
    inp = Gen.c_sp_signatureAttachedString ++ P.hash (honestHashed v e k c f)

/-- a signature that verifies under the looked-up key on an input its owner
    never signed -/
def SigForgery (s : Sign.State) (H : List Event) : Prop :=
  ∃ inp sig : Bytes, P.verify s.publicKey inp sig = true ∧ ¬ HonestlySigned P s.version H inp

def Break (s : Sign.State) (H : List Event) : Prop := SigForgery P s H ∨ HashCollision P

/-- what one accepted packet proves: it is chunk `n - 1` of an honest message
    with this header hash, final flag included — or a break -/
theorem block_match (s : Sign.State)
    (hv : s.version.major = 1 ∨ s.version.major = 2) (hhl : s.headerHash.length = 64)
    (H : List Event)
    (hplan : ∀ e ∈ H, PlanOK e.plan ∧ e.plan.length < 2 ^ 64 ∧ e.headerHash.length = 64)
    (hv1 : s.version.major = 1 → ∀ e ∈ H, ∀ p ∈ e.plan, (p.1 = [] ↔ p.2 = true))
    (b : SigBlock) (n : Nat) (c : Bytes) (hn : n - 1 < 2 ^ 64)
    (h : Ver.accept P s b n = some c) :
    Break P s H ∨ ∃ e ∈ H, e.headerHash = s.headerHash ∧
      e.plan[n - 1]? = some (c, Sign.blockFinal s.version b) := by
  obtain ⟨hc, inp, hinp, hver⟩ := Ver.accept_binds P s b n c h
  subst hc
  by_cases hs : HonestlySigned P s.version H inp
  · obtain ⟨e, he, k, c', f', hk, hinpeq⟩ := hs
    obtain ⟨_, hel, ehl⟩ := hplan e he
    have hklt : k < 2 ^ 64 := by
      have := (List.getElem?_eq_some_iff.1 hk).1; omega
    rcases hv with hv | hv
    · -- V1
      unfold attachedSignatureInput at hinp
      simp only [hv, if_true, Except.ok.injEq] at hinp
      simp only [honestHashed, hv, if_true] at hinpeq
      rw [← hinp] at hinpeq
      have hh := List.append_cancel_left hinpeq
      by_cases heq : s.headerHash ++ be64 (n - 1) ++ b.chunk = e.headerHash ++ be64 k ++ c'
      · obtain ⟨e1, e2, e3⟩ := attachedInput_inj_v1 _ _ _ _ _ _ hhl ehl hn hklt heq
        refine Or.inr ⟨e, he, e1.symm, ?_⟩
        have hmem : (c', f') ∈ e.plan := List.mem_of_getElem? hk
        have hiff := hv1 hv e he (c', f') hmem
        have hfin : Sign.blockFinal s.version b = f' := by
          simp only [Sign.blockFinal, hv, if_true]
          rw [e3]
          cases f' <;> cases c' <;> simp_all
        rw [e2, hk, e3, hfin]
      · exact Or.inl (Or.inr ⟨_, _, heq, hh⟩)
    · -- V2
      unfold attachedSignatureInput at hinp
      have h21 : ¬ ((2 : Int) = 1) := by decide
      simp only [hv, h21, if_false, if_true, Except.ok.injEq] at hinp
      simp only [honestHashed, hv, h21, if_false] at hinpeq
      rw [← hinp] at hinpeq
      have hh := List.append_cancel_left hinpeq
      by_cases heq : s.headerHash ++ be64 (n - 1) ++ finalByte (Sign.blockFinal s.version b) ++ b.chunk
          = e.headerHash ++ be64 k ++ finalByte f' ++ c'
      · obtain ⟨e1, e2, e3, e4⟩ := attachedInput_inj_v2 _ _ _ _ _ _ _ _ hhl ehl hn hklt heq
        exact Or.inr ⟨e, he, e1.symm, by rw [e2, hk, e3, e4]⟩
      · exact Or.inl (Or.inr ⟨_, _, heq, hh⟩)
  · exact Or.inl (Or.inl ⟨inp, b.sig, hver, hs⟩)


/-- **C06, reduction.** `H`: all attached messages the owner of `s.publicKey`
    ever signed. -/
theorem authentic_or_break (hP : P.Lawful) (s : Sign.State)
    (hv : s.version.major = 1 ∨ s.version.major = 2) (hhl : s.headerHash.length = 64)
    (H : List Event)
    (hplan : ∀ e ∈ H, PlanOK e.plan ∧ e.plan.length < 2 ^ 64 ∧ e.headerHash.length = 64)
    (hv1 : s.version.major = 1 → ∀ e ∈ H, ∀ p ∈ e.plan, (p.1 = [] ↔ p.2 = true))
    (hone : ∀ e ∈ H, ∀ e' ∈ H, e.headerHash = e'.headerHash → e = e')
    (items : List (Option SigBlock)) (hitems : items.length < 2 ^ 64) (tail : Tail) :
    let r := Sign.run P s items tail 1
    r.bytes = [] ∧ r.err ≠ none ∨
    (∃ e ∈ H, e.headerHash = s.headerHash ∧ ∃ m, m ≤ e.plan.length ∧ r.bytes = planPrefix e.plan m ∧
        (r.err = none → m = e.plan.length)) ∨
    Break P s H := by
  have _ := hP
  intro r
  refine assemble (acc := Ver.accept P s) (fin := Sign.blockFinal s.version)
    H (·.headerHash) (·.plan) s.headerHash (Break P s H) items.length
    (fun e he => (hplan e he).1) hone ?_ r.bytes r.err ?_ ?_
  · intro b n c _ hn ha
    exact block_match P s hv hhl H hplan hv1 b n c (by omega) ha
  · obtain ⟨bs, hp, hc⟩ := Ver.run_prefix P s items tail 1
    exact ⟨bs, prefix_map_some_length hp, hc⟩
  · intro herr
    obtain ⟨bs, hi, _, hc⟩ := (Ver.run_ok_iff P s items tail 1).1 herr
    exact ⟨bs, by rw [hi]; simp, hc⟩


end AuthSig

/-! ## signcryption (C04) -/
namespace AuthSc

structure Event where
  headerHash : Bytes
  plan : List (Bytes × Bool)

variable (P : Prims)

/-- every input the honest owner of the signing key signed in signcryption mode -/
def HonestlySigned (H : List Event) (inp : Bytes) : Prop :=
  ∃ e ∈ H, ∃ k c f, e.plan[k]? = some (c, f) ∧
    inp = signcryptionSignatureInput P e.headerHash (Nonce.chunkSigncryption e.headerHash f k) f c

def SigForgery (spk : Bytes) (H : List Event) : Prop :=
  ∃ inp sig : Bytes, P.verify spk inp sig = true ∧ ¬ HonestlySigned P H inp

def Break (spk : Bytes) (H : List Event) : Prop := SigForgery P spk H ∨ HashCollision P

/-- what one accepted packet proves: it is chunk `n - 1` of an honest message
    with this header hash, final flag included — or a break -/
theorem block_match (hP : P.Lawful) (s : Signcrypt.State) (spk : Bytes) (hs : s.sender = some spk)
    (hhl : s.headerHash.length = 64)
    (H : List Event)
    (hplan : ∀ e ∈ H, PlanOK e.plan ∧ e.plan.length < 2 ^ 64 ∧ e.headerHash.length = 64)
    (b : SigncryptBlock) (n : Nat) (c : Bytes)
    (h : Sc.accept P s b n = some c) :
    Break P spk H ∨ ∃ e ∈ H, e.headerHash = s.headerHash ∧ e.plan[n - 1]? = some (c, b.final) := by
  obtain ⟨sig, _, _, hver, hbn⟩ := Sc.accept_binds P s spk hs b n c h
  have hnlt : n - 1 < 2 ^ 64 := by
    unfold blockNumberOK at hbn
    simp only [decide_eq_true_eq] at hbn
    omega
  by_cases hsg : HonestlySigned P H (signcryptionSignatureInput P s.headerHash
      (Nonce.chunkSigncryption s.headerHash b.final (n - 1)) b.final c)
  · obtain ⟨e, he, k, c', f', hk, hinpeq⟩ := hsg
    obtain ⟨_, hel, ehl⟩ := hplan e he
    have hklt : k < 2 ^ 64 := by
      have := (List.getElem?_eq_some_iff.1 hk).1; omega
    obtain ⟨e1, e2, e3, e4⟩ := signcryptInput_inj P hP.hash_len _ _ _ _ _ _ _ _ hhl ehl
      (chunkSigncryption_length _ hhl _ _) (chunkSigncryption_length _ ehl _ _) hinpeq
    rw [← e1] at e2
    obtain ⟨_, e5⟩ := chunkSigncryption_inj _ hhl _ _ _ _ hnlt hklt e2
    by_cases heq : c = c'
    · exact Or.inr ⟨e, he, e1.symm, by rw [e5, hk, heq, e3]⟩
    · exact Or.inl (Or.inr ⟨c, c', heq, e4⟩)
  · exact Or.inl (Or.inl ⟨_, sig, hver, hsg⟩)

/-- **C04, reduction, named sender** — holds even against an adversary who
    knows the payload key (nothing is assumed about `s.payloadKey`). -/
theorem authentic_or_break (hP : P.Lawful) (s : Signcrypt.State) (spk : Bytes) (hs : s.sender = some spk)
    (hhl : s.headerHash.length = 64)
    (H : List Event)
    (hplan : ∀ e ∈ H, PlanOK e.plan ∧ e.plan.length < 2 ^ 64 ∧ e.headerHash.length = 64)
    (hone : ∀ e ∈ H, ∀ e' ∈ H, e.headerHash = e'.headerHash → e = e')
    (items : List (Option SigncryptBlock)) (tail : Tail) :
    let r := Signcrypt.run P s items tail 1
    r.bytes = [] ∧ r.err ≠ none ∨
    (∃ e ∈ H, e.headerHash = s.headerHash ∧ ∃ m, m ≤ e.plan.length ∧ r.bytes = planPrefix e.plan m ∧
        (r.err = none → m = e.plan.length)) ∨
    Break P spk H := by
  intro r
  refine assemble (acc := Sc.accept P s) (fin := (·.final))
    H (·.headerHash) (·.plan) s.headerHash (Break P spk H) items.length
    (fun e he => (hplan e he).1) hone ?_ r.bytes r.err ?_ ?_
  · intro b n c _ _ ha
    exact block_match P hP s spk hs hhl H hplan b n c ha
  · obtain ⟨bs, hp, hc⟩ := Sc.run_prefix P s items tail 1
    exact ⟨bs, prefix_map_some_length hp, hc⟩
  · intro herr
    obtain ⟨bs, hi, _, hc⟩ := (Sc.run_ok_iff P s items tail 1).1 herr
    exact ⟨bs, by rw [hi]; simp, hc⟩


end AuthSc

end Saltpack.Proofs
