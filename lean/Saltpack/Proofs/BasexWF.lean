/-
  A Bool-valued checker for `Enc.WF`, so that the generated encodings are
  certified by kernel evaluation (`decide`).
-/
import Saltpack.Model.Basex

namespace Saltpack.Basex

def Enc.wfCheck (e : Enc) : Bool :=
  decide (1 < e.base) && decide (0 < e.blockLen) && decide (0 < e.charBlockLen) &&
  decide (e.alphabet.length = e.base) && decide (e.alphabet.Nodup) &&
  decide (e.encLenTab.length = e.blockLen + 1) &&
  decide (e.decLenTab.length = e.charBlockLen + 1) &&
  decide (e.validTab.length = e.charBlockLen + 1) &&
  (List.range (e.blockLen + 1)).all (fun r =>
      decide (256 ^ r ≤ e.base ^ (e.encLenTab.getD r 0)) &&
      (decide (e.encLenTab.getD r 0 = 0) || decide (e.base ^ (e.encLenTab.getD r 0 - 1) < 256 ^ r))) &&
  (List.range (e.charBlockLen + 1)).all (fun c =>
      decide (256 ^ (e.decLenTab.getD c 0) ≤ e.base ^ c) &&
      decide (e.base ^ c < 256 ^ (e.decLenTab.getD c 0 + 1))) &&
  decide (e.encLenTab.getD e.blockLen 0 = e.charBlockLen) &&
  decide (e.decLenTab.getD e.charBlockLen 0 = e.blockLen) &&
  (List.range (e.charBlockLen + 1)).all (fun c =>
      e.validTab.getD c false == (c == 0 || c == e.charBlockLen ||
        (e.decLenTab.getD c 0 != e.decLenTab.getD (c - 1) 0)))

theorem Enc.wf_of_check (e : Enc) (h : e.wfCheck = true) : e.WF := by
  simp only [Enc.wfCheck, Bool.and_eq_true, decide_eq_true_eq, List.all_eq_true, List.mem_range,
    Bool.or_eq_true, beq_iff_eq] at h
  obtain ⟨⟨⟨⟨⟨⟨⟨⟨⟨⟨⟨⟨h1, h2⟩, h3⟩, h4⟩, h5⟩, h6⟩, h7⟩, h8⟩, h9⟩, h10⟩, h11⟩, h12⟩, h13⟩ := h
  exact {
    base_gt := h1, block_pos := h2, cblock_pos := h3, alpha_len := h4, alpha_nodup := h5,
    encTab_len := h6, decTab_len := h7, validTab_len := h8,
    enc_least := fun r hr => h9 r (by omega),
    dec_greatest := fun c hc => h10 c (by omega),
    enc_full := h11, dec_full := h12,
    valid_spec := fun c hc => h13 c (by omega) }

end Saltpack.Basex
