/-
  The strict reference decoder against the reference SENDER, encryption V1/V2:

    * `Spec.encodePlan … = (specEncMsg …).render` — the reference sender is the
      reference encoding of explicit wire fields;
    * completeness: the decoder (syntax AND cryptography: every key box, the
      sender secretbox, every recipient's authenticator on every packet, the
      chunk rules) accepts what the reference sender emits and returns the
      payload key, sender, chunks that went in;
    * soundness: whatever the decoder accepts IS the reference sender's output
      for the decoded payload key, sender, recipients and chunks (for
      primitives whose `open` accepts only what `seal` produces — a functional
      fact of NaCl secretbox, stated as the hypothesis `OpenCanonical`).
-/
import Saltpack.Proofs.SpecDecodeMsg

namespace Saltpack.Proofs.SDW
open Saltpack Saltpack.Msgpack Saltpack.SpecDecode Saltpack.Proofs
open Saltpack.Spec hiding encode

/-- the chunk rules (`SpecDecode.chunkRule`: specification + the receivers'
    empty-chunk convention, Go `checkChunkState`) on a plan, packet index `i` onwards:
    at most 1 MiB per chunk; V1: exactly the last chunk is empty; V2: exactly the
    last chunk is flagged final, an empty chunk only as the sole chunk -/
def PlanOK (layout : Nat) : Nat → List (Bytes × Bool) → Prop
  | _, [] => True
  | i, (c, f) :: rest =>
    c.length ≤ 1048576 ∧
    (if layout = 1 then (c = [] ↔ rest = [])
     else (f = true ↔ rest = []) ∧ (c = [] → i = 0 ∧ rest = [])) ∧
    PlanOK layout (i + 1) rest

section
variable (P : Prims)

/-! ### the reference sender as wire fields -/

def specEncRecv (layout : Nat) (eph pk : Bytes) (i : Nat) (r : Encrypt.Recipient) : EncRecv :=
  ⟨if r.hidden then none else some r.pub,
   P.box eph r.pub (if layout = 1 then sNoncePayloadKeyV1 else sNonceRecip i) pk⟩

def specEncPkt (layout : Nat) (pk hh : Bytes) (mks : List Bytes) (i : Nat) (c : Bytes) (f : Bool) : EncPkt :=
  let ct := P.sbSeal pk (sNonceChunk i) c
  let fl := if layout = 1 then false else f
  let h := if layout = 1 then P.hash (hh ++ sNonceChunk i ++ ct) else P.hash (hh ++ sNonceChunk i ++ sFinal f ++ ct)
  ⟨fl, mks.map (fun k => (P.hmac k h).take 32), ct⟩

def specEncHdr (layout : Nat) (sender : Option Bytes) (rs : List Encrypt.Recipient) (eph pk : Bytes) : EncMsg :=
  ⟨layout, P.boxPub eph, P.sbSeal pk sNonceSenderKey (P.boxPub (sender.getD eph)),
   rs.zipIdx.map (fun (r, i) => specEncRecv P layout eph pk i r), []⟩

def specEncMsg (layout : Nat) (sender : Option Bytes) (rs : List Encrypt.Recipient) (eph pk : Bytes)
    (pl : List (Bytes × Bool)) : EncMsg :=
  let m0 := specEncHdr P layout sender rs eph pk
  let hh := P.hash m0.headerBytes
  let mks := rs.zipIdx.map (fun (r, i) => encMacKey P layout (sender.getD eph) eph r.pub hh i)
  { m0 with pkts := pl.zipIdx.map (fun (cf, i) => specEncPkt P layout pk hh mks i cf.1 cf.2) }

theorem specEncMsg_headerBytes (layout : Nat) (sender : Option Bytes) (rs : List Encrypt.Recipient) (eph pk : Bytes)
    (pl : List (Bytes × Bool)) :
    (specEncMsg P layout sender rs eph pk pl).headerBytes = (specEncHdr P layout sender rs eph pk).headerBytes := rfl

theorem specEncRecv_toVal (layout : Nat) (eph pk : Bytes) (i : Nat) (r : Encrypt.Recipient) :
    (specEncRecv P layout eph pk i r).toVal = encRecipientVal P layout {} eph pk i r := by
  unfold specEncRecv EncRecv.toVal encRecipientVal
  cases r.hidden <;> simp

theorem specEncPkt_encode (layout : Nat) (hl : layout = 1 ∨ layout = 2) (pk hh : Bytes) (mks : List Bytes)
    (i : Nat) (c : Bytes) (f : Bool) :
    Msgpack.encode ((specEncPkt P layout pk hh mks i c f).toVal layout) = encPacket P layout {} pk hh mks i c f := by
  unfold specEncPkt EncPkt.toVal encPacket
  rcases hl with rfl | rfl
  · simp [Function.comp_def]
  · simp [Function.comp_def]

theorem flatMap_congr' {α β : Type} (l : List α) (f g : α → List β) (h : ∀ a ∈ l, f a = g a) :
    l.flatMap f = l.flatMap g := by
  induction l with
  | nil => rfl
  | cons a as ih =>
    rw [List.flatMap_cons, List.flatMap_cons, h a (by simp), ih (fun x hx => h x (by simp [hx]))]

/-- the reference sender's bytes are the reference encoding of explicit wire fields -/
theorem spec_encodePlan_render (layout : Nat) (hl : layout = 1 ∨ layout = 2) (sender : Option Bytes)
    (rs : List Encrypt.Recipient) (eph pk : Bytes) (pl : List (Bytes × Bool)) :
    Spec.encodePlan P layout {} sender rs eph pk pl = (specEncMsg P layout sender rs eph pk pl).render := by
  have hf : (specEncHdr P layout sender rs eph pk).fields =
      [.str sFormatName, versionVal layout {}, .int sModeEncryption, .bin (P.boxPub eph),
       .bin (P.sbSeal pk sNonceSenderKey (P.boxPub (sender.getD eph))),
       .arr (rs.zipIdx.map (fun (r, i) => encRecipientVal P layout {} eph pk i r))] := by
    simp only [specEncHdr, EncMsg.fields, commonVals, versionVal, List.map_map, List.cons_append, List.nil_append]
    congr 6
    congr 1
    apply List.map_congr_left
    intro a _
    exact specEncRecv_toVal P layout eph pk a.2 a.1
  unfold EncMsg.render joinMsg
  have hfields : (specEncMsg P layout sender rs eph pk pl).fields = (specEncHdr P layout sender rs eph pk).fields := rfl
  rw [hfields]
  unfold encodePlan
  simp only [List.append_nil, Option.getD_none]
  rw [← hf]
  congr 1
  simp only [EncMsg.packets, specEncMsg, List.flatMap_map]
  apply flatMap_congr'
  intro a _
  obtain ⟨⟨c, f⟩, i⟩ := a
  exact (specEncPkt_encode P layout hl _ _ _ _ _ _).symm

/-! ### completeness of the cryptographic layer on the reference sender's output -/

theorem chunkRule_ok_iff (major : Int) (i : Nat) (last final : Bool) (chunk : Bytes) :
    chunkRule major i last final chunk = .ok () ↔
      chunk.length ≤ 1048576 ∧
      (if major = 1 then (chunk = [] ↔ last = true)
       else final = last ∧ (chunk = [] → i = 0 ∧ last = true)) := by
  unfold chunkRule need
  by_cases h1 : 1048576 < chunk.length
  · simp [h1]; omega
  · simp only [h1, if_false]
    have h1' : chunk.length ≤ 1048576 := by omega
    by_cases hm : major = 1
    · simp only [hm, if_true, h1', true_and]
      cases chunk <;> cases last <;> simp
    · simp only [hm, if_false, h1', true_and]
      by_cases hf : final = last
      · simp only [hf, ne_eq, not_true_eq_false, if_false, true_and]
        cases chunk <;> cases last <;> simp
      · simp [hf]

/-- recipients of the reference sender given by their SECRET keys (the decoder
    is handed these) and visibility flags -/
def rsOf (recips : List (Bytes × Bool)) : List Encrypt.Recipient :=
  recips.map (fun x => ⟨P.boxPub x.1, x.2⟩)

theorem unbox_box (hL : P.Lawful) (a b n m : Bytes) :
    P.unbox a (P.boxPub b) n (P.box b (P.boxPub a) n m) = some m := by
  unfold Prims.unbox Prims.box
  rw [hL.dh_comm a b, hL.sb_open_seal]

theorem encRecvKey_spec (hL : P.Lawful) (layout : Nat) (hl : layout = 1 ∨ layout = 2) (eph pk : Bytes)
    (hpk : pk.length = 32) (i : Nat) (sk : Bytes) (hid : Bool) :
    encRecvKey P layout (P.boxPub eph) i (specEncRecv P layout eph pk i ⟨P.boxPub sk, hid⟩) sk = .ok pk := by
  unfold encRecvKey specEncRecv
  have h1 : ¬ ((if hid = true then none else some (P.boxPub sk)).isSome ∧
      (if hid = true then none else some (P.boxPub sk)) ≠ some (P.boxPub sk)) := by
    cases hid <;> simp
  simp only [h1, if_false]
  have hn : (if (layout : Int) = 1 then sNoncePayloadKeyV1 else sNonceRecip i) =
      (if layout = 1 then sNoncePayloadKeyV1 else sNonceRecip i) := by
    rcases hl with rfl | rfl <;> rfl
  rw [hn, unbox_box P hL]
  simp [hpk]

theorem encRecvKeys_spec (hL : P.Lawful) (layout : Nat) (hl : layout = 1 ∨ layout = 2) (eph pk : Bytes)
    (hpk : pk.length = 32) : ∀ (recips : List (Bytes × Bool)) (k : Nat),
    encRecvKeys P layout (P.boxPub eph) k
      (((rsOf P recips).zipIdx k).map (fun (r, i) => specEncRecv P layout eph pk i r))
      (recips.map (·.1)) = .ok (List.replicate recips.length pk) := by
  intro recips
  induction recips with
  | nil => intro k; simp [rsOf, encRecvKeys]
  | cons x xs ih =>
    intro k
    have := ih (k + 1)
    simp only [rsOf] at this
    simp only [rsOf, List.map_cons, List.zipIdx_cons, encRecvKeys]
    rw [encRecvKey_spec P hL layout hl eph pk hpk k x.1 x.2]
    simp only
    rw [this]
    simp [List.replicate_succ]

theorem macKey_spec (hL : P.Lawful) (layout : Nat) (hl : layout = 1 ∨ layout = 2) (senderSec eph hh sk : Bytes) (i : Nat) :
    macKeyRecipient P layout sk (P.boxPub senderSec) (P.boxPub eph) hh i =
      encMacKey P layout senderSec eph (P.boxPub sk) hh i := by
  unfold macKeyRecipient encMacKey Prims.box
  rw [hL.dh_comm sk senderSec, hL.dh_comm sk eph]
  rcases hl with rfl | rfl <;> simp

theorem macKeys_spec (hL : P.Lawful) (layout : Nat) (hl : layout = 1 ∨ layout = 2) (senderSec eph hh : Bytes) :
    ∀ (recips : List (Bytes × Bool)) (k : Nat),
    ((recips.map (·.1)).zipIdx k).map (fun (sk, i) => macKeyRecipient P layout sk (P.boxPub senderSec) (P.boxPub eph) hh i) =
      ((rsOf P recips).zipIdx k).map (fun (r, i) => encMacKey P layout senderSec eph r.pub hh i) := by
  intro recips
  induction recips with
  | nil => intro k; rfl
  | cons x xs ih =>
    intro k
    have := ih (k + 1)
    simp only [rsOf] at this
    simp only [rsOf, List.map_cons, List.zipIdx_cons]
    rw [this, macKey_spec P hL layout hl]

theorem encPkt_spec (hL : P.Lawful) (layout : Nat) (hl : layout = 1 ∨ layout = 2) (pk hh : Bytes) (mks : List Bytes)
    (i : Nat) (last : Bool) (c : Bytes) (f : Bool)
    (hrule : chunkRule layout i last (if layout = 1 then false else f) c = .ok ()) :
    encPkt P layout pk hh mks i last (specEncPkt P layout pk hh mks i c f) = .ok c := by
  unfold encPkt
  have h1 : (specEncPkt P layout pk hh mks i c f).auths =
      mks.map (fun k => (P.hmac k (encMacInput P layout hh i (specEncPkt P layout pk hh mks i c f))).take 32) := by
    unfold specEncPkt encMacInput
    rcases hl with rfl | rfl <;> simp
  rw [if_neg (by rw [← h1]; simp)]
  have h2 : (specEncPkt P layout pk hh mks i c f).ct = P.sbSeal pk (sNonceChunk i) c := rfl
  have h3 : (specEncPkt P layout pk hh mks i c f).final = (if layout = 1 then false else f) := rfl
  rw [h2, hL.sb_open_seal, h3]
  simp only
  rw [hrule]

theorem encPkts_spec (hL : P.Lawful) (layout : Nat) (hl : layout = 1 ∨ layout = 2) (pk hh : Bytes) (mks : List Bytes) :
    ∀ (pl : List (Bytes × Bool)) (k : Nat), PlanOK layout k pl →
    encPkts P layout pk hh mks k ((pl.zipIdx k).map (fun (cf, i) => specEncPkt P layout pk hh mks i cf.1 cf.2)) =
      .ok (pl.map (·.1)) := by
  intro pl
  induction pl with
  | nil => intro k _; rfl
  | cons x xs ih =>
    intro k hp
    obtain ⟨c, f⟩ := x
    obtain ⟨h1, h2, h3⟩ := hp
    simp only [List.zipIdx_cons, List.map_cons, encPkts]
    have hlast : (List.map (fun (x : (Bytes × Bool) × Nat) => specEncPkt P layout pk hh mks x.2 x.1.1 x.1.2) (xs.zipIdx (k + 1))).isEmpty
        = xs.isEmpty := by
      cases xs <;> simp
    rw [hlast, encPkt_spec P hL layout hl]
    · simp only
      rw [ih (k + 1) h3]
    · rw [chunkRule_ok_iff]
      refine ⟨h1, ?_⟩
      rcases hl with rfl | rfl
      · simp only [if_true] at h2 ⊢
        simp only [show (((1:Nat):Int) = 1) by decide, if_true]
        rw [h2]; cases xs <;> simp
      · simp only [show ¬ ((2:Nat) = 1) by decide, if_false] at h2 ⊢
        simp only [show ¬ (((2:Nat):Int) = 1) by decide, if_false]
        obtain ⟨h2a, h2b⟩ := h2
        constructor
        · cases f <;> cases xs <;> simp_all
        · intro hc
          obtain ⟨hk, hx⟩ := h2b hc
          exact ⟨hk, by rw [hx]; rfl⟩

/-- **completeness of the cryptographic layer, encryption**: for lawful
    primitives the decoder opens every key box of the reference sender's
    message, recomputes every recipient's MAC key and authenticator on every
    packet, and returns the payload key, the sender's public key and the chunks -/
theorem enc_check_complete (hL : P.Lawful) (layout : Nat) (hl : layout = 1 ∨ layout = 2)
    (sender : Option Bytes) (recips : List (Bytes × Bool)) (hne : recips ≠ [])
    (eph pk : Bytes) (hpk : pk.length = 32) (pl : List (Bytes × Bool)) (hpl : PlanOK layout 0 pl) (hpl0 : pl ≠ []) :
    (specEncMsg P layout sender (rsOf P recips) eph pk pl).check P (recips.map (·.1)) =
      .ok ⟨pk, P.boxPub (sender.getD eph), pl.map (·.1)⟩ := by
  unfold EncMsg.check
  have hk := encRecvKeys_spec P hL layout hl eph pk hpk recips 0
  have hr : (specEncMsg P layout sender (rsOf P recips) eph pk pl).recvs =
      ((rsOf P recips).zipIdx 0).map (fun (r, i) => specEncRecv P layout eph pk i r) := rfl
  have hm : (specEncMsg P layout sender (rsOf P recips) eph pk pl).major = layout := rfl
  have he : (specEncMsg P layout sender (rsOf P recips) eph pk pl).eph = P.boxPub eph := rfl
  have hs : (specEncMsg P layout sender (rsOf P recips) eph pk pl).ssb =
      P.sbSeal pk sNonceSenderKey (P.boxPub (sender.getD eph)) := rfl
  rw [hr, hm, he, hk, hs]
  obtain ⟨x, xs, rfl⟩ := List.exists_cons_of_ne_nil hne
  simp only [List.length_cons, List.replicate_succ]
  rw [if_neg (by simp)]
  rw [hL.sb_open_seal]
  simp only
  have hp : (specEncMsg P layout sender (rsOf P (x :: xs)) eph pk pl).pkts ≠ [] := by
    obtain ⟨y, ys, rfl⟩ := List.exists_cons_of_ne_nil hpl0
    simp [specEncMsg]
  rw [if_neg hp]
  unfold macKeys
  rw [macKeys_spec P hL layout hl]
  have := encPkts_spec P hL layout hl pk (P.hash (specEncHdr P layout sender (rsOf P (x :: xs)) eph pk).headerBytes)
    (((rsOf P (x :: xs)).zipIdx 0).map (fun (r, i) => encMacKey P layout (sender.getD eph) eph r.pub
      (P.hash (specEncHdr P layout sender (rsOf P (x :: xs)) eph pk).headerBytes) i)) pl 0 hpl
  rw [specEncMsg_headerBytes]
  simp only [specEncMsg] at this ⊢
  rw [this]

/-! ### soundness of the cryptographic layer: accepted ⇒ it IS the reference sender's output -/

/-- `open` accepts only what `seal` produces: with the key and nonce fixed, the
    plaintext determines the box.  A functional fact of NaCl secretbox (the
    cipher is a bijection on the plaintext, the tag a function of the
    ciphertext) — NOT a security assumption.  `Toy.prims` satisfies it
    (`toy_openCanonical`). -/
def OpenCanonical (P : Prims) : Prop := ∀ k n c m, P.sbOpen k n c = some m → c = P.sbSeal k n m

/-- the recipients as the decoder saw them: its secret keys, hidden iff the key id is nil -/
def recipsOf (secrets : List Bytes) (recvs : List EncRecv) : List (Bytes × Bool) :=
  List.zipWith (fun sk r => (sk, r.kid.isNone)) secrets recvs

/-- the chunk plan as the decoder saw it -/
def planOf (chunks : List Bytes) (pkts : List EncPkt) : List (Bytes × Bool) :=
  List.zipWith (fun c p => (c, p.final)) chunks pkts

theorem encRecvKey_sound (hL : P.Lawful) (hC : OpenCanonical P) (layout : Nat) (hl : layout = 1 ∨ layout = 2)
    (ephSec : Bytes) (i : Nat) (r : EncRecv) (sk k : Bytes)
    (h : encRecvKey P layout (P.boxPub ephSec) i r sk = .ok k) :
    r = specEncRecv P layout ephSec k i ⟨P.boxPub sk, r.kid.isNone⟩ ∧ k.length = 32 := by
  unfold encRecvKey at h
  split at h
  · cases h
  · rename_i hkid
    have hn : (if (layout : Int) = 1 then sNoncePayloadKeyV1 else sNonceRecip i) =
        (if layout = 1 then sNoncePayloadKeyV1 else sNonceRecip i) := by
      rcases hl with rfl | rfl <;> rfl
    rw [hn] at h
    split at h
    · cases h
    · rename_i k' hk'
      split at h
      · rename_i hlen
        injection h with h
        subst h
        refine ⟨?_, hlen⟩
        unfold Prims.unbox at hk'
        have hb := hC _ _ _ _ hk'
        rw [hL.dh_comm sk ephSec] at hb
        obtain ⟨kid, box⟩ := r
        simp only at hb hkid
        subst hb
        unfold specEncRecv Prims.box
        cases kid with
        | none => simp
        | some x =>
          simp only [Option.isSome_some, true_and, ne_eq, Decidable.not_not] at hkid
          simp [hkid]
      · cases h

theorem encRecvKeys_sound (hL : P.Lawful) (hC : OpenCanonical P) (layout : Nat) (hl : layout = 1 ∨ layout = 2)
    (ephSec pk : Bytes) : ∀ (recvs : List EncRecv) (secrets : List Bytes) (k : Nat) (ks : List Bytes),
    encRecvKeys P layout (P.boxPub ephSec) k recvs secrets = .ok ks → (∀ x ∈ ks, x = pk) →
    recvs = ((rsOf P (recipsOf secrets recvs)).zipIdx k).map (fun (r, i) => specEncRecv P layout ephSec pk i r) ∧
      (recipsOf secrets recvs).map (·.1) = secrets ∧ ks.length = recvs.length ∧ (∀ x ∈ ks, x.length = 32) := by
  intro recvs
  induction recvs with
  | nil =>
    intro secrets k ks h _
    cases secrets with
    | nil => simp [encRecvKeys] at h; subst h; simp [recipsOf, rsOf]
    | cons _ _ => simp [encRecvKeys] at h
  | cons r rs ih =>
    intro secrets k ks h hall
    cases secrets with
    | nil => simp [encRecvKeys] at h
    | cons sk sks =>
      rw [encRecvKeys] at h
      split at h
      · cases h
      · rename_i k1 hk1
        split at h
        · cases h
        · rename_i ks1 hks1
          injection h with h
          subst h
          have hk1pk : k1 = pk := hall k1 (by simp)
          subst hk1pk
          obtain ⟨e1, e2⟩ := encRecvKey_sound P hL hC layout hl ephSec k r sk k1 hk1
          obtain ⟨i1, i2, i3, i4⟩ := ih sks (k + 1) ks1 hks1 (fun x hx => hall x (by simp [hx]))
          refine ⟨?_, ?_, ?_, ?_⟩
          · simp only [recipsOf, List.zipWith_cons_cons, rsOf, List.map_cons, List.zipIdx_cons]
            simp only [recipsOf, rsOf] at i1
            rw [← i1, ← e1]
          · simp only [recipsOf, List.zipWith_cons_cons, List.map_cons]
            simp only [recipsOf] at i2
            rw [i2]
          · simp [i3]
          · intro x hx
            rcases List.mem_cons.1 hx with rfl | hx
            · exact e2
            · exact i4 x hx

theorem encPkt_sound (hC : OpenCanonical P) (layout : Nat) (hl : layout = 1 ∨ layout = 2) (pk hh : Bytes)
    (mks : List Bytes) (i : Nat) (last : Bool) (p : EncPkt) (c : Bytes)
    (hfin : layout = 1 → p.final = false)
    (h : encPkt P layout pk hh mks i last p = .ok c) :
    p = specEncPkt P layout pk hh mks i c p.final ∧ chunkRule layout i last p.final c = .ok () := by
  unfold encPkt at h
  split at h
  · cases h
  · rename_i ha
    simp only [ne_eq, Decidable.not_not] at ha
    split at h
    · cases h
    · rename_i chunk hch
      split at h
      · cases h
      · rename_i u hu
        injection h with h
        subst h
        refine ⟨?_, by rw [hu]⟩
        have hct := hC _ _ _ _ hch
        obtain ⟨fl, auths, ct⟩ := p
        simp only at ha hct hfin
        subst hct
        rw [ha]
        unfold specEncPkt encMacInput
        rcases hl with rfl | rfl
        · simp [hfin rfl]
        · simp

theorem encPkts_sound (hC : OpenCanonical P) (layout : Nat) (hl : layout = 1 ∨ layout = 2) (pk hh : Bytes)
    (mks : List Bytes) : ∀ (pkts : List EncPkt) (k : Nat) (chunks : List Bytes),
    (∀ p ∈ pkts, layout = 1 → p.final = false) →
    encPkts P layout pk hh mks k pkts = .ok chunks →
    pkts = ((planOf chunks pkts).zipIdx k).map (fun (cf, i) => specEncPkt P layout pk hh mks i cf.1 cf.2) ∧
      PlanOK layout k (planOf chunks pkts) ∧ (planOf chunks pkts).map (·.1) = chunks ∧
      chunks.length = pkts.length := by
  intro pkts
  induction pkts with
  | nil =>
    intro k chunks _ h
    simp [encPkts] at h
    subst h
    simp [planOf, PlanOK]
  | cons p ps ih =>
    intro k chunks hfin h
    rw [encPkts] at h
    split at h
    · cases h
    · rename_i c hc
      split at h
      · cases h
      · rename_i cs hcs
        injection h with h
        subst h
        obtain ⟨e1, e2⟩ := encPkt_sound P hC layout hl pk hh mks k ps.isEmpty p c (hfin p (by simp)) hc
        obtain ⟨i1, i2, i3, i4⟩ := ih (k + 1) cs (fun q hq => hfin q (by simp [hq])) hcs
        have hemp : (planOf cs ps = []) ↔ ps = [] := by
          cases ps with
          | nil => simp [planOf]
          | cons q qs =>
            cases cs with
            | nil => simp at i4
            | cons _ _ => simp [planOf]
        refine ⟨?_, ?_, ?_, by simp [i4]⟩
        · simp only [planOf, List.zipWith_cons_cons, List.zipIdx_cons, List.map_cons]
          simp only [planOf] at i1
          rw [← i1, ← e1]
        · simp only [planOf, List.zipWith_cons_cons, PlanOK]
          rw [chunkRule_ok_iff] at e2
          obtain ⟨r1, r2⟩ := e2
          refine ⟨r1, ?_, i2⟩
          have hemp' := hemp
          simp only [planOf] at hemp'
          rcases hl with rfl | rfl
          · simp only [show (((1:Nat):Int) = 1) by decide, if_true] at r2 ⊢
            rw [r2, hemp']; cases ps <;> simp
          · simp only [show ¬ (((2:Nat):Int) = 1) by decide, show ¬ ((2:Nat) = 1) by decide, if_false] at r2 ⊢
            obtain ⟨r2a, r2b⟩ := r2
            rw [hemp']
            constructor
            · rw [r2a]; cases ps <;> simp
            · intro hc0
              obtain ⟨a, b⟩ := r2b hc0
              exact ⟨a, List.isEmpty_iff.1 b⟩
        · simp only [planOf, List.zipWith_cons_cons, List.map_cons]
          simp only [planOf] at i3
          rw [i3]

/-- **soundness of the cryptographic layer, encryption**: if the decoder accepts
    wire fields `m` (as `EncMsg.parse` returns them) with the recipients'
    `secrets`, then `m` is — field for field — what the reference sender builds
    from the DECODED payload key, sender, recipients (hidden iff the key id is
    nil) and chunks, and these obey the chunk rules.  `ephSec`, `senderSec`: the
    secrets behind the two public keys the message carries (the decoder never
    sees them; for an anonymous sender `senderSec = ephSec`). -/
theorem enc_check_sound (hL : P.Lawful) (hC : OpenCanonical P) (m : EncMsg) (secrets : List Bytes) (o : EncOpened)
    (layout : Nat) (hl : layout = 1 ∨ layout = 2) (hm : m.major = layout)
    (hfin : ∀ p ∈ m.pkts, m.major = 1 → p.final = false)
    (h : m.check P secrets = .ok o)
    (ephSec senderSec : Bytes) (he : m.eph = P.boxPub ephSec) (hs : o.senderPub = P.boxPub senderSec) :
    m = specEncMsg P layout (some senderSec) (rsOf P (recipsOf secrets m.recvs)) ephSec o.payloadKey
          (planOf o.chunks m.pkts) ∧
      PlanOK layout 0 (planOf o.chunks m.pkts) ∧ planOf o.chunks m.pkts ≠ [] ∧
      (planOf o.chunks m.pkts).map (·.1) = o.chunks ∧
      (recipsOf secrets m.recvs).map (·.1) = secrets ∧ secrets ≠ [] ∧ o.payloadKey.length = 32 := by
  obtain ⟨major, eph, ssb, recvs, pkts⟩ := m
  simp only at hm he hfin
  subst hm he
  unfold EncMsg.check at h
  simp only at h
  split at h
  · cases h
  · cases h
  · rename_i pk rest hks
    split at h
    · cases h
    · rename_i hall
      simp only [Decidable.not_not] at hall
      split at h
      · cases h
      · rename_i senderPub hsp
        split at h
        · cases h
        · rename_i hpk0
          split at h
          · cases h
          · rename_i chunks hch
            injection h with h
            subst h
            simp only at hs ⊢
            subst hs
            obtain ⟨r1, r2, r3, r4⟩ := encRecvKeys_sound P hL hC layout hl ephSec pk recvs secrets 0 (pk :: rest) hks
              (by intro x hx; rcases List.mem_cons.1 hx with rfl | hx; rfl; exact hall x hx)
            have hssb := hC _ _ _ _ hsp
            -- the header part
            have hhdr : (⟨(layout : Int), P.boxPub ephSec, ssb, recvs, pkts⟩ : EncMsg).headerBytes =
                (specEncHdr P layout (some senderSec) (rsOf P (recipsOf secrets recvs)) ephSec pk).headerBytes := by
              unfold EncMsg.headerBytes EncMsg.fields specEncHdr
              simp only [Option.getD_some]
              rw [← r1, ← hssb]
            rw [hhdr] at hch
            unfold macKeys at hch
            rw [← r2, macKeys_spec P hL layout hl] at hch
            rw [r2] at hch
            obtain ⟨p1, p2, p3, p4⟩ := encPkts_sound P hC layout hl pk _ _ pkts 0 chunks
              (fun p hp h1 => hfin p hp (by rw [h1]; rfl)) hch
            refine ⟨?_, p2, ?_, p3, r2, ?_, r4 pk (by simp)⟩
            · unfold specEncMsg
              simp only [specEncHdr, Option.getD_some]
              simp only [specEncHdr, Option.getD_some] at p1
              rw [← p1, ← r1, ← hssb]
            · intro hnil
              rw [hnil] at p1
              simp at p1
              exact hpk0 p1
            · intro hnil
              subst hnil
              cases recvs with
              | nil => simp at r3
              | cons _ _ => simp [encRecvKeys] at hks

end
end Saltpack.Proofs.SDW
