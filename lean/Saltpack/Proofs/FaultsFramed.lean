/-
  The armor reader stack over scripts that may end in a FAULT, stage 2: the
  framed decoder.  `fMax f` = the body bytes the state can still hand out at
  most, and whether a clean EOF can follow them.  One `Read` either hands out
  a non-empty piece of it, or reports the clean EOF (only when `fMax f = ([],
  true)`), or reports an error together with a prefix of it.

  Core Lean only.
-/
import Saltpack.Proofs.FaultsPunct

namespace Saltpack.Proofs
open Saltpack Saltpack.Stream

/-! ## the most a state can still hand out -/

/-- inside the body: the text up to the next period (or all of it); a clean
    end is possible when that period exists, the footer sentence and the
    trailing text are acceptable and the source ends cleanly -/
def bodyMax (par : Armor.Params) (expect : Armor.Expect) (c : RErr) (h t : Bytes) : Bytes × Bool :=
  match Armor.splitAt1 Armor.period t with
  | none => (t, false)
  | some (body, r2) => (body, c == .eof && (tailSem par expect h r2).isSome)

/-- from the start of the text -/
def hdrMax (par : Armor.Params) (expect : Armor.Expect) (c : RErr) (T : Bytes) : Bytes × Bool :=
  match Armor.splitAt1 Armor.period T with
  | none => ([], false)
  | some (h, r1) =>
    if h.length < Armor.frameLim ∧ (hdrCheck par expect [] h).isSome = true then bodyMax par expect c h r1
    else ([], false)

def fMax (par : Armor.Params) (expect : Armor.Expect) (f : FState) : Bytes × Bool :=
  match f.phase with
  | .header => hdrMax par expect f.p.text.2 f.p.text.1
  | .body => bodyMax par expect f.p.text.2 f.hdr f.p.text.1
  | .footer => ([], false)
  | .endOfStream => ([], true)

/-- invariant of the states between calls -/
structure FInvG (f : FState) : Prop where
  p : PInvG f.p
  notFooter : f.phase ≠ .footer
  atEnd : f.phase = .endOfStream → f.p.text = ([], .eof)

theorem fInvG_init (src : Source) (c : RErr) (T : Bytes) (hT : srcText src = (T, c)) (hc : c ≠ punctErr)
    (hpre : SrcPre src) (hok : c = .eof → SrcOK src) : FInvG { p := { src := src } } :=
  ⟨pInvG_init src c T hT hc hpre hok, by simp, fun h => by cases h⟩

theorem hdrCheck_isSome (par : Armor.Params) (expect : Armor.Expect) (b0 b1 h : Bytes) :
    (hdrCheck par expect b0 h).isSome = (hdrCheck par expect b1 h).isSome := by
  unfold hdrCheck
  cases expect with
  | none => rfl
  | some typ => rfl

theorem bodyMax_prefix (par : Armor.Params) (expect : Armor.Expect) (c : RErr) (h d t : Bytes) (hd : Armor.period ∉ d) :
    bodyMax par expect c h (d ++ t) = (d ++ (bodyMax par expect c h t).1, (bodyMax par expect c h t).2) := by
  unfold bodyMax
  rw [splitAt1_prefix _ d t hd]
  cases Armor.splitAt1 Armor.period t with
  | none => rfl
  | some q => rfl

theorem bodyMax_last (par : Armor.Params) (expect : Armor.Expect) (c : RErr) (h d r2 : Bytes) (hd : Armor.period ∉ d) :
    bodyMax par expect c h (d ++ Armor.period :: r2) = (d, c == .eof && (tailSem par expect h r2).isSome) := by
  unfold bodyMax
  rw [splitAt1_of_split _ d r2 hd]

theorem tailSem_isSome (par : Armor.Params) (expect : Armor.Expect) (h r2 : Bytes) :
    (tailSem par expect h r2).isSome = true ↔
      ∃ ft r3, ftrSem par expect h r2 = some (ft, r3) ∧ trailOK par r3 := by
  unfold tailSem
  cases hf : ftrSem par expect h r2 with
  | none => simp
  | some q =>
    obtain ⟨ft, r3⟩ := q
    simp only [Option.bind_some]
    by_cases hok : trailOK par r3
    · rw [if_pos hok]; simp only [Option.isSome_some, true_iff]; exact ⟨ft, r3, rfl, hok⟩
    · rw [if_neg hok]; simp only [Option.isSome_none, Bool.false_eq_true, false_iff]
      rintro ⟨ft', r3', h1, h2⟩
      simp only [Option.some.injEq, Prod.mk.injEq] at h1
      obtain ⟨_, rfl⟩ := h1
      exact hok h2

/-! ## the blocks of `fRead` -/

/-- **the header block** -/
theorem fLoadHeader_specG (par : Armor.Params) (expect : Armor.Expect) (f : FState) (hi : FInvG f)
    (h : f.phase = .header) :
    (∃ z f0, fLoadHeader par expect f = (some (.err z), f0) ∧ fMax par expect f = ([], false)) ∨
    (∃ f0, fLoadHeader par expect f = (none, f0) ∧ f0.phase = .body ∧ FInvG f0 ∧ fRaw f0 ≤ fRaw f ∧
      f0.p.text.2 = f.p.text.2 ∧ fMax par expect f0 = fMax par expect f) := by
  rw [fLoadHeader_header par expect f h]
  obtain ⟨u1, u2⟩ := pReadUntil_frameG f.p hi.p
  have hsem : fMax par expect f = hdrMax par expect f.p.text.2 f.p.text.1 := by simp [fMax, h]
  cases hs : Armor.splitAt1 Armor.period f.p.text.1 with
  | none =>
    have hnp := splitAt1_none _ _ hs
    have hnone : fMax par expect f = ([], false) := by rw [hsem]; simp [hdrMax, hs]
    obtain ⟨z, s1, e1⟩ := u2 hnp
    left
    rw [e1]
    exact ⟨_, _, rfl, hnone⟩
  | some q =>
    obtain ⟨hd, r1⟩ := q
    obtain ⟨e1, e2⟩ := splitAt1_some _ _ hd r1 hs
    obtain ⟨v1, v2⟩ := u1 hd r1 e1 e2
    by_cases hl : hd.length < Armor.frameLim
    · obtain ⟨s1, r, w, t⟩ := v1 hl
      have t1 : s1.text.1 = r1 := by rw [t]
      have t2 : s1.text.2 = f.p.text.2 := by rw [t]
      have hsem' : fMax par expect f =
          if (hdrCheck par expect [] hd).isSome = true then bodyMax par expect f.p.text.2 hd r1 else ([], false) := by
        rw [hsem]; simp [hdrMax, hs, hl]
      have hraw : s1.text.1.length ≤ f.p.text.1.length := by
        rw [t1, e1]; simp only [List.length_append, List.length_cons]; omega
      rw [r]
      simp only
      cases expect with
      | none =>
        right
        refine ⟨_, rfl, rfl, ⟨w, by simp, fun h => by cases h⟩, hraw, t2, ?_⟩
        rw [hsem']
        simp [fMax, hdrCheck, t1, t2]
      | some typ =>
        simp only
        cases ha : Armor.toASCII par hd with
        | error e =>
          left
          refine ⟨_, _, rfl, ?_⟩
          rw [hsem']; simp [hdrCheck, ha]
        | ok hs' =>
          simp only
          cases hpf : Armor.parseFrame hs' typ Gen.c_sp_headerMarker with
          | error e =>
            left
            refine ⟨_, _, rfl, ?_⟩
            rw [hsem']; simp [hdrCheck, ha, hpf]
          | ok b =>
            right
            refine ⟨_, rfl, rfl, ⟨w, by simp, fun h => by cases h⟩, hraw, t2, ?_⟩
            rw [hsem']
            simp [fMax, hdrCheck, ha, hpf, t1, t2]
    · obtain ⟨s1, r⟩ := v2 (by omega)
      left
      rw [r]
      refine ⟨_, _, rfl, ?_⟩
      rw [hsem]; simp [hdrMax, hs, hl]

/-- **the footer block** -/
theorem fFooter_specG (par : Armor.Params) (expect : Armor.Expect) (f1 : FState) (hp : PInvG f1.p) :
    (∀ ft r3, ftrSem par expect f1.hdr f1.p.text.1 = some (ft, r3) →
      ∃ p2, fFooter par expect f1 = (none, { f1 with p := p2, ftr := ft, phase := .endOfStream }) ∧
        PInvG p2 ∧ p2.text = (r3, f1.p.text.2)) ∧
    (ftrSem par expect f1.hdr f1.p.text.1 = none → ∃ z f2, fFooter par expect f1 = (some (.err z), f2)) := by
  obtain ⟨u1, u2⟩ := pReadUntil_frameG f1.p hp
  unfold ftrSem fFooter
  cases hs : Armor.splitAt1 Armor.period f1.p.text.1 with
  | none =>
    have hnp := splitAt1_none _ _ hs
    obtain ⟨z, s1, e1⟩ := u2 hnp
    refine ⟨fun ft r3 h => by simp at h, fun _ => ?_⟩
    rw [e1]
    exact ⟨_, _, rfl⟩
  | some q =>
    obtain ⟨ft0, r30⟩ := q
    obtain ⟨e1, e2⟩ := splitAt1_some _ _ ft0 r30 hs
    obtain ⟨v1, v2⟩ := u1 ft0 r30 e1 e2
    simp only
    by_cases hl : ft0.length < Armor.frameLim
    · obtain ⟨s1, r, w, t⟩ := v1 hl
      rw [r]
      simp only [hl, true_and]
      cases expect with
      | none =>
        simp only [ftrCheck, if_true]
        refine ⟨fun ft r3 h => ?_, fun h => by simp at h⟩
        simp only [Option.some.injEq, Prod.mk.injEq] at h
        obtain ⟨rfl, rfl⟩ := h
        exact ⟨s1, rfl, w, t⟩
      | some typ =>
        simp only [ftrCheck]
        obtain ⟨xa, ha⟩ : ∃ x, Armor.toASCII par f1.hdr = x := ⟨_, rfl⟩
        obtain ⟨xb, hb⟩ : ∃ x, Armor.toASCII par ft0 = x := ⟨_, rfl⟩
        cases xa with
        | error e =>
          simp only [ha, Bool.false_eq_true, if_false]
          exact ⟨fun ft r3 h => by simp at h, fun _ => ⟨_, _, rfl⟩⟩
        | ok hs' =>
          cases xb with
          | error e =>
            simp only [ha, hb, Bool.false_eq_true, if_false]
            exact ⟨fun ft r3 h => by simp at h, fun _ => ⟨_, _, rfl⟩⟩
          | ok fs' =>
            simp only [ha, hb]
            obtain ⟨xc, hc⟩ : ∃ x, Armor.checkArmor62 hs' fs' typ = x := ⟨_, rfl⟩
            cases xc with
            | error e =>
              simp only [hc, Bool.false_eq_true, if_false]
              exact ⟨fun ft r3 h => by simp at h, fun _ => ⟨_, _, rfl⟩⟩
            | ok b =>
              simp only [hc, if_true]
              refine ⟨fun ft r3 h => ?_, fun h => by simp at h⟩
              simp only [Option.some.injEq, Prod.mk.injEq] at h
              obtain ⟨rfl, rfl⟩ := h
              exact ⟨s1, rfl, w, t⟩
    · obtain ⟨s1, r⟩ := v2 (by omega)
      rw [r]
      simp only [hl, false_and, if_false]
      exact ⟨fun ft r3 h => by simp at h, fun _ => ⟨_, _, rfl⟩⟩

/-- **the end-of-stream block**: a fault that arrives only now — behind the
    footer's period — is reported (together with the last body bytes `d`) -/
theorem fFinish_specG (par : Armor.Params) (d : Bytes) (f2 : FState) (hp : PInvG f2.p) (hph : f2.phase = .endOfStream) :
    ((trailOK par f2.p.text.1 ∧ f2.p.text.2 = .eof) → ∃ p3, PInvG p3 ∧ p3.text = ([], .eof) ∧
      fFinish par d f2 = if d = [] then ([], some .eof, { f2 with p := p3 }) else (d, none, { f2 with p := p3 })) ∧
    (¬ (trailOK par f2.p.text.1 ∧ f2.p.text.2 = .eof) →
      ∃ z p3, fFinish par d f2 = (d, some (.err z), { f2 with p := p3 })) := by
  obtain ⟨c1, c2⟩ := consume_fuelOfG par f2.p hp
  unfold fFinish
  have : (f2.phase == FdsPhase.endOfStream) = true := by rw [hph]; rfl
  rw [if_pos this]
  constructor
  · intro hok
    obtain ⟨s1, e1, w, t⟩ := c1 hok
    rw [e1]
    refine ⟨s1, w, t, ?_⟩
    cases d with
    | nil => rfl
    | cons x xs => rfl
  · intro hbad
    obtain ⟨z, s1, e1⟩ := c2 hbad
    rw [e1]
    exact ⟨z, s1, rfl⟩

/-- a fault of the source met inside the body -/
theorem fRead_body_err (par : Armor.Params) (expect : Armor.Expect) (cap : Nat) (f : FState) (h : f.phase = .body)
    (d : Bytes) (c : RErr) (p1 : PState) (hp : pRead cap f.p = (d, some c, p1)) (hc1 : c ≠ punctErr) (hc2 : c ≠ .eof) :
    fRead par expect cap f = ([], some c, { f with p := p1 }) := by
  unfold fRead
  rw [fLoadHeader_not par expect f (by rw [h]; decide)]
  simp only [h, hp, beq_self_eq_true, if_true]
  split
  · rename_i heq
    split at heq
    · cases heq
    · rename_i heq2
      simp only [Option.some.injEq] at heq2
      exact absurd heq2 hc2
    · rename_i heq2
      simp only [Option.some.injEq] at heq2
      subst heq2
      simp only [Sum.inr.injEq, Prod.mk.injEq] at heq
      obtain ⟨rfl, rfl⟩ := heq
      rfl
    · cases heq
  · rename_i heq
    exfalso
    split at heq
    · rename_i heq2
      simp only [Option.some.injEq] at heq2
      exact hc1 heq2
    · rename_i heq2
      simp only [Option.some.injEq] at heq2
      exact hc2 heq2
    · cases heq
    · rename_i heq2; cases heq2

/-! ## one call -/

/-- what one `Read` may do -/
def FStepG (par : Armor.Params) (expect : Armor.Expect) (f : FState) (d : Bytes) (e : Option RErr) (f' : FState) : Prop :=
  (e = none ∧ d ≠ [] ∧ FInvG f' ∧ f'.p.text.2 = f.p.text.2 ∧ fRaw f' + d.length ≤ fRaw f ∧
      fMax par expect f = (d ++ (fMax par expect f').1, (fMax par expect f').2)) ∨
  (e = some .eof ∧ d = [] ∧ FInvG f' ∧ f'.phase = .endOfStream ∧ f.p.text.2 = .eof ∧ fRaw f' ≤ fRaw f ∧
      fMax par expect f = ([], true)) ∨
  (∃ z, e = some (.err z) ∧ d <+: (fMax par expect f).1 ∧ (fMax par expect f).2 = false)

theorem fRead_stepG_end (par : Armor.Params) (expect : Armor.Expect) (cap : Nat) (f : FState) (hi : FInvG f)
    (hph : f.phase = .endOfStream) (d : Bytes) (e : Option RErr) (f' : FState)
    (h : fRead par expect cap f = (d, e, f')) : FStepG par expect f d e f' := by
  rw [fRead_end par expect cap f hph] at h
  obtain ⟨k1, _⟩ := fFinish_specG par [] f hi.p hph
  have ht := hi.atEnd hph
  have hok : trailOK par f.p.text.1 ∧ f.p.text.2 = .eof := by rw [ht]; exact ⟨⟨by simp, rfl⟩, rfl⟩
  obtain ⟨p3, w, t, e1⟩ := k1 hok
  rw [e1] at h
  simp only [if_true, Prod.mk.injEq] at h
  obtain ⟨rfl, rfl, rfl⟩ := h
  refine Or.inr (Or.inl ⟨rfl, rfl, ⟨w, by simp [hph], fun _ => t⟩, hph, hok.2, ?_, ?_⟩)
  · simp [fRaw, t]
  · simp [fMax, hph]

theorem fRead_stepG_body (par : Armor.Params) (expect : Armor.Expect) (cap : Nat) (hcap : 0 < cap) (f : FState)
    (hi : FInvG f) (hph : f.phase = .body) (d : Bytes) (e : Option RErr) (f' : FState)
    (h : fRead par expect cap f = (d, e, f')) : FStepG par expect f d e f' := by
  have hsem : fMax par expect f = bodyMax par expect f.p.text.2 f.hdr f.p.text.1 := by simp [fMax, hph]
  rcases hp : pRead cap f.p with ⟨d0, e0, p1⟩
  obtain ⟨_, n, c⟩ := pRead_okG cap hcap f.p hi.p d0 e0 p1 hp
  rcases c with ⟨rfl, c1, c2, c3, w⟩ | ⟨rfl, c2, c3, w⟩ | ⟨rfl, c1, c2, c3⟩
  · -- body bytes, no condition
    rw [fRead_body_none par expect cap f hph d0 p1 hp] at h
    simp only [Prod.mk.injEq] at h
    obtain ⟨rfl, rfl, rfl⟩ := h
    refine Or.inl ⟨rfl, c1, ⟨w, by simp [hph], fun h => by simp [hph] at h⟩, c3, ?_, ?_⟩
    · simp only [fRaw]; rw [c2]; simp; omega
    · rw [hsem, c2, bodyMax_prefix par expect _ _ d0 _ n]
      simp [fMax, hph, c3]
  · -- the period that ends the body: footer and trailing text in the same call
    rw [fRead_body_punct par expect cap f hph d0 p1 hp] at h
    have hsem' : fMax par expect f = (d0, f.p.text.2 == .eof && (tailSem par expect f.hdr p1.text.1).isSome) := by
      rw [hsem, c2, bodyMax_last par expect _ _ d0 _ n]
    obtain ⟨g1, g2⟩ := fFooter_specG par expect { f with p := p1, phase := .footer } w
    cases hf : ftrSem par expect f.hdr p1.text.1 with
    | none =>
      obtain ⟨z, f2, e2⟩ := g2 hf
      rw [e2] at h
      simp only [Prod.mk.injEq] at h
      obtain ⟨rfl, rfl, rfl⟩ := h
      refine Or.inr (Or.inr ⟨z, rfl, List.nil_prefix, ?_⟩)
      rw [hsem']; simp [tailSem, hf]
    | some q =>
      obtain ⟨ft, r3⟩ := q
      obtain ⟨p2, e2, w2, t2⟩ := g1 ft r3 hf
      rw [e2] at h
      simp only at h
      obtain ⟨k1, k2⟩ := fFinish_specG par d0
        { p := p2, phase := .endOfStream, hdr := f.hdr, ftr := ft, brand := f.brand } w2 rfl
      have t21 : p2.text.1 = r3 := by rw [t2]
      have t22 : p2.text.2 = f.p.text.2 := by rw [t2]; exact c3
      by_cases hok : trailOK par r3 ∧ f.p.text.2 = .eof
      · obtain ⟨p3, w3, t3, e3⟩ := k1 (by simp only [t21, t22]; exact hok)
        rw [e3] at h
        have hs2 : fMax par expect f = (d0, true) := by
          rw [hsem']; simp [tailSem, hf, hok.1, hok.2]
        by_cases hd : d0 = []
        · rw [if_pos hd] at h
          simp only [Prod.mk.injEq] at h
          obtain ⟨rfl, rfl, rfl⟩ := h
          refine Or.inr (Or.inl ⟨rfl, rfl, ⟨w3, by simp, fun _ => t3⟩, rfl, hok.2, ?_, ?_⟩)
          · simp [fRaw, t3]
          · rw [hs2, hd]
        · rw [if_neg hd] at h
          simp only [Prod.mk.injEq] at h
          obtain ⟨rfl, rfl, rfl⟩ := h
          refine Or.inl ⟨rfl, hd, ⟨w3, by simp, fun _ => t3⟩, ?_, ?_, ?_⟩
          · simp only [t3]; exact hok.2.symm
          · simp only [fRaw]; rw [t3, c2]; simp
          · rw [hs2]; simp [fMax]
      · obtain ⟨z, p3, e3⟩ := k2 (by simp only [t21, t22]; exact hok)
        rw [e3] at h
        simp only [Prod.mk.injEq] at h
        obtain ⟨rfl, rfl, rfl⟩ := h
        refine Or.inr (Or.inr ⟨z, rfl, ?_, ?_⟩)
        · rw [hsem']; exact List.prefix_refl _
        · rw [hsem']
          simp only [tailSem, hf, Option.bind_some]
          by_cases ht : trailOK par r3
          · have : f.p.text.2 ≠ .eof := fun h' => hok ⟨ht, h'⟩
            simp [this]
          · simp [ht]
  · -- the text ends inside the body
    subst c1
    have hnone : fMax par expect f = ([], false) := by rw [hsem, c2]; simp [bodyMax, Armor.splitAt1]
    cases hc : f.p.text.2 with
    | eof =>
      rw [hc] at hp
      rw [fRead_body_eof par expect cap f hph [] p1 hp] at h
      simp only [Prod.mk.injEq] at h
      obtain ⟨rfl, rfl, rfl⟩ := h
      exact Or.inr (Or.inr ⟨_, rfl, List.nil_prefix, by rw [hnone]⟩)
    | err z =>
      rw [hc] at hp
      have hnp : (RErr.err z) ≠ punctErr := by rw [← hc]; exact hi.p.notPunct
      rw [fRead_body_err par expect cap f hph [] (.err z) p1 hp hnp (by intro h'; cases h')] at h
      simp only [Prod.mk.injEq] at h
      obtain ⟨rfl, rfl, rfl⟩ := h
      exact Or.inr (Or.inr ⟨z, rfl, List.nil_prefix, by rw [hnone]⟩)

/-- **one `framedDecoderStream.Read`** with any positive buffer size, over a
    script that may end in a fault -/
theorem fRead_stepG (par : Armor.Params) (expect : Armor.Expect) (cap : Nat) (hcap : 0 < cap) (f : FState)
    (hi : FInvG f) (d : Bytes) (e : Option RErr) (f' : FState)
    (h : fRead par expect cap f = (d, e, f')) : FStepG par expect f d e f' := by
  cases hph : f.phase with
  | header =>
    rcases fLoadHeader_specG par expect f hi hph with ⟨z, f0, e0, hs⟩ | ⟨f0, e0, hb, hi0, hr, ht, hs⟩
    · rw [fRead_header_err par expect cap f f0 _ e0] at h
      simp only [Prod.mk.injEq] at h
      obtain ⟨rfl, rfl, rfl⟩ := h
      exact Or.inr (Or.inr ⟨z, rfl, List.nil_prefix, by rw [hs]⟩)
    · rw [fRead_loaded par expect cap f f0 e0 (by rw [hb]; decide)] at h
      have := fRead_stepG_body par expect cap hcap f0 hi0 hb d e f' h
      unfold FStepG at this ⊢
      rw [hs, ht] at this
      rcases this with ⟨a1, a2, a3, a4, a5, a6⟩ | ⟨a1, a2, a3, a4, a5, a6, a7⟩ | a
      · exact Or.inl ⟨a1, a2, a3, a4, by omega, a6⟩
      · exact Or.inr (Or.inl ⟨a1, a2, a3, a4, a5, by omega, a7⟩)
      · exact Or.inr (Or.inr a)
  | body => exact fRead_stepG_body par expect cap hcap f hi hph d e f' h
  | footer => exact absurd hph hi.notFooter
  | endOfStream => exact fRead_stepG_end par expect cap f hi hph d e f' h

end Saltpack.Proofs
