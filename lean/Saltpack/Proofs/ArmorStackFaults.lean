/-
  The armor reader stack on FAILING inputs and FAULTING sources.

  `readAll par expect caps fuel 0 (newDecoder src) []` (Model/Stream.lean) is the
  Go reader stack scripted source → punctuatedReader → framedDecoderStream →
  filteringReader → BaseX decoder, read to its end.  Proofs/ArmorStack.lean
  shows that over a clean script of a text `T` it computes `Armor.openPure`.
  Here:

  (A) `released_prefix_maxRelease`: whatever the stack releases for a text `T`
      — under ANY fragmentation of the deliveries, ANY positive buffer sizes,
      whether it ends cleanly or with an error — is a prefix of
      `maxRelease par expect T`, a function of the text alone; it is all of
      `maxRelease` when the read ends cleanly, and `maxRelease` is the payload
      when `openPure` succeeds.  Corollary `released_prefix_comparable`: two
      reads of the same text release byte strings one of which is a prefix of
      the other.

  (B) `fault_never_clean`: if the script's first condition is a non-EOF error
      `z` of the underlying reader (alone, or together with data; whatever the
      script does afterwards: sticky, transient, anything), the read ends with
      an error — never with a clean end-of-message — and what was released is
      a prefix of `faultRelease par expect T`, hence of `maxRelease` of every
      continuation `T ++ X` of the text delivered before the fault.
      Hypothesis `z ≠ .punctuated`: a source that itself reports saltpack's
      `ErrPunctuated` sentinel is indistinguishable from a period in the text
      (counterexample at the end).

  The layer facts used are in Proofs/FaultsPunct.lean (`pRead_okG`,
  `pReadUntil_specG`, `consume_specG`), FaultsFramed.lean (`fRead_stepG`),
  FaultsFilter.lean (`filRead_stepG`), FaultsDecoder.lean (`dRead_stepG`,
  `readAll_max`).

  Core Lean only.
-/
import Saltpack.Proofs.FaultsDecoder

namespace Saltpack.Proofs
open Saltpack Saltpack.Stream

/-! ## the bound, as a function of the text alone -/

/-- the most that can be released for a body text `body`: keep its longest
    prefix of valid bytes, drop the skip characters, decode strictly block by
    block up to the first block that fails (`Basex.decodePrefix`) — all blocks,
    a short final one included, when the message can be `complete` and every
    body byte is valid; the whole blocks only otherwise -/
def relBody (par : Armor.Params) (complete : Bool) (body : Bytes) : Bytes :=
  decMaxOf par.enc (complete && body.all (Armor.validByte par))
    (Basex.filterSkip par.enc (body.takeWhile (Armor.validByte par)))

/-- the most the stack can release for the text `T` (`clean`: the source ends
    with a clean EOF after `T`; otherwise with a fault):
    * nothing unless `T` has a first period, and the header sentence before it
      is shorter than the frame limit and passes the header check;
    * then the body is the text up to the second period (or all the rest);
    * the body can be complete when that second period exists, the footer
      sentence and the trailing text are acceptable (`tailSem`), and the source
      ends cleanly. -/
def releaseOf (par : Armor.Params) (expect : Armor.Expect) (clean : Bool) (T : Bytes) : Bytes :=
  match Armor.splitAt1 Armor.period T with
  | none => []
  | some (h, r1) =>
    if h.length < Armor.frameLim ∧ (hdrCheck par expect [] h).isSome = true then
      match Armor.splitAt1 Armor.period r1 with
      | none => relBody par false r1
      | some (body, r2) => relBody par (clean && (tailSem par expect h r2).isSome) body
    else []

/-- **the most the stack can ever release for the text `T`** followed by a clean EOF -/
def maxRelease (par : Armor.Params) (expect : Armor.Expect) (T : Bytes) : Bytes := releaseOf par expect true T

/-- the most the stack can release when the source faults after delivering `T` -/
def faultRelease (par : Armor.Params) (expect : Armor.Expect) (T : Bytes) : Bytes := releaseOf par expect false T

/-! ## the initial state -/

theorem dMax_init (par : Armor.Params) (expect : Armor.Expect) (src : Source) (T : Bytes) (c : RErr)
    (hsrc : srcText src = (T, c)) : dMax par expect (newDecoder src) = releaseOf par expect (c == .eof) T := by
  have ht : ({ src := src } : PState).text = (T, c) := by rw [ptext_init, hsrc]
  simp only [dMax, newDecoder, filMax, fMax, ht, List.nil_append]
  unfold hdrMax releaseOf
  cases Armor.splitAt1 Armor.period T with
  | none => simp [filOfMax, Basex.filterSkip, decMaxOf_nil]
  | some q =>
    obtain ⟨h, r1⟩ := q
    simp only
    by_cases hc : h.length < Armor.frameLim ∧ (hdrCheck par expect [] h).isSome = true
    · rw [if_pos hc, if_pos hc]
      unfold bodyMax
      cases Armor.splitAt1 Armor.period r1 with
      | none => simp [filOfMax, relBody]
      | some q2 =>
        obtain ⟨body, r2⟩ := q2
        simp [filOfMax, relBody]
    · rw [if_neg hc, if_neg hc]
      simp [filOfMax, Basex.filterSkip, decMaxOf_nil]

theorem dInvG_init (par : Armor.Params) (src : Source) (c : RErr) (T : Bytes) (hT : srcText src = (T, c))
    (hc : c ≠ punctErr) (hpre : SrcPre src) (hok : c = .eof → SrcOK src) : DInvG par (newDecoder src) :=
  ⟨fInvG_init src c T hT hc hpre hok, allDig_nil _, rfl⟩

theorem dM_initG (src : Source) (T : Bytes) (c : RErr) (hsrc : srcText src = (T, c)) :
    dM (newDecoder src) = T.length := by
  have : ({ src := src } : PState).text.1 = T := by rw [ptext_init, hsrc]
  simp [dM, newDecoder, fRaw, this]

/-- the general statement: a script whose first condition is `c` (the clean EOF
    or a fault other than `ErrPunctuated`) -/
theorem readAll_release (par : Armor.Params) (hpar : par.enc.WF) (expect : Armor.Expect)
    (src : Source) (T : Bytes) (c : RErr) (hsrc : srcText src = (T, c)) (hc : c ≠ punctErr)
    (hpre : SrcPre src) (hok : c = .eof → SrcOK src) (caps : List Nat) (hcaps : ∀ k ∈ caps, 0 < k) :
    ∃ released oe d,
      (∀ fuel, T.length < fuel → readAll par expect caps fuel 0 (newDecoder src) [] = (released, oe, d)) ∧
      released <+: releaseOf par expect (c == .eof) T ∧
      (oe = none → c = .eof ∧ released = releaseOf par expect (c == .eof) T) := by
  obtain ⟨r, oe, d, f1, f2, f3⟩ := readAll_max par hpar expect caps hcaps T.length (newDecoder src)
    (dInvG_init par src c T hsrc hc hpre hok) (by rw [dM_initG src T c hsrc]; exact Nat.le_refl _) 0 []
  rw [dMax_init par expect src T c hsrc] at f2 f3
  refine ⟨r, oe, d, by simpa using f1, f2, fun h => ?_⟩
  obtain ⟨g1, g2⟩ := f3 h
  have ht : ({ src := src } : PState).text = (T, c) := by rw [ptext_init, hsrc]
  simp only [newDecoder, ht] at g1
  exact ⟨g1, g2⟩

/-! ## (A) what is released is a prefix of a function of the text alone -/

/-- **(A)** For every well-behaved script `src` that delivers the text `T` and
    then a clean EOF (any fragmentation), every schedule `caps` of positive
    buffer sizes and every sufficient fuel: the bytes released — whether the
    read ends cleanly or with an error — are a prefix of `maxRelease par expect
    T`; and when the read ends cleanly they are all of it. -/
theorem released_prefix_maxRelease (par : Armor.Params) (hpar : par.enc.WF) (expect : Armor.Expect)
    (src : Source) (T : Bytes) (hok : SrcOK src) (hsrc : srcText src = (T, .eof))
    (caps : List Nat) (hcaps : ∀ c ∈ caps, 0 < c) (fuel : Nat) (hfuel : T.length + 1 ≤ fuel) :
    (readAll par expect caps fuel 0 (newDecoder src) []).1 <+: maxRelease par expect T ∧
    ((readAll par expect caps fuel 0 (newDecoder src) []).2.1 = none →
      (readAll par expect caps fuel 0 (newDecoder src) []).1 = maxRelease par expect T) := by
  obtain ⟨r, oe, d, f1, f2, f3⟩ := readAll_release par hpar expect src T .eof hsrc eof_ne_punct
    (srcPre_of_srcOK src hok) (fun _ => hok) caps hcaps
  rw [f1 fuel (by omega)]
  exact ⟨f2, fun h => (f3 h).2⟩

/-- when the whole-text function succeeds, `maxRelease` is its payload -/
theorem maxRelease_ok (par : Armor.Params) (hpar : par.enc.WF) (expect : Armor.Expect) (T : Bytes)
    (o : Armor.Opened) (ho : Armor.openPure par expect T = .ok o) : maxRelease par expect T = o.payload := by
  have hok : SrcOK [(T, some RErr.eof)] := by intro x hx; cases hx
  have hsrc : srcText [(T, some RErr.eof)] = (T, .eof) := rfl
  have hcaps : ∀ c ∈ [1], 0 < c := by intro c hc; simp at hc; omega
  obtain ⟨d, g, _⟩ := (readAll_eq_openPure_fuel par hpar expect _ T hok hsrc [1] hcaps (T.length + 1)
    (Nat.le_refl _)).1 o ho
  have := (released_prefix_maxRelease par hpar expect _ T hok hsrc [1] hcaps (T.length + 1) (Nat.le_refl _)).2
  rw [g] at this
  exact (this rfl).symm

/-- **(A), corollary**: two reads of the same text — two well-behaved scripts,
    two schedules of positive buffer sizes — release byte strings one of which
    is a prefix of the other, whatever the outcomes. -/
theorem released_prefix_comparable (par : Armor.Params) (hpar : par.enc.WF) (expect : Armor.Expect)
    (src src' : Source) (T : Bytes) (hok : SrcOK src) (hok' : SrcOK src')
    (hsrc : srcText src = (T, .eof)) (hsrc' : srcText src' = (T, .eof))
    (caps caps' : List Nat) (hcaps : ∀ c ∈ caps, 0 < c) (hcaps' : ∀ c ∈ caps', 0 < c)
    (fuel fuel' : Nat) (hfuel : T.length + 1 ≤ fuel) (hfuel' : T.length + 1 ≤ fuel') :
    (readAll par expect caps fuel 0 (newDecoder src) []).1 <+: (readAll par expect caps' fuel' 0 (newDecoder src') []).1 ∨
    (readAll par expect caps' fuel' 0 (newDecoder src') []).1 <+: (readAll par expect caps fuel 0 (newDecoder src) []).1 :=
  List.prefix_or_prefix_of_prefix
    (released_prefix_maxRelease par hpar expect src T hok hsrc caps hcaps fuel hfuel).1
    (released_prefix_maxRelease par hpar expect src' T hok' hsrc' caps' hcaps' fuel' hfuel').1

/-! ## monotonicity of the bound -/

theorem takeWhile_prefix_mono {α : Type} (p : α → Bool) (a b : List α) (h : a <+: b) :
    a.takeWhile p <+: b.takeWhile p := by
  obtain ⟨t, rfl⟩ := h
  by_cases ha : a.all p = true
  · rw [takeWhile_append_all p a t ha, takeWhile_eq_of_all p a ha]
    exact List.prefix_append _ _
  · have ha' : a.all p = false := by simpa using ha
    rw [takeWhile_append_bad p a t ha']
    exact List.prefix_refl _

theorem fullBlocks_length (e : Basex.Enc) (s : Bytes) :
    (fullBlocks e s).length = s.length / e.charBlockLen * e.charBlockLen := by
  unfold fullBlocks
  rw [List.length_take]
  have := Nat.div_mul_le_self s.length e.charBlockLen
  omega

/-- the whole blocks of a string decode to a prefix of whatever a longer string can give -/
theorem decMaxOf_mono (e : Basex.Enc) (hN : 0 < e.charBlockLen) (s s' : Bytes) (fl : Bool) (h : s <+: s') :
    decMaxOf e false s <+: decMaxOf e fl s' := by
  obtain ⟨w, rfl⟩ := h
  have hsplit : s = fullBlocks e s ++ s.drop (s.length / e.charBlockLen * e.charBlockLen) := by
    unfold fullBlocks; rw [List.take_append_drop]
  have hlhs : decMaxOf e false s = (dP e (fullBlocks e s)).1 := by simp [decMaxOf]
  rw [hlhs]
  conv => rhs; rw [hsplit, List.append_assoc]
  rw [decMaxOf_blocks e hN _ _ _ fl (fullBlocks_length e s)]
  rcases dP e (fullBlocks e s) with ⟨p, _ | x⟩
  · exact List.prefix_append _ _
  · exact List.prefix_refl _

theorem relBody_mono (par : Armor.Params) (hN : 0 < par.enc.charBlockLen) (body body' : Bytes) (fl : Bool)
    (h : body <+: body') : relBody par false body <+: relBody par fl body' := by
  unfold relBody
  simp only [Bool.false_and]
  exact decMaxOf_mono par.enc hN _ _ _ (filterSkip_prefix par.enc _ _ (takeWhile_prefix_mono _ _ _ h))

/-- **monotonicity**: what can be released before a fault is a prefix of what
    ANY continuation of the text can release at most -/
theorem releaseOf_mono (par : Armor.Params) (hN : 0 < par.enc.charBlockLen) (expect : Armor.Expect) (T X : Bytes)
    (fl : Bool) : releaseOf par expect false T <+: releaseOf par expect fl (T ++ X) := by
  unfold releaseOf
  cases hs : Armor.splitAt1 Armor.period T with
  | none => exact List.nil_prefix
  | some q =>
    obtain ⟨h, r1⟩ := q
    obtain ⟨e1, e2⟩ := splitAt1_some _ _ h r1 hs
    have hs' : Armor.splitAt1 Armor.period (T ++ X) = some (h, r1 ++ X) := by
      rw [e1, List.append_assoc, List.cons_append]
      exact splitAt1_of_split _ h (r1 ++ X) e2
    rw [hs']
    simp only
    by_cases hc : h.length < Armor.frameLim ∧ (hdrCheck par expect [] h).isSome = true
    · rw [if_pos hc, if_pos hc]
      cases hs1 : Armor.splitAt1 Armor.period r1 with
      | none =>
        have hnp := splitAt1_none _ _ hs1
        rw [splitAt1_prefix _ r1 X hnp]
        cases Armor.splitAt1 Armor.period X with
        | none => exact relBody_mono par hN _ _ _ (List.prefix_append _ _)
        | some q2 => exact relBody_mono par hN _ _ _ (List.prefix_append _ _)
      | some q1 =>
        obtain ⟨body, r2⟩ := q1
        obtain ⟨g1, g2⟩ := splitAt1_some _ _ body r2 hs1
        have hs1' : Armor.splitAt1 Armor.period (r1 ++ X) = some (body, r2 ++ X) := by
          rw [g1, List.append_assoc, List.cons_append]
          exact splitAt1_of_split _ body (r2 ++ X) g2
        rw [hs1']
        simp only [Bool.false_and]
        exact relBody_mono par hN _ _ _ (List.prefix_refl _)
    · rw [if_neg hc]
      exact List.nil_prefix

theorem faultRelease_prefix_maxRelease (par : Armor.Params) (hpar : par.enc.WF) (expect : Armor.Expect) (T X : Bytes) :
    faultRelease par expect T <+: maxRelease par expect (T ++ X) :=
  releaseOf_mono par hpar.cblock_pos expect T X true

/-! ## (B) a fault of the underlying reader is never turned into a clean end -/

theorem err_ne_punct (z : Err) (hz : z ≠ .punctuated) : RErr.err z ≠ punctErr := by
  intro h
  unfold punctErr at h
  injection h with h'
  exact hz h'

/-- **(B)** `src` is ANY script whose first condition is the non-EOF error `z`
    (`srcText src = (T, .err z)`: `T` = the data delivered up to and with that
    condition), with non-empty data deliveries before it (`SrcPre`).  NOTHING is
    assumed about the script after the faulting delivery — the error may
    persist (sticky), the script may continue normally (transient), or do
    anything else.  For every schedule of positive buffer sizes the read ends
    with an ERROR — never with a clean end-of-message — the same for every fuel
    above `T.length` (so it is not the fuel running out); what was released is a
    prefix of `faultRelease par expect T`, hence of `maxRelease par expect (T ++
    X)` for every continuation `X` of the text. -/
theorem fault_never_clean (par : Armor.Params) (hpar : par.enc.WF) (expect : Armor.Expect)
    (src : Source) (T : Bytes) (z : Err) (hpre : SrcPre src) (hsrc : srcText src = (T, .err z))
    (hz : z ≠ .punctuated) (caps : List Nat) (hcaps : ∀ c ∈ caps, 0 < c) :
    ∃ released e d,
      (∀ fuel, T.length < fuel → readAll par expect caps fuel 0 (newDecoder src) [] = (released, some e, d)) ∧
      released <+: faultRelease par expect T ∧
      ∀ X, released <+: maxRelease par expect (T ++ X) := by
  obtain ⟨r, oe, d, f1, f2, f3⟩ := readAll_release par hpar expect src T (.err z) hsrc (err_ne_punct z hz)
    hpre (fun h => by cases h) caps hcaps
  have hb : ((RErr.err z) == RErr.eof) = false := by
    rw [beq_eq_false_iff_ne]; intro h; cases h
  rw [hb] at f2
  cases oe with
  | none => exact absurd (f3 rfl).1 (by intro h; cases h)
  | some e =>
    exact ⟨r, e, d, f1, f2, fun X => f2.trans (faultRelease_prefix_maxRelease par hpar expect T X)⟩

/-- the statement for one fuel value: the terminal condition is never `none` -/
theorem fault_never_clean_fuel (par : Armor.Params) (hpar : par.enc.WF) (expect : Armor.Expect)
    (src : Source) (T : Bytes) (z : Err) (hpre : SrcPre src) (hsrc : srcText src = (T, .err z))
    (hz : z ≠ .punctuated) (caps : List Nat) (hcaps : ∀ c ∈ caps, 0 < c) (fuel : Nat) (hfuel : T.length + 1 ≤ fuel) :
    ∃ released e d, readAll par expect caps fuel 0 (newDecoder src) [] = (released, some e, d) ∧
      released <+: faultRelease par expect T := by
  obtain ⟨r, e, d, f1, f2, _⟩ := fault_never_clean par hpar expect src T z hpre hsrc hz caps hcaps
  exact ⟨r, e, d, f1 fuel (by omega), f2⟩

/-- a read that is cut short by a fault and a read of ANY clean continuation
    `T ++ X` of the text release byte strings one of which is a prefix of the other -/
theorem released_prefix_comparable_fault (par : Armor.Params) (hpar : par.enc.WF) (expect : Armor.Expect)
    (src src' : Source) (T X : Bytes) (z : Err) (hpre : SrcPre src) (hsrc : srcText src = (T, .err z))
    (hz : z ≠ .punctuated) (hok' : SrcOK src') (hsrc' : srcText src' = (T ++ X, .eof))
    (caps caps' : List Nat) (hcaps : ∀ c ∈ caps, 0 < c) (hcaps' : ∀ c ∈ caps', 0 < c)
    (fuel fuel' : Nat) (hfuel : T.length + 1 ≤ fuel) (hfuel' : (T ++ X).length + 1 ≤ fuel') :
    (readAll par expect caps fuel 0 (newDecoder src) []).1 <+: (readAll par expect caps' fuel' 0 (newDecoder src') []).1 ∨
    (readAll par expect caps' fuel' 0 (newDecoder src') []).1 <+: (readAll par expect caps fuel 0 (newDecoder src) []).1 := by
  obtain ⟨r, e, d, f1, _, f3⟩ := fault_never_clean par hpar expect src T z hpre hsrc hz caps hcaps
  have h1 : (readAll par expect caps fuel 0 (newDecoder src) []).1 <+: maxRelease par expect (T ++ X) := by
    rw [f1 fuel (by omega)]; exact f3 X
  exact List.prefix_or_prefix_of_prefix h1
    (released_prefix_maxRelease par hpar expect src' (T ++ X) hok' hsrc' caps' hcaps' fuel' hfuel').1

/-! ### the shapes of faulting scripts -/

/-- deliveries of data only, each non-empty -/
def DataOnly (pre : Source) : Prop := ∀ x ∈ pre, x.2 = none ∧ x.1 ≠ []

instance (pre : Source) : Decidable (DataOnly pre) := by unfold DataOnly; exact inferInstance

/-- the data of a list of deliveries -/
def dataOf : Source → Bytes
  | [] => []
  | (d, _) :: rest => d ++ dataOf rest

theorem srcText_dataOnly : ∀ (pre : Source), DataOnly pre → ∀ (rest : Source),
    srcText (pre ++ rest) = (dataOf pre ++ (srcText rest).1, (srcText rest).2) := by
  intro pre
  induction pre with
  | nil => intro _ rest; simp [dataOf]
  | cons hd tl ih =>
    intro h rest
    obtain ⟨d, e⟩ := hd
    have h1 := (h (d, e) (by simp)).1
    simp only at h1
    subst h1
    have := ih (fun x hx => h x (by simp [hx])) rest
    simp only [List.cons_append, srcText, this, dataOf, List.append_assoc]

theorem srcPre_dataOnly : ∀ (pre : Source), DataOnly pre → ∀ (rest : Source), SrcPre rest → SrcPre (pre ++ rest) := by
  intro pre
  induction pre with
  | nil => intro _ rest hr; exact hr
  | cons hd tl ih =>
    intro h rest hr
    obtain ⟨d, e⟩ := hd
    have h1 := h (d, e) (by simp)
    simp only at h1
    obtain ⟨rfl, h2⟩ := h1
    exact ⟨h2, ih (fun x hx => h x (by simp [hx])) rest hr⟩

/-- **(B) for scripts given by their shape**: non-empty data deliveries `pre`,
    then a delivery `(dd, z)` carrying the fault together with the data `dd`
    (possibly none), then ANY further script `post` —
    STICKY: `post = List.replicate n ([], some (.err z))`;
    TRANSIENT: `dd = []` and `post` = the rest of the message, delivered normally.
    The read ends with an error. -/
theorem fault_never_clean_shape (par : Armor.Params) (hpar : par.enc.WF) (expect : Armor.Expect)
    (pre post : Source) (dd : Bytes) (z : Err) (hpre : DataOnly pre) (hz : z ≠ .punctuated)
    (caps : List Nat) (hcaps : ∀ c ∈ caps, 0 < c) (fuel : Nat) (hfuel : (dataOf pre ++ dd).length + 1 ≤ fuel) :
    ∃ released e d,
      readAll par expect caps fuel 0 (newDecoder (pre ++ (dd, some (.err z)) :: post)) [] = (released, some e, d) ∧
      released <+: faultRelease par expect (dataOf pre ++ dd) :=
  fault_never_clean_fuel par hpar expect _ (dataOf pre ++ dd) z
    (srcPre_dataOnly pre hpre ((dd, some (.err z)) :: post) (by unfold SrcPre; trivial)) (by rw [srcText_dataOnly pre hpre]; rfl) hz caps hcaps fuel hfuel

/-! ## concrete checks -/

/-- 43 alphabet characters: one whole block (it decodes to 32 bytes) -/
def exBlk : Bytes := [48, 49, 50, 51, 52, 53, 54, 55, 56, 57, 65, 66, 67, 68, 69, 70, 71, 72, 73, 74, 75, 76, 77, 78, 79, 80,
  81, 82, 83, 84, 85, 86, 87, 88, 89, 90, 97, 98, 99, 100, 101, 102, 103]
/-- the 32 bytes of that block -/
def exBlkBytes : Bytes := [0, 17, 252, 240, 169, 177, 146, 76, 165, 16, 49, 23, 31, 236, 255, 24, 30, 201, 239, 112, 255, 51,
  112, 195, 65, 204, 90, 49, 101, 192, 215, 192]

/-- "h." ++ block ++ "0!0.f." : a bad byte `!` in the body, behind a whole block -/
def exBadByte : Bytes := [104, 46] ++ exBlk ++ [48, 33, 48, 46, 102, 46]
/-- "h." ++ block ++ "0.f." : a final block of one character (an impossible length) -/
def exBadLen : Bytes := [104, 46] ++ exBlk ++ [48, 46, 102, 46]
/-- "h." ++ block ++ ".f" : the footer's period is missing -/
def exNoFooter : Bytes := [104, 46] ++ exBlk ++ [46, 102]
/-- "h." ++ block ++ ".f.!" : garbage behind the footer -/
def exGarbage : Bytes := [104, 46] ++ exBlk ++ [46, 102, 46, 33]
/-- "h." ++ block ++ ".f." : a good message -/
def exGood : Bytes := [104, 46] ++ exBlk ++ [46, 102, 46]

/-- one delivery -/
def oneDelivery (T : Bytes) : Source := [(T, none)]
/-- one byte per delivery -/
def byteWise (T : Bytes) : Source := T.map (fun b => ([b], none))

/-- released bytes and terminal condition -/
def runStack (caps : List Nat) (src : Source) : Bytes × Option Err :=
  let r := readAll Armor.params62 none caps 200 0 (newDecoder src) []
  (r.1, r.2.1)

-- the bounds of the five texts
example : maxRelease Armor.params62 none exBadByte = exBlkBytes ∧ maxRelease Armor.params62 none exBadLen = exBlkBytes ∧
    maxRelease Armor.params62 none exNoFooter = exBlkBytes ∧ maxRelease Armor.params62 none exGarbage = exBlkBytes ∧
    maxRelease Armor.params62 none exGood = exBlkBytes := by decide

-- a bad byte in the body: in ONE delivery read with 64-byte buffers the whole chunk that contains the
-- bad byte is dropped and nothing is released; byte by byte with one-byte buffers the first block is
-- released before the error.  [] <+: the 32 bytes <+: maxRelease.
example : runStack [64] (oneDelivery exBadByte) = ([], some .basexCorrupt) ∧
    runStack [1] (byteWise exBadByte) = (exBlkBytes, some .basexCorrupt) ∧
    runStack [1] (oneDelivery exBadByte) = (exBlkBytes, some .basexCorrupt) := by decide

-- a bad final block length: the whole block is released under every fragmentation
example : runStack [64] (oneDelivery exBadLen) = (exBlkBytes, some .basexBadLen) ∧
    runStack [1] (byteWise exBadLen) = (exBlkBytes, some .basexBadLen) := by decide

-- a missing footer: in one delivery the last body bytes come with the footer check and are dropped
example : runStack [64] (oneDelivery exNoFooter) = ([], some .unexpectedEOF) ∧
    runStack [1] (byteWise exNoFooter) = (exBlkBytes, some .unexpectedEOF) := by decide

-- garbage behind the footer
example : runStack [64] (oneDelivery exGarbage) = ([], some .trailingGarbage) ∧
    runStack [1] (byteWise exGarbage) = (exBlkBytes, some .trailingGarbage) := by decide

-- (B) a fault that arrives only AFTER the footer's closing period, alone and persisting: byte by byte
-- all the payload has been released by then — the read still ends with the fault
example : runStack [1] (byteWise exGood ++ List.replicate 3 ([], some (.err .ioError))) = (exBlkBytes, some .ioError) ∧
    runStack [64] (oneDelivery exGood ++ List.replicate 3 ([], some (.err .ioError))) = ([], some .ioError) := by decide

-- … together with the last data (the closing period), persisting
example : runStack [1] (byteWise (exGood.take 47) ++ [([46], some (.err .ioError))] ++
      List.replicate 3 ([], some (.err .ioError))) = (exBlkBytes, some .ioError) := by decide

-- … transient: one faulting read after the footer, then the script ends normally
example : runStack [1] (byteWise exGood ++ [([], some (.err .ioError)), ([], some .eof)]) = (exBlkBytes, some .ioError) ∧
    runStack [1] (byteWise exGood ++ [([], some .eof)]) = (exBlkBytes, none) := by decide

-- a transient fault inside the body, then the rest of the message delivered normally
example : runStack [7] (byteWise (exGood.take 20) ++ [([], some (.err .ioError))] ++ byteWise (exGood.drop 20)) =
    ([], some .ioError) := by decide

-- WHY `SrcPre` (no empty data-only delivery before the fault): `consumeUntilEOF` takes a `(0, nil)` read
-- behind the message for the end of the input and stops reading — the fault scripted behind it is never
-- asked for, and the read ends cleanly.  (Inside the body such an empty read is harmless.)
example : runStack [1] (byteWise exGood ++ [([], none), ([], some (.err .ioError))]) = (exBlkBytes, none) ∧
    runStack [1] (byteWise (exGood.take 20) ++ [([], none), ([], some (.err .ioError))]) = ([], some .ioError) := by
  decide

-- the theorem instantiated: sticky fault behind the whole message
example : ∃ released e d, readAll Armor.params62 none [3, 1] 60 0
    (newDecoder (byteWise exGood ++ ([], some (.err .ioError)) :: List.replicate 5 ([], some (.err .ioError)))) [] =
      (released, some e, d) ∧ released <+: faultRelease Armor.params62 none (dataOf (byteWise exGood) ++ []) :=
  fault_never_clean_shape Armor.params62 params62_wf none (byteWise exGood) _ [] .ioError (by decide) (by decide)
    [3, 1] (by decide) 60 (by decide)

-- WHY `z ≠ .punctuated`: a source that itself reports saltpack's `ErrPunctuated` (transiently, without
-- data) where the body's closing period should be is taken for that period — "h." "00" <ErrPunctuated>
-- "f." EOF reads as the message "h.00.f." and ends cleanly …
example : (readAll Armor.params62 none [1] 30 0
    (newDecoder [([104, 46], none), ([48, 48], none), ([], some punctErr), ([102, 46], some .eof)]) []).1 = [0] ∧
  (readAll Armor.params62 none [1] 30 0
    (newDecoder [([104, 46], none), ([48, 48], none), ([], some punctErr), ([102, 46], some .eof)]) []).2.1 = none := by
  decide
-- … whereas a PERSISTING `ErrPunctuated` still ends with an error
example : (readAll Armor.params62 none [1] 30 0
    (newDecoder ([([104, 46], none), ([48, 48], none)] ++ List.replicate 9 ([], some punctErr))) []).2.1 =
      some .punctuated := by decide

end Saltpack.Proofs
