/-
  go-codec's typed decoding (Model/Codec.lean) on CANONICAL encodings, the part
  notes/ext-f.md lists as not written: the receivers list, the two headers, the
  V1 / V2 encryption packets, the V2 signature packet, the outer header packet —
  each WITH the reserved extra trailing elements — and from them the BRIDGE:
  on what the model senders emit, `Codec.split*` answers exactly what
  `Wire.split*` answers (same header read, same packet stream).

  Core Lean only.
-/
import Saltpack.Proofs.CodecTypes
import Saltpack.Proofs.CodecBytes
import Saltpack.Proofs.WireRT

namespace Saltpack.Proofs.CodecP
open Saltpack Saltpack.Msgpack Saltpack.Codec Saltpack.Proofs.MsgpackRT

/-! ### slices of encoded elements -/

/-- `n` elements, each the canonical encoding of something `elem` decodes -/
theorem sliceElems_encodeList {α β : Type} (elem : Dec α) (zero : α) (toVal : β → Val) (val : β → α) :
    ∀ (xs : List β),
    (∀ x ∈ xs, ∀ rest, ∃ y t, encode (toVal x) ++ rest = y :: t ∧ y ≠ 0xc0 ∧ elem (y :: t) = .ok (val x, rest)) →
    ∀ (acc : List α) (r : Bytes),
    sliceElems elem zero xs.length acc (encode.encodeList (xs.map toVal) ++ r) = .ok (acc.reverse ++ xs.map val, r)
  | [], _, acc, r => by
    rw [List.map_nil, encodeList_nil, List.length_nil, sliceElems]
    simp [pure_run]
  | x :: xs, hx, acc, r => by
    obtain ⟨y, t, e, ne, hel⟩ := hx x (by simp) (encode.encodeList (xs.map toVal) ++ r)
    rw [List.map_cons, encodeList_cons, List.append_assoc, List.length_cons, sliceElems, e,
      bind_ok (tryNil_other y t ne)]
    simp only [Bool.false_eq_true, if_false]
    rw [bind_ok hel, sliceElems_encodeList elem zero toVal val xs (fun z hz => hx z (by simp [hz])) (val x :: acc) r]
    simp

/-- `kSliceOf` on a canonical array -/
theorem kSliceOf_encode {α β : Type} (elem : Dec α) (zero : α) (toVal : β → Val) (val : β → α) (xs : List β)
    (hlen : xs.length < 2 ^ 32)
    (hx : ∀ x ∈ xs, ∀ rest, ∃ y t, encode (toVal x) ++ rest = y :: t ∧ y ≠ 0xc0 ∧ elem (y :: t) = .ok (val x, rest))
    (r : Bytes) :
    kSliceOf elem zero (encode (.arr (xs.map toVal)) ++ r) = .ok (xs.map val, r) := by
  rw [encode, List.append_assoc, List.length_map]
  obtain ⟨y, t, e, _, ct, _⟩ := arrHdr_obj xs.length hlen (encode.encodeList (xs.map toVal) ++ r)
  have hs := sliceLen_arr xs.length hlen (encode.encodeList (xs.map toVal) ++ r)
  rw [e] at hs
  rw [e, kSliceOf, bind_ok (peek1_cons _ _)]
  simp only [ct]
  rw [bind_ok hs, sliceElems_encodeList elem zero toVal val xs hx [] r]
  rfl

/-! ### the receivers list -/

theorem optBin_field (kid : Option Bytes) (hk : ∀ k, kid = some k → k.length < 2 ^ 32) (st : RecvKeys)
    (r : Bytes) :
    fieldVal (⟨strBytes "receiver_key_id", false, fun r => { r with kid := none },
      fun r => do let b ← decBytesField; pure { r with kid := some b }⟩ : Field RecvKeys) st (encode (optBin kid) ++ r)
      = .ok ({ st with kid := kid }, r) := by
  cases kid with
  | none => exact fieldVal_nil _ st r
  | some k =>
    exact fieldVal_bin _ _ _ (fun (s : RecvKeys) (b : Bytes) => ({ s with kid := some b } : RecvKeys)) st k (hk k rfl) r

theorem decReceiver_encode (fuel rem : Nat) (rk : RecvKeys) (hk : ∀ k, rk.kid = some k → k.length < 2 ^ 32)
    (hb : rk.box.length < 2 ^ 32) (r : Bytes) :
    decReceiver fuel rem (encode rk.toVal ++ r) = .ok (rk, r) := by
  have e1 : encode rk.toVal ++ r = encArrayHdr 2 ++ (encode (optBin rk.kid) ++ (encBin rk.box ++ r)) := by
    rw [RecvKeys.toVal, encode, List.append_assoc, encodeList_cons, encodeList_cons, encodeList_nil,
      List.append_assoc, List.append_nil]
    rfl
  rw [e1, decReceiver, kStruct_arr _ _ _ _ 2 (by decide)]
  rw [recvFields]
  rw [structArr_cons _ _ _ _ _ _ _ _ _ (optBin_field rk.kid hk zeroRecv _),
    structArr_cons _ _ _ _ _ _ _ _ _
      (fieldVal_bin _ _ _ (fun (s : RecvKeys) (b : Bytes) => ({ s with box := b } : RecvKeys)) _ rk.box hb r),
    structArr_zero]

/-- `[]receiverKeys` from the canonical array of `[kid | nil, box]` pairs -/
theorem decReceivers_encode (fuel rem : Nat) (rs : List RecvKeys) (hlen : rs.length < 2 ^ 32)
    (hrs : ∀ rk ∈ rs, (∀ k, rk.kid = some k → k.length < 2 ^ 32) ∧ rk.box.length < 2 ^ 32) (r : Bytes) :
    kSliceOf (decReceiver fuel rem) zeroRecv (encode (.arr (rs.map RecvKeys.toVal)) ++ r) = .ok (rs, r) := by
  have := kSliceOf_encode (decReceiver fuel rem) zeroRecv RecvKeys.toVal id rs hlen (by
    intro rk hrk rest
    obtain ⟨y, t, e, ne, _, _⟩ := arrHdr_obj 2 (by decide)
      (encode.encodeList [optBin rk.kid, .bin rk.box] ++ rest)
    have e1 : encode rk.toVal ++ rest = y :: t := by
      rw [RecvKeys.toVal, encode, List.append_assoc]; exact e
    refine ⟨y, t, e1, ne, ?_⟩
    rw [← e1]
    exact decReceiver_encode fuel rem rk (hrs rk hrk).1 (hrs rk hrk).2 rest) r
  rw [List.map_id] at this
  exact this

/-! ### the two headers -/

/-- bounds on header extras: encodable, at most 99 deep -/
abbrev HeaderExtras := TopExtras

theorem fuel_extras (ex : List Val) (pre r : Bytes) :
    2 * (encode.encodeList ex).length + 1 ≤ fuelFor (pre ++ (encode.encodeList ex ++ r)) := by
  rw [fuelFor]; simp only [List.length_append]; omega

theorem decSigHeader_encode (h : SigHeader) (hf : h.formatName.length < 2 ^ 32)
    (hma : -(2 ^ 63 : Int) ≤ h.version.major ∧ h.version.major < (2 ^ 63 : Int))
    (hmi : -(2 ^ 63 : Int) ≤ h.version.minor ∧ h.version.minor < (2 ^ 63 : Int))
    (ht : -(2 ^ 63 : Int) ≤ h.typ ∧ h.typ < (2 ^ 63 : Int))
    (hpk : h.senderPublic.length < 2 ^ 32) (hn : h.nonce.length < 2 ^ 32)
    (ex : List Val) (hex : TopExtras ex) (hlen : ex.length + 5 < 2 ^ 32) (r : Bytes) :
    decSigHeader (encode (.arr ([.str h.formatName, h.version.toVal, .int h.typ, .bin h.senderPublic, .bin h.nonce] ++ ex)) ++ r)
      = .ok (h, r) := by
  have hl : ([Val.str h.formatName, h.version.toVal, .int h.typ, .bin h.senderPublic, .bin h.nonce] ++ ex).length
      = ex.length + 1 + 1 + 1 + 1 + 1 := by simp
  rw [encode, List.append_assoc, decSigHeader, topStruct_arr _ _ _ (by rw [hl]; omega), hl]
  generalize hfu : fuelFor _ = fuel
  have hfuel : 2 * (encode.encodeList ex).length + 1 ≤ fuel := by
    rw [← hfu, fuelFor]
    simp only [List.length_append, List.cons_append, List.nil_append, encodeList_cons]
    omega
  have hf1 : 1 ≤ fuel := by omega
  show structArr fuel 99 (sigHeaderFields fuel 99) _ _
    (encode.encodeList (Val.str h.formatName :: h.version.toVal :: .int h.typ :: .bin h.senderPublic :: .bin h.nonce :: ex) ++ r) = _
  have hex0 : ExtrasOK [] fuel 99 := ⟨by simp, by rw [encodeList_nil]; simpa using hf1, by rw [depthList_nil]; omega⟩
  have hver : ∀ (v0 : Version) (r' : Bytes), decVersion fuel 99 v0 (encode h.version.toVal ++ r') = .ok (h.version, r') :=
    fun v0 r' => decVersion_encode fuel 99 h.version.major h.version.minor hma hmi [] hex0 (by decide) v0 r'
  have hversF : ∀ (st : SigHeader) (r' : Bytes),
      fieldVal ⟨strBytes "vers", true, fun s => { s with version := ⟨0, 0⟩ },
        fun s => do let v ← decVersion fuel 99 s.version; pure { s with version := v }⟩ st (encode h.version.toVal ++ r')
        = .ok ({ st with version := h.version }, r') := by
    intro st r'
    have hd := hver st.version r'
    have he : encode h.version.toVal ++ r' = encArrayHdr 2 ++ (encode.encodeList [.int h.version.major, .int h.version.minor] ++ r') := by
      rw [Version.toVal, encode, List.append_assoc]; rfl
    obtain ⟨x, t, e, ne, _, _⟩ := arrHdr_obj 2 (by decide) (encode.encodeList [.int h.version.major, .int h.version.minor] ++ r')
    rw [he, e] at hd
    rw [he, e, fieldVal_dec _ _ _ _ ne]
    show (decVersion fuel 99 st.version >>= fun v => pure ({ st with version := v } : SigHeader)) (x :: t) = _
    rw [bind_ok hd]; rfl
  rw [encodeList_cons, encodeList_cons, encodeList_cons, encodeList_cons, encodeList_cons]
  rw [show encode (.str h.formatName) = encStr h.formatName by rw [encode],
    show encode (.int h.typ) = encInt h.typ by rw [encode],
    show encode (.bin h.senderPublic) = encBin h.senderPublic by rw [encode],
    show encode (.bin h.nonce) = encBin h.nonce by rw [encode]]
  simp only [List.append_assoc]
  rw [sigHeaderFields,
    structArr_cons _ _ _ _ _ _ _ _ _ (fieldVal_str _ _ _ (fun (s : SigHeader) (x : Bytes) => ({ s with formatName := x } : SigHeader)) zeroSigHeader h.formatName hf _),
    structArr_cons _ _ _ _ _ _ _ _ _ (hversF _ _),
    structArr_cons _ _ _ _ _ _ _ _ _ (fieldVal_int _ _ _ (fun (s : SigHeader) (i : Int) => ({ s with typ := i } : SigHeader)) _ h.typ ht.1 ht.2 _),
    structArr_cons _ _ _ _ _ _ _ _ _ (fieldVal_bin _ _ _ (fun (s : SigHeader) (x : Bytes) => ({ s with senderPublic := x } : SigHeader)) _ h.senderPublic hpk _),
    structArr_cons _ _ _ _ _ _ _ _ _ (fieldVal_bin _ _ _ (fun (s : SigHeader) (x : Bytes) => ({ s with nonce := x } : SigHeader)) _ h.nonce hn _),
    structArr_extras fuel 99 ex hex.wf _ r hfuel hex.depth]

theorem decEncHeader_encode (h : EncHeader) (hf : h.formatName.length < 2 ^ 32)
    (hma : -(2 ^ 63 : Int) ≤ h.version.major ∧ h.version.major < (2 ^ 63 : Int))
    (hmi : -(2 ^ 63 : Int) ≤ h.version.minor ∧ h.version.minor < (2 ^ 63 : Int))
    (ht : -(2 ^ 63 : Int) ≤ h.typ ∧ h.typ < (2 ^ 63 : Int))
    (he : h.ephemeral.length < 2 ^ 32) (hs : h.senderSecretbox.length < 2 ^ 32)
    (hrl : h.receivers.length < 2 ^ 32)
    (hrs : ∀ rk ∈ h.receivers, (∀ k, rk.kid = some k → k.length < 2 ^ 32) ∧ rk.box.length < 2 ^ 32)
    (ex : List Val) (hex : TopExtras ex) (hlen : ex.length + 6 < 2 ^ 32) (r : Bytes) :
    decEncHeader (encode (.arr ([.str h.formatName, h.version.toVal, .int h.typ, .bin h.ephemeral, .bin h.senderSecretbox,
        .arr (h.receivers.map RecvKeys.toVal)] ++ ex)) ++ r) = .ok (h, r) := by
  have hl : ([Val.str h.formatName, h.version.toVal, .int h.typ, .bin h.ephemeral, .bin h.senderSecretbox,
      .arr (h.receivers.map RecvKeys.toVal)] ++ ex).length = ex.length + 1 + 1 + 1 + 1 + 1 + 1 := by simp
  rw [encode, List.append_assoc, decEncHeader, topStruct_arr _ _ _ (by rw [hl]; omega), hl]
  generalize hfu : fuelFor _ = fuel
  have hfuel : 2 * (encode.encodeList ex).length + 1 ≤ fuel := by
    rw [← hfu, fuelFor]
    simp only [List.length_append, List.cons_append, List.nil_append, encodeList_cons]
    omega
  have hf1 : 1 ≤ fuel := by omega
  show structArr fuel 99 (encHeaderFields fuel 99) _ _
    (encode.encodeList (Val.str h.formatName :: h.version.toVal :: .int h.typ :: .bin h.ephemeral :: .bin h.senderSecretbox ::
      .arr (h.receivers.map RecvKeys.toVal) :: ex) ++ r) = _
  have hex0 : ExtrasOK [] fuel 99 := ⟨by simp, by rw [encodeList_nil]; simpa using hf1, by rw [depthList_nil]; omega⟩
  have hversF : ∀ (st : EncHeader) (r' : Bytes),
      fieldVal ⟨strBytes "vers", true, fun s => { s with version := ⟨0, 0⟩ },
        fun s => do let v ← decVersion fuel 99 s.version; pure { s with version := v }⟩ st (encode h.version.toVal ++ r')
        = .ok ({ st with version := h.version }, r') := by
    intro st r'
    have hd := decVersion_encode fuel 99 h.version.major h.version.minor hma hmi [] hex0 (by decide) st.version r'
    have he : encode h.version.toVal ++ r' = encArrayHdr 2 ++ (encode.encodeList [.int h.version.major, .int h.version.minor] ++ r') := by
      rw [Version.toVal, encode, List.append_assoc]; rfl
    obtain ⟨x, t, e, ne, _, _⟩ := arrHdr_obj 2 (by decide) (encode.encodeList [.int h.version.major, .int h.version.minor] ++ r')
    have hd' : decVersion fuel 99 st.version (x :: t) = .ok (h.version, r') := by rw [← e, ← he]; exact hd
    rw [he, e, fieldVal_dec _ _ _ _ ne]
    show (decVersion fuel 99 st.version >>= fun v => pure ({ st with version := v } : EncHeader)) (x :: t) = _
    rw [bind_ok hd']; rfl
  have hrcvF : ∀ (st : EncHeader) (r' : Bytes),
      fieldVal ⟨strBytes "rcvrs", true, fun s => { s with receivers := [] },
        fun s => do let l ← kSliceOf (decReceiver fuel 99) zeroRecv; pure { s with receivers := l }⟩ st
          (encode (.arr (h.receivers.map RecvKeys.toVal)) ++ r') = .ok ({ st with receivers := h.receivers }, r') := by
    intro st r'
    have hd := decReceivers_encode fuel 99 h.receivers hrl hrs r'
    have he : encode (.arr (h.receivers.map RecvKeys.toVal)) ++ r' =
        encArrayHdr h.receivers.length ++ (encode.encodeList (h.receivers.map RecvKeys.toVal) ++ r') := by
      rw [encode, List.append_assoc, List.length_map]
    obtain ⟨x, t, e, ne, _, _⟩ := arrHdr_obj h.receivers.length hrl (encode.encodeList (h.receivers.map RecvKeys.toVal) ++ r')
    have hd' : kSliceOf (decReceiver fuel 99) zeroRecv (x :: t) = .ok (h.receivers, r') := by rw [← e, ← he]; exact hd
    rw [he, e, fieldVal_dec _ _ _ _ ne]
    show (kSliceOf (decReceiver fuel 99) zeroRecv >>= fun l => pure ({ st with receivers := l } : EncHeader)) (x :: t) = _
    rw [bind_ok hd']; rfl
  rw [encodeList_cons, encodeList_cons, encodeList_cons, encodeList_cons, encodeList_cons, encodeList_cons]
  rw [show encode (.str h.formatName) = encStr h.formatName by rw [encode],
    show encode (.int h.typ) = encInt h.typ by rw [encode],
    show encode (.bin h.ephemeral) = encBin h.ephemeral by rw [encode],
    show encode (.bin h.senderSecretbox) = encBin h.senderSecretbox by rw [encode]]
  simp only [List.append_assoc]
  rw [encHeaderFields,
    structArr_cons _ _ _ _ _ _ _ _ _ (fieldVal_str _ _ _ (fun (s : EncHeader) (x : Bytes) => ({ s with formatName := x } : EncHeader)) zeroEncHeader h.formatName hf _),
    structArr_cons _ _ _ _ _ _ _ _ _ (hversF _ _),
    structArr_cons _ _ _ _ _ _ _ _ _ (fieldVal_int _ _ _ (fun (s : EncHeader) (i : Int) => ({ s with typ := i } : EncHeader)) _ h.typ ht.1 ht.2 _),
    structArr_cons _ _ _ _ _ _ _ _ _ (fieldVal_bin _ _ _ (fun (s : EncHeader) (x : Bytes) => ({ s with ephemeral := x } : EncHeader)) _ h.ephemeral he _),
    structArr_cons _ _ _ _ _ _ _ _ _ (fieldVal_bin _ _ _ (fun (s : EncHeader) (x : Bytes) => ({ s with senderSecretbox := x } : EncHeader)) _ h.senderSecretbox hs _),
    structArr_cons _ _ _ _ _ _ _ _ _ (hrcvF _ _),
    structArr_extras fuel 99 ex hex.wf _ r hfuel hex.depth]

/-! ### authenticators and the encryption packets -/

theorem pad32_of_len {a : Bytes} (h : a.length = 32) : pad32 a = a := by
  unfold pad32
  rw [List.take_append_of_le_length (by omega), List.take_of_length_le (by omega)]

/-- `[]payloadAuthenticator` from the canonical array of 32-byte bins -/
theorem decAuthenticators_encode (fuel rem : Nat) (auths : List Bytes) (hlen : auths.length < 2 ^ 32)
    (h32 : ∀ a ∈ auths, a.length = 32) (r : Bytes) :
    decAuthenticators fuel rem (encode (.arr (auths.map .bin)) ++ r) = .ok (auths, r) := by
  have := kSliceOf_encode (decByteArray32 fuel rem) (zeros 32) Val.bin id auths hlen (by
    intro a ha rest
    obtain ⟨y, t, e, o⟩ := bytesObj_encBin a (by have := h32 a ha; omega) rest
    refine ⟨y, t, by rw [encode]; exact e, o.ne, ?_⟩
    rw [decByteArray32, bind_ok (peek1_cons _ _)]
    simp only [o.ct]
    rw [map_ok o.dec, pad32_of_len (h32 a ha)]
    rfl) r
  rw [List.map_id] at this
  exact this

/-- the authenticator element as `makeEncryptionBlock` writes it: nil for an empty list -/
def authsVal (auths : List Bytes) : Val := if auths.isEmpty then .nil else .arr (auths.map .bin)

theorem fieldVal_auths (fuel rem : Nat) (name : Bytes) (c : Bool) (auths : List Bytes) (hlen : auths.length < 2 ^ 32)
    (h32 : ∀ a ∈ auths, a.length = 32) (st : EncBlock) (r : Bytes) :
    fieldVal ⟨name, c, fun b => { b with auths := [] },
        fun b => do let a ← decAuthenticators fuel rem; pure { b with auths := a }⟩ st (encode (authsVal auths) ++ r)
      = .ok ({ st with auths := auths }, r) := by
  unfold authsVal
  cases auths with
  | nil => exact fieldVal_nil _ st r
  | cons a as =>
    have hd := decAuthenticators_encode fuel rem (a :: as) hlen h32 r
    have he : encode (.arr ((a :: as).map .bin)) ++ r =
        encArrayHdr (a :: as).length ++ (encode.encodeList ((a :: as).map .bin) ++ r) := by
      rw [encode, List.append_assoc, List.length_map]
    obtain ⟨x, t, e, ne, _, _⟩ := arrHdr_obj (a :: as).length hlen (encode.encodeList ((a :: as).map .bin) ++ r)
    have hd' : decAuthenticators fuel rem (x :: t) = .ok (a :: as, r) := by rw [← e, ← he]; exact hd
    simp only [List.isEmpty_cons, Bool.false_eq_true, if_false]
    rw [he, e, fieldVal_dec _ _ _ _ ne]
    show (decAuthenticators fuel rem >>= fun l => pure ({ st with auths := l } : EncBlock)) (x :: t) = _
    rw [bind_ok hd']; rfl

/-- the V1 encryption packet `[authenticators, ctext, extras…]` -/
theorem decEncBlockV1_encode (auths : List Bytes) (hal : auths.length < 2 ^ 32) (h32 : ∀ a ∈ auths, a.length = 32)
    (ct : Bytes) (hct : ct.length < 2 ^ 32) (ex : List Val) (hex : TopExtras ex) (hlen : ex.length + 2 < 2 ^ 32)
    (r : Bytes) :
    decEncBlockV1 (encode (.arr ([authsVal auths, .bin ct] ++ ex)) ++ r) = .ok (⟨auths, ct, false⟩, r) := by
  have hl : ([authsVal auths, Val.bin ct] ++ ex).length = ex.length + 1 + 1 := by simp
  rw [encode, List.append_assoc, decEncBlockV1, topStruct_arr _ _ _ (by rw [hl]; omega), hl]
  generalize hfu : fuelFor _ = fuel
  have hfuel : 2 * (encode.encodeList ex).length + 1 ≤ fuel := by
    rw [← hfu, fuelFor]
    simp only [List.length_append, List.cons_append, List.nil_append, encodeList_cons]
    omega
  show structArr fuel 99 (encBlockV1Fields fuel 99) _ _ (encode.encodeList (authsVal auths :: Val.bin ct :: ex) ++ r) = _
  rw [encodeList_cons, encodeList_cons, show encode (.bin ct) = encBin ct by rw [encode]]
  simp only [List.append_assoc]
  rw [encBlockV1Fields,
    structArr_cons _ _ _ _ _ _ _ _ _ (fieldVal_auths fuel 99 _ _ auths hal h32 zeroEncBlock _),
    structArr_cons _ _ _ _ _ _ _ _ _ (fieldVal_bin _ _ _ (fun (b : EncBlock) (c : Bytes) => ({ b with ct := c } : EncBlock)) _ ct hct _),
    structArr_extras fuel 99 ex hex.wf _ r hfuel hex.depth]
  rfl

/-! ### the V2 blocks (`CodecDecodeSelf` into `[]interface{}{&a, &b, &c}`) -/

theorem selfLoop_zero {σ : Type} (fuel : Nat) (ds : List (σ → Dec σ)) (st : σ) (b : Bytes) :
    selfLoop fuel ds 0 st b = .ok (st, b) := by
  cases ds <;> rfl

theorem selfLoop_cons {σ : Type} (fuel : Nat) (d : σ → Dec σ) (ds : List (σ → Dec σ)) (n : Nat) (st st' : σ)
    (x : UInt8) (t b' : Bytes) (ne : x ≠ 0xc0) (h : d st (x :: t) = .ok (st', b')) :
    selfLoop fuel (d :: ds) (n + 1) st (x :: t) = selfLoop fuel ds n st' b' := by
  rw [selfLoop, bind_ok (tryNil_other x t ne)]
  simp only [Bool.false_eq_true, if_false]
  rw [bind_ok h]

theorem selfLoop_cons_nil {σ : Type} (fuel : Nat) (d : σ → Dec σ) (ds : List (σ → Dec σ)) (n : Nat) (st : σ) (r : Bytes) :
    selfLoop fuel (d :: ds) (n + 1) st (0xc0 :: r) = selfLoop fuel ds n st r := by
  rw [selfLoop, bind_ok (tryNil_c0 r)]
  simp only [if_true]

theorem selfLoop_extras {σ : Type} (fuel : Nat) (ex : List Val) (hall : ∀ v ∈ ex, ValWF v) (st : σ) (r : Bytes)
    (hf : 2 * (encode.encodeList ex).length + 1 ≤ fuel) (hd : depth.depthList ex ≤ 98) :
    selfLoop fuel ([] : List (σ → Dec σ)) ex.length st (encode.encodeList ex ++ r) = .ok (st, r) := by
  cases ex with
  | nil => rw [encodeList_nil]; exact selfLoop_zero fuel [] st _
  | cons v vs =>
    have h := swallowN_encodeList (v :: vs) hall r fuel 98 hf hd
    rw [List.length_cons] at h
    rw [List.length_cons, selfLoop, bind_ok h]
    rfl

theorem topSelfer_arr {σ : Type} (decs : Nat → List (σ → Dec σ)) (zero : σ) (n : Nat) (hn : n < 2 ^ 32) (r : Bytes) :
    topSelfer decs zero (encArrayHdr n ++ r) =
      selfLoop (fuelFor (encArrayHdr n ++ r)) (decs (fuelFor (encArrayHdr n ++ r))) n zero r := by
  show (tryNil >>= fun c => if c = true then pure zero
      else sliceLen >>= fun m => selfLoop (fuelFor (encArrayHdr n ++ r)) (decs (fuelFor (encArrayHdr n ++ r))) m zero)
    (encArrayHdr n ++ r) = _
  rw [bind_ok (tryNil_arr n hn r)]
  simp only [Bool.false_eq_true, if_false]
  rw [bind_ok (sliceLen_arr n hn r)]

/-- extras behind a V2 block: encodable and at most 98 deep (one level is spent on the element slice) -/
structure SelfExtras (ex : List Val) : Prop where
  wf : ∀ v ∈ ex, ValWF v
  depth : depth.depthList ex ≤ 98

/-- the V2 attached-signature packet `[final, signature, chunk, extras…]` -/
theorem decSigBlockV2_encode (f : Bool) (sg ch : Bytes) (hsg : sg.length < 2 ^ 32) (hch : ch.length < 2 ^ 32)
    (ex : List Val) (hex : SelfExtras ex) (hlen : ex.length + 3 < 2 ^ 32) (r : Bytes) :
    decSigBlockV2 (encode (.arr ([.bool f, .bin sg, .bin ch] ++ ex)) ++ r) = .ok (⟨sg, ch, f⟩, r) := by
  have hl : ([Val.bool f, Val.bin sg, Val.bin ch] ++ ex).length = ex.length + 1 + 1 + 1 := by simp
  rw [encode, List.append_assoc, decSigBlockV2, topSelfer_arr _ _ _ (by rw [hl]; omega), hl]
  generalize hfu : fuelFor _ = fuel
  have hfuel : 2 * (encode.encodeList ex).length + 1 ≤ fuel := by
    rw [← hfu, fuelFor]
    simp only [List.length_append, List.cons_append, List.nil_append, encodeList_cons]
    omega
  show selfLoop fuel _ _ _ (encode.encodeList (Val.bool f :: Val.bin sg :: Val.bin ch :: ex) ++ r) = _
  rw [encodeList_cons, encodeList_cons, encodeList_cons, show encode (.bool f) = encBool f by rw [encode],
    show encode (.bin sg) = encBin sg by rw [encode], show encode (.bin ch) = encBin ch by rw [encode]]
  simp only [List.append_assoc]
  obtain ⟨x0, e0, ne0, _, _, hd0⟩ := boolObj f (encBin sg ++ (encBin ch ++ (encode.encodeList ex ++ r)))
  obtain ⟨x1, t1, e1, o1⟩ := bytesObj_encBin sg hsg (encBin ch ++ (encode.encodeList ex ++ r))
  obtain ⟨x2, t2, e2, o2⟩ := bytesObj_encBin ch hch (encode.encodeList ex ++ r)
  rw [e0, selfLoop_cons fuel _ _ _ zeroSigBlock { zeroSigBlock with final := f } x0 _ _ ne0
      (by show (decodeBool >>= fun y => pure ({ zeroSigBlock with final := y } : SigBlock)) _ = _; rw [bind_ok hd0]; rfl),
    e1, selfLoop_cons fuel _ _ _ _ { zeroSigBlock with final := f, sig := sg } x1 t1 _ o1.ne
      (by show (decBytesField >>= fun y => pure ({ ({ zeroSigBlock with final := f } : SigBlock) with sig := y } : SigBlock)) _ = _
          rw [bind_ok (by rw [decBytesField_of_bytes _ _ o1.ct]; exact o1.dec)]; rfl),
    e2, selfLoop_cons fuel _ _ _ _ { zeroSigBlock with final := f, sig := sg, chunk := ch } x2 t2 _ o2.ne
      (by show (decBytesField >>= fun y => pure ({ ({ zeroSigBlock with final := f, sig := sg } : SigBlock) with chunk := y } : SigBlock)) _ = _
          rw [bind_ok (by rw [decBytesField_of_bytes _ _ o2.ct]; exact o2.dec)]; rfl),
    selfLoop_extras fuel ex hex.wf _ r hfuel hex.depth]

/-- the V2 encryption packet `[final, authenticators, ctext, extras…]` -/
theorem decEncBlockV2_encode (f : Bool) (auths : List Bytes) (hal : auths.length < 2 ^ 32)
    (h32 : ∀ a ∈ auths, a.length = 32) (ct : Bytes) (hct : ct.length < 2 ^ 32)
    (ex : List Val) (hex : SelfExtras ex) (hlen : ex.length + 3 < 2 ^ 32) (r : Bytes) :
    decEncBlockV2 (encode (.arr ([.bool f, authsVal auths, .bin ct] ++ ex)) ++ r) = .ok (⟨auths, ct, f⟩, r) := by
  have hl : ([Val.bool f, authsVal auths, Val.bin ct] ++ ex).length = ex.length + 1 + 1 + 1 := by simp
  rw [encode, List.append_assoc, decEncBlockV2, topSelfer_arr _ _ _ (by rw [hl]; omega), hl]
  generalize hfu : fuelFor _ = fuel
  have hfuel : 2 * (encode.encodeList ex).length + 1 ≤ fuel := by
    rw [← hfu, fuelFor]
    simp only [List.length_append, List.cons_append, List.nil_append, encodeList_cons]
    omega
  show selfLoop fuel _ _ _ (encode.encodeList (Val.bool f :: authsVal auths :: Val.bin ct :: ex) ++ r) = _
  rw [encodeList_cons, encodeList_cons, encodeList_cons, show encode (.bool f) = encBool f by rw [encode],
    show encode (.bin ct) = encBin ct by rw [encode]]
  simp only [List.append_assoc]
  obtain ⟨x0, e0, ne0, _, _, hd0⟩ := boolObj f (encode (authsVal auths) ++ (encBin ct ++ (encode.encodeList ex ++ r)))
  obtain ⟨x2, t2, e2, o2⟩ := bytesObj_encBin ct hct (encode.encodeList ex ++ r)
  rw [e0, selfLoop_cons fuel _ _ _ zeroEncBlock { zeroEncBlock with final := f } x0 _ _ ne0
      (by show (decodeBool >>= fun y => pure ({ zeroEncBlock with final := y } : EncBlock)) _ = _; rw [bind_ok hd0]; rfl)]
  -- the authenticators: nil for an empty list, else the array
  have hstep : selfLoop fuel
        [fun b => do let a ← decAuthenticators fuel 97; pure { b with auths := a },
         fun b => do let c ← decBytesField; pure { b with ct := c }] (ex.length + 1 + 1)
        ({ zeroEncBlock with final := f } : EncBlock) (encode (authsVal auths) ++ (encBin ct ++ (encode.encodeList ex ++ r)))
      = selfLoop fuel [fun b => do let c ← decBytesField; pure { b with ct := c }] (ex.length + 1)
          ({ zeroEncBlock with final := f, auths := auths } : EncBlock) (encBin ct ++ (encode.encodeList ex ++ r)) := by
    unfold authsVal
    cases auths with
    | nil => exact selfLoop_cons_nil fuel _ _ _ _ _
    | cons a as =>
      simp only [List.isEmpty_cons, Bool.false_eq_true, if_false]
      have hd := decAuthenticators_encode fuel 97 (a :: as) hal h32 (encBin ct ++ (encode.encodeList ex ++ r))
      have he : encode (.arr ((a :: as).map .bin)) ++ (encBin ct ++ (encode.encodeList ex ++ r)) =
          encArrayHdr (a :: as).length ++ (encode.encodeList ((a :: as).map .bin) ++ (encBin ct ++ (encode.encodeList ex ++ r))) := by
        rw [encode, List.append_assoc, List.length_map]
      obtain ⟨x, t, e, ne, _, _⟩ := arrHdr_obj (a :: as).length hal
        (encode.encodeList ((a :: as).map .bin) ++ (encBin ct ++ (encode.encodeList ex ++ r)))
      have hd' : decAuthenticators fuel 97 (x :: t) = .ok (a :: as, encBin ct ++ (encode.encodeList ex ++ r)) := by
        rw [← e, ← he]; exact hd
      rw [he, e]
      exact selfLoop_cons fuel _ _ _ _ _ x t _ ne
        (by show (decAuthenticators fuel 97 >>= fun l => pure ({ ({ zeroEncBlock with final := f } : EncBlock) with auths := l } : EncBlock)) _ = _
            rw [bind_ok hd']; rfl)
  rw [hstep, e2, selfLoop_cons fuel _ _ _ _ { zeroEncBlock with final := f, auths := auths, ct := ct } x2 t2 _ o2.ne
      (by show (decBytesField >>= fun y => pure ({ ({ zeroEncBlock with final := f, auths := auths } : EncBlock) with ct := y } : EncBlock)) _ = _
          rw [bind_ok (by rw [decBytesField_of_bytes _ _ o2.ct]; exact o2.dec)]; rfl),
    selfLoop_extras fuel ex hex.wf _ r hfuel hex.depth]

/-! ### the outer header packet -/

theorem decBytesTop_headerPacket (hb : Bytes) (hl : hb.length < 2 ^ 32) (r : Bytes) :
    decBytesTop (headerPacket hb ++ r) = .ok (hb, r) := by
  obtain ⟨x, t, e, o⟩ := bytesObj_encBin hb hl r
  rw [headerPacket, e, decBytesTop, bind_ok (tryNil_other x t o.ne)]
  simp only [Bool.false_eq_true, if_false]
  exact o.dec

theorem readHeader_headerPacket {η : Type} (dec : Dec η) (hb : Bytes) (hl : hb.length < 2 ^ 32) (h : η) (r0 : Bytes)
    (hd : dec hb = .ok (h, r0)) (rest : Bytes) :
    Codec.readHeader dec (headerPacket hb ++ rest) = .ok (.ok hb h, rest) := by
  rw [Codec.readHeader, decBytesTop_headerPacket hb hl rest]
  simp only [hd]

end Saltpack.Proofs.CodecP
