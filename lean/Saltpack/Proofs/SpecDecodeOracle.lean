/-
  The oracle entry points (`SpecDecode.encryption`, `.attached`, `.detached`)
  end to end: bytes in, verdict out — completeness on the reference sender's
  bytes, soundness of every acceptance.
-/
import Saltpack.Proofs.SpecDecodeSig
import Saltpack.Toy

namespace Saltpack.Proofs.SDW
open Saltpack Saltpack.Msgpack Saltpack.SpecDecode Saltpack.Proofs
open Saltpack.Spec hiding encode

section
variable (P : Prims)

/-! ### the reference sender's fields are well-formed wire fields -/

theorem planOK_len (layout : Nat) : ∀ (pl : List (Bytes × Bool)) (k : Nat), PlanOK layout k pl →
    ∀ x ∈ pl, x.1.length ≤ 1048576 := by
  intro pl
  induction pl with
  | nil => intro _ _ x hx; cases hx
  | cons a as ih =>
    intro k h x hx
    obtain ⟨c, f⟩ := a
    obtain ⟨h1, _, h3⟩ := h
    rcases List.mem_cons.1 hx with rfl | hx
    · exact h1
    · exact ih (k + 1) h3 x hx

theorem mem_zipIdx_map {α β : Type} (l : List α) (k : Nat) (g : α × Nat → β) (y : β)
    (hy : y ∈ (l.zipIdx k).map g) : ∃ a ∈ l, ∃ i, y = g (a, i) := by
  obtain ⟨⟨a, i⟩, hai, rfl⟩ := List.mem_map.1 hy
  exact ⟨a, (List.mem_zipIdx hai).2.2 ▸ List.getElem_mem _, i, rfl⟩

theorem specEncMsg_wf (hL : P.Lawful) (layout : Nat) (hl : layout = 1 ∨ layout = 2) (sender : Option Bytes)
    (recips : List (Bytes × Bool)) (eph pk : Bytes) (hpk : pk.length = 32) (pl : List (Bytes × Bool))
    (hpl : PlanOK layout 0 pl) (hn : recips.length < 2 ^ 32)
    (hh : (specEncHdr P layout sender (rsOf P recips) eph pk).headerBytes.length < 2 ^ 32) :
    EncMsgWF (specEncMsg P layout sender (rsOf P recips) eph pk pl) := by
  refine ⟨?_, hL.pub_len _, ?_, ?_, ?_, hh, ?_⟩
  · rcases hl with rfl | rfl
    · exact Or.inl rfl
    · exact Or.inr rfl
  · show (P.sbSeal _ _ _).length = 48
    rw [hL.sb_len, hL.pub_len]
  · intro r hr
    obtain ⟨a, ha, i, rfl⟩ := mem_zipIdx_map _ _ _ _ hr
    obtain ⟨x, _, rfl⟩ := List.mem_map.1 ha
    refine ⟨?_, ?_⟩
    · show (P.sbSeal _ _ _).length = 48
      rw [hL.sb_len, hpk]
    · intro k hk
      simp only [specEncRecv] at hk
      split at hk
      · cases hk
      · injection hk with hk
        subst hk
        exact hL.pub_len _
  · show (List.map _ _).length < _
    simp [rsOf, hn]
  · intro p hp
    obtain ⟨a, ha, i, rfl⟩ := mem_zipIdx_map _ _ _ _ hp
    refine ⟨?_, ?_, ?_, ?_⟩
    · intro h1
      have : layout = 1 := by
        have : ((layout : Nat) : Int) = 1 := h1
        omega
      simp [specEncPkt, this]
    · intro x hx
      simp only [specEncPkt, List.mem_map] at hx
      obtain ⟨k, _, rfl⟩ := hx
      rw [List.length_take, hL.hmac_len]
      rfl
    · simp [specEncPkt, rsOf, hn]
    · show (P.sbSeal _ _ _).length < _
      rw [hL.sb_len]
      have := planOK_len layout pl 0 hpl a ha
      omega

/-! ### encryption, end to end -/

/-- the verdict line of the oracle for an accepted encryption message -/
def encSummary (m : EncMsg) (o : EncOpened) : String :=
  s!"plaintext={showB o.chunks.flatten} sender={showB o.senderPub} anon={o.senderPub == m.eph} recipients={",".intercalate (m.recvs.map (fun r => showKid r.kid))}"

theorem encryption_ok_iff (b : Bytes) (secrets : List Bytes) (s : String) :
    encryption P b secrets = .ok s ↔
      ∃ m o, EncMsg.parse b = .ok m ∧ m.check P secrets = .ok o ∧ s = encSummary m o := by
  unfold encryption
  constructor
  · intro h
    split at h
    · cases h
    · rename_i m hm
      split at h
      · cases h
      · rename_i o ho
        injection h with h
        exact ⟨m, o, hm, ho, h.symm⟩
  · rintro ⟨m, o, h1, h2, rfl⟩
    rw [h1]
    simp only
    rw [h2]
    rfl

/-- **completeness of the oracle, encryption**: every message the reference
    sender emits — V1/V2, named or anonymous sender, any recipients (hidden or
    not), any payload key, any legal chunk plan — is accepted, and what is
    decoded is exactly what went in -/
theorem oracle_complete_encryption (hL : P.Lawful) (layout : Nat) (hl : layout = 1 ∨ layout = 2)
    (sender : Option Bytes) (recips : List (Bytes × Bool)) (hne : recips ≠ []) (eph pk : Bytes)
    (hpk : pk.length = 32) (pl : List (Bytes × Bool)) (hpl : PlanOK layout 0 pl) (hpl0 : pl ≠ [])
    (hn : recips.length < 2 ^ 32)
    (hh : (specEncHdr P layout sender (rsOf P recips) eph pk).headerBytes.length < 2 ^ 32) :
    ∃ m, EncMsg.parse (Spec.encodePlan P layout {} sender (rsOf P recips) eph pk pl) = .ok m ∧
      m.check P (recips.map (·.1)) = .ok ⟨pk, P.boxPub (sender.getD eph), pl.map (·.1)⟩ ∧
      m.recvs.map (·.kid) = recips.map (fun x => if x.2 then none else some (P.boxPub x.1)) ∧
      encryption P (Spec.encodePlan P layout {} sender (rsOf P recips) eph pk pl) (recips.map (·.1)) =
        .ok (encSummary m ⟨pk, P.boxPub (sender.getD eph), pl.map (·.1)⟩) := by
  have hwf := specEncMsg_wf P hL layout hl sender recips eph pk hpk pl hpl hn hh
  have hparse := EncMsg.parse_complete _ hwf
  have hcheck := enc_check_complete P hL layout hl sender recips hne eph pk hpk pl hpl hpl0
  rw [← spec_encodePlan_render P layout hl] at hparse
  refine ⟨_, hparse, hcheck, ?_, ?_⟩
  · show List.map _ (List.map _ _) = _
    simp only [rsOf, List.map_map]
    have : ∀ (l : List (Bytes × Bool)) (k : Nat),
        List.map ((fun (x : EncRecv) => x.kid) ∘ fun (x : Encrypt.Recipient × Nat) => specEncRecv P layout eph pk x.2 x.1)
          ((List.map (fun (x : Bytes × Bool) => ({ pub := P.boxPub x.1, hidden := x.2 } : Encrypt.Recipient)) l).zipIdx k) =
        List.map (fun x => if x.2 = true then none else some (P.boxPub x.1)) l := by
      intro l
      induction l with
      | nil => intro k; rfl
      | cons a as ih =>
        intro k
        simp only [List.map_cons, List.zipIdx_cons]
        rw [ih (k + 1)]
        simp [specEncRecv]
    exact this recips 0
  · rw [encryption_ok_iff]
    exact ⟨_, _, hparse, hcheck, rfl⟩

/-- **soundness of the oracle, encryption** (`C08_oracle_sound`): whenever the
    oracle accepts a byte string `b`, `b` is exactly the reference sender's
    output for the values the oracle decoded — payload key, sender, recipients
    (hidden iff shown as such), chunk plan — and that plan obeys the chunk
    rules. -/
theorem oracle_sound_encryption (hL : P.Lawful) (hC : OpenCanonical P) (b : Bytes) (secrets : List Bytes) (s : String)
    (h : encryption P b secrets = .ok s) :
    ∃ (m : EncMsg) (o : EncOpened) (layout : Nat), (layout = 1 ∨ layout = 2) ∧ m.major = layout ∧
      EncMsg.parse b = .ok m ∧ m.check P secrets = .ok o ∧ s = encSummary m o ∧ m.render = b ∧
      PlanOK layout 0 (planOf o.chunks m.pkts) ∧ (planOf o.chunks m.pkts).map (·.1) = o.chunks ∧
      (recipsOf secrets m.recvs).map (·.1) = secrets ∧
      ∀ ephSec senderSec, m.eph = P.boxPub ephSec → o.senderPub = P.boxPub senderSec →
        b = Spec.encodePlan P layout {} (some senderSec) (rsOf P (recipsOf secrets m.recvs)) ephSec
              o.payloadKey (planOf o.chunks m.pkts) := by
  obtain ⟨m, o, hp, hc, rfl⟩ := (encryption_ok_iff P b secrets s).1 h
  obtain ⟨hmaj, _, _, _, hpk⟩ := EncMsg.parse_fields hp
  have hr := EncMsg.parse_sound hp
  obtain ⟨layout, hl, hm⟩ : ∃ layout : Nat, (layout = 1 ∨ layout = 2) ∧ m.major = layout := by
    rcases hmaj with h1 | h2
    · exact ⟨1, Or.inl rfl, h1⟩
    · exact ⟨2, Or.inr rfl, h2⟩
  have hfin : ∀ p ∈ m.pkts, m.major = 1 → p.final = false := fun p hp' => (hpk p hp').1
  -- the plan facts do not need the secrets behind the public keys; take them from the check directly
  have hplan : PlanOK layout 0 (planOf o.chunks m.pkts) ∧ (planOf o.chunks m.pkts).map (·.1) = o.chunks ∧
      (recipsOf secrets m.recvs).map (·.1) = secrets := by
    -- instantiate the structural part of `enc_check_sound` without the key hypotheses
    unfold EncMsg.check at hc
    split at hc
    · cases hc
    · cases hc
    · rename_i pk rest hks
      split at hc
      · cases hc
      · split at hc
        · cases hc
        · split at hc
          · cases hc
          · dsimp only at hc
            split at hc
            · cases hc
            · rename_i chunks hch
              injection hc with hc
              subst hc
              rw [hm] at hch hks
              -- packets: chunk rules only
              have hrules : ∀ (pkts : List EncPkt) (k : Nat) (cs : List Bytes) (hh : Bytes) (mks : List Bytes),
                  encPkts P layout pk hh mks k pkts = .ok cs →
                  PlanOK layout k (planOf cs pkts) ∧ (planOf cs pkts).map (·.1) = cs ∧ cs.length = pkts.length := by
                intro pkts
                induction pkts with
                | nil => intro k cs hh mks h; simp [encPkts] at h; subst h; simp [planOf, PlanOK]
                | cons p ps ih =>
                  intro k cs hh mks h
                  rw [encPkts] at h
                  split at h
                  · cases h
                  · rename_i c hc1
                    split at h
                    · cases h
                    · rename_i cs1 hcs1
                      injection h with h
                      subst h
                      obtain ⟨i2, i3, i4⟩ := ih (k + 1) cs1 hh mks hcs1
                      have e2 : chunkRule layout k ps.isEmpty p.final c = .ok () := by
                        unfold encPkt at hc1
                        split at hc1
                        · cases hc1
                        · split at hc1
                          · cases hc1
                          · split at hc1
                            · cases hc1
                            · rename_i u hu
                              injection hc1 with hc1
                              subst hc1
                              rw [hu]
                      have hemp : (planOf cs1 ps = []) ↔ ps = [] := by
                        cases ps with
                        | nil => simp [planOf]
                        | cons q qs =>
                          cases cs1 with
                          | nil => simp at i4
                          | cons _ _ => simp [planOf]
                      refine ⟨?_, ?_, by simp [i4]⟩
                      · simp only [planOf, List.zipWith_cons_cons, PlanOK]
                        rw [chunkRule_ok_iff] at e2
                        obtain ⟨r1, r2⟩ := e2
                        refine ⟨r1, ?_, i2⟩
                        have hemp' := hemp
                        simp only [planOf] at hemp'
                        rcases hl with rfl | rfl
                        · simp only [show (((1:Nat):Int) = 1) by decide, if_true] at r2 ⊢
                          rw [r2, hemp']; cases ps <;> simp
                        · simp only [show ¬ (((2:Nat):Int) = 1) by decide, show ¬ ((2:Nat) = 1) by decide, if_false] at r2 ⊢
                          obtain ⟨r2a, r2b⟩ := r2
                          rw [hemp']
                          constructor
                          · rw [r2a]; cases ps <;> simp
                          · intro hc0
                            obtain ⟨a, b⟩ := r2b hc0
                            exact ⟨a, List.isEmpty_iff.1 b⟩
                      · simp only [planOf, List.zipWith_cons_cons, List.map_cons]
                        simp only [planOf] at i3
                        rw [i3]
              obtain ⟨q1, q2, _⟩ := hrules _ _ _ _ _ hch
              refine ⟨q1, q2, ?_⟩
              -- recipients: lengths agree
              have hlen : ∀ (recvs : List EncRecv) (secrets : List Bytes) (k : Nat) (ks : List Bytes),
                  encRecvKeys P layout m.eph k recvs secrets = .ok ks → (recipsOf secrets recvs).map (·.1) = secrets := by
                intro recvs
                induction recvs with
                | nil =>
                  intro secrets k ks h
                  cases secrets with
                  | nil => rfl
                  | cons _ _ => simp [encRecvKeys] at h
                | cons r rs ih =>
                  intro secrets k ks h
                  cases secrets with
                  | nil => simp [encRecvKeys] at h
                  | cons sk sks =>
                    rw [encRecvKeys] at h
                    split at h
                    · cases h
                    · split at h
                      · cases h
                      · rename_i ks1 hks1
                        simp only [recipsOf, List.zipWith_cons_cons, List.map_cons]
                        have := ih sks (k + 1) ks1 hks1
                        simp only [recipsOf] at this
                        rw [this]
              exact hlen _ _ _ _ hks
  refine ⟨m, o, layout, hl, hm, hp, hc, rfl, hr, hplan.1, hplan.2.1, hplan.2.2, ?_⟩
  intro ephSec senderSec he hs
  obtain ⟨e1, _⟩ := enc_check_sound P hL hC m secrets o layout hl hm hfin hc ephSec senderSec he hs
  rw [spec_encodePlan_render P layout hl, ← e1, hr]

/-! ### signatures, end to end -/

theorem attached_ok_iff (nl : Nat) (b : Bytes) (s : String) :
    SpecDecode.attached P nl b = .ok s ↔
      ∃ m, AttMsg.parse b = .ok m ∧ m.check P nl = .ok () ∧
        s = s!"plaintext={showB m.plaintext} signer={showB m.signer}" := by
  unfold SpecDecode.attached
  constructor
  · intro h
    split at h
    · cases h
    · rename_i m hm
      split at h
      · cases h
      · rename_i o ho
        injection h with h
        exact ⟨m, hm, ho, h.symm⟩
  · rintro ⟨m, h1, h2, rfl⟩
    rw [h1]
    simp only
    rw [h2]

theorem detached_ok_iff (nl : Nat) (b msg : Bytes) (s : String) :
    SpecDecode.detached P nl b msg = .ok s ↔
      ∃ m, DetMsg.parse b = .ok m ∧ m.check P nl msg = .ok () ∧ s = s!"signer={showB m.signer}" := by
  unfold SpecDecode.detached
  constructor
  · intro h
    split at h
    · cases h
    · rename_i m hm
      split at h
      · cases h
      · rename_i o ho
        injection h with h
        exact ⟨m, hm, ho, h.symm⟩
  · rintro ⟨m, h1, h2, rfl⟩
    rw [h1]
    simp only
    rw [h2]

theorem specAttMsg_wf (hL : P.Lawful) (layout : Nat) (hl : layout = 1 ∨ layout = 2) (signer nonce : Bytes)
    (pl : List (Bytes × Bool)) (hpl : PlanOK layout 0 pl) (hn : nonce.length < 2 ^ 31) :
    AttMsgWF (specAttMsg P layout signer nonce pl) := by
  refine ⟨?_, hL.sigPub_len _, by show nonce.length < _; omega, ?_⟩
  · rcases hl with rfl | rfl
    · exact Or.inl rfl
    · exact Or.inr rfl
  · intro p hp
    obtain ⟨a, ha, i, rfl⟩ := mem_zipIdx_map _ _ _ _ hp
    refine ⟨?_, hL.sig_len _ _, ?_⟩
    · intro h1
      have : layout = 1 := by
        have : ((layout : Nat) : Int) = 1 := h1
        omega
      simp [specAttPkt, this]
    · show a.1.length < _
      have := planOK_len layout pl 0 hpl a ha
      omega

/-- **completeness of the oracle, attached signatures** (nonce of the length asked for) -/
theorem oracle_complete_attached (hL : P.Lawful) (layout : Nat) (hl : layout = 1 ∨ layout = 2) (signer nonce : Bytes)
    (pl : List (Bytes × Bool)) (hpl : PlanOK layout 0 pl) (hpl0 : pl ≠ []) (hn : nonce.length < 2 ^ 31) :
    SpecDecode.attached P nonce.length (Spec.attachedPlan P layout {} signer nonce pl) =
      .ok s!"plaintext={showB (pl.map (·.1)).flatten} signer={showB (P.sigPub signer)}" := by
  have hwf := specAttMsg_wf P hL layout hl signer nonce pl hpl hn
  have hparse := AttMsg.parse_complete _ hwf hn
  obtain ⟨hcheck, hpt⟩ := att_check_complete P hL layout hl signer nonce pl hpl hpl0
  rw [← spec_attachedPlan_render P layout hl] at hparse
  rw [attached_ok_iff]
  refine ⟨_, hparse, hcheck, ?_⟩
  rw [hpt]
  rfl

/-- **completeness of the oracle, detached signatures** -/
theorem oracle_complete_detached (hL : P.Lawful) (layout : Nat) (hl : layout = 1 ∨ layout = 2)
    (signer nonce msg : Bytes) (hn : nonce.length < 2 ^ 31) :
    SpecDecode.detached P nonce.length (Spec.detached P layout {} signer nonce msg) msg =
      .ok s!"signer={showB (P.sigPub signer)}" := by
  have hwf : DetMsgWF (specDetMsg P layout signer nonce msg) := by
    refine ⟨?_, hL.sigPub_len _, by show nonce.length < _; omega, hL.sig_len _ _⟩
    rcases hl with rfl | rfl
    · exact Or.inl rfl
    · exact Or.inr rfl
  have hparse := DetMsg.parse_complete _ hwf hn
  rw [← spec_detached_render P layout] at hparse
  rw [detached_ok_iff]
  exact ⟨_, hparse, det_check_complete P hL layout signer nonce msg, rfl⟩

/-- **soundness of the oracle, attached signatures**: an accepted byte string is
    the reference encoding of the decoded fields; every packet's signature
    verifies under the header's key on exactly the specified input; the chunk
    rules hold; the nonce has the length asked for.  For a scheme with unique
    signatures it is the reference sender's output. -/
theorem oracle_sound_attached (nl : Nat) (b : Bytes) (s : String) (h : SpecDecode.attached P nl b = .ok s) :
    ∃ (m : AttMsg) (layout : Nat), (layout = 1 ∨ layout = 2) ∧ m.major = layout ∧ AttMsg.parse b = .ok m ∧
      m.render = b ∧ m.nonce.length = nl ∧ m.signer.length = 32 ∧ m.pkts ≠ [] ∧
      AttSigsVerify P m.major m.signer (P.hash m.headerBytes) 0 m.pkts ∧
      PlanOK layout 0 (attPlanOf m.pkts) ∧
      (SigCanonical P → ∀ signer, m.signer = P.sigPub signer →
        b = Spec.attachedPlan P layout {} signer m.nonce (attPlanOf m.pkts)) := by
  obtain ⟨m, hp, hc, rfl⟩ := (attached_ok_iff P nl b s).1 h
  obtain ⟨hmaj, hsl, hpk⟩ := AttMsg.parse_fields hp
  have hr := AttMsg.parse_sound hp
  obtain ⟨layout, hl, hm⟩ : ∃ layout : Nat, (layout = 1 ∨ layout = 2) ∧ m.major = layout := by
    rcases hmaj with h1 | h2
    · exact ⟨1, Or.inl rfl, h1⟩
    · exact ⟨2, Or.inr rfl, h2⟩
  obtain ⟨a1, a2, a3, a4⟩ := att_check_sound P m nl layout hl hm hc
  refine ⟨m, layout, hl, hm, hp, hr, a1, hsl, a2, a3, a4, ?_⟩
  intro hS signer hs
  have := att_check_sound_spec P hS m nl layout hl hm (fun p hp' => (hpk p hp').1) hc signer hs
  rw [spec_attachedPlan_render P layout hl, ← this, hr]

/-- **soundness of the oracle, detached signatures** -/
theorem oracle_sound_detached (nl : Nat) (b msg : Bytes) (s : String) (h : SpecDecode.detached P nl b msg = .ok s) :
    ∃ (m : DetMsg) (layout : Nat), (layout = 1 ∨ layout = 2) ∧ m.major = layout ∧ DetMsg.parse b = .ok m ∧
      m.render = b ∧ m.nonce.length = nl ∧ m.signer.length = 32 ∧ m.sig.length = 64 ∧
      P.verify m.signer (sSigDetached ++ P.hash (P.hash m.headerBytes ++ msg)) m.sig = true ∧
      (SigCanonical P → ∀ signer, m.signer = P.sigPub signer →
        b = Spec.detached P layout {} signer m.nonce msg) := by
  obtain ⟨m, hp, hc, rfl⟩ := (detached_ok_iff P nl b msg s).1 h
  obtain ⟨hmaj, hsl, hsg⟩ := DetMsg.parse_fields hp
  have hr := DetMsg.parse_sound hp
  obtain ⟨layout, hl, hm⟩ : ∃ layout : Nat, (layout = 1 ∨ layout = 2) ∧ m.major = layout := by
    rcases hmaj with h1 | h2
    · exact ⟨1, Or.inl rfl, h1⟩
    · exact ⟨2, Or.inr rfl, h2⟩
  obtain ⟨a1, a2⟩ := det_check_sound P m nl msg hc
  refine ⟨m, layout, hl, hm, hp, hr, a1, hsl, hsg, a2, ?_⟩
  intro hS signer hs
  have := det_check_sound_spec P hS m nl msg layout hm hc signer hs
  rw [spec_detached_render P layout, ← this, hr]

end

/-! ### non-vacuity of the hypotheses on the primitives -/

theorem toy_openCanonical : OpenCanonical Toy.prims := by
  intro k n c m h
  simp only [Toy.prims] at h
  split at h
  · rename_i hc
    injection h with h
    subst h
    show c = Toy.tag k n ++ c.drop 16
    rw [← hc.2, List.take_append_drop]
  · cases h

theorem toy_sigCanonical : SigCanonical Toy.prims := by
  intro s m sg h
  simp only [Toy.prims] at h ⊢
  exact eq_of_beq h

end Saltpack.Proofs.SDW
