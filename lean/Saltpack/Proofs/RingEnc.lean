/-
  Encryption round trip, general form (behind Props/C01 and C09):

    * the opener's keyring holds ANY list of box secret keys among which there is
      a recipient's key (position-independent; other recipients' keys and
      foreign keys may be present),
    * the header carries ANY minor version,
    * the header BYTES are arbitrary (the receiver uses them only through their
      hash): whatever bytes the sender hashed — e.g. a header with extra
      trailing elements — as long as the typed view of those bytes is the header.

  `RoundTripEnc.enc_roundtrip` (single-key ring, minor 0, canonical bytes) is the
  special case `enc_roundtrip_of_ring`.
-/
import Saltpack.Proofs.RoundTripEnc
import Saltpack.Proofs.PlanLemmas

namespace Saltpack.Proofs
open Saltpack Saltpack.Encrypt

/-! ### hypotheses -/

/-- authenticated encryption, as far as a keyring with several keys needs it: a
    key of the ring does not open the payload-key box of a *hidden* recipient
    entry that comes before its own entry — for a key that is no recipient's
    key: of any hidden entry.  These are exactly the trial decryptions
    `tryHiddenReceivers` makes before its first genuine success.
    (Not a consequence of `Prims.Lawful`; for NaCl it is the standing assumption
    on `box`.  See `RingNoSpuriousOpen.of_foreign` for the plainer, stronger
    form, and `RingNoSpuriousOpen.single` for the single-key ring.) -/
def RingNoSpuriousOpen (P : Prims) (v : Version) (eph payloadKey : Bytes) (rs : List Recipient)
    (sks : List Bytes) : Prop :=
  ∀ s ∈ sks, ∀ j, j < rs.length → (rs.getD j default).hidden = true →
    (∀ j', j' ≤ j → (rs.getD j' default).pub ≠ P.boxPub s) →
    ∀ n, Nonce.payloadKeyBox v j = .ok n →
      P.unbox s (P.boxPub eph) n (P.box eph (rs.getD j default).pub n payloadKey) = none

/-- the plain form: no key of the ring opens a hidden entry that is not its own -/
theorem RingNoSpuriousOpen.of_foreign {P : Prims} {v : Version} {eph pk : Bytes} {rs : List Recipient}
    {sks : List Bytes}
    (h : ∀ s ∈ sks, ∀ j, j < rs.length → (rs.getD j default).hidden = true →
      (rs.getD j default).pub ≠ P.boxPub s → ∀ n, Nonce.payloadKeyBox v j = .ok n →
        P.unbox s (P.boxPub eph) n (P.box eph (rs.getD j default).pub n pk) = none) :
    RingNoSpuriousOpen P v eph pk rs sks :=
  fun s hs j hj hh hne n hn => h s hs j hj hh (hne j (Nat.le_refl j)) n hn

/-- the single-key ring: `NoSpuriousOpen` is what is needed -/
theorem RingNoSpuriousOpen.single {P : Prims} {v : Version} {eph pk : Bytes} {rs : List Recipient}
    {i : Nat} {sk : Bytes} (hsk : (rs.getD i default).pub = P.boxPub sk)
    (h : NoSpuriousOpen P v eph pk rs i sk) : RingNoSpuriousOpen P v eph pk rs [sk] := by
  intro s hs j _ hh hne n hn
  have hs' : s = sk := by simpa using hs
  subst hs'
  have hji : j < i := by
    by_cases hji : j < i
    · exact hji
    · exact absurd hsk (hne i (by omega))
  exact h j hji hh n hn

/-- an empty ring -/
theorem RingNoSpuriousOpen.nil {P : Prims} {v : Version} {eph pk : Bytes} {rs : List Recipient} :
    RingNoSpuriousOpen P v eph pk rs [] := by
  intro s hs; cases hs

/-- what the receiver needs to know about the header it was handed: the fields
    the sender wrote (`Encrypt.header`), under ANY version with the sender's
    major version -/
structure HdrOK (P : Prims) (v : Version) (sender : Option Bytes) (eph pk : Bytes) (rs : List Recipient)
    (h : EncHeader) : Prop where
  fmt : h.formatName = Gen.c_sp_FormatName
  major : h.version.major = v.major
  typ : h.typ = mtEncryption
  ephPub : h.ephemeral = P.boxPub eph
  ssb : h.senderSecretbox = P.sbSeal pk Nonce.senderKeySecretBox (P.boxPub (sender.getD eph))
  len : h.receivers.length = rs.length
  entry : ∀ j (hj : j < rs.length), ∃ n, Nonce.payloadKeyBox v j = .ok n ∧
      h.receivers[j]? = some ⟨kidSpec rs[j], P.box eph rs[j].pub n pk⟩
  kids : h.receivers.map (·.kid) = rs.map kidSpec

/-- the header the sender model builds, relabelled with another minor version -/
def withMinor (h : EncHeader) (minor : Int) : EncHeader := { h with version := ⟨h.version.major, minor⟩ }

theorem withMinor_self {v : Version} (hv : v = v1 ∨ v = v2) (h : EncHeader) (hh : h.version = v) :
    withMinor h 0 = h := by
  obtain ⟨fn, ver, ty, e, s, r⟩ := h
  simp only at hh
  subst hh
  rcases hv with rfl | rfl <;> rfl

theorem withMinor_eq {v : Version} (h : EncHeader) (hh : h.version = v) (minor : Int) :
    withMinor h minor = { h with version := ⟨v.major, minor⟩ } := by
  subst hh; rfl

theorem hdrOK_of_header (P : Prims) {v : Version} (hv : v = v1 ∨ v = v2) (sender : Option Bytes)
    (eph pk : Bytes) (rs : List Recipient) (h0 : EncHeader)
    (hhdr : header P v sender eph pk rs = .ok h0) (minor : Int) :
    HdrOK P v sender eph pk rs (withMinor h0 minor) := by
  obtain ⟨h1, h2, h3, h4, h5, h6, h7, h8⟩ := header_spec P hv sender eph pk rs h0 hhdr
  exact ⟨h1, by simp [withMinor, h2], h3, h4, h5, h6, h7, h8⟩

theorem payloadKeyBox_major {v w : Version} (h : w.major = v.major) (j : Nat) :
    Nonce.payloadKeyBox w j = Nonce.payloadKeyBox v j := by
  simp only [Nonce.payloadKeyBox, h]

/-! ### the faithful keyring with several keys -/

theorem lookup_ring_aux (P : Prims) (sks : List Bytes) :
    ∀ (kids : List Bytes) (o : Nat), (∃ k ∈ kids, ∃ s ∈ sks, P.boxPub s = k) →
      ∃ idx s, s ∈ sks ∧ kids[idx]? = some (P.boxPub s) ∧
        (lookupList P sks kids o).head? = some (((o + idx : Nat) : Int), s) := by
  intro kids
  induction kids with
  | nil => intro o ⟨k, hk, _⟩; cases hk
  | cons k kids ih =>
    intro o hex
    cases hf : sks.find? (fun s => P.boxPub s == k) with
    | some s =>
      have hmem : s ∈ sks := List.mem_of_find?_eq_some hf
      have hp : P.boxPub s = k := by
        have := List.find?_some hf
        exact beq_iff_eq.1 this
      refine ⟨0, s, hmem, by simp [hp], ?_⟩
      unfold lookupList
      rw [List.zipIdx_cons, List.filterMap_cons]
      simp only [hf, Option.map_some, List.head?_cons, Nat.add_zero]
    | none =>
      have hnone : ∀ s ∈ sks, P.boxPub s ≠ k := by
        intro s hs heq
        have := List.find?_eq_none.1 hf s hs
        exact this (by simp [heq])
      have hex' : ∃ k' ∈ kids, ∃ s ∈ sks, P.boxPub s = k' := by
        obtain ⟨k', hk', s, hs, hsk⟩ := hex
        rcases List.mem_cons.1 hk' with rfl | hk'
        · exact absurd hsk (hnone s hs)
        · exact ⟨k', hk', s, hs, hsk⟩
      obtain ⟨idx, s, hs, h1, h2⟩ := ih (o + 1) hex'
      refine ⟨idx + 1, s, hs, by simpa using h1, ?_⟩
      have : lookupList P sks (k :: kids) o = lookupList P sks kids (o + 1) := by
        unfold lookupList
        rw [List.zipIdx_cons, List.filterMap_cons]
        simp only [hf, Option.map_none]
      rw [this, h2, show o + 1 + idx = o + (idx + 1) by omega]

/-- some key id belongs to a key of the ring: the lookup answers a position that
    carries the id of a ring key, and that key -/
theorem lookup_ring (P : Prims) (sks kids : List Bytes)
    (h : ∃ k ∈ kids, ∃ s ∈ sks, P.boxPub s = k) :
    ∃ (idx : Nat) (s : Bytes), s ∈ sks ∧ kids[idx]? = some (P.boxPub s) ∧
      (faithfulKeyring P sks).lookupBoxSecretKey kids = ((idx : Int), some s) := by
  obtain ⟨idx, s, hs, h1, h2⟩ := lookup_ring_aux P sks kids 0 h
  refine ⟨idx, s, hs, h1, ?_⟩
  rw [fk_lookup, h2, Nat.zero_add]

/-! ### finding an entry -/

theorem hdr_getElem {P : Prims} {v : Version} {sender : Option Bytes} {eph pk : Bytes} {rs : List Recipient}
    {h : EncHeader} (hh : HdrOK P v sender eph pk rs h) (j : Nat) (hj : j < rs.length) :
    ∃ n, Nonce.payloadKeyBox h.version j = .ok n ∧ Nonce.payloadKeyBox v j = .ok n ∧
      ∃ (hjl : j < h.receivers.length), h.receivers[j] = ⟨kidSpec rs[j], P.box eph rs[j].pub n pk⟩ := by
  obtain ⟨n, hn, hej⟩ := hh.entry j hj
  have hjl : j < h.receivers.length := by rw [hh.len]; exact hj
  refine ⟨n, by rw [payloadKeyBox_major hh.major]; exact hn, hn, hjl, ?_⟩
  have := List.getElem?_eq_getElem hjl
  rw [hej] at this
  exact (Option.some.inj this).symm

/-- some *visible* recipient's key is in the ring: the lookup over the named key
    ids finds such an entry, and the ring key opens it -/
theorem tryVisible_ring_hit (P : Prims) (hP : P.Lawful) {v : Version}
    (sender : Option Bytes) (rs : List Recipient) (eph pk : Bytes) (hpk : pk.length = 32)
    (hpub : ∀ r ∈ rs, r.hidden = false → r.pub ≠ [])
    (sks : List Bytes) (h : EncHeader) (hh : HdrOK P v sender eph pk rs h)
    (hex : ∃ i, ∃ (hi : i < rs.length), rs[i].hidden = false ∧ ∃ s ∈ sks, rs[i].pub = P.boxPub s) :
    ∃ log i s, ∃ (hi : i < rs.length), s ∈ sks ∧ rs[i].hidden = false ∧ rs[i].pub = P.boxPub s ∧
      Decrypt.tryVisible P (faithfulKeyring P sks) h (P.boxPub eph) = (log, .ok (some (s, pk, i))) := by
  obtain ⟨i, hi, hhid, s0, hs0, hsk0⟩ := hex
  obtain ⟨n0, _, hei⟩ := hh.entry i hi
  have hvis_i : i ∈ Decrypt.visibleIndices h.receivers :=
    mem_visibleIndices.2 ⟨_, rs[i].pub, hei, by simp [kidSpec, hhid], hpub rs[i] (List.getElem_mem hi) hhid⟩
  have hkid_i : Decrypt.kidOf (h.receivers.getD i default) = rs[i].pub := by
    simp [List.getD_eq_getElem?_getD, hei, Decrypt.kidOf, kidSpec, hhid]
  have hmem : ∃ k ∈ (Decrypt.visibleIndices h.receivers).map
      (fun i => Decrypt.kidOf (h.receivers.getD i default)), ∃ s ∈ sks, P.boxPub s = k :=
    ⟨rs[i].pub, List.mem_map.2 ⟨i, hvis_i, hkid_i⟩, s0, hs0, hsk0.symm⟩
  obtain ⟨idx, s, hs, hidx, hlook⟩ := lookup_ring P sks _ hmem
  rw [List.getElem?_map, Option.map_eq_some_iff] at hidx
  obtain ⟨orig, horig, hg⟩ := hidx
  obtain ⟨e', k', he', hk', hne'⟩ := mem_visibleIndices.1 (List.mem_of_getElem? horig)
  have horig_lt : orig < rs.length := by
    rw [← hh.len]
    exact (List.getElem?_eq_some_iff.1 he').1
  obtain ⟨n, hnv, _, hjl, hget⟩ := hdr_getElem hh orig horig_lt
  have hee : e' = ⟨kidSpec rs[orig], P.box eph rs[orig].pub n pk⟩ := by
    have := List.getElem?_eq_getElem hjl
    rw [he', hget] at this
    exact Option.some.inj this
  subst hee
  obtain ⟨hvis, hko⟩ := kidSpec_visible hk'
  have hpe : rs[orig].pub = P.boxPub s := by
    simp only [List.getD_eq_getElem?_getD, he', Option.getD_some, Decrypt.kidOf, hk'] at hg
    rw [hko, hg]
  have hneg : ¬ ((idx : Int) < 0) := by omega
  have htn : (idx : Int).toNat = idx := by omega
  have hbox : (h.receivers.getD orig default).box = P.box eph (P.boxPub s) n pk := by
    simp [List.getD_eq_getElem?_getD, he', hpe]
  have hlen : (pk.length != 32) = false := by simp [hpk]
  refine ⟨[KeyCall.unbox s (P.boxPub eph) n (P.box eph (P.boxPub s) n pk)], orig, s, horig_lt, hs, hvis, hpe, ?_⟩
  simp only [Decrypt.tryVisible, hlook, hneg, htn, horig, hnv, hbox, unbox_box P hP, hlen,
    if_false, Bool.false_eq_true]

/-- no *visible* recipient's key is in the ring: the lookup finds nothing -/
theorem tryVisible_ring_miss (P : Prims) {v : Version}
    (sender : Option Bytes) (rs : List Recipient) (eph pk : Bytes)
    (sks : List Bytes) (h : EncHeader) (hh : HdrOK P v sender eph pk rs h)
    (hno : ∀ i (hi : i < rs.length), rs[i].hidden = false → ∀ s ∈ sks, rs[i].pub ≠ P.boxPub s) :
    Decrypt.tryVisible P (faithfulKeyring P sks) h (P.boxPub eph) = ([], .ok none) := by
  have hlook : (faithfulKeyring P sks).lookupBoxSecretKey
      ((Decrypt.visibleIndices h.receivers).map (fun i => Decrypt.kidOf (h.receivers.getD i default))) =
      (-1, none) := by
    apply lookup_none
    intro s hs k hk
    rw [named_eq, hh.kids] at hk
    simp only [List.mem_map, List.mem_filter] at hk
    obtain ⟨o, ⟨⟨r, hr, rfl⟩, hvis⟩, rfl⟩ := hk
    cases hhid : r.hidden with
    | true => simp [kidSpec, hhid, visK] at hvis
    | false =>
      obtain ⟨j, hj, hrj⟩ := List.getElem_of_mem hr
      have := hno j hj (by rw [hrj]; exact hhid) s hs
      rw [hrj] at this
      simpa [kidSpec, hhid] using this
  simp only [Decrypt.tryVisible, hlook]

/-- the ring key `s` is the key of the hidden recipient at position `i` and
    opens no hidden entry before it: its walk stops at `i` with the payload key -/
theorem tryHiddenOne_ring_at (P : Prims) (hP : P.Lawful) {v : Version}
    (sender : Option Bytes) (rs : List Recipient) (eph pk : Bytes) (hpk : pk.length = 32)
    (hpub : ∀ r ∈ rs, r.hidden = false → r.pub ≠ [])
    (h : EncHeader) (hh : HdrOK P v sender eph pk rs h)
    (s : Bytes) (i : Nat) (hi : i < rs.length) (hsi : rs[i].pub = P.boxPub s) (hhid : rs[i].hidden = true)
    (hbefore : ∀ j (hj : j < i), rs[j].hidden = true → ∀ n, Nonce.payloadKeyBox v j = .ok n →
      P.unbox s (P.boxPub eph) n (P.box eph rs[j].pub n pk) = none) :
    ∃ log, Decrypt.tryHiddenOne P h.version s (P.boxPub eph) h.receivers.zipIdx = (log, .ok (some (pk, i))) := by
  have hil : i < h.receivers.zipIdx.length := by simp [hh.len, hi]
  obtain ⟨log, hlog⟩ := tryHiddenOne_hit P h.version s (P.boxPub eph) pk hpk h.receivers.zipIdx i hil
    (by
      intro j hj hjh
      have hjl : j < rs.length := by omega
      obtain ⟨n, hnv, hn, hejl, hget⟩ := hdr_getElem hh j hjl
      simp only [List.getElem_zipIdx, Nat.zero_add, hget] at hjh ⊢
      have hjhid : rs[j].hidden = true := by
        cases hh' : rs[j].hidden with
        | true => rfl
        | false =>
          have := hpub rs[j] (List.getElem_mem hjl) hh'
          simp [Decrypt.isHidden, Decrypt.kidOf, kidSpec, hh', this] at hjh
      exact ⟨n, hnv, hbefore j hj hjhid n hn⟩)
    (by
      obtain ⟨n, _, _, heil, hget⟩ := hdr_getElem hh i hi
      simp only [List.getElem_zipIdx, hget]
      simp [Decrypt.isHidden, Decrypt.kidOf, kidSpec, hhid])
    (by
      obtain ⟨n, hnv, _, heil, hget⟩ := hdr_getElem hh i hi
      simp only [List.getElem_zipIdx, Nat.zero_add, hget]
      exact ⟨n, hnv, by rw [hsi]; exact unbox_box P hP s eph n pk⟩)
  simp only [List.getElem_zipIdx, Nat.zero_add] at hlog
  exact ⟨log, hlog⟩

/-- the ring key `s` opens no hidden entry: its walk finds nothing -/
theorem tryHiddenOne_ring_none (P : Prims) {v : Version}
    (sender : Option Bytes) (rs : List Recipient) (eph pk : Bytes)
    (h : EncHeader) (hh : HdrOK P v sender eph pk rs h) (s : Bytes)
    (hall : ∀ j (hj : j < rs.length), rs[j].hidden = true → ∀ n, Nonce.payloadKeyBox v j = .ok n →
      P.unbox s (P.boxPub eph) n (P.box eph rs[j].pub n pk) = none)
    (hpub : ∀ r ∈ rs, r.hidden = false → r.pub ≠ []) :
    ∃ log, Decrypt.tryHiddenOne P h.version s (P.boxPub eph) h.receivers.zipIdx = (log, .ok none) := by
  apply tryHiddenOne_miss
  intro q hq hqh
  obtain ⟨e, j⟩ := q
  rw [List.mem_zipIdx_iff_getElem?] at hq
  simp only at hq hqh ⊢
  have hj : j < rs.length := by
    rw [← hh.len]
    exact (List.getElem?_eq_some_iff.1 hq).1
  obtain ⟨n, hnv, hn, hjl, hget⟩ := hdr_getElem hh j hj
  have he : e = ⟨kidSpec rs[j], P.box eph rs[j].pub n pk⟩ := by
    have := List.getElem?_eq_getElem hjl
    rw [hq, hget] at this
    exact Option.some.inj this
  subst he
  have hjhid : rs[j].hidden = true := by
    cases hh' : rs[j].hidden with
    | true => rfl
    | false =>
      have := hpub rs[j] (List.getElem_mem hj) hh'
      simp [Decrypt.isHidden, Decrypt.kidOf, kidSpec, hh', this] at hqh
  exact ⟨n, hnv, hall j hj hjhid n hn⟩

theorem getD_eq_getElem' {α : Type} [Inhabited α] (l : List α) (j : Nat) (hj : j < l.length) :
    l.getD j default = l[j] := by
  simp [List.getD_eq_getElem?_getD, hj]

/-- every recipient key of the ring belongs to a hidden recipient, and there is
    one: the walk over ring keys × hidden entries stops at a genuine pair -/
theorem tryHidden_ring_hit (P : Prims) (hP : P.Lawful) {v : Version}
    (sender : Option Bytes) (rs : List Recipient) (eph pk : Bytes) (hpk : pk.length = 32)
    (hpub : ∀ r ∈ rs, r.hidden = false → r.pub ≠ [])
    (hnd : (rs.map (·.pub)).Nodup)
    (h : EncHeader) (hh : HdrOK P v sender eph pk rs h) :
    ∀ (sks : List Bytes), RingNoSpuriousOpen P v eph pk rs sks →
      (∀ i (hi : i < rs.length), ∀ s ∈ sks, rs[i].pub = P.boxPub s → rs[i].hidden = true) →
      (∃ i, ∃ (hi : i < rs.length), ∃ s ∈ sks, rs[i].pub = P.boxPub s) →
      ∃ log i s, ∃ (hi : i < rs.length), s ∈ sks ∧ rs[i].hidden = true ∧ rs[i].pub = P.boxPub s ∧
        Decrypt.tryHidden P h (P.boxPub eph) sks = (log, .ok (some (s, pk, i))) := by
  intro sks
  induction sks with
  | nil => intro _ _ ⟨i, hi, s, hs, _⟩; cases hs
  | cons s sks ih =>
    intro hns hhid hex
    by_cases hown : ∃ i, ∃ (hi : i < rs.length), rs[i].pub = P.boxPub s
    · obtain ⟨i, hi, hsi⟩ := hown
      have hih : rs[i].hidden = true := hhid i hi s List.mem_cons_self hsi
      obtain ⟨log, hlog⟩ := tryHiddenOne_ring_at P hP sender rs eph pk hpk hpub h hh s i hi hsi hih
        (by
          intro j hj hjh n hn
          have hjl : j < rs.length := by omega
          have := hns s List.mem_cons_self j hjl (by rw [getD_eq_getElem' rs j hjl]; exact hjh)
            (by
              intro j' hj' heq
              have hj'l : j' < rs.length := by omega
              rw [getD_eq_getElem' rs j' hj'l, ← hsi] at heq
              have : j' = i := by
                apply (List.getElem?_inj (by simpa using hj'l) hnd).1
                simp [hj'l, hi, heq]
              omega) n hn
          rwa [getD_eq_getElem' rs j hjl] at this)
      refine ⟨KeyCall.precompute s (P.boxPub eph) :: log, i, s, hi, List.mem_cons_self, hih, hsi, ?_⟩
      simp only [Decrypt.tryHidden, hlog]
    · have hnot : ∀ j (hj : j < rs.length), rs[j].pub ≠ P.boxPub s := fun j hj heq => hown ⟨j, hj, heq⟩
      obtain ⟨log1, hlog1⟩ := tryHiddenOne_ring_none P sender rs eph pk h hh s
        (by
          intro j hj hjh n hn
          have := hns s List.mem_cons_self j hj (by rw [getD_eq_getElem' rs j hj]; exact hjh)
            (by
              intro j' hj'
              have hj'l : j' < rs.length := by omega
              rw [getD_eq_getElem' rs j' hj'l]
              exact hnot j' hj'l) n hn
          rwa [getD_eq_getElem' rs j hj] at this) hpub
      have hex' : ∃ i, ∃ (hi : i < rs.length), ∃ s' ∈ sks, rs[i].pub = P.boxPub s' := by
        obtain ⟨i, hi, s', hs', hsi⟩ := hex
        rcases List.mem_cons.1 hs' with rfl | hs'
        · exact absurd hsi (hnot i hi)
        · exact ⟨i, hi, s', hs', hsi⟩
      obtain ⟨log2, i, s', hi, hs', hih, hsi, hlog2⟩ := ih
        (fun s' hs' => hns s' (List.mem_cons_of_mem _ hs'))
        (fun i hi s' hs' => hhid i hi s' (List.mem_cons_of_mem _ hs')) hex'
      refine ⟨(KeyCall.precompute s (P.boxPub eph) :: log1) ++ log2, i, s', hi, List.mem_cons_of_mem _ hs',
        hih, hsi, ?_⟩
      simp only [Decrypt.tryHidden, hlog1, hlog2]

/-! ### the whole header -/

theorem validate_ok_major (v : Version) (hv : v = v1 ∨ v = v2) (h : EncHeader)
    (h1 : h.formatName = Gen.c_sp_FormatName) (h2 : h.version.major = v.major) (h3 : h.typ = mtEncryption) :
    Decrypt.validate knownMajor h = .ok () := by
  have hk : knownMajor h.version = true := by
    unfold knownMajor
    rw [h2]
    rcases hv with rfl | rfl <;> rfl
  simp [Decrypt.validate, h1, h3, hk]

theorem macKeyReceiver_major (P : Prims) {v w : Version} (h : w.major = v.major) (idx : Nat)
    (sk pub ePub hh : Bytes) :
    Decrypt.macKeyReceiver P w idx sk pub ePub hh = Decrypt.macKeyReceiver P v idx sk pub ePub hh := by
  simp only [Decrypt.macKeyReceiver, h]

/-- the MKI a receiver reports when it opened the message as recipient `i` with
    the ring key `sk` -/
def mkiOf (P : Prims) (sender : Option Bytes) (rs : List Recipient) (eph : Bytes) (i : Nat) (sk : Bytes) : MKI :=
  { senderKey := P.boxPub (sender.getD eph), senderIsAnon := sender.isNone,
    receiverKey := sk, receiverIsAnon := (rs.getD i default).hidden,
    namedReceivers := (rs.filter (fun r => !r.hidden)).map (·.pub),
    numAnonReceivers := if (rs.getD i default).hidden then (rs.filter (·.hidden)).length else 0 }

/-- header processing with a ring that holds a recipient's key: it succeeds as
    SOME recipient position `i` with SOME ring key `sk` whose public key is that
    recipient's -/
theorem processHeader_ring (P : Prims) (hP : P.Lawful) {v : Version} (hv : v = v1 ∨ v = v2)
    (sender : Option Bytes) (rs : List Recipient) (eph pk : Bytes) (hpk : pk.length = 32)
    (hnamed : ∀ s, sender = some s → P.boxPub s ≠ P.boxPub eph)
    (hpub : ∀ r ∈ rs, r.hidden = false → r.pub ≠ [])
    (hnd : (rs.map (·.pub)).Nodup)
    (sks : List Bytes) (hns : RingNoSpuriousOpen P v eph pk rs sks)
    (hex : ∃ i, ∃ (hi : i < rs.length), ∃ s ∈ sks, rs[i].pub = P.boxPub s)
    (h : EncHeader) (hh : HdrOK P v sender eph pk rs h) (hhash : Bytes) :
    ∃ log i sk, ∃ (hi : i < rs.length), sk ∈ sks ∧ rs[i].pub = P.boxPub sk ∧
      ∀ mk, macKeySender P v i (sender.getD eph) eph rs[i].pub hhash = .ok mk →
        Decrypt.processHeader P knownMajor (faithfulKeyring P sks) hhash h =
          (log, .ok { version := h.version, payloadKey := pk, headerHash := hhash, macKey := mk, position := i,
                      mki := mkiOf P sender rs eph i sk }) := by
  have hval := validate_ok_major v hv h hh.fmt hh.major hh.typ
  have hnamedR : (Decrypt.visibleIndices h.receivers).map
      (fun i => Decrypt.kidOf (h.receivers.getD i default)) =
      (rs.filter (fun r => !r.hidden)).map (·.pub) := by
    rw [named_eq, hh.kids, named_of_spec rs hpub]
  have hcount : (h.receivers.filter Decrypt.isHidden).length = (rs.filter (·.hidden)).length := by
    rw [hiddenCount_eq, hh.kids, hiddenCount_of_spec rs hpub]
  have hsb : P.sbOpen pk Nonce.senderKeySecretBox h.senderSecretbox = some (P.boxPub (sender.getD eph)) := by
    rw [hh.ssb, hP.sb_open_seal]
  have hslen : ((P.boxPub (sender.getD eph)).length != 32) = false := by simp [hP.pub_len]
  have hsender : ∀ (anon : Bool), anon = (P.boxPub eph == P.boxPub (sender.getD eph)) →
      anon = sender.isNone ∧
      (if anon = true then some (P.boxPub eph) else some (P.boxPub (sender.getD eph))) =
        some (P.boxPub (sender.getD eph)) := by
    intro anon ha
    cases sender with
    | none => simp at ha; subst ha; simp
    | some s =>
      have := hnamed s rfl
      have hf : (P.boxPub eph == P.boxPub s) = false := by
        simp; exact fun h => this h.symm
      simp [hf] at ha; subst ha; simp
  obtain ⟨hanon, hsp⟩ := hsender _ rfl
  by_cases hvis : ∃ i, ∃ (hi : i < rs.length), rs[i].hidden = false ∧ ∃ s ∈ sks, rs[i].pub = P.boxPub s
  · obtain ⟨log1, i, sk, hi, hsk, hhid, hpe, htv⟩ :=
      tryVisible_ring_hit P hP sender rs eph pk hpk hpub sks h hh hvis
    refine ⟨log1 ++ [] ++ (Decrypt.macKeyReceiver P v i sk (P.boxPub (sender.getD eph)) (P.boxPub eph) hhash).1,
      i, sk, hi, hsk, hpe, ?_⟩
    intro mk hmk
    rw [hpe] at hmk
    obtain ⟨log3, hmac⟩ := macKey_agree P hP hv i (sender.getD eph) eph sk hhash mk hmk
    have hgd : (rs.getD i default).hidden = false := by rw [getD_eq_getElem' rs i hi]; exact hhid
    simp only [Decrypt.processHeader, hval, fk_import, fk_lookupPub, hh.ephPub, htv, hsb, hslen, hsp, ← hanon,
      macKeyReceiver_major P hh.major, hmac, hnamedR, Bool.false_eq_true, if_false, mkiOf, hgd]
  · have hno : ∀ i (hi : i < rs.length), rs[i].hidden = false → ∀ s ∈ sks, rs[i].pub ≠ P.boxPub s :=
      fun i hi hf s hs heq => hvis ⟨i, hi, hf, s, hs, heq⟩
    have htv := tryVisible_ring_miss P sender rs eph pk sks h hh hno
    have hhid : ∀ i (hi : i < rs.length), ∀ s ∈ sks, rs[i].pub = P.boxPub s → rs[i].hidden = true := by
      intro i hi s hs heq
      cases hc : rs[i].hidden with
      | true => rfl
      | false => exact absurd heq (hno i hi hc s hs)
    obtain ⟨log2, i, sk, hi, hsk, hih, hpe, hth⟩ :=
      tryHidden_ring_hit P hP sender rs eph pk hpk hpub hnd h hh sks hns hhid hex
    refine ⟨[] ++ log2 ++ (Decrypt.macKeyReceiver P v i sk (P.boxPub (sender.getD eph)) (P.boxPub eph) hhash).1,
      i, sk, hi, hsk, hpe, ?_⟩
    intro mk hmk
    rw [hpe] at hmk
    obtain ⟨log3, hmac⟩ := macKey_agree P hP hv i (sender.getD eph) eph sk hhash mk hmk
    have hgd : (rs.getD i default).hidden = true := by rw [getD_eq_getElem' rs i hi]; exact hih
    simp only [Decrypt.processHeader, hval, fk_import, fk_lookupPub, fk_all, hh.ephPub, htv, hth, hsb, hslen, hsp,
      ← hanon, macKeyReceiver_major P hh.major, hmac, hnamedR, hcount, Bool.false_eq_true, if_false, if_true,
      mkiOf, hgd]

/-! ### the payload packets: only the major version matters -/

theorem payloadHash_major (P : Prims) {v w : Version} (h : w.major = v.major) (hh n ct : Bytes) (f : Bool) :
    payloadHash P w hh n ct f = payloadHash P v hh n ct f := by
  simp only [payloadHash, h]

theorem checkChunkState_major {v w : Version} (h : w.major = v.major) (len idx : Nat) (f : Bool) :
    checkChunkState w len idx f = checkChunkState v len idx f := by
  simp only [checkChunkState, h]

theorem blockFinal_major {v w : Version} (h : w.major = v.major) (b : EncBlock) :
    Decrypt.blockFinal w b = Decrypt.blockFinal v b := by
  simp only [Decrypt.blockFinal, h]

/-- the payload run looks at the major version only -/
theorem dec_run_major (P : Prims) (st : Decrypt.State) (v : Version) (hm : st.version.major = v.major) (tail : Tail) :
    ∀ (items : List (Option EncBlock)) (n : Nat),
      Decrypt.run P st items tail n = Decrypt.run P { st with version := v } items tail n := by
  intro items
  induction items with
  | nil => intro n; rfl
  | cons it rest ih =>
    intro n
    cases it with
    | none => rfl
    | some b =>
      have hp : ∀ f, Decrypt.processBlock P st b f n = Decrypt.processBlock P { st with version := v } b f n := by
        intro f
        simp only [Decrypt.processBlock, payloadHash_major P hm]
      simp only [Decrypt.run, hp, blockFinal_major hm, checkChunkState_major hm, ih]

/-! ### the general round trip -/

/-- **What a spec-following encryption sender puts on the wire**, relationally:
    for the recipients `rs` (in header order), ephemeral secret `eph`, payload key
    `pk`, chunk plan `plan`, major version of `v` and ANY `minor`: a header whose
    fields are the ones `Encrypt.header` computes, relabelled `[major, minor]`;
    ANY header bytes `hb` (the sender hashes the bytes it sends; the receiver is
    handed the same bytes, and their typed view `h`); MAC keys and payload
    packets computed from the hash of those bytes.
    `Encrypt.sealPacketsPlan` (hence `Encrypt.sealPackets`, i.e. `Seal`) is the
    instance `minor = 0`, `hb = encode h.toVal` (`encSent_of_sealPacketsPlan`);
    the reference sender `Spec.encodePlan` with its `Opts` extras is another
    (Proofs/ExtrasRT). -/
structure EncSent (P : Prims) (v : Version) (minor : Int) (sender : Option Bytes) (rs : List Recipient)
    (eph pk : Bytes) (plan : List (Bytes × Bool)) (h : EncHeader) (hb : Bytes) (blks : List EncBlock) : Prop where
  recv : checkReceivers rs = .ok ()
  hdr : ∃ h0, header P v sender eph pk rs = .ok h0 ∧ h = withMinor h0 minor
  blocks : ∃ mks, macKeysSender P v (sender.getD eph) eph (P.hash hb) rs 0 = .ok mks ∧
    blockStructs P v pk (P.hash hb) mks plan 0 = .ok blks

theorem encSent_of_sealPacketsPlan (P : Prims) {v : Version} (hv : v = v1 ∨ v = v2) (sender : Option Bytes)
    (rs : List Recipient) (eph pk : Bytes) (plan : List (Bytes × Bool))
    (h : EncHeader) (hb : Bytes) (blks : List EncBlock)
    (hseal : sealPacketsPlan P v sender rs eph pk plan = .ok (h, hb, blks)) :
    EncSent P v 0 sender rs eph pk plan h hb blks := by
  obtain ⟨hcr, hhdr, mks, hm, hbl⟩ := PlanL.sealPacketsPlan_inv P v sender rs eph pk plan h hb blks hseal
  have hver := (header_spec P hv sender eph pk rs h hhdr).2.1
  exact ⟨hcr, ⟨h, hhdr, (withMinor_self hv h hver).symm⟩, mks, hm, hbl⟩

/-- **Encryption round trip, general form**: any ring holding a recipient's key,
    any minor version, any header bytes, any valid chunk plan.  The message opens
    to the concatenation of the chunks, with the true sender, *as some recipient
    position `i'` whose key `sk'` is in the ring* (which one: the first visible
    recipient, in header order, whose key is in the ring; failing that the first
    ring key, in ring order, that belongs to a hidden recipient). -/
theorem enc_roundtrip_ring (P : Prims) (hP : P.Lawful)
    (v : Version) (hv : v = v1 ∨ v = v2) (minor : Int)
    (sender : Option Bytes) (rs : List Recipient) (eph payloadKey : Bytes)
    (plan : List (Bytes × Bool)) (hplan : PlanL.FinalLast plan)
    (he1 : v = v1 → ∀ p ∈ plan, (p.1 = [] ↔ p.2 = true)) (he2 : v = v2 → PlanL.EmptySole plan)
    (hpk : payloadKey.length = 32)
    (hnamed : ∀ s, sender = some s → P.boxPub s ≠ P.boxPub eph)
    (hpub : ∀ r ∈ rs, r.hidden = false → r.pub ≠ [])
    (sks : List Bytes) (i : Nat) (hi : i < rs.length) (sk : Bytes) (hmem : sk ∈ sks)
    (hsk : (rs.getD i default).pub = P.boxPub sk)
    (hns : RingNoSpuriousOpen P v eph payloadKey rs sks)
    (h : EncHeader) (hb : Bytes) (blks : List EncBlock)
    (hsent : EncSent P v minor sender rs eph payloadKey plan h hb blks) :
    ∃ i' sk', i' < rs.length ∧ sk' ∈ sks ∧ (rs.getD i' default).pub = P.boxPub sk' ∧
      Decrypt.openAll P knownMajor (faithfulKeyring P sks) (.ok hb h) ⟨blks.map some, .eof⟩ =
        .ok (mkiOf P sender rs eph i' sk', (plan.map (·.1)).flatten) := by
  obtain ⟨hcr, ⟨h0, hhdr, rfl⟩, mks, hm, hbl⟩ := hsent
  obtain ⟨_, hnd⟩ := checkReceivers_inv hcr
  have hh := hdrOK_of_header P hv sender eph payloadKey rs h0 hhdr minor
  rw [getD_eq_getElem' rs i hi] at hsk
  obtain ⟨log, i', sk', hi', hsk', hpe, hph⟩ := processHeader_ring P hP hv sender rs eph payloadKey hpk hnamed hpub
    hnd sks hns ⟨i, hi, sk, hmem, hsk⟩ (withMinor h0 minor) hh (P.hash hb)
  obtain ⟨mks', hm', _, hmp⟩ := macKeysSender_spec P hv (sender.getD eph) eph (P.hash hb) rs 0
  rw [hm] at hm'
  cases hm'
  obtain ⟨mk, hmk, hmki⟩ := hmp i' hi'
  rw [Nat.zero_add] at hmk
  have hph' := hph mk hmk
  refine ⟨i', sk', hi', hsk', by rw [getD_eq_getElem' rs i' hi']; exact hpe, ?_⟩
  have hrun := PlanL.run_roundtrip_plan P hP hv plan hplan he1 he2
    { version := v, payloadKey := payloadKey, headerHash := P.hash hb, macKey := mk, position := i',
      mki := mkiOf P sender rs eph i' sk' }
    rfl mks hmki blks hbl
  have hrun' := dec_run_major P
    { version := (withMinor h0 minor).version, payloadKey := payloadKey, headerHash := P.hash hb, macKey := mk,
      position := i', mki := mkiOf P sender rs eph i' sk' } v hh.major .eof (blks.map some) 1
  simp only [Decrypt.openAll, Decrypt.openStream, hph', hrun', hrun]

/-- **…and when the ring holds the key of ONE recipient only** (all its other
    keys are foreign), the key information is exactly the one of the single-key
    theorem: that recipient's position, hidden flag and secret key. -/
theorem enc_roundtrip_ring_unique (P : Prims) (hP : P.Lawful)
    (v : Version) (hv : v = v1 ∨ v = v2) (minor : Int)
    (sender : Option Bytes) (rs : List Recipient) (eph payloadKey : Bytes)
    (plan : List (Bytes × Bool)) (hplan : PlanL.FinalLast plan)
    (he1 : v = v1 → ∀ p ∈ plan, (p.1 = [] ↔ p.2 = true)) (he2 : v = v2 → PlanL.EmptySole plan)
    (hpk : payloadKey.length = 32)
    (hnamed : ∀ s, sender = some s → P.boxPub s ≠ P.boxPub eph)
    (hpub : ∀ r ∈ rs, r.hidden = false → r.pub ≠ [])
    (sks : List Bytes) (i : Nat) (hi : i < rs.length) (sk : Bytes) (hmem : sk ∈ sks)
    (hsk : (rs.getD i default).pub = P.boxPub sk)
    (honly : ∀ s ∈ sks, ∀ j, j < rs.length → (rs.getD j default).pub = P.boxPub s → j = i ∧ s = sk)
    (hns : RingNoSpuriousOpen P v eph payloadKey rs sks)
    (h : EncHeader) (hb : Bytes) (blks : List EncBlock)
    (hsent : EncSent P v minor sender rs eph payloadKey plan h hb blks) :
    Decrypt.openAll P knownMajor (faithfulKeyring P sks) (.ok hb h) ⟨blks.map some, .eof⟩ =
      .ok (mkiOf P sender rs eph i sk, (plan.map (·.1)).flatten) := by
  obtain ⟨i', sk', hi', hsk', hpe, hopen⟩ := enc_roundtrip_ring P hP v hv minor sender rs eph payloadKey plan hplan
    he1 he2 hpk hnamed hpub sks i hi sk hmem hsk hns h hb blks hsent
  obtain ⟨rfl, rfl⟩ := honly sk' hsk' i' hi' hpe
  exact hopen

/-- the single-key ring meets `honly` (recipient keys are pairwise distinct) -/
theorem honly_single (P : Prims) (rs : List Recipient) (hnd : (rs.map (·.pub)).Nodup)
    (i : Nat) (hi : i < rs.length) (sk : Bytes) (hsk : (rs.getD i default).pub = P.boxPub sk) :
    ∀ s ∈ [sk], ∀ j, j < rs.length → (rs.getD j default).pub = P.boxPub s → j = i ∧ s = sk := by
  intro s hs j hj heq
  have hs' : s = sk := by simpa using hs
  subst hs'
  refine ⟨?_, rfl⟩
  rw [getD_eq_getElem' rs j hj, ← hsk, getD_eq_getElem' rs i hi] at heq
  apply (List.getElem?_inj (by simpa using hj) hnd).1
  simp [hj, hi, heq]

end Saltpack.Proofs
