/-
  The strict reference decoder against the reference SENDER, attached and
  detached signatures V1/V2 (header nonce of ANY length: its length is the
  parameter `nonceLen` of the check — the specification says 32, the library
  draws 16, known finding D10).
-/
import Saltpack.Proofs.SpecDecodeEnc

namespace Saltpack.Proofs.SDW
open Saltpack Saltpack.Msgpack Saltpack.SpecDecode Saltpack.Proofs
open Saltpack.Spec hiding encode

section
variable (P : Prims)

/-- verification accepts only the signature `sign` produces.  An IDEALISATION:
    true of `Toy.prims`, but real Ed25519 does NOT satisfy it for a key holder
    (who can make other verifying `(R, S)` pairs for the same message) — so with
    the real primitives only the field-level conjuncts of the soundness theorems
    apply.  Used ONLY for the `= reference sender` corollaries, never for the
    field-level theorems, which hold without it. -/
def SigCanonical (P : Prims) : Prop := ∀ s m sg, P.verify (P.sigPub s) m sg = true → sg = P.sign s m

def specAttPkt (layout : Nat) (signer hh : Bytes) (i : Nat) (c : Bytes) (f : Bool) : AttPkt :=
  ⟨if layout = 1 then false else f,
   P.sign signer (sSigAttached ++ (if layout = 1 then P.hash (hh ++ be64 i ++ c) else P.hash (hh ++ be64 i ++ sFinal f ++ c))),
   c⟩

def specAttMsg (layout : Nat) (signer nonce : Bytes) (pl : List (Bytes × Bool)) : AttMsg :=
  let m0 : AttMsg := ⟨layout, P.sigPub signer, nonce, []⟩
  { m0 with pkts := pl.zipIdx.map (fun (cf, i) => specAttPkt P layout signer (P.hash m0.headerBytes) i cf.1 cf.2) }

theorem sigFields_spec (layout : Nat) (mode : Int) (pk nonce : Bytes) :
    Msgpack.encode (.arr (sigFields layout mode pk nonce)) = sigHeaderBytes layout {} mode pk nonce := by
  unfold sigFields sigHeaderBytes commonVals versionVal
  simp

theorem specAttPkt_encode (layout : Nat) (hl : layout = 1 ∨ layout = 2) (signer hh : Bytes) (i : Nat) (c : Bytes) (f : Bool) :
    Msgpack.encode ((specAttPkt P layout signer hh i c f).toVal layout) = attPacket P layout {} signer hh i c f := by
  unfold specAttPkt AttPkt.toVal attPacket
  rcases hl with rfl | rfl <;> simp

/-- the reference sender's attached signature is the reference encoding of explicit wire fields -/
theorem spec_attachedPlan_render (layout : Nat) (hl : layout = 1 ∨ layout = 2) (signer nonce : Bytes)
    (pl : List (Bytes × Bool)) :
    Spec.attachedPlan P layout {} signer nonce pl = (specAttMsg P layout signer nonce pl).render := by
  unfold AttMsg.render joinMsg attachedPlan
  have hh : Msgpack.encode (.arr (specAttMsg P layout signer nonce pl).fields) =
      sigHeaderBytes layout {} sModeAttached (P.sigPub signer) nonce := sigFields_spec layout _ _ _
  rw [hh]
  refine congrArg (fun t => encBin (sigHeaderBytes layout {} sModeAttached (P.sigPub signer) nonce) ++ t) ?_
  simp only [AttMsg.packets, specAttMsg, List.flatMap_map]
  apply flatMap_congr'
  intro a _
  obtain ⟨⟨c, f⟩, i⟩ := a
  simp only [AttMsg.headerBytes, AttMsg.fields]
  rw [sigFields_spec]
  exact (specAttPkt_encode P layout hl _ _ _ _ _).symm

def specDetMsg (layout : Nat) (signer nonce msg : Bytes) : DetMsg :=
  let m0 : DetMsg := ⟨layout, P.sigPub signer, nonce, []⟩
  { m0 with sig := P.sign signer (sSigDetached ++ P.hash (P.hash m0.headerBytes ++ msg)) }

theorem spec_detached_render (layout : Nat) (signer nonce msg : Bytes) :
    Spec.detached P layout {} signer nonce msg = (specDetMsg P layout signer nonce msg).render := by
  unfold DetMsg.render joinMsg Spec.detached
  have hh : Msgpack.encode (.arr (specDetMsg P layout signer nonce msg).fields) =
      sigHeaderBytes layout {} sModeDetached (P.sigPub signer) nonce := sigFields_spec layout _ _ _
  rw [hh]
  simp only [specDetMsg, DetMsg.headerBytes, DetMsg.fields, List.flatMap_cons, List.flatMap_nil, List.append_nil]
  rw [sigFields_spec, encode_bin]

/-! ### completeness of the cryptographic layer -/

theorem attPkts_spec (hL : P.Lawful) (layout : Nat) (hl : layout = 1 ∨ layout = 2) (signer hh : Bytes) :
    ∀ (pl : List (Bytes × Bool)) (k : Nat), PlanOK layout k pl →
    attPkts P layout (P.sigPub signer) hh k
      ((pl.zipIdx k).map (fun (cf, i) => specAttPkt P layout signer hh i cf.1 cf.2)) = .ok () := by
  intro pl
  induction pl with
  | nil => intro k _; rfl
  | cons x xs ih =>
    intro k hp
    obtain ⟨c, f⟩ := x
    obtain ⟨h1, h2, h3⟩ := hp
    simp only [List.zipIdx_cons, List.map_cons, attPkts]
    have hlast : (List.map (fun (x : (Bytes × Bool) × Nat) => specAttPkt P layout signer hh x.2 x.1.1 x.1.2) (xs.zipIdx (k + 1))).isEmpty
        = xs.isEmpty := by
      cases xs <;> simp
    rw [hlast]
    have hv : attPkt P layout (P.sigPub signer) hh k xs.isEmpty (specAttPkt P layout signer hh k c f) = .ok () := by
      unfold attPkt
      have hin : attSigInput P layout hh k (specAttPkt P layout signer hh k c f) =
          sSigAttached ++ (if layout = 1 then P.hash (hh ++ be64 k ++ c) else P.hash (hh ++ be64 k ++ sFinal f ++ c)) := by
        unfold attSigInput specAttPkt
        rcases hl with rfl | rfl <;> simp
      have hsg : (specAttPkt P layout signer hh k c f).sig = P.sign signer (sSigAttached ++
          (if layout = 1 then P.hash (hh ++ be64 k ++ c) else P.hash (hh ++ be64 k ++ sFinal f ++ c))) := rfl
      rw [hin, hsg, hL.verify_sign]
      simp only [not_true_eq_false, if_false]
      rw [chunkRule_ok_iff]
      refine ⟨h1, ?_⟩
      show (if (layout : Int) = 1 then _ else _)
      rcases hl with rfl | rfl
      · simp only [if_true] at h2
        simp only [show (((1:Nat):Int) = 1) by decide, if_true]
        show (c = [] ↔ _)
        rw [h2]; cases xs <;> simp
      · simp only [show ¬ ((2:Nat) = 1) by decide, if_false] at h2
        simp only [show ¬ (((2:Nat):Int) = 1) by decide, if_false]
        obtain ⟨h2a, h2b⟩ := h2
        constructor
        · show (if (2:Nat) = 1 then false else f) = _
          cases f <;> cases xs <;> simp_all
        · intro hc
          obtain ⟨hk, hx⟩ := h2b hc
          exact ⟨hk, by rw [hx]; rfl⟩
    rw [hv]
    exact ih (k + 1) h3

/-- **completeness, attached signatures**: the decoder verifies every packet
    signature of the reference sender's message and accepts its chunk plan -/
theorem att_check_complete (hL : P.Lawful) (layout : Nat) (hl : layout = 1 ∨ layout = 2) (signer nonce : Bytes)
    (pl : List (Bytes × Bool)) (hpl : PlanOK layout 0 pl) (hpl0 : pl ≠ []) :
    (specAttMsg P layout signer nonce pl).check P nonce.length = .ok () ∧
      (specAttMsg P layout signer nonce pl).plaintext = (pl.map (·.1)).flatten := by
  constructor
  · unfold AttMsg.check
    have h1 : (specAttMsg P layout signer nonce pl).nonce = nonce := rfl
    have h2 : (specAttMsg P layout signer nonce pl).pkts ≠ [] := by
      obtain ⟨y, ys, rfl⟩ := List.exists_cons_of_ne_nil hpl0
      simp [specAttMsg]
    rw [h1, if_neg (by simp), if_neg h2]
    exact attPkts_spec P hL layout hl signer _ pl 0 hpl
  · unfold AttMsg.plaintext specAttMsg
    simp only [List.map_map]
    congr 1
    have : ∀ (l : List (Bytes × Bool)) (k : Nat) (g : (Bytes × Bool) × Nat → AttPkt) (hg : ∀ x, (g x).chunk = x.1.1),
        List.map ((fun x => x.chunk) ∘ g) (l.zipIdx k) = l.map (·.1) := by
      intro l
      induction l with
      | nil => intros; rfl
      | cons a as ih => intro k g hg; simp [List.zipIdx_cons, hg, ih (k + 1) g hg]
    exact this pl 0 _ (fun _ => rfl)

theorem det_check_complete (hL : P.Lawful) (layout : Nat) (signer nonce msg : Bytes) :
    (specDetMsg P layout signer nonce msg).check P nonce.length msg = .ok () := by
  unfold DetMsg.check
  have h1 : (specDetMsg P layout signer nonce msg).nonce = nonce := rfl
  rw [h1, if_neg (by simp)]
  have h2 : (specDetMsg P layout signer nonce msg).headerBytes =
      (⟨layout, P.sigPub signer, nonce, []⟩ : DetMsg).headerBytes := rfl
  have h3 : (specDetMsg P layout signer nonce msg).sig = P.sign signer (sSigDetached ++
      P.hash (P.hash (⟨layout, P.sigPub signer, nonce, []⟩ : DetMsg).headerBytes ++ msg)) := rfl
  have h4 : (specDetMsg P layout signer nonce msg).signer = P.sigPub signer := rfl
  rw [h2, h3, h4, hL.verify_sign]
  simp

/-! ### soundness of the cryptographic layer -/

def attPlanOf (pkts : List AttPkt) : List (Bytes × Bool) := pkts.map (fun p => (p.chunk, p.final))

/-- every packet carries a signature that verifies, under the header's key, on
    exactly the specified input -/
def AttSigsVerify (major : Int) (pk hh : Bytes) : Nat → List AttPkt → Prop
  | _, [] => True
  | i, p :: ps => P.verify pk (attSigInput P major hh i p) p.sig = true ∧ AttSigsVerify major pk hh (i + 1) ps

theorem attPkts_sound (layout : Nat) (hl : layout = 1 ∨ layout = 2) (pk hh : Bytes) :
    ∀ (pkts : List AttPkt) (k : Nat), attPkts P layout pk hh k pkts = .ok () →
      AttSigsVerify P layout pk hh k pkts ∧ PlanOK layout k (attPlanOf pkts) := by
  intro pkts
  induction pkts with
  | nil => intro k _; simp [AttSigsVerify, attPlanOf, PlanOK]
  | cons p ps ih =>
    intro k h
    rw [attPkts] at h
    split at h
    · cases h
    · rename_i u hu
      obtain ⟨i1, i2⟩ := ih (k + 1) h
      unfold attPkt at hu
      split at hu
      · cases hu
      · rename_i hv
        simp only [Bool.not_eq_true, Bool.not_eq_false] at hv
        rw [chunkRule_ok_iff] at hu
        obtain ⟨r1, r2⟩ := hu
        refine ⟨⟨hv, i1⟩, ?_⟩
        simp only [attPlanOf, List.map_cons, PlanOK]
        refine ⟨r1, ?_, i2⟩
        have hemp : (List.map (fun (p : AttPkt) => (p.chunk, p.final)) ps = []) ↔ ps = [] := by
          cases ps <;> simp
        rw [hemp]
        rcases hl with rfl | rfl
        · simp only [show (((1:Nat):Int) = 1) by decide, if_true] at r2 ⊢
          rw [r2]; cases ps <;> simp
        · simp only [show ¬ (((2:Nat):Int) = 1) by decide, show ¬ ((2:Nat) = 1) by decide, if_false] at r2 ⊢
          obtain ⟨r2a, r2b⟩ := r2
          constructor
          · rw [r2a]; cases ps <;> simp
          · intro hc0
            obtain ⟨a, b⟩ := r2b hc0
            exact ⟨a, List.isEmpty_iff.1 b⟩

/-- **soundness, attached signatures (field level)** -/
theorem att_check_sound (m : AttMsg) (nl : Nat) (layout : Nat) (hl : layout = 1 ∨ layout = 2) (hm : m.major = layout)
    (h : m.check P nl = .ok ()) :
    m.nonce.length = nl ∧ m.pkts ≠ [] ∧
      AttSigsVerify P m.major m.signer (P.hash m.headerBytes) 0 m.pkts ∧
      PlanOK layout 0 (attPlanOf m.pkts) := by
  unfold AttMsg.check at h
  split at h
  · cases h
  · rename_i hn
    split at h
    · cases h
    · rename_i hp
      rw [hm] at h ⊢
      obtain ⟨a, b⟩ := attPkts_sound P layout hl _ _ _ _ h
      exact ⟨by simpa using hn, hp, a, b⟩

theorem attPkts_canonical (hS : SigCanonical P) (layout : Nat) (hl : layout = 1 ∨ layout = 2) (signer hh : Bytes) :
    ∀ (pkts : List AttPkt) (k : Nat), (∀ p ∈ pkts, layout = 1 → p.final = false) →
      AttSigsVerify P layout (P.sigPub signer) hh k pkts →
      pkts = ((attPlanOf pkts).zipIdx k).map (fun (cf, i) => specAttPkt P layout signer hh i cf.1 cf.2) := by
  intro pkts
  induction pkts with
  | nil => intros; rfl
  | cons p ps ih =>
    intro k hfin hv
    obtain ⟨v1, v2⟩ := hv
    have := ih (k + 1) (fun q hq => hfin q (by simp [hq])) v2
    simp only [attPlanOf, List.map_cons, List.zipIdx_cons]
    simp only [attPlanOf] at this
    rw [← this]
    congr 1
    have hs := hS _ _ _ v1
    obtain ⟨fl, sg, ch⟩ := p
    simp only at hs
    have hf := hfin ⟨fl, sg, ch⟩ (by simp)
    simp only at hf
    have hin : attSigInput P layout hh k ⟨fl, sg, ch⟩ = attSigInput P layout hh k ⟨fl, [], ch⟩ := rfl
    rw [hin] at hs
    subst hs
    unfold specAttPkt attSigInput
    rcases hl with rfl | rfl
    · simp [hf rfl]
    · simp

/-- **soundness, attached signatures, against the reference sender**: for a
    scheme with unique signatures the accepted message is what the reference
    sender emits for the decoded signer, nonce and chunks -/
theorem att_check_sound_spec (hS : SigCanonical P) (m : AttMsg) (nl : Nat) (layout : Nat)
    (hl : layout = 1 ∨ layout = 2) (hm : m.major = layout)
    (hfin : ∀ p ∈ m.pkts, m.major = 1 → p.final = false)
    (h : m.check P nl = .ok ()) (signer : Bytes) (hs : m.signer = P.sigPub signer) :
    m = specAttMsg P layout signer m.nonce (attPlanOf m.pkts) := by
  obtain ⟨_, _, a, _⟩ := att_check_sound P m nl layout hl hm h
  obtain ⟨major, sgn, nonce, pkts⟩ := m
  simp only at hm hs a hfin ⊢
  subst hm hs
  have := attPkts_canonical P hS layout hl signer _ pkts 0 (fun p hp h1 => hfin p hp (by rw [h1]; rfl)) a
  unfold specAttMsg
  simp only
  congr 1

theorem det_check_sound (m : DetMsg) (nl : Nat) (msg : Bytes) (h : m.check P nl msg = .ok ()) :
    m.nonce.length = nl ∧
      P.verify m.signer (sSigDetached ++ P.hash (P.hash m.headerBytes ++ msg)) m.sig = true := by
  unfold DetMsg.check at h
  split at h
  · cases h
  · rename_i hn
    split at h
    · cases h
    · rename_i hv
      exact ⟨by simpa using hn, by simpa using hv⟩

theorem det_check_sound_spec (hS : SigCanonical P) (m : DetMsg) (nl : Nat) (msg : Bytes) (layout : Nat)
    (hm : m.major = layout) (h : m.check P nl msg = .ok ()) (signer : Bytes) (hs : m.signer = P.sigPub signer) :
    m = specDetMsg P layout signer m.nonce msg := by
  obtain ⟨_, hv⟩ := det_check_sound P m nl msg h
  obtain ⟨major, sgn, nonce, sg⟩ := m
  simp only at hm hs hv ⊢
  subst hm hs
  have := hS _ _ _ hv
  unfold specDetMsg
  simp only
  rw [this]
  rfl

end
end Saltpack.Proofs.SDW
