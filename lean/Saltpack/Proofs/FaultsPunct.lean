/-
  The armor reader stack over scripts that may end in a FAULT, stage 1: the
  punctuated reader, `ReadUntilPunctuation` and `consumeUntilEOF` over a
  logical text `(t, c)` whose terminal condition `c` is either the clean EOF
  or a non-EOF error of the underlying reader.

  `PInvG` generalises `PInv` (Proofs/StackPunct.lean, clean EOF only).

  Core Lean only.
-/
import Saltpack.Proofs.ArmorStack

namespace Saltpack.Proofs
open Saltpack Saltpack.Stream

/-! ## scripts -/

/-- every data-only delivery BEFORE the first condition carries data; nothing
    is required of what follows the first condition -/
def SrcPre : Source → Prop
  | [] => True
  | (d, none) :: rest => d ≠ [] ∧ SrcPre rest
  | (_, some _) :: _ => True

theorem srcPre_of_srcOK : ∀ (src : Source), SrcOK src → SrcPre src := by
  intro src
  induction src with
  | nil => intro _; trivial
  | cons hd rest ih =>
    obtain ⟨d, e⟩ := hd
    cases e with
    | none => intro h; exact ⟨h.1, ih h.2⟩
    | some x => intro _; trivial

theorem srcPre_srcRead (cap : Nat) (_hcap : 0 < cap) (src : Source) (h : SrcPre src)
    (he : (srcRead cap src).2.1 = none) : SrcPre (srcRead cap src).2.2 := by
  cases src with
  | nil => trivial
  | cons hd rest =>
    obtain ⟨d0, e0⟩ := hd
    by_cases hc : d0.length ≤ cap
    · simp only [srcRead, if_pos hc] at he ⊢
      subst he
      exact h.2
    · simp only [srcRead, if_neg hc]
      have hne : d0.drop cap ≠ [] := by
        intro h0
        have := congrArg List.length h0
        simp at this
        omega
      cases e0 with
      | none => exact ⟨hne, h.2⟩
      | some e => trivial

theorem eof_ne_punct : RErr.eof ≠ punctErr := by
  intro h; cases h

/-! ## the invariant -/

/-- reachable state of the punctuated reader over a script that is well behaved
    up to its first condition; when that condition is the clean EOF, the script
    is well behaved throughout (`SrcOK`) -/
structure PInvG (s : PState) : Prop where
  wf : s.WF
  notPunct : s.text.2 ≠ punctErr
  clean : s.text.2 = .eof → SrcOK s.src
  fault : s.errNextRead = none → SrcPre s.src

theorem pInvG_of_pInv (s : PState) (h : PInv s) : PInvG s :=
  ⟨h.wf, by rw [h.eof]; exact eof_ne_punct, fun _ => h.src, fun _ => srcPre_of_srcOK _ h.src⟩

theorem pInv_of_pInvG (s : PState) (h : PInvG s) (he : s.text.2 = .eof) : PInv s :=
  ⟨h.wf, h.clean he, he⟩

theorem pProc_errNext (cap : Nat) (src : Bytes) (used : Bool) (s1 : PState) :
    (pProc cap src used s1).2.2.errNextRead = s1.errNextRead := by
  unfold pProc
  cases findIdx Armor.period src <;> cases used <;> simp <;> split <;> rfl

/-- the script invariant survives every call that does not report the terminal condition -/
theorem pRead_fault_inv (cap : Nat) (hcap : 0 < cap) (s : PState) (hf : s.errNextRead = none → SrcPre s.src)
    (hnp : s.text.2 ≠ punctErr) (d : Bytes) (e : Option RErr) (s1 : PState) (h : pRead cap s = (d, e, s1))
    (he : e = none ∨ e = some punctErr) : s1.errNextRead = none → SrcPre s1.src := by
  by_cases h1 : s.thisSegment = []
  · by_cases h2 : s.nextSegment = []
    · cases h3 : s.errNextRead with
      | some x =>
        rw [pRead_sticky cap s x h1 h2 h3] at h
        simp only [Prod.mk.injEq] at h
        obtain ⟨_, _, rfl⟩ := h
        intro h'; rw [h3] at h'; cases h'
      | none =>
        have hpre := hf h3
        rw [pRead_src cap s h1 h2 h3] at h
        rcases hr : srcRead cap s.src with ⟨d0, e0, src'⟩
        rw [hr] at h
        cases e0 with
        | none =>
          simp only at h
          have hs1 : s1 = (pProc cap d0 false { s with src := src' }).2.2 := by rw [h]
          intro _
          rw [hs1, pProc_src]
          have := srcPre_srcRead cap hcap s.src hpre (by rw [hr])
          rw [hr] at this
          exact this
        | some e' =>
          simp only at h
          by_cases hd0 : d0.isEmpty = true
          · rw [if_pos hd0] at h
            simp only [Prod.mk.injEq] at h
            obtain ⟨_, rfl, _⟩ := h
            exfalso
            rcases he with he | he
            · cases he
            · simp only [Option.some.injEq] at he
              apply hnp
              have hsp := (srcRead_spec cap hcap s.src d0 (some e') src' hr).2.2.2 e' rfl
              simp only [PState.text, PState.tail, h3, hsp.1, he]
          · rw [if_neg hd0] at h
            have hs1 : s1 = (pProc cap d0 false { s with src := src', errNextRead := some e' }).2.2 := by rw [h]
            intro h'
            rw [hs1, pProc_errNext] at h'
            cases h'
    · rw [pRead_next cap s h1 h2] at h
      have hs1 : s1 = (pProc cap s.nextSegment true { s with nextSegment := [] }).2.2 := by rw [h]
      intro h'
      rw [hs1, pProc_errNext] at h'
      rw [hs1, pProc_src]
      exact hf h'
  · rw [pRead_this cap s h1] at h
    split at h
    · simp only [Prod.mk.injEq] at h
      obtain ⟨_, _, rfl⟩ := h
      exact hf
    · simp only [Prod.mk.injEq] at h
      obtain ⟨_, _, rfl⟩ := h
      exact hf

/-- **one call of the punctuated reader** over a text `(t, c)` (`c` = clean EOF
    or a fault of the source): data without a condition is never empty and is
    cut off the front of `t`; "punctuated" is reported exactly at a period of
    `t`; the terminal condition `c` is reported only when nothing of `t` is
    left, without data.  (A clean EOF is moreover sticky.) -/
theorem pRead_okG (cap : Nat) (hcap : 0 < cap) (s : PState) (hi : PInvG s)
    (d : Bytes) (e : Option RErr) (s1 : PState) (h : pRead cap s = (d, e, s1)) :
    d.length ≤ cap ∧ Armor.period ∉ d ∧
    ((e = none ∧ d ≠ [] ∧ s.text.1 = d ++ s1.text.1 ∧ s1.text.2 = s.text.2 ∧ PInvG s1) ∨
     (e = some punctErr ∧ s.text.1 = d ++ Armor.period :: s1.text.1 ∧ s1.text.2 = s.text.2 ∧ PInvG s1) ∨
     (e = some s.text.2 ∧ d = [] ∧ s.text.1 = [] ∧ (s.text.2 = .eof → PInvG s1 ∧ s1.text = ([], .eof)))) := by
  by_cases hc : s.text.2 = .eof
  · have hp := pInv_of_pInvG s hi hc
    obtain ⟨w, l, n, c⟩ := pRead_ok cap hcap s hp d e s1 h
    refine ⟨l, n, ?_⟩
    have hw := pInvG_of_pInv s1 w
    rcases c with ⟨c0, c1, c2⟩ | ⟨c0, c2⟩ | ⟨c0, c1, c2, c3⟩
    · exact Or.inl ⟨c0, c1, c2, by rw [w.eof, hc], hw⟩
    · exact Or.inr (Or.inl ⟨c0, c2, by rw [w.eof, hc], hw⟩)
    · refine Or.inr (Or.inr ⟨by rw [c0, hc], c1, c2, fun _ => ⟨hw, ?_⟩⟩)
      have := w.eof
      exact Prod.ext c3 this
  · obtain ⟨w, l, n, c⟩ := pRead_step cap hcap s hi.wf d e s1 h
    refine ⟨l, n, ?_⟩
    rcases c with ⟨c0, c1, c2, _, c4⟩ | ⟨c0, c1, c2, _⟩ | ⟨c0, c1, c2, _⟩
    · have hinv : PInvG s1 := ⟨w, by rw [c2]; exact hi.notPunct, fun h' => absurd (by rw [← c2]; exact h') hc,
        pRead_fault_inv cap hcap s hi.fault hi.notPunct d e s1 h (Or.inl c0)⟩
      refine Or.inl ⟨c0, ?_, c1, c2, hinv⟩
      intro hd
      obtain ⟨_, hn, rest, hr⟩ := c4 hd
      have := hi.fault hn
      rw [hr] at this
      exact this.1 rfl
    · have hinv : PInvG s1 := ⟨w, by rw [c2]; exact hi.notPunct, fun h' => absurd (by rw [← c2]; exact h') hc,
        pRead_fault_inv cap hcap s hi.fault hi.notPunct d e s1 h (Or.inr c0)⟩
      exact Or.inr (Or.inl ⟨c0, c1, c2, hinv⟩)
    · exact Or.inr (Or.inr ⟨c0, c1, c2, fun h' => absurd h' hc⟩)

theorem pInvG_init (src : Source) (c : RErr) (T : Bytes) (hT : srcText src = (T, c)) (hc : c ≠ punctErr)
    (hpre : SrcPre src) (hok : c = .eof → SrcOK src) : PInvG { src := src } :=
  ⟨pWF_init src, by rw [ptext_init, hT]; exact hc, fun h => hok (by rw [ptext_init, hT] at h; exact h), fun _ => hpre⟩

/-! ## `ReadUntilPunctuation` -/

/-- **`ReadUntilPunctuation(lim)`** over a text `(t, c)`:
    * `t = a ++ '.' :: rest`, no period in `a`: `acc ++ a` when shorter than
      `lim` (leaving `(rest, c)`), else `ErrOverflow`;
    * no period in `t`: some error (`ErrOverflow`, `io.ErrUnexpectedEOF`, or
      the fault `c` of the source) — never a result. -/
theorem pReadUntil_specG (lim : Nat) : ∀ (fuel : Nat) (s : PState) (acc : Bytes), PInvG s →
    acc.length < lim → lim < fuel + acc.length →
    (∀ a rest, s.text.1 = a ++ Armor.period :: rest → Armor.period ∉ a →
      ((acc ++ a).length < lim →
        ∃ s1, pReadUntil lim fuel s acc = (.ok (acc ++ a), s1) ∧ PInvG s1 ∧ s1.text = (rest, s.text.2)) ∧
      (lim ≤ (acc ++ a).length → ∃ s1, pReadUntil lim fuel s acc = (.error (.err .overflow), s1))) ∧
    (Armor.period ∉ s.text.1 → ∃ z s1, pReadUntil lim fuel s acc = (.error (.err z), s1)) := by
  intro fuel
  induction fuel with
  | zero => intro s acc _ h1 h2; omega
  | succ fuel ih =>
    intro s acc hi hacc hfuel
    rw [pReadUntil_succ]
    rcases hp : pRead 4096 s with ⟨d, e, s'⟩
    obtain ⟨_, n, c⟩ := pRead_okG 4096 (by decide) s hi d e s' hp
    simp only
    rcases c with ⟨rfl, c1, c2, c3, hi'⟩ | ⟨rfl, c2, c3, hi'⟩ | ⟨rfl, c1, c2, _⟩
    · -- more data
      have hdpos : 0 < d.length := List.length_pos_iff.mpr c1
      have hde : d.isEmpty = false := by cases d with
        | nil => exact absurd rfl c1
        | cons _ _ => rfl
      simp only [hde, Bool.false_eq_true, if_false]
      by_cases hov : (acc ++ d).length ≥ lim
      · rw [if_pos hov]
        constructor
        · intro a rest ht ha
          rw [c2] at ht
          obtain ⟨a', h1, _⟩ := firstSplit_prefix _ d s'.text.1 a rest ht n
          refine ⟨fun hlt => ?_, fun _ => ⟨s', rfl⟩⟩
          exfalso
          rw [h1] at hlt
          simp only [List.length_append] at hlt hov
          omega
        · intro _
          exact ⟨_, s', rfl⟩
      · rw [if_neg hov]
        have hlen : (acc ++ d).length = acc.length + d.length := List.length_append
        obtain ⟨ih1, ih2⟩ := ih s' (acc ++ d) hi' (by omega) (by omega)
        constructor
        · intro a rest ht ha
          rw [c2] at ht
          obtain ⟨a', h1, h2⟩ := firstSplit_prefix _ d s'.text.1 a rest ht n
          have := ih1 a' rest h2 (fun hm => ha (by rw [h1]; simp [hm]))
          rw [h1, ← List.append_assoc, ← c3]
          exact this
        · intro hnp
          rw [c2] at hnp
          exact ih2 (fun hm => hnp (by simp [hm]))
    · -- punctuated
      simp only [punctErr]
      constructor
      · intro a rest ht ha
        rw [c2] at ht
        obtain ⟨h1, h2⟩ := firstSplit_unique _ d s'.text.1 a rest ht n ha
        subst h1
        refine ⟨fun hlt => ⟨s', ?_, hi', ?_⟩, fun hge => ⟨s', ?_⟩⟩
        · rw [if_neg (by omega)]
        · exact Prod.ext h2 c3
        · rw [if_pos hge]
      · intro hnp
        exfalso; apply hnp; rw [c2]; simp
    · -- the terminal condition
      subst c1
      constructor
      · intro a rest ht _
        rw [c2] at ht
        simp at ht
      · intro _
        have hnp := hi.notPunct
        split
        · rename_i heq; cases heq
        · rename_i heq
          simp only [Option.some.injEq] at heq
          exact absurd heq hnp
        · exact ⟨_, s', rfl⟩
        · exact ⟨_, s', rfl⟩

/-- the call made by the framed decoder -/
theorem pReadUntil_frameG (s : PState) (hi : PInvG s) :
    (∀ a rest, s.text.1 = a ++ Armor.period :: rest → Armor.period ∉ a →
      (a.length < Armor.frameLim →
        ∃ s1, pReadUntil Armor.frameLim (Armor.frameLim + 2) s [] = (.ok a, s1) ∧ PInvG s1 ∧ s1.text = (rest, s.text.2)) ∧
      (Armor.frameLim ≤ a.length →
        ∃ s1, pReadUntil Armor.frameLim (Armor.frameLim + 2) s [] = (.error (.err .overflow), s1))) ∧
    (Armor.period ∉ s.text.1 →
      ∃ z s1, pReadUntil Armor.frameLim (Armor.frameLim + 2) s [] = (.error (.err z), s1)) := by
  have := pReadUntil_specG Armor.frameLim (Armor.frameLim + 2) s [] hi (by decide) (by simp)
  simpa using this

/-! ## `consumeUntilEOF` -/

/-- **`consumeUntilEOF`** over a text `(t, c)`: `io.EOF` exactly when `c` is the
    clean EOF and `t` has no period and only valid bytes; otherwise an error
    (`ErrPunctuated`, `ErrTrailingGarbage`, or the fault `c`) -/
theorem consume_specG (par : Armor.Params) : ∀ (fuel : Nat) (s : PState), PInvG s → s.text.1.length < fuel →
    ((trailOK par s.text.1 ∧ s.text.2 = .eof) →
      ∃ s1, consumeUntilEOF par fuel s = (.eof, s1) ∧ PInvG s1 ∧ s1.text = ([], .eof)) ∧
    (¬ (trailOK par s.text.1 ∧ s.text.2 = .eof) → ∃ z s1, consumeUntilEOF par fuel s = (.err z, s1)) := by
  intro fuel
  induction fuel with
  | zero => intro s _ h; omega
  | succ fuel ih =>
    intro s hi hfuel
    rw [consume_succ]
    rcases hp : pRead 4096 s with ⟨d, e, s'⟩
    obtain ⟨_, n, c⟩ := pRead_okG 4096 (by decide) s hi d e s' hp
    simp only
    rcases c with ⟨rfl, c1, c2, c3, hi'⟩ | ⟨rfl, c2, c3, hi'⟩ | ⟨rfl, c1, c2, c3⟩
    · have hde : d.isEmpty = false := by cases d with
        | nil => exact absurd rfl c1
        | cons _ _ => rfl
      have hdpos : 0 < d.length := List.length_pos_iff.mpr c1
      simp only [hde, Bool.false_eq_true, if_false]
      have hlen : s.text.1.length = d.length + s'.text.1.length := by rw [c2, List.length_append]
      obtain ⟨ih1, ih2⟩ := ih s' hi' (by omega)
      by_cases hv : d.all (Armor.validByte par) = true
      · simp only [hv, Bool.not_true, Bool.false_eq_true, if_false]
        rw [c2, ← c3]
        constructor
        · rintro ⟨⟨h1, h2⟩, h3⟩
          rw [List.all_append] at h2
          simp only [Bool.and_eq_true] at h2
          exact ih1 ⟨⟨fun hm => h1 (by simp [hm]), h2.2⟩, h3⟩
        · intro hn
          apply ih2
          rintro ⟨⟨h1, h2⟩, h3⟩
          apply hn
          refine ⟨⟨?_, ?_⟩, h3⟩
          · intro hm
            rcases List.mem_append.mp hm with hm | hm
            · exact n hm
            · exact h1 hm
          · rw [List.all_append, hv, h2]; rfl
      · have hv' : d.all (Armor.validByte par) = false := by simpa using hv
        simp only [hv', Bool.not_false, if_true]
        rw [c2]
        constructor
        · rintro ⟨⟨_, h2⟩, _⟩
          rw [List.all_append, hv'] at h2
          simp at h2
        · intro _; exact ⟨_, s', rfl⟩
    · constructor
      · rintro ⟨⟨h1, _⟩, _⟩
        exfalso; apply h1; rw [c2]; simp
      · intro _; exact ⟨_, s', rfl⟩
    · constructor
      · rintro ⟨_, h3⟩
        obtain ⟨w, t⟩ := c3 h3
        rw [h3]
        exact ⟨s', rfl, w, t⟩
      · intro hn
        cases hc : s.text.2 with
        | eof =>
          exfalso; apply hn
          rw [c2]
          exact ⟨⟨by simp, rfl⟩, hc⟩
        | err z => exact ⟨z, s', rfl⟩

/-- with the model's own fuel (`fuelOf`) -/
theorem consume_fuelOfG (par : Armor.Params) (s : PState) (hi : PInvG s) :
    ((trailOK par s.text.1 ∧ s.text.2 = .eof) →
      ∃ s1, consumeUntilEOF par (fuelOf s) s = (.eof, s1) ∧ PInvG s1 ∧ s1.text = ([], .eof)) ∧
    (¬ (trailOK par s.text.1 ∧ s.text.2 = .eof) → ∃ z s1, consumeUntilEOF par (fuelOf s) s = (.err z, s1)) :=
  consume_specG par (fuelOf s) s hi (by have := ptext_length_lt_fuelOf s; omega)

end Saltpack.Proofs
