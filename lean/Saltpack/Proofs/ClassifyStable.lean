/-
  Prefix stability of the classifiers (behind Props/C16Stable).

  * `bin_ok_stable`: a mode/version verdict of `IsSaltpackBinarySlice` on a slice
    is its verdict on every extension of the slice.
  * the armored classifier: once the frame with its period and one full base62
    block are shown, the verdict on every extension is the verdict of the binary
    classifier on "first decoded block ++ whatever the rest decodes to"; it is
    the same verdict as soon as the first block alone decides the binary header.
-/
import Saltpack.Proofs.ClassifyLemmas
import Saltpack.Proofs.ClassifyTotal
import Saltpack.Proofs.MsgpackMono

namespace Saltpack.Proofs.ClsStable
open Saltpack Saltpack.Classify Saltpack.Msgpack Saltpack.Armor ClsAux MpMono

/-! ## binary -/

theorem getD_append_lt (b e : Bytes) (i : Nat) (h : i < b.length) : (b ++ e).getD i 0 = b.getD i 0 := by
  simp [List.getD, List.getElem?_append_left h]

/-- **a mode/version verdict on a slice is the verdict on every extension of it** -/
theorem bin_ok_stable (b e : Bytes) (t : Int) (v : Version) (h : binarySlice b = .ok (t, v)) :
    binarySlice (b ++ e) = .ok (t, v) := by
  have h' := h
  unfold binarySlice at h
  rw [minLen_eq] at h
  split at h
  · cases h
  · rename_i hlen
    simp only at h
    split at h
    · cases h
    · rename_i skip hskip
      split at h
      · cases h
      · rename_i askip haskip
        have hsk : skip = 2 ∨ skip = 3 ∨ skip = 5 := by
          revert hskip; repeat' split
          all_goals simp
          all_goals omega
        have hask : askip = 1 ∨ askip = 3 ∨ askip = 5 := by
          revert haskip; repeat' split
          all_goals simp
          all_goals omega
        have hb : binarySlice b = binBody (b.drop (skip + askip)) :=
          bin_reduce b skip askip (by omega) hskip haskip
        have hbe : binarySlice (b ++ e) = binBody ((b ++ e).drop (skip + askip)) := by
          apply bin_reduce (b ++ e) skip askip (by simp only [List.length_append]; omega)
          · simp only [getD_append_lt b e 0 (by omega)]; exact hskip
          · simp only [getD_append_lt b e skip (by omega)]; exact haskip
        rw [hbe, List.drop_append_of_le_length (by omega)]
        rw [hb] at h'
        exact CodecMono.binBody_ok_stable _ e t v h'


/-! ## the header expression, restated -/

/-- ` ?\.` at the front of `r1`: what follows the period -/
def afterDot (r1 : Bytes) : Option Bytes :=
  let r2 := match r1 with | c :: cs => if c == Armor.space then cs else r1 | [] => r1
  match r2 with
  | c :: cs => if c == Armor.period then some cs else
      (match r1 with | c1 :: cs1 => if c1 == Armor.period then some cs1 else none | [] => none)
  | [] => none

def okc (c : UInt8) : Bool := isAlnum c || c == Armor.space

def tryType (r t : Bytes) : Option (Bytes × Bytes) :=
  match stripPrefix? t r with
  | none => none
  | some r1 => (afterDot r1).map (fun x => (t, x.takeWhile okc))

def SP : Bytes := Armor.upper Gen.c_sp_FormatName ++ [Armor.space]

theorem matchTail_eq (b : Bytes) : matchTail b =
    match stripPrefix? SP b with
    | none => none
    | some r =>
      match tryType r Gen.c_sp_EncryptionArmorString with
      | some x => some x
      | none => match tryType r Gen.c_sp_SignedArmorString with
        | some x => some x
        | none => tryType r Gen.c_sp_DetachedSignatureArmorString := rfl

theorem afterDot_iff (r1 rest : Bytes) :
    afterDot r1 = some rest ↔ (r1 = period :: rest ∨ r1 = space :: period :: rest) := by
  have hps : (period == space) = false := by decide
  have hsp : (space == period) = false := by decide
  cases r1 with
  | nil => simp [afterDot]
  | cons c cs =>
    by_cases hc : c = space
    · subst hc
      cases cs with
      | nil =>
        simp [afterDot]
        intro h; exact absurd h (by decide)
      | cons c' cs' =>
        by_cases hc' : c' = period
        · subst hc'
          simp [afterDot]
          intro h; exact absurd h (by decide)
        · simp [afterDot, hc', hsp]
          intro h; exact absurd h (by decide)
    · by_cases hp : c = period
      · subst hp
        simp [afterDot, hps]
        intro h; exact absurd h (by decide)
      · simp [afterDot, hc, hp]

theorem stripPrefix_iff (p b r : Bytes) : stripPrefix? p b = some r ↔ b = p ++ r := by
  unfold stripPrefix?
  constructor
  · intro h
    split at h
    · rename_i hp
      rw [List.isPrefixOf_iff_prefix] at hp
      obtain ⟨t, rfl⟩ := hp
      simp only [List.drop_left, Option.some.injEq] at h
      rw [h]
    · cases h
  · intro h
    subst h
    have : p.isPrefixOf (p ++ r) = true := by
      rw [List.isPrefixOf_iff_prefix]; exact List.prefix_append p r
    rw [if_pos this, List.drop_left]

theorem tryType_iff (r t : Bytes) (x : Bytes × Bytes) :
    tryType r t = some x ↔ ∃ r1 rest, r = t ++ r1 ∧ afterDot r1 = some rest ∧ x = (t, rest.takeWhile okc) := by
  unfold tryType
  constructor
  · intro h
    split at h
    · cases h
    · rename_i r1 hr1
      simp only [Option.map_eq_some_iff] at h
      obtain ⟨rest, ha, rfl⟩ := h
      exact ⟨r1, rest, (stripPrefix_iff _ _ _).mp hr1, ha, rfl⟩
  · rintro ⟨r1, rest, rfl, ha, rfl⟩
    rw [stripPrefix_append]
    simp [ha]

/-- the three type strings exclude each other at the front of a text -/
theorem tryType_other (t t' r1 : Bytes) (ht : t ∈ sffxs) (ht' : t' ∈ sffxs) (hne : t ≠ t') :
    tryType (t ++ r1) t' = none := by
  unfold tryType
  simp only [sffxs, List.mem_cons, List.not_mem_nil, or_false] at ht ht'
  rcases ht with rfl | rfl | rfl <;> rcases ht' with rfl | rfl | rfl <;>
    first
    | exact absurd rfl hne
    | rw [stripPrefix_none _ _ r1 (by decide)]

/-- **specification of the tail expression** -/
theorem matchTail_iff (b : Bytes) (x : Bytes × Bytes) :
    matchTail b = some x ↔
      ∃ t r1 rest, t ∈ sffxs ∧ b = SP ++ (t ++ r1) ∧ afterDot r1 = some rest ∧ x = (t, rest.takeWhile okc) := by
  rw [matchTail_eq]
  constructor
  · intro h
    split at h
    · cases h
    · rename_i r hr
      have hb := (stripPrefix_iff _ _ _).mp hr
      split at h
      · rename_i y hy
        cases h
        obtain ⟨r1, rest, rfl, ha, rfl⟩ := (tryType_iff _ _ _).mp hy
        exact ⟨_, r1, rest, by simp [sffxs], hb, ha, rfl⟩
      · split at h
        · rename_i y hy
          cases h
          obtain ⟨r1, rest, rfl, ha, rfl⟩ := (tryType_iff _ _ _).mp hy
          exact ⟨_, r1, rest, by simp [sffxs], hb, ha, rfl⟩
        · obtain ⟨r1, rest, rfl, ha, rfl⟩ := (tryType_iff _ _ _).mp h
          exact ⟨_, r1, rest, by simp [sffxs], hb, ha, rfl⟩
  · rintro ⟨t, r1, rest, ht, rfl, ha, rfl⟩
    rw [show stripPrefix? SP (SP ++ (t ++ r1)) = some (t ++ r1) from stripPrefix_append _ _]
    simp only
    have hself : tryType (t ++ r1) t = some (t, rest.takeWhile okc) :=
      (tryType_iff _ _ _).mpr ⟨r1, rest, rfl, ha, rfl⟩
    have hE : Gen.c_sp_EncryptionArmorString ∈ sffxs := by simp [sffxs]
    have hS : Gen.c_sp_SignedArmorString ∈ sffxs := by simp [sffxs]
    have hD : Gen.c_sp_DetachedSignatureArmorString ∈ sffxs := by simp [sffxs]
    have hes : Gen.c_sp_EncryptionArmorString ≠ Gen.c_sp_SignedArmorString := by decide
    have hed : Gen.c_sp_EncryptionArmorString ≠ Gen.c_sp_DetachedSignatureArmorString := by decide
    have hsd : Gen.c_sp_SignedArmorString ≠ Gen.c_sp_DetachedSignatureArmorString := by decide
    have ht' := ht
    simp only [sffxs, List.mem_cons, List.not_mem_nil, or_false] at ht'
    rcases ht' with rfl | rfl | rfl
    · rw [hself]
    · rw [tryType_other _ _ r1 hS hE (Ne.symm hes), hself]
    · rw [tryType_other _ _ r1 hD hE (Ne.symm hed), tryType_other _ _ r1 hD hS (Ne.symm hsd), hself]


def BG : Bytes := Gen.c_sp_headerMarker ++ [Armor.space]

theorem takeWhile_prefix_drop {α : Type} (p : α → Bool) (l : List α) :
    l = l.takeWhile p ++ l.drop (l.takeWhile p).length := by
  induction l with
  | nil => rfl
  | cons a l ih =>
    by_cases ha : p a = true
    · simp only [List.takeWhile_cons, ha, if_true, List.length_cons, List.drop_succ_cons, List.cons_append]
      rw [← ih]
    · simp [List.takeWhile_cons, ha]

theorem mem_takeWhile_true {α : Type} (p : α → Bool) (l : List α) : ∀ c ∈ l.takeWhile p, p c = true := by
  induction l with
  | nil => intro c hc; simp at hc
  | cons a l ih =>
    intro c hc
    by_cases ha : p a = true
    · simp only [List.takeWhile_cons, ha, if_true, List.mem_cons] at hc
      rcases hc with rfl | hc
      · exact ha
      · exact ih c hc
    · simp [List.takeWhile_cons, ha] at hc

/-- the header expression, branded alternative -/
theorem matchHeader_branded (brand cs t pl : Bytes) (hne : brand ≠ []) (hb : ∀ c ∈ brand, isAlnum c = true)
    (hm : matchTail cs = some (t, pl)) :
    matchHeader (BG ++ (brand ++ space :: cs)) = some (brand, t, pl) := by
  have hsp : isAlnum space = false := by decide
  have hie : brand.isEmpty = false := by
    cases brand with
    | nil => exact absurd rfl hne
    | cons _ _ => rfl
  unfold matchHeader
  rw [show stripPrefix? (Gen.c_sp_headerMarker ++ [Armor.space]) (BG ++ (brand ++ space :: cs)) =
    some (brand ++ space :: cs) from stripPrefix_append _ _]
  simp only [takeWhile_word isAlnum _ space _ hb hsp, List.drop_left, beq_self_eq_true, if_true, hm, hie]
  simp

/-- the header expression, brand-less alternative (the branded one cannot match
    a text that starts with `SALTPACK <type>`) -/
theorem matchHeader_plain (r t pl : Bytes) (hm : matchTail r = some (t, pl)) :
    matchHeader (BG ++ r) = some ([], t, pl) := by
  have hsp : isAlnum space = false := by decide
  have hSP : ∀ c ∈ upper Gen.c_sp_FormatName, isAlnum c = true := by decide
  obtain ⟨t', r1, rest, ht, hr, ha, hx⟩ := (matchTail_iff r (t, pl)).mp hm
  have hr' : r = upper Gen.c_sp_FormatName ++ space :: (t' ++ r1) := by rw [hr]; simp [SP]
  subst hr'
  unfold matchHeader
  rw [show stripPrefix? (Gen.c_sp_headerMarker ++ [Armor.space]) (BG ++ _) = some _ from stripPrefix_append _ _]
  simp only [takeWhile_word isAlnum _ space _ hSP hsp, List.drop_left, beq_self_eq_true, if_true,
    matchTail_sffx_none t' _ ht, Option.map_none, hm]
  have : (upper Gen.c_sp_FormatName).isEmpty = false := by decide
  simp [this]

/-- what a match of the header expression says about the text -/
theorem matchHeader_shape (s brand t pl : Bytes) (h : matchHeader s = some (brand, t, pl)) :
    ∃ r, s = BG ++ r ∧
      ((brand ≠ [] ∧ (∀ c ∈ brand, isAlnum c = true) ∧ ∃ cs, r = brand ++ space :: cs ∧ matchTail cs = some (t, pl)) ∨
       (brand = [] ∧ matchTail r = some (t, pl))) := by
  unfold matchHeader at h
  split at h
  · cases h
  · rename_i r hr
    refine ⟨r, (stripPrefix_iff _ _ _).mp hr, ?_⟩
    simp only at h
    split at h
    · rename_i x hx
      cases h
      split at hx
      · cases hx
      · rename_i hbe
        split at hx
        · rename_i c cs hab
          split at hx
          · rename_i hc
            simp only [Option.map_eq_some_iff, Prod.mk.injEq, Prod.exists] at hx
            obtain ⟨t', p', hm, hb1, rfl, rfl⟩ := hx
            left
            have hc' : c = space := by simpa using hc
            subst hc'
            refine ⟨?_, ?_, cs, ?_, hm⟩
            · intro h0; rw [← hb1] at h0; rw [h0] at hbe; simp at hbe
            · intro c hc; rw [← hb1] at hc; exact mem_takeWhile_true isAlnum r c hc
            · have := takeWhile_prefix_drop isAlnum r
              rw [hab, hb1] at this
              exact this
          · cases hx
        · cases hx
    · simp only [Option.map_eq_some_iff, Prod.mk.injEq, Prod.exists] at h
      obtain ⟨t', p', hm, rfl, rfl, rfl⟩ := h
      exact Or.inr ⟨rfl, hm⟩


/-! ## extending the text -/

theorem afterDot_append (r1 rest x : Bytes) (h : afterDot r1 = some rest) :
    afterDot (r1 ++ x) = some (rest ++ x) := by
  rcases (afterDot_iff r1 rest).mp h with rfl | rfl
  · exact (afterDot_iff _ _).mpr (Or.inl rfl)
  · exact (afterDot_iff _ _).mpr (Or.inr rfl)

theorem matchTail_append (b t pl x : Bytes) (h : matchTail b = some (t, pl)) :
    ∃ rest, pl = rest.takeWhile okc ∧ matchTail (b ++ x) = some (t, (rest ++ x).takeWhile okc) := by
  obtain ⟨t', r1, rest, ht, rfl, ha, hx⟩ := (matchTail_iff b (t, pl)).mp h
  simp only [Prod.mk.injEq] at hx
  obtain ⟨rfl, rfl⟩ := hx
  refine ⟨rest, rfl, (matchTail_iff _ _).mpr ⟨t, r1 ++ x, rest ++ x, ht, by simp, afterDot_append _ _ _ ha, rfl⟩⟩

theorem matchHeader_append (s brand t pl x : Bytes) (h : matchHeader s = some (brand, t, pl)) :
    ∃ rest, pl = rest.takeWhile okc ∧ matchHeader (s ++ x) = some (brand, t, (rest ++ x).takeWhile okc) := by
  obtain ⟨r, rfl, hcase⟩ := matchHeader_shape s brand t pl h
  rcases hcase with ⟨hne, hb, cs, rfl, hm⟩ | ⟨rfl, hm⟩
  · obtain ⟨rest, hpl, hm'⟩ := matchTail_append cs t pl x hm
    refine ⟨rest, hpl, ?_⟩
    have := matchHeader_branded brand (cs ++ x) t _ hne hb hm'
    simpa using this
  · obtain ⟨rest, hpl, hm'⟩ := matchTail_append r t pl x hm
    refine ⟨rest, hpl, ?_⟩
    have := matchHeader_plain (r ++ x) t _ hm'
    simpa using this

theorem takeWhile_append_ext {α : Type} (p : α → Bool) (l x : List α) :
    ∃ m, (l ++ x).takeWhile p = l.takeWhile p ++ m := by
  induction l with
  | nil => exact ⟨_, rfl⟩
  | cons a l ih =>
    obtain ⟨m, hm⟩ := ih
    by_cases ha : p a = true
    · exact ⟨m, by simp [List.takeWhile_cons, ha, hm]⟩
    · exact ⟨[], by simp [List.takeWhile_cons, ha]⟩

/-- the payload characters a text shows (spaces dropped) -/
def charsOf (payload : Bytes) : Bytes := payload.filter (· != Armor.space)

/-- the bytes `DecodeString` returns for them -/
def decOf (payload : Bytes) : Bytes :=
  (Basex.decodePrefix Gen.base62Std ((charsOf payload).length + 1) (charsOf payload)).1

theorem encLen62_lt : ∀ n, n < 32 → Gen.base62Std.strict.encLen n < 43 := by decide

/-- one step of `decodePrefix` on at least one block of characters -/
theorem decodePrefix_first (cs : List UInt8) (fuel : Nat) (h : 43 ≤ cs.length) :
    (Basex.decodePrefix Gen.base62Std (fuel + 1) cs).1 =
      match Basex.decode Gen.base62Std.strict (cs.take 43) with
      | .error _ => []
      | .ok b => b ++ (Basex.decodePrefix Gen.base62Std fuel (cs.drop 43)).1 := by
  rw [Basex.decodePrefix]
  have hne : cs.isEmpty = false := by
    cases cs with
    | nil => simp at h
    | cons _ _ => rfl
  have h2 : Gen.base62Std.charBlockLen = 43 := rfl
  simp only [hne, h2, Bool.false_eq_true, if_false]
  cases Basex.decode Gen.base62Std.strict (cs.take 43) with
  | error e => rfl
  | ok b => rfl

/-- a full block of 43 characters decodes to at least 32 bytes -/
theorem decode_block_len (blk : List UInt8) (b : Bytes) (hl : blk.length = 43)
    (hd : Basex.decode Gen.base62Std.strict blk = .ok b) : 32 ≤ b.length := by
  have hwf : Gen.base62Std.strict.WF := strict_wf wf62
  have he := decode_canonical _ hwf rfl blk b hd
  have hlen := encode_length _ hwf b
  rw [he, hl] at hlen
  apply Classical.byContradiction
  intro hn
  have := encLen62_lt b.length (by omega)
  omega

/-- **the first block is fixed**: if the shown characters decode to at least 32
    bytes, then they — and every extension of them — decode to `b ++ …` where `b`
    (at least 32 bytes) is the decoding of the first 43 characters -/
theorem dec_first_block (cs m : List UInt8)
    (h : 32 ≤ (Basex.decodePrefix Gen.base62Std (cs.length + 1) cs).1.length) :
    ∃ b more more', Basex.decode Gen.base62Std.strict (cs.take 43) = .ok b ∧ 32 ≤ b.length ∧
      (Basex.decodePrefix Gen.base62Std (cs.length + 1) cs).1 = b ++ more ∧
      (Basex.decodePrefix Gen.base62Std ((cs ++ m).length + 1) (cs ++ m)).1 = b ++ more' := by
  have hl : 43 ≤ cs.length := by
    apply Classical.byContradiction
    intro hn
    have := decodePrefix_short cs (by omega)
    omega
  rw [decodePrefix_first cs _ hl] at h ⊢
  rw [decodePrefix_first (cs ++ m) _ (by simp only [List.length_append]; omega)]
  rw [List.take_append_of_le_length hl]
  cases hd : Basex.decode Gen.base62Std.strict (cs.take 43) with
  | error e => rw [hd] at h; simp at h
  | ok b =>
    have hbl := decode_block_len (cs.take 43) b (by rw [List.length_take]; omega) hd
    exact ⟨b, _, _, rfl, hbl, rfl, rfl⟩


/-! ## the normalised classifier once a block is shown -/

/-- what the classifier concludes from the frame label and the binary verdict -/
def conclude (brand typStr : Bytes) (bv : Verdict (Int × Version)) : Verdict (Bytes × Int × Version) :=
  match bv with
  | .short => .short
  | .eof => .eof
  | .notSaltpack => .notSaltpack
  | .unmodelled w => .unmodelled w
  | .ok (t, ver) =>
    let aty := typeOfArmorString typStr
    if ((t == mtSigncryption || t == mtEncryption) && aty != mtEncryption) ||
       (t == mtAttached && aty != mtAttached) || (t == mtDetached && aty != mtDetached)
    then .notSaltpack else .ok (brand, t, ver)

theorem classifyNorm_header (s brand typStr payload : Bytes) (h : matchHeader s = some (brand, typStr, payload)) :
    classifyNorm s =
      if (decOf payload).length < 32 then .short else conclude brand typStr (binarySlice (decOf payload)) := by
  unfold classifyNorm
  rw [h]
  rfl

/-- the first decoded block (32 bytes) of the shown payload characters; empty if
    there is none -/
def firstBlockOf (payload : Bytes) : Bytes :=
  match Basex.decode Gen.base62Std.strict ((charsOf payload).take 43) with
  | .ok b => b
  | .error _ => []

theorem charsOf_ext (rest x : Bytes) :
    ∃ m, charsOf ((rest ++ x).takeWhile okc) = charsOf (rest.takeWhile okc) ++ m := by
  obtain ⟨m, hm⟩ := takeWhile_append_ext okc rest x
  exact ⟨charsOf m, by unfold charsOf; rw [hm, List.filter_append]⟩

/-- **once the frame, its period and a full first block are shown, every
    extension of the (normalised) text is classified by the binary classifier on
    `first block ++ …`; if the first block alone decides the binary verdict, the
    verdict never changes** -/
theorem norm_block_stable (s brand typStr payload x : Bytes)
    (h : matchHeader s = some (brand, typStr, payload)) (h32 : 32 ≤ (decOf payload).length)
    (hset : ∀ e, binarySlice (firstBlockOf payload ++ e) = binarySlice (firstBlockOf payload)) :
    classifyNorm (s ++ x) = classifyNorm s := by
  obtain ⟨rest, hpl, hm'⟩ := matchHeader_append s brand typStr payload x h
  obtain ⟨m, hm⟩ := charsOf_ext rest x
  rw [← hpl] at hm
  obtain ⟨b, more, more', hd, hbl, h1, h2⟩ := dec_first_block (charsOf payload) m h32
  have hfb : firstBlockOf payload = b := by unfold firstBlockOf; rw [hd]
  rw [classifyNorm_header _ _ _ _ h, classifyNorm_header _ _ _ _ hm']
  have e1 : decOf payload = b ++ more := h1
  have e2 : decOf ((rest ++ x).takeWhile okc) = b ++ more' := by unfold decOf; rw [hm]; exact h2
  rw [e1, e2, if_neg (by simp only [List.length_append]; omega), if_neg (by simp only [List.length_append]; omega)]
  rw [← hfb, hset more, hset more']


/-! ## the normalised text grows with the text -/

section
variable {s2 : UInt8 → UInt8 → Bool} {s3 : UInt8 → UInt8 → UInt8 → Bool}

/-- trimming `u ++ w` from the front never eats into `w` when `w` starts with an
    ASCII byte that is not white space -/
theorem trimRunes_stop (H : HighOnly s2 s3) (k : UInt8) (w' : Bytes) (hk : isTrimSpace k = false) (hk128 : k < 128)
    (u : Bytes) : ∃ x', trimRunes s2 s3 (u ++ k :: w') = x' ++ k :: w' := by
  fun_induction trimRunes s2 s3 u with
  | case1 => exact ⟨[], by rw [List.nil_append, trimRunes_keep H k w' hk hk128]⟩
  | case2 c r hc ih =>
    rw [List.cons_append, trimRunes_cons_space _ _ hc]; exact ih
  | case3 c hc =>
    have hc' : isTrimSpace c = false := by simpa using hc
    refine ⟨[c], ?_⟩
    cases w' with
    | nil => simp [trimRunes, hc', H.h2b c k hk128]
    | cons e q'' => simp [trimRunes, hc', H.h2b c k hk128, H.h3b c k e hk128]
  | case4 c hc d r' h2 ih =>
    have hc' : isTrimSpace c = false := by simpa using hc
    rw [List.cons_append, List.cons_append, trimRunes_cons2 _ _ _ hc' h2]
    exact ih
  | case5 c hc d h2 =>
    have hc' : isTrimSpace c = false := by simpa using hc
    have h2' : s2 c d = false := by simpa using h2
    exact ⟨[c, d], by simp [trimRunes, hc', h2', H.h3c c d k hk128]⟩
  | case6 c hc d h2 e r'' h3 ih =>
    have hc' : isTrimSpace c = false := by simpa using hc
    have h2' : s2 c d = false := by simpa using h2
    rw [List.cons_append, List.cons_append, List.cons_append, trimRunes_cons3 _ _ _ _ hc' h2' h3]
    exact ih
  | case7 c hc d h2 e r'' h3 =>
    have hc' : isTrimSpace c = false := by simpa using hc
    have h2' : s2 c d = false := by simpa using h2
    have h3' : s3 c d e = false := by simpa using h3
    exact ⟨c :: d :: e :: r'', by simp [trimRunes, hc', h2', h3']⟩
end

theorem dropWhile_decomp (y : Bytes) :
    ∃ ws, y = ws ++ y.dropWhile isTrimSpace ∧ ∀ c ∈ ws, isTrimSpace c = true := by
  induction y with
  | nil => exact ⟨[], rfl, by simp⟩
  | cons a l ih =>
    by_cases ha : isTrimSpace a = true
    · obtain ⟨ws, h1, h2⟩ := ih
      refine ⟨a :: ws, ?_, ?_⟩
      · simp only [List.dropWhile_cons, ha, if_true, List.cons_append]; rw [← h1]
      · intro c hc
        simp only [List.mem_cons] at hc
        rcases hc with rfl | hc
        · exact ha
        · exact h2 c hc
    · exact ⟨[], by simp [List.dropWhile_cons, ha], by simp⟩

theorem dropWhile_head (y : Bytes) : ∀ a ∈ (y.dropWhile isTrimSpace).head?, isTrimSpace a = false := by
  induction y with
  | nil => simp
  | cons a l ih =>
    by_cases ha : isTrimSpace a = true
    · simp only [List.dropWhile_cons, ha, if_true]; exact ih
    · simp [List.dropWhile_cons, ha]

/-- **for an ASCII text `y`, the trimmed `y ++ y'` starts with the trimmed `y`**
    (if that is not empty) — whatever `y'` is -/
theorem trimSpace_append_ascii (y y' : Bytes) (hy : ∀ c ∈ y, c < 128) (hne : trimSpace y ≠ []) :
    ∃ x, trimSpace (y ++ y') = trimSpace y ++ x := by
  rw [trimSpace_eq_ascii y hy] at hne ⊢
  unfold trimSpaceAscii at hne ⊢
  obtain ⟨ws, hws, hwsp⟩ := dropWhile_decomp y
  generalize hz : y.dropWhile isTrimSpace = z at hws hne ⊢
  have hzy : ∀ c ∈ z, c < 128 := fun c hc => hy c (by rw [hws]; simp [hc])
  cases z with
  | nil => simp at hne
  | cons a z' =>
    have ha : isTrimSpace a = false := by
      have := dropWhile_head y a (by rw [hz]; rfl)
      exact this
    have ha128 : a < 128 := hzy a (by simp)
    -- left trimming of the extension
    have hL : trimLeft (y ++ y') = (a :: z') ++ y' := by
      unfold trimLeft
      rw [hws, List.append_assoc, trimRunes_pre _ _ hwsp, List.cons_append, trimRunes_keep highOnly_left a _ ha ha128]
    -- the reversed text: trailing white space, then the last kept byte
    obtain ⟨sp, hsp, hspp⟩ := dropWhile_decomp (a :: z').reverse
    generalize hw : (a :: z').reverse.dropWhile isTrimSpace = w at hsp hne ⊢
    cases w with
    | nil => simp at hne
    | cons k w' =>
      have hk : isTrimSpace k = false := dropWhile_head (a :: z').reverse k (by rw [hw]; rfl)
      have hk128 : k < 128 := by
        apply hzy
        have : k ∈ (a :: z').reverse := by rw [hsp]; simp
        exact List.mem_reverse.mp this
      obtain ⟨x', hx'⟩ := trimRunes_stop highOnly_right k w' hk hk128 (y'.reverse ++ sp)
      refine ⟨x'.reverse, ?_⟩
      unfold trimSpace trimRightRev
      rw [hL, List.reverse_append, hsp, ← List.append_assoc, hx']
      simp

/-- **normalisation is monotone on ASCII prefixes**: the normal form of `p ++ q`
    starts with the normal form of `p` (if that is not empty) -/
theorem norm_append (p q : Bytes) (hp : ∀ c ∈ p, c < 128) (hne : trimSpace (collapse p) ≠ []) :
    ∃ x, trimSpace (collapse (p ++ q)) = trimSpace (collapse p) ++ x := by
  unfold collapse at hne ⊢
  rw [collapseAux_append]
  apply trimSpace_append_ascii _ _ _ hne
  intro c hc
  rcases collapseAux_mem p false c hc with h | h
  · exact hp c h
  · subst h; decide


/-! ## the armored classifier once a block is shown -/

theorem matchHeader_nil : matchHeader [] = none := by decide

/-- **armored prefix stability**: an ASCII prefix `p` that shows the frame, its
    period and one full base62 block whose 32 decoded bytes alone decide the binary
    verdict (`hset`) is classified like every extension `p ++ q` of it — for
    arbitrary bytes `q` -/
theorem arm_block_stable (p q : Bytes) (hp : ∀ c ∈ p, c < 128) (brand typStr payload : Bytes)
    (h : matchHeader (trimSpace (collapse p)) = some (brand, typStr, payload))
    (h32 : 32 ≤ (decOf payload).length)
    (hset : ∀ e, binarySlice (firstBlockOf payload ++ e) = binarySlice (firstBlockOf payload)) :
    armoredPrefix (p ++ q) = armoredPrefix p := by
  have hne : trimSpace (collapse p) ≠ [] := by
    intro h0; rw [h0, matchHeader_nil] at h; cases h
  obtain ⟨x, hx⟩ := norm_append p q hp hne
  rw [armoredPrefix_norm, armoredPrefix_norm, hx]
  exact norm_block_stable _ brand typStr payload x h h32 hset

/-- the verdict in that situation, spelled out -/
theorem arm_block_verdict (p : Bytes) (brand typStr payload : Bytes)
    (h : matchHeader (trimSpace (collapse p)) = some (brand, typStr, payload))
    (h32 : 32 ≤ (decOf payload).length) :
    armoredPrefix p = conclude brand typStr (binarySlice (decOf payload)) := by
  rw [armoredPrefix_norm, classifyNorm_header _ _ _ _ h, if_neg (by omega)]

/-- a first block on which the binary classifier answers with a mode decides -/
theorem settled_of_ok (b : Bytes) (r : Int × Version) (h : binarySlice b = .ok r) :
    ∀ e, binarySlice (b ++ e) = binarySlice b := by
  intro e
  rw [h]
  exact bin_ok_stable b e r.1 r.2 h

/-- **a mode/version verdict that the first block carries never changes** -/
theorem arm_ok_stable (p q : Bytes) (hp : ∀ c ∈ p, c < 128) (brand typStr payload : Bytes)
    (h : matchHeader (trimSpace (collapse p)) = some (brand, typStr, payload))
    (h32 : 32 ≤ (decOf payload).length)
    (r : Int × Version) (hok : binarySlice (firstBlockOf payload) = .ok r) :
    armoredPrefix (p ++ q) = conclude brand typStr (.ok r) ∧ armoredPrefix p = conclude brand typStr (.ok r) := by
  have hset := settled_of_ok _ r hok
  have hst := arm_block_stable p q hp brand typStr payload h h32 hset
  have hv := arm_block_verdict p brand typStr payload h h32
  obtain ⟨b, more, _, hd, _, h1, _⟩ := dec_first_block (charsOf payload) [] h32
  have hfb : firstBlockOf payload = b := by unfold firstBlockOf; rw [hd]
  have e1 : decOf payload = firstBlockOf payload ++ more := by rw [hfb]; exact h1
  rw [e1, hset more, hok] at hv
  exact ⟨by rw [hst, hv], hv⟩

end Saltpack.Proofs.ClsStable
