/-
  Helper lemmas for Proofs/ClassifyLemmas (armored prefix classifier): the
  header expression needs a period; canonical word lists; prefixes of canonical
  strings; the finite checks on `SALTPACK <type>` prefixes.
-/
import Saltpack.Model.Classify
import Saltpack.Proofs.ArmorRT
namespace Saltpack.Proofs.ClsAux
open Saltpack Saltpack.Classify Saltpack.Armor

/-! ### the header expression needs a period -/

theorem stripPrefix_sub (p b r : Bytes) (h : stripPrefix? p b = some r) : ∀ c ∈ r, c ∈ b := by
  unfold stripPrefix? at h
  split at h
  · cases h
    intro c hc
    exact List.mem_of_mem_drop hc
  · cases h

theorem matchTail_period (b : Bytes) (x : Bytes × Bytes) (h : matchTail b = some x) : period ∈ b := by
  unfold matchTail at h
  split at h
  · cases h
  · rename_i r hr
    have hsub := stripPrefix_sub _ _ _ hr
    suffices hs : period ∈ r from hsub _ hs
    have key : ∀ (t : Bytes) (y : Bytes × Bytes),
        (match stripPrefix? t r with
          | none => none
          | some r1 =>
            let r2 := match r1 with | c :: cs => if c == Armor.space then cs else r1 | [] => r1
            let afterDot : Option Bytes :=
              match r2 with
              | c :: cs => if c == Armor.period then some cs else
                  (match r1 with | c1 :: cs1 => if c1 == Armor.period then some cs1 else none | [] => none)
              | [] => none
            afterDot.map (fun x => (t, x.takeWhile (fun c => isAlnum c || c == Armor.space)))) = some y →
        period ∈ r := by
      intro t y hy
      split at hy
      · cases hy
      · rename_i r1 hr1
        have hsub1 := stripPrefix_sub _ _ _ hr1
        suffices hs : period ∈ r1 from hsub1 _ hs
        simp only [Option.map_eq_some_iff] at hy
        obtain ⟨a, ha, _⟩ := hy
        cases r1 with
        | nil => simp at ha
        | cons c cs =>
          by_cases hc : c = period
          · simp [hc]
          · by_cases hsp : (c == space) = true
            · simp only [hsp, if_true] at ha
              cases cs with
              | nil => simp at ha
              | cons c' cs' =>
                by_cases hc' : c' = period
                · simp [hc']
                · simp [hc', hc] at ha
            · simp [hsp, hc] at ha
    simp only at h
    split at h
    · rename_i y hy; exact key _ _ hy
    · split at h
      · rename_i y hy; exact key _ _ hy
      · exact key _ _ h

theorem matchHeader_period (s : Bytes) (x : Bytes × Bytes × Bytes) (h : matchHeader s = some x) : period ∈ s := by
  unfold matchHeader at h
  split at h
  · cases h
  · rename_i r hr
    have hsub := stripPrefix_sub _ _ _ hr
    suffices hs : period ∈ r from hsub _ hs
    simp only at h
    split at h
    · rename_i y hy
      split at hy
      · cases hy
      · split at hy
        · rename_i c cs hab
          split at hy
          · simp only [Option.map_eq_some_iff] at hy
            obtain ⟨a, ha, _⟩ := hy
            have := matchTail_period _ _ ha
            have h2 : period ∈ c :: cs := List.mem_cons_of_mem _ this
            rw [← hab] at h2
            exact List.mem_of_mem_drop h2
          · cases hy
        · cases hy
    · simp only [Option.map_eq_some_iff] at h
      obtain ⟨a, ha, _⟩ := h
      exact matchTail_period _ _ ha

theorem matchHeader_none (s : Bytes) (h : period ∉ s) : matchHeader s = none := by
  cases hm : matchHeader s with
  | none => rfl
  | some x => exact absurd (matchHeader_period s x hm) h

/-! ### alphanumeric words -/

theorem alnum_class (c : UInt8) (h : isAlnum c = true) :
    isFrameSpace c = false ∧ isTrimSpace c = false ∧ (c == space) = false ∧ c ≠ period := by
  revert c
  apply u8_forall
  decide +kernel

theorem alnum_lt (c : UInt8) (h : isAlnum c = true) : c < 128 := by
  revert c
  apply u8_forall
  decide +kernel

theorem alnum_of_brand (c : UInt8) (h : (48 ≤ c ∧ c ≤ 57) ∨ (65 ≤ c ∧ c ≤ 90) ∨ (97 ≤ c ∧ c ≤ 122)) :
    isAlnum c = true := by
  revert c
  apply u8_forall
  decide +kernel

/-- a non-empty alphanumeric word -/
def AN (w : Bytes) : Prop := w ≠ [] ∧ ∀ c ∈ w, isAlnum c = true

instance (w : Bytes) : Decidable (AN w) := by unfold AN; infer_instance

/-- what `armoredPrefix` does with the normalised string -/
def classifyNorm (s : Bytes) : Verdict (Bytes × Int × Version) :=
  match matchHeader s with
  | none =>
    if !fewWords s then .notSaltpack
    else
      let strs := Armor.splitSp s
      let begin_ := Gen.c_sp_headerMarker
      if strs.length = 1 then (if isPrefixB (strs.headD []) begin_ then .short else .notSaltpack)
      else if strs.length = 2 then (if strs.headD [] == begin_ then .short else .notSaltpack)
      else if strs.length ≤ 5 then
        let hwb := Armor.intercalateSp (strs.headD [] :: strs.drop 2)
        let hp := begin_ ++ [Armor.space] ++ Armor.upper Gen.c_sp_FormatName
        let e := hp ++ [Armor.space] ++ Gen.c_sp_EncryptionArmorString
        let g := hp ++ [Armor.space] ++ Gen.c_sp_SignedArmorString
        let d := hp ++ [Armor.space] ++ Gen.c_sp_DetachedSignatureArmorString
        if isPrefixB hwb e || isPrefixB hwb g || isPrefixB hwb d || isPrefixB s e || isPrefixB s g || isPrefixB s d
        then .short else .notSaltpack
      else .unmodelled "logic error in ClassifyStream"
  | some (brand, typStr, payload) =>
    let chars := payload.filter (· != Armor.space)
    let (dec, _derr) := Basex.decodePrefix Gen.base62Std (chars.length + 1) chars
    if dec.length < 32 then .short
    else
      match binarySlice dec with
      | .short => .short
      | .eof => .eof
      | .notSaltpack => .notSaltpack
      | .unmodelled w => .unmodelled w
      | .ok (t, ver) =>
        let aty := typeOfArmorString typStr
        if ((t == mtSigncryption || t == mtEncryption) && aty != mtEncryption) ||
           (t == mtAttached && aty != mtAttached) || (t == mtDetached && aty != mtDetached)
        then .notSaltpack else .ok (brand, t, ver)

theorem armoredPrefix_norm (pref : Bytes) : armoredPrefix pref = classifyNorm (trimSpace (collapse pref)) := rfl

/-- the three comparisons of the brand-less words -/
def hwbCheck (ws' : List Bytes) : Bool :=
  let hwb := Armor.intercalateSp (Gen.c_sp_headerMarker :: ws')
  let hp := Gen.c_sp_headerMarker ++ [Armor.space] ++ Armor.upper Gen.c_sp_FormatName
  isPrefixB hwb (hp ++ [Armor.space] ++ Gen.c_sp_EncryptionArmorString) ||
    isPrefixB hwb (hp ++ [Armor.space] ++ Gen.c_sp_SignedArmorString) ||
    isPrefixB hwb (hp ++ [Armor.space] ++ Gen.c_sp_DetachedSignatureArmorString)

theorem words_facts (ws : List Bytes) (hne : ws ≠ []) (h : ∀ w ∈ ws, AN w) :
    matchHeader (intercalateSp ws) = none ∧ splitSp (intercalateSp ws) = ws ∧
      fewWords (intercalateSp ws) = decide (ws.length ≤ 5) := by
  have hall : ∀ c ∈ intercalateSp ws, isAlnum c = true ∨ c = space := by
    intro c hc
    rcases mem_intercalateSp ws c hc with h1 | ⟨w, hw, hcw⟩
    · exact Or.inr h1
    · exact Or.inl ((h w hw).2 c hcw)
  have hsplit : splitSp (intercalateSp ws) = ws := by
    cases ws with
    | nil => exact absurd rfl hne
    | cons w rest =>
      exact splitSp_intercalate w rest (fun v hv c hc => (alnum_class c ((h v hv).2 c hc)).2.2.1)
  refine ⟨?_, hsplit, ?_⟩
  · apply matchHeader_none
    intro hp
    rcases hall _ hp with h1 | h1
    · exact (alnum_class _ h1).2.2.2 rfl
    · exact absurd h1 (by decide)
  · unfold fewWords
    simp only [hsplit]
    have h1 : (intercalateSp ws).all (fun c => isAlnum c || c == Armor.space) = true := by
      rw [List.all_eq_true]
      intro c hc
      rcases hall c hc with h1 | h1
      · simp [h1]
      · simp [h1]
    have h2 : ws.dropLast.all (fun w => !w.isEmpty) = true := by
      rw [List.all_eq_true]
      intro w hw
      have := (h w (List.dropLast_subset _ hw)).1
      cases w with
      | nil => exact absurd rfl this
      | cons _ _ => rfl
    have h3 : (ws.getLast?.getD []).isEmpty = false := by
      cases hl : ws.getLast? with
      | none => rw [List.getLast?_eq_none_iff] at hl; exact absurd hl hne
      | some w =>
        have := (h w (List.mem_of_getLast? hl)).1
        cases w with
        | nil => exact absurd rfl this
        | cons _ _ => rfl
    have h0 : (intercalateSp ws).isEmpty = false := by
      cases ws with
      | nil => exact absurd rfl hne
      | cons w rest =>
        have := intercalateSp_cons_ne_nil w rest (h w (by simp)).1
        cases hi : intercalateSp (w :: rest) with
        | nil => exact absurd hi this
        | cons _ _ => rfl
    rw [h0, h1, h2, h3]
    simp

/-- two words: `BEGIN` and a started brand -/
theorem norm_two (w : Bytes) (hw : AN w) :
    classifyNorm (intercalateSp [Gen.c_sp_headerMarker, w]) = .short := by
  obtain ⟨h1, h2, h3⟩ := words_facts [Gen.c_sp_headerMarker, w] (by simp) (by
    intro v hv
    simp only [List.mem_cons, List.not_mem_nil, or_false] at hv
    rcases hv with rfl | rfl
    · decide
    · exact hw)
  unfold classifyNorm
  rw [h1]
  simp only [h3, h2]
  simp

/-- `BEGIN brand` and one to three words more -/
theorem norm_brand (brand : Bytes) (hb : AN brand) (ws' : List Bytes) (hne : ws' ≠ []) (hlen : ws'.length ≤ 3)
    (hws : ∀ w ∈ ws', AN w) (hchk : hwbCheck ws' = true) :
    classifyNorm (intercalateSp (Gen.c_sp_headerMarker :: brand :: ws')) = .short := by
  obtain ⟨h1, h2, h3⟩ := words_facts (Gen.c_sp_headerMarker :: brand :: ws') (by simp) (by
    intro v hv
    simp only [List.mem_cons] at hv
    rcases hv with rfl | rfl | hv
    · decide
    · exact hb
    · exact hws v hv)
  have hl : 1 ≤ ws'.length := by
    cases ws' with
    | nil => exact absurd rfl hne
    | cons _ _ => simp
  unfold classifyNorm
  rw [h1]
  simp only [h3, h2]
  unfold hwbCheck at hchk
  simp only at hchk
  have e1 : (Gen.c_sp_headerMarker :: brand :: ws').length = ws'.length + 2 := by simp
  simp only [e1, List.headD_cons, List.drop_succ_cons, List.drop_zero, hchk]
  rw [if_neg (by simp; omega), if_neg (by omega), if_neg (by omega), if_pos (by omega)]
  simp

/-! ### prefixes of a canonical string -/

theorem collapseAux_length_le (b : Bytes) : ∀ r, (collapseAux r b).length ≤ b.length := by
  induction b with
  | nil => intro r; simp [collapseAux]
  | cons c cs ih =>
    intro r
    unfold collapseAux
    split
    · split
      · have := ih true; simp only [List.length_cons]; omega
      · have := ih true; simp only [List.length_cons]; omega
    · have := ih false; simp only [List.length_cons]; omega

/-- a prefix of a collapse-fixed string is collapse-fixed -/
theorem collapseAux_take (l : Bytes) : ∀ (r : Bool) (k : Nat), collapseAux r l = l →
    collapseAux r (l.take k) = l.take k := by
  induction l with
  | nil => intro r k _; simp [collapseAux]
  | cons c cs ih =>
    intro r k h
    cases k with
    | zero => simp [collapseAux]
    | succ k =>
      rw [List.take_succ_cons]
      unfold collapseAux at h ⊢
      by_cases hc : isFrameSpace c = true
      · simp only [hc, if_true] at h ⊢
        cases r with
        | true =>
          simp only [if_true] at h
          have := collapseAux_length_le cs true
          rw [h] at this
          simp only [List.length_cons] at this
          omega
        | false =>
          simp only [Bool.false_eq_true, if_false, List.cons.injEq] at h ⊢
          exact ⟨h.1, ih true k h.2⟩
      · have hc' : isFrameSpace c = false := by simpa using hc
        simp only [hc', Bool.false_eq_true, if_false, List.cons.injEq, true_and] at h ⊢
        exact ih false k h

/-- split off one trailing space -/
def trimEnd (x : Bytes) : Bytes × Bytes :=
  if x.getLast? = some space then (x.dropLast, [space]) else (x, [])

theorem trimEnd_eq (x : Bytes) : x = (trimEnd x).1 ++ (trimEnd x).2 := by
  unfold trimEnd
  split
  · rename_i h
    obtain ⟨ys, rfl⟩ := List.getLast?_eq_some_iff.mp h
    simp
  · simp

theorem trimEnd_snd (x : Bytes) : ∀ c ∈ (trimEnd x).2, isTrimSpace c = true := by
  unfold trimEnd
  split
  · intro c hc
    simp only [List.mem_cons, List.not_mem_nil, or_false] at hc
    subst hc; decide
  · intro c hc; simp at hc


/-! ### the finite part: `SALTPACK <type>` and its prefixes -/

/-- the frame after the brand -/
def frameRest (sffx : Bytes) : Bytes := upper Gen.c_sp_FormatName ++ [space] ++ sffx

def restWords (sffx : Bytes) (j : Nat) : List Bytes := splitSp (trimEnd ((frameRest sffx).take j)).1

theorem rest_fin : ∀ sffx ∈ [Gen.c_sp_EncryptionArmorString, Gen.c_sp_SignedArmorString,
      Gen.c_sp_DetachedSignatureArmorString], ∀ j, j < 40 → 1 ≤ j →
    (∀ w ∈ restWords sffx j, AN w) ∧ restWords sffx j ≠ [] ∧ (restWords sffx j).length ≤ 3 ∧
      intercalateSp (restWords sffx j) = (trimEnd ((frameRest sffx).take j)).1 ∧
      hwbCheck (restWords sffx j) = true := by
  decide +kernel

theorem rest_len : ∀ sffx ∈ [Gen.c_sp_EncryptionArmorString, Gen.c_sp_SignedArmorString,
      Gen.c_sp_DetachedSignatureArmorString], (frameRest sffx).length ≤ 39 := by
  decide

theorem nobrand_fin : ∀ typ ∈ [mtEncryption, mtAttached, mtDetached], ∀ k, k < 40 →
    armoredPrefix ((Armor.header typ []).take k) = .short := by
  decide +kernel

theorem nobrand_len : ∀ typ ∈ [mtEncryption, mtAttached, mtDetached], (Armor.header typ []).length ≤ 39 := by
  decide

theorem begin_fin : ∀ k, k < 7 →
    armoredPrefix ((Gen.c_sp_headerMarker ++ [space]).take k) = .short := by
  decide +kernel

theorem take_cap (l : Bytes) (hl : l.length ≤ 39) (k : Nat) : ∃ k', k' < 40 ∧ (1 ≤ k → 1 ≤ k') ∧ l.take k = l.take k' := by
  by_cases hk : k < 40
  · exact ⟨k, hk, id, rfl⟩
  · refine ⟨39, by omega, fun _ => by omega, ?_⟩
    rw [List.take_of_length_le (by omega), List.take_of_length_le hl]

theorem intercalateSp_cons2 (a b : Bytes) (ws : List Bytes) (h : ws ≠ []) :
    intercalateSp (a :: b :: ws) = a ++ [space] ++ b ++ [space] ++ intercalateSp ws := by
  cases ws with
  | nil => exact absurd rfl h
  | cons w rest => simp [intercalateSp]


theorem armorable_sffx (typ : Int) (ht : Armorable typ) :
    typ ∈ [mtEncryption, mtAttached, mtDetached] ∧
    ∃ sffx, typeString typ = some sffx ∧ sffx ∈ [Gen.c_sp_EncryptionArmorString, Gen.c_sp_SignedArmorString,
      Gen.c_sp_DetachedSignatureArmorString] := by
  rcases ht with rfl | rfl | rfl
  · exact ⟨by simp, _, rfl, by simp⟩
  · exact ⟨by simp, _, rfl, by simp⟩
  · exact ⟨by simp, _, rfl, by simp⟩


/-! ## the frame with its period -/


theorem decodePrefix_nil (enc : Basex.Enc) (fuel : Nat) : Basex.decodePrefix enc fuel [] = ([], none) := by
  cases fuel <;> simp [Basex.decodePrefix]

theorem encLen62_ge (n : Nat) (h : 32 ≤ n) : 43 ≤ Gen.base62Std.strict.encLen n := by
  unfold Basex.Enc.encLen
  have h1 : Gen.base62Std.strict.blockLen = 32 := rfl
  have h2 : Gen.base62Std.strict.charBlockLen = 43 := rfl
  rw [h1, h2]
  have : 1 ≤ n / 32 := (Nat.le_div_iff_mul_le (by omega)).mpr (by omega)
  have : 43 ≤ n / 32 * 43 := by
    calc 43 = 1 * 43 := by omega
      _ ≤ n / 32 * 43 := Nat.mul_le_mul_right 43 this
  omega

/-- fewer than one block of characters decodes to fewer than 32 bytes (or not at all) -/
theorem decodePrefix_short (cs : List UInt8) (h : cs.length < 43) :
    (Basex.decodePrefix Gen.base62Std (cs.length + 1) cs).1.length < 32 := by
  rw [Basex.decodePrefix]
  split
  · simp
  · have h2 : Gen.base62Std.charBlockLen = 43 := rfl
    simp only [h2]
    rw [List.take_of_length_le (by omega), List.drop_eq_nil_of_le (by omega), decodePrefix_nil]
    cases hd : Basex.decode Gen.base62Std.strict cs with
    | error e => simp
    | ok b =>
      simp only [List.append_nil]
      have hwf : Gen.base62Std.strict.WF := strict_wf wf62
      have he := decode_canonical _ hwf rfl cs b hd
      have hl := encode_length _ hwf b
      rw [he] at hl
      apply Classical.byContradiction
      intro hn
      have := encLen62_ge b.length (by omega)
      omega

/-! ### the header expression on a frame with its period -/

theorem stripPrefix_append (p x : Bytes) : stripPrefix? p (p ++ x) = some x := by
  unfold stripPrefix?
  have : p.isPrefixOf (p ++ x) = true := by
    rw [List.isPrefixOf_iff_prefix]; exact List.prefix_append p x
  rw [if_pos this, List.drop_left]

/-- the two strings differ at a common position -/
def clash : Bytes → Bytes → Bool
  | a :: p, b :: t => a != b || clash p t
  | _, _ => false

theorem stripPrefix_none (p t x : Bytes) (hn : clash p t = true) :
    stripPrefix? p (t ++ x) = none := by
  have : p.isPrefixOf (t ++ x) = false := by
    induction p generalizing t with
    | nil => simp [clash] at hn
    | cons a p ih =>
      cases t with
      | nil => simp [clash] at hn
      | cons b t =>
        simp only [clash, Bool.or_eq_true, bne_iff_ne, ne_eq] at hn
        simp only [List.cons_append, List.isPrefixOf_cons_cons, Bool.and_eq_false_iff, beq_eq_false_iff_ne, ne_eq]
        by_cases hab : a = b
        · exact Or.inr (ih t (by simpa [hab] using hn))
        · exact Or.inl hab
  unfold stripPrefix?
  rw [this]
  rfl

theorem takeWhile_all {α : Type} (p : α → Bool) (l : List α) (h : ∀ c ∈ l, p c = true) : l.takeWhile p = l := by
  induction l with
  | nil => rfl
  | cons a l ih =>
    simp only [List.takeWhile_cons, h a (by simp), if_true]
    rw [ih (fun c hc => h c (by simp [hc]))]

theorem takeWhile_word {α : Type} (p : α → Bool) (w : List α) (c : α) (x : List α)
    (h : ∀ a ∈ w, p a = true) (hc : p c = false) : (w ++ c :: x).takeWhile p = w := by
  induction w with
  | nil => simp [hc]
  | cons a l ih =>
    simp only [List.cons_append, List.takeWhile_cons, h a (by simp), if_true]
    rw [ih (fun c hc => h c (by simp [hc]))]

def sffxs : List Bytes := [Gen.c_sp_EncryptionArmorString, Gen.c_sp_SignedArmorString,
      Gen.c_sp_DetachedSignatureArmorString]

theorem matchTail_frame (sffx Z : Bytes) (hs : sffx ∈ sffxs)
    (hZ : ∀ c ∈ Z, isAlnum c = true ∨ c = space) :
    matchTail (upper Gen.c_sp_FormatName ++ [space] ++ (sffx ++ period :: Z)) = some (sffx, Z) := by
  have hZ' : Z.takeWhile (fun c => isAlnum c || c == Armor.space) = Z := by
    apply takeWhile_all
    intro c hc
    rcases hZ c hc with h | h <;> simp [h]
  have hps : (period == space) = false := by decide
  have e1 : ∀ x, stripPrefix? Gen.c_sp_EncryptionArmorString (Gen.c_sp_SignedArmorString ++ x) = none :=
    fun x => stripPrefix_none _ _ x (by decide)
  have e2 : ∀ x, stripPrefix? Gen.c_sp_EncryptionArmorString (Gen.c_sp_DetachedSignatureArmorString ++ x) = none :=
    fun x => stripPrefix_none _ _ x (by decide)
  have e3 : ∀ x, stripPrefix? Gen.c_sp_SignedArmorString (Gen.c_sp_DetachedSignatureArmorString ++ x) = none :=
    fun x => stripPrefix_none _ _ x (by decide)
  unfold matchTail
  rw [stripPrefix_append]
  simp only [sffxs, List.mem_cons, List.not_mem_nil, or_false] at hs
  rcases hs with rfl | rfl | rfl <;>
  simp only [e1, e2, e3, stripPrefix_append, hps, beq_self_eq_true, if_true, Bool.false_eq_true, if_false, Option.map_some, hZ']


theorem matchTail_sffx_none (sffx x : Bytes) (hs : sffx ∈ sffxs) : matchTail (sffx ++ x) = none := by
  unfold matchTail
  simp only [sffxs, List.mem_cons, List.not_mem_nil, or_false] at hs
  rcases hs with rfl | rfl | rfl
  · rw [stripPrefix_none _ _ x (by decide)]
  · rw [stripPrefix_none _ _ x (by decide)]
  · rw [stripPrefix_none _ _ x (by decide)]

theorem matchHeader_frame (typ : Int) (sffx : Bytes) (hts : typeString typ = some sffx) (hs : sffx ∈ sffxs)
    (brand : Bytes) (hb : BrandOK brand) (Z : Bytes) (hZ : ∀ c ∈ Z, isAlnum c = true ∨ c = space) :
    matchHeader (header typ brand ++ period :: Z) = some (brand, sffx, Z) := by
  have hsp : isAlnum space = false := by decide
  have hSP : ∀ c ∈ upper Gen.c_sp_FormatName, isAlnum c = true := by decide
  have hmt := matchTail_frame sffx Z hs hZ
  rw [(header_shape typ sffx hts brand).1]
  by_cases hbe : brand = []
  · subst hbe
    simp only [List.isEmpty_nil, if_true]
    have : Gen.c_sp_headerMarker ++ [space] ++ upper Gen.c_sp_FormatName ++ [space] ++ sffx ++ period :: Z =
        (Gen.c_sp_headerMarker ++ [space]) ++ (upper Gen.c_sp_FormatName ++ space :: (sffx ++ period :: Z)) := by simp
    rw [this]
    unfold matchHeader
    rw [stripPrefix_append]
    simp only [takeWhile_word isAlnum _ space _ hSP hsp, List.drop_left, beq_self_eq_true, if_true,
      matchTail_sffx_none sffx _ hs, Option.map_none]
    have : upper Gen.c_sp_FormatName ++ space :: (sffx ++ period :: Z) =
        upper Gen.c_sp_FormatName ++ [space] ++ (sffx ++ period :: Z) := by simp
    rw [this, hmt]
    have : (upper Gen.c_sp_FormatName).isEmpty = false := by decide
    simp [this]
  · have hbAN : AN brand := ⟨hbe, fun c hc => alnum_of_brand c (hb.2 c hc)⟩
    rw [if_neg (by simpa using hbe)]
    have : Gen.c_sp_headerMarker ++ [space] ++ brand ++ [space] ++ upper Gen.c_sp_FormatName ++ [space] ++ sffx ++ period :: Z =
        (Gen.c_sp_headerMarker ++ [space]) ++ (brand ++ space :: (upper Gen.c_sp_FormatName ++ [space] ++ (sffx ++ period :: Z))) := by simp
    rw [this]
    unfold matchHeader
    rw [stripPrefix_append]
    have hie : brand.isEmpty = false := by
      cases brand with
      | nil => exact absurd rfl hbe
      | cons _ _ => rfl
    simp only [takeWhile_word isAlnum _ space _ hbAN.2 hsp, List.drop_left, beq_self_eq_true, if_true, hmt, hie]
    simp


/-! ### normalising a frame followed by payload characters -/

theorem collapseAux_mem (b : Bytes) : ∀ (r : Bool), ∀ c ∈ collapseAux r b, c ∈ b ∨ c = space := by
  induction b with
  | nil => intro r c hc; simp [collapseAux] at hc
  | cons a cs ih =>
    intro r c hc
    unfold collapseAux at hc
    split at hc
    · split at hc
      · rcases ih true c hc with h | h
        · exact Or.inl (List.mem_cons_of_mem _ h)
        · exact Or.inr h
      · simp only [List.mem_cons] at hc
        rcases hc with h | hc
        · exact Or.inr h
        · rcases ih true c hc with h | h
          · exact Or.inl (List.mem_cons_of_mem _ h)
          · exact Or.inr h
    · simp only [List.mem_cons] at hc
      rcases hc with h | hc
      · exact Or.inl (by simp [h])
      · rcases ih false c hc with h | h
        · exact Or.inl (List.mem_cons_of_mem _ h)
        · exact Or.inr h

theorem collapseAux_filter (b : Bytes) (hb : ∀ c ∈ b, isAlnum c = true ∨ c = space) : ∀ (r : Bool),
    (collapseAux r b).filter (· != space) = b.filter (· != space) := by
  induction b with
  | nil => intro r; simp [collapseAux]
  | cons a cs ih =>
    intro r
    have ih' := ih (fun c hc => hb c (by simp [hc]))
    rcases hb a (by simp) with ha | ha
    · have h1 := (alnum_class a ha).1
      unfold collapseAux
      simp only [h1, Bool.false_eq_true, if_false, List.filter_cons, ih' false]
    · subst ha
      have h1 : isFrameSpace space = true := by decide
      unfold collapseAux
      cases r <;> simp [h1, ih' true]

/-- drop trailing white space -/
def rtrim (w : Bytes) : Bytes := (w.reverse.dropWhile isTrimSpace).reverse

theorem trim_tail (a w : Bytes) (h1 : ∀ c ∈ a.head?, isTrimSpace c = false) (h2 : ∀ c ∈ a.getLast?, isTrimSpace c = false)
    (hne : a ≠ []) (hasc : ∀ c ∈ a ++ w, c < 128) : trimSpace (a ++ w) = a ++ rtrim w := by
  rw [trimSpace_eq_ascii _ hasc]
  unfold trimSpaceAscii rtrim
  rw [dropWhile_id (a ++ w) (by
    cases a with
    | nil => exact absurd rfl hne
    | cons x l => simpa using h1)]
  rw [List.reverse_append, List.dropWhile_append]
  split
  · rename_i he
    rw [dropWhile_id a.reverse (by rw [List.head?_reverse]; exact h2)]
    rw [List.isEmpty_iff] at he
    rw [he]; simp
  · simp

theorem rtrim_decomp (w : Bytes) : ∃ q, w = rtrim w ++ q ∧ ∀ c ∈ q, isTrimSpace c = true ∧ c ∈ w := by
  refine ⟨(w.reverse.takeWhile isTrimSpace).reverse, ?_, ?_⟩
  · unfold rtrim
    rw [← List.reverse_append, List.takeWhile_append_dropWhile, List.reverse_reverse]
  · intro c hc
    rw [List.mem_reverse] at hc
    refine ⟨mem_takeWhile_pos _ _ _ hc, ?_⟩
    have := (List.takeWhile_sublist _).subset hc
    simpa using this

theorem rtrim_facts (w : Bytes) (hw : ∀ c ∈ w, isAlnum c = true ∨ c = space) :
    (∀ c ∈ rtrim w, isAlnum c = true ∨ c = space) ∧
      (rtrim w).filter (· != space) = w.filter (· != space) := by
  obtain ⟨q, hq, hqs⟩ := rtrim_decomp w
  refine ⟨?_, ?_⟩
  · intro c hc
    apply hw
    rw [hq]
    exact List.mem_append_left _ hc
  · have : q.filter (· != space) = [] := by
      rw [List.filter_eq_nil_iff]
      intro c hc
      rcases hw c (hqs c hc).2 with h | h
      · have := (alnum_class c h).2.1
        rw [(hqs c hc).1] at this
        cases this
      · simp [h]
    conv => rhs; rw [hq, List.filter_append, this, List.append_nil]


end Saltpack.Proofs.ClsAux
