/-
  TRANSFER of the older `Wire`-based byte theorems to the Codec-first front end
  (repair R1).

  The round trips `C01/C03/C05/C07_roundtrip_bytes*` (and C08, C09 on bytes) say
  "what a model sender emits, split by `Wire.split*`, opens".  `Front.read*` now
  asks `Codec.split*` first.  On every genuine sender output the bridge
  (`bridge_seal_*`) shows both readers give the SAME header read and packet
  stream; hence whatever `Wire.split*` answers there is what `Front.read*` answers,
  and every statement about `openAll … hr ps` for the `Wire` split is a statement
  about `Decrypt.openBytes` / `Signcrypt.openBytes` / `Sign.verifyBytes` on the
  emitted bytes.

  Core Lean only.
-/
import Saltpack.Proofs.CodecBytesBridge
import Saltpack.Proofs.CodecBytes

namespace Saltpack.Proofs
open Saltpack Saltpack.Msgpack Saltpack.Proofs.WireRT Saltpack.Proofs.CodecP

/-! ### all-at-once result = streaming result without error -/

theorem dec_openAll_ok {P : Prims} {valid : Validator} {kr : Keyring} {hr : HeaderRead EncHeader}
    {ps : PStream EncBlock} {m : MKI} {pt : Bytes} (h : Decrypt.openAll P valid kr hr ps = .ok (m, pt)) :
    (Decrypt.openStream P valid kr hr ps).err = none ∧ (Decrypt.openStream P valid kr hr ps).released = pt ∧
    (Decrypt.openStream P valid kr hr ps).mki = some m := by
  unfold Decrypt.openAll at h
  generalize Decrypt.openStream P valid kr hr ps = r at h
  obtain ⟨mk, rel, err, calls⟩ := r
  cases err <;> cases mk <;> simp_all

theorem sc_openAll_ok {P : Prims} {kr : Keyring} {res : Signcrypt.Resolver} {hr : HeaderRead EncHeader}
    {ps : PStream SigncryptBlock} {snd : Option Bytes} {pt : Bytes}
    (h : Signcrypt.openAll P kr res hr ps = .ok (snd, pt)) :
    (Signcrypt.openStream P kr res hr ps).err = none ∧ (Signcrypt.openStream P kr res hr ps).released = pt ∧
    (Signcrypt.openStream P kr res hr ps).sender = snd := by
  unfold Signcrypt.openAll at h
  generalize Signcrypt.openStream P kr res hr ps = r at h
  obtain ⟨sg, rel, err, calls⟩ := r
  cases err <;> simp_all

theorem sig_verifyAll_ok {P : Prims} {valid : Validator} {kr : Keyring} {hr : HeaderRead SigHeader}
    {ps : PStream SigBlock} {k m : Bytes} (h : Sign.verifyAll P valid kr hr ps = .ok (k, m)) :
    (Sign.verifyStream P valid kr hr ps).err = none ∧ (Sign.verifyStream P valid kr hr ps).released = m ∧
    (Sign.verifyStream P valid kr hr ps).signer = some k := by
  unfold Sign.verifyAll at h
  generalize Sign.verifyStream P valid kr hr ps = r at h
  obtain ⟨sg, rel, err⟩ := r
  cases err <;> cases sg <;> simp_all

/-! ### on genuine sender output the front end is the `Wire` split -/

/-- encryption: whatever `Wire.splitEnc` makes of a sealed message, the front end makes the same -/
theorem front_of_wire_sealed_enc (P : Prims) (hP : P.Lawful) (bs : Nat) (hbs : 0 < bs) (hbs32 : bs + 16 < 2 ^ 32)
    (v : Version) (hv : v = v1 ∨ v = v2) (sender : Option Bytes) (rs : List Encrypt.Recipient)
    (eph payloadKey pt : Bytes) (hpk : payloadKey.length = 32)
    (L : Nat) (hL : ∀ r ∈ rs, r.pub.length ≤ L) (hsmall : 145 + rs.length * (L + 63) < 2 ^ 32)
    (msg : Bytes) (hmsg : Encrypt.sealWith P bs v sender rs eph payloadKey pt = .ok msg)
    (x : HeaderRead EncHeader × PStream EncBlock) (hw : Wire.splitEnc msg = .ok x) :
    Codec.splitEnc msg = .ok x ∧ Front.readEnc msg = .ok x := by
  obtain ⟨h, hb, blks, body, hs, he, rfl⟩ := seal_bytes_are_packets_enc P bs v sender rs eph payloadKey pt msg hmsg
  have hS := WireSizes.of_lawful hP
  obtain ⟨_, hhdr, _, _, _⟩ := sealPackets_inv P bs v sender rs eph payloadKey pt h hb blks hs
  have hhbe := sealPackets_hb P bs v sender rs eph payloadKey pt h hb blks hs
  have hhb : hb.length < 2 ^ 32 := by
    rw [hhbe]
    exact enc_header_small P hS hv sender eph payloadKey hpk rs h hhdr L hL hsmall
  have hL' : ∀ r ∈ rs, r.pub.length < 2 ^ 32 := by
    intro r hr
    have := hL r hr
    have : 0 < rs.length := List.length_pos_iff.mpr (List.ne_nil_of_mem hr)
    have : 1 * (L + 63) ≤ rs.length * (L + 63) := Nat.mul_le_mul_right _ this
    omega
  obtain ⟨b1, b2⟩ := bridge_seal_enc P hS bs hbs hbs32 v sender rs eph payloadKey pt (by omega) hL' h hb blks body hs he hhb
  rw [b1] at hw
  injection hw with hw
  subst hw
  exact ⟨b2, readEnc_of_codec_eof b2⟩

/-- signcryption -/
theorem front_of_wire_sealed_signcrypt (P : Prims) (hP : P.Lawful) (bs : Nat) (hbs : 0 < bs) (hbs32 : bs + 80 < 2 ^ 32)
    (sender : Option Bytes) (rs : List Signcrypt.Recipient) (eph payloadKey pt : Bytes)
    (hpk : payloadKey.length = 32) (L : Nat) (hL32 : 32 ≤ L)
    (hid : ∀ key ident, Signcrypt.Recipient.sym key ident ∈ rs → ident.length ≤ L)
    (hsmall : 145 + rs.length * (L + 63) < 2 ^ 32)
    (msg : Bytes) (hmsg : Signcrypt.sealWith P bs sender rs eph payloadKey pt = .ok msg)
    (x : HeaderRead EncHeader × PStream SigncryptBlock) (hw : Wire.splitSigncrypt msg = .ok x) :
    Codec.splitSigncrypt msg = .ok x ∧ Front.readSigncrypt msg = .ok x := by
  obtain ⟨h, hb, blks, hs, rfl⟩ := seal_bytes_are_packets_signcrypt P bs sender rs eph payloadKey pt msg hmsg
  have hS := WireSizes.of_lawful hP
  obtain ⟨hh, hhbe, _⟩ := RTSig.sc_sealPackets_inv P bs sender rs eph payloadKey pt h hb blks hs
  have hhb : hb.length < 2 ^ 32 := by
    rw [hhbe, hh]
    exact sc_header_small P hS sender eph payloadKey hpk rs L hL32 hid hsmall
  have hid' : ∀ key ident, Signcrypt.Recipient.sym key ident ∈ rs → ident.length < 2 ^ 32 := by
    intro key ident hm
    have := hid key ident hm
    have : 0 < rs.length := List.length_pos_iff.mpr (List.ne_nil_of_mem hm)
    have : 1 * (L + 63) ≤ rs.length * (L + 63) := Nat.mul_le_mul_right _ this
    omega
  obtain ⟨b1, b2⟩ := bridge_seal_signcrypt P hS bs hbs hbs32 sender rs eph payloadKey pt (by omega) hid' h hb blks hs hhb
  rw [b1] at hw
  injection hw with hw
  subst hw
  exact ⟨b2, readSigncrypt_of_codec_eof b2⟩

/-- attached signatures -/
theorem front_of_wire_sealed_sig (P : Prims) (hP : P.Lawful) (bs : Nat) (hbs : 0 < bs) (hbs32 : bs < 2 ^ 32)
    (v : Version) (signer nonce msg : Bytes) (hn : nonce.length + 92 < 2 ^ 32)
    (out : Bytes) (hout : Sign.attachedWith P bs v signer nonce msg = .ok out)
    (x : HeaderRead SigHeader × PStream SigBlock) (hw : Wire.splitSig out = .ok x) :
    Codec.splitSig out = .ok x ∧ Front.readSig out = .ok x := by
  obtain ⟨h, hb, blks, body, hs, he, rfl⟩ := seal_bytes_are_packets_sig P bs v signer nonce msg out hout
  have hS := WireSizes.of_lawful hP
  obtain ⟨b1, b2⟩ := bridge_seal_sig P hS bs hbs hbs32 v signer nonce msg hn h hb blks body hs he
  rw [b1] at hw
  injection hw with hw
  subst hw
  exact ⟨b2, readSig_of_codec_eof b2⟩

/-- detached signatures -/
theorem front_of_wire_sealed_detached (P : Prims) (hP : P.Lawful) (v : Version) (signer nonce msg out : Bytes)
    (hn : nonce.length + 92 < 2 ^ 32) (hout : Sign.detachedWith P v signer nonce msg = .ok out)
    (x : HeaderRead SigHeader × Sign.SigRead) (hw : Wire.splitDetached out = .ok x) :
    Front.readDetached out = .ok x := by
  obtain ⟨hb, h, sg, b1, b2⟩ := bridge_seal_detached P (WireSizes.of_lawful hP) v signer nonce msg out hn hout
  rw [b1] at hw
  injection hw with hw
  subst hw
  exact orWire_of_codec (codecDetached_of_ok b2)

/-! ### the transfer: a `Wire`-split all-at-once result on sealed output is the byte-level receiver's result -/

theorem enc_bytes_front_of_wire (P : Prims) (hP : P.Lawful) (bs : Nat) (hbs : 0 < bs) (hbs32 : bs + 16 < 2 ^ 32)
    (v : Version) (hv : v = v1 ∨ v = v2) (sender : Option Bytes) (rs : List Encrypt.Recipient)
    (eph payloadKey pt : Bytes) (hpk : payloadKey.length = 32)
    (L : Nat) (hL : ∀ r ∈ rs, r.pub.length ≤ L) (hsmall : 145 + rs.length * (L + 63) < 2 ^ 32)
    (msg : Bytes) (hmsg : Encrypt.sealWith P bs v sender rs eph payloadKey pt = .ok msg)
    (valid : Validator) (kr : Keyring) (m : MKI) (pt' : Bytes)
    (hw : ∃ hr ps, Wire.splitEnc msg = .ok (hr, ps) ∧ Decrypt.openAll P valid kr hr ps = .ok (m, pt')) :
    ∃ r, Decrypt.openBytes P valid kr msg = .ok r ∧ r.err = none ∧ r.released = pt' ∧ r.mki = some m := by
  obtain ⟨hr, ps, hsplit, hopen⟩ := hw
  have hrd := (front_of_wire_sealed_enc P hP bs hbs hbs32 v hv sender rs eph payloadKey pt hpk L hL hsmall msg hmsg
    _ hsplit).2
  exact ⟨_, dec_openBytes_of_read hrd, dec_openAll_ok hopen⟩

theorem sc_bytes_front_of_wire (P : Prims) (hP : P.Lawful) (bs : Nat) (hbs : 0 < bs) (hbs32 : bs + 80 < 2 ^ 32)
    (sender : Option Bytes) (rs : List Signcrypt.Recipient) (eph payloadKey pt : Bytes)
    (hpk : payloadKey.length = 32) (L : Nat) (hL32 : 32 ≤ L)
    (hid : ∀ key ident, Signcrypt.Recipient.sym key ident ∈ rs → ident.length ≤ L)
    (hsmall : 145 + rs.length * (L + 63) < 2 ^ 32)
    (msg : Bytes) (hmsg : Signcrypt.sealWith P bs sender rs eph payloadKey pt = .ok msg)
    (kr : Keyring) (res : Signcrypt.Resolver) (snd : Option Bytes) (pt' : Bytes)
    (hw : ∃ hr ps, Wire.splitSigncrypt msg = .ok (hr, ps) ∧ Signcrypt.openAll P kr res hr ps = .ok (snd, pt')) :
    ∃ r, Signcrypt.openBytes P kr res msg = .ok r ∧ r.err = none ∧ r.released = pt' ∧ r.sender = snd := by
  obtain ⟨hr, ps, hsplit, hopen⟩ := hw
  have hrd := (front_of_wire_sealed_signcrypt P hP bs hbs hbs32 sender rs eph payloadKey pt hpk L hL32 hid hsmall msg hmsg
    _ hsplit).2
  exact ⟨_, sc_openBytes_of_read hrd, sc_openAll_ok hopen⟩

theorem sig_bytes_front_of_wire (P : Prims) (hP : P.Lawful) (bs : Nat) (hbs : 0 < bs) (hbs32 : bs < 2 ^ 32)
    (v : Version) (signer nonce msg : Bytes) (hn : nonce.length + 92 < 2 ^ 32)
    (out : Bytes) (hout : Sign.attachedWith P bs v signer nonce msg = .ok out)
    (valid : Validator) (kr : Keyring) (k m : Bytes)
    (hw : ∃ hr ps, Wire.splitSig out = .ok (hr, ps) ∧ Sign.verifyAll P valid kr hr ps = .ok (k, m)) :
    ∃ r, Sign.verifyBytes P valid kr out = .ok r ∧ r.err = none ∧ r.released = m ∧ r.signer = some k := by
  obtain ⟨hr, ps, hsplit, hopen⟩ := hw
  have hrd := (front_of_wire_sealed_sig P hP bs hbs hbs32 v signer nonce msg hn out hout _ hsplit).2
  exact ⟨_, sig_verifyBytes_of_read hrd, sig_verifyAll_ok hopen⟩

end Saltpack.Proofs
