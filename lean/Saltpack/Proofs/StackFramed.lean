/-
  The armor reader stack, stage 2: `framedDecoderStream.Read` (`fRead`) as a
  logical reader.

  `fSem f` says what a framed-decoder state still MEANS: `some (t, (hdr, brand,
  ftr))` — it will hand out exactly the body text `t` and then a clean EOF,
  ending with these raw header / brand / raw footer — or `none` — it will
  report an error (possibly after some body bytes).  `fRead_step`: one call
  with any positive buffer size refines that meaning.

  Core Lean only.
-/
import Saltpack.Proofs.StackPunct

namespace Saltpack.Proofs
open Saltpack Saltpack.Stream

/-! ## `splitAt1` -/

theorem splitAt1_none (c : UInt8) : ∀ (t : Bytes), Armor.splitAt1 c t = none → c ∉ t := by
  intro t
  induction t with
  | nil => intro _; simp
  | cons x xs ih =>
    intro h
    unfold Armor.splitAt1 at h
    by_cases hx : (x == c) = true
    · rw [if_pos hx] at h; simp at h
    · rw [if_neg hx] at h
      have hx' : ¬ c = x := fun h => hx (by simp [h])
      cases hs : Armor.splitAt1 c xs with
      | none => simp only [List.mem_cons, not_or]; exact ⟨hx', ih hs⟩
      | some p => rw [hs] at h; simp at h

theorem splitAt1_some (c : UInt8) : ∀ (t a r : Bytes), Armor.splitAt1 c t = some (a, r) →
    t = a ++ c :: r ∧ c ∉ a := by
  intro t
  induction t with
  | nil => intro a r h; simp [Armor.splitAt1] at h
  | cons x xs ih =>
    intro a r h
    unfold Armor.splitAt1 at h
    by_cases hx : (x == c) = true
    · rw [if_pos hx] at h
      have hx' : x = c := by simpa using hx
      simp only [Option.some.injEq, Prod.mk.injEq] at h
      obtain ⟨rfl, rfl⟩ := h
      simp [hx']
    · rw [if_neg hx] at h
      have hx' : ¬ c = x := fun h => hx (by simp [h])
      cases hs : Armor.splitAt1 c xs with
      | none => rw [hs] at h; simp at h
      | some p =>
        obtain ⟨a', r'⟩ := p
        rw [hs] at h
        simp only [Option.some.injEq, Prod.mk.injEq] at h
        obtain ⟨rfl, rfl⟩ := h
        obtain ⟨h1, h2⟩ := ih a' r' hs
        refine ⟨by rw [h1]; rfl, ?_⟩
        simp only [List.mem_cons, not_or]
        exact ⟨hx', h2⟩

theorem splitAt1_of_split (c : UInt8) (a r : Bytes) (h : c ∉ a) : Armor.splitAt1 c (a ++ c :: r) = some (a, r) := by
  induction a with
  | nil => simp [Armor.splitAt1]
  | cons x xs ih =>
    simp only [List.mem_cons, not_or] at h
    have hx : ¬ x = c := fun e => h.1 e.symm
    simp [Armor.splitAt1, hx, ih h.2]

theorem splitAt1_prefix (c : UInt8) (d t : Bytes) (h : c ∉ d) :
    Armor.splitAt1 c (d ++ t) = (Armor.splitAt1 c t).map (fun q => (d ++ q.1, q.2)) := by
  cases hs : Armor.splitAt1 c t with
  | none =>
    have h1 := splitAt1_none c t hs
    cases hs' : Armor.splitAt1 c (d ++ t) with
    | none => rfl
    | some q =>
      obtain ⟨a, r⟩ := q
      obtain ⟨e1, _⟩ := splitAt1_some c _ a r hs'
      exfalso
      have : c ∈ d ++ t := by rw [e1]; simp
      rcases List.mem_append.mp this with h' | h'
      · exact h h'
      · exact h1 h'
  | some q =>
    obtain ⟨a, r⟩ := q
    obtain ⟨e1, e2⟩ := splitAt1_some c t a r hs
    rw [e1, ← List.append_assoc, splitAt1_of_split c (d ++ a) r]
    · rfl
    · intro hm
      rcases List.mem_append.mp hm with h' | h'
      · exact h h'
      · exact e2 h'

/-! ## the meaning of a framed-decoder state -/

/-- raw header, brand, raw footer -/
abbrev FInfo := Bytes × Bytes × Bytes

/-- the header checker: the brand (`b0` when there is no checker) -/
def hdrCheck (par : Armor.Params) (expect : Armor.Expect) (b0 h : Bytes) : Option Bytes :=
  match expect with
  | none => some b0
  | some typ =>
    match Armor.toASCII par h with
    | .error _ => none
    | .ok hs =>
      match Armor.parseFrame hs typ Gen.c_sp_headerMarker with
      | .error _ => none
      | .ok b => some b

/-- the frame checker -/
def ftrCheck (par : Armor.Params) (expect : Armor.Expect) (h ft : Bytes) : Bool :=
  match expect with
  | none => true
  | some typ =>
    match Armor.toASCII par h, Armor.toASCII par ft with
    | .ok hs, .ok fs =>
      match Armor.checkArmor62 hs fs typ with
      | .ok _ => true
      | .error _ => false
    | _, _ => false

/-- the footer sentence of the remaining text `r2`: raw footer and what follows it -/
def ftrSem (par : Armor.Params) (expect : Armor.Expect) (h r2 : Bytes) : Option (Bytes × Bytes) :=
  match Armor.splitAt1 Armor.period r2 with
  | none => none
  | some (ft, r3) => if ft.length < Armor.frameLim ∧ ftrCheck par expect h ft = true then some (ft, r3) else none

/-- the trailing text is acceptable: no further period, valid bytes only -/
def trailOK (par : Armor.Params) (r3 : Bytes) : Prop := Armor.period ∉ r3 ∧ r3.all (Armor.validByte par) = true

instance (par : Armor.Params) (r3 : Bytes) : Decidable (trailOK par r3) := by unfold trailOK; exact inferInstance

/-- footer and trailing text: the raw footer when all is well -/
def tailSem (par : Armor.Params) (expect : Armor.Expect) (h r2 : Bytes) : Option Bytes :=
  (ftrSem par expect h r2).bind (fun q => if trailOK par q.2 then some q.1 else none)

/-- from inside the body (`r1` = what is left of it and everything behind) -/
def bodySem (par : Armor.Params) (expect : Armor.Expect) (h b r1 : Bytes) : Option (Bytes × FInfo) :=
  match Armor.splitAt1 Armor.period r1 with
  | none => none
  | some (body, r2) => (tailSem par expect h r2).map (fun ft => (body, (h, b, ft)))

/-- from the start of the text -/
def hdrSem (par : Armor.Params) (expect : Armor.Expect) (b0 T : Bytes) : Option (Bytes × FInfo) :=
  match Armor.splitAt1 Armor.period T with
  | none => none
  | some (h, r1) =>
    if h.length < Armor.frameLim then
      match hdrCheck par expect b0 h with
      | none => none
      | some b => bodySem par expect h b r1
    else none

/-- **the meaning of a state** -/
def fSem (par : Armor.Params) (expect : Armor.Expect) (f : FState) : Option (Bytes × FInfo) :=
  match f.phase with
  | .header => hdrSem par expect f.brand f.p.text.1
  | .body => bodySem par expect f.hdr f.brand f.p.text.1
  | .footer => none
  | .endOfStream => some ([], (f.hdr, f.brand, f.ftr))

/-- invariant of the states between calls -/
structure FInv (f : FState) : Prop where
  p : PInv f.p
  notFooter : f.phase ≠ .footer
  atEnd : f.phase = .endOfStream → f.p.text.1 = []

/-- the measure: raw text still to be read -/
def fRaw (f : FState) : Nat := f.p.text.1.length

/-- prepend delivered bytes to a meaning -/
def preB (d : Bytes) (q : Bytes × FInfo) : Bytes × FInfo := (d ++ q.1, q.2)

theorem fInv_init (src : Source) (h : SrcOK src) (T : Bytes) (hT : srcText src = (T, .eof)) :
    FInv { p := { src := src } } :=
  ⟨pInv_init src h T hT, by simp, fun h => by cases h⟩

theorem bodySem_prefix (par : Armor.Params) (expect : Armor.Expect) (h b d t : Bytes) (hd : Armor.period ∉ d) :
    bodySem par expect h b (d ++ t) = (bodySem par expect h b t).map (preB d) := by
  unfold bodySem
  rw [splitAt1_prefix _ d t hd]
  cases Armor.splitAt1 Armor.period t with
  | none => rfl
  | some q =>
    obtain ⟨a, r⟩ := q
    simp only [Option.map_some]
    cases tailSem par expect h r with
    | none => rfl
    | some ft => rfl

theorem bodySem_last (par : Armor.Params) (expect : Armor.Expect) (h b d r2 : Bytes) (hd : Armor.period ∉ d) :
    bodySem par expect h b (d ++ Armor.period :: r2) = (tailSem par expect h r2).map (fun ft => (d, (h, b, ft))) := by
  unfold bodySem
  rw [splitAt1_of_split _ d r2 hd]

/-! ## the blocks of `fRead` -/

theorem fLoadHeader_not (par : Armor.Params) (expect : Armor.Expect) (f : FState) (h : f.phase ≠ .header) :
    fLoadHeader par expect f = (none, f) := by
  unfold fLoadHeader
  have : (f.phase != FdsPhase.header) = true := by simp [h]
  rw [if_pos this]

/-- the header block in terms of `pReadUntil` -/
theorem fLoadHeader_header (par : Armor.Params) (expect : Armor.Expect) (f : FState) (h : f.phase = .header) :
    fLoadHeader par expect f =
      match (pReadUntil Armor.frameLim (Armor.frameLim + 2) f.p []).1 with
      | .error e => (some e, { f with p := (pReadUntil Armor.frameLim (Armor.frameLim + 2) f.p []).2 })
      | .ok hd =>
        match expect with
        | none => (none, { f with p := (pReadUntil Armor.frameLim (Armor.frameLim + 2) f.p []).2, hdr := hd, phase := .body })
        | some typ =>
          match Armor.toASCII par hd with
          | .error e => (some (.err e), { f with p := (pReadUntil Armor.frameLim (Armor.frameLim + 2) f.p []).2, hdr := hd })
          | .ok hs =>
            match Armor.parseFrame hs typ Gen.c_sp_headerMarker with
            | .error e => (some (.err e), { f with p := (pReadUntil Armor.frameLim (Armor.frameLim + 2) f.p []).2, hdr := hd })
            | .ok b => (none, { f with p := (pReadUntil Armor.frameLim (Armor.frameLim + 2) f.p []).2, hdr := hd, phase := .body, brand := b }) := by
  unfold fLoadHeader
  have : ¬ (f.phase != FdsPhase.header) = true := by simp [h]
  rw [if_neg this]
  rcases pReadUntil Armor.frameLim (Armor.frameLim + 2) f.p [] with ⟨r, p1⟩
  cases r with
  | error e => rfl
  | ok hd =>
    cases expect with
    | none => rfl
    | some typ =>
      simp only
      cases Armor.toASCII par hd with
      | error e => rfl
      | ok hs =>
        simp only
        cases Armor.parseFrame hs typ Gen.c_sp_headerMarker with
        | error e => rfl
        | ok b => rfl

/-- **the header block**: either an error (and the text means an error), or
    the state moves to the body phase with the same meaning -/
theorem fLoadHeader_spec (par : Armor.Params) (expect : Armor.Expect) (f : FState) (hi : FInv f)
    (h : f.phase = .header) :
    (∃ z f0, fLoadHeader par expect f = (some (.err z), f0) ∧ fSem par expect f = none) ∨
    (∃ f0, fLoadHeader par expect f = (none, f0) ∧ f0.phase = .body ∧ FInv f0 ∧ fRaw f0 ≤ fRaw f ∧
      fSem par expect f0 = fSem par expect f) := by
  rw [fLoadHeader_header par expect f h]
  obtain ⟨u1, u2⟩ := pReadUntil_frame f.p hi.p
  have hsem : fSem par expect f = hdrSem par expect f.brand f.p.text.1 := by simp [fSem, h]
  cases hs : Armor.splitAt1 Armor.period f.p.text.1 with
  | none =>
    have hnp := splitAt1_none _ _ hs
    have hnone : fSem par expect f = none := by rw [hsem]; simp [hdrSem, hs]
    obtain ⟨v1, v2⟩ := u2 hnp
    left
    by_cases hl : Armor.frameLim ≤ f.p.text.1.length
    · obtain ⟨s1, e1⟩ := v1 hl
      rw [e1]
      exact ⟨_, _, rfl, hnone⟩
    · obtain ⟨s1, e1⟩ := v2 (by omega)
      rw [e1]
      exact ⟨_, _, rfl, hnone⟩
  | some q =>
    obtain ⟨hd, r1⟩ := q
    obtain ⟨e1, e2⟩ := splitAt1_some _ _ hd r1 hs
    obtain ⟨v1, v2⟩ := u1 hd r1 e1 e2
    by_cases hl : hd.length < Armor.frameLim
    · obtain ⟨s1, r, w, t⟩ := v1 hl
      have hsem' : fSem par expect f =
          match hdrCheck par expect f.brand hd with
          | none => none
          | some b => bodySem par expect hd b r1 := by
        rw [hsem]; simp [hdrSem, hs, hl]
      have hraw : s1.text.1.length ≤ f.p.text.1.length := by
        rw [t, e1]; simp only [List.length_append, List.length_cons]; omega
      rw [r]
      simp only
      cases expect with
      | none =>
        right
        refine ⟨_, rfl, rfl, ⟨w, by simp, fun h => by cases h⟩, hraw, ?_⟩
        rw [hsem']
        simp [fSem, hdrCheck, t]
      | some typ =>
        simp only
        cases ha : Armor.toASCII par hd with
        | error e =>
          left
          refine ⟨_, _, rfl, ?_⟩
          rw [hsem']; simp [hdrCheck, ha]
        | ok hs' =>
          simp only
          cases hpf : Armor.parseFrame hs' typ Gen.c_sp_headerMarker with
          | error e =>
            left
            refine ⟨_, _, rfl, ?_⟩
            rw [hsem']; simp [hdrCheck, ha, hpf]
          | ok b =>
            right
            refine ⟨_, rfl, rfl, ⟨w, by simp, fun h => by cases h⟩, hraw, ?_⟩
            rw [hsem']
            simp [fSem, hdrCheck, ha, hpf, t]
    · obtain ⟨s1, r⟩ := v2 (by omega)
      left
      rw [r]
      refine ⟨_, _, rfl, ?_⟩
      rw [hsem]; simp [hdrSem, hs, hl]

/-- the footer block of `fRead` -/
def fFooter (par : Armor.Params) (expect : Armor.Expect) (f1 : FState) : Option RErr × FState :=
  let (r, p2) := pReadUntil Armor.frameLim (Armor.frameLim + 2) f1.p []
  match r with
  | .error e => (some e, { f1 with p := p2 })
  | .ok ft =>
    let f2 := { f1 with p := p2, ftr := ft }
    match expect with
    | none => (none, { f2 with phase := .endOfStream })
    | some typ =>
      match Armor.toASCII par f2.hdr, Armor.toASCII par ft with
      | .ok hs, .ok fs =>
        match Armor.checkArmor62 hs fs typ with
        | .ok _ => (none, { f2 with phase := .endOfStream })
        | .error e => (some (.err e), f2)
      | .error e, _ => (some (.err e), f2)
      | _, .error e => (some (.err e), f2)

/-- the end-of-stream block of `fRead` -/
def fFinish (par : Armor.Params) (d : Bytes) (f2 : FState) : Bytes × Option RErr × FState :=
  if f2.phase == .endOfStream then
    let (e, p3) := consumeUntilEOF par (fuelOf f2.p) f2.p
    let f3 := { f2 with p := p3 }
    if e == .eof && !d.isEmpty then (d, none, f3) else (d, some e, f3)
  else (d, none, f2)

/-- once the header is loaded, `fRead` is `fRead` of the body-phase state -/
theorem fRead_loaded (par : Armor.Params) (expect : Armor.Expect) (cap : Nat) (f f0 : FState)
    (h : fLoadHeader par expect f = (none, f0)) (h0 : f0.phase ≠ .header) :
    fRead par expect cap f = fRead par expect cap f0 := by
  unfold fRead
  rw [h, fLoadHeader_not par expect f0 h0]

theorem fRead_header_err (par : Armor.Params) (expect : Armor.Expect) (cap : Nat) (f f0 : FState) (e : RErr)
    (h : fLoadHeader par expect f = (some e, f0)) :
    fRead par expect cap f = ([], some e, f0) := by
  unfold fRead
  rw [h]

theorem fRead_body_none (par : Armor.Params) (expect : Armor.Expect) (cap : Nat) (f : FState) (h : f.phase = .body)
    (d : Bytes) (p1 : PState) (hp : pRead cap f.p = (d, none, p1)) :
    fRead par expect cap f = (d, none, { f with p := p1 }) := by
  unfold fRead
  rw [fLoadHeader_not par expect f (by rw [h]; decide)]
  simp only [h, hp]
  rfl

theorem fRead_body_eof (par : Armor.Params) (expect : Armor.Expect) (cap : Nat) (f : FState) (h : f.phase = .body)
    (d : Bytes) (p1 : PState) (hp : pRead cap f.p = (d, some .eof, p1)) :
    fRead par expect cap f = ([], some (.err .unexpectedEOF), { f with p := p1 }) := by
  unfold fRead
  rw [fLoadHeader_not par expect f (by rw [h]; decide)]
  simp only [h, hp]
  rfl

theorem fRead_body_punct (par : Armor.Params) (expect : Armor.Expect) (cap : Nat) (f : FState) (h : f.phase = .body)
    (d : Bytes) (p1 : PState) (hp : pRead cap f.p = (d, some punctErr, p1)) :
    fRead par expect cap f =
      match fFooter par expect { f with p := p1, phase := .footer } with
      | (some e, f2) => ([], some e, f2)
      | (none, f2) => fFinish par d f2 := by
  unfold fRead
  rw [fLoadHeader_not par expect f (by rw [h]; decide)]
  simp only [h, hp, punctErr]
  rfl

theorem fRead_end (par : Armor.Params) (expect : Armor.Expect) (cap : Nat) (f : FState) (h : f.phase = .endOfStream) :
    fRead par expect cap f = fFinish par [] f := by
  obtain ⟨p, phase, hdr, ftr, brand⟩ := f
  simp only at h
  subst h
  unfold fRead
  rw [fLoadHeader_not par expect _ (by simp)]
  rfl

/-- **the footer block**: reads exactly the footer sentence and checks it -/
theorem fFooter_spec (par : Armor.Params) (expect : Armor.Expect) (f1 : FState) (hp : PInv f1.p) :
    (∀ ft r3, ftrSem par expect f1.hdr f1.p.text.1 = some (ft, r3) →
      ∃ p2, fFooter par expect f1 = (none, { f1 with p := p2, ftr := ft, phase := .endOfStream }) ∧
        PInv p2 ∧ p2.text.1 = r3) ∧
    (ftrSem par expect f1.hdr f1.p.text.1 = none → ∃ z f2, fFooter par expect f1 = (some (.err z), f2)) := by
  obtain ⟨u1, u2⟩ := pReadUntil_frame f1.p hp
  unfold ftrSem fFooter
  cases hs : Armor.splitAt1 Armor.period f1.p.text.1 with
  | none =>
    have hnp := splitAt1_none _ _ hs
    obtain ⟨v1, v2⟩ := u2 hnp
    refine ⟨fun ft r3 h => by simp at h, fun _ => ?_⟩
    by_cases hl : Armor.frameLim ≤ f1.p.text.1.length
    · obtain ⟨s1, e1⟩ := v1 hl
      rw [e1]
      exact ⟨_, _, rfl⟩
    · obtain ⟨s1, e1⟩ := v2 (by omega)
      rw [e1]
      exact ⟨_, _, rfl⟩
  | some q =>
    obtain ⟨ft0, r30⟩ := q
    obtain ⟨e1, e2⟩ := splitAt1_some _ _ ft0 r30 hs
    obtain ⟨v1, v2⟩ := u1 ft0 r30 e1 e2
    simp only
    by_cases hl : ft0.length < Armor.frameLim
    · obtain ⟨s1, r, w, t⟩ := v1 hl
      rw [r]
      simp only [hl, true_and]
      cases expect with
      | none =>
        simp only [ftrCheck, if_true]
        refine ⟨fun ft r3 h => ?_, fun h => by simp at h⟩
        simp only [Option.some.injEq, Prod.mk.injEq] at h
        obtain ⟨rfl, rfl⟩ := h
        exact ⟨s1, rfl, w, t⟩
      | some typ =>
        simp only [ftrCheck]
        obtain ⟨xa, ha⟩ : ∃ x, Armor.toASCII par f1.hdr = x := ⟨_, rfl⟩
        obtain ⟨xb, hb⟩ : ∃ x, Armor.toASCII par ft0 = x := ⟨_, rfl⟩
        cases xa with
        | error e =>
          simp only [ha, Bool.false_eq_true, if_false]
          exact ⟨fun ft r3 h => by simp at h, fun _ => ⟨_, _, rfl⟩⟩
        | ok hs' =>
          cases xb with
          | error e =>
            simp only [ha, hb, Bool.false_eq_true, if_false]
            exact ⟨fun ft r3 h => by simp at h, fun _ => ⟨_, _, rfl⟩⟩
          | ok fs' =>
            simp only [ha, hb]
            obtain ⟨xc, hc⟩ : ∃ x, Armor.checkArmor62 hs' fs' typ = x := ⟨_, rfl⟩
            cases xc with
            | error e =>
              simp only [hc, Bool.false_eq_true, if_false]
              exact ⟨fun ft r3 h => by simp at h, fun _ => ⟨_, _, rfl⟩⟩
            | ok b =>
              simp only [hc, if_true]
              refine ⟨fun ft r3 h => ?_, fun h => by simp at h⟩
              simp only [Option.some.injEq, Prod.mk.injEq] at h
              obtain ⟨rfl, rfl⟩ := h
              exact ⟨s1, rfl, w, t⟩
    · obtain ⟨s1, r⟩ := v2 (by omega)
      rw [r]
      simp only [hl, false_and, if_false]
      exact ⟨fun ft r3 h => by simp at h, fun _ => ⟨_, _, rfl⟩⟩

/-- **the end-of-stream block**: the trailing text is consumed and checked -/
theorem fFinish_spec (par : Armor.Params) (d : Bytes) (f2 : FState) (hp : PInv f2.p) (hph : f2.phase = .endOfStream) :
    (trailOK par f2.p.text.1 → ∃ p3, PInv p3 ∧ p3.text.1 = [] ∧
      fFinish par d f2 = if d = [] then ([], some .eof, { f2 with p := p3 }) else (d, none, { f2 with p := p3 })) ∧
    (¬ trailOK par f2.p.text.1 → ∃ z p3, fFinish par d f2 = (d, some (.err z), { f2 with p := p3 })) := by
  obtain ⟨c1, c2⟩ := consume_fuelOf par f2.p hp
  unfold fFinish
  have : (f2.phase == FdsPhase.endOfStream) = true := by rw [hph]; rfl
  rw [if_pos this]
  constructor
  · intro hok
    obtain ⟨s1, e1, w, t⟩ := c1 hok
    rw [e1]
    refine ⟨s1, w, t, ?_⟩
    cases d with
    | nil => rfl
    | cons x xs => rfl
  · intro hbad
    obtain ⟨s1, e1 | e1⟩ := c2 hbad
    · rw [e1]; exact ⟨_, s1, rfl⟩
    · rw [e1]; exact ⟨_, s1, rfl⟩

/-! ## one call -/

/-- what one `Read` may do to the meaning `fSem` of the state -/
def FStepOK (par : Armor.Params) (expect : Armor.Expect) (f : FState) (d : Bytes) (e : Option RErr) (f' : FState) : Prop :=
  (e = none ∧ d ≠ [] ∧ FInv f' ∧ fRaw f' + d.length ≤ fRaw f ∧
      fSem par expect f = (fSem par expect f').map (preB d)) ∨
  (e = some .eof ∧ d = [] ∧ FInv f' ∧ fRaw f' ≤ fRaw f ∧ f'.phase = .endOfStream ∧
      fSem par expect f = some ([], (f'.hdr, f'.brand, f'.ftr))) ∨
  (∃ z, e = some (.err z) ∧ fSem par expect f = none)

theorem fRead_step_end (par : Armor.Params) (expect : Armor.Expect) (cap : Nat) (f : FState) (hi : FInv f)
    (hph : f.phase = .endOfStream) (d : Bytes) (e : Option RErr) (f' : FState)
    (h : fRead par expect cap f = (d, e, f')) : FStepOK par expect f d e f' := by
  rw [fRead_end par expect cap f hph] at h
  obtain ⟨k1, _⟩ := fFinish_spec par [] f hi.p hph
  have hok : trailOK par f.p.text.1 := by rw [hi.atEnd hph]; exact ⟨by simp, rfl⟩
  obtain ⟨p3, w, t, e1⟩ := k1 hok
  rw [e1] at h
  simp only [if_true, Prod.mk.injEq] at h
  obtain ⟨rfl, rfl, rfl⟩ := h
  refine Or.inr (Or.inl ⟨rfl, rfl, ⟨w, by simp [hph], fun _ => t⟩, ?_, hph, ?_⟩)
  · simp [fRaw, t]
  · simp [fSem, hph]

theorem fRead_step_body (par : Armor.Params) (expect : Armor.Expect) (cap : Nat) (hcap : 0 < cap) (f : FState)
    (hi : FInv f) (hph : f.phase = .body) (d : Bytes) (e : Option RErr) (f' : FState)
    (h : fRead par expect cap f = (d, e, f')) : FStepOK par expect f d e f' := by
  have hsem : fSem par expect f = bodySem par expect f.hdr f.brand f.p.text.1 := by simp [fSem, hph]
  rcases hp : pRead cap f.p with ⟨d0, e0, p1⟩
  obtain ⟨w, _, n, c⟩ := pRead_ok cap hcap f.p hi.p d0 e0 p1 hp
  rcases c with ⟨rfl, c1, c2⟩ | ⟨rfl, c2⟩ | ⟨rfl, c1, c2, c3⟩
  · -- body bytes, no condition
    rw [fRead_body_none par expect cap f hph d0 p1 hp] at h
    simp only [Prod.mk.injEq] at h
    obtain ⟨rfl, rfl, rfl⟩ := h
    refine Or.inl ⟨rfl, c1, ⟨w, by simp [hph], fun h => by simp [hph] at h⟩, ?_, ?_⟩
    · simp only [fRaw]; rw [c2]; simp; omega
    · rw [hsem, c2, bodySem_prefix par expect _ _ d0 _ n]
      simp [fSem, hph]
  · -- the period that ends the body: footer and trailing text in the same call
    rw [fRead_body_punct par expect cap f hph d0 p1 hp] at h
    have hsem' : fSem par expect f = (tailSem par expect f.hdr p1.text.1).map (fun ft => (d0, (f.hdr, f.brand, ft))) := by
      rw [hsem, c2, bodySem_last par expect _ _ d0 _ n]
    obtain ⟨g1, g2⟩ := fFooter_spec par expect { f with p := p1, phase := .footer } w
    cases hf : ftrSem par expect f.hdr p1.text.1 with
    | none =>
      obtain ⟨z, f2, e2⟩ := g2 hf
      rw [e2] at h
      simp only [Prod.mk.injEq] at h
      obtain ⟨rfl, rfl, rfl⟩ := h
      exact Or.inr (Or.inr ⟨z, rfl, by rw [hsem']; simp [tailSem, hf]⟩)
    | some q =>
      obtain ⟨ft, r3⟩ := q
      obtain ⟨p2, e2, w2, t2⟩ := g1 ft r3 hf
      rw [e2] at h
      simp only at h
      obtain ⟨k1, k2⟩ := fFinish_spec par d0
        { p := p2, phase := .endOfStream, hdr := f.hdr, ftr := ft, brand := f.brand } w2 rfl
      by_cases hok : trailOK par r3
      · obtain ⟨p3, w3, t3, e3⟩ := k1 (by rw [t2]; exact hok)
        rw [e3] at h
        have hs2 : fSem par expect f = some (d0, (f.hdr, f.brand, ft)) := by
          rw [hsem']; simp [tailSem, hf, hok]
        by_cases hd : d0 = []
        · rw [if_pos hd] at h
          simp only [Prod.mk.injEq] at h
          obtain ⟨rfl, rfl, rfl⟩ := h
          refine Or.inr (Or.inl ⟨rfl, rfl, ⟨w3, by simp, fun _ => t3⟩, ?_, rfl, ?_⟩)
          · simp [fRaw, t3]
          · rw [hs2, hd]
        · rw [if_neg hd] at h
          simp only [Prod.mk.injEq] at h
          obtain ⟨rfl, rfl, rfl⟩ := h
          refine Or.inl ⟨rfl, hd, ⟨w3, by simp, fun _ => t3⟩, ?_, ?_⟩
          · simp only [fRaw]; rw [t3, c2]; simp
          · rw [hs2]; simp [fSem, preB]
      · obtain ⟨z, p3, e3⟩ := k2 (by rw [t2]; exact hok)
        rw [e3] at h
        simp only [Prod.mk.injEq] at h
        obtain ⟨rfl, rfl, rfl⟩ := h
        exact Or.inr (Or.inr ⟨z, rfl, by rw [hsem']; simp [tailSem, hf, hok]⟩)
  · -- the text ends inside the body
    rw [fRead_body_eof par expect cap f hph d0 p1 hp] at h
    simp only [Prod.mk.injEq] at h
    obtain ⟨rfl, rfl, rfl⟩ := h
    exact Or.inr (Or.inr ⟨_, rfl, by rw [hsem, c2]; simp [bodySem, Armor.splitAt1]⟩)

/-- **one `framedDecoderStream.Read`** with any positive buffer size -/
theorem fRead_step (par : Armor.Params) (expect : Armor.Expect) (cap : Nat) (hcap : 0 < cap) (f : FState)
    (hi : FInv f) (d : Bytes) (e : Option RErr) (f' : FState)
    (h : fRead par expect cap f = (d, e, f')) : FStepOK par expect f d e f' := by
  cases hph : f.phase with
  | header =>
    rcases fLoadHeader_spec par expect f hi hph with ⟨z, f0, e0, hs⟩ | ⟨f0, e0, hb, hi0, hr, hs⟩
    · rw [fRead_header_err par expect cap f f0 _ e0] at h
      simp only [Prod.mk.injEq] at h
      obtain ⟨rfl, rfl, rfl⟩ := h
      exact Or.inr (Or.inr ⟨z, rfl, hs⟩)
    · rw [fRead_loaded par expect cap f f0 e0 (by rw [hb]; decide)] at h
      have := fRead_step_body par expect cap hcap f0 hi0 hb d e f' h
      unfold FStepOK at this ⊢
      rw [hs] at this
      rcases this with ⟨a1, a2, a3, a4, a5⟩ | ⟨a1, a2, a3, a4, a5, a6⟩ | a
      · exact Or.inl ⟨a1, a2, a3, by omega, a5⟩
      · exact Or.inr (Or.inl ⟨a1, a2, a3, by omega, a5, a6⟩)
      · exact Or.inr (Or.inr a)
  | body => exact fRead_step_body par expect cap hcap f hi hph d e f' h
  | footer => exact absurd hph hi.notFooter
  | endOfStream => exact fRead_step_end par expect cap f hi hph d e f' h

/-! ## reading the framed decoder to its end -/

/-- read with buffer sizes `caps` (cycled) until a condition is reported -/
def fReadAll (par : Armor.Params) (expect : Armor.Expect) (caps : List Nat) :
    (fuel : Nat) → Nat → FState → Bytes → Bytes × Option RErr × FState
  | 0, _, f, acc => (acc, none, f)
  | fuel + 1, k, f, acc =>
    let cap := caps.getD (k % caps.length) 1
    let (d, e, f1) := fRead par expect cap f
    match e with
    | none => fReadAll par expect caps fuel (k + 1) f1 (acc ++ d)
    | some x => (acc ++ d, some x, f1)

theorem fReadAll_succ (par : Armor.Params) (expect : Armor.Expect) (caps : List Nat) (fuel k : Nat) (f : FState)
    (acc : Bytes) :
    fReadAll par expect caps (fuel + 1) k f acc =
      match (fRead par expect (caps.getD (k % caps.length) 1) f).2.1 with
      | none => fReadAll par expect caps fuel (k + 1) (fRead par expect (caps.getD (k % caps.length) 1) f).2.2
          (acc ++ (fRead par expect (caps.getD (k % caps.length) 1) f).1)
      | some x => (acc ++ (fRead par expect (caps.getD (k % caps.length) 1) f).1, some x,
          (fRead par expect (caps.getD (k % caps.length) 1) f).2.2) := by
  rw [fReadAll]

/-- **the framed layer, read to its end** with any positive buffer sizes: a
    state that means `(t, info)` hands out exactly `t`, then `io.EOF`, and ends
    at end-of-stream holding `info`; a state that means an error reports an
    error.  (`fuel` only has to exceed the raw text left.) -/
theorem fReadAll_sem (par : Armor.Params) (expect : Armor.Expect) (caps : List Nat) (hpos : ∀ c ∈ caps, 0 < c) :
    ∀ (fuel : Nat) (f : FState), FInv f → fRaw f < fuel → ∀ (k : Nat) (acc : Bytes),
    (∀ t i, fSem par expect f = some (t, i) →
      ∃ f', fReadAll par expect caps fuel k f acc = (acc ++ t, some .eof, f') ∧ FInv f' ∧
        f'.phase = .endOfStream ∧ i = (f'.hdr, f'.brand, f'.ftr)) ∧
    (fSem par expect f = none → ∃ r z f', fReadAll par expect caps fuel k f acc = (r, some (.err z), f')) := by
  intro fuel
  induction fuel with
  | zero => intro f _ h; omega
  | succ fuel ih =>
    intro f hi hf k acc
    have hcap := capsGetD_pos caps hpos (k % caps.length)
    rw [fReadAll_succ]
    rcases hr : fRead par expect (caps.getD (k % caps.length) 1) f with ⟨d, e, f1⟩
    have hstep := fRead_step par expect _ hcap f hi d e f1 hr
    simp only
    rcases hstep with ⟨rfl, a2, a3, a4, a5⟩ | ⟨rfl, rfl, a3, a4, a5, a6⟩ | ⟨z, rfl, a2⟩
    · have hd : 0 < d.length := List.length_pos_iff.mpr a2
      obtain ⟨i1, i2⟩ := ih f1 a3 (by omega) (k + 1) (acc ++ d)
      simp only
      constructor
      · intro t i hs
        rw [a5] at hs
        cases h1 : fSem par expect f1 with
        | none => rw [h1] at hs; simp at hs
        | some q =>
          obtain ⟨t1, i'⟩ := q
          rw [h1] at hs
          simp only [Option.map_some, preB, Option.some.injEq, Prod.mk.injEq] at hs
          obtain ⟨rfl, rfl⟩ := hs
          obtain ⟨f', g1, g2, g3, g4⟩ := i1 t1 i' h1
          exact ⟨f', by rw [g1, List.append_assoc], g2, g3, g4⟩
      · intro hs
        rw [a5] at hs
        have h1 : fSem par expect f1 = none := by
          cases h : fSem par expect f1 with
          | none => rfl
          | some q => rw [h] at hs; simp at hs
        exact i2 h1
    · simp only
      constructor
      · intro t i hs
        rw [a6] at hs
        simp only [Option.some.injEq, Prod.mk.injEq] at hs
        obtain ⟨rfl, rfl⟩ := hs
        exact ⟨f1, rfl, a3, a5, rfl⟩
      · intro hs; rw [a6] at hs; simp at hs
    · simp only
      constructor
      · intro t i hs; rw [a2] at hs; simp at hs
      · intro _; exact ⟨_, z, f1, rfl⟩

/-- from the start of a text `T`: the body (the bytes between the first and
    the second period) and then EOF, with raw header, brand and raw footer
    stored — exactly when the frame part `hdrSem` of the text is acceptable -/
theorem fReadAll_text (par : Armor.Params) (expect : Armor.Expect) (src : Source) (T : Bytes) (hok : SrcOK src)
    (hsrc : srcText src = (T, .eof)) (caps : List Nat) (hpos : ∀ c ∈ caps, 0 < c) (fuel : Nat)
    (hf : T.length < fuel) :
    (∀ body h b ft, hdrSem par expect [] T = some (body, (h, b, ft)) →
      ∃ f', fReadAll par expect caps fuel 0 { p := { src := src } } [] = (body, some .eof, f') ∧
        f'.phase = .endOfStream ∧ f'.hdr = h ∧ f'.brand = b ∧ f'.ftr = ft) ∧
    (hdrSem par expect [] T = none →
      ∃ r z f', fReadAll par expect caps fuel 0 { p := { src := src } } [] = (r, some (.err z), f')) := by
  have ht : ({ src := src } : PState).text.1 = T := by rw [ptext_init, hsrc]
  have hsem : fSem par expect { p := { src := src } } = hdrSem par expect [] T := by simp [fSem, ht]
  obtain ⟨a, b⟩ := fReadAll_sem par expect caps hpos fuel { p := { src := src } } (fInv_init src hok T hsrc)
    (by simp only [fRaw, ht]; exact hf) 0 []
  rw [hsem] at a b
  constructor
  · intro body h b' ft hs
    obtain ⟨f', g1, _, g3, g4⟩ := a _ _ hs
    simp only [Prod.mk.injEq] at g4
    exact ⟨f', by simpa using g1, g3, g4.1.symm, g4.2.1.symm, g4.2.2.symm⟩
  · exact b

/-! ## concrete checks -/

-- "h.ab.f." in three deliveries, one-byte buffers: body "ab", then EOF, frame stored
example :
    let r := fReadAll Armor.params62 none [1] 9 0 { p := { src := [([104, 46, 97], none), ([98, 46], none), ([102, 46], some .eof)] } } []
    r.1 = [97, 98] ∧ r.2.1 = some .eof ∧ r.2.2.phase = .endOfStream ∧ r.2.2.hdr = [104] ∧ r.2.2.ftr = [102] := by
  decide

-- the last body bytes come with the footer check: a missing footer period is an error of that call
example : (fReadAll Armor.params62 none [7] 9 0 { p := { src := [([104, 46, 97, 98, 46, 102], none)] } } []).2.1
    = some (.err .unexpectedEOF) := by decide

end Saltpack.Proofs
