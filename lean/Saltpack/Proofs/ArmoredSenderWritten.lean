/-
  The armored SENDERS (packet stream → go-codec → armor encoder stream →
  faulting writer, `closeForwarder`): if the armor constructor, the packet
  stream's constructor, every `Write` and `Close` reported success, the writer
  holds exactly `Armor.seal62 typ brand M`, `M` the all-at-once binary message.

  Route: the generic "success means written" theorem of the packet streams
  (`run_success`) needs an observation `obs : ω → Bytes` of what the writer below
  accepted.  The armor stream does not keep its payload, so the packet stream is
  run over the HISTORY of the `Write` calls made on the armor stream (`ω' = List
  Bytes`, `π H = farmRun a0 H`); the run over `FArm` is the image of that run
  (`proj_*`), and the accepted payload is a function of the history (`okBytes`).

  Behind Props/C14Armor.lean.
-/
import Saltpack.Proofs.ArmorWriterFaults

namespace Saltpack.Proofs.SenderP
open Saltpack Saltpack.Sender Saltpack.Stream

/-! ## a packet stream over a writer that is the image of another writer -/

section proj
variable {ω ω' : Type} (wr : ω → Bytes → Bool × ω) (wr' : ω' → Bytes → Bool × ω') (π : ω' → ω)

def mapC (c : Codec ω') : Codec ω := { w := π c.w, failed := c.failed }
def mapP (st : PSt ω') : PSt ω := { codec := mapC π st.codec, buf := st.buf, n := st.n, err := st.err }

variable (hπ : ∀ w p, wr (π w) p = ((wr' w p).1, π (wr' w p).2))
include hπ

theorem proj_writePieces : ∀ (ps : List Bytes) (w : ω'),
    writePieces wr ps (π w) = ((writePieces wr' ps w).1, π (writePieces wr' ps w).2) := by
  intro ps
  induction ps with
  | nil => intro w; rfl
  | cons p ps ih =>
    intro w
    unfold writePieces
    rw [hπ]
    cases h : wr' w p with
    | mk ok w1 =>
      cases ok with
      | true => exact ih w1
      | false => rfl

theorem proj_encode (pieces : Bytes → List Bytes) (c : Codec ω') (b : Bytes) :
    Codec.encode wr pieces (mapC π c) b =
      ((Codec.encode wr' pieces c b).1, mapC π (Codec.encode wr' pieces c b).2) := by
  unfold Codec.encode
  have hf : (mapC π c).failed = c.failed := rfl
  have hw : (mapC π c).w = π c.w := rfl
  rw [hf, hw]
  cases hc : c.failed with
  | true => rfl
  | false =>
    simp only [Bool.false_eq_true, if_false]
    rw [proj_writePieces wr wr' π hπ]
    rfl

theorem proj_emit (cfg : Cfg) (f : Bool) (st : PSt ω') :
    emitBlock wr cfg f (mapP π st) = ((emitBlock wr' cfg f st).1, mapP π (emitBlock wr' cfg f st).2) := by
  unfold emitBlock
  have h1 : (mapP π st).buf = st.buf := rfl
  have h2 : (mapP π st).n = st.n := rfl
  have h3 : (mapP π st).codec = mapC π st.codec := rfl
  simp only [h1, h2, h3]
  by_cases hr : readPanics cfg.v1shape f cfg.bs (st.buf.take cfg.bs).length (st.buf.drop cfg.bs).length = true
  · simp only [hr, if_true]; rfl
  · simp only [hr, Bool.false_eq_true, if_false]
    cases hpk : cfg.pkt st.n (st.buf.take cfg.bs) f with
    | error e => rfl
    | ok b =>
      simp only
      by_cases ha : assertPanics cfg.v1shape cfg.assertExtra f (st.buf.take cfg.bs).length st.n = true
      · simp only [ha, if_true]; rfl
      · simp only [ha, Bool.false_eq_true, if_false]
        rw [proj_encode wr wr' π hπ]
        cases he : Codec.encode wr' cfg.pieces st.codec b with
        | mk ok c' => cases ok <;> rfl

theorem proj_writeLoop (cfg : Cfg) (len : Nat) : ∀ (fuel : Nat) (st : PSt ω'),
    writeLoop wr cfg len fuel (mapP π st) =
      ((writeLoop wr' cfg len fuel st).1, (writeLoop wr' cfg len fuel st).2.1, mapP π (writeLoop wr' cfg len fuel st).2.2) := by
  intro fuel
  induction fuel with
  | zero => intro st; rfl
  | succ fuel ih =>
    intro st
    unfold writeLoop
    have h1 : (mapP π st).buf = st.buf := rfl
    rw [h1]
    by_cases hgt : st.buf.length > cfg.bs
    · rw [if_pos hgt, if_pos hgt, proj_emit wr wr' π hπ]
      cases he : emitBlock wr' cfg false st with
      | mk r st1 =>
        cases r with
        | none => exact ih st1
        | some e =>
          simp only
          cases cfg.hasErr <;> rfl
    · rw [if_neg hgt, if_neg hgt]

theorem proj_write (cfg : Cfg) (st : PSt ω') (p : Bytes) :
    (mapP π st).write wr cfg p =
      ((st.write wr' cfg p).1, (st.write wr' cfg p).2.1, mapP π (st.write wr' cfg p).2.2) := by
  unfold PSt.write
  have h1 : (mapP π st).err = st.err := rfl
  rw [h1]
  cases he : (if cfg.hasErr then st.err else none) with
  | some e => rfl
  | none => exact proj_writeLoop wr wr' π hπ cfg p.length _ { st with buf := st.buf ++ p }

theorem proj_close (cfg : Cfg) (st : PSt ω') :
    (mapP π st).close wr cfg = ((st.close wr' cfg).1, mapP π (st.close wr' cfg).2) := by
  unfold PSt.close
  have h1 : (mapP π st).buf = st.buf := rfl
  rw [h1]
  cases hv : cfg.v1shape with
  | false =>
    simp only [Bool.false_eq_true, if_false]
    exact proj_emit wr wr' π hπ cfg true st
  | true =>
    simp only [if_true]
    by_cases hgt : st.buf.length > 0
    · simp only [hgt, if_true]
      rw [proj_emit wr wr' π hπ]
      cases he : emitBlock wr' cfg false st with
      | mk r st1 =>
        cases r with
        | some e => rfl
        | none =>
          simp only
          have h2 : (mapP π st1).buf = st1.buf := rfl
          rw [h2]
          by_cases hg2 : st1.buf.length > 0
          · rw [if_pos hg2, if_pos hg2]
          · rw [if_neg hg2, if_neg hg2]
            exact proj_emit wr wr' π hπ cfg true st1
    · simp only [hgt, if_false, h1]
      exact proj_emit wr wr' π hπ cfg true st

theorem proj_init (pieces : Bytes → List Bytes) (w0 : ω') (hbytes : Bytes) :
    PSt.init wr pieces (π w0) hbytes =
      ((PSt.init wr' pieces w0 hbytes).1, mapP π (PSt.init wr' pieces w0 hbytes).2) := by
  unfold PSt.init
  have := proj_encode wr wr' π hπ pieces ({ w := w0 } : Codec ω') (headerPacket hbytes)
  have hm : mapC π ({ w := w0 } : Codec ω') = ({ w := π w0 } : Codec ω) := rfl
  rw [hm] at this
  rw [this]
  rfl

theorem proj_writes (cfg : Cfg) : ∀ (ws : List Bytes) (st : PSt ω'),
    PSt.writes wr cfg (mapP π st) ws = ((PSt.writes wr' cfg st ws).1, mapP π (PSt.writes wr' cfg st ws).2) := by
  intro ws
  induction ws with
  | nil => intro st; rfl
  | cons p ps ih =>
    intro st
    unfold PSt.writes
    simp only
    rw [proj_write wr wr' π hπ]
    simp only
    rw [ih]

end proj

/-! ## the history writer of the armor stream -/

/-- the bytes of the `Write`s of `H` that the armor stream (starting in `a`) accepted -/
def okBytes : FArm → List Bytes → Bytes
  | _, [] => []
  | a, p :: ps => (if (a.write p).1 then p else []) ++ okBytes (a.write p).2 ps

/-- a `Write` on the armor stream reached by the history `H` -/
def histWrite (a0 : FArm) (H : List Bytes) (p : Bytes) : Bool × List Bytes :=
  (((farmRun a0 H).write p).1, H ++ [p])

theorem farmRun_snoc (a0 : FArm) (H : List Bytes) (p : Bytes) :
    farmRun a0 (H ++ [p]) = ((farmRun a0 H).write p).2 := by
  unfold farmRun
  rw [List.foldl_append]
  rfl

theorem hist_proj (a0 : FArm) (H : List Bytes) (p : Bytes) :
    FArm.write (farmRun a0 H) p = ((histWrite a0 H p).1, farmRun a0 (histWrite a0 H p).2) := by
  unfold histWrite
  simp only
  rw [farmRun_snoc]

theorem okBytes_snoc : ∀ (H : List Bytes) (a0 : FArm) (p : Bytes),
    okBytes a0 (H ++ [p]) = okBytes a0 H ++ (if ((farmRun a0 H).write p).1 then p else []) := by
  intro H
  induction H with
  | nil =>
    intro a0 p
    show (if (a0.write p).1 then p else []) ++ [] = [] ++ (if (a0.write p).1 then p else [])
    rw [List.append_nil, List.nil_append]
  | cons q H ih =>
    intro a0 p
    have hr : farmRun a0 (q :: H) = farmRun (a0.write q).2 H := rfl
    rw [List.cons_append, okBytes, okBytes, ih, hr, List.append_assoc]

theorem hist_obs (a0 : FArm) : ObsWriter (histWrite a0) (okBytes a0) := by
  constructor
  · intro H p H' h
    unfold histWrite at h
    obtain ⟨h1, h2⟩ := Prod.mk.inj h
    subst h2
    rw [okBytes_snoc, h1]; rfl
  · intro H p H' h
    unfold histWrite at h
    obtain ⟨h1, h2⟩ := Prod.mk.inj h
    subst h2
    rw [okBytes_snoc, h1]; simp

/-- as long as the armor stream has not failed, it accepted everything -/
theorem okBytes_all : ∀ (H : List Bytes) (a : FArm), a.failed = false → (farmRun a H).failed = false →
    okBytes a H = H.flatten := by
  intro H
  induction H with
  | nil => intro a _ _; rfl
  | cons p H ih =>
    intro a hf hr
    have hstep : farmRun a (p :: H) = farmRun (a.write p).2 H := rfl
    rw [hstep] at hr
    have hflag := farm_write_flag a p hf
    cases hok : (a.write p).1 with
    | true =>
      rw [hok] at hflag
      rw [okBytes, hok, ih _ (by simpa using hflag) hr]
      simp
    | false =>
      rw [hok] at hflag
      rw [farmRun_failed H _ (by simpa using hflag)] at hr
      rw [hr] at hflag; simp at hflag

/-! ## the armored senders: success means written -/

theorem armored_success (cfg : Cfg) (hp : ∀ b, (cfg.pieces b).flatten = b) (hb : 0 < cfg.bs) (hif : IndexFail cfg.pkt)
    (v : Version) (hv : cfg.v1shape = (v == v1)) (par : Armor.Params) (he : par.enc.WF) (hw : 0 < par.bytesPerWord)
    (hdr ftr : Bytes) (sink : Stream.Sink) (part : List Nat) (headerBytes : Bytes) (ws : List Bytes)
    (ha : (FArm.init par hdr ftr ({ sink := sink, part := part } : Wr)).1 = true)
    (hi : (PSt.init FArm.write cfg.pieces (FArm.init par hdr ftr ({ sink := sink, part := part } : Wr)).2 headerBytes).1 = true)
    (hws : ∀ x ∈ (PSt.writes FArm.write cfg
        (PSt.init FArm.write cfg.pieces (FArm.init par hdr ftr ({ sink := sink, part := part } : Wr)).2 headerBytes).2 ws).1, x.2 = none)
    (hc : (armoredClose cfg (PSt.writes FArm.write cfg
        (PSt.init FArm.write cfg.pieces (FArm.init par hdr ftr ({ sink := sink, part := part } : Wr)).2 headerBytes).2 ws).2).1 = none) :
    ∃ M, oneShot cfg v headerBytes ws.flatten = .ok M ∧
      (armoredClose cfg (PSt.writes FArm.write cfg
        (PSt.init FArm.write cfg.pieces (FArm.init par hdr ftr ({ sink := sink, part := part } : Wr)).2 headerBytes).2 ws).2).2.codec.w.w.bytes =
        Armor.sealText par hdr ftr M ∧
      (armoredClose cfg (PSt.writes FArm.write cfg
        (PSt.init FArm.write cfg.pieces (FArm.init par hdr ftr ({ sink := sink, part := part } : Wr)).2 headerBytes).2 ws).2).2.codec.w.w.faults = 0 := by
  generalize ha0 : (FArm.init par hdr ftr ({ sink := sink, part := part } : Wr)).2 = a0 at hi hws hc ⊢
  have hπ := hist_proj a0
  have hnil : a0 = farmRun a0 [] := rfl
  -- the same run over the history writer
  have e1 := proj_init FArm.write (histWrite a0) (farmRun a0) hπ cfg.pieces [] headerBytes
  rw [← hnil] at e1
  rw [e1] at hi hws hc ⊢
  simp only at hi hws hc ⊢
  have e2 := proj_writes FArm.write (histWrite a0) (farmRun a0) hπ cfg ws (PSt.init (histWrite a0) cfg.pieces [] headerBytes).2
  rw [e2] at hws hc ⊢
  simp only at hws hc ⊢
  have e3 := proj_close FArm.write (histWrite a0) (farmRun a0) hπ cfg
    (PSt.writes (histWrite a0) cfg (PSt.init (histWrite a0) cfg.pieces [] headerBytes).2 ws).2
  unfold armoredClose at hc ⊢
  rw [e3] at hc ⊢
  cases hcl : ((PSt.writes (histWrite a0) cfg (PSt.init (histWrite a0) cfg.pieces [] headerBytes).2 ws).2.close
      (histWrite a0) cfg).1 with
  | some e => rw [hcl] at hc; simp at hc
  | none =>
    rw [hcl] at hc
    simp only at hc ⊢
    obtain ⟨B, hB, ho, _⟩ := run_success (histWrite a0) (okBytes a0) (hist_obs a0) cfg hp hb hif v hv [] headerBytes ws hi hws hcl
    generalize ((PSt.writes (histWrite a0) cfg (PSt.init (histWrite a0) cfg.pieces [] headerBytes).2 ws).2.close
      (histWrite a0) cfg).2 = fin at hc ho ⊢
    have hw' : (mapP (farmRun a0) fin).codec.w = farmRun a0 fin.codec.w := rfl
    rw [hw'] at hc ⊢
    cases hac : (farmRun a0 fin.codec.w).close with
    | mk ok a' =>
      rw [hac] at hc
      cases ok with
      | false => simp at hc
      | true =>
        simp only
        have hrun := (farm_run_close par he hw hdr ftr sink part fin.codec.w ha).1
        rw [ha0, hac] at hrun
        obtain ⟨hf0, hbytes⟩ := hrun rfl
        have hnf : (farmRun a0 fin.codec.w).failed = false := by
          cases hff : (farmRun a0 fin.codec.w).failed with
          | false => rfl
          | true => rw [farm_close_failed _ hff] at hac; cases hac
        have ha0f : a0.failed = false := by rw [← ha0]; exact (farm_init_sim par hdr ftr sink part ha).2.1
        have hall := okBytes_all fin.codec.w a0 ha0f hnf
        refine ⟨headerPacket headerBytes ++ B, by simp [oneShot, hB], ?_, hf0⟩
        rw [hbytes, ← hall, ho]
        simp [okBytes]

end Saltpack.Proofs.SenderP
