/-
  The sender streams over a faulting writer (Model/SenderStream.lean): one-step
  lemmas about the go-codec encoder and the block emission, generic in the
  underlying writer `wr : ω → Bytes → Bool × ω` observed through
  `obs : ω → Bytes` (the bytes it has accepted so far).

  Behind Props/C14Sender.lean and Props/C13Sender.lean.
-/
import Saltpack.Model.SenderStream
import Saltpack.Proofs.StreamLemmas

namespace Saltpack.Proofs.SenderP
open Saltpack Saltpack.Sender

/-- what the theorems need to know about an underlying writer: `obs` (the bytes
    it has accepted) grows by exactly the bytes of a successful `Write`, and by
    some PREFIX of them (possibly none, possibly all) by a failing one — the
    io.Writer contract `(n, err)`, `0 ≤ n ≤ len(p)`.  (A short write without
    error is excluded: `ok` says a successful write took everything.) -/
structure ObsWriter {ω : Type} (wr : ω → Bytes → Bool × ω) (obs : ω → Bytes) : Prop where
  ok : ∀ w p w', wr w p = (true, w') → obs w' = obs w ++ p
  fail : ∀ w p w', wr w p = (false, w') → ∃ q, q <+: p ∧ obs w' = obs w ++ q

theorem wr_obs : ObsWriter Wr.write Wr.bytes := by
  constructor
  · intro w p w' h
    unfold Wr.write at h
    cases hs : w.sink with
    | nil =>
      simp only [hs] at h
      obtain ⟨_, rfl⟩ := Prod.mk.inj h
      simp [Wr.bytes]
    | cons f rest =>
      simp only [hs] at h
      cases f with
      | true => simp at h
      | false =>
        simp only [Bool.false_eq_true, if_false] at h
        obtain ⟨_, rfl⟩ := Prod.mk.inj h
        simp [Wr.bytes]
  · intro w p w' h
    unfold Wr.write at h
    cases hs : w.sink with
    | nil => simp [hs] at h
    | cons f rest =>
      simp only [hs] at h
      cases f with
      | true =>
        simp only [if_true] at h
        obtain ⟨_, rfl⟩ := Prod.mk.inj h
        exact ⟨p.take (w.part.headD 0), List.take_prefix _ _, by simp [Wr.bytes]⟩
      | false => simp at h

section generic
variable {ω : Type} (wr : ω → Bytes → Bool × ω) (obs : ω → Bytes)

/-! ## `writePieces` and `Encode` -/

theorem take_flatten_prefix {α : Type} (ps : List (List α)) (k : Nat) : (ps.take k).flatten <+: ps.flatten := by
  refine ⟨(ps.drop k).flatten, ?_⟩
  rw [← List.flatten_append, List.take_append_drop]

/-- the pieces are written in order up to the first failure (of the failing
    piece a part may have been accepted): a prefix of their concatenation
    reaches the writer, all of it if every write succeeded -/
theorem writePieces_obs (hw : ObsWriter wr obs) : ∀ (ps : List Bytes) (w : ω),
    ∃ q, q <+: ps.flatten ∧ obs (writePieces wr ps w).2 = obs w ++ q ∧
      ((writePieces wr ps w).1 = true → q = ps.flatten) := by
  intro ps
  induction ps with
  | nil => intro w; exact ⟨[], by simp [writePieces]⟩
  | cons p ps ih =>
    intro w
    unfold writePieces
    cases h : wr w p with
    | mk ok w' =>
      cases ok with
      | true =>
        obtain ⟨q, hq, ho, hall⟩ := ih w'
        refine ⟨p ++ q, ?_, ?_, fun ht => by simp [hall ht]⟩
        · simp only [List.flatten_cons]
          exact (List.prefix_append_right_inj p).2 hq
        · simp only [ho, hw.ok w p w' h, List.append_assoc]
      | false =>
        obtain ⟨q, hq, ho⟩ := hw.fail w p w' h
        refine ⟨q, ?_, ho, by simp⟩
        simp only [List.flatten_cons]
        exact hq.trans (List.prefix_append _ _)

/-- `Encode` on a failed encoder: an error, nothing written -/
theorem encode_failed (pieces : Bytes → List Bytes) (c : Codec ω) (b : Bytes) (h : c.failed = true) :
    Codec.encode wr pieces c b = (false, c) := by
  simp [Codec.encode, h]

/-- `Encode` on a healthy encoder: a prefix `q` of the packet reaches the writer
    (all of it iff `Encode` succeeds), and the encoder is failed afterwards iff
    `Encode` failed -/
theorem encode_obs (hw : ObsWriter wr obs) (pieces : Bytes → List Bytes) (hp : ∀ b, (pieces b).flatten = b)
    (c : Codec ω) (b : Bytes) (h : c.failed = false) :
    ∃ q, q <+: b ∧ obs (Codec.encode wr pieces c b).2.w = obs c.w ++ q ∧
      ((Codec.encode wr pieces c b).1 = true → q = b) ∧
      (Codec.encode wr pieces c b).2.failed = !(Codec.encode wr pieces c b).1 := by
  obtain ⟨q, hq, ho, hall⟩ := writePieces_obs wr obs hw (pieces b) c.w
  unfold Codec.encode
  simp only [h, Bool.false_eq_true, if_false]
  refine ⟨q, ?_, ho, ?_, trivial⟩
  · rwa [hp b] at hq
  · intro ht
    rw [hall ht, hp b]

/-- the encoder's error flag is never cleared -/
theorem encode_failed_mono (pieces : Bytes → List Bytes) (c : Codec ω) (b : Bytes) (h : c.failed = true) :
    (Codec.encode wr pieces c b).2.failed = true := by
  rw [encode_failed wr pieces c b h]; exact h

/-- a failing `Encode` leaves the encoder failed -/
theorem encode_false_failed (pieces : Bytes → List Bytes) (c : Codec ω) (b : Bytes)
    (h : (Codec.encode wr pieces c b).1 = false) : (Codec.encode wr pieces c b).2.failed = true := by
  unfold Codec.encode at h ⊢
  by_cases hf : c.failed = true
  · simp [hf]
  · simp only [hf, Bool.false_eq_true, if_false] at h ⊢
    simp [h]

theorem encode_true_healthy (pieces : Bytes → List Bytes) (c : Codec ω) (b : Bytes)
    (h : (Codec.encode wr pieces c b).1 = true) : c.failed = false ∧ (Codec.encode wr pieces c b).2.failed = false := by
  unfold Codec.encode at h ⊢
  by_cases hf : c.failed = true
  · simp [hf] at h
  · simp only [hf, Bool.false_eq_true, if_false] at h ⊢
    simp [h]

/-! ## one block -/

/-- every way `encryptBlock` / `signBlock` / `signcryptBlock` can go: a panic
    (nothing written), an error before encoding (nothing written), a complete
    packet written (counter advanced), or a failed `Encode` (a prefix of the
    packet written, encoder failed for good).  The block is gone from the
    buffer in every case and `err` is untouched. -/
theorem emitBlock_cases (hw : ObsWriter wr obs) (cfg : Cfg) (hp : ∀ b, (cfg.pieces b).flatten = b)
    (f : Bool) (st : PSt ω) :
    (emitBlock wr cfg f st).2.buf = st.buf.drop cfg.bs ∧ (emitBlock wr cfg f st).2.err = st.err ∧
    ((∃ s, (emitBlock wr cfg f st).1 = some (.panic s) ∧ (emitBlock wr cfg f st).2.codec = st.codec ∧
        (emitBlock wr cfg f st).2.n = st.n ∧
        (readPanics cfg.v1shape f cfg.bs (st.buf.take cfg.bs).length (st.buf.drop cfg.bs).length = true ∨
         assertPanics cfg.v1shape cfg.assertExtra f (st.buf.take cfg.bs).length st.n = true)) ∨
     (∃ e, cfg.pkt st.n (st.buf.take cfg.bs) f = .error e ∧ (emitBlock wr cfg f st).1 = some e ∧
        (emitBlock wr cfg f st).2.codec = st.codec ∧ (emitBlock wr cfg f st).2.n = st.n) ∨
     (∃ b, cfg.pkt st.n (st.buf.take cfg.bs) f = .ok b ∧
        readPanics cfg.v1shape f cfg.bs (st.buf.take cfg.bs).length (st.buf.drop cfg.bs).length = false ∧
        assertPanics cfg.v1shape cfg.assertExtra f (st.buf.take cfg.bs).length st.n = false ∧
        (((emitBlock wr cfg f st).1 = none ∧ (emitBlock wr cfg f st).2.n = st.n + 1 ∧ st.codec.failed = false ∧
            (emitBlock wr cfg f st).2.codec.failed = false ∧
            obs (emitBlock wr cfg f st).2.codec.w = obs st.codec.w ++ b) ∨
         ((emitBlock wr cfg f st).1 = some .ioError ∧ (emitBlock wr cfg f st).2.n = st.n ∧
            (emitBlock wr cfg f st).2.codec.failed = true ∧
            (st.codec.failed = true → (emitBlock wr cfg f st).2.codec = st.codec) ∧
            ∃ q, q <+: b ∧ obs (emitBlock wr cfg f st).2.codec.w = obs st.codec.w ++ q)))) := by
  generalize hres : emitBlock wr cfg f st = r
  unfold emitBlock at hres
  by_cases hr : readPanics cfg.v1shape f cfg.bs (st.buf.take cfg.bs).length (st.buf.drop cfg.bs).length = true
  · simp only [hr, if_true] at hres
    subst hres
    exact ⟨rfl, rfl, Or.inl ⟨_, rfl, rfl, rfl, Or.inl hr⟩⟩
  · simp only [hr, Bool.false_eq_true, if_false] at hres
    have hr' : readPanics cfg.v1shape f cfg.bs (st.buf.take cfg.bs).length (st.buf.drop cfg.bs).length = false := by
      simpa using hr
    cases hpk : cfg.pkt st.n (st.buf.take cfg.bs) f with
    | error e =>
      simp only [hpk] at hres
      subst hres
      exact ⟨rfl, rfl, Or.inr (Or.inl ⟨e, rfl, rfl, rfl, rfl⟩)⟩
    | ok b =>
      simp only [hpk] at hres
      by_cases ha : assertPanics cfg.v1shape cfg.assertExtra f (st.buf.take cfg.bs).length st.n = true
      · simp only [ha, if_true] at hres
        subst hres
        exact ⟨rfl, rfl, Or.inl ⟨_, rfl, rfl, rfl, Or.inr ha⟩⟩
      · simp only [ha, Bool.false_eq_true, if_false] at hres
        have ha' : assertPanics cfg.v1shape cfg.assertExtra f (st.buf.take cfg.bs).length st.n = false := by simpa using ha
        cases he : Codec.encode wr cfg.pieces st.codec b with
        | mk ok c' =>
          simp only [he] at hres
          cases ok with
          | true =>
            simp only at hres
            subst hres
            have hh := encode_true_healthy wr cfg.pieces st.codec b (by rw [he])
            obtain ⟨q, _, ho, hall, _⟩ := encode_obs wr obs hw cfg.pieces hp st.codec b hh.1
            rw [he] at ho hall hh
            refine ⟨rfl, rfl, Or.inr (Or.inr ⟨b, rfl, hr', ha', Or.inl ⟨rfl, rfl, hh.1, hh.2, ?_⟩⟩)⟩
            simp only at ho ⊢
            rw [ho, hall rfl]
          | false =>
            simp only at hres
            subst hres
            have hf := encode_false_failed wr cfg.pieces st.codec b (by rw [he])
            rw [he] at hf
            refine ⟨rfl, rfl, Or.inr (Or.inr ⟨b, rfl, hr', ha', Or.inr ⟨rfl, rfl, hf, ?_, ?_⟩⟩)⟩
            · intro hc
              rw [encode_failed wr cfg.pieces st.codec b hc] at he
              obtain ⟨_, rfl⟩ := Prod.mk.inj he
              rfl
            by_cases hc : st.codec.failed = true
            · rw [encode_failed wr cfg.pieces st.codec b hc] at he
              obtain ⟨_, rfl⟩ := Prod.mk.inj he
              exact ⟨[], List.nil_prefix, by simp⟩
            · obtain ⟨q, hq, ho, _, _⟩ := encode_obs wr obs hw cfg.pieces hp st.codec b (by simpa using hc)
              rw [he] at ho
              exact ⟨q, hq, ho⟩

end generic

/-! ## chunk plans and their bytes -/

theorem planBytes_append (pkt : Nat → Bytes → Bool → Except Err Bytes) : ∀ (a b : List (Bytes × Bool)) (i : Nat) (B : Bytes),
    planBytes pkt (a ++ b) i = .ok B ↔
      ∃ A B', planBytes pkt a i = .ok A ∧ planBytes pkt b (i + a.length) = .ok B' ∧ B = A ++ B' := by
  intro a
  induction a with
  | nil => intro b i B; simp [planBytes]
  | cons x a ih =>
    intro b i B
    obtain ⟨c, f⟩ := x
    simp only [List.cons_append, planBytes, List.length_cons]
    cases hp : pkt i c f with
    | error e =>
      simp only
      constructor
      · intro h; cases h
      · rintro ⟨A, B', h, _⟩
        cases hpa : planBytes pkt a (i + 1) <;> simp at h
    | ok x =>
      cases hab : planBytes pkt (a ++ b) (i + 1) with
      | error e =>
        simp only
        constructor
        · intro h; cases h
        · rintro ⟨A, B', h1, h2, _⟩
          cases hpa : planBytes pkt a (i + 1) with
          | error e' => simp [hpa] at h1
          | ok A' =>
            have := (ih b (i + 1) (A' ++ B')).2 ⟨A', B', hpa, by rw [← h2]; congr 1; omega, rfl⟩
            rw [hab] at this; cases this
      | ok R =>
        obtain ⟨A', B', h1, h2, h3⟩ := (ih b (i + 1) R).1 hab
        simp only [h1]
        constructor
        · intro h
          injection h with h
          refine ⟨x ++ A', B', rfl, by rw [← h2]; congr 1; omega, ?_⟩
          rw [← h, h3, List.append_assoc]
        · rintro ⟨A, B'', hA, hB, rfl⟩
          injection hA with hA
          have : i + (a.length + 1) = i + 1 + a.length := by omega
          rw [this, h2] at hB
          injection hB with hB
          rw [← hA, ← hB, h3, List.append_assoc]

/-- the bytes of a prefix of a plan are a prefix of the bytes of the plan -/
theorem planBytes_prefix (pkt : Nat → Bytes → Bool → Except Err Bytes) (a plan : List (Bytes × Bool)) (B : Bytes)
    (hpre : a <+: plan) (h : planBytes pkt plan 0 = .ok B) : ∃ A, planBytes pkt a 0 = .ok A ∧ A <+: B := by
  obtain ⟨b, rfl⟩ := hpre
  obtain ⟨A, B', h1, _, rfl⟩ := (planBytes_append pkt a b 0 B).1 h
  exact ⟨A, h1, List.prefix_append _ _⟩

theorem chunks_ne_nil' {α : Type} (n : Nat) (l : List α) (h : l ≠ []) : chunks n l ≠ [] := by
  intro hc
  have := chunks_flatten n l
  rw [hc] at this
  exact h this.symm

/-- full blocks followed by more data are non-final packets of the all-at-once
    plan, for every continuation of the plaintext -/
theorem nonfinal_prefix (v : Version) (bs : Nat) (hb : 0 < bs) (E : List Bytes) (R : Bytes)
    (hfull : ∀ e ∈ E, e.length = bs) (hR : R ≠ []) :
    E.map (·, false) <+: Encrypt.chunkPlan v bs (E.flatten ++ R) := by
  have hch := chunks_blocks bs hb E R hfull
  have hne := chunks_ne_nil' bs R hR
  rcases List.eq_nil_or_concat (chunks bs R) with h0 | ⟨init, last, h1⟩
  · exact absurd h0 hne
  · have h1' : chunks bs R = init ++ [last] := by simpa using h1
    unfold Encrypt.chunkPlan
    simp only [hch, h1']
    by_cases hv : v = v1
    · simp only [if_pos hv]
      refine ⟨(init ++ [last]).map (·, false) ++ [([], true)], ?_⟩
      simp
    · simp only [if_neg hv]
      have : (E ++ (init ++ [last])) = (E ++ init) ++ [last] := by simp
      rw [this]
      simp only [List.isEmpty_iff, List.append_eq_nil_iff, List.cons_ne_self, and_false, if_false,
        List.dropLast_concat]
      refine ⟨init.map (·, false) ++ [((E ++ init ++ [last]).getLast!, true)], ?_⟩
      simp

/-- the plan of a settled bufferer state: the emitted blocks, then what is
    buffered as the last block(s) -/
theorem settled_plan (v : Version) (bs : Nat) (hb : 0 < bs) (E : List Bytes) (buf : Bytes)
    (hfull : ∀ e ∈ E, e.length = bs) (hbound : buf.length ≤ bs) (hne : buf = [] → E = []) :
    Encrypt.chunkPlan v bs (E.flatten ++ buf) =
      if v = v1 then E.map (·, false) ++ (if buf = [] then [] else [(buf, false)]) ++ [([], true)]
      else E.map (·, false) ++ [(buf, true)] := by
  have hc : chunks bs (E.flatten ++ buf) = E ++ (if buf = [] then [] else [buf]) := by
    rw [chunks_blocks bs hb _ _ hfull]
    by_cases h0 : buf = []
    · rw [h0, chunks_nil]; simp
    · rw [chunks_short bs _ h0 hbound, if_neg h0]
  unfold Encrypt.chunkPlan
  simp only [hc]
  by_cases hv : v = v1
  · simp only [if_pos hv]
    by_cases h0 : buf = []
    · simp [h0]
    · simp [h0]
  · simp only [if_neg hv]
    by_cases h0 : buf = []
    · simp [h0, hne h0]
    · simp [h0]

/-! ## after a fault: the dead states -/

section dead
variable {ω : Type} (wr : ω → Bytes → Bool × ω) (obs : ω → Bytes)

/-- a packet function refuses by packet NUMBER only (`numBlocks.check()`; the
    version panics of the real packet functions do not depend on the block either) -/
def IndexFail (pkt : Nat → Bytes → Bool → Except Err Bytes) : Prop :=
  ∀ i c f e, pkt i c f = .error e → ∀ c' f', ∃ e', pkt i c' f' = .error e'

/-- the stream can never write again: the encoder has failed, or the packet
    number is refused -/
def Dead (cfg : Cfg) (st : PSt ω) : Prop :=
  st.codec.failed = true ∨ ∀ c f, ∃ e, cfg.pkt st.n c f = .error e

theorem dead_emit (hw : ObsWriter wr obs) (cfg : Cfg) (hp : ∀ b, (cfg.pieces b).flatten = b) (f : Bool)
    (st : PSt ω) (hd : Dead cfg st) :
    (emitBlock wr cfg f st).1 ≠ none ∧ obs (emitBlock wr cfg f st).2.codec.w = obs st.codec.w ∧
    Dead cfg (emitBlock wr cfg f st).2 := by
  obtain ⟨_, _, hc⟩ := emitBlock_cases wr obs hw cfg hp f st
  rcases hc with ⟨s, h1, h2, h3, _⟩ | ⟨e, _, h1, h2, h3⟩ | ⟨b, hb, _, _, hc⟩
  · refine ⟨by rw [h1]; simp, by rw [h2], ?_⟩
    unfold Dead; rw [h2, h3]; exact hd
  · refine ⟨by rw [h1]; simp, by rw [h2], ?_⟩
    unfold Dead; rw [h2, h3]; exact hd
  · have hf : st.codec.failed = true := by
      rcases hd with hd | hd
      · exact hd
      · obtain ⟨e, he⟩ := hd (st.buf.take cfg.bs) f
        rw [hb] at he; cases he
    rcases hc with ⟨_, _, h0, _⟩ | ⟨h1, _, h3, h4, _⟩
    · rw [hf] at h0; cases h0
    · exact ⟨by rw [h1]; simp, by rw [h4 hf], Or.inl h3⟩

theorem dead_writeLoop (hw : ObsWriter wr obs) (cfg : Cfg) (hp : ∀ b, (cfg.pieces b).flatten = b) (len : Nat) :
    ∀ (fuel : Nat) (st : PSt ω), Dead cfg st →
      obs (writeLoop wr cfg len fuel st).2.2.codec.w = obs st.codec.w ∧ Dead cfg (writeLoop wr cfg len fuel st).2.2 := by
  intro fuel
  induction fuel with
  | zero => intro st hd; exact ⟨rfl, hd⟩
  | succ fuel ih =>
    intro st hd
    unfold writeLoop
    by_cases hgt : st.buf.length > cfg.bs
    · simp only [hgt, if_true]
      obtain ⟨h1, h2, h3⟩ := dead_emit wr obs hw cfg hp false st hd
      cases he : emitBlock wr cfg false st with
      | mk r st' =>
        rw [he] at h1 h2 h3
        cases r with
        | none => exact absurd rfl h1
        | some e =>
          simp only
          by_cases hh : cfg.hasErr = true
          · simp only [hh, if_true]; exact ⟨h2, h3⟩
          · simp only [hh, Bool.false_eq_true, if_false]; exact ⟨h2, h3⟩
    · rw [if_neg hgt]; exact ⟨rfl, hd⟩

/-- a `Write` on a dead stream writes nothing and leaves it dead -/
theorem dead_write (hw : ObsWriter wr obs) (cfg : Cfg) (hp : ∀ b, (cfg.pieces b).flatten = b)
    (st : PSt ω) (p : Bytes) (hd : Dead cfg st) :
    obs (st.write wr cfg p).2.2.codec.w = obs st.codec.w ∧ Dead cfg (st.write wr cfg p).2.2 := by
  unfold PSt.write
  cases he : (if cfg.hasErr then st.err else none) with
  | some e => exact ⟨rfl, hd⟩
  | none =>
    simp only
    exact dead_writeLoop wr obs hw cfg hp p.length _ { st with buf := st.buf ++ p } hd

/-- `Close` on a dead stream reports an error (or panics), writes nothing -/
theorem dead_close (hw : ObsWriter wr obs) (cfg : Cfg) (hp : ∀ b, (cfg.pieces b).flatten = b)
    (st : PSt ω) (hd : Dead cfg st) :
    (st.close wr cfg).1 ≠ none ∧ obs (st.close wr cfg).2.codec.w = obs st.codec.w ∧ Dead cfg (st.close wr cfg).2 := by
  unfold PSt.close
  by_cases hv : cfg.v1shape = true
  · simp only [hv, if_true]
    by_cases hgt : st.buf.length > 0
    · simp only [hgt, if_true]
      obtain ⟨h1, h2, h3⟩ := dead_emit wr obs hw cfg hp false st hd
      cases he : emitBlock wr cfg false st with
      | mk r st' =>
        rw [he] at h1 h2 h3
        cases r with
        | none => exact absurd rfl h1
        | some e => exact ⟨by simp, h2, h3⟩
    · simp only [hgt, if_false]
      exact dead_emit wr obs hw cfg hp true st hd
  · simp only [hv, Bool.false_eq_true, if_false]
    exact dead_emit wr obs hw cfg hp true st hd

end dead

end Saltpack.Proofs.SenderP
