/-
  The sender streams over a NEVER-FAILING writer (Model/SenderStream.lean):
  totality.  `GoodWriter wr good`: an invariant `good` of the writer's state
  under which every `Write` of the underlying writer succeeds (for the scripted
  writer `Wr`: the fault script is exhausted, `sink = []`).

  Over such a writer the constructor always succeeds, and the only thing that
  can make a `Write` or `Close` of the packet machine fail is the packet
  function refusing a packet NUMBER (`ErrPacketOverflow`).  The whole run is
  therefore described UNCONDITIONALLY: what reaches the writer is the header
  packet followed by `planOkBytes` of the all-at-once chunk plan of the
  concatenated plaintext — the packets of the plan up to the first refused
  number —, whatever the split into `Write`s; and when the all-at-once form
  exists (`planBytes … = .ok B`) every call reports success and the bytes are
  exactly the all-at-once output.

  Behind Props/C13SenderFull.lean.
-/
import Saltpack.Proofs.SenderStreamInst

namespace Saltpack.Proofs.SenderP
open Saltpack Saltpack.Sender

/-- an underlying writer that cannot fail in the states satisfying `good` -/
structure GoodWriter {ω : Type} (wr : ω → Bytes → Bool × ω) (good : ω → Prop) : Prop where
  step : ∀ w p, good w → (wr w p).1 = true ∧ good (wr w p).2

/-- the scripted writer whose fault script is exhausted never fails -/
theorem wr_good : GoodWriter Wr.write (fun w => w.sink = []) := by
  constructor
  intro w p h
  simp [Wr.write, h]

/-- the bytes of the packets of a plan up to the first refused packet number -/
def planOkBytes (pkt : Nat → Bytes → Bool → Except Err Bytes) : List (Bytes × Bool) → Nat → Bytes
  | [], _ => []
  | (c, f) :: rest, i =>
    match pkt i c f with
    | .ok b => b ++ planOkBytes pkt rest (i + 1)
    | .error _ => []

theorem planOkBytes_append (pkt : Nat → Bytes → Bool → Except Err Bytes) : ∀ (a b : List (Bytes × Bool)) (i : Nat) (A : Bytes),
    planBytes pkt a i = .ok A → planOkBytes pkt (a ++ b) i = A ++ planOkBytes pkt b (i + a.length) := by
  intro a
  induction a with
  | nil => intro b i A h; simp [planBytes] at h; simp [← h]
  | cons x a ih =>
    intro b i A h
    obtain ⟨c, f⟩ := x
    simp only [planBytes] at h
    cases hp : pkt i c f with
    | error e => simp [hp] at h
    | ok x =>
      cases hr : planBytes pkt a (i + 1) with
      | error e => simp [hp, hr] at h
      | ok R =>
        simp only [hp, hr] at h
        injection h with h
        simp only [List.cons_append, planOkBytes, hp, ih b (i + 1) R hr, List.length_cons]
        rw [← h, List.append_assoc]
        congr 3
        omega

/-- when the all-at-once form exists, `planOkBytes` is it -/
theorem planOkBytes_of_ok (pkt : Nat → Bytes → Bool → Except Err Bytes) (pl : List (Bytes × Bool)) (i : Nat) (B : Bytes)
    (h : planBytes pkt pl i = .ok B) : planOkBytes pkt pl i = B := by
  have := planOkBytes_append pkt pl [] i B h
  simpa [planOkBytes] using this

/-- a refused packet number right after the packets `a`: the plan's `planOkBytes`
    are the bytes of `a`, and the all-at-once form does not exist -/
theorem stuck_of_refused (pkt : Nat → Bytes → Bool → Except Err Bytes) (a plan : List (Bytes × Bool)) (A : Bytes)
    (c : Bytes) (f : Bool) (e : Err) (hA : planBytes pkt a 0 = .ok A) (hr : pkt a.length c f = .error e)
    (hpre : a ++ [(c, f)] <+: plan) :
    planOkBytes pkt plan 0 = A ∧ ∀ B, planBytes pkt plan 0 ≠ .ok B := by
  obtain ⟨r, rfl⟩ := hpre
  constructor
  · rw [List.append_assoc, planOkBytes_append pkt a _ 0 A hA]
    simp [planOkBytes, hr]
  · intro B hB
    rw [List.append_assoc] at hB
    obtain ⟨_, B', _, h2, _⟩ := (planBytes_append pkt a _ 0 B).1 hB
    simp [planBytes, hr] at h2

section good
variable {ω : Type} (wr : ω → Bytes → Bool × ω) (obs : ω → Bytes) (good : ω → Prop)

theorem writePieces_good (hg : GoodWriter wr good) : ∀ (ps : List Bytes) (w : ω), good w →
    (writePieces wr ps w).1 = true ∧ good (writePieces wr ps w).2 := by
  intro ps
  induction ps with
  | nil => intro w h; exact ⟨rfl, h⟩
  | cons p ps ih =>
    intro w h
    obtain ⟨h1, h2⟩ := hg.step w p h
    unfold writePieces
    cases hwr : wr w p with
    | mk ok w' =>
      rw [hwr] at h1 h2
      simp only at h1 h2
      subst h1
      exact ih w' h2

/-- `Encode` on a healthy encoder over a good writer succeeds -/
theorem encode_good (hg : GoodWriter wr good) (pieces : Bytes → List Bytes) (c : Codec ω) (b : Bytes)
    (hf : c.failed = false) (h : good c.w) :
    (Codec.encode wr pieces c b).1 = true ∧ (Codec.encode wr pieces c b).2.failed = false ∧
      good (Codec.encode wr pieces c b).2.w := by
  obtain ⟨h1, h2⟩ := writePieces_good wr good hg (pieces b) c.w h
  unfold Codec.encode
  simp only [hf, Bool.false_eq_true, if_false]
  cases hwp : writePieces wr (pieces b) c.w with
  | mk ok w' =>
    rw [hwp] at h1 h2
    simp only at h1 h2 ⊢
    subst h1
    exact ⟨rfl, rfl, h2⟩

/-- whatever a block does, a healthy encoder over a good writer stays so -/
theorem emit_good (hg : GoodWriter wr good) (cfg : Cfg) (f : Bool) (st : PSt ω)
    (hf : st.codec.failed = false) (h : good st.codec.w) :
    (emitBlock wr cfg f st).2.codec.failed = false ∧ good (emitBlock wr cfg f st).2.codec.w := by
  unfold emitBlock
  simp only
  split
  · exact ⟨hf, h⟩
  · split
    · exact ⟨hf, h⟩
    · rename_i b _
      split
      · exact ⟨hf, h⟩
      · obtain ⟨h1, h2, h3⟩ := encode_good wr good hg cfg.pieces st.codec b hf h
        cases he : Codec.encode wr cfg.pieces st.codec b with
        | mk ok c' =>
          rw [he] at h1 h2 h3
          simp only at h1 h2 h3
          subst h1
          exact ⟨h2, h3⟩

/-- healthy, settled, over a good writer -/
def AliveG (cfg : Cfg) (hdr T : Bytes) (st : PSt ω) : Prop :=
  ∃ E, AliveE obs cfg hdr T E st ∧ good st.codec.w ∧ st.buf.length ≤ cfg.bs ∧ (st.buf = [] → E = [])

/-- a packet number was refused: the stream is dead, and for EVERY continuation
    `X` of the plaintext accepted so far what is at the writer is the header and
    the `planOkBytes` of the all-at-once plan, which does not exist as a whole -/
def Stuck (cfg : Cfg) (v : Version) (hdr T : Bytes) (st : PSt ω) : Prop :=
  Dead cfg st ∧ ∀ X, obs st.codec.w = hdr ++ planOkBytes cfg.pkt (Encrypt.chunkPlan v cfg.bs (T ++ X)) 0 ∧
    ∀ B, planBytes cfg.pkt (Encrypt.chunkPlan v cfg.bs (T ++ X)) 0 ≠ .ok B

theorem good_writeLoop (hw : ObsWriter wr obs) (hg : GoodWriter wr good) (cfg : Cfg)
    (hp : ∀ b, (cfg.pieces b).flatten = b) (hb : 0 < cfg.bs) (hif : IndexFail cfg.pkt) (v : Version)
    (hdr T : Bytes) (len : Nat) :
    ∀ (fuel : Nat) (E : List Bytes) (st : PSt ω), AliveE obs cfg hdr T E st → good st.codec.w →
      st.buf.length < fuel → (st.buf = [] → E = []) →
      ((writeLoop wr cfg len fuel st).1 = len ∧ (writeLoop wr cfg len fuel st).2.1 = none ∧
        AliveG obs good cfg hdr T (writeLoop wr cfg len fuel st).2.2) ∨
      ((writeLoop wr cfg len fuel st).2.1 ≠ none ∧ Stuck obs cfg v hdr T (writeLoop wr cfg len fuel st).2.2) := by
  intro fuel
  induction fuel with
  | zero => intro E st _ _ hf; omega
  | succ fuel ih =>
    intro E st ha hgd hf hne
    unfold writeLoop
    by_cases hgt : st.buf.length > cfg.bs
    · rw [if_pos hgt]
      have hclen : (st.buf.take cfg.bs).length = cfg.bs := by rw [List.length_take]; omega
      have hdlen : (st.buf.drop cfg.bs).length = st.buf.length - cfg.bs := List.length_drop
      have hdne : st.buf.drop cfg.bs ≠ [] := by
        intro h0; rw [h0] at hdlen; simp at hdlen; omega
      have hT : T = (E ++ [st.buf.take cfg.bs]).flatten ++ st.buf.drop cfg.bs := by
        rw [← ha.cons]; simp
      have hfull' : ∀ e ∈ E ++ [st.buf.take cfg.bs], e.length = cfg.bs := by
        intro e he
        rcases List.mem_append.mp he with he | he
        · exact ha.full e he
        · simp only [List.mem_singleton] at he; rw [he, hclen]
      obtain ⟨body, hbody, hobs⟩ := ha.body
      obtain ⟨hbuf, herr, hc⟩ := emitBlock_cases wr obs hw cfg hp false st
      obtain ⟨hgf, hgg⟩ := emit_good wr good hg cfg false st ha.healthy hgd
      have hnp := readPanics_full cfg.v1shape cfg.assertExtra cfg.bs (st.buf.drop cfg.bs).length st.n hb
      rcases hc with ⟨s, _, _, _, hpan⟩ | ⟨e, hpk, h1, h2, h3⟩ | ⟨b, hpk, _, _, hc⟩
      · rw [hclen] at hpan
        rcases hpan with h | h
        · rw [hnp.1] at h; cases h
        · rw [hnp.2] at h; cases h
      · -- the packet number is refused
        right
        cases he : emitBlock wr cfg false st with
        | mk r st' =>
          rw [he] at h1 h2 h3
          simp only at h1 h2 h3
          subst h1
          simp only
          have hdead : Dead cfg st' := by
            right; intro c f; rw [h3]; exact hif _ _ _ _ hpk c f
          have hst : ∀ X, obs st'.codec.w = hdr ++ planOkBytes cfg.pkt (Encrypt.chunkPlan v cfg.bs (T ++ X)) 0 ∧
              ∀ B, planBytes cfg.pkt (Encrypt.chunkPlan v cfg.bs (T ++ X)) 0 ≠ .ok B := by
            intro X
            have hpl : (E ++ [st.buf.take cfg.bs]).map (·, false) <+: Encrypt.chunkPlan v cfg.bs (T ++ X) := by
              rw [hT, List.append_assoc]
              apply nonfinal_prefix v cfg.bs hb _ _ hfull'
              intro h0
              exact hdne (List.append_eq_nil_iff.mp h0).1
            rw [List.map_append] at hpl
            have hpk' : cfg.pkt (E.map (·, false)).length (st.buf.take cfg.bs) false = .error e := by
              rw [List.length_map, ← ha.n]; exact hpk
            obtain ⟨ho, hno⟩ := stuck_of_refused cfg.pkt (E.map (·, false)) _ body _ false e hbody hpk'
              (by simpa using hpl)
            exact ⟨by rw [h2, hobs, ho], hno⟩
          refine ⟨by simp, ?_⟩
          by_cases hh : cfg.hasErr = true
          · simp only [hh, if_true]; exact ⟨hdead, hst⟩
          · simp only [hh, Bool.false_eq_true, if_false]; exact ⟨hdead, hst⟩
      · rw [ha.n] at hpk
        have hplan' : planBytes cfg.pkt ((E ++ [st.buf.take cfg.bs]).map (·, false)) 0 = .ok (body ++ b) := by
          rw [List.map_append]
          exact planBytes_snoc cfg.pkt _ _ false body b hbody (by simpa using hpk)
        rcases hc with ⟨h1, h2, _, h4, h5⟩ | ⟨_, _, h3, _⟩
        · cases he : emitBlock wr cfg false st with
          | mk r st' =>
            rw [he] at h1 h2 h4 h5 hbuf herr hgg
            simp only at h1 h2 h4 h5 hbuf herr hgg
            subst h1
            simp only
            have ha' : AliveE obs cfg hdr T (E ++ [st.buf.take cfg.bs]) st' :=
              ⟨by rw [hbuf]; exact hT.symm, hfull', by rw [h2, ha.n]; simp, h4, by rw [herr]; exact ha.noerr,
               ⟨body ++ b, hplan', by rw [h5, hobs, List.append_assoc]⟩⟩
            exact ih (E ++ [st.buf.take cfg.bs]) st' ha' hgg (by rw [hbuf, hdlen]; omega)
              (fun h0 => absurd (by rw [← hbuf]; exact h0) hdne)
        · rw [hgf] at h3; cases h3
    · rw [if_neg hgt]
      left
      exact ⟨rfl, rfl, E, ha, hgd, Nat.le_of_not_gt hgt, hne⟩

/-- `Write` from a healthy state over a good writer: success and healthy, or a
    packet number was refused -/
theorem good_write (hw : ObsWriter wr obs) (hg : GoodWriter wr good) (cfg : Cfg)
    (hp : ∀ b, (cfg.pieces b).flatten = b) (hb : 0 < cfg.bs) (hif : IndexFail cfg.pkt) (v : Version)
    (hdr T : Bytes) (st : PSt ω) (p : Bytes) (h : AliveG obs good cfg hdr T st) :
    ((st.write wr cfg p).1 = p.length ∧ (st.write wr cfg p).2.1 = none ∧
      AliveG obs good cfg hdr (T ++ p) (st.write wr cfg p).2.2) ∨
    ((st.write wr cfg p).2.1 ≠ none ∧ Stuck obs cfg v hdr (T ++ p) (st.write wr cfg p).2.2) := by
  obtain ⟨E, ha, hgd, _, hne⟩ := h
  unfold PSt.write
  have h0 : (if cfg.hasErr then st.err else none) = none := by rw [ha.noerr]; simp
  rw [h0]
  simp only
  have ha1 : AliveE obs cfg hdr (T ++ p) E ({ st with buf := st.buf ++ p } : PSt ω) :=
    ⟨by rw [← ha.cons]; simp, ha.full, ha.n, ha.healthy, ha.noerr, ha.body⟩
  exact good_writeLoop wr obs good hw hg cfg hp hb hif v hdr (T ++ p) p.length _ E _ ha1 hgd (by simp)
    (fun h => hne (List.append_eq_nil_iff.mp h).1)

theorem stuck_write (hw : ObsWriter wr obs) (cfg : Cfg) (hp : ∀ b, (cfg.pieces b).flatten = b) (v : Version)
    (hdr T : Bytes) (st : PSt ω) (p : Bytes) (h : Stuck obs cfg v hdr T st) :
    Stuck obs cfg v hdr (T ++ p) (st.write wr cfg p).2.2 := by
  obtain ⟨hd, hall⟩ := h
  obtain ⟨ho, hd'⟩ := dead_write wr obs hw cfg hp st p hd
  refine ⟨hd', fun X => ?_⟩
  rw [ho, List.append_assoc]
  exact hall (p ++ X)

theorem stuck_writes (hw : ObsWriter wr obs) (cfg : Cfg) (hp : ∀ b, (cfg.pieces b).flatten = b) (v : Version)
    (hdr : Bytes) (ps : List Bytes) : ∀ (T : Bytes) (st : PSt ω), Stuck obs cfg v hdr T st →
      Stuck obs cfg v hdr (T ++ ps.flatten) (PSt.writes wr cfg st ps).2 := by
  induction ps with
  | nil => intro T st h; simpa [PSt.writes] using h
  | cons p ps ih =>
    intro T st h
    have := ih (T ++ p) _ (stuck_write wr obs hw cfg hp v hdr T st p h)
    simpa [PSt.writes, List.append_assoc] using this

theorem good_writes (hw : ObsWriter wr obs) (hg : GoodWriter wr good) (cfg : Cfg)
    (hp : ∀ b, (cfg.pieces b).flatten = b) (hb : 0 < cfg.bs) (hif : IndexFail cfg.pkt) (v : Version)
    (hdr : Bytes) (ps : List Bytes) : ∀ (T : Bytes) (st : PSt ω), AliveG obs good cfg hdr T st →
      ((PSt.writes wr cfg st ps).1 = ps.map (fun p => (p.length, none)) ∧
        AliveG obs good cfg hdr (T ++ ps.flatten) (PSt.writes wr cfg st ps).2) ∨
      ((∃ x ∈ (PSt.writes wr cfg st ps).1, x.2 ≠ none) ∧
        Stuck obs cfg v hdr (T ++ ps.flatten) (PSt.writes wr cfg st ps).2) := by
  induction ps with
  | nil => intro T st h; left; simpa [PSt.writes] using h
  | cons p ps ih =>
    intro T st h
    rcases good_write wr obs good hw hg cfg hp hb hif v hdr T st p h with ⟨h1, h2, ha⟩ | ⟨hne, hs⟩
    · rcases ih (T ++ p) _ ha with ⟨hr, ha'⟩ | ⟨⟨x, hx, hxn⟩, hs⟩
      · left
        refine ⟨?_, by simpa [PSt.writes, List.append_assoc] using ha'⟩
        simp only [PSt.writes, List.map_cons, hr]
        rw [h1, h2]
      · right
        refine ⟨⟨x, by simp [PSt.writes, hx], hxn⟩, by simpa [PSt.writes, List.append_assoc] using hs⟩
    · right
      have := stuck_writes wr obs hw cfg hp v hdr ps (T ++ p) _ hs
      exact ⟨⟨((st.write wr cfg p).1, (st.write wr cfg p).2.1), by simp [PSt.writes], hne⟩, by simpa [PSt.writes, List.append_assoc] using this⟩

/-- one block from a healthy state over a good writer, the read-state checks
    passing: a complete packet, or the packet number is refused (nothing
    written) -/
theorem good_emit (hw : ObsWriter wr obs) (hg : GoodWriter wr good) (cfg : Cfg)
    (hp : ∀ b, (cfg.pieces b).flatten = b) (hdr : Bytes) (pl : List (Bytes × Bool)) (body : Bytes) (st : PSt ω)
    (f : Bool) (hf : st.codec.failed = false) (hgd : good st.codec.w)
    (hn : st.n = pl.length) (hbody : planBytes cfg.pkt pl 0 = .ok body) (hobs : obs st.codec.w = hdr ++ body)
    (hnr : readPanics cfg.v1shape f cfg.bs (st.buf.take cfg.bs).length (st.buf.drop cfg.bs).length = false)
    (hna : assertPanics cfg.v1shape cfg.assertExtra f (st.buf.take cfg.bs).length st.n = false) :
    (∃ b, (emitBlock wr cfg f st).1 = none ∧
        planBytes cfg.pkt (pl ++ [(st.buf.take cfg.bs, f)]) 0 = .ok (body ++ b) ∧
        obs (emitBlock wr cfg f st).2.codec.w = hdr ++ (body ++ b) ∧
        (emitBlock wr cfg f st).2.n = pl.length + 1 ∧ (emitBlock wr cfg f st).2.codec.failed = false ∧
        good (emitBlock wr cfg f st).2.codec.w) ∨
    (∃ e, (emitBlock wr cfg f st).1 = some e ∧ cfg.pkt pl.length (st.buf.take cfg.bs) f = .error e ∧
        obs (emitBlock wr cfg f st).2.codec.w = hdr ++ body) := by
  obtain ⟨_, _, hc⟩ := emitBlock_cases wr obs hw cfg hp f st
  obtain ⟨hgf, hgg⟩ := emit_good wr good hg cfg f st hf hgd
  rcases hc with ⟨s, _, _, _, hpan⟩ | ⟨e, hpk, h1, h2, _⟩ | ⟨b, hpk, _, _, hc⟩
  · rcases hpan with h | h
    · rw [hnr] at h; cases h
    · rw [hna] at h; cases h
  · right
    exact ⟨e, h1, by rw [← hn]; exact hpk, by rw [h2, hobs]⟩
  · rw [hn] at hpk
    have hplan' := planBytes_snoc cfg.pkt pl _ f body b hbody hpk
    rcases hc with ⟨h1, h2, _, h4, h5⟩ | ⟨_, _, h3, _⟩
    · left
      exact ⟨b, h1, hplan', by rw [h5, hobs, List.append_assoc], by rw [h2, hn], h4, hgg⟩
    · rw [hgf] at h3; cases h3

/-- `Close` from a healthy state over a good writer: success with exactly the
    all-at-once output at the writer, or a refused packet number — then the
    all-at-once form does not exist and its `planOkBytes` are at the writer -/
theorem good_close (hw : ObsWriter wr obs) (hg : GoodWriter wr good) (cfg : Cfg)
    (hp : ∀ b, (cfg.pieces b).flatten = b) (hb : 0 < cfg.bs) (v : Version) (hv : cfg.v1shape = (v == v1))
    (hdr T : Bytes) (st : PSt ω) (h : AliveG obs good cfg hdr T st) :
    ((st.close wr cfg).1 = none ∧ ∃ B, planBytes cfg.pkt (Encrypt.chunkPlan v cfg.bs T) 0 = .ok B ∧
        obs (st.close wr cfg).2.codec.w = hdr ++ B) ∨
    ((st.close wr cfg).1 ≠ none ∧
        obs (st.close wr cfg).2.codec.w = hdr ++ planOkBytes cfg.pkt (Encrypt.chunkPlan v cfg.bs T) 0 ∧
        ∀ B, planBytes cfg.pkt (Encrypt.chunkPlan v cfg.bs T) 0 ≠ .ok B) := by
  obtain ⟨E, ha, hgd, hbound, hne⟩ := h
  have hplan := settled_plan v cfg.bs hb E st.buf ha.full hbound hne
  rw [ha.cons] at hplan
  have htake : st.buf.take cfg.bs = st.buf := List.take_of_length_le hbound
  have hdrop : st.buf.drop cfg.bs = [] := List.drop_of_length_le hbound
  obtain ⟨body, hbody, hobs⟩ := ha.body
  have hn0 : st.n = (E.map (fun x => (x, false))).length := by rw [ha.n]; simp
  obtain ⟨hp1, hp2, hp3⟩ := readPanics_last cfg.v1shape cfg.assertExtra cfg.bs st.buf.length st.n hbound
  unfold PSt.close
  by_cases hv1 : v = v1
  · have hs : cfg.v1shape = true := by rw [hv]; simp [hv1]
    rw [if_pos hv1] at hplan
    simp only [hs, if_true]
    by_cases hgt : st.buf.length > 0
    · simp only [hgt, if_true]
      have hbne : st.buf ≠ [] := by intro h0; rw [h0] at hgt; simp at hgt
      rw [if_neg hbne] at hplan
      have h1 := good_emit wr obs good hw hg cfg hp hdr _ body st false ha.healthy hgd hn0 hbody hobs
        (by rw [htake, hdrop]; exact (hp1 hs hgt).1) (by rw [htake]; exact (hp1 hs hgt).2)
      obtain ⟨hbuf1, _, _⟩ := emitBlock_cases wr obs hw cfg hp false st
      rw [htake] at h1
      cases he : emitBlock wr cfg false st with
      | mk r st1 =>
        rw [he] at h1 hbuf1
        simp only at h1 hbuf1
        rcases h1 with ⟨b, hr, hpl, ho, hn1, hf1, hg1⟩ | ⟨e, hr, hpk, ho⟩
        · subst hr
          simp only
          have hb1 : st1.buf = [] := by rw [hbuf1, hdrop]
          have : ¬ st1.buf.length > 0 := by rw [hb1]; simp
          rw [if_neg this]
          have h2 := good_emit wr obs good hw hg cfg hp hdr _ (body ++ b) st1 true hf1 hg1
            (by rw [hn1]; simp) hpl ho
            (by rw [hb1]; simpa using (hp2 hs st1.n).1) (by rw [hb1]; simpa using (hp2 hs st1.n).2)
          rw [hb1] at h2
          simp only [List.take_nil] at h2
          rcases h2 with ⟨b2, hr2, hpl2, ho2, _, _, _⟩ | ⟨e, hr2, hpk2, ho2⟩
          · left
            exact ⟨hr2, body ++ b ++ b2, by rw [hplan]; exact hpl2, ho2⟩
          · right
            obtain ⟨hok, hno⟩ := stuck_of_refused cfg.pkt _ (Encrypt.chunkPlan v cfg.bs T) (body ++ b) _ true e hpl hpk2
              (by rw [hplan]; exact List.prefix_rfl)
            exact ⟨by rw [hr2]; simp, by rw [ho2, hok], hno⟩
        · subst hr
          right
          obtain ⟨hok, hno⟩ := stuck_of_refused cfg.pkt _ (Encrypt.chunkPlan v cfg.bs T) body _ false e hbody hpk
            (by rw [hplan]; exact List.prefix_append _ _)
          exact ⟨by simp, by simp only; rw [ho, hok], hno⟩
    · simp only [hgt, if_false]
      have hb0 : st.buf = [] := List.length_eq_zero_iff.mp (by omega)
      rw [if_pos hb0, List.append_nil] at hplan
      have h2 := good_emit wr obs good hw hg cfg hp hdr _ body st true ha.healthy hgd hn0 hbody hobs
        (by rw [hb0]; simpa using (hp2 hs st.n).1) (by rw [hb0]; simpa using (hp2 hs st.n).2)
      rw [hb0] at h2
      simp only [List.take_nil] at h2
      rcases h2 with ⟨b2, hr2, hpl2, ho2, _, _, _⟩ | ⟨e, hr2, hpk2, ho2⟩
      · left
        exact ⟨hr2, body ++ b2, by rw [hplan]; exact hpl2, ho2⟩
      · right
        obtain ⟨hok, hno⟩ := stuck_of_refused cfg.pkt _ (Encrypt.chunkPlan v cfg.bs T) body _ true e hbody hpk2
          (by rw [hplan]; exact List.prefix_rfl)
        exact ⟨by rw [hr2]; simp, by rw [ho2, hok], hno⟩
  · have hs : cfg.v1shape = false := by rw [hv]; simp [hv1]
    rw [if_neg hv1] at hplan
    simp only [hs, Bool.false_eq_true, if_false]
    have hnn : st.buf.length = 0 → st.n = 0 := by
      intro h0
      rw [ha.n, hne (List.length_eq_zero_iff.mp h0)]; rfl
    have h2 := good_emit wr obs good hw hg cfg hp hdr _ body st true ha.healthy hgd hn0 hbody hobs
      (by rw [htake, hdrop]; exact (hp3 hs hnn).1) (by rw [htake]; exact (hp3 hs hnn).2)
    rw [htake] at h2
    rcases h2 with ⟨b2, hr2, hpl2, ho2, _, _, _⟩ | ⟨e, hr2, hpk2, ho2⟩
    · left
      exact ⟨hr2, body ++ b2, by rw [hplan]; exact hpl2, ho2⟩
    · right
      obtain ⟨hok, hno⟩ := stuck_of_refused cfg.pkt _ (Encrypt.chunkPlan v cfg.bs T) body _ true e hbody hpk2
        (by rw [hplan]; exact List.prefix_rfl)
      exact ⟨by rw [hr2]; simp, by rw [ho2, hok], hno⟩

/-- the constructor over a good writer always succeeds -/
theorem good_init (hw : ObsWriter wr obs) (hg : GoodWriter wr good) (cfg : Cfg)
    (hp : ∀ b, (cfg.pieces b).flatten = b) (v : Version) (w0 : ω) (hw0 : good w0) (hbytes : Bytes) :
    (PSt.init wr cfg.pieces w0 hbytes).1 = true ∧
      AliveG obs good cfg (obs w0 ++ headerPacket hbytes) [] (PSt.init wr cfg.pieces w0 hbytes).2 := by
  obtain ⟨h1, _, h3⟩ := encode_good wr good hg cfg.pieces ({ w := w0 } : Codec ω) (headerPacket hbytes) rfl hw0
  have hi1 : (PSt.init wr cfg.pieces w0 hbytes).1 = true := by
    unfold PSt.init
    cases he : Codec.encode wr cfg.pieces ({ w := w0 } : Codec ω) (headerPacket hbytes) with
    | mk ok c => rw [he] at h1; exact h1
  have hi2 : good (PSt.init wr cfg.pieces w0 hbytes).2.codec.w := by
    unfold PSt.init
    cases he : Codec.encode wr cfg.pieces ({ w := w0 } : Codec ω) (headerPacket hbytes) with
    | mk ok c => rw [he] at h3; exact h3
  rcases init_inv wr obs hw cfg hp v w0 hbytes with ⟨_, ha, hb0⟩ | ⟨hf, _, _⟩
  · exact ⟨hi1, [], ha, hi2, by rw [hb0]; simp, fun _ => rfl⟩
  · rw [hi1] at hf; cases hf

/-- **The whole run over a never-failing writer, unconditionally**: the
    constructor succeeds; whatever the split of the plaintext into `Write`s,
    what is at the writer after `Close` is the header packet and the packets of
    the all-at-once plan of the concatenation up to the first refused packet
    number; every `Write` and `Close` report success iff the all-at-once form
    exists, and then exactly it has been written. -/
theorem run_good (hw : ObsWriter wr obs) (hg : GoodWriter wr good) (cfg : Cfg)
    (hp : ∀ b, (cfg.pieces b).flatten = b) (hb : 0 < cfg.bs) (hif : IndexFail cfg.pkt) (v : Version)
    (hv : cfg.v1shape = (v == v1)) (w0 : ω) (hw0 : good w0) (hbytes : Bytes) (ws : List Bytes) :
    (PSt.init wr cfg.pieces w0 hbytes).1 = true ∧
    obs ((PSt.writes wr cfg (PSt.init wr cfg.pieces w0 hbytes).2 ws).2.close wr cfg).2.codec.w =
      obs w0 ++ headerPacket hbytes ++ planOkBytes cfg.pkt (Encrypt.chunkPlan v cfg.bs ws.flatten) 0 ∧
    (∀ B, planBytes cfg.pkt (Encrypt.chunkPlan v cfg.bs ws.flatten) 0 = .ok B →
      (PSt.writes wr cfg (PSt.init wr cfg.pieces w0 hbytes).2 ws).1 = ws.map (fun p => (p.length, none)) ∧
      ((PSt.writes wr cfg (PSt.init wr cfg.pieces w0 hbytes).2 ws).2.close wr cfg).1 = none) := by
  obtain ⟨hi, ha⟩ := good_init wr obs good hw hg cfg hp v w0 hw0 hbytes
  refine ⟨hi, ?_⟩
  rcases good_writes wr obs good hw hg cfg hp hb hif v _ ws [] _ ha with ⟨hr, ha'⟩ | ⟨_, hs⟩
  · rw [List.nil_append] at ha'
    rcases good_close wr obs good hw hg cfg hp hb v hv _ _ _ ha' with ⟨hc, B, hB, ho⟩ | ⟨_, ho, hno⟩
    · exact ⟨by rw [ho, planOkBytes_of_ok cfg.pkt _ 0 B hB], fun _ _ => ⟨hr, hc⟩⟩
    · exact ⟨ho, fun B hB => absurd hB (hno B)⟩
  · rw [List.nil_append] at hs
    obtain ⟨hd, hall⟩ := hs
    obtain ⟨_, ho, _⟩ := dead_close wr obs hw cfg hp _ hd
    obtain ⟨h1, h2⟩ := hall []
    rw [List.append_nil] at h1 h2
    exact ⟨by rw [ho, h1], fun B hB => absurd hB (h2 B)⟩

theorem dead_emit_writer (cfg : Cfg) (f : Bool) (st : PSt ω) :
    (emitBlock wr cfg f st).2.codec.w = st.codec.w ∨
      ∃ b, (emitBlock wr cfg f st).2.codec = (Codec.encode wr cfg.pieces st.codec b).2 := by
  unfold emitBlock
  simp only
  split
  · exact Or.inl rfl
  · split
    · exact Or.inl rfl
    · rename_i b _
      split
      · exact Or.inl rfl
      · right
        refine ⟨b, ?_⟩
        cases he : Codec.encode wr cfg.pieces st.codec b with
        | mk ok c' => cases ok <;> rfl

/-- whatever the packet machine does, the writer under it stays good -/
theorem emit_keeps_good (hg : GoodWriter wr good) (cfg : Cfg) (f : Bool) (st : PSt ω) (h : good st.codec.w) :
    good (emitBlock wr cfg f st).2.codec.w := by
  rcases dead_emit_writer wr cfg f st with h1 | ⟨b, h1⟩
  · rw [h1]; exact h
  · rw [h1]
    unfold Codec.encode
    by_cases hf : st.codec.failed = true
    · simp only [hf, if_true]; exact h
    · simp only [hf, Bool.false_eq_true, if_false]
      exact (writePieces_good wr good hg (cfg.pieces b) st.codec.w h).2

theorem writeLoop_keeps_good (hg : GoodWriter wr good) (cfg : Cfg) (len : Nat) : ∀ (fuel : Nat) (st : PSt ω),
    good st.codec.w → good (writeLoop wr cfg len fuel st).2.2.codec.w := by
  intro fuel
  induction fuel with
  | zero => intro st h; exact h
  | succ fuel ih =>
    intro st h
    unfold writeLoop
    by_cases hgt : st.buf.length > cfg.bs
    · rw [if_pos hgt]
      have h1 := emit_keeps_good wr good hg cfg false st h
      cases he : emitBlock wr cfg false st with
      | mk r st' =>
        rw [he] at h1
        cases r with
        | none => exact ih st' h1
        | some e =>
          simp only
          by_cases hh : cfg.hasErr = true
          · simp only [hh, if_true]; exact h1
          · simp only [hh, Bool.false_eq_true, if_false]; exact h1
    · rw [if_neg hgt]; exact h

theorem write_keeps_good (hg : GoodWriter wr good) (cfg : Cfg) (st : PSt ω) (p : Bytes) (h : good st.codec.w) :
    good (st.write wr cfg p).2.2.codec.w := by
  unfold PSt.write
  cases he : (if cfg.hasErr then st.err else none) with
  | some e => exact h
  | none => exact writeLoop_keeps_good wr good hg cfg p.length _ { st with buf := st.buf ++ p } h

theorem writes_keep_good (hg : GoodWriter wr good) (cfg : Cfg) : ∀ (ps : List Bytes) (st : PSt ω),
    good st.codec.w → good (PSt.writes wr cfg st ps).2.codec.w := by
  intro ps
  induction ps with
  | nil => intro st h; exact h
  | cons p ps ih =>
    intro st h
    unfold PSt.writes
    exact ih _ (write_keeps_good wr good hg cfg st p h)

theorem close_keeps_good (hg : GoodWriter wr good) (cfg : Cfg) (st : PSt ω) (h : good st.codec.w) :
    good (st.close wr cfg).2.codec.w := by
  unfold PSt.close
  by_cases hv : cfg.v1shape = true
  · simp only [hv, if_true]
    by_cases hgt : st.buf.length > 0
    · simp only [hgt, if_true]
      have h1 := emit_keeps_good wr good hg cfg false st h
      cases he : emitBlock wr cfg false st with
      | mk r st' =>
        rw [he] at h1
        cases r with
        | some e => exact h1
        | none =>
          simp only
          by_cases hg2 : st'.buf.length > 0
          · rw [if_pos hg2]; exact h1
          · rw [if_neg hg2]; exact emit_keeps_good wr good hg cfg true st' h1
    · simp only [hgt, if_false]
      exact emit_keeps_good wr good hg cfg true st h
  · simp only [hv, Bool.false_eq_true, if_false]
    exact emit_keeps_good wr good hg cfg true st h

theorem init_keeps_good (hg : GoodWriter wr good) (pieces : Bytes → List Bytes) (w0 : ω) (hbytes : Bytes)
    (h : good w0) : good (PSt.init wr pieces w0 hbytes).2.codec.w := by
  unfold PSt.init Codec.encode
  simp only [Bool.false_eq_true, if_false]
  exact (writePieces_good wr good hg (pieces (headerPacket hbytes)) w0 h).2

/-- `run_good` with the converse (`Close` reports success ONLY IF the
    all-at-once form exists) and the writer's invariant at the end -/
theorem run_good_full (hw : ObsWriter wr obs) (hg : GoodWriter wr good) (cfg : Cfg)
    (hp : ∀ b, (cfg.pieces b).flatten = b) (hb : 0 < cfg.bs) (hif : IndexFail cfg.pkt) (v : Version)
    (hv : cfg.v1shape = (v == v1)) (w0 : ω) (hw0 : good w0) (hbytes : Bytes) (ws : List Bytes) :
    (PSt.init wr cfg.pieces w0 hbytes).1 = true ∧
    obs ((PSt.writes wr cfg (PSt.init wr cfg.pieces w0 hbytes).2 ws).2.close wr cfg).2.codec.w =
      obs w0 ++ headerPacket hbytes ++ planOkBytes cfg.pkt (Encrypt.chunkPlan v cfg.bs ws.flatten) 0 ∧
    (∀ B, planBytes cfg.pkt (Encrypt.chunkPlan v cfg.bs ws.flatten) 0 = .ok B →
      (PSt.writes wr cfg (PSt.init wr cfg.pieces w0 hbytes).2 ws).1 = ws.map (fun p => (p.length, none)) ∧
      ((PSt.writes wr cfg (PSt.init wr cfg.pieces w0 hbytes).2 ws).2.close wr cfg).1 = none) ∧
    (((PSt.writes wr cfg (PSt.init wr cfg.pieces w0 hbytes).2 ws).2.close wr cfg).1 = none →
      ∃ B, planBytes cfg.pkt (Encrypt.chunkPlan v cfg.bs ws.flatten) 0 = .ok B) ∧
    good ((PSt.writes wr cfg (PSt.init wr cfg.pieces w0 hbytes).2 ws).2.close wr cfg).2.codec.w := by
  obtain ⟨h1, h2, h3⟩ := run_good wr obs good hw hg cfg hp hb hif v hv w0 hw0 hbytes ws
  refine ⟨h1, h2, h3, ?_, close_keeps_good wr good hg cfg _
    (writes_keep_good wr good hg cfg ws _ (init_keeps_good wr good hg cfg.pieces w0 hbytes hw0))⟩
  intro hc
  obtain ⟨_, ha⟩ := good_init wr obs good hw hg cfg hp v w0 hw0 hbytes
  rcases good_writes wr obs good hw hg cfg hp hb hif v _ ws [] _ ha with ⟨_, ha'⟩ | ⟨_, hs⟩
  · rw [List.nil_append] at ha'
    rcases good_close wr obs good hw hg cfg hp hb v hv _ _ _ ha' with ⟨_, B, hB, _⟩ | ⟨hne, _, _⟩
    · exact ⟨B, hB⟩
    · exact absurd hc hne
  · obtain ⟨hd, _⟩ := hs
    exact absurd hc (dead_close wr obs hw cfg hp _ hd).1

/-- the detached-signature stream over a good writer: everything succeeds -/
theorem det_good (hw : ObsWriter wr obs) (hg : GoodWriter wr good) (pieces : Bytes → List Bytes)
    (hp : ∀ b, (pieces b).flatten = b) (sigPkt : Bytes → Bytes) (w0 : ω) (hw0 : good w0) (hbytes : Bytes)
    (ws : List Bytes) :
    (DSt.init wr pieces w0 hbytes).1 = true ∧
    (DSt.writes (DSt.init wr pieces w0 hbytes).2 ws).1 = ws.map (fun p => (p.length, none)) ∧
    (((DSt.writes (DSt.init wr pieces w0 hbytes).2 ws).2).close wr pieces sigPkt).1 = none ∧
    obs (((DSt.writes (DSt.init wr pieces w0 hbytes).2 ws).2).close wr pieces sigPkt).2.codec.w =
      obs w0 ++ headerPacket hbytes ++ sigPkt ws.flatten := by
  obtain ⟨h1, h2, h3⟩ := encode_good wr good hg pieces ({ w := w0 } : Codec ω) (headerPacket hbytes) rfl hw0
  have hrun := (det_run wr obs hw pieces hp sigPkt w0 hbytes ws).2
  have hi : (DSt.init wr pieces w0 hbytes).1 = true := by
    unfold DSt.init
    cases he : Codec.encode wr pieces ({ w := w0 } : Codec ω) (headerPacket hbytes) with
    | mk ok c => rw [he] at h1; exact h1
  have hc : (((DSt.writes (DSt.init wr pieces w0 hbytes).2 ws).2).close wr pieces sigPkt).1 = none := by
    rw [(det_writes ws _).1]
    unfold DSt.init DSt.close
    cases he : Codec.encode wr pieces ({ w := w0 } : Codec ω) (headerPacket hbytes) with
    | mk ok c =>
      rw [he] at h2 h3
      simp only at h2 h3 ⊢
      obtain ⟨g1, _, _⟩ := encode_good wr good hg pieces c (sigPkt ([] ++ ws.flatten)) h2 h3
      cases he2 : Codec.encode wr pieces c (sigPkt ([] ++ ws.flatten)) with
      | mk ok2 c2 =>
        rw [he2] at g1
        simp only at g1
        subst g1
        rfl
  exact ⟨hi, (det_writes ws _).2, hc, hrun hi hc⟩

theorem oneShot_ok (cfg : Cfg) (v : Version) (hbytes pt M : Bytes) (h : oneShot cfg v hbytes pt = .ok M) :
    ∃ B, planBytes cfg.pkt (Encrypt.chunkPlan v cfg.bs pt) 0 = .ok B ∧ M = headerPacket hbytes ++ B := by
  unfold oneShot at h
  cases hB : planBytes cfg.pkt (Encrypt.chunkPlan v cfg.bs pt) 0 with
  | error e => simp [hB] at h
  | ok B =>
    simp only [hB] at h
    injection h with h
    exact ⟨B, rfl, h.symm⟩

/-- when the all-at-once form exists: over a never-failing writer the
    constructor, every `Write` and `Close` report success and exactly the
    all-at-once output is written -/
theorem run_good_oneShot (hw : ObsWriter wr obs) (hg : GoodWriter wr good) (cfg : Cfg)
    (hp : ∀ b, (cfg.pieces b).flatten = b) (hb : 0 < cfg.bs) (hif : IndexFail cfg.pkt) (v : Version)
    (hv : cfg.v1shape = (v == v1)) (w0 : ω) (hw0 : good w0) (hbytes : Bytes) (ws : List Bytes) (M : Bytes)
    (hM : oneShot cfg v hbytes ws.flatten = .ok M) :
    (PSt.init wr cfg.pieces w0 hbytes).1 = true ∧
    (PSt.writes wr cfg (PSt.init wr cfg.pieces w0 hbytes).2 ws).1 = ws.map (fun p => (p.length, none)) ∧
    ((PSt.writes wr cfg (PSt.init wr cfg.pieces w0 hbytes).2 ws).2.close wr cfg).1 = none ∧
    obs ((PSt.writes wr cfg (PSt.init wr cfg.pieces w0 hbytes).2 ws).2.close wr cfg).2.codec.w = obs w0 ++ M := by
  obtain ⟨B, hB, rfl⟩ := oneShot_ok cfg v hbytes _ M hM
  obtain ⟨hi, ho, hall⟩ := run_good wr obs good hw hg cfg hp hb hif v hv w0 hw0 hbytes ws
  obtain ⟨h1, h2⟩ := hall B hB
  refine ⟨hi, h1, h2, ?_⟩
  rw [ho, planOkBytes_of_ok cfg.pkt _ 0 B hB, List.append_assoc]

end good

end Saltpack.Proofs.SenderP
