/-
  Saltpack.Proofs.ClassifyTotal — the `panic("logic error in ClassifyStream")`
  site of `IsSaltpackArmoredPrefix` (classify_and_decrypt.go) is unreachable:
  the five-words regular expression together with `strings.TrimSpace` excludes
  `len(strs) > 5`.  Also: the only `unmodelled` reasons the classifier model
  can return are the three go-codec shapes of `binarySlice`.
  Core Lean only.
-/
import Saltpack.Model.Classify
import Saltpack.Proofs.ArmorLemmas
import Saltpack.Proofs.ClassifyCodec

namespace Saltpack.Proofs
open Saltpack

/-! ### the one fact about `strings.TrimSpace` -/

/-- generic: trimming a predicate `p` off the right end leaves no last element satisfying `p`
    (whatever `p` is: re-usable when `trimSpace` strips more kinds of white space) -/
theorem getLast?_reverse_dropWhile_ne {α : Type} (p : α → Bool) (l : List α) (c : α) (hp : p c = true) :
    (l.dropWhile p).reverse.getLast? ≠ some c := by
  rw [List.getLast?_reverse]
  intro h
  have h2 := List.head?_dropWhile_not p l
  rw [h] at h2
  simp [hp] at h2

/-- the only fact about `strings.TrimSpace` the classifier's totality needs: the result does not end in an ASCII space -/
theorem trimSpace_no_trailing_space (b : Bytes) : (Armor.trimSpace b).getLast? ≠ some Armor.space := by
  intro h
  have h1 := trimSpace_last b Armor.space (Option.mem_def.mpr h)
  revert h1
  decide

/-! ### `strings.Split(s, " ")` -/

theorem splitSp_go_ne_nil (b cur : Bytes) : Armor.splitSp.go b cur ≠ [] := by
  induction b generalizing cur with
  | nil => simp [Armor.splitSp.go]
  | cons c cs ih =>
    unfold Armor.splitSp.go
    split
    · simp
    · exact ih _

/-- the last piece of a split is empty only for the empty string (with nothing
    accumulated) or for a string that ends with a space -/
theorem splitSp_go_getLast_nil (b cur : Bytes)
    (h : (Armor.splitSp.go b cur).getLast? = some []) :
    (b = [] ∧ cur = []) ∨ b.getLast? = some Armor.space := by
  induction b generalizing cur with
  | nil =>
    left
    simpa [Armor.splitSp.go] using h
  | cons c cs ih =>
    right
    unfold Armor.splitSp.go at h
    split at h
    next hc =>
      have hc' : c = Armor.space := by simpa using hc
      rw [List.getLast?_cons] at h
      cases hg : (Armor.splitSp.go cs []).getLast? with
      | none =>
        exact absurd (List.getLast?_eq_none_iff.mp hg) (splitSp_go_ne_nil _ _)
      | some x =>
        rw [hg] at h
        have hx : x = [] := by simpa using h
        subst hx
        rcases ih [] hg with ⟨hcs, _⟩ | hl
        · subst hcs; simp [hc']
        · rw [List.getLast?_cons, hl]; rfl
    next hc =>
      rcases ih (c :: cur) h with ⟨_, hcur⟩ | hl
      · cases hcur
      · rw [List.getLast?_cons, hl]; rfl

theorem splitSp_getLast_nil (s : Bytes) (h : (Armor.splitSp s).getLast? = some []) :
    s = [] ∨ s.getLast? = some Armor.space := by
  rcases splitSp_go_getLast_nil s [] h with ⟨hs, _⟩ | hl
  · exact Or.inl hs
  · exact Or.inr hl

/-! ### the five-words recogniser bounds the number of pieces -/

/-- independent of `trimSpace`: a string accepted by `^([a-zA-Z0-9]+ ?){0,5}$`
    that does not end in a space splits into at most five pieces -/
theorem fewWords_length_le (s : Bytes) (hs : s.getLast? ≠ some Armor.space)
    (hf : Classify.fewWords s = true) : (Armor.splitSp s).length ≤ 5 := by
  cases s with
  | nil => decide
  | cons c cs =>
    have hne : Armor.splitSp (c :: cs) ≠ [] := splitSp_go_ne_nil _ _
    unfold Classify.fewWords at hf
    simp only [List.isEmpty_cons, Bool.false_or, Bool.and_eq_true, decide_eq_true_eq] at hf
    obtain ⟨_, hle⟩ := hf
    split at hle
    next hemp =>
      exfalso
      cases hg : (Armor.splitSp (c :: cs)).getLast? with
      | none => exact hne (List.getLast?_eq_none_iff.mp hg)
      | some x =>
        rw [hg] at hemp
        have hx : x = [] := by simpa using hemp
        subst hx
        rcases splitSp_getLast_nil _ hg with h | h
        · cases h
        · exact hs h
    next => exact hle

/-! ### `binarySlice`: the only `unmodelled` reasons -/

/-- the only `unmodelled` reasons of `IsSaltpackBinarySlice`'s model: one per
    go-codec call, given when `Model/Codec.lean` does not claim to know that
    call's answer (none of them is a panic; the format-name and message-type
    decoders have no such case, so in effect "version shape": a surplus version
    element / unknown map key whose `swallow` meets one of `Codec`'s unmodelled
    generic-map cases) -/
theorem binarySlice_unmodelled (b : Bytes) :
    ∀ w, Classify.binarySlice b = .unmodelled w →
      w = "message type shape" ∨ w = "version shape" ∨ w = "format name shape" := by
  intro w
  unfold Classify.binarySlice
  repeat' (first | split | dsimp only)
  all_goals intro h
  all_goals first
    | exact CodecMono.binBody_unmodelled _ _ h
    | (cases h; done)

theorem binarySlice_no_logic_error (b : Bytes) :
    Classify.binarySlice b ≠ .unmodelled "logic error in ClassifyStream" := by
  intro h
  have := binarySlice_unmodelled b _ h
  revert this
  decide

/-! ### `armoredPrefix` and `classifyStream` -/

/-- every `unmodelled` answer of `IsSaltpackArmoredPrefix`'s model is one of
    `binarySlice`'s three shapes: the "logic error" branch is dead -/
theorem armoredPrefix_unmodelled (pref : Bytes) :
    ∀ w, Classify.armoredPrefix pref = .unmodelled w →
      w = "message type shape" ∨ w = "version shape" ∨ w = "format name shape" := by
  intro w
  unfold Classify.armoredPrefix
  dsimp only
  split
  next hm =>
    split
    · intro h; cases h
    next hfw =>
      have hfw' : Classify.fewWords (Armor.trimSpace (Armor.collapse pref)) = true := by
        simpa using hfw
      have hle := fewWords_length_le _ (trimSpace_no_trailing_space _) hfw'
      repeat' split
      all_goals first | (intro h; cases h; done) | (exfalso; omega)
  next brand typStr payload hm =>
    split
    · intro h; cases h
    · split
      · intro h; cases h
      · intro h; cases h
      · intro h; cases h
      next w' hb =>
        intro h
        cases h
        exact binarySlice_unmodelled _ _ hb
      · split
        · intro h; cases h
        · intro h; cases h

theorem armoredPrefix_no_logic_error (pref : Bytes) :
    Classify.armoredPrefix pref ≠ .unmodelled "logic error in ClassifyStream" := by
  intro h
  have := armoredPrefix_unmodelled pref _ h
  revert this
  decide

/-- every `unmodelled` answer of `ClassifyStream`'s model is one of
    `binarySlice`'s three shapes -/
theorem classifyStream_unmodelled (size : Nat) (all : Bytes) :
    ∀ w, Classify.classifyStream size all = .unmodelled w →
      w = "message type shape" ∨ w = "version shape" ∨ w = "format name shape" := by
  intro w
  unfold Classify.classifyStream
  dsimp only
  split
  · intro h; cases h
  · intro h; cases h
  · intro h; cases h
  next w' ha =>
    intro h
    cases h
    split at ha
    · cases ha
    · exact armoredPrefix_unmodelled _ _ ha
  · repeat' split
    all_goals first | (intro h; cases h; done) | skip
    next w' hb =>
      intro h
      cases h
      exact binarySlice_unmodelled _ _ hb

theorem classifyStream_no_logic_error (size : Nat) (all : Bytes) :
    Classify.classifyStream size all ≠ .unmodelled "logic error in ClassifyStream" := by
  intro h
  have := classifyStream_unmodelled size all _ h
  revert this
  decide

/-! ### why `trimSpace` is needed: the recogniser tolerates one trailing space -/

/-- `"a b c d e "` is accepted by the five-words recogniser and splits into six pieces -/
example : Classify.fewWords [97, 32, 98, 32, 99, 32, 100, 32, 101, 32] = true ∧
    (Armor.splitSp [97, 32, 98, 32, 99, 32, 100, 32, 101, 32]).length = 6 := by decide

/-- without the trailing space: five pieces -/
example : Classify.fewWords [97, 32, 98, 32, 99, 32, 100, 32, 101] = true ∧
    (Armor.splitSp [97, 32, 98, 32, 99, 32, 100, 32, 101]).length = 5 := by decide

/-- six words are rejected -/
example : Classify.fewWords [97, 32, 98, 32, 99, 32, 100, 32, 101, 32, 102] = false := by decide

/-- `trimSpace` removes the trailing space of the first example -/
example : Armor.splitSp (Armor.trimSpace [97, 32, 98, 32, 99, 32, 100, 32, 101, 32]) =
    [[97], [98], [99], [100], [101]] := by decide

end Saltpack.Proofs
