/-
  The armor reader stack computes the whole-text function: `readAll` over
  `newDecoder src` — scripted source → punctuatedReader → framedDecoderStream →
  filteringReader → BaseX decoder, read with ANY positive buffer sizes from a
  script that delivers the text `T` in ANY fragmentation — releases exactly the
  payload of `Armor.openPure par expect T` and then a clean EOF when `openPure`
  succeeds, and reports an error when it fails.

  Core Lean only.
-/
import Saltpack.Proofs.StackDecoder

namespace Saltpack.Proofs
open Saltpack Saltpack.Stream

/-! ## the meaning of the initial state, as a function of the text -/

/-- body phase onwards -/
def bodyStack (par : Armor.Params) (expect : Armor.Expect) (h b r1 : Bytes) : Option (Bytes × FInfo) :=
  ((bodySem par expect h b r1).bind (filOf par)).bind (dOf par [] [])

/-- what the whole stack means for the text `T` -/
def stackSem (par : Armor.Params) (expect : Armor.Expect) (T : Bytes) : Option (Bytes × FInfo) :=
  ((hdrSem par expect [] T).bind (filOf par)).bind (dOf par [] [])

theorem stackSem_none (par : Armor.Params) (expect : Armor.Expect) (T : Bytes)
    (h : Armor.splitAt1 Armor.period T = none) : stackSem par expect T = none := by
  simp [stackSem, hdrSem, h]

theorem stackSem_long (par : Armor.Params) (expect : Armor.Expect) (T hd r1 : Bytes)
    (h : Armor.splitAt1 Armor.period T = some (hd, r1)) (hl : ¬ hd.length < Armor.frameLim) :
    stackSem par expect T = none := by
  simp [stackSem, hdrSem, h, hl]

theorem stackSem_hdr (par : Armor.Params) (expect : Armor.Expect) (T hd r1 : Bytes)
    (h : Armor.splitAt1 Armor.period T = some (hd, r1)) (hl : hd.length < Armor.frameLim) :
    stackSem par expect T =
      match hdrCheck par expect [] hd with
      | none => none
      | some b => bodyStack par expect hd b r1 := by
  simp only [stackSem, hdrSem, h, hl, if_true]
  cases hdrCheck par expect [] hd with
  | none => rfl
  | some b => rfl

theorem bodyStack_none (par : Armor.Params) (expect : Armor.Expect) (h b r1 : Bytes)
    (hs : Armor.splitAt1 Armor.period r1 = none) : bodyStack par expect h b r1 = none := by
  simp [bodyStack, bodySem, hs]

theorem bodyStack_some (par : Armor.Params) (expect : Armor.Expect) (h b r1 body r2 : Bytes)
    (hs : Armor.splitAt1 Armor.period r1 = some (body, r2)) :
    bodyStack par expect h b r1 =
      if body.all (Armor.validByte par) = true then
        (decS par.enc (Basex.filterSkip par.enc body)).bind
          (fun y => (tailSem par expect h r2).map (fun ft => (y, (h, b, ft))))
      else none := by
  simp only [bodyStack, bodySem, hs]
  cases tailSem par expect h r2 with
  | none =>
    simp only [Option.map_none, Option.bind_none]
    split
    · cases decS par.enc (Basex.filterSkip par.enc body) <;> rfl
    · rfl
  | some ft =>
    simp only [Option.map_some, Option.bind_some, filOf]
    by_cases hv : body.all (Armor.validByte par) = true
    · simp only [hv, if_true, Option.bind_some, dOf, List.nil_append]
      cases decS par.enc (Basex.filterSkip par.enc body) <;> rfl
    · simp only [hv]
      rfl

theorem tailSem_none (par : Armor.Params) (expect : Armor.Expect) (h r2 : Bytes)
    (hs : Armor.splitAt1 Armor.period r2 = none) : tailSem par expect h r2 = none := by
  simp [tailSem, ftrSem, hs]

theorem tailSem_some (par : Armor.Params) (expect : Armor.Expect) (h r2 ft r3 : Bytes)
    (hs : Armor.splitAt1 Armor.period r2 = some (ft, r3)) :
    tailSem par expect h r2 =
      if ft.length < Armor.frameLim ∧ ftrCheck par expect h ft = true then
        (if trailOK par r3 then some ft else none)
      else none := by
  simp only [tailSem, ftrSem, hs]
  split <;> rfl

theorem allDig_filterSkip (par : Armor.Params) (body : Bytes) (hv : body.all (Armor.validByte par) = true) :
    AllDig par.enc (Basex.filterSkip par.enc body) := by
  intro c hc
  unfold Basex.filterSkip at hc
  rw [List.mem_filter] at hc
  obtain ⟨hm, hk⟩ := hc
  have := List.all_eq_true.mp hv c hm
  unfold Armor.validByte at this
  cases hd : par.enc.digit? c with
  | some v => rfl
  | none =>
    rw [hd] at this hk
    simp at this
    simp [this] at hk

theorem trailOK_iff (par : Armor.Params) (r3 : Bytes) :
    trailOK par r3 ↔ (r3.any (· == Armor.period) = false ∧ r3.all (Armor.validByte par) = true) := by
  unfold trailOK
  constructor
  · rintro ⟨h1, h2⟩
    refine ⟨?_, h2⟩
    rw [Bool.eq_false_iff]
    intro hc
    simp only [List.any_eq_true, beq_iff_eq] at hc
    obtain ⟨x, hx, rfl⟩ := hc
    exact h1 hx
  · rintro ⟨h1, h2⟩
    refine ⟨?_, h2⟩
    intro hm
    have : r3.any (· == Armor.period) = true := by
      simp only [List.any_eq_true, beq_iff_eq]
      exact ⟨_, hm, rfl⟩
    rw [h1] at this
    exact absurd this (by simp)

/-! ## `openPure` against the meaning of the stack -/

/-- how the result of `openPure` relates to `stackSem` -/
def OpenRel (par : Armor.Params) (expect : Armor.Expect) (T : Bytes) : Except Err Armor.Opened → Prop
  | .ok o => ∃ h ft r1, stackSem par expect T = some (o.payload, (h, o.brand, ft)) ∧
      Armor.splitAt1 Armor.period T = some (h, r1) ∧
      Armor.toASCII par h = .ok o.header ∧ Armor.toASCII par ft = .ok o.footer
  | .error _ => stackSem par expect T = none ∨
      (expect = none ∧ ∃ y h b ft, stackSem par expect T = some (y, (h, b, ft)) ∧
        ((∃ e, Armor.toASCII par h = .error e) ∨ (∃ e, Armor.toASCII par ft = .error e)))

/-- the footer, frame check and trailing text of `openPure`, as a function -/
def openTail (p : Armor.Params) (expect : Armor.Expect) (hdr brand payload r2 : Bytes) : Except Err Armor.Opened :=
  match Armor.splitAt1 Armor.period r2 with
  | none => .error (if r2.length ≥ Armor.frameLim then .overflow else .unexpectedEOF)
  | some (ftrRaw, r3) =>
    if ftrRaw.length ≥ Armor.frameLim then .error .overflow
    else match Armor.toASCII p ftrRaw with
    | .error e => .error e
    | .ok ftr =>
      let chk : Except Err Unit := match expect with
        | none => .ok ()
        | some typ => match Armor.checkArmor62 hdr ftr typ with
          | .ok _ => .ok ()
          | .error e => .error e
      match chk with
      | .error e => .error e
      | .ok () =>
        if r3.any (· == Armor.period) then .error .punctuated
        else if !(r3.all (Armor.validByte p)) then .error .trailingGarbage
        else .ok ⟨payload, brand, hdr, ftr⟩

/-- the body of `openPure`, as a function -/
def openBody (p : Armor.Params) (expect : Armor.Expect) (hdr brand r1 : Bytes) : Except Err Armor.Opened :=
  match Armor.splitAt1 Armor.period r1 with
  | none => .error .unexpectedEOF
  | some (body, r2) =>
    if !(body.all (Armor.validByte p)) then .error .basexCorrupt
    else match Basex.decode p.enc.strict (Basex.filterSkip p.enc body) with
    | .error _ => .error .basexBadLen
    | .ok payload => openTail p expect hdr brand payload r2

theorem openPure_eq (p : Armor.Params) (expect : Armor.Expect) (text : Bytes) :
    Armor.openPure p expect text =
      match Armor.splitAt1 Armor.period text with
      | none => .error (if text.length ≥ Armor.frameLim then .overflow else .unexpectedEOF)
      | some (hdrRaw, r1) =>
        if hdrRaw.length ≥ Armor.frameLim then .error .overflow
        else match Armor.toASCII p hdrRaw with
        | .error e => .error e
        | .ok hdr =>
          match (match expect with
            | none => (.ok [] : Except Err Bytes)
            | some typ => Armor.parseFrame hdr typ Gen.c_sp_headerMarker) with
          | .error e => .error e
          | .ok brand => openBody p expect hdr brand r1 := rfl

/-- how the tail of `openPure` relates to `tailSem` -/
def TailRel (par : Armor.Params) (expect : Armor.Expect) (hdrRaw hdr brand payload r2 : Bytes) :
    Except Err Armor.Opened → Prop
  | .ok o => o.payload = payload ∧ o.brand = brand ∧ o.header = hdr ∧
      ∃ ft, tailSem par expect hdrRaw r2 = some ft ∧ Armor.toASCII par ft = .ok o.footer
  | .error _ => tailSem par expect hdrRaw r2 = none ∨
      (expect = none ∧ ∃ ft, tailSem par expect hdrRaw r2 = some ft ∧ ∃ e, Armor.toASCII par ft = .error e)

theorem trail_rel (par : Armor.Params) (expect : Armor.Expect) (hdrRaw hdr brand payload r2 ft ftr r3 : Bytes)
    (hts : tailSem par expect hdrRaw r2 = if trailOK par r3 then some ft else none)
    (ha : Armor.toASCII par ft = .ok ftr) :
    TailRel par expect hdrRaw hdr brand payload r2
      (if r3.any (· == Armor.period) then (.error .punctuated : Except Err Armor.Opened)
        else if !(r3.all (Armor.validByte par)) then .error .trailingGarbage
        else .ok ⟨payload, brand, hdr, ftr⟩) := by
  by_cases h1 : r3.any (· == Armor.period) = true
  · rw [if_pos h1]
    have : ¬ trailOK par r3 := by
      rw [trailOK_iff]; rintro ⟨h, _⟩; rw [h] at h1; exact absurd h1 (by simp)
    rw [if_neg this] at hts
    exact Or.inl hts
  · rw [if_neg h1]
    by_cases h2 : (!(r3.all (Armor.validByte par))) = true
    · rw [if_pos h2]
      have : ¬ trailOK par r3 := by
        rw [trailOK_iff]; rintro ⟨_, h⟩; rw [h] at h2; exact absurd h2 (by simp)
      rw [if_neg this] at hts
      exact Or.inl hts
    · rw [if_neg h2]
      have : trailOK par r3 := by
        rw [trailOK_iff]
        refine ⟨Bool.eq_false_iff.mpr h1, ?_⟩
        cases hx : r3.all (Armor.validByte par) with
        | true => rfl
        | false => rw [hx] at h2; exact absurd rfl h2
      rw [if_pos this] at hts
      exact ⟨rfl, rfl, rfl, ft, hts, ha⟩

/-- the tail of `openPure` against `tailSem` -/
theorem openTail_rel (par : Armor.Params) (expect : Armor.Expect) (hdrRaw hdr brand payload r2 : Bytes)
    (hh : Armor.toASCII par hdrRaw = .ok hdr) :
    TailRel par expect hdrRaw hdr brand payload r2 (openTail par expect hdr brand payload r2) := by
  unfold openTail
  cases hs : Armor.splitAt1 Armor.period r2 with
  | none => exact Or.inl (tailSem_none par expect hdrRaw r2 hs)
  | some q =>
    obtain ⟨ft, r3⟩ := q
    simp only
    have hts := tailSem_some par expect hdrRaw r2 ft r3 hs
    by_cases hl : ft.length ≥ Armor.frameLim
    · rw [if_pos hl]
      exact Or.inl (by rw [hts, if_neg (by omega)])
    · rw [if_neg hl]
      have hl' : ft.length < Armor.frameLim := by omega
      simp only [hl', true_and] at hts
      cases ha : Armor.toASCII par ft with
      | error e =>
        simp only
        cases expect with
        | none =>
          simp only [ftrCheck, if_true] at hts
          by_cases hok : trailOK par r3
          · rw [if_pos hok] at hts
            exact Or.inr ⟨rfl, ft, hts, e, ha⟩
          · rw [if_neg hok] at hts
            exact Or.inl hts
        | some typ =>
          left
          rw [hts]
          simp [ftrCheck, hh, ha]
      | ok ftr =>
        simp only
        cases expect with
        | none =>
          simp only [ftrCheck, if_true] at hts
          exact trail_rel par none hdrRaw hdr brand payload r2 ft ftr r3 hts ha
        | some typ =>
          simp only
          cases hc : Armor.checkArmor62 hdr ftr typ with
          | error e =>
            simp only
            left
            rw [hts]
            simp [ftrCheck, hh, ha, hc]
          | ok b =>
            simp only
            have hc' : ftrCheck par (some typ) hdrRaw ft = true := by simp [ftrCheck, hh, ha, hc]
            rw [if_pos hc'] at hts
            exact trail_rel par (some typ) hdrRaw hdr brand payload r2 ft ftr r3 hts ha

theorem openBody_rel (par : Armor.Params) (expect : Armor.Expect) (hdrRaw hdr brand r1 : Bytes)
    (hh : Armor.toASCII par hdrRaw = .ok hdr) :
    match openBody par expect hdr brand r1 with
    | .ok o => o.brand = brand ∧ o.header = hdr ∧
        ∃ ft, bodyStack par expect hdrRaw brand r1 = some (o.payload, (hdrRaw, brand, ft)) ∧
          Armor.toASCII par ft = .ok o.footer
    | .error _ => bodyStack par expect hdrRaw brand r1 = none ∨
        (expect = none ∧ ∃ y ft, bodyStack par expect hdrRaw brand r1 = some (y, (hdrRaw, brand, ft)) ∧
          ∃ e, Armor.toASCII par ft = .error e) := by
  unfold openBody
  cases hs : Armor.splitAt1 Armor.period r1 with
  | none => exact Or.inl (bodyStack_none par expect hdrRaw brand r1 hs)
  | some q =>
    obtain ⟨body, r2⟩ := q
    simp only
    rw [bodyStack_some par expect hdrRaw brand r1 body r2 hs]
    by_cases hv : body.all (Armor.validByte par) = true
    · simp only [hv, Bool.not_true, Bool.false_eq_true, if_false, if_true]
      have hdig := decode_strict_digits par.enc _ (allDig_filterSkip par body hv)
      cases hd : Basex.decode par.enc.strict (Basex.filterSkip par.enc body) with
      | error x =>
        rw [hd] at hdig
        simp only [Except.toOption] at hdig
        rw [← hdig]
        exact Or.inl rfl
      | ok payload =>
        rw [hd] at hdig
        simp only [Except.toOption] at hdig
        rw [← hdig]
        simp only [Option.bind_some]
        have := openTail_rel par expect hdrRaw hdr brand payload r2 hh
        cases ht : openTail par expect hdr brand payload r2 with
        | error e =>
          rw [ht] at this
          simp only [TailRel] at this ⊢
          rcases this with h | ⟨h1, ft, h2, h3⟩
          · left; rw [h]; rfl
          · right; exact ⟨h1, payload, ft, by rw [h2]; rfl, h3⟩
        | ok o =>
          rw [ht] at this
          simp only [TailRel] at this ⊢
          obtain ⟨h1, h2, h3, ft, h4, h5⟩ := this
          exact ⟨h2, h3, ft, by rw [h4, h1]; rfl, h5⟩
    · have hv' : body.all (Armor.validByte par) = false := by simpa using hv
      simp only [hv', Bool.not_false, if_true]
      exact Or.inl (by simp)

/-- **`openPure` and the meaning of the stack** -/
theorem openPure_rel (par : Armor.Params) (expect : Armor.Expect) (T : Bytes) :
    OpenRel par expect T (Armor.openPure par expect T) := by
  rw [openPure_eq]
  cases hs : Armor.splitAt1 Armor.period T with
  | none => exact Or.inl (stackSem_none par expect T hs)
  | some q =>
    obtain ⟨hd, r1⟩ := q
    simp only
    by_cases hl : hd.length ≥ Armor.frameLim
    · rw [if_pos hl]
      exact Or.inl (stackSem_long par expect T hd r1 hs (by omega))
    · rw [if_neg hl]
      have hsem := stackSem_hdr par expect T hd r1 hs (by omega)
      cases ha : Armor.toASCII par hd with
      | error e =>
        simp only
        cases expect with
        | some typ => left; rw [hsem]; simp [hdrCheck, ha]
        | none =>
          have hsem' : stackSem par none T = bodyStack par none hd [] r1 := by rw [hsem]; rfl
          cases hb : bodyStack par none hd [] r1 with
          | none => left; rw [hsem', hb]
          | some w =>
            obtain ⟨y, h', b', ft⟩ := w
            right
            refine ⟨rfl, y, h', b', ft, by rw [hsem', hb], Or.inl ?_⟩
            -- the header of the meaning is the raw header
            have : h' = hd := by
              simp only [bodyStack, bodySem] at hb
              cases hs1 : Armor.splitAt1 Armor.period r1 with
              | none => rw [hs1] at hb; simp at hb
              | some q1 =>
                obtain ⟨body, r2⟩ := q1
                rw [hs1] at hb
                simp only at hb
                cases ht : tailSem par none hd r2 with
                | none => rw [ht] at hb; simp at hb
                | some ft1 =>
                  rw [ht] at hb
                  simp only [Option.map_some, Option.bind_some, filOf] at hb
                  split at hb
                  · simp only [Option.bind_some, dOf] at hb
                    cases hdd : decS par.enc ([] ++ (Basex.filterSkip par.enc body, ((hd, ([] : Bytes), ft1) : FInfo)).1) with
                    | none => rw [hdd] at hb; simp at hb
                    | some yy =>
                      rw [hdd] at hb
                      simp only [Option.map_some, Option.some.injEq, Prod.mk.injEq] at hb
                      exact hb.2.1.symm
                  · simp at hb
            rw [this]
            exact ⟨e, ha⟩
      | ok hdr =>
        simp only
        -- the brand
        have hbr : ∀ brand, (match expect with
              | none => (.ok [] : Except Err Bytes)
              | some typ => Armor.parseFrame hdr typ Gen.c_sp_headerMarker) = .ok brand →
            hdrCheck par expect [] hd = some brand := by
          intro brand hb
          cases expect with
          | none => simp only [Except.ok.injEq] at hb; subst hb; rfl
          | some typ => simp only at hb; simp [hdrCheck, ha, hb]
        have hbe : ∀ e, (match expect with
              | none => (.ok [] : Except Err Bytes)
              | some typ => Armor.parseFrame hdr typ Gen.c_sp_headerMarker) = .error e →
            hdrCheck par expect [] hd = none := by
          intro e hb
          cases expect with
          | none => simp at hb
          | some typ => simp only at hb; simp [hdrCheck, ha, hb]
        cases hb : (match expect with
              | none => (.ok [] : Except Err Bytes)
              | some typ => Armor.parseFrame hdr typ Gen.c_sp_headerMarker) with
        | error e =>
          simp only
          left
          rw [hsem, hbe e hb]
        | ok brand =>
          simp only
          have hsem' : stackSem par expect T = bodyStack par expect hd brand r1 := by rw [hsem, hbr brand hb]
          have := openBody_rel par expect hd hdr brand r1 ha
          cases ho : openBody par expect hdr brand r1 with
          | error e =>
            rw [ho] at this
            simp only at this
            rcases this with h | ⟨h1, y, ft, h2, h3⟩
            · exact Or.inl (by rw [hsem', h])
            · exact Or.inr ⟨h1, y, hd, brand, ft, by rw [hsem', h2], Or.inr h3⟩
          | ok o =>
            rw [ho] at this
            simp only at this
            obtain ⟨h1, h2, ft, h3, h4⟩ := this
            exact ⟨hd, ft, r1, by rw [hsem', h3, h1], hs, by rw [h2]; exact ha, h4⟩

/-! ## the initial state -/

theorem dSem_init (par : Armor.Params) (expect : Armor.Expect) (src : Source) (T : Bytes)
    (hsrc : srcText src = (T, .eof)) : dSem par expect (newDecoder src) = stackSem par expect T := by
  have : ({ src := src } : PState).text.1 = T := by rw [ptext_init, hsrc]
  simp only [dSem, filSem, fSem, newDecoder, stackSem, this]

theorem dInv_init (par : Armor.Params) (src : Source) (T : Bytes) (hok : SrcOK src)
    (hsrc : srcText src = (T, .eof)) : DInv par (newDecoder src) :=
  ⟨fInv_init src hok T hsrc, allDig_nil _, rfl⟩

theorem dM_init (src : Source) (T : Bytes) (hsrc : srcText src = (T, .eof)) : dM (newDecoder src) = T.length := by
  have : ({ src := src } : PState).text.1 = T := by rw [ptext_init, hsrc]
  simp [dM, newDecoder, fRaw, this]

/-! ## the theorem -/

/-- **The streaming stack computes the whole-text function.**

    `src` is ANY script that delivers the text `T` and then a clean EOF
    (`srcText src = (T, .eof)`: any fragmentation, data-with-EOF allowed) and is
    well behaved (`SrcOK`: no empty non-terminal delivery; after the first
    condition only `([], EOF)`); `caps` is ANY schedule of positive buffer sizes.

    * If `openPure par expect T = .ok o`, reading the stack to its end releases
      exactly `o.payload` and then a clean EOF — the same final state for
      every fuel above `T.length` — and that state is at end-of-stream, holds
      the raw header (the text before the first period) and raw footer whose
      `toASCII` are `o.header` and `o.footer`, and the brand `o.brand`.
    * If `openPure` fails, the stack reports an error (the same for every fuel
      above `T.length`, so never the fuel running out) — except that with
      `expect = none` (`Armor62Open`, no frame checkers) the stream itself does
      not look at the frame bytes: then the read may end cleanly and it is
      `GetHeader`/`GetFooter` (`toASCII` of the stored raw header / footer) that
      fails, which is where `armorOpen` reports the error. -/
theorem readAll_eq_openPure (par : Armor.Params) (hpar : par.enc.WF) (expect : Armor.Expect)
    (src : Source) (T : Bytes) (hok : SrcOK src) (hsrc : srcText src = (T, .eof))
    (caps : List Nat) (hcaps : ∀ c ∈ caps, 0 < c) :
    (∀ o, Armor.openPure par expect T = .ok o →
      ∃ d, (∀ fuel, T.length < fuel → readAll par expect caps fuel 0 (newDecoder src) [] = (o.payload, none, d)) ∧
        d.fil.f.phase = .endOfStream ∧
        (∃ r1, Armor.splitAt1 Armor.period T = some (d.fil.f.hdr, r1)) ∧
        Armor.toASCII par d.fil.f.hdr = .ok o.header ∧ Armor.toASCII par d.fil.f.ftr = .ok o.footer ∧
        d.fil.f.brand = o.brand) ∧
    (∀ e, Armor.openPure par expect T = .error e →
      (∃ released e' d, ∀ fuel, T.length < fuel →
        readAll par expect caps fuel 0 (newDecoder src) [] = (released, some e', d)) ∨
      (expect = none ∧ ∃ y d,
        (∀ fuel, T.length < fuel → readAll par expect caps fuel 0 (newDecoder src) [] = (y, none, d)) ∧
        ((∃ e, Armor.toASCII par d.fil.f.hdr = .error e) ∨ (∃ e, Armor.toASCII par d.fil.f.ftr = .error e)))) := by
  have hrel := openPure_rel par expect T
  obtain ⟨r1, r2⟩ := readAll_sem par hpar expect caps hcaps T.length (newDecoder src)
    (dInv_init par src T hok hsrc) (by rw [dM_init src T hsrc]; exact Nat.le_refl _) 0 []
  rw [dSem_init par expect src T hsrc] at r1 r2
  constructor
  · intro o ho
    rw [ho] at hrel
    obtain ⟨h, ft, rr, h1, h2, h3, h4⟩ := hrel
    obtain ⟨d, g1, g2, g3⟩ := r1 _ _ h1
    simp only [Prod.mk.injEq] at g3
    obtain ⟨e1, e2, e3⟩ := g3
    subst e1
    subst e3
    exact ⟨d, by simpa using g1, g2, ⟨rr, h2⟩, h3, h4, e2.symm⟩
  · intro e he
    rw [he] at hrel
    rcases hrel with h | ⟨h0, y, h, b, ft, h1, h2⟩
    · obtain ⟨r, z, d, g⟩ := r2 h
      exact Or.inl ⟨r, z, d, g⟩
    · obtain ⟨d, g1, g2, g3⟩ := r1 _ _ h1
      simp only [Prod.mk.injEq] at g3
      obtain ⟨e1, e2, e3⟩ := g3
      subst e1
      subst e3
      exact Or.inr ⟨h0, y, d, by simpa using g1, h2⟩

/-- the statement for one fuel value, in the form of the target -/
theorem readAll_eq_openPure_fuel (par : Armor.Params) (hpar : par.enc.WF) (expect : Armor.Expect)
    (src : Source) (T : Bytes) (hok : SrcOK src) (hsrc : srcText src = (T, .eof))
    (caps : List Nat) (hcaps : ∀ c ∈ caps, 0 < c) (fuel : Nat) (hfuel : T.length + 1 ≤ fuel) :
    (∀ o, Armor.openPure par expect T = .ok o →
      ∃ d, readAll par expect caps fuel 0 (newDecoder src) [] = (o.payload, none, d) ∧
        d.fil.f.phase = .endOfStream ∧
        (∃ r1, Armor.splitAt1 Armor.period T = some (d.fil.f.hdr, r1)) ∧
        Armor.toASCII par d.fil.f.hdr = .ok o.header ∧ Armor.toASCII par d.fil.f.ftr = .ok o.footer ∧
        d.fil.f.brand = o.brand) ∧
    (∀ e, Armor.openPure par expect T = .error e →
      (∃ released e' d, readAll par expect caps fuel 0 (newDecoder src) [] = (released, some e', d)) ∨
      (expect = none ∧ ∃ y d, readAll par expect caps fuel 0 (newDecoder src) [] = (y, none, d) ∧
        ((∃ e, Armor.toASCII par d.fil.f.hdr = .error e) ∨ (∃ e, Armor.toASCII par d.fil.f.ftr = .error e)))) := by
  obtain ⟨a, b⟩ := readAll_eq_openPure par hpar expect src T hok hsrc caps hcaps
  constructor
  · intro o ho
    obtain ⟨d, g, rest⟩ := a o ho
    exact ⟨d, g fuel (by omega), rest⟩
  · intro e he
    rcases b e he with ⟨r, z, d, g⟩ | ⟨h0, y, d, g, rest⟩
    · exact Or.inl ⟨r, z, d, g fuel (by omega)⟩
    · exact Or.inr ⟨h0, y, d, g fuel (by omega), rest⟩

/-- with frame checkers (`expect = some typ`: every `Dearmor62…` entry point)
    a failing `openPure` always shows as an error of the stream itself -/
theorem readAll_error_checked (par : Armor.Params) (hpar : par.enc.WF) (typ : Int)
    (src : Source) (T : Bytes) (hok : SrcOK src) (hsrc : srcText src = (T, .eof))
    (caps : List Nat) (hcaps : ∀ c ∈ caps, 0 < c) (fuel : Nat) (hfuel : T.length + 1 ≤ fuel)
    (e : Err) (he : Armor.openPure par (some typ) T = .error e) :
    ∃ released e' d, readAll par (some typ) caps fuel 0 (newDecoder src) [] = (released, some e', d) := by
  rcases (readAll_eq_openPure_fuel par hpar (some typ) src T hok hsrc caps hcaps fuel hfuel).2 e he with h | ⟨h0, _⟩
  · exact h
  · cases h0

/-! ## `armorOpen` over the stream -/

/-- `armorOpen`: read the stream to its end, then `GetHeader`, `GetFooter`,
    `GetBrand` -/
def armorOpenStream (par : Armor.Params) (expect : Armor.Expect) (caps : List Nat) (fuel : Nat) (src : Source) :
    Except Err Armor.Opened :=
  match readAll par expect caps fuel 0 (newDecoder src) [] with
  | (_, some e, _) => .error e
  | (y, none, d) =>
    match Armor.toASCII par d.fil.f.hdr with
    | .error e => .error e
    | .ok h =>
      match Armor.toASCII par d.fil.f.ftr with
      | .error e => .error e
      | .ok ft => .ok ⟨y, d.fil.f.brand, h, ft⟩

/-- **`armorOpen` over the streaming stack succeeds exactly when `openPure`
    does, with the same result** — for every well-behaved script of `T`,
    every schedule of positive buffer sizes, every sufficient fuel. -/
theorem armorOpenStream_ok_iff (par : Armor.Params) (hpar : par.enc.WF) (expect : Armor.Expect)
    (src : Source) (T : Bytes) (hok : SrcOK src) (hsrc : srcText src = (T, .eof))
    (caps : List Nat) (hcaps : ∀ c ∈ caps, 0 < c) (fuel : Nat) (hfuel : T.length + 1 ≤ fuel) (o : Armor.Opened) :
    armorOpenStream par expect caps fuel src = .ok o ↔ Armor.openPure par expect T = .ok o := by
  obtain ⟨a, b⟩ := readAll_eq_openPure_fuel par hpar expect src T hok hsrc caps hcaps fuel hfuel
  have fwd : ∀ o', Armor.openPure par expect T = .ok o' → armorOpenStream par expect caps fuel src = .ok o' := by
    intro o' ho
    obtain ⟨d, g1, _, _, g3, g4, g5⟩ := a o' ho
    unfold armorOpenStream
    rw [g1]
    simp only [g3, g4, g5]
  constructor
  · intro hs
    cases hp : Armor.openPure par expect T with
    | ok o' =>
      have := fwd o' hp
      rw [hs] at this
      rw [this]
    | error e =>
      exfalso
      rcases b e hp with ⟨r, z, d, g⟩ | ⟨_, y, d, g, g2⟩
      · unfold armorOpenStream at hs
        rw [g] at hs
        simp at hs
      · unfold armorOpenStream at hs
        rw [g] at hs
        simp only at hs
        rcases g2 with ⟨e1, g2⟩ | ⟨e1, g2⟩
        · rw [g2] at hs; simp at hs
        · rw [g2] at hs
          cases h : Armor.toASCII par d.fil.f.hdr with
          | error e2 => rw [h] at hs; simp at hs
          | ok hh => rw [h] at hs; simp at hs
  · exact fwd o

/-- an `openPure` failure is an `armorOpen` failure -/
theorem armorOpenStream_error_iff (par : Armor.Params) (hpar : par.enc.WF) (expect : Armor.Expect)
    (src : Source) (T : Bytes) (hok : SrcOK src) (hsrc : srcText src = (T, .eof))
    (caps : List Nat) (hcaps : ∀ c ∈ caps, 0 < c) (fuel : Nat) (hfuel : T.length + 1 ≤ fuel) :
    (∃ e, armorOpenStream par expect caps fuel src = .error e) ↔ (∃ e, Armor.openPure par expect T = .error e) := by
  have key := armorOpenStream_ok_iff par hpar expect src T hok hsrc caps hcaps fuel hfuel
  constructor
  · rintro ⟨e, he⟩
    cases hp : Armor.openPure par expect T with
    | error e' => exact ⟨e', rfl⟩
    | ok o => rw [(key o).mpr hp] at he; cases he
  · rintro ⟨e, he⟩
    cases hs : armorOpenStream par expect caps fuel src with
    | error e' => exact ⟨e', rfl⟩
    | ok o => rw [(key o).mp hs] at he; cases he

/-! ## independence of fragmentation and buffer sizes -/

/-- **Independence.**  Two well-behaved scripts of the same text, read with
    two schedules of positive buffer sizes: whenever the whole-text function
    succeeds, both reads release the same bytes (its payload) and both end in
    a clean EOF. -/
theorem readAll_independent (par : Armor.Params) (hpar : par.enc.WF) (expect : Armor.Expect)
    (src src' : Source) (T : Bytes) (hok : SrcOK src) (hok' : SrcOK src')
    (hsrc : srcText src = (T, .eof)) (hsrc' : srcText src' = (T, .eof))
    (caps caps' : List Nat) (hcaps : ∀ c ∈ caps, 0 < c) (hcaps' : ∀ c ∈ caps', 0 < c)
    (fuel fuel' : Nat) (hfuel : T.length + 1 ≤ fuel) (hfuel' : T.length + 1 ≤ fuel')
    (o : Armor.Opened) (ho : Armor.openPure par expect T = .ok o) :
    (readAll par expect caps fuel 0 (newDecoder src) []).1 = o.payload ∧
    (readAll par expect caps' fuel' 0 (newDecoder src') []).1 = o.payload ∧
    (readAll par expect caps fuel 0 (newDecoder src) []).2.1 = none ∧
    (readAll par expect caps' fuel' 0 (newDecoder src') []).2.1 = none := by
  obtain ⟨d, g, _⟩ := (readAll_eq_openPure_fuel par hpar expect src T hok hsrc caps hcaps fuel hfuel).1 o ho
  obtain ⟨d', g', _⟩ := (readAll_eq_openPure_fuel par hpar expect src' T hok' hsrc' caps' hcaps' fuel' hfuel').1 o ho
  rw [g, g']
  exact ⟨rfl, rfl, rfl, rfl⟩

/-- … and in every case `armorOpen` over the stream gives the same result up
    to the kind of error -/
theorem armorOpenStream_independent (par : Armor.Params) (hpar : par.enc.WF) (expect : Armor.Expect)
    (src src' : Source) (T : Bytes) (hok : SrcOK src) (hok' : SrcOK src')
    (hsrc : srcText src = (T, .eof)) (hsrc' : srcText src' = (T, .eof))
    (caps caps' : List Nat) (hcaps : ∀ c ∈ caps, 0 < c) (hcaps' : ∀ c ∈ caps', 0 < c)
    (fuel fuel' : Nat) (hfuel : T.length + 1 ≤ fuel) (hfuel' : T.length + 1 ≤ fuel') :
    (armorOpenStream par expect caps fuel src).toOption = (armorOpenStream par expect caps' fuel' src').toOption := by
  have k1 := armorOpenStream_ok_iff par hpar expect src T hok hsrc caps hcaps fuel hfuel
  have k2 := armorOpenStream_ok_iff par hpar expect src' T hok' hsrc' caps' hcaps' fuel' hfuel'
  cases h1 : armorOpenStream par expect caps fuel src with
  | ok o =>
    rw [(k2 o).mpr ((k1 o).mp h1)]
  | error e =>
    cases h2 : armorOpenStream par expect caps' fuel' src' with
    | error e' => rfl
    | ok o =>
      rw [(k1 o).mpr ((k2 o).mp h2)] at h1
      cases h1

/-! ## the shipped parameters -/

theorem params62_wf : Armor.params62.enc.WF := Basex.Enc.wf_of_check _ (by decide)

/-- `readAll_eq_openPure` for `Armor62Params` -/
theorem readAll_eq_open62 (expect : Armor.Expect) (src : Source) (T : Bytes) (hok : SrcOK src)
    (hsrc : srcText src = (T, .eof)) (caps : List Nat) (hcaps : ∀ c ∈ caps, 0 < c) (fuel : Nat)
    (hfuel : T.length + 1 ≤ fuel) (o : Armor.Opened) :
    armorOpenStream Armor.params62 expect caps fuel src = .ok o ↔ Armor.open62 expect T = .ok o :=
  armorOpenStream_ok_iff Armor.params62 params62_wf expect src T hok hsrc caps hcaps fuel hfuel o

/-! ## concrete checks -/

/-- "h.00.f." : the body "00" decodes to one zero byte -/
def exTiny : Bytes := [104, 46, 48, 48, 46, 102, 46]
/-- "h!dr. . ftr." : an invalid byte in the header -/
def exBadHdr : Bytes := [104, 33, 100, 114, 46, 32, 46, 32, 102, 116, 114, 46]
/-- "h..f.!." : garbage and a fourth period behind the footer -/
def exTrail : Bytes := [104, 46, 46, 102, 46, 33, 46]

example : Armor.openPure Armor.params62 none exTiny = .ok ⟨[0], [], [104], [102]⟩ := by decide

-- one delivery and one-byte buffers; byte-wise deliveries and mixed buffers
example : (readAll Armor.params62 none [1] 8 0 (newDecoder [(exTiny, none)]) []).1 = [0] ∧
    (readAll Armor.params62 none [1] 8 0 (newDecoder [(exTiny, none)]) []).2.1 = none ∧
    (readAll Armor.params62 none [2, 64] 8 0 (newDecoder (exTiny.map (fun b => ([b], none)))) []).1 = [0] ∧
    (readAll Armor.params62 none [2, 64] 8 0 (newDecoder (exTiny.map (fun b => ([b], none)))) []).2.1 = none := by
  decide

-- the theorem instantiated: two deliveries, the second one with the EOF
example : armorOpenStream Armor.params62 none [3, 1] 8 [([104, 46, 48], none), ([48, 46, 102, 46], some .eof)]
    = .ok ⟨[0], [], [104], [102]⟩ :=
  (armorOpenStream_ok_iff Armor.params62 params62_wf none _ exTiny (by simp [SrcOK]) (by decide) [3, 1] (by decide) 8
    (by decide) _).mpr (by decide)

-- `expect = none`: `openPure` rejects the header `h!dr`, the stream itself ends cleanly, and it is
-- `GetHeader` (in `armorOpenStream`, as in `armorOpen`) that reports the bad frame
example : Armor.openPure Armor.params62 none exBadHdr = .error .badFrame := by decide
example : (readAll Armor.params62 none [64] 20 0 (newDecoder [(exBadHdr, none)]) []).1 = [] ∧
    (readAll Armor.params62 none [64] 20 0 (newDecoder [(exBadHdr, none)]) []).2.1 = none := by decide
example : armorOpenStream Armor.params62 none [64] 20 [(exBadHdr, none)] = .error .badFrame := by decide

-- WHICH error is reported can depend on the fragmentation: "!." behind the footer is
-- `ErrPunctuated` in one delivery and `ErrTrailingGarbage` byte by byte (`openPure`: punctuated)
example : Armor.openPure Armor.params62 none exTrail = .error .punctuated := by decide
example : (readAll Armor.params62 none [64] 20 0 (newDecoder [(exTrail, none)]) []).2.1 = some .punctuated := by decide
example : (readAll Armor.params62 none [64] 20 0 (newDecoder (exTrail.map (fun b => ([b], none)))) []).2.1
    = some .trailingGarbage := by decide

-- why `SrcOK` is needed.  An EMPTY first delivery: `io.ErrUnexpectedEOF` from `ReadUntilPunctuation`
example : (readAll Armor.params62 none [64] 20 0 (newDecoder [([], none), (exTiny, none)]) []).2.1
    = some .unexpectedEOF := by decide
-- something scripted BEHIND a bare EOF is read by the next `consumeUntilEOF` (the stack calls
-- `Read` again after the EOF because the last body bytes were handed out without a condition)
example : (readAll Armor.params62 none [1] 20 0 (newDecoder [(exTiny, none), ([], some .eof), ([33], none)]) []).2.1
    = some .trailingGarbage := by decide
-- … but not behind an EOF that came WITH data (the punctuated reader remembers that one)
example : (readAll Armor.params62 none [1] 20 0 (newDecoder [(exTiny, some .eof), ([33], none)]) []).1 = [0] ∧
    (readAll Armor.params62 none [1] 20 0 (newDecoder [(exTiny, some .eof), ([33], none)]) []).2.1 = none := by decide

end Saltpack.Proofs
