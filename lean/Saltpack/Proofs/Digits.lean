/-
  Generic lemmas about the list helpers of Saltpack.Model.Bytes:
  `chunks`, `natOfDigits`, `digitsOfNat`, `natOfBytes`, `bytesOfNat`.
  Core Lean only.
-/
import Saltpack.Model.Bytes

namespace Saltpack.Proofs
open Saltpack

/-- induction from the right end of a list -/
theorem snoc_ind {α : Type} {P : List α → Prop} (nil : P [])
    (snoc : ∀ l a, P l → P (l ++ [a])) : ∀ l, P l := by
  intro l
  rw [← List.reverse_reverse l]
  induction l.reverse with
  | nil => exact nil
  | cons a t ih => rw [List.reverse_cons]; exact snoc _ _ ih

/-- a duplicate-free list of naturals below `n` has at most `n` elements -/
theorem nodup_bounded_length : ∀ (n : Nat) (l : List Nat), l.Nodup → (∀ x ∈ l, x < n) → l.length ≤ n := by
  intro n
  induction n with
  | zero =>
    intro l _ hb
    cases l with
    | nil => simp
    | cons a t => exact absurd (hb a (by simp)) (by omega)
  | succ n ih =>
    intro l hnd hb
    have hc : List.count n l ≤ 1 := List.nodup_iff_count.mp hnd n
    have hsplit := List.length_eq_countP_add_countP (fun a => a == n) (l := l)
    have h2 : List.countP (fun a => decide ¬((a == n) = true)) l ≤ n := by
      rw [List.countP_eq_length_filter]
      apply ih
      · exact List.Nodup.sublist List.filter_sublist hnd
      · intro x hx
        rw [List.mem_filter] at hx
        have h1 := hb x hx.1
        have h2 : x ≠ n := by simpa using hx.2
        omega
    have : List.countP (fun a => a == n) l = List.count n l := rfl
    omega

/-- a duplicate-free list of bytes has at most 256 elements -/
theorem nodup_bytes_length (l : List UInt8) (h : l.Nodup) : l.length ≤ 256 := by
  have := nodup_bounded_length 256 (l.map UInt8.toNat) (by
      unfold List.Nodup at h ⊢
      rw [List.pairwise_map]
      exact h.imp (fun hab hc => hab (UInt8.toNat.inj hc)))
    (by
      intro x hx
      rw [List.mem_map] at hx
      obtain ⟨a, _, rfl⟩ := hx
      exact UInt8.toNat_lt a)
  simpa using this

/-! ### `chunks` -/

theorem chunksAux_fuel {α : Type} (n : Nat) (hn : 0 < n) :
    ∀ (f f' : Nat) (l : List α), l.length ≤ f → l.length ≤ f' →
      chunksAux n f l = chunksAux n f' l := by
  intro f
  induction f with
  | zero =>
    intro f' l h _
    have : l = [] := List.length_eq_zero_iff.mp (by omega)
    subst this
    cases f' <;> simp [chunksAux]
  | succ f ih =>
    intro f' l h h'
    cases f' with
    | zero =>
      have : l = [] := List.length_eq_zero_iff.mp (by omega)
      subst this
      simp [chunksAux]
    | succ f' =>
      unfold chunksAux
      split
      · rfl
      · split
        · rfl
        · rename_i h1 h2
          have hlen : (l.drop n).length = l.length - n := List.length_drop
          have : ¬ l.length ≤ n := fun hh => h2 (Or.inr hh)
          rw [ih f' (l.drop n) (by omega) (by omega)]

theorem chunks_nil {α : Type} (n : Nat) : chunks n ([] : List α) = [] := by
  simp [chunks, chunksAux]

theorem chunks_short {α : Type} (n : Nat) (l : List α) (h : l ≠ []) (h' : l.length ≤ n) :
    chunks n l = [l] := by
  unfold chunks
  cases l with
  | nil => exact absurd rfl h
  | cons a t =>
    rw [List.length_cons]
    unfold chunksAux
    simp only [List.isEmpty_cons, Bool.false_eq_true, if_false]
    rw [if_pos (Or.inr h')]

theorem chunks_long {α : Type} (n : Nat) (hn : 0 < n) (l : List α) (h : n < l.length) :
    chunks n l = l.take n :: chunks n (l.drop n) := by
  unfold chunks
  cases l with
  | nil => simp at h
  | cons a t =>
    rw [List.length_cons]
    conv => lhs; unfold chunksAux
    simp only [List.isEmpty_cons, Bool.false_eq_true, if_false]
    have : ¬ (n = 0 ∨ (a :: t).length ≤ n) := by omega
    rw [if_neg this]
    have hlen : ((a :: t).drop n).length = (a :: t).length - n := List.length_drop
    rw [chunksAux_fuel n hn t.length ((a :: t).drop n).length _ (by simp at hlen h ⊢; omega) (Nat.le_refl _)]

theorem chunks_append {α : Type} (n : Nat) (hn : 0 < n) (a b : List α) (h : a.length = n) :
    chunks n (a ++ b) = a :: chunks n b := by
  by_cases hb : b = []
  · subst hb
    rw [List.append_nil, chunks_nil]
    apply chunks_short
    · intro h0; subst h0; simp at h; omega
    · omega
  · have : 0 < b.length := List.length_pos_iff.mpr hb
    rw [chunks_long n hn (a ++ b) (by rw [List.length_append]; omega),
      List.take_left' h, List.drop_left' h]

theorem chunksAux_flatten {α : Type} (n : Nat) :
    ∀ (f : Nat) (l : List α), l.length ≤ f → (chunksAux n f l).flatten = l := by
  intro f
  induction f with
  | zero =>
    intro l h
    have : l = [] := List.length_eq_zero_iff.mp (by omega)
    subst this
    simp [chunksAux]
  | succ f ih =>
    intro l h
    unfold chunksAux
    split
    · rename_i h1
      simp only [List.isEmpty_iff] at h1
      simp [h1]
    · split
      · simp
      · rename_i h1 h2
        have hlen : (l.drop n).length = l.length - n := List.length_drop
        rw [List.flatten_cons, ih _ (by omega), List.take_append_drop]

/-- the pieces, concatenated, are the original list -/
theorem chunks_flatten {α : Type} (n : Nat) (l : List α) : (chunks n l).flatten = l :=
  chunksAux_flatten n l.length l (Nat.le_refl _)

/-- every piece is non-empty and at most `n` long -/
theorem chunks_mem_length {α : Type} (n : Nat) (hn : 0 < n) :
    ∀ (k : Nat) (l : List α), l.length ≤ k → ∀ c ∈ chunks n l, 0 < c.length ∧ c.length ≤ n := by
  intro k
  induction k with
  | zero =>
    intro l h c hc
    have : l = [] := List.length_eq_zero_iff.mp (by omega)
    subst this
    simp [chunks_nil] at hc
  | succ k ih =>
    intro l h c hc
    by_cases hl : l = []
    · subst hl; simp [chunks_nil] at hc
    · have hpos : 0 < l.length := List.length_pos_iff.mpr hl
      by_cases hs : l.length ≤ n
      · rw [chunks_short n l hl hs] at hc
        simp only [List.mem_singleton] at hc
        subst hc
        exact ⟨hpos, hs⟩
      · rw [chunks_long n hn l (by omega)] at hc
        have hlen : (l.drop n).length = l.length - n := List.length_drop
        rcases List.mem_cons.mp hc with hc | hc
        · subst hc
          rw [List.length_take]
          omega
        · exact ih (l.drop n) (by omega) c hc

/-! ### positional notation -/

theorem natOfDigits_nil (b : Nat) : natOfDigits b [] = 0 := rfl

theorem natOfDigits_snoc (b : Nat) (ds : List Nat) (d : Nat) :
    natOfDigits b (ds ++ [d]) = natOfDigits b ds * b + d := by
  simp [natOfDigits, List.foldl_append]

theorem digitsOfNat_length (b : Nat) : ∀ (len n : Nat), (digitsOfNat b len n).length = len := by
  intro len
  induction len with
  | zero => intro n; rfl
  | succ len ih => intro n; simp [digitsOfNat, ih]

theorem digitsOfNat_lt (b : Nat) (hb : 0 < b) :
    ∀ (len n : Nat), ∀ d ∈ digitsOfNat b len n, d < b := by
  intro len
  induction len with
  | zero => intro n d hd; simp [digitsOfNat] at hd
  | succ len ih =>
    intro n d hd
    simp only [digitsOfNat, List.mem_append, List.mem_singleton] at hd
    rcases hd with hd | hd
    · exact ih _ d hd
    · subst hd; exact Nat.mod_lt _ hb

/-- `digitsOfNat` gives the digits of `n mod b^len` -/
theorem natOfDigits_digitsOfNat (b : Nat) :
    ∀ (len n : Nat), natOfDigits b (digitsOfNat b len n) = n % b ^ len := by
  intro len
  induction len with
  | zero => intro n; simp [digitsOfNat, natOfDigits, Nat.mod_one]
  | succ len ih =>
    intro n
    rw [digitsOfNat, natOfDigits_snoc, ih, Nat.pow_succ, Nat.mul_comm (b ^ len) b,
      Nat.mod_mul, Nat.mul_comm]
    omega

theorem natOfDigits_digitsOfNat_of_lt (b len n : Nat) (h : n < b ^ len) :
    natOfDigits b (digitsOfNat b len n) = n := by
  rw [natOfDigits_digitsOfNat, Nat.mod_eq_of_lt h]

/-- a digit string is below `b^length` -/
theorem natOfDigits_lt (b : Nat) :
    ∀ (ds : List Nat), (∀ d ∈ ds, d < b) → natOfDigits b ds < b ^ ds.length := by
  apply snoc_ind
  · intro _; simp [natOfDigits]
  · intro l a ih h
    have h1 : natOfDigits b l < b ^ l.length := ih (fun d hd => h d (by simp [hd]))
    have h2 : a < b := h a (by simp)
    rw [natOfDigits_snoc, List.length_append, List.length_singleton, Nat.pow_succ]
    calc natOfDigits b l * b + a < natOfDigits b l * b + b := by omega
      _ = (natOfDigits b l + 1) * b := by rw [Nat.add_mul, Nat.one_mul]
      _ ≤ b ^ l.length * b := Nat.mul_le_mul_right b h1

/-- in-range digit strings are reproduced by `digitsOfNat` -/
theorem digitsOfNat_natOfDigits (b : Nat) :
    ∀ (ds : List Nat), (∀ d ∈ ds, d < b) → digitsOfNat b ds.length (natOfDigits b ds) = ds := by
  apply snoc_ind
  · intro _; rfl
  · intro l a ih h
    have h1 := ih (fun d hd => h d (by simp [hd]))
    have h2 : a < b := h a (by simp)
    rw [natOfDigits_snoc, List.length_append, List.length_singleton, digitsOfNat]
    have hb : 0 < b := by omega
    rw [Nat.mul_comm, Nat.mul_add_div hb, Nat.div_eq_of_lt h2, Nat.add_zero, h1,
      Nat.mul_add_mod, Nat.mod_eq_of_lt h2]

/-! ### bytes -/

theorem natOfBytes_eq (bs : Bytes) : natOfBytes bs = natOfDigits 256 (bs.map UInt8.toNat) := by
  simp [natOfBytes, natOfDigits, List.foldl_map]

theorem natOfBytes_lt (bs : Bytes) : natOfBytes bs < 256 ^ bs.length := by
  rw [natOfBytes_eq]
  have := natOfDigits_lt 256 (bs.map UInt8.toNat) (by
    intro d hd
    rw [List.mem_map] at hd
    obtain ⟨a, _, rfl⟩ := hd
    exact UInt8.toNat_lt a)
  simpa using this

theorem bytesOfNat_length (len n : Nat) : (bytesOfNat len n).length = len := by
  simp [bytesOfNat, digitsOfNat_length]

theorem map_toNat_bytesOfNat (len n : Nat) :
    (bytesOfNat len n).map UInt8.toNat = digitsOfNat 256 len n := by
  unfold bytesOfNat
  rw [List.map_map]
  have : ∀ l : List Nat, (∀ d ∈ l, d < 256) → l.map (UInt8.toNat ∘ UInt8.ofNat) = l := by
    intro l
    induction l with
    | nil => intro _; rfl
    | cons a t ih =>
      intro h
      have ha : a < 256 := h a (by simp)
      rw [List.map_cons, ih (fun d hd => h d (by simp [hd]))]
      congr 1
      show (UInt8.ofNat a).toNat = a
      simp [UInt8.toNat_ofNat']
      omega
  exact this _ (digitsOfNat_lt 256 (by omega) len n)

/-- `bytesOfNat` gives the bytes of `n mod 256^len` -/
theorem natOfBytes_bytesOfNat (len n : Nat) : natOfBytes (bytesOfNat len n) = n % 256 ^ len := by
  rw [natOfBytes_eq, map_toNat_bytesOfNat, natOfDigits_digitsOfNat]

theorem bytesOfNat_natOfBytes (bs : Bytes) : bytesOfNat bs.length (natOfBytes bs) = bs := by
  rw [natOfBytes_eq]
  unfold bytesOfNat
  have h := digitsOfNat_natOfDigits 256 (bs.map UInt8.toNat) (by
    intro d hd
    rw [List.mem_map] at hd
    obtain ⟨a, _, rfl⟩ := hd
    exact UInt8.toNat_lt a)
  rw [List.length_map] at h
  rw [h, List.map_map]
  have : (UInt8.ofNat ∘ UInt8.toNat) = id := by
    funext x; exact UInt8.ofNat_toNat
  rw [this, List.map_id]

end Saltpack.Proofs
