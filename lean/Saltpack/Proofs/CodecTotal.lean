/-
  Saltpack.Proofs.CodecTotal — WHEN does `Model/Codec.lean` answer `unmodelled`?

  One invariant, proved for every decoder of the model by walking its definition:

    `Sp k N d` :  on every input `b` of at most `N` bytes
                  * a successful run of `d` returns a rest with `rest.length + k ≤ b.length`
                    (`k = 0`: the decoder never gives bytes back; `k = 1`: it consumes a byte);
                  * an answer `unmodelled w` carries a DOCUMENTED reason (`Doc w`): one of the
                    three shapes listed in the header of Model/Codec.lean — never `"fuel"`.

  The fuel lemmas (`gen_sp`, `swallow_sp`): `2·N + 1 ≤ fuel` is enough for `gen` / `swallow`
  on inputs of `N` bytes, `2·N + 2 ≤ fuel` for the element loops — every loop step reads a byte
  (a `c0` element through `tryNil`, anything else through `readn1`), so `fuelFor b = 2·|b| + 256`
  is never exhausted.  Core Lean only.
-/
import Saltpack.Proofs.Codec

namespace Saltpack.Proofs.CodecP
open Saltpack Saltpack.Msgpack Saltpack.Codec

/-- the documented reasons for `unmodelled` (header of Model/Codec.lean); `"fuel"` is NOT one -/
inductive Doc : String → Prop where
  | containerTwice : Doc "container field repeated in map form"
  | repeatedKey : Doc "generic map: a repeated key whose first value is not a scalar"
  | twoTimes : Doc "generic map with two timestamp keys"

theorem Doc.ne_fuel {w : String} (h : Doc w) : w ≠ "fuel" := by
  cases h <;> decide

/-- see the file header -/
def Sp {α : Type} (k N : Nat) (d : Dec α) : Prop :=
  ∀ b : Bytes, b.length ≤ N →
    (∀ x r, d b = .ok (x, r) → r.length + k ≤ b.length) ∧ (∀ w, d b = .error (.unmodelled w) → Doc w)

namespace Sp

theorem weaken {α : Type} {k N k' N' : Nat} {d : Dec α} (h : Sp k N d) (hk : k' ≤ k) (hN : N' ≤ N) : Sp k' N' d := by
  intro b hb
  obtain ⟨h1, h2⟩ := h b (by omega)
  exact ⟨fun x r e => (by have := h1 x r e; omega), h2⟩

theorem mono {α : Type} {k N k' : Nat} {d : Dec α} (h : Sp k N d) (hk : k' ≤ k) : Sp k' N d :=
  h.weaken hk (Nat.le_refl _)

theorem pure {α : Type} {N : Nat} (a : α) : Sp 0 N (Pure.pure a : Dec α) := by
  intro b _
  refine ⟨fun x r e => ?_, fun w e => ?_⟩
  · rw [pure_run] at e; cases e; omega
  · rw [pure_run] at e; cases e

theorem fail_eof {α : Type} {k N : Nat} : Sp k N (fail .eof : Dec α) := by
  intro b _; exact ⟨fun x r e => (by cases e), fun w e => (by cases e)⟩

theorem bad {α : Type} {k N : Nat} (why : String) : Sp k N (Codec.bad why : Dec α) := by
  intro b _; exact ⟨fun x r e => (by cases e), fun w e => (by cases e)⟩

theorem fail_doc {α : Type} {k N : Nat} {w : String} (h : Doc w) : Sp k N (fail (.unmodelled w) : Dec α) := by
  intro b _
  refine ⟨fun x r e => (by cases e), fun w' e => ?_⟩
  cases e; exact h

theorem bind0 {α β : Type} {k N : Nat} {d : Dec α} {f : α → Dec β} (hd : Sp 0 N d) (hf : ∀ x, Sp k N (f x)) :
    Sp k N (d >>= f) := by
  intro b hb
  obtain ⟨h1, h2⟩ := hd b hb
  rw [bind_run]
  cases hdb : d b with
  | error e =>
    refine ⟨fun x r e' => (by cases e'), fun w e' => ?_⟩
    cases e'; exact h2 w hdb
  | ok p =>
    obtain ⟨a, r0⟩ := p
    have hl := h1 a r0 hdb
    obtain ⟨g1, g2⟩ := hf a r0 (by omega)
    exact ⟨fun x r e => (by have := g1 x r e; omega), g2⟩

/-- a consuming first step: the continuation works on a strictly shorter input -/
theorem bindS {α β : Type} {k N : Nat} {d : Dec α} {f : α → Dec β} (hd : Sp 1 N d)
    (hf : ∀ N', N' < N → ∀ x, Sp 0 N' (f x)) (hk : k ≤ 1) : Sp k N (d >>= f) := by
  intro b hb
  obtain ⟨h1, h2⟩ := hd b hb
  rw [bind_run]
  cases hdb : d b with
  | error e =>
    refine ⟨fun x r e' => (by cases e'), fun w e' => ?_⟩
    cases e'; exact h2 w hdb
  | ok p =>
    obtain ⟨a, r0⟩ := p
    have hl := h1 a r0 hdb
    obtain ⟨g1, g2⟩ := hf r0.length (by omega) a r0 (Nat.le_refl _)
    exact ⟨fun x r e => (by have := g1 x r e; omega), g2⟩

/-- `TryDecodeAsNil` consumes a byte exactly when it answers `true` -/
theorem tryNil {β : Type} {k N : Nat} {f : Bool → Dec β} (ht : ∀ N', N' < N → Sp 0 N' (f true))
    (hf : Sp k N (f false)) (hk : k ≤ 1) : Sp k N (Codec.tryNil >>= f) := by
  intro b hb
  rw [bind_run]
  cases b with
  | nil => exact ⟨fun x r e => (by cases e), fun w e => (by cases e)⟩
  | cons x t =>
    by_cases hx : x = 0xc0
    · subst hx
      rw [tryNil_c0]
      simp only [List.length_cons] at hb ⊢
      obtain ⟨g1, g2⟩ := ht t.length (by omega) t (Nat.le_refl _)
      exact ⟨fun x r e => (by have := g1 x r e; omega), g2⟩
    · rw [tryNil_other x t hx]
      exact hf (x :: t) hb

theorem tryNil_ite {β : Type} {k N : Nat} {a b : Dec β} (ht : ∀ N', N' < N → Sp 0 N' a)
    (hf : Sp k N b) (hk : k ≤ 1) : Sp k N (Codec.tryNil >>= fun x => if x = true then a else b) :=
  tryNil (f := fun x => if x = true then a else b) (fun N' h => by simpa using ht N' h) (by simpa using hf) hk

theorem map {α β : Type} {k N : Nat} {d : Dec α} (g : α → β) (hd : Sp k N d) : Sp k N (g <$> d) := by
  intro b hb
  obtain ⟨h1, h2⟩ := hd b hb
  rw [map_run]
  cases hdb : d b with
  | error e =>
    refine ⟨fun x r e' => (by cases e'), fun w e' => ?_⟩
    cases e'; exact h2 w hdb
  | ok p =>
    obtain ⟨a, r0⟩ := p
    refine ⟨fun x r e => ?_, fun w e => (by cases e)⟩
    cases e; exact h1 a r0 hdb

theorem ite {α : Type} {k N : Nat} {c : Prop} [Decidable c] {a b : Dec α} (ha : Sp k N a) (hb : Sp k N b) :
    Sp k N (if c then a else b) := by
  by_cases h : c
  · rw [if_pos h]; exact ha
  · rw [if_neg h]; exact hb

theorem discard {α : Type} {k N : Nat} {d : Dec α} (hd : Sp k N d) : Sp k N (Functor.discard d) :=
  map _ hd

end Sp

/-! ### the tactic: walk a `do` block -/

/-- leaves: extended by `macro_rules` as decoders are proved -/
syntax "sp_leaf" : tactic

macro_rules | `(tactic| sp_leaf) => `(tactic| assumption)
macro_rules | `(tactic| sp_leaf) => `(tactic| exact (Sp.pure _).mono (by omega))
macro_rules | `(tactic| sp_leaf) => `(tactic| exact Sp.bad _)
macro_rules | `(tactic| sp_leaf) => `(tactic| exact Sp.fail_eof)
macro_rules | `(tactic| sp_leaf) => `(tactic| exact Sp.fail_doc (by constructor))

/-- one structural step -/
macro "sp_step" : tactic => `(tactic|
  first
  | (refine Sp.ite ?_ ?_)
  | sp_leaf
  | (refine Sp.tryNil_ite (fun _ _ => ?_) ?_ (by omega))
  | (refine Sp.bindS (by sp_leaf) (fun _ _ _ => ?_) (by omega))
  | (refine Sp.bind0 (by sp_leaf) (fun _ => ?_))
  | (refine Sp.map _ ?_)
  | (refine Sp.discard ?_)
  | split
  | (dsimp only))

macro "sp" : tactic => `(tactic| repeat' sp_step)

/-! ### primitives -/

theorem readn1_sp {N : Nat} : Sp 1 N readn1 := by
  intro b _
  cases b with
  | nil => exact ⟨fun x r e => (by cases e), fun w e => (by cases e)⟩
  | cons x t =>
    refine ⟨fun y r e => ?_, fun w e => (by cases e)⟩
    rw [readn1_cons] at e; cases e; simp

macro_rules | `(tactic| sp_leaf) => `(tactic| exact readn1_sp.mono (by omega))

theorem peek1_sp {N : Nat} : Sp 0 N peek1 := by
  intro b _
  cases b with
  | nil => exact ⟨fun x r e => (by cases e), fun w e => (by cases e)⟩
  | cons x t =>
    refine ⟨fun y r e => ?_, fun w e => (by cases e)⟩
    rw [peek1_cons] at e; cases e; simp

macro_rules | `(tactic| sp_leaf) => `(tactic| exact peek1_sp.mono (by omega))

theorem tryNil_sp {N : Nat} : Sp 0 N Codec.tryNil := by
  intro b _
  cases b with
  | nil => exact ⟨fun x r e => (by cases e), fun w e => (by cases e)⟩
  | cons x t =>
    by_cases hx : x = 0xc0
    · subst hx; rw [tryNil_c0]
      exact ⟨fun y r e => (by cases e; simp), fun w e => (by cases e)⟩
    · rw [tryNil_other x t hx]
      exact ⟨fun y r e => (by cases e; simp), fun w e => (by cases e)⟩

macro_rules | `(tactic| sp_leaf) => `(tactic| exact tryNil_sp.mono (by omega))

theorem liftP_takeN_sp {N : Nat} (n : Nat) : Sp 0 N (fun b => liftP (takeN n b)) := by
  intro b _
  show (∀ x r, liftP (takeN n b) = .ok (x, r) → _) ∧ (∀ w, liftP (takeN n b) = .error (.unmodelled w) → _)
  unfold takeN
  by_cases h : b.length < n
  · rw [if_pos h]; exact ⟨fun x r e => (by cases e), fun w e => (by cases e)⟩
  · rw [if_neg h]
    refine ⟨fun x r e => ?_, fun w e => (by cases e)⟩
    cases e; simp

theorem readx_sp {N : Nat} (n : Nat) : Sp 0 N (readx n) := liftP_takeN_sp n

macro_rules | `(tactic| sp_leaf) => `(tactic| exact (readx_sp _).mono (by omega))

theorem readBE_sp {N : Nat} (w : Nat) : Sp 0 N (readBE w) := by
  intro b _
  unfold readBE readLen takeN
  by_cases h : b.length < w
  · rw [if_pos h]; exact ⟨fun x r e => (by cases e), fun w e => (by cases e)⟩
  · rw [if_neg h]
    refine ⟨fun x r e => ?_, fun w e => (by cases e)⟩
    cases e; simp

macro_rules | `(tactic| sp_leaf) => `(tactic| exact (readBE_sp _).mono (by omega))

theorem lenBytes_sp {N : Nat} (c : Nat) : Sp 0 N (lenBytes c) := by unfold lenBytes; sp
macro_rules | `(tactic| sp_leaf) => `(tactic| exact (lenBytes_sp _).mono (by omega))

theorem lenArr_sp {N : Nat} (c : Nat) : Sp 0 N (lenArr c) := by unfold lenArr; sp
macro_rules | `(tactic| sp_leaf) => `(tactic| exact (lenArr_sp _).mono (by omega))

theorem lenMap_sp {N : Nat} (c : Nat) : Sp 0 N (lenMap c) := by unfold lenMap; sp
macro_rules | `(tactic| sp_leaf) => `(tactic| exact (lenMap_sp _).mono (by omega))

theorem readArrayStart_sp {N : Nat} : Sp 1 N readArrayStart := by unfold readArrayStart; sp
macro_rules | `(tactic| sp_leaf) => `(tactic| exact readArrayStart_sp.mono (by omega))

theorem readMapStart_sp {N : Nat} : Sp 1 N readMapStart := by unfold readMapStart; sp
macro_rules | `(tactic| sp_leaf) => `(tactic| exact readMapStart_sp.mono (by omega))

theorem nonNeg_sp {N : Nat} (bits w : Nat) : Sp 0 N (nonNeg bits w) := by unfold nonNeg; sp
macro_rules | `(tactic| sp_leaf) => `(tactic| exact (nonNeg_sp _ _).mono (by omega))

theorem decodeUint64_sp {N : Nat} : Sp 1 N decodeUint64 := by unfold decodeUint64; sp
macro_rules | `(tactic| sp_leaf) => `(tactic| exact decodeUint64_sp.mono (by omega))

theorem readInt_sp {N : Nat} (f : Nat → Int) (w : Nat) : Sp 0 N (readInt f w) := by unfold readInt; sp
macro_rules | `(tactic| sp_leaf) => `(tactic| exact (readInt_sp _ _).mono (by omega))

theorem decodeInt64_sp {N : Nat} : Sp 1 N decodeInt64 := by unfold decodeInt64; sp
macro_rules | `(tactic| sp_leaf) => `(tactic| exact decodeInt64_sp.mono (by omega))

theorem decodeBool_sp {N : Nat} : Sp 1 N decodeBool := by unfold decodeBool; sp
macro_rules | `(tactic| sp_leaf) => `(tactic| exact decodeBool_sp.mono (by omega))

macro_rules | `(tactic| sp_leaf) => `(tactic| (refine Sp.discard ?_; apply_assumption <;> omega))
macro_rules | `(tactic| sp_leaf) => `(tactic| (apply_assumption <;> omega))
macro_rules | `(tactic| sp_leaf) => `(tactic| (refine Sp.mono (k := 1) ?_ (by omega); apply_assumption <;> omega))

theorem u8elem_sp {N : Nat} : Sp 1 N u8elem := by unfold u8elem; sp
macro_rules | `(tactic| sp_leaf) => `(tactic| exact u8elem_sp.mono (by omega))

theorem u8loop_sp : ∀ (n : Nat) (acc : Bytes) (N : Nat), Sp 0 N (u8loop n acc)
  | 0, acc, N => by unfold u8loop; sp
  | n + 1, acc, N => by
    have ih := fun acc N => u8loop_sp n acc N
    unfold u8loop; sp
macro_rules | `(tactic| sp_leaf) => `(tactic| exact (u8loop_sp _ _ _).mono (by omega))

theorem decodeBytes_sp {N : Nat} : Sp 1 N decodeBytes := by unfold decodeBytes; sp
macro_rules | `(tactic| sp_leaf) => `(tactic| exact decodeBytes_sp.mono (by omega))

theorem sliceLen_sp {N : Nat} : Sp 1 N sliceLen := by unfold sliceLen; sp
macro_rules | `(tactic| sp_leaf) => `(tactic| exact sliceLen_sp.mono (by omega))

theorem decBytesField_sp {N : Nat} : Sp 1 N decBytesField := by unfold decBytesField; sp
macro_rules | `(tactic| sp_leaf) => `(tactic| exact decBytesField_sp.mono (by omega))

theorem decodeFloat64_sp {N : Nat} : Sp 1 N decodeFloat64 := by unfold decodeFloat64; sp
macro_rules | `(tactic| sp_leaf) => `(tactic| exact decodeFloat64_sp.mono (by omega))

theorem extLen_sp {N : Nat} (c : Nat) : Sp 0 N (extLen c) := by unfold extLen; sp
macro_rules | `(tactic| sp_leaf) => `(tactic| exact (extLen_sp _).mono (by omega))

theorem readKey_sp {N : Nat} (f : Nat → GKey) (w : Nat) : Sp 0 N (readKey f w) := by unfold readKey; sp
macro_rules | `(tactic| sp_leaf) => `(tactic| exact (readKey_sp _ _).mono (by omega))

end Saltpack.Proofs.CodecP
