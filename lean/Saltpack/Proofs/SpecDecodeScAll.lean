/-
  The strict reference decoder for signcryption with ALL recipients' keys
  (Model/SpecDecodeAll.lean) against the reference SENDER: completeness and
  FULL soundness — an accepted byte string is `Spec.signcryptPlan` of the
  decoded values, every recipient entry included.

  Behind Props/C08DecodeSc.lean.
-/
import Saltpack.Model.SpecDecodeAll
import Saltpack.Proofs.SpecDecodeSc

namespace Saltpack.Proofs.SDW
open Saltpack Saltpack.Msgpack Saltpack.SpecDecode Saltpack.Proofs
open Saltpack.Spec hiding encode

section
variable (P : Prims)

/-- `ScMsg.check` is: find the opener's entry, open its payload key box, then `checkBody` -/
theorem check_body (m : ScMsg) (idx : Nat) (key : ScKey) (r : ScRecv) (pk : Bytes)
    (hr : m.recvs[idx]? = some r) (hk : scRecvKey P m.eph idx r key = .ok pk) :
    m.check P idx key = m.checkBody P pk := by
  unfold ScMsg.check ScMsg.checkBody
  rw [hr]
  simp only [hk]
  rfl

/-! ### completeness -/

/-- one key per recipient, each the recipient's own -/
def ScKeysFor : List ScKey → List Signcrypt.Recipient → Prop
  | [], [] => True
  | k :: ks, r :: rs => ScKeyFor P k (some r) ∧ ScKeysFor ks rs
  | _, _ => False

theorem scRecvKeysAll_spec (hL : P.Lawful) (eph pk : Bytes) : ∀ (rs : List Signcrypt.Recipient) (keys : List ScKey) (i : Nat),
    ScKeysFor P keys rs →
    scRecvKeysAll P (P.boxPub eph) i ((rs.zipIdx i).map (fun (r, j) => specScRecv P eph pk j r)) keys =
      .ok (rs.map (fun _ => pk)) := by
  intro rs
  induction rs with
  | nil =>
    intro keys i h
    cases keys with
    | nil => rfl
    | cons k ks => exact absurd h (by simp [ScKeysFor])
  | cons r rs ih =>
    intro keys i h
    cases keys with
    | nil => exact absurd h (by simp [ScKeysFor])
    | cons k ks =>
      obtain ⟨h1, h2⟩ := h
      simp only [List.zipIdx_cons, List.map_cons, scRecvKeysAll]
      rw [scRecvKey_spec P hL eph pk i r k h1]
      simp only
      rw [ih ks (i + 1) h2]

/-- **completeness of the cryptographic layer, all recipients' keys** -/
theorem sc_checkAll_complete (hL : P.Lawful) (sender : Option Bytes)
    (hs : ∀ s, sender = some s → P.sigPub s ≠ zeros 32)
    (rs : List Signcrypt.Recipient) (hrs : rs ≠ []) (eph pk : Bytes) (pl : List (Bytes × Bool))
    (hpl : PlanOK 2 0 pl) (hpl0 : pl ≠ []) (keys : List ScKey) (hkeys : ScKeysFor P keys rs) :
    (specScMsg P sender rs eph pk pl).checkAll P keys =
      .ok ⟨pk, specScSenderPub P sender, pl.map (·.1)⟩ := by
  obtain ⟨r0, rs', rfl⟩ := List.exists_cons_of_ne_nil hrs
  cases keys with
  | nil => exact absurd hkeys (by simp [ScKeysFor])
  | cons k0 ks =>
    have hk0 : ScKeyFor P k0 (some r0) := hkeys.1
    have hchk := sc_check_complete P hL sender hs (r0 :: rs') eph pk pl hpl hpl0 0 k0 (by simpa using hk0)
    have hr0 : (specScMsg P sender (r0 :: rs') eph pk pl).recvs[0]? = some (specScRecv P eph pk 0 r0) := by
      simp [specScMsg, specScHdr]
    have he : (specScMsg P sender (r0 :: rs') eph pk pl).eph = P.boxPub eph := rfl
    rw [check_body P _ 0 k0 _ pk hr0 (by rw [he]; exact scRecvKey_spec P hL eph pk 0 r0 k0 hk0)] at hchk
    unfold ScMsg.checkAll
    have hrecvs : (specScMsg P sender (r0 :: rs') eph pk pl).recvs =
        (((r0 :: rs').zipIdx 0).map (fun (r, j) => specScRecv P eph pk j r)) := rfl
    rw [he, hrecvs, scRecvKeysAll_spec P hL eph pk (r0 :: rs') (k0 :: ks) 0 hkeys]
    simp only [List.map_cons]
    rw [if_pos (by simp)]
    rw [hchk]
    cases sender <;> rfl

/-! ### soundness -/

/-- the recipients as the decoder saw them: a box recipient is the public key
    of the secret the decoder holds, a symmetric-key recipient the key the
    decoder holds with the identifier found in the header -/
def scRecipOf (k : ScKey) (ident : Bytes) : Signcrypt.Recipient :=
  match k with
  | .box sk => .box (P.boxPub sk)
  | .sym key => .sym key ident

def scRsOf (keys : List ScKey) (recvs : List ScRecv) : List Signcrypt.Recipient :=
  List.zipWith (fun k r => scRecipOf P k r.ident) keys recvs

/-- the chunk plan as the decoder saw it -/
def scPlanOf (chunks : List Bytes) (pkts : List ScPkt) : List (Bytes × Bool) :=
  List.zipWith (fun c (p : ScPkt) => (c, p.final)) chunks pkts

/-- an opened recipient entry is the reference sender's entry for that key -/
theorem scRecvKey_sound (hL : P.Lawful) (hC : OpenCanonical P) (ephSec pk : Bytes) (i : Nat) (r : ScRecv) (k : ScKey)
    (h : scRecvKey P (P.boxPub ephSec) i r k = .ok pk) :
    r = specScRecv P ephSec pk i (scRecipOf P k r.ident) := by
  obtain ⟨ident, box⟩ := r
  unfold scRecipOf
  cases k with
  | box sk =>
    simp only [scRecvKey] at h
    split at h
    · cases h
    · rename_i hid
      split at h
      · rename_i k' hk
        injection h with h
        subst h
        simp only [ne_eq, Decidable.not_not] at hid
        have hb : P.box ephSec (P.boxPub sk) sNonceDerived (zeros 32) = P.box sk (P.boxPub ephSec) sNonceDerived (zeros 32) := by
          unfold Prims.box; rw [hL.dh_comm]
        simp only [specScRecv, hb]
        rw [← hid, ← hC _ _ _ _ hk]
      · cases h
  | sym key =>
    simp only [scRecvKey] at h
    split at h
    · rename_i k' hk
      injection h with h
      subst h
      simp only [specScRecv]
      rw [← hC _ _ _ _ hk]
    · cases h

theorem scRecvKeysAll_sound (hL : P.Lawful) (hC : OpenCanonical P) (ephSec pk : Bytes) :
    ∀ (recvs : List ScRecv) (keys : List ScKey) (i : Nat) (pks : List Bytes),
    scRecvKeysAll P (P.boxPub ephSec) i recvs keys = .ok pks → (∀ x ∈ pks, x = pk) →
    recvs = ((scRsOf P keys recvs).zipIdx i).map (fun (r, j) => specScRecv P ephSec pk j r) ∧
      keys.length = recvs.length ∧ pks.length = recvs.length := by
  intro recvs
  induction recvs with
  | nil =>
    intro keys i pks h _
    cases keys with
    | nil => simp [scRecvKeysAll] at h; subst h; simp [scRsOf]
    | cons k ks => simp [scRecvKeysAll] at h
  | cons r rs ih =>
    intro keys i pks h hall
    cases keys with
    | nil => simp [scRecvKeysAll] at h
    | cons k ks =>
      rw [scRecvKeysAll] at h
      split at h
      · cases h
      · rename_i pk0 hk
        split at h
        · cases h
        · rename_i pks' hrest
          injection h with h
          subst h
          have hpk0 : pk0 = pk := hall pk0 (by simp)
          subst hpk0
          obtain ⟨i1, i2, i3⟩ := ih ks (i + 1) pks' hrest (fun x hx => hall x (by simp [hx]))
          refine ⟨?_, by simp [i2], by simp [i3]⟩
          simp only [scRsOf, List.zipWith_cons_cons, List.zipIdx_cons, List.map_cons]
          congr 1
          exact scRecvKey_sound P hL hC ephSec pk0 i r k hk

/-- accepted packets are the reference sender's packets, given that an accepted
    64-byte signature field is the reference sender's -/
theorem scPkts_are_spec (sender : Option Bytes) (pk hh senderPub : Bytes)
    (hsg : ∀ i f c sg, sg.length = 64 → (isAnon senderPub = true → sg = zeros 64) →
      (isAnon senderPub = false → P.verify senderPub (scSigInput P hh i f c) sg = true) →
      sg = specScSig P sender hh i c f) :
    ∀ (pkts : List ScPkt) (k : Nat) (chunks : List Bytes), ScPktsOK P pk hh senderPub k pkts chunks →
    pkts = ((scPlanOf chunks pkts).zipIdx k).map (fun (cf, i) => specScPkt P sender pk hh i cf.1 cf.2) := by
  intro pkts
  induction pkts with
  | nil =>
    intro k chunks _
    cases chunks <;> simp [scPlanOf]
  | cons p ps ih =>
    intro k chunks h
    cases chunks with
    | nil => exact absurd h (by simp [ScPktsOK])
    | cons c cs =>
      obtain ⟨⟨sg, hl, hct, ha, hv⟩, hrest⟩ := h
      simp only [scPlanOf, List.zipWith_cons_cons, List.zipIdx_cons, List.map_cons]
      congr 1
      · obtain ⟨ct, fin⟩ := p
        simp only [specScPkt]
        simp only at hct ha hv
        rw [hct, hsg k fin c sg hl ha hv]
      · exact ih (k + 1) cs hrest

theorem zeros32_isAnon : isAnon (zeros 32) = true := by simp [isAnon]

/-- **full soundness of the cryptographic layer, signcryption, all recipients'
    keys**: the decoded message IS the reference sender's message for the
    decoded values -/
theorem sc_checkAll_sound (hL : P.Lawful) (hC : OpenCanonical P) (m : ScMsg) (keys : List ScKey) (o : ScOpened)
    (h : m.checkAll P keys = .ok o) :
    keys.length = m.recvs.length ∧ m.recvs ≠ [] ∧ o.senderPub.length = 32 ∧
    PlanOK 2 0 (scPlanOf o.chunks m.pkts) ∧ (scPlanOf o.chunks m.pkts).map (·.1) = o.chunks ∧
    ∀ ephSec, m.eph = P.boxPub ephSec →
      (o.senderPub = zeros 32 →
        m = specScMsg P none (scRsOf P keys m.recvs) ephSec o.payloadKey (scPlanOf o.chunks m.pkts)) ∧
      (SigCanonical P → ∀ senderSec, o.senderPub = P.sigPub senderSec → o.senderPub ≠ zeros 32 →
        m = specScMsg P (some senderSec) (scRsOf P keys m.recvs) ephSec o.payloadKey (scPlanOf o.chunks m.pkts)) := by
  unfold ScMsg.checkAll at h
  split at h
  · cases h
  · cases h
  · rename_i pk pks hall
    split at h
    · rename_i hsame
      -- the first recipient's entry: reuse the one-key soundness for the body
      have hne : m.recvs ≠ [] := by
        intro h0
        rw [h0] at hall
        cases keys <;> simp [scRecvKeysAll] at hall
      obtain ⟨r0, rs', hrecvs⟩ := List.exists_cons_of_ne_nil hne
      have hkne : ∃ k0 ks, keys = k0 :: ks := by
        cases keys with
        | nil => rw [hrecvs] at hall; simp [scRecvKeysAll] at hall
        | cons k0 ks => exact ⟨k0, ks, rfl⟩
      obtain ⟨k0, ks, hkeys⟩ := hkne
      have hk0 : scRecvKey P m.eph 0 r0 k0 = .ok pk := by
        rw [hrecvs, hkeys, scRecvKeysAll] at hall
        split at hall
        · cases hall
        · rename_i pk0 hk
          split at hall
          · cases hall
          · injection hall with hall
            injection hall with hall _
            rw [hk, hall]
      have hchk : m.check P 0 k0 = .ok o := by
        rw [check_body P m 0 k0 r0 pk (by rw [hrecvs]; rfl) hk0]; exact h
      obtain ⟨hssb, hlen, _, hpk, hplan⟩ := sc_check_sound P hC m 0 k0 o hchk
      have hpko : o.payloadKey = pk := by
        unfold ScMsg.checkBody at h
        split at h
        · cases h
        · split at h
          · cases h
          · split at h
            · cases h
            · split at h
              · cases h
              · injection h with h; rw [← h]
      have hchunks : o.chunks.length = m.pkts.length := by
        unfold ScMsg.checkBody at h
        split at h
        · cases h
        · split at h
          · cases h
          · split at h
            · cases h
            · split at h
              · cases h
              · rename_i chunks hch
                injection h with h
                rw [← h]
                exact (scPkts_sound P hC pk _ _ _ _ _ hch).2.2
      have hallpk : ∀ x ∈ pk :: pks, x = pk := by
        intro x hx
        rcases List.mem_cons.mp hx with rfl | hx
        · rfl
        · exact eq_of_beq (List.all_eq_true.mp hsame x hx)
      refine ⟨?_, hne, hlen, hplan, ?_, ?_⟩
      · have := fun ephSec (he : m.eph = P.boxPub ephSec) =>
          (scRecvKeysAll_sound P hL hC ephSec pk m.recvs keys 0 (pk :: pks) (by rw [← he]; exact hall) hallpk).2.1
        -- the length fact does not need an ephemeral secret: redo it directly
        clear this
        have : ∀ (recvs : List ScRecv) (keys : List ScKey) (i : Nat) (pks : List Bytes),
            scRecvKeysAll P m.eph i recvs keys = .ok pks → keys.length = recvs.length := by
          intro recvs
          induction recvs with
          | nil => intro keys i pks h; cases keys <;> simp [scRecvKeysAll] at h ⊢
          | cons r rs ih =>
            intro keys i pks h
            cases keys with
            | nil => simp [scRecvKeysAll] at h
            | cons k ks =>
              rw [scRecvKeysAll] at h
              split at h
              · cases h
              · split at h
                · cases h
                · rename_i pks' hrest
                  simp [ih ks (i + 1) pks' hrest]
        exact this _ _ _ _ hall
      · simp only [scPlanOf]
        have : ∀ (cs : List Bytes) (ps : List ScPkt), cs.length = ps.length →
            (List.zipWith (fun c (p : ScPkt) => (c, p.final)) cs ps).map (·.1) = cs := by
          intro cs
          induction cs with
          | nil => intro ps _; simp
          | cons c cs ih =>
            intro ps hl
            cases ps with
            | nil => simp at hl
            | cons p ps => simp [ih ps (by simpa using hl)]
        exact this _ _ hchunks
      · intro ephSec he
        obtain ⟨hrv, _, _⟩ := scRecvKeysAll_sound P hL hC ephSec pk m.recvs keys 0 (pk :: pks)
          (by rw [← he]; exact hall) hallpk
        rw [hpko]
        rw [hpko] at hssb hpk
        have assemble : ∀ (sender : Option Bytes), specScSenderPub P sender = o.senderPub →
            m.pkts = ((scPlanOf o.chunks m.pkts).zipIdx 0).map
              (fun (cf, i) => specScPkt P sender pk (P.hash m.headerBytes) i cf.1 cf.2) →
            m = specScMsg P sender (scRsOf P keys m.recvs) ephSec pk (scPlanOf o.chunks m.pkts) := by
          intro sender hsp hpkts
          have hhdr : m.headerBytes = (specScHdr P sender (scRsOf P keys m.recvs) ephSec pk).headerBytes := by
            unfold ScMsg.headerBytes ScMsg.fields
            simp only [specScHdr]
            rw [he, hssb, hsp, ← hrv]
          obtain ⟨eph, ssb, recvs, pkts⟩ := m
          simp only at he hssb hrv hpkts hhdr
          simp only [specScMsg, specScHdr]
          simp only [specScHdr] at hhdr
          rw [← hhdr, ← hpkts, ← hrv, hsp, ← hssb, ← he]
        constructor
        · intro hz
          apply assemble none (by rw [hz]; rfl)
          apply scPkts_are_spec P none pk _ o.senderPub _ m.pkts 0 o.chunks hpk
          intro i f c sg _ ha _
          exact ha (by rw [hz]; exact zeros32_isAnon)
        · intro hS senderSec hsp hnz
          apply assemble (some senderSec) (by rw [hsp]; rfl)
          apply scPkts_are_spec P (some senderSec) pk _ o.senderPub _ m.pkts 0 o.chunks hpk
          intro i f c sg _ _ hv
          have hna : isAnon o.senderPub = false := by
            simp only [isAnon, beq_eq_false_iff_ne]; exact hnz
          have := hv hna
          rw [hsp] at this
          exact hS _ _ _ this
    · cases h

/-- the verdict string of `signcryptionAll` -/
def scSummaryAll (m : ScMsg) (o : ScOpened) : String :=
  s!"plaintext={showB o.chunks.flatten} sender={if isAnon o.senderPub then "anon" else showB o.senderPub} recipients={",".intercalate (m.recvs.map (fun r => showB r.ident))}"

theorem signcryptionAll_ok_iff (b : Bytes) (keys : List ScKey) (s : String) :
    signcryptionAll P b keys = .ok s ↔
      ∃ m o, ScMsg.parse b = .ok m ∧ m.checkAll P keys = .ok o ∧ s = scSummaryAll m o := by
  unfold signcryptionAll
  cases hp : ScMsg.parse b with
  | error e => simp
  | ok m =>
    simp only
    cases hc : m.checkAll P keys with
    | error e =>
      simp only
      constructor
      · intro h; cases h
      · rintro ⟨m', o', h1, h2, _⟩
        injection h1 with h1
        subst h1
        rw [hc] at h2
        cases h2
    | ok o =>
      simp only [Except.ok.injEq]
      constructor
      · intro h; exact ⟨m, o, rfl, hc, h.symm⟩
      · rintro ⟨m', o', h1, h2, h3⟩
        subst h1
        rw [hc] at h2
        injection h2 with h2
        subst h2
        exact h3.symm

/-- **soundness of the whole oracle, signcryption, all recipients' keys**:
    an accepted byte string IS the reference sender's output for the decoded
    payload key, sender, recipients (every entry) and chunk plan -/
theorem oracle_sound_signcryption (hL : P.Lawful) (hC : OpenCanonical P) (b : Bytes) (keys : List ScKey) (s : String)
    (h : signcryptionAll P b keys = .ok s) :
    ∃ (m : ScMsg) (o : ScOpened), ScMsg.parse b = .ok m ∧ m.checkAll P keys = .ok o ∧ s = scSummaryAll m o ∧
      m.render = b ∧ keys.length = m.recvs.length ∧ m.recvs ≠ [] ∧ o.senderPub.length = 32 ∧
      PlanOK 2 0 (scPlanOf o.chunks m.pkts) ∧ (scPlanOf o.chunks m.pkts).map (·.1) = o.chunks ∧
      ∀ ephSec, m.eph = P.boxPub ephSec →
        (o.senderPub = zeros 32 →
          b = Spec.signcryptPlan P {} none (scRsOf P keys m.recvs) ephSec o.payloadKey (scPlanOf o.chunks m.pkts)) ∧
        (SigCanonical P → ∀ senderSec, o.senderPub = P.sigPub senderSec → o.senderPub ≠ zeros 32 →
          b = Spec.signcryptPlan P {} (some senderSec) (scRsOf P keys m.recvs) ephSec o.payloadKey
                (scPlanOf o.chunks m.pkts)) := by
  obtain ⟨m, o, hp, hc, hs⟩ := (signcryptionAll_ok_iff P b keys s).1 h
  have hr := ScMsg.parse_sound hp
  obtain ⟨a1, a2, a3, a4, a5, a6⟩ := sc_checkAll_sound P hL hC m keys o hc
  refine ⟨m, o, hp, hc, hs, hr, a1, a2, a3, a4, a5, ?_⟩
  intro ephSec he
  obtain ⟨b1, b2⟩ := a6 ephSec he
  constructor
  · intro hz
    rw [spec_signcryptPlan_render, ← b1 hz, hr]
  · intro hS senderSec hsp hnz
    rw [spec_signcryptPlan_render, ← b2 hS senderSec hsp hnz, hr]

/-- **completeness of the whole oracle, signcryption, all recipients' keys** -/
theorem oracle_complete_signcryption (hL : P.Lawful) (sender : Option Bytes)
    (hs : ∀ s, sender = some s → P.sigPub s ≠ zeros 32)
    (rs : List Signcrypt.Recipient) (hrs : rs ≠ []) (eph pk : Bytes) (pl : List (Bytes × Bool))
    (hpl : PlanOK 2 0 pl) (hpl0 : pl ≠ []) (keys : List ScKey) (hkeys : ScKeysFor P keys rs)
    (hwf : ScMsgWF (specScMsg P sender rs eph pk pl)) :
    ∃ m, ScMsg.parse (Spec.signcryptPlan P {} sender rs eph pk pl) = .ok m ∧
      m.checkAll P keys = .ok ⟨pk, specScSenderPub P sender, pl.map (·.1)⟩ ∧
      signcryptionAll P (Spec.signcryptPlan P {} sender rs eph pk pl) keys =
        .ok (scSummaryAll m ⟨pk, specScSenderPub P sender, pl.map (·.1)⟩) := by
  have hparse : ScMsg.parse (Spec.signcryptPlan P {} sender rs eph pk pl) = .ok (specScMsg P sender rs eph pk pl) := by
    rw [spec_signcryptPlan_render]; exact ScMsg.parse_complete _ hwf
  have hchk := sc_checkAll_complete P hL sender hs rs hrs eph pk pl hpl hpl0 keys hkeys
  refine ⟨_, hparse, hchk, ?_⟩
  exact (signcryptionAll_ok_iff P _ keys _).2 ⟨_, _, hparse, hchk, rfl⟩

/-! ### the all-keys oracle refines the one-key oracle at every index -/

theorem scRecvKeysAll_get (eph : Bytes) : ∀ (recvs : List ScRecv) (keys : List ScKey) (i : Nat) (pks : List Bytes),
    scRecvKeysAll P eph i recvs keys = .ok pks →
    ∀ j r k, recvs[j]? = some r → keys[j]? = some k →
      ∃ pk, pks[j]? = some pk ∧ scRecvKey P eph (i + j) r k = .ok pk := by
  intro recvs
  induction recvs with
  | nil => intro keys i pks _ j r k hr; simp at hr
  | cons r0 rs ih =>
    intro keys i pks h j r k hr hk
    cases keys with
    | nil => simp at hk
    | cons k0 ks =>
      rw [scRecvKeysAll] at h
      split at h
      · cases h
      · rename_i pk0 hk0
        split at h
        · cases h
        · rename_i pks' hrest
          injection h with h
          subst h
          cases j with
          | zero =>
            simp only [List.getElem?_cons_zero, Option.some.injEq] at hr hk
            subst hr; subst hk
            exact ⟨pk0, by simp, by simpa using hk0⟩
          | succ j =>
            simp only [List.getElem?_cons_succ] at hr hk
            obtain ⟨pk, h1, h2⟩ := ih ks (i + 1) pks' hrest j r k hr hk
            exact ⟨pk, by simpa using h1, by rw [← h2]; congr 1; omega⟩

/-- whatever the all-keys oracle accepts, the one-key oracle accepts at EVERY
    recipient index with that recipient's key, with the same decoded content -/
theorem sc_checkAll_each (m : ScMsg) (keys : List ScKey) (o : ScOpened) (h : m.checkAll P keys = .ok o)
    (j : Nat) (r : ScRecv) (k : ScKey) (hr : m.recvs[j]? = some r) (hk : keys[j]? = some k) :
    m.check P j k = .ok o := by
  unfold ScMsg.checkAll at h
  split at h
  · cases h
  · cases h
  · rename_i pk pks hall
    split at h
    · rename_i hsame
      obtain ⟨pk', h1, h2⟩ := scRecvKeysAll_get P m.eph m.recvs keys 0 (pk :: pks) hall j r k hr hk
      have : pk' = pk := by
        cases j with
        | zero => simp at h1; exact h1.symm
        | succ j =>
          simp only [List.getElem?_cons_succ] at h1
          exact eq_of_beq (List.all_eq_true.mp hsame pk' (List.mem_of_getElem? h1))
      subst this
      rw [check_body P m j k r pk' hr (by simpa using h2)]
      exact h
    · cases h

end
end Saltpack.Proofs.SDW
