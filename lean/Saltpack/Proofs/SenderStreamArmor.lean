/-
  The armored composition (packet stream → go-codec → armorEncoderStream →
  faulting writer, `closeForwarder`): the armor stream is a writer in the sense
  of `FltWriter` (its `Write` fails iff exactly one underlying write failed
  during it), so every "reported / kept" theorem of the packet streams holds
  for the armored streams; after a fault nothing more reaches the armor stream.

  Behind Props/C14Sender.lean.
-/
import Saltpack.Proofs.SenderStreamInst

namespace Saltpack.Proofs.SenderP
open Saltpack Saltpack.Sender

theorem wr_write_faults (w : Wr) (p : Bytes) :
    (w.write p).2.faults = w.faults + (if (w.write p).1 then 0 else 1) := by
  unfold Wr.write
  cases hs : w.sink with
  | nil => simp
  | cons f rest => cases f <;> simp

theorem farm_spaceOut_faults : ∀ (fuel : Nat) (s : FArm),
    (FArm.spaceOut fuel s).2.w.faults = s.w.faults + (if (FArm.spaceOut fuel s).1 then 0 else 1) := by
  intro fuel
  induction fuel with
  | zero => intro s; simp [FArm.spaceOut]
  | succ fuel ih =>
    intro s
    generalize hres : FArm.spaceOut (fuel + 1) s = r
    unfold FArm.spaceOut at hres
    by_cases hgt : s.buf.length > s.par.bytesPerWord
    · simp only [hgt, if_true] at hres
      cases hw1 : s.w.write (s.buf.take s.par.bytesPerWord) with
      | mk ok1 w1 =>
        have h1 := wr_write_faults s.w (s.buf.take s.par.bytesPerWord)
        rw [hw1] at h1
        simp only [hw1] at hres
        cases ok1 with
        | false => simp only at hres h1; subst hres; simpa using h1
        | true =>
          simp only at hres h1
          cases hw2 : w1.write [if (s.nWords + 1) % s.par.wordsPerLine = 0 then Armor.newline else Armor.space] with
          | mk ok2 w2 =>
            have h2 := wr_write_faults w1 [if (s.nWords + 1) % s.par.wordsPerLine = 0 then Armor.newline else Armor.space]
            rw [hw2] at h2
            simp only [hw2] at hres
            cases ok2 with
            | false => simp only at hres h2; subst hres; simp only; rw [h2, h1]; simp
            | true =>
              simp only at hres h2
              rw [← hres, ih]
              simp only
              rw [h2, h1]; simp
    · simp only [hgt, if_false] at hres
      subst hres; simp

/-- the armor stream's `Write` returns an error iff an underlying write failed
    during it — exactly one, the first -/
theorem farm_flt : FltWriter FArm.write (fun a => a.w.faults) := by
  constructor
  · intro a p a' h
    have := farm_spaceOut_faults ((a.feed (a.enc.write p).2.2).buf.length + 1) (a.feed (a.enc.write p).2.2)
    unfold FArm.write at h
    simp only at h
    rw [h] at this
    simpa [FArm.feed] using this
  · intro a p a' h
    have := farm_spaceOut_faults ((a.feed (a.enc.write p).2.2).buf.length + 1) (a.feed (a.enc.write p).2.2)
    unfold FArm.write at h
    simp only at h
    rw [h] at this
    simpa [FArm.feed] using this

/-- the armor stream's `Close` likewise -/
theorem farm_close_faults (s : FArm) :
    (FArm.close s).2.w.faults = s.w.faults + (if (FArm.close s).1 then 0 else 1) := by
  have h0 := farm_spaceOut_faults ((s.feed s.enc.close.2).buf.length + 1) (s.feed s.enc.close.2)
  have hf0 : (s.feed s.enc.close.2).w.faults = s.w.faults := rfl
  rw [hf0] at h0
  generalize hres : FArm.close s = r
  unfold FArm.close at hres
  simp only at hres
  cases hsp : FArm.spaceOut ((s.feed s.enc.close.2).buf.length + 1) (s.feed s.enc.close.2) with
  | mk ok s2 =>
    rw [hsp] at h0
    simp only [hsp] at hres
    cases ok with
    | false => simp only at hres h0; subst hres; simpa using h0
    | true =>
      simp only at hres h0
      cases hw1 : s2.w.write s2.buf with
      | mk ok1 w1 =>
        have h1 := wr_write_faults s2.w s2.buf
        rw [hw1] at h1
        simp only [hw1] at hres
        cases ok1 with
        | false => simp only at hres h1; subst hres; simp only; rw [h1, h0]; simp
        | true =>
          simp only at hres h1
          subst hres
          simp only
          rw [wr_write_faults, h1, h0]; simp

section failed
variable {ω : Type} (wr : ω → Bytes → Bool × ω)

/-- on a failed encoder a block writes nothing (the encoder, and with it the
    writer below, is untouched) and returns an error or panics -/
theorem failed_emit (cfg : Cfg) (f : Bool) (st : PSt ω) (hf : st.codec.failed = true) :
    (emitBlock wr cfg f st).1 ≠ none ∧ (emitBlock wr cfg f st).2.codec = st.codec := by
  generalize hres : emitBlock wr cfg f st = r
  unfold emitBlock at hres
  by_cases hr : readPanics cfg.v1shape f cfg.bs (st.buf.take cfg.bs).length (st.buf.drop cfg.bs).length = true
  · simp only [hr, if_true] at hres; subst hres; exact ⟨by simp, rfl⟩
  · simp only [hr, Bool.false_eq_true, if_false] at hres
    cases hpk : cfg.pkt st.n (st.buf.take cfg.bs) f with
    | error e => simp only [hpk] at hres; subst hres; exact ⟨by simp, rfl⟩
    | ok b =>
      simp only [hpk] at hres
      by_cases ha : assertPanics cfg.v1shape cfg.assertExtra f (st.buf.take cfg.bs).length st.n = true
      · simp only [ha, if_true] at hres; subst hres; exact ⟨by simp, rfl⟩
      · simp only [ha, Bool.false_eq_true, if_false, encode_failed wr cfg.pieces st.codec b hf] at hres
        subst hres; exact ⟨by simp, rfl⟩

theorem failed_writeLoop (cfg : Cfg) (len : Nat) : ∀ (fuel : Nat) (st : PSt ω), st.codec.failed = true →
    (writeLoop wr cfg len fuel st).2.2.codec = st.codec := by
  intro fuel
  induction fuel with
  | zero => intro st _; rfl
  | succ fuel ih =>
    intro st hf
    unfold writeLoop
    by_cases hgt : st.buf.length > cfg.bs
    · rw [if_pos hgt]
      obtain ⟨h1, h2⟩ := failed_emit wr cfg false st hf
      cases he : emitBlock wr cfg false st with
      | mk r st' =>
        rw [he] at h1 h2
        cases r with
        | none => exact absurd rfl h1
        | some e =>
          simp only at h2 ⊢
          by_cases hh : cfg.hasErr = true
          · simp only [hh, if_true]; exact h2
          · simp only [hh, Bool.false_eq_true, if_false]; exact h2
    · rw [if_neg hgt]

/-- after a fault: a `Write` leaves the encoder and the writer below untouched -/
theorem failed_write (cfg : Cfg) (st : PSt ω) (p : Bytes) (hf : st.codec.failed = true) :
    (st.write wr cfg p).2.2.codec = st.codec := by
  unfold PSt.write
  cases he : (if cfg.hasErr then st.err else none) with
  | some e => rfl
  | none => exact failed_writeLoop wr cfg p.length _ { st with buf := st.buf ++ p } hf

/-- after a fault: `Close` reports an error (or panics) and leaves the encoder
    and the writer below untouched -/
theorem failed_close (cfg : Cfg) (st : PSt ω) (hf : st.codec.failed = true) :
    (st.close wr cfg).1 ≠ none ∧ (st.close wr cfg).2.codec = st.codec := by
  unfold PSt.close
  by_cases hv : cfg.v1shape = true
  · simp only [hv, if_true]
    by_cases hgt : st.buf.length > 0
    · simp only [hgt, if_true]
      obtain ⟨h1, h2⟩ := failed_emit wr cfg false st hf
      cases he : emitBlock wr cfg false st with
      | mk r st' =>
        rw [he] at h1 h2
        cases r with
        | none => exact absurd rfl h1
        | some e => exact ⟨by simp, h2⟩
    · simp only [hgt, if_false]
      exact failed_emit wr cfg true st hf
  · simp only [hv, Bool.false_eq_true, if_false]
    exact failed_emit wr cfg true st hf

end failed

/-- `closeForwarder.Close` of an armored packet stream: success ⇒ no underlying
    write failed during it; after a fault it reports an error and neither the
    packet stream nor the armor stream writes anything (the armor stream is not
    even closed) -/
theorem armoredClose_spec (cfg : Cfg) (st : PSt FArm) :
    ((armoredClose cfg st).1 = none → (armoredClose cfg st).2.codec.w.w.faults = st.codec.w.w.faults) ∧
    (st.codec.failed = true → (armoredClose cfg st).1 ≠ none ∧ (armoredClose cfg st).2.codec = st.codec) := by
  have hcl := close_flt FArm.write (fun a => a.w.faults) farm_flt cfg st
  unfold armoredClose
  constructor
  · cases hc : st.close FArm.write cfg with
    | mk r st' =>
      rw [hc] at hcl
      cases r with
      | some e => intro h; cases h
      | none =>
        simp only
        have h1 := hcl.1 rfl
        simp only at h1
        have h2 := farm_close_faults st'.codec.w
        cases hac : st'.codec.w.close with
        | mk ok a =>
          rw [hac] at h2
          cases ok with
          | false => intro h; cases h
          | true => intro _; simp only at h2 ⊢; rw [h2, h1]; simp
  · intro hf
    obtain ⟨h1, h2⟩ := failed_close FArm.write cfg st hf
    cases hc : st.close FArm.write cfg with
    | mk r st' =>
      rw [hc] at h1 h2
      cases r with
      | none => exact absurd rfl h1
      | some e => exact ⟨by simp, h2⟩

end Saltpack.Proofs.SenderP
