/-
  The armored composition (packet stream → go-codec → armorEncoderStream →
  faulting writer, `closeForwarder`): the armor stream is a writer in the sense
  of `FltWriter` (its `Write` fails iff exactly one underlying write failed
  during it), so every "reported / kept" theorem of the packet streams holds
  for the armored streams; after a fault nothing more reaches the armor stream.

  Behind Props/C14Sender.lean.
-/
import Saltpack.Proofs.SenderStreamInst
import Saltpack.Proofs.StreamLemmas

namespace Saltpack.Proofs.SenderP
open Saltpack Saltpack.Sender

theorem wr_write_faults (w : Wr) (p : Bytes) :
    (w.write p).2.faults = w.faults + (if (w.write p).1 then 0 else 1) := by
  unfold Wr.write
  cases hs : w.sink with
  | nil => simp
  | cons f rest => cases f <;> simp

theorem farm_spaceOut_faults : ∀ (fuel : Nat) (s : FArm),
    (FArm.spaceOut fuel s).2.w.faults = s.w.faults + (if (FArm.spaceOut fuel s).1 then 0 else 1) := by
  intro fuel
  induction fuel with
  | zero => intro s; simp [FArm.spaceOut]
  | succ fuel ih =>
    intro s
    generalize hres : FArm.spaceOut (fuel + 1) s = r
    unfold FArm.spaceOut at hres
    by_cases hgt : s.buf.length > s.par.bytesPerWord
    · simp only [hgt, if_true] at hres
      cases hw1 : s.w.write (s.buf.take s.par.bytesPerWord) with
      | mk ok1 w1 =>
        have h1 := wr_write_faults s.w (s.buf.take s.par.bytesPerWord)
        rw [hw1] at h1
        simp only [hw1] at hres
        cases ok1 with
        | false => simp only at hres h1; subst hres; simpa using h1
        | true =>
          simp only at hres h1
          cases hw2 : w1.write [if (s.nWords + 1) % s.par.wordsPerLine = 0 then Armor.newline else Armor.space] with
          | mk ok2 w2 =>
            have h2 := wr_write_faults w1 [if (s.nWords + 1) % s.par.wordsPerLine = 0 then Armor.newline else Armor.space]
            rw [hw2] at h2
            simp only [hw2] at hres
            cases ok2 with
            | false => simp only at hres h2; subst hres; simp only; rw [h2, h1]; simp
            | true =>
              simp only at hres h2
              rw [← hres, ih]
              simp only
              rw [h2, h1]; simp
    · simp only [hgt, if_false] at hres
      subst hres; simp

/-! ### the armor stream's `Write` and `Close` in normal form -/

/-- what `Write` does once the call is not refused and the encoder has run -/
def farmAfter (s1 : FArm) : Bool × FArm :=
  match FArm.spaceOut (s1.buf.length + 1) s1 with
  | (true, s2) => (true, s2)
  | (false, s2) => (false, { s2 with failed := true })

theorem farmAfter_faults (s1 : FArm) :
    (farmAfter s1).2.w.faults = s1.w.faults + (if (farmAfter s1).1 then 0 else 1) := by
  have h := farm_spaceOut_faults (s1.buf.length + 1) s1
  unfold farmAfter
  cases hsp : FArm.spaceOut (s1.buf.length + 1) s1 with
  | mk ok s2 =>
    rw [hsp] at h
    cases ok <;> simpa using h

theorem farm_write_eq (a : FArm) (b : Bytes) :
    a.write b =
      if a.failed then (false, a)
      else if (a.enc.write b).2.1 then farmAfter (a.feed (a.enc.write b).2.2)
      else (false, { a.feed (a.enc.write b).2.2 with failed := true }) := by
  unfold FArm.write FArm.writeN farmAfter
  by_cases hf : a.failed = true
  · simp [hf]
  · simp only [hf, Bool.false_eq_true, if_false]
    rcases he : a.enc.write b with ⟨n, ok, e'⟩
    cases ok with
    | false => simp
    | true =>
      simp only [if_true]
      cases hsp : FArm.spaceOut ((a.feed e').buf.length + 1) (a.feed e') with
      | mk ok2 s2 => cases ok2 <;> rfl

/-- the armor stream's `Write` returns an error iff an underlying write failed
    during it — exactly one, the first — or the call was refused (`s.err` set by
    an earlier failure: no underlying write at all) or the BaseX encoder failed
    (never: `farm_encOk_write`) -/
theorem farm_write_faults (a : FArm) (b : Bytes) :
    (a.write b).2.w.faults =
      a.w.faults + (if (a.write b).1 || a.failed || !(a.enc.write b).2.1 then 0 else 1) := by
  rw [farm_write_eq]
  by_cases hf : a.failed = true
  · simp [hf]
  · by_cases he : (a.enc.write b).2.1 = true
    · simp only [hf, he, Bool.false_eq_true, if_false, if_true, Bool.or_false, Bool.not_true]
      exact farmAfter_faults _
    · simp [hf, he, FArm.feed]

/-- the armor stream is a fault-reporting writer (a refused call fails without
    any write below it: `FltWriter.fail` is `≤`) -/
theorem farm_flt : FltWriter FArm.write (fun a => a.w.faults) := by
  constructor
  · intro a p a' h
    have := farm_write_faults a p
    rw [h] at this
    simpa using this
  · intro a p a' h
    have := farm_write_faults a p
    rw [h] at this
    show a.w.faults ≤ a'.w.faults
    rw [this]; omega

/-- `Close` once it is not refused and the encoder has been closed -/
def farmCloseAfter (s1 : FArm) : Bool × FArm :=
  match FArm.spaceOut (s1.buf.length + 1) s1 with
  | (false, s2) => (false, { s2 with failed := true })
  | (true, s2) =>
    match s2.w.write s2.buf with
    | (false, w') => (false, { s2 with w := w', failed := true })
    | (true, w') =>
      let n := s2.nWords + 1
      let pad : Bytes :=
        if s2.buf.length = s2.par.bytesPerWord then
          (if n % s2.par.wordsPerLine = 0 then [Armor.newline] else [Armor.space])
        else []
      match w'.write (pad ++ [Armor.period, Armor.space] ++ s2.ftr ++ [Armor.period, Armor.newline]) with
      | (ok, w'') => (ok, { s2 with nWords := n, w := w'', failed := !ok })

theorem farm_close_eq (a : FArm) :
    a.close =
      if a.failed then (false, a)
      else if a.enc.close.1 then farmCloseAfter (a.feed a.enc.close.2)
      else (false, { a.feed a.enc.close.2 with failed := true }) := by
  unfold FArm.close farmCloseAfter
  by_cases hf : a.failed = true
  · simp [hf]
  · simp only [hf, Bool.false_eq_true, if_false]
    rcases he : a.enc.close with ⟨ok, e'⟩
    cases ok <;> rfl

theorem farmCloseAfter_faults (s : FArm) :
    (farmCloseAfter s).2.w.faults = s.w.faults + (if (farmCloseAfter s).1 then 0 else 1) := by
  have h0 := farm_spaceOut_faults (s.buf.length + 1) s
  generalize hres : farmCloseAfter s = r
  unfold farmCloseAfter at hres
  cases hsp : FArm.spaceOut (s.buf.length + 1) s with
  | mk ok s2 =>
    rw [hsp] at h0
    simp only [hsp] at hres
    cases ok with
    | false => simp only at hres h0; subst hres; simpa using h0
    | true =>
      simp only at hres h0
      cases hw1 : s2.w.write s2.buf with
      | mk ok1 w1 =>
        have h1 := wr_write_faults s2.w s2.buf
        rw [hw1] at h1
        simp only [hw1] at hres
        cases ok1 with
        | false => simp only at hres h1; subst hres; simp only; rw [h1, h0]; simp
        | true =>
          simp only at hres h1
          subst hres
          simp only
          rw [wr_write_faults, h1, h0]; simp

/-- the armor stream's `Close` likewise -/
theorem farm_close_faults (a : FArm) :
    a.close.2.w.faults = a.w.faults + (if a.close.1 || a.failed || !a.enc.close.1 then 0 else 1) := by
  rw [farm_close_eq]
  by_cases hf : a.failed = true
  · simp [hf]
  · by_cases he : a.enc.close.1 = true
    · simp only [hf, he, Bool.false_eq_true, if_false, if_true, Bool.or_false, Bool.not_true]
      exact farmCloseAfter_faults _
    · simp [hf, he, FArm.feed]

/-! ### the BaseX encoder inside the armor stream never fails (its writer is a `bytes.Buffer`) -/

open Saltpack.Stream in
theorem interior_sinkless : ∀ (fuel : Nat) (s : EncState) (p : Bytes) (n : Nat), s.sink = [] → s.failed = false →
    (EncState.interior fuel s p n).1 = true ∧ (EncState.interior fuel s p n).2.1.sink = [] ∧
    (EncState.interior fuel s p n).2.1.failed = false := by
  intro fuel
  induction fuel with
  | zero => intro s p n hs hf; exact ⟨rfl, hs, hf⟩
  | succ fuel ih =>
    intro s p n hs hf
    unfold EncState.interior
    by_cases hge : p.length ≥ s.enc.blockLen
    · simp only [if_pos hge]
      rw [under_nofail s _ hs]
      simp only [Bool.not_true, Bool.false_eq_true, if_false]
      exact ih _ _ _ hs hf
    · rw [if_neg hge]
      exact ⟨rfl, hs, hf⟩

open Saltpack.Stream in
theorem encRest_sinkless (s : EncState) (p : Bytes) (n : Nat) (hs : s.sink = []) (hf : s.failed = false) :
    (encRest s p n).2.1 = true ∧ (encRest s p n).2.2.sink = [] ∧ (encRest s p n).2.2.failed = false := by
  obtain ⟨i1, i2, i3⟩ := interior_sinkless (p.length + 1) s p n hs hf
  unfold encRest
  simp only [i1, Bool.not_true, Bool.false_eq_true, if_false]
  exact ⟨trivial, i2, i3⟩

open Saltpack.Stream in
/-- an encoder over a writer that never fails (`sink = []`) never fails -/
theorem enc_write_sinkless (s : EncState) (p : Bytes) (hs : s.sink = []) (hf : s.failed = false) :
    (s.write p).2.1 = true ∧ (s.write p).2.2.sink = [] ∧ (s.write p).2.2.failed = false := by
  rw [write_eq]
  simp only [hf, Bool.false_eq_true, if_false]
  by_cases hb : (!s.buf.isEmpty) = true
  · simp only [hb, if_true]
    by_cases hl : (encFringe s p).length < s.enc.blockLen
    · rw [if_pos hl]; exact ⟨rfl, hs, rfl⟩
    · simp only [hl, if_false]
      have hu : encFringeU s p = (true, { ({ s with buf := [] } : EncState) with
          written := s.written ++ [Basex.encode s.enc (encFringe s p)] }) := by
        unfold encFringeU
        exact under_nofail _ _ hs
      rw [hu]
      simp only [Bool.not_true, Bool.false_eq_true, if_false]
      exact encRest_sinkless _ _ _ hs hf
  · simp only [hb, Bool.false_eq_true, if_false]
    exact encRest_sinkless s p 0 hs hf

open Saltpack.Stream in
theorem enc_close_sinkless (s : EncState) (hs : s.sink = []) (hf : s.failed = false) :
    s.close.1 = true ∧ s.close.2.sink = [] ∧ s.close.2.failed = false := by
  unfold EncState.close
  by_cases hb : s.buf.isEmpty = true
  · simp [hb, hf, hs]
  · rw [if_pos (by simp [hf, hb]), under_nofail _ _ hs]
    exact ⟨rfl, hs, hf⟩

/-- the encoder of the armor stream is healthy and its writer (the
    `bytes.Buffer`) has no fault script -/
def _root_.Saltpack.Sender.FArm.EncOk (a : FArm) : Prop := a.enc.sink = [] ∧ a.enc.failed = false

theorem farm_spaceOut_frame : ∀ (fuel : Nat) (s : FArm),
    (FArm.spaceOut fuel s).2.par = s.par ∧ (FArm.spaceOut fuel s).2.enc = s.enc ∧
    (FArm.spaceOut fuel s).2.ftr = s.ftr ∧ (FArm.spaceOut fuel s).2.failed = s.failed := by
  intro fuel
  induction fuel with
  | zero => intro s; exact ⟨rfl, rfl, rfl, rfl⟩
  | succ fuel ih =>
    intro s
    unfold FArm.spaceOut
    by_cases hgt : s.buf.length > s.par.bytesPerWord
    · simp only [hgt, if_true]
      cases hw1 : s.w.write (s.buf.take s.par.bytesPerWord) with
      | mk ok1 w1 =>
        cases ok1 with
        | false => exact ⟨rfl, rfl, rfl, rfl⟩
        | true =>
          simp only
          cases hw2 : w1.write [if (s.nWords + 1) % s.par.wordsPerLine = 0 then Armor.newline else Armor.space] with
          | mk ok2 w2 =>
            cases ok2 with
            | false => exact ⟨rfl, rfl, rfl, rfl⟩
            | true => simp only; exact ih _
    · rw [if_neg hgt]
      exact ⟨rfl, rfl, rfl, rfl⟩

theorem farm_encOk_init (par : Armor.Params) (hdr ftr : Bytes) (w : Wr) : (FArm.init par hdr ftr w).2.EncOk := by
  unfold FArm.init
  cases w.write (hdr ++ [Armor.period, Armor.space]) with
  | mk ok w' => exact ⟨rfl, rfl⟩

theorem farm_encOk_write (a : FArm) (b : Bytes) (h : a.EncOk) :
    (a.enc.write b).2.1 = true ∧ (a.write b).2.EncOk := by
  obtain ⟨e1, e2, e3⟩ := enc_write_sinkless a.enc b h.1 h.2
  refine ⟨e1, ?_⟩
  rw [farm_write_eq]
  by_cases hf : a.failed = true
  · simp only [hf, if_true]; exact h
  · simp only [hf, e1, Bool.false_eq_true, if_false, if_true]
    unfold farmAfter
    have hfr := farm_spaceOut_frame ((a.feed (a.enc.write b).2.2).buf.length + 1) (a.feed (a.enc.write b).2.2)
    cases hsp : FArm.spaceOut ((a.feed (a.enc.write b).2.2).buf.length + 1) (a.feed (a.enc.write b).2.2) with
    | mk ok s2 =>
      rw [hsp] at hfr
      have hok : s2.EncOk := by unfold FArm.EncOk; rw [hfr.2.1]; exact ⟨e2, e3⟩
      cases ok <;> exact hok

theorem farm_encOk_close (a : FArm) (h : a.EncOk) : a.enc.close.1 = true ∧ a.close.2.EncOk := by
  obtain ⟨e1, e2, e3⟩ := enc_close_sinkless a.enc h.1 h.2
  refine ⟨e1, ?_⟩
  rw [farm_close_eq]
  by_cases hf : a.failed = true
  · simp only [hf, if_true]; exact h
  · simp only [hf, e1, Bool.false_eq_true, if_false, if_true]
    unfold farmCloseAfter
    have hfr := farm_spaceOut_frame ((a.feed a.enc.close.2).buf.length + 1) (a.feed a.enc.close.2)
    cases hsp : FArm.spaceOut ((a.feed a.enc.close.2).buf.length + 1) (a.feed a.enc.close.2) with
    | mk ok s2 =>
      rw [hsp] at hfr
      have hok : s2.EncOk := by unfold FArm.EncOk; rw [hfr.2.1]; exact ⟨e2, e3⟩
      cases ok with
      | false => exact hok
      | true =>
        simp only
        cases hw1 : s2.w.write s2.buf with
        | mk ok1 w1 =>
          cases ok1 with
          | false => exact hok
          | true =>
            simp only
            generalize w1.write _ = r
            exact hok

section failed
variable {ω : Type} (wr : ω → Bytes → Bool × ω)

/-- on a failed encoder a block writes nothing (the encoder, and with it the
    writer below, is untouched) and returns an error or panics -/
theorem failed_emit (cfg : Cfg) (f : Bool) (st : PSt ω) (hf : st.codec.failed = true) :
    (emitBlock wr cfg f st).1 ≠ none ∧ (emitBlock wr cfg f st).2.codec = st.codec := by
  generalize hres : emitBlock wr cfg f st = r
  unfold emitBlock at hres
  by_cases hr : readPanics cfg.v1shape f cfg.bs (st.buf.take cfg.bs).length (st.buf.drop cfg.bs).length = true
  · simp only [hr, if_true] at hres; subst hres; exact ⟨by simp, rfl⟩
  · simp only [hr, Bool.false_eq_true, if_false] at hres
    cases hpk : cfg.pkt st.n (st.buf.take cfg.bs) f with
    | error e => simp only [hpk] at hres; subst hres; exact ⟨by simp, rfl⟩
    | ok b =>
      simp only [hpk] at hres
      by_cases ha : assertPanics cfg.v1shape cfg.assertExtra f (st.buf.take cfg.bs).length st.n = true
      · simp only [ha, if_true] at hres; subst hres; exact ⟨by simp, rfl⟩
      · simp only [ha, Bool.false_eq_true, if_false, encode_failed wr cfg.pieces st.codec b hf] at hres
        subst hres; exact ⟨by simp, rfl⟩

theorem failed_writeLoop (cfg : Cfg) (len : Nat) : ∀ (fuel : Nat) (st : PSt ω), st.codec.failed = true →
    (writeLoop wr cfg len fuel st).2.2.codec = st.codec := by
  intro fuel
  induction fuel with
  | zero => intro st _; rfl
  | succ fuel ih =>
    intro st hf
    unfold writeLoop
    by_cases hgt : st.buf.length > cfg.bs
    · rw [if_pos hgt]
      obtain ⟨h1, h2⟩ := failed_emit wr cfg false st hf
      cases he : emitBlock wr cfg false st with
      | mk r st' =>
        rw [he] at h1 h2
        cases r with
        | none => exact absurd rfl h1
        | some e =>
          simp only at h2 ⊢
          by_cases hh : cfg.hasErr = true
          · simp only [hh, if_true]; exact h2
          · simp only [hh, Bool.false_eq_true, if_false]; exact h2
    · rw [if_neg hgt]

/-- after a fault: a `Write` leaves the encoder and the writer below untouched -/
theorem failed_write (cfg : Cfg) (st : PSt ω) (p : Bytes) (hf : st.codec.failed = true) :
    (st.write wr cfg p).2.2.codec = st.codec := by
  unfold PSt.write
  cases he : (if cfg.hasErr then st.err else none) with
  | some e => rfl
  | none => exact failed_writeLoop wr cfg p.length _ { st with buf := st.buf ++ p } hf

/-- after a fault: `Close` reports an error (or panics) and leaves the encoder
    and the writer below untouched -/
theorem failed_close (cfg : Cfg) (st : PSt ω) (hf : st.codec.failed = true) :
    (st.close wr cfg).1 ≠ none ∧ (st.close wr cfg).2.codec = st.codec := by
  unfold PSt.close
  by_cases hv : cfg.v1shape = true
  · simp only [hv, if_true]
    by_cases hgt : st.buf.length > 0
    · simp only [hgt, if_true]
      obtain ⟨h1, h2⟩ := failed_emit wr cfg false st hf
      cases he : emitBlock wr cfg false st with
      | mk r st' =>
        rw [he] at h1 h2
        cases r with
        | none => exact absurd rfl h1
        | some e => exact ⟨by simp, h2⟩
    · simp only [hgt, if_false]
      exact failed_emit wr cfg true st hf
  · simp only [hv, Bool.false_eq_true, if_false]
    exact failed_emit wr cfg true st hf

end failed

/-- `closeForwarder.Close` of an armored packet stream: success ⇒ no underlying
    write failed during it; after a fault it reports an error and neither the
    packet stream nor the armor stream writes anything (the armor stream is not
    even closed) -/
theorem armoredClose_spec (cfg : Cfg) (st : PSt FArm) :
    ((armoredClose cfg st).1 = none → (armoredClose cfg st).2.codec.w.w.faults = st.codec.w.w.faults) ∧
    (st.codec.failed = true → (armoredClose cfg st).1 ≠ none ∧ (armoredClose cfg st).2.codec = st.codec) := by
  have hcl := close_flt FArm.write (fun a => a.w.faults) farm_flt cfg st
  unfold armoredClose
  constructor
  · cases hc : st.close FArm.write cfg with
    | mk r st' =>
      rw [hc] at hcl
      cases r with
      | some e => intro h; cases h
      | none =>
        simp only
        have h1 := hcl.1 rfl
        simp only at h1
        have h2 := farm_close_faults st'.codec.w
        cases hac : st'.codec.w.close with
        | mk ok a =>
          rw [hac] at h2
          cases ok with
          | false => intro h; cases h
          | true => intro _; simp only at h2 ⊢; rw [h2, h1]; simp
  · intro hf
    obtain ⟨h1, h2⟩ := failed_close FArm.write cfg st hf
    cases hc : st.close FArm.write cfg with
    | mk r st' =>
      rw [hc] at h1 h2
      cases r with
      | none => exact absurd rfl h1
      | some e => exact ⟨by simp, h2⟩

end Saltpack.Proofs.SenderP
