/-
  Consequences of `Enc.WF` for the length helpers: on one block `encLen` /
  `decLen` are the table entries, they form a Galois connection
  (`encLen r ≤ c ↔ r ≤ decLen c`), and `validLen` singles out exactly the
  lengths `encLen r`.  Core Lean only.
-/
import Saltpack.Model.Basex
import Saltpack.Proofs.Digits

namespace Saltpack.Proofs
open Saltpack Saltpack.Basex

theorem base_le {e : Enc} (he : e.WF) : e.base ≤ 256 := by
  rw [← he.alpha_len]; exact nodup_bytes_length _ he.alpha_nodup

theorem base_pos {e : Enc} (he : e.WF) : 0 < e.base := by
  have := he.base_gt; omega

theorem encTab_zero {e : Enc} (he : e.WF) : e.encLenTab.getD 0 0 = 0 := by
  rcases (he.enc_least 0 (Nat.zero_le _)).2 with h | h
  · exact h
  · have : 0 < e.base ^ (e.encLenTab.getD 0 0 - 1) := Nat.pow_pos (base_pos he)
    rw [Nat.pow_zero] at h
    omega

theorem decTab_zero {e : Enc} (he : e.WF) : e.decLenTab.getD 0 0 = 0 := by
  have h := (he.dec_greatest 0 (Nat.zero_le _)).1
  rw [Nat.pow_zero] at h
  apply Classical.byContradiction
  intro hne
  have : 1 < 256 ^ (e.decLenTab.getD 0 0) := Nat.one_lt_pow hne (by omega)
  omega

theorem encLen_eq {e : Enc} (he : e.WF) (r : Nat) (hr : r ≤ e.blockLen) :
    e.encLen r = e.encLenTab.getD r 0 := by
  unfold Enc.encLen
  rcases Nat.lt_or_eq_of_le hr with h | h
  · rw [Nat.div_eq_of_lt h, Nat.mod_eq_of_lt h]; omega
  · subst h
    rw [Nat.div_self he.block_pos, Nat.mod_self, encTab_zero he, he.enc_full]; omega

theorem decLen_eq {e : Enc} (he : e.WF) (c : Nat) (hc : c ≤ e.charBlockLen) :
    e.decLen c = e.decLenTab.getD c 0 := by
  unfold Enc.decLen
  rcases Nat.lt_or_eq_of_le hc with h | h
  · rw [Nat.div_eq_of_lt h, Nat.mod_eq_of_lt h]; omega
  · subst h
    rw [Nat.div_self he.cblock_pos, Nat.mod_self, decTab_zero he, he.dec_full]; omega

theorem encLen_zero {e : Enc} (he : e.WF) : e.encLen 0 = 0 := by
  rw [encLen_eq he 0 (Nat.zero_le _), encTab_zero he]

theorem decLen_zero {e : Enc} (he : e.WF) : e.decLen 0 = 0 := by
  rw [decLen_eq he 0 (Nat.zero_le _), decTab_zero he]

theorem encLen_full {e : Enc} (he : e.WF) : e.encLen e.blockLen = e.charBlockLen := by
  rw [encLen_eq he _ (Nat.le_refl _), he.enc_full]

theorem decLen_full {e : Enc} (he : e.WF) : e.decLen e.charBlockLen = e.blockLen := by
  rw [decLen_eq he _ (Nat.le_refl _), he.dec_full]

/-- exactness of `encLen` on one block -/
theorem encLen_spec {e : Enc} (he : e.WF) (r : Nat) (hr : r ≤ e.blockLen) :
    256 ^ r ≤ e.base ^ (e.encLen r) ∧ (e.encLen r = 0 ∨ e.base ^ (e.encLen r - 1) < 256 ^ r) := by
  rw [encLen_eq he r hr]; exact he.enc_least r hr

/-- exactness of `decLen` on one block -/
theorem decLen_spec {e : Enc} (he : e.WF) (c : Nat) (hc : c ≤ e.charBlockLen) :
    256 ^ (e.decLen c) ≤ e.base ^ c ∧ e.base ^ c < 256 ^ (e.decLen c + 1) := by
  rw [decLen_eq he c hc]; exact he.dec_greatest c hc

theorem enc_galois {e : Enc} (he : e.WF) (r c : Nat) (hr : r ≤ e.blockLen) :
    256 ^ r ≤ e.base ^ c ↔ e.encLen r ≤ c := by
  obtain ⟨h1, h2⟩ := encLen_spec he r hr
  constructor
  · intro h
    rcases h2 with h2 | h2
    · omega
    · have := (Nat.pow_lt_pow_iff_right he.base_gt).mp (Nat.lt_of_lt_of_le h2 h)
      omega
  · intro h
    exact Nat.le_trans h1 (Nat.pow_le_pow_right (base_pos he) h)

theorem dec_galois {e : Enc} (he : e.WF) (r c : Nat) (hc : c ≤ e.charBlockLen) :
    256 ^ r ≤ e.base ^ c ↔ r ≤ e.decLen c := by
  obtain ⟨h1, h2⟩ := decLen_spec he c hc
  constructor
  · intro h
    have := (Nat.pow_lt_pow_iff_right (a := 256) (by omega)).mp (Nat.lt_of_le_of_lt h h2)
    omega
  · intro h
    exact Nat.le_trans (Nat.pow_le_pow_right (by omega) h) h1

/-- `encLen` and `decLen` are adjoint on one block -/
theorem galois {e : Enc} (he : e.WF) (r c : Nat) (hr : r ≤ e.blockLen) (hc : c ≤ e.charBlockLen) :
    e.encLen r ≤ c ↔ r ≤ e.decLen c :=
  (enc_galois he r c hr).symm.trans (dec_galois he r c hc)

theorem encLen_le {e : Enc} (he : e.WF) (r : Nat) (hr : r ≤ e.blockLen) :
    e.encLen r ≤ e.charBlockLen := by
  rw [galois he r _ hr (Nat.le_refl _), decLen_full he]; exact hr

theorem decLen_le {e : Enc} (he : e.WF) (c : Nat) (hc : c ≤ e.charBlockLen) :
    e.decLen c ≤ e.blockLen := by
  have h1 := (decLen_spec he c hc).1
  have h2 := (decLen_spec he _ (Nat.le_refl e.charBlockLen)).2
  rw [decLen_full he] at h2
  have h3 : e.base ^ c ≤ e.base ^ e.charBlockLen := Nat.pow_le_pow_right (base_pos he) hc
  have := (Nat.pow_lt_pow_iff_right (a := 256) (by omega)).mp
    (Nat.lt_of_le_of_lt (Nat.le_trans h1 h3) h2)
  omega

theorem decLen_mono_pred {e : Enc} (he : e.WF) (c : Nat) (hc : c ≤ e.charBlockLen) :
    e.decLen (c - 1) ≤ e.decLen c := by
  rw [← dec_galois he _ c hc]
  exact Nat.le_trans (decLen_spec he (c - 1) (by omega)).1
    (Nat.pow_le_pow_right (base_pos he) (by omega))

theorem encLen_pos {e : Enc} (he : e.WF) (r : Nat) (hr0 : 0 < r) (hr : r ≤ e.blockLen) :
    0 < e.encLen r := by
  apply Nat.pos_of_ne_zero
  intro h0
  have h1 := (encLen_spec he r hr).1
  rw [h0, Nat.pow_zero] at h1
  have : 1 < 256 ^ r := Nat.one_lt_pow (by omega) (by omega)
  omega

/-- decoding length of the encoding length of `r` bytes is `r` -/
theorem decLen_encLen {e : Enc} (he : e.WF) (r : Nat) (hr0 : 0 < r) (hr : r ≤ e.blockLen) :
    e.decLen (e.encLen r) = r := by
  have hc := encLen_le he r hr
  have hpos := encLen_pos he r hr0 hr
  have hge : r ≤ e.decLen (e.encLen r) := (galois he r _ hr hc).mp (Nat.le_refl _)
  have hle : ¬ (r + 1 ≤ e.decLen (e.encLen r)) := by
    rw [← dec_galois he (r + 1) _ hc]
    obtain ⟨_, h2⟩ := encLen_spec he r hr
    rcases h2 with h2 | h2
    · omega
    · have hb := base_le he
      have hsplit : e.base ^ (e.encLen r) = e.base ^ (e.encLen r - 1) * e.base := by
        rw [← Nat.pow_succ]; congr 1; omega
      rw [hsplit, Nat.pow_succ]
      have h3 : e.base ^ (e.encLen r - 1) * e.base ≤ e.base ^ (e.encLen r - 1) * 256 :=
        Nat.mul_le_mul_left _ hb
      have h4 : e.base ^ (e.encLen r - 1) * 256 < 256 ^ r * 256 :=
        Nat.mul_lt_mul_of_pos_right h2 (by omega)
      omega
  omega

theorem validLen_of_ne {e : Enc} (he : e.WF) (c : Nat) (hc0 : 0 < c) (hc : c ≤ e.charBlockLen)
    (h : e.decLen c ≠ e.decLen (c - 1)) : e.validLen c = true := by
  unfold Enc.validLen
  rw [he.valid_spec c hc]
  rw [decLen_eq he c hc, decLen_eq he (c - 1) (by omega)] at h
  have : (e.decLenTab.getD c 0 != e.decLenTab.getD (c - 1) 0) = true := bne_iff_ne.mpr h
  simp only [this, Bool.or_true]

theorem validLen_encLen {e : Enc} (he : e.WF) (r : Nat) (hr0 : 0 < r) (hr : r ≤ e.blockLen) :
    e.validLen (e.encLen r) = true := by
  have hc := encLen_le he r hr
  have hpos := encLen_pos he r hr0 hr
  apply validLen_of_ne he _ hpos hc
  rw [decLen_encLen he r hr0 hr]
  have : ¬ (r ≤ e.decLen (e.encLen r - 1)) := by
    rw [← galois he r _ hr (by omega)]; omega
  omega

/-- a valid block length is the encoding length of its decoding length -/
theorem encLen_decLen {e : Enc} (he : e.WF) (c : Nat) (hc0 : 0 < c) (hc : c ≤ e.charBlockLen)
    (hv : e.validLen c = true) : e.encLen (e.decLen c) = c ∧ 0 < e.decLen c := by
  rcases Nat.lt_or_eq_of_le hc with hlt | heq
  · have hne : e.decLen c ≠ e.decLen (c - 1) := by
      unfold Enc.validLen at hv
      rw [he.valid_spec c hc] at hv
      rw [decLen_eq he c hc, decLen_eq he (c - 1) (by omega)]
      have h1 : (c == e.charBlockLen) = false := by simp; omega
      have h2 : (c == 0) = false := by simp; omega
      simp only [h1, h2, Bool.false_or, bne_iff_ne, ne_eq] at hv
      exact hv
    have hmono := decLen_mono_pred he c hc
    have hr := decLen_le he c hc
    have h1 : e.encLen (e.decLen c) ≤ c := (galois he _ c hr hc).mpr (Nat.le_refl _)
    have h2 : ¬ (e.encLen (e.decLen c) ≤ c - 1) := by
      rw [galois he _ (c - 1) hr (by omega)]; omega
    omega
  · subst heq
    rw [decLen_full he, encLen_full he]
    exact ⟨rfl, he.block_pos⟩

theorem validLen_zero {e : Enc} (he : e.WF) : e.validLen 0 = true := by
  unfold Enc.validLen
  rw [he.valid_spec 0 (Nat.zero_le _)]
  simp

end Saltpack.Proofs
